/-
  XotModel.Lemmas.BytesCodec — the ENCODERS (specification side: `char::encode_utf8`,
  `char::encode_utf16` in either byte order) and the round trips through the model's decoders
  (Model/Bytes.lean: the decoders of encoding_rs as specified):
      decodeUtf8 (encodeUtf8 t) = t          decodeUtf16 be (encodeUtf16 be t) = t
  for every string `t` (every `Char` is a Unicode scalar value, so the encoders never fail).
-/
import XotModel.Model.Bytes

namespace XotModel.Bytes

theorem char_range (c : Char) : c.toNat < 0xD800 ∨ (0xDFFF < c.toNat ∧ c.toNat < 0x110000) := c.valid

theorem ofNat_eq (c : Char) (n : Nat) (h : n = c.toNat) : Char.ofNat n = c := by
  subst h; exact Char.ofNat_toNat c

/-- `char::encode_utf8`. -/
def utf8Bytes (c : Char) : Bytes :=
  let n := c.toNat
  if n < 0x80 then [n]
  else if n < 0x800 then [0xC0 + n / 64, 0x80 + n % 64]
  else if n < 0x10000 then [0xE0 + n / 4096, 0x80 + n / 64 % 64, 0x80 + n % 64]
  else [0xF0 + n / 262144, 0x80 + n / 4096 % 64, 0x80 + n / 64 % 64, 0x80 + n % 64]

/-- `str::as_bytes`: the UTF-8 form of a string. -/
def encodeUtf8 : Str → Bytes
  | [] => []
  | c :: cs => utf8Bytes c ++ encodeUtf8 cs

theorem band_false {a b : Prop} [Decidable a] [Decidable b] (h : ¬ (a ∧ b)) : (decide a && decide b) = false := by
  simp only [Bool.and_eq_false_iff, decide_eq_false_iff_not]; by_cases ha : a
  · exact Or.inr (fun hb => h ⟨ha, hb⟩)
  · exact Or.inl ha
theorem band_true {a b : Prop} [Decidable a] [Decidable b] (h : a ∧ b) : (decide a && decide b) = true := by
  simp [h.1, h.2]

theorem decodeUtf8_char (c : Char) (rest : Bytes) :
    decodeUtf8 (utf8Bytes c ++ rest) = c :: decodeUtf8 rest := by
  have hr := char_range c
  have d1 : c.toNat / 64 / 64 = c.toNat / 4096 := by rw [Nat.div_div_eq_div_mul]
  have d2 : c.toNat / 4096 / 64 = c.toNat / 262144 := by rw [Nat.div_div_eq_div_mul]
  unfold utf8Bytes
  simp only []
  split
  · rename_i h
    simp only [List.singleton_append]
    rw [decodeUtf8.eq_def]
    simp [h, Char.ofNat_toNat]
  · split
    · rename_i h1 h2
      simp only [List.cons_append, List.nil_append]
      rw [decodeUtf8.eq_def]
      have e1 : ¬ (0xC0 + c.toNat / 64 < 0x80) := by omega
      have e2 := band_true (show 0xC2 ≤ 0xC0 + c.toNat / 64 ∧ 0xC0 + c.toNat / 64 ≤ 0xDF by omega)
      have e3 := band_true (show 0x80 ≤ 0x80 + c.toNat % 64 ∧ 0x80 + c.toNat % 64 ≤ 0xBF by omega)
      simp only [e1, e2, e3, if_false, if_true]
      rw [ofNat_eq c]
      omega
    · split
      · rename_i h1 h2 h3
        simp only [List.cons_append, List.nil_append]
        rw [decodeUtf8.eq_def]
        have e1 : ¬ (0xE0 + c.toNat / 4096 < 0x80) := by omega
        have e2 := band_false (show ¬ (0xC2 ≤ 0xE0 + c.toNat / 4096 ∧ 0xE0 + c.toNat / 4096 ≤ 0xDF) by omega)
        have e3 := band_true (show 0xE0 ≤ 0xE0 + c.toNat / 4096 ∧ 0xE0 + c.toNat / 4096 ≤ 0xEF by omega)
        have e4 := band_true (show ((if (0xE0 + c.toNat / 4096 == 0xE0) = true then 0xA0 else 0x80) ≤ 0x80 + c.toNat / 64 % 64 ∧
            0x80 + c.toNat / 64 % 64 ≤ (if (0xE0 + c.toNat / 4096 == 0xED) = true then 0x9F else 0xBF)) by
          simp only [beq_iff_eq]
          split <;> split <;> omega)
        have e5 := band_true (show 0x80 ≤ 0x80 + c.toNat % 64 ∧ 0x80 + c.toNat % 64 ≤ 0xBF by omega)
        simp only [e1, e2, e3, e4, e5, if_false, if_true, Bool.false_eq_true]
        rw [ofNat_eq c]
        omega
      · rename_i h1 h2 h3
        simp only [List.cons_append, List.nil_append]
        rw [decodeUtf8.eq_def]
        have e1 : ¬ (0xF0 + c.toNat / 262144 < 0x80) := by omega
        have e2 := band_false (show ¬ (0xC2 ≤ 0xF0 + c.toNat / 262144 ∧ 0xF0 + c.toNat / 262144 ≤ 0xDF) by omega)
        have e3 := band_false (show ¬ (0xE0 ≤ 0xF0 + c.toNat / 262144 ∧ 0xF0 + c.toNat / 262144 ≤ 0xEF) by omega)
        have e3' := band_true (show 0xF0 ≤ 0xF0 + c.toNat / 262144 ∧ 0xF0 + c.toNat / 262144 ≤ 0xF4 by omega)
        have e4 := band_true (show ((if (0xF0 + c.toNat / 262144 == 0xF0) = true then 0x90 else 0x80) ≤ 0x80 + c.toNat / 4096 % 64 ∧
            0x80 + c.toNat / 4096 % 64 ≤ (if (0xF0 + c.toNat / 262144 == 0xF4) = true then 0x8F else 0xBF)) by
          simp only [beq_iff_eq]
          split <;> split <;> omega)
        have e5 := band_true (show 0x80 ≤ 0x80 + c.toNat / 64 % 64 ∧ 0x80 + c.toNat / 64 % 64 ≤ 0xBF by omega)
        have e6 := band_true (show 0x80 ≤ 0x80 + c.toNat % 64 ∧ 0x80 + c.toNat % 64 ≤ 0xBF by omega)
        simp only [e1, e2, e3, e3', e4, e5, e6, if_false, if_true, Bool.false_eq_true]
        rw [ofNat_eq c]
        omega

/-- The UTF-8 decoder gives back every string from its UTF-8 form. -/
theorem decodeUtf8_encode (t : Str) : decodeUtf8 (encodeUtf8 t) = t := by
  induction t with
  | nil => rw [encodeUtf8, decodeUtf8.eq_def]
  | cons c cs ih => rw [encodeUtf8, decodeUtf8_char, ih]

theorem encodeUtf8_append (s t : Str) : encodeUtf8 (s ++ t) = encodeUtf8 s ++ encodeUtf8 t := by
  induction s with
  | nil => rfl
  | cons c cs ih => simp only [List.cons_append, encodeUtf8, ih, List.append_assoc]

/-- An ASCII string is its own UTF-8 form. -/
theorem encodeUtf8_ascii (s : Str) (h : ∀ c ∈ s, c.toNat < 0x80) : encodeUtf8 s = s.map Char.toNat := by
  induction s with
  | nil => rfl
  | cons c cs ih =>
    have hc := h c (List.mem_cons_self)
    rw [encodeUtf8, ih (fun x hx => h x (List.mem_cons_of_mem _ hx))]
    simp [utf8Bytes, hc]

/-- Every byte of a UTF-8 form is a byte, and never 0xF8..0xFF. -/
theorem utf8Bytes_lt (c : Char) : ∀ b ∈ utf8Bytes c, b < 0xF8 := by
  have hr := char_range c
  intro b hb
  unfold utf8Bytes at hb
  simp only [] at hb
  split at hb
  · simp only [List.mem_singleton] at hb; omega
  · split at hb
    · simp only [List.mem_cons, List.not_mem_nil, or_false] at hb; omega
    · split at hb
      · simp only [List.mem_cons, List.not_mem_nil, or_false] at hb; omega
      · simp only [List.mem_cons, List.not_mem_nil, or_false] at hb; omega

theorem encodeUtf8_lt (t : Str) : ∀ b ∈ encodeUtf8 t, b < 0xF8 := by
  induction t with
  | nil => intro b hb; cases hb
  | cons c cs ih =>
    intro b hb
    rw [encodeUtf8, List.mem_append] at hb
    rcases hb with hb | hb
    · exact utf8Bytes_lt c b hb
    · exact ih b hb

/-- The first byte of a character is ASCII (and then it is the whole character) or ≥ 0xC2. -/
theorem utf8Bytes_head (c : Char) :
    (c.toNat < 0x80 ∧ utf8Bytes c = [c.toNat]) ∨
      (0x80 ≤ c.toNat ∧ ∃ b r, utf8Bytes c = b :: r ∧ 0xC2 ≤ b ∧ r ≠ [] ∧ ∀ x ∈ r, 0x80 ≤ x ∧ x ≤ 0xBF) := by
  have hr := char_range c
  unfold utf8Bytes
  simp only []
  split
  · exact Or.inl ⟨by assumption, rfl⟩
  · right
    refine ⟨by omega, ?_⟩
    split
    · exact ⟨_, _, rfl, by omega, by simp, by simp; omega⟩
    · split
      · exact ⟨_, _, rfl, by omega, by simp, by simp; omega⟩
      · exact ⟨_, _, rfl, by omega, by simp, by simp; omega⟩

/-! ### UTF-16 -/

def unit16 (be : Bool) (u : Nat) : Bytes := if be then [u / 256, u % 256] else [u % 256, u / 256]

def utf16Bytes (be : Bool) (c : Char) : Bytes :=
  if c.toNat < 0x10000 then unit16 be c.toNat
  else unit16 be (0xD800 + (c.toNat - 0x10000) / 1024) ++ unit16 be (0xDC00 + (c.toNat - 0x10000) % 1024)

theorem decodeUtf16Go_unit (be : Bool) (lead : Option Nat) (u : Nat) (rest : Bytes) :
    decodeUtf16Go be lead (unit16 be u ++ rest) =
      match lead with
      | none =>
        if isHighSurrogate u then decodeUtf16Go be (some u) rest
        else if isLowSurrogate u then replacementChar :: decodeUtf16Go be none rest
        else Char.ofNat u :: decodeUtf16Go be none rest
      | some h =>
        if isHighSurrogate u then replacementChar :: decodeUtf16Go be (some u) rest
        else if isLowSurrogate u then
          Char.ofNat (0x10000 + (h - 0xD800) * 0x400 + (u - 0xDC00)) :: decodeUtf16Go be none rest
        else replacementChar :: Char.ofNat u :: decodeUtf16Go be none rest := by
  have hu : u / 256 * 256 + u % 256 = u := by omega
  cases be
  · simp only [unit16, Bool.false_eq_true, if_false, List.cons_append, List.nil_append]
    rw [decodeUtf16Go.eq_def]
    simp only [Bool.false_eq_true, if_false, hu]
    cases lead <;> rfl
  · simp only [unit16, if_true, List.cons_append, List.nil_append]
    rw [decodeUtf16Go.eq_def]
    simp only [if_true, hu]
    cases lead <;> rfl

theorem decodeUtf16_char (be : Bool) (c : Char) (rest : Bytes) :
    decodeUtf16Go be none (utf16Bytes be c ++ rest) = c :: decodeUtf16Go be none rest := by
  have hr := char_range c
  unfold utf16Bytes
  split
  · rename_i h
    rw [decodeUtf16Go_unit]
    have h1 : isHighSurrogate c.toNat = false := by simp [isHighSurrogate]; omega
    have h2 : isLowSurrogate c.toNat = false := by simp [isLowSurrogate]; omega
    simp only [h1, h2, Bool.false_eq_true, if_false, Char.ofNat_toNat]
  · rename_i h
    rw [List.append_assoc, decodeUtf16Go_unit]
    have h1 : isHighSurrogate (0xD800 + (c.toNat - 0x10000) / 1024) = true := by simp [isHighSurrogate]; omega
    simp only [h1, if_true]
    rw [decodeUtf16Go_unit]
    have h2 : isHighSurrogate (0xDC00 + (c.toNat - 0x10000) % 1024) = false := by simp [isHighSurrogate]; omega
    have h3 : isLowSurrogate (0xDC00 + (c.toNat - 0x10000) % 1024) = true := by simp [isLowSurrogate]; omega
    simp only [h2, h3, if_true, Bool.false_eq_true, if_false]
    rw [ofNat_eq c]
    omega

/-- `str::encode_utf16` written out in one byte order. -/
def encodeUtf16 (be : Bool) : Str → Bytes
  | [] => []
  | c :: cs => utf16Bytes be c ++ encodeUtf16 be cs

/-- The UTF-16 decoder gives back every string from its UTF-16 form. -/
theorem decodeUtf16_encode (be : Bool) (t : Str) : decodeUtf16 be (encodeUtf16 be t) = t := by
  unfold decodeUtf16
  induction t with
  | nil => rw [encodeUtf16, decodeUtf16Go.eq_def]; rfl
  | cons c cs ih => rw [encodeUtf16, decodeUtf16_char, ih]

theorem encodeUtf16_append (be : Bool) (s t : Str) :
    encodeUtf16 be (s ++ t) = encodeUtf16 be s ++ encodeUtf16 be t := by
  induction s with
  | nil => rfl
  | cons c cs ih => simp only [List.cons_append, encodeUtf16, ih, List.append_assoc]

/-- The byte order marks as bytes. -/
def bom8 : Bytes := [0xEF, 0xBB, 0xBF]
def bom16 (be : Bool) : Bytes := if be then [0xFE, 0xFF] else [0xFF, 0xFE]

end XotModel.Bytes
