/-
  `open_prefixes` of `DocumentBuilder` (`Builder.openPrefixes`): the stack of the prefixes written
  in the start tags of the open elements.  What each token does to it.
-/
import XotModel.Lemmas.ParseQName
import XotModel.Model.Parse

namespace XotModel

theorem prefix_openPrefixes {b b' : Builder} {pfx : Str} {uri : StrSpan} {sp : Span}
    (h : b.prefix pfx uri sp = .ok b') : b'.openPrefixes = b.openPrefixes := by
  unfold Builder.prefix at h
  split at h
  · cases h
  · split at h
    · cases h
    · dsimp only at h
      split at h
      · cases h
      · split at h
        · cases h
        · simp only [Step.ok.injEq] at h; subst h; rfl

theorem attribute_openPrefixes {b b' : Builder} {pfx loc value : StrSpan}
    (h : b.attribute pfx loc value = .ok b') : b'.openPrefixes = b.openPrefixes := by
  unfold Builder.attribute at h
  split at h
  · cases h
  · split at h
    · cases h
    · split at h
      · cases h
      · simp only [Step.ok.injEq] at h; subst h; rfl

theorem addText_openPrefixes (b : Builder) (c : Str) : (b.addText c).1.openPrefixes = b.openPrefixes := by
  unfold Builder.addText
  split <;> rfl

theorem text_openPrefixes {b b' : Builder} {t : StrSpan} (h : b.text t = .ok b') :
    b'.openPrefixes = b.openPrefixes := by
  unfold Builder.text at h
  split at h
  · cases h
  · simp only [Step.ok.injEq] at h; subst h; exact addText_openPrefixes b _

theorem cdata_openPrefixes {b b' : Builder} {t : StrSpan} (h : b.cdata t = .ok b') :
    b'.openPrefixes = b.openPrefixes := by
  unfold Builder.cdata at h
  split at h
  · simp only [Step.ok.injEq] at h; subst h; rfl
  · simp only [Step.ok.injEq] at h; subst h; exact addText_openPrefixes b _

theorem leave_openPrefixes {b b' : Builder} {node : Path} {sp : StrSpan} (h : b.leave node sp = .ok b') :
    b'.openPrefixes = b.openPrefixes := by
  unfold Builder.leave Builder.toParent at h
  cases hp : b.parents with
  | nil => rw [hp] at h; cases h
  | cons q rest =>
    rw [hp] at h
    simp only [Step.ok.injEq] at h; subst h; rfl

/-- `open_element` pushes the prefix the start tag was written with. -/
theorem openElement_openPrefixes {b b1 : Builder} {eb : ElementBuilder} (heb : b.eb = some eb)
    (h : b.openElement = .ok b1) :
    b1.openPrefixes = eb.pfx :: b.openPrefixes ∧ ∃ n, b1.cur.value = .element n := by
  unfold Builder.openElement at h
  rw [heb] at h
  dsimp only at h
  split at h
  · cases h
  · cases h
  · split at h
    · cases h
    · cases h
    · simp only [Step.ok.injEq] at h
      subst h
      exact ⟨rfl, _, rfl⟩

theorem openElement_eb {b b1 : Builder} (h : b.openElement = .ok b1) : ∃ eb, b.eb = some eb := by
  unfold Builder.openElement at h
  split at h
  · cases h
  · exact ⟨_, by assumption⟩

/-- `close_element_immediate` on an element pops. -/
theorem closeImmediate_openPrefixes {b b' : Builder} {sp : StrSpan} {n : Nat} (hcur : b.cur.value = .element n)
    (h : b.closeImmediate sp = .ok b') : b'.openPrefixes = b.openPrefixes.tail := by
  unfold Builder.closeImmediate at h
  simp only [hcur, Value.isElement, if_true] at h
  exact leave_openPrefixes h

/-- An accepted end tag of an element was written with the prefix on top of the stack, and pops it. -/
theorem closeElement_openPrefixes {b b' : Builder} {p l sp : StrSpan} {n : Nat} (hcur : b.cur.value = .element n)
    (h : b.closeElement p l sp = .ok b') : b.openPrefixes = p.text :: b'.openPrefixes := by
  unfold Builder.closeElement at h
  split at h
  · cases h
  · cases h
  · split at h
    · cases h
    · simp only [hcur] at h
      split at h
      · cases h
      · rename_i hc
        have hs : samePrefix b.openPrefixes p.text = true := by
          cases hsp : samePrefix b.openPrefixes p.text with
          | true => rfl
          | false => simp [hsp] at hc
        have := leave_openPrefixes h
        simp only at this
        rw [this]
        unfold samePrefix at hs
        cases hop : b.openPrefixes with
        | nil => rw [hop] at hs; simp at hs
        | cons x xs =>
          rw [hop] at hs
          simp only [List.head?_cons, beq_iff_eq, Option.some.injEq] at hs
          rw [hs]; rfl

/-- What one token does to `open_prefixes`. -/
theorem openPrefixes_step {b b' : Builder} {t : Token} (h : b.step t = .ok b') :
    match t with
    | .elementEnd .open _ => ∃ eb, b.eb = some eb ∧ b'.openPrefixes = eb.pfx :: b.openPrefixes
    | .elementEnd (.close p _) _ =>
      (∃ n, b.cur.value = .element n) → b.openPrefixes = p.text :: b'.openPrefixes
    | _ => b'.openPrefixes = b.openPrefixes := by
  replace h := Builder.step_ok_core h
  cases t with
  | «attribute» pfx loc value sp =>
    simp only [Builder.stepCore] at h
    split at h
    · exact prefix_openPrefixes h
    · split at h
      · exact prefix_openPrefixes h
      · exact attribute_openPrefixes h
  | text t => exact text_openPrefixes h
  | cdata t sp => exact cdata_openPrefixes h
  | elementStart pfx loc sp =>
    simp only [Builder.stepCore, Step.ok.injEq] at h; subst h; rfl
  | elementEnd e sp =>
    cases e with
    | «open» =>
      simp only [Builder.stepCore] at h
      obtain ⟨eb, heb⟩ := openElement_eb h
      exact ⟨eb, heb, (openElement_openPrefixes heb h).1⟩
    | close p l =>
      simp only [Builder.stepCore] at h
      intro ⟨n, hn⟩
      exact closeElement_openPrefixes hn h
    | empty =>
      simp only [Builder.stepCore] at h
      split at h
      · rename_i b1 hb1
        obtain ⟨eb, heb⟩ := openElement_eb hb1
        obtain ⟨hp, n, hn⟩ := openElement_openPrefixes heb hb1
        simp only
        rw [closeImmediate_openPrefixes hn h, hp]; rfl
      · rename_i hne
        exact absurd h (by intro hh; exact hne _ hh)
  | comment t sp =>
    simp only [Builder.stepCore, Step.ok.injEq] at h; subst h; rfl
  | pi target content sp =>
    simp only [Builder.stepCore] at h
    split at h
    · cases h
    · simp only [Step.ok.injEq] at h; subst h
      simp only [Builder.processingInstruction, Builder.addLeaf]
  | declaration v e s sp =>
    simp only [Builder.stepCore] at h
    split at h
    · cases h
    · simp only [Step.ok.injEq] at h; subst h; rfl
  | dtdStart sp => cases h
  | dtdEnd sp => cases h
  | emptyDtd sp => cases h
  | entityDecl sp => cases h

end XotModel
