/-
  C08 and parsing, part 7: histories that mix direct registrations, parses, `html5()` and clone.

  * `Interner.Mono x x'`: every `get_value` / `get_id` answer of `x` is still the answer of `x'`,
    and the built-in id fields agree — kept by every step (no invariant, no bound needed).
  * `Interner.WF`: the table invariant of C08 + every registered name's namespace id is an id of
    the namespace table + the built-ins are there.  Kept by every step whose `add_name_ns` names a
    namespace id the `Xot` has issued (`Interner.RunOk`); parses and `html5()` always do.
  * `Interner.parse` is what `build` leaves (`Interner.parse_build`).
-/
import XotModel.Lemmas.IdMapParseRange

namespace XotModel
open IdParse IdMap Gen

/-! ### Answers are never taken back -/

structure Interner.Mono (x x' : Interner) : Prop where
  nsValue : ∀ id v, x.namespaceLookup.getValue id = some v → x'.namespaceLookup.getValue id = some v
  nsId : ∀ v id, x.namespaceLookup.getId v = some id → x'.namespaceLookup.getId v = some id
  pfValue : ∀ id v, x.prefixLookup.getValue id = some v → x'.prefixLookup.getValue id = some v
  pfId : ∀ v id, x.prefixLookup.getId v = some id → x'.prefixLookup.getId v = some id
  nmValue : ∀ id v, x.nameLookup.getValue id = some v → x'.nameLookup.getValue id = some v
  nmId : ∀ v id, x.nameLookup.getId v = some id → x'.nameLookup.getId v = some id
  consts : x'.noNamespaceId = x.noNamespaceId ∧ x'.emptyPrefixId = x.emptyPrefixId ∧
    x'.xmlNamespaceId = x.xmlNamespaceId ∧ x'.xmlPrefixId = x.xmlPrefixId ∧
    x'.xmlSpaceId = x.xmlSpaceId ∧ x'.xmlIdId = x.xmlIdId

theorem Interner.Mono.refl (x : Interner) : x.Mono x :=
  ⟨fun _ _ h => h, fun _ _ h => h, fun _ _ h => h, fun _ _ h => h, fun _ _ h => h, fun _ _ h => h,
   rfl, rfl, rfl, rfl, rfl, rfl⟩

theorem Interner.Mono.trans {a b c : Interner} (h1 : a.Mono b) (h2 : b.Mono c) : a.Mono c := by
  obtain ⟨c1, c2, c3, c4, c5, c6⟩ := h1.consts
  obtain ⟨d1, d2, d3, d4, d5, d6⟩ := h2.consts
  exact ⟨fun i v h => h2.nsValue i v (h1.nsValue i v h), fun v i h => h2.nsId v i (h1.nsId v i h),
    fun i v h => h2.pfValue i v (h1.pfValue i v h), fun v i h => h2.pfId v i (h1.pfId v i h),
    fun i v h => h2.nmValue i v (h1.nmValue i v h), fun v i h => h2.nmId v i (h1.nmId v i h),
    d1.trans c1, d2.trans c2, d3.trans c3, d4.trans c4, d5.trans c5, d6.trans c6⟩

theorem Interner.reg_mono (x : Interner) (r : Reg) : x.Mono (x.reg r).1 := by
  cases r with
  | pfx p =>
    exact ⟨fun _ _ h => h, fun _ _ h => h, fun _ _ h => getValue_getIdMut_mono p h,
      fun _ _ h => getId_getIdMut_mono p h, fun _ _ h => h, fun _ _ h => h, rfl, rfl, rfl, rfl, rfl, rfl⟩
  | ns u =>
    exact ⟨fun _ _ h => getValue_getIdMut_mono u h, fun _ _ h => getId_getIdMut_mono u h,
      fun _ _ h => h, fun _ _ h => h, fun _ _ h => h, fun _ _ h => h, rfl, rfl, rfl, rfl, rfl, rfl⟩
  | name l n =>
    exact ⟨fun _ _ h => h, fun _ _ h => h, fun _ _ h => h, fun _ _ h => h,
      fun _ _ h => getValue_getIdMut_mono (l, n) h, fun _ _ h => getId_getIdMut_mono (l, n) h,
      rfl, rfl, rfl, rfl, rfl, rfl⟩

theorem Interner.regAll_mono (rs : List Reg) : ∀ (x : Interner), x.Mono (x.regAll rs).1 := by
  induction rs with
  | nil => intro x; exact Interner.Mono.refl x
  | cons r rs ih => intro x; exact (x.reg_mono r).trans (ih _)

/-! ### `html5()` as a sequence of calls -/

theorem Interner.html5Names_eq (xh : Nat) (tables : List (List Str)) : ∀ (x : Interner),
    (x.html5Names xh tables).1 = (x.regAll (tables.flatMap (htmlNamesRegs x.noNamespaceId xh))).1 ∧
    (x.html5Names xh tables).2.flatten = (x.regAll (tables.flatMap (htmlNamesRegs x.noNamespaceId xh))).2 := by
  induction tables with
  | nil => intro x; exact ⟨rfl, rfl⟩
  | cons t ts ih =>
    intro x
    simp only [Interner.html5Names, List.flatMap_cons, Interner.regAll_append, List.flatten_cons]
    obtain ⟨h1, h2⟩ := ih (x.regAll (htmlNamesRegs x.noNamespaceId xh t)).1
    rw [(Interner.regAll_consts _ x).1] at h1 h2
    exact ⟨h1, by rw [h2]⟩

theorem Interner.regAll_cons (x : Interner) (r : Reg) (rs : List Reg) :
    x.regAll (r :: rs) = (((x.reg r).1.regAll rs).1, (x.reg r).2 :: ((x.reg r).1.regAll rs).2) := rfl

theorem Interner.reg_ns (x : Interner) (u : Str) : x.reg (.ns u) = x.addNamespace u := rfl

/-- `html5()` is the call sequence `html5Regs`: same interner, and the ids it stores are the ids
    those calls return (after the three namespace ids). -/
theorem Interner.html5_regs (x : Interner) :
    x.html5.1 = (x.regAll (html5Regs x.noNamespaceId (x.addNamespace xhtmlNs).2)).1 ∧
    x.html5.2.xhtml :: x.html5.2.mathml :: x.html5.2.svg :: x.html5.2.ids.flatten =
      (x.regAll (html5Regs x.noNamespaceId (x.addNamespace xhtmlNs).2)).2 := by
  unfold Interner.html5 html5Regs
  generalize html5Tables = T
  obtain ⟨h1, h2⟩ := Interner.html5Names_eq (x.addNamespace xhtmlNs).2 T
    (((x.addNamespace xhtmlNs).1.addNamespace mathmlNs).1.addNamespace svgNs).1
  have hc : (((x.addNamespace xhtmlNs).1.addNamespace mathmlNs).1.addNamespace svgNs).1.noNamespaceId
      = x.noNamespaceId := rfl
  rw [hc] at h1 h2
  rw [List.cons_append, List.cons_append, List.cons_append, List.nil_append,
    Interner.regAll_cons, Interner.regAll_cons, Interner.regAll_cons, Interner.reg_ns, Interner.reg_ns, Interner.reg_ns]
  exact ⟨h1, by rw [h2]⟩

/-! ### Well-formed interners -/

/-- The C08 table invariant, every registered name's namespace id an id of this `Xot`, the
    built-in prefixes / namespaces present, "no namespace" at id 0. -/
structure Interner.WF (x : Interner) : Prop where
  inv : x.Inv
  nsInRange : ∀ k ∈ x.nameLookup.byId, k.2 < x.namespaceLookup.byId.length
  pf2 : 2 ≤ x.prefixLookup.byId.length
  ns2 : 2 ≤ x.namespaceLookup.byId.length
  noNs : x.noNamespaceId = Env.noNamespace

theorem Interner.WF.dupFree {x : Interner} (h : x.WF) : x.env.DupFree :=
  Env.dupFree_of_inv x h.inv h.nsInRange

theorem Interner.wf_new : Interner.new.WF :=
  ⟨Interner.inv_new, by decide, by decide, by decide, by decide⟩

theorem Interner.WF.reg {x : Interner} (h : x.WF) (r : Reg) (hr : r.NsInRange x.env) : (x.reg r).1.WF := by
  have hd := Env.reg_dupFree h.dupFree r hr
  rw [← Interner.reg_env h.inv r] at hd
  have hp : x.env.PrefixOf (x.reg r).1.env := by rw [Interner.reg_env h.inv r]; exact Env.reg_prefixOf _ r
  exact ⟨Interner.reg_inv h.inv r, hd.nsInRange, Nat.le_trans h.pf2 hp.prefixes.length_le,
    Nat.le_trans h.ns2 hp.namespaces.length_le, (x.reg_consts r).1.trans h.noNs⟩

theorem Interner.WF.regAll (rs : List Reg) : ∀ {x : Interner}, x.WF → x.env.RegsInRange rs → (x.regAll rs).1.WF := by
  induction rs with
  | nil => intro x h _; exact h
  | cons r rs ih =>
    intro x h hr
    refine ih (h.reg r hr.1) ?_
    rw [Interner.reg_env h.inv r]; exact hr.2

theorem Interner.WF.parse {x : Interner} (h : x.WF) (ts : List Token) : (x.parse ts).WF :=
  h.regAll _ (buildRegs_inRange h.dupFree.prefixes h.dupFree.namespaces h.pf2 h.ns2 ts)

/-- The id `get_id_mut` returns is in range of the table it leaves — whatever the width. -/
theorem IdMap.getIdMut_lt {α : Type} [DecidableEq α] {bits : Nat} {m : IdMap α} (h : IdMap.Inv bits m) (v : α) :
    (getIdMut bits m v).2 < (getIdMut bits m v).1.byId.length := by
  obtain ⟨h1, h2⟩ := getIdMut_id h v
  rw [h1]
  exact Nat.lt_of_le_of_lt (Nat.mod_le _ _) (List.idxOf_lt_length_of_mem h2)

theorem htmlNamesRegs_inRange {e : Env} {noNs xh : Nat} (h0 : noNs < e.namespaces.length)
    (hx : xh < e.namespaces.length) (tables : List (List Str)) :
    ∀ r ∈ tables.flatMap (htmlNamesRegs noNs xh), r.NsInRange e := by
  intro r hr
  simp only [List.mem_flatMap, htmlNamesRegs, List.mem_cons, List.not_mem_nil, or_false] at hr
  obtain ⟨t, _, n, _, hr⟩ := hr
  rcases hr with rfl | rfl | rfl | rfl
  · exact h0
  · exact h0
  · exact hx
  · exact hx

theorem Interner.html5_inRange {x : Interner} (h : x.WF) :
    x.env.RegsInRange (html5Regs x.noNamespaceId (x.addNamespace xhtmlNs).2) := by
  unfold html5Regs
  rw [Env.regsInRange_append]
  refine ⟨regsInRange_of_forall _ _ (fun r hr => ?_), regsInRange_of_forall _ _ ?_⟩
  · simp only [List.mem_cons, List.not_mem_nil, or_false] at hr
    rcases hr with rfl | rfl | rfl <;> trivial
  · have hp : x.env.PrefixOf (x.env.regAll [.ns xhtmlNs, .ns mathmlNs, .ns svgNs]).1 := Env.regAll_prefixOf _ _
    have hp1 : (x.env.reg (.ns xhtmlNs)).1.PrefixOf (x.env.regAll [.ns xhtmlNs, .ns mathmlNs, .ns svgNs]).1 :=
      Env.regAll_prefixOf [.ns mathmlNs, .ns svgNs] _
    refine htmlNamesRegs_inRange ?_ ?_ _
    · rw [h.noNs]
      exact Nat.lt_of_lt_of_le (by have := h.ns2; show 0 < x.namespaceLookup.byId.length; omega)
        hp.namespaces.length_le
    · have hlt := IdMap.getIdMut_lt h.inv.ns xhtmlNs
      have he : (x.addNamespace xhtmlNs).1.env = (x.env.reg (.ns xhtmlNs)).1 := Interner.reg_env h.inv (.ns xhtmlNs)
      have : (x.addNamespace xhtmlNs).2 < (x.env.reg (.ns xhtmlNs)).1.namespaces.length := by
        rw [← he]; exact hlt
      exact Nat.lt_of_lt_of_le this hp1.namespaces.length_le

theorem Interner.WF.html5 {x : Interner} (h : x.WF) : x.html5.1.WF := by
  rw [(Interner.html5_regs x).1]
  exact h.regAll _ (Interner.html5_inRange h)

/-! ### Histories -/

/-- `parse` as a step of a history is what `build` leaves, accepted or not. -/
theorem Interner.parse_build {x : Interner} (h : x.Inv) (m : Mode) (len : Nat) (ts : List Token)
    (lexErr : Option Nat) :
    (∀ p, build m len x.env ts lexErr = .ok p → (x.parse ts).env = p.env) ∧
    (∀ e env', build m len x.env ts lexErr = .err e env' → (x.parse ts).env = env') := by
  obtain ⟨b1, b2⟩ := build_trace m len x.env ts lexErr
  unfold Interner.parse
  rw [Interner.regAll_env _ h]
  exact ⟨fun p hp => (b1 p hp).symm, fun e env' he => (b2 e env' he).symm⟩

theorem Interner.step_mono (x : Interner) (s : HStep) : x.Mono (x.step s) := by
  cases s with
  | addName s => exact x.reg_mono (.name s x.noNamespaceId)
  | addNameNs s ns => exact x.reg_mono (.name s ns)
  | addNamespace s => exact x.reg_mono (.ns s)
  | addPrefix s => exact x.reg_mono (.pfx s)
  | parse ts => exact Interner.regAll_mono _ x
  | html5 =>
    show x.Mono x.html5.1
    rw [(Interner.html5_regs x).1]; exact Interner.regAll_mono _ x
  | clone => exact Interner.Mono.refl x

theorem Interner.hstep_inv {x : Interner} (h : x.Inv) (s : HStep) : (x.step s).Inv := by
  cases s with
  | addName s => exact Interner.inv_addNameNs h s _
  | addNameNs s ns => exact Interner.inv_addNameNs h s ns
  | addNamespace s => exact Interner.inv_addNamespace h s
  | addPrefix s => exact Interner.inv_addPrefix h s
  | parse ts => exact Interner.regAll_inv _ h
  | html5 =>
    show x.html5.1.Inv
    rw [(Interner.html5_regs x).1]; exact Interner.regAll_inv _ h
  | clone => exact h

/-- The step names only namespace ids this `Xot` has issued (`add_name_ns` accepts any id). -/
def HStep.NsOk (x : Interner) : HStep → Prop
  | .addNameNs _ ns => ns < x.namespaceLookup.byId.length
  | _ => True

def Interner.RunOk (x : Interner) : List HStep → Prop
  | [] => True
  | s :: ss => s.NsOk x ∧ Interner.RunOk (x.step s) ss

theorem Interner.WF.step {x : Interner} (h : x.WF) (s : HStep) (hs : s.NsOk x) : (x.step s).WF := by
  cases s with
  | addName s =>
    refine h.reg (.name s x.noNamespaceId) ?_
    show x.noNamespaceId < x.namespaceLookup.byId.length
    rw [h.noNs]; have := h.ns2; show 0 < _; omega
  | addNameNs s ns => exact h.reg (.name s ns) hs
  | addNamespace s => exact h.reg (.ns s) trivial
  | addPrefix s => exact h.reg (.pfx s) trivial
  | parse ts => exact h.parse ts
  | html5 => exact h.html5
  | clone => exact h

theorem Interner.run_mono (ss : List HStep) : ∀ (x : Interner), x.Mono (x.run ss) := by
  induction ss with
  | nil => intro x; exact Interner.Mono.refl x
  | cons s ss ih => intro x; exact (x.step_mono s).trans (ih _)

theorem Interner.run_inv (ss : List HStep) : ∀ {x : Interner}, x.Inv → (x.run ss).Inv := by
  induction ss with
  | nil => intro x h; exact h
  | cons s ss ih => intro x h; exact ih (Interner.hstep_inv h s)

theorem Interner.run_wf (ss : List HStep) : ∀ {x : Interner}, x.WF → x.RunOk ss → (x.run ss).WF := by
  induction ss with
  | nil => intro x h _; exact h
  | cons s ss ih => intro x h hr; exact ih (h.step s hr.1) hr.2

theorem Interner.run_append (a b : List HStep) : ∀ (x : Interner), x.run (a ++ b) = (x.run a).run b := by
  induction a with
  | nil => intro x; rfl
  | cons s ss ih => intro x; exact ih _

/-- `Mono` on the `by_id` vectors: every id of `x` is an id of `x'` with the same value. -/
theorem Interner.Mono.prefixOf {x x' : Interner} (h : x.Mono x') : x.env.PrefixOf x'.env := by
  have aux : ∀ {α : Type} {l l' : List α}, (∀ (i : Nat) (v : α), l[i]? = some v → l'[i]? = some v) → l <+: l' := by
    intro α l l' hh
    rw [List.prefix_iff_getElem?]
    intro i hi
    rw [hh i l[i] (List.getElem?_eq_getElem hi)]
  exact ⟨aux h.nsValue, aux h.pfValue, aux h.nmValue⟩

end XotModel
