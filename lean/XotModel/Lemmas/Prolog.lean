/-
  The prolog written by `serialize_xml_write` (`Declaration::serialize`, `DocType::serialize`)
  against the XML 1.0 grammar, given as a small recogniser:

    [23] XMLDecl      ::= '<?xml' VersionInfo EncodingDecl? SDDecl? S? '?>'
    [24] VersionInfo  ::= S 'version' Eq ("'" VersionNum "'" | '"' VersionNum '"')
    [25] Eq           ::= S? '=' S?
    [26] VersionNum   ::= '1.' [0-9]+
    [80] EncodingDecl ::= S 'encoding' Eq ('"' EncName '"' | "'" EncName "'")
    [81] EncName      ::= [A-Za-z] ([A-Za-z0-9._] | '-')*
    [32] SDDecl       ::= S 'standalone' Eq (("'" ('yes' | 'no') "'") | ('"' ('yes' | 'no') '"'))
    [28] doctypedecl  ::= '<!DOCTYPE' S Name (S ExternalID)? S? ('[' intSubset ']' S?)? '>'
    [75] ExternalID   ::= 'SYSTEM' S SystemLiteral | 'PUBLIC' S PubidLiteral S SystemLiteral
    [11] SystemLiteral::= ('"' [^"]* '"') | ("'" [^']* "'")
    [12] PubidLiteral ::= '"' PubidChar* '"' | "'" (PubidChar - "'")* "'"
    [13] PubidChar    ::= #x20 | #xD | #xA | [a-zA-Z0-9] | [-'()+,./:=?;!*#@$_%]
    [5]  Name         ::= NameStartChar (NameChar)*

  The recognisers return the unread rest of the input.  Options are tried first (PEG style), so
  acceptance implies a derivation in the grammar; the internal subset (never written) is left out.
-/
import XotModel.Model.XmlDecl

namespace XotModel
namespace Prolog
open Gen

/-! ### Combinators -/

/-- A literal. -/
def lit : Str → Str → Option Str
  | [], s => some s
  | _ :: _, [] => none
  | p :: ps, c :: cs => if p == c then lit ps cs else none

/-- [3] S. -/
def isS (c : Char) : Bool := c == ' ' || c == '\t' || c == '\r' || c == '\n'

/-- `S?`. -/
def optS (s : Str) : Str := s.dropWhile isS

/-- `S`. -/
def reqS : Str → Option Str
  | [] => none
  | c :: cs => if isS c then some (optS cs) else none

/-- [25] Eq. -/
def eqP (s : Str) : Option Str := (lit ['='] (optS s)).map optS

/-- A quoted literal, either quote: the content up to the first matching quote, and the rest. -/
def quoted : Str → Option (Str × Str)
  | [] => none
  | q :: cs =>
    if q == '"' || q == '\'' then
      (match cs.dropWhile (· != q) with
       | [] => none
       | _ :: rest => some (cs.takeWhile (· != q), rest))
    else none

/-! ### Character classes -/

def inRange (c : Char) (lo hi : Nat) : Bool := lo ≤ c.toNat && c.toNat ≤ hi

def isAsciiLetter (c : Char) : Bool := inRange c 0x41 0x5A || inRange c 0x61 0x7A
def isAsciiDigit (c : Char) : Bool := inRange c 0x30 0x39

/-- [4] NameStartChar. -/
def isNameStartChar (c : Char) : Bool :=
  c == ':' || c == '_' || isAsciiLetter c || inRange c 0xC0 0xD6 || inRange c 0xD8 0xF6 ||
  inRange c 0xF8 0x2FF || inRange c 0x370 0x37D || inRange c 0x37F 0x1FFF || inRange c 0x200C 0x200D ||
  inRange c 0x2070 0x218F || inRange c 0x2C00 0x2FEF || inRange c 0x3001 0xD7FF ||
  inRange c 0xF900 0xFDCF || inRange c 0xFDF0 0xFFFD || inRange c 0x10000 0xEFFFF

/-- [4a] NameChar. -/
def isNameChar (c : Char) : Bool :=
  isNameStartChar c || c == '-' || c == '.' || isAsciiDigit c || c.toNat == 0xB7 ||
  inRange c 0x300 0x36F || inRange c 0x203F 0x2040

/-- [5] Name. -/
def isXmlName : Str → Bool
  | [] => false
  | c :: cs => isNameStartChar c && cs.all isNameChar

/-- [81] EncName. -/
def isEncName : Str → Bool
  | [] => false
  | c :: cs => isAsciiLetter c &&
      cs.all (fun d => isAsciiLetter d || isAsciiDigit d || d == '.' || d == '_' || d == '-')

/-- [26] VersionNum. -/
def isVersionNum : Str → Bool
  | '1' :: '.' :: d :: ds => isAsciiDigit d && ds.all isAsciiDigit
  | _ => false

/-- [13] PubidChar. -/
def isPubidChar (c : Char) : Bool :=
  c == ' ' || c == '\r' || c == '\n' || isAsciiLetter c || isAsciiDigit c ||
  ['-', '\'', '(', ')', '+', ',', '.', '/', ':', '=', '?', ';', '!', '*', '#', '@', '$', '_', '%'].contains c

/-! ### The productions -/

/-- `S keyword Eq quoted-value` with a check of the value. -/
def pseudoAttr (keyword : Str) (ok : Str → Bool) (s : Str) : Option Str :=
  match reqS s with
  | none => none
  | some s1 =>
    match lit keyword s1 with
    | none => none
    | some s2 =>
      match eqP s2 with
      | none => none
      | some s3 =>
        match quoted s3 with
        | none => none
        | some (v, rest) => if ok v then some rest else none

def kwVersion : Str := ['v','e','r','s','i','o','n']
def kwEncoding : Str := ['e','n','c','o','d','i','n','g']
def kwStandalone : Str := ['s','t','a','n','d','a','l','o','n','e']

/-- [23] XMLDecl. -/
def xmlDecl (s : Str) : Option Str :=
  match lit ['<','?','x','m','l'] s with
  | none => none
  | some s1 =>
    match pseudoAttr kwVersion isVersionNum s1 with
    | none => none
    | some s2 =>
      let s3 := (pseudoAttr kwEncoding isEncName s2).getD s2
      let s4 := (pseudoAttr kwStandalone (fun v => v == ['y','e','s'] || v == ['n','o']) s3).getD s3
      lit ['?','>'] (optS s4)

/-- [75] ExternalID (after the `S` that separates it from the name). -/
def externalId (s : Str) : Option Str :=
  match lit ['S','Y','S','T','E','M'] s with
  | some s1 =>
    (match reqS s1 with
     | none => none
     | some s2 => (quoted s2).map (·.2))
  | none =>
    match lit ['P','U','B','L','I','C'] s with
    | none => none
    | some s1 =>
      match reqS s1 with
      | none => none
      | some s2 =>
        match quoted s2 with
        | none => none
        | some (pubid, s3) =>
          if pubid.all isPubidChar then
            (match reqS s3 with
             | none => none
             | some s4 => (quoted s4).map (·.2))
          else none

/-- [28] doctypedecl (without internal subset). -/
def doctypeDecl (s : Str) : Option Str :=
  match lit ['<','!','D','O','C','T','Y','P','E'] s with
  | none => none
  | some s1 =>
    match reqS s1 with
    | none => none
    | some s2 =>
      if isXmlName (s2.takeWhile isNameChar) then
        let s3 := s2.dropWhile isNameChar
        let s4 := ((reqS s3).bind externalId).getD s3
        lit ['>'] (optS s4)
      else none

/-- [22] prolog ::= XMLDecl? Misc* (doctypedecl Misc*)?  with `Misc` restricted to white space. -/
def prolog (s : Str) : Str :=
  let s1 := optS ((xmlDecl s).getD s)
  optS ((doctypeDecl s1).getD s1)

/-! ### Facts about the combinators -/

theorem lit_append (p r : Str) : lit p (p ++ r) = some r := by
  induction p with
  | nil => cases r <;> rfl
  | cons c p ih => simp [lit, ih]

theorem optS_cons_not (c : Char) (s : Str) (h : isS c = false) : optS (c :: s) = c :: s := by
  simp [optS, List.dropWhile_cons, h]

theorem dropWhile_append_stop {α : Type} (p : α → Bool) (a : List α) (x : α) (r : List α)
    (ha : ∀ y ∈ a, p y = true) (hx : p x = false) :
    (a ++ x :: r).dropWhile p = x :: r ∧ (a ++ x :: r).takeWhile p = a := by
  induction a with
  | nil => simp [List.dropWhile_cons, List.takeWhile_cons, hx]
  | cons y a ih =>
    have hy := ha y (by simp)
    obtain ⟨i1, i2⟩ := ih (fun z hz => ha z (by simp [hz]))
    simp [List.dropWhile_cons, List.takeWhile_cons, hy, i1, i2]

/-- A double-quoted literal whose content has no double quote is read back exactly. -/
theorem quoted_dq (body r : Str) (h : '"' ∉ body) :
    quoted ('"' :: (body ++ '"' :: r)) = some (body, r) := by
  obtain ⟨h1, h2⟩ := dropWhile_append_stop (fun c => c != '"') body '"' r
    (fun y hy => by
      have : y ≠ '"' := fun e => h (e ▸ hy)
      simpa using this) (by simp)
  simp only [quoted, beq_self_eq_true, Bool.true_or, if_true]
  rw [h1, h2]

/-- With a double quote in the content the literal ends early. -/
theorem quoted_dq_early (a b r : Str) (h : '"' ∉ a) :
    quoted ('"' :: (a ++ '"' :: b ++ '"' :: r)) = some (a, b ++ '"' :: r) := by
  have := quoted_dq a (b ++ '"' :: r) h
  simpa using this

/-! ### The declaration writer -/

/-- Shape of the declaration, literally. -/
theorem declaration_bytes (d : Declaration) :
    d.bytes =
      ['<','?','x','m','l',' ','v','e','r','s','i','o','n','=','"','1','.','0','"']
      ++ (match d.encoding with
          | some e => [' ','e','n','c','o','d','i','n','g','=','"'] ++ e ++ ['"']
          | none => [])
      ++ (match d.standalone with
          | some true => [' ','s','t','a','n','d','a','l','o','n','e','=','"','y','e','s','"']
          | some false => [' ','s','t','a','n','d','a','l','o','n','e','=','"','n','o','"']
          | none => [])
      ++ ['?','>','\n'] := by
  obtain ⟨e, sa⟩ := d
  cases e <;> cases sa <;> (try rename_i b; cases b) <;> rfl

/-- Shape of the doctype declaration, literally. -/
theorem doctype_bytes (d : DocType) (name : Str) :
    d.bytes name =
      ['<','!','D','O','C','T','Y','P','E',' '] ++ name
      ++ (match d with
          | .pub p s => [' ','P','U','B','L','I','C',' ','"'] ++ p ++ ['"',' ','"'] ++ s ++ ['"']
          | .sys s => [' ','S','Y','S','T','E','M',' ','"'] ++ s ++ ['"'])
      ++ ['>','\n'] := by
  cases d <;> rfl

theorem encName_no_quote (e : Str) (h : isEncName e = true) : '"' ∉ e := by
  cases e with
  | nil => simp
  | cons c cs =>
    simp only [isEncName, Bool.and_eq_true, List.all_eq_true] at h
    intro hm
    rcases List.mem_cons.mp hm with rfl | hm
    · exact absurd h.1 (by decide)
    · exact absurd (h.2 _ hm) (by decide)

theorem pubid_no_quote (p : Str) (h : p.all isPubidChar = true) : '"' ∉ p := by
  intro hm
  exact absurd (List.all_eq_true.mp h _ hm) (by decide)

/-- The encoding pseudo-attribute as written is read back when the value is an `EncName`. -/
theorem pseudoAttr_written (kw : Str) (ok : Str → Bool) (open_ v r : Str)
    (hopen : open_ = ' ' :: kw ++ ['=', '"']) (hk : ∀ r', optS (kw ++ r') = kw ++ r')
    (hv : ok v = true) (hq : '"' ∉ v) :
    pseudoAttr kw ok (open_ ++ v ++ '"' :: r) = some r := by
  subst hopen
  have h1 : reqS ((' ' :: kw ++ ['=', '"']) ++ v ++ '"' :: r) = some (kw ++ ('=' :: '"' :: (v ++ '"' :: r))) := by
    simp only [List.cons_append, List.append_assoc, reqS]
    rw [if_pos (by decide)]
    simpa using hk ('=' :: '"' :: (v ++ '"' :: r))
  unfold pseudoAttr
  rw [h1]
  simp only [lit_append]
  have h2 : eqP ('=' :: '"' :: (v ++ '"' :: r)) = some ('"' :: (v ++ '"' :: r)) := by
    simp [eqP, optS, List.dropWhile_cons, isS, lit]
  rw [h2]
  simp only [quoted_dq v r hq, hv, if_true]

theorem optS_kwEncoding (r : Str) : optS (kwEncoding ++ r) = kwEncoding ++ r := rfl
theorem optS_kwStandalone (r : Str) : optS (kwStandalone ++ r) = kwStandalone ++ r := rfl
theorem optS_kwVersion (r : Str) : optS (kwVersion ++ r) = kwVersion ++ r := rfl

/-- An absent pseudo-attribute: the recogniser reads nothing. -/
theorem pseudoAttr_absent_q (kw : Str) (ok : Str → Bool) (r : Str) :
    pseudoAttr kw ok ('?' :: r) = none := by
  simp [pseudoAttr, reqS, isS]

def saOk (v : Str) : Bool := v == ['y','e','s'] || v == ['n','o']

def verBytes : Str := [' ','v','e','r','s','i','o','n','=','"','1','.','0','"']
def encOpenBytes : Str := [' ','e','n','c','o','d','i','n','g','=','"']
def saOpenBytes : Str := [' ','s','t','a','n','d','a','l','o','n','e','=','"']

/-- After `<?xml` and the version: the optional parts, then `?>`. -/
theorem xmlDecl_steps (x : Str) :
    xmlDecl (['<','?','x','m','l'] ++ (verBytes ++ x)) =
      (let s3 := (pseudoAttr kwEncoding isEncName x).getD x
       let s4 := (pseudoAttr kwStandalone saOk s3).getD s3
       lit ['?','>'] (optS s4)) := by
  have hver : pseudoAttr kwVersion isVersionNum (verBytes ++ x) = some x := by
    have := pseudoAttr_written kwVersion isVersionNum [' ','v','e','r','s','i','o','n','=','"'] ['1','.','0'] x
      rfl optS_kwVersion (by decide) (by decide)
    simpa [verBytes] using this
  unfold xmlDecl
  simp only [lit_append, hver]
  rfl

theorem enc_step_some (e x : Str) (he : isEncName e = true) :
    pseudoAttr kwEncoding isEncName (encOpenBytes ++ e ++ '"' :: x) = some x :=
  pseudoAttr_written kwEncoding isEncName _ e x rfl optS_kwEncoding he (encName_no_quote e he)

theorem enc_step_sa (x : Str) : pseudoAttr kwEncoding isEncName (saOpenBytes ++ x) = none := by
  simp [pseudoAttr, reqS, isS, optS, lit, kwEncoding, saOpenBytes]

theorem sa_step_some (v x : Str) (hv : saOk v = true) (hq : '"' ∉ v) :
    pseudoAttr kwStandalone saOk (saOpenBytes ++ v ++ '"' :: x) = some x :=
  pseudoAttr_written kwStandalone saOk _ v x rfl optS_kwStandalone hv hq

/-- The three optional parts as `Declaration::serialize` writes them. -/
def encPart (d : Declaration) : Str :=
  match d.encoding with
  | some e => encOpenBytes ++ e ++ ['"']
  | none => []

def saPart (d : Declaration) : Str :=
  match d.standalone with
  | some b => saOpenBytes ++ (if b then ['y','e','s'] else ['n','o']) ++ ['"']
  | none => []

theorem declaration_bytes_parts (d : Declaration) :
    d.bytes = ['<','?','x','m','l'] ++ (verBytes ++ (encPart d ++ (saPart d ++ ['?','>','\n']))) := by
  obtain ⟨e, sa⟩ := d
  cases e <;> cases sa <;>
    simp [Declaration.bytes, encPart, saPart, verBytes, encOpenBytes, saOpenBytes, declOpen,
      declEncodingOpen, declEncodingClose, declStandaloneOpen, declStandaloneClose, declClose,
      declYes, declNo]
  all_goals (rename_i b; cases b <;> simp)

/-- (b) for the declaration: written with an `EncName` (or no encoding), the bytes are an `XMLDecl`
    of the grammar, read up to the line break the writer appends. -/
theorem xmlDecl_written (d : Declaration) (r : Str)
    (henc : ∀ e, d.encoding = some e → isEncName e = true) :
    xmlDecl (d.bytes ++ r) = some ('\n' :: r) := by
  rw [declaration_bytes_parts]
  simp only [List.append_assoc]
  rw [xmlDecl_steps]
  have hclose : lit ['?','>'] (optS (['?','>','\n'] ++ r)) = some ('\n' :: r) := rfl
  have hsa : ∀ x : Str, x = ['?','>','\n'] ++ r →
      (pseudoAttr kwStandalone saOk (saPart d ++ x)).getD (saPart d ++ x) = x := by
    intro x hx
    unfold saPart
    cases hs : d.standalone with
    | none => subst hx; simp [pseudoAttr_absent_q]
    | some b =>
      cases b
      · have := sa_step_some ['n','o'] x (by decide) (by decide)
        simp only [List.append_assoc, List.cons_append, List.nil_append] at this
        simp [this]
      · have := sa_step_some ['y','e','s'] x (by decide) (by decide)
        simp only [List.append_assoc, List.cons_append, List.nil_append] at this
        simp [this]
  have henc2 : ∀ x : Str, (x = ['?','>','\n'] ++ r ∨ ∃ y, x = saOpenBytes ++ y) →
      (pseudoAttr kwEncoding isEncName (encPart d ++ x)).getD (encPart d ++ x) = x := by
    intro x hx
    unfold encPart
    cases he : d.encoding with
    | none =>
      rcases hx with rfl | ⟨y, rfl⟩
      · simp [pseudoAttr_absent_q]
      · simp [enc_step_sa]
    | some e =>
      have := enc_step_some e x (henc e he)
      simp only [List.append_assoc, List.cons_append, List.nil_append] at this
      simp [this]
  have hx : (saPart d ++ (['?','>','\n'] ++ r) = ['?','>','\n'] ++ r ∨
      ∃ y, saPart d ++ (['?','>','\n'] ++ r) = saOpenBytes ++ y) := by
    unfold saPart
    cases d.standalone with
    | none => exact Or.inl rfl
    | some b => exact Or.inr ⟨_, by simp only [List.append_assoc]; rfl⟩
  simp only []
  rw [henc2 _ hx, hsa _ rfl]
  exact hclose

/-! ### The doctype writer -/

theorem isS_cases {c : Char} (h : isS c = true) : c = ' ' ∨ c = '\t' ∨ c = '\r' ∨ c = '\n' := by
  simpa [isS, or_assoc] using h

theorem nameStart_not_S {c : Char} (h : isNameStartChar c = true) : isS c = false := by
  cases hs : isS c with
  | false => rfl
  | true =>
    rcases isS_cases hs with rfl | rfl | rfl | rfl <;> exact absurd h (by decide)

theorem xmlName_all (name : Str) (h : isXmlName name = true) :
    (∀ c ∈ name, isNameChar c = true) ∧ optS name = name ∧ ∀ x, optS (name ++ x) = name ++ x := by
  cases name with
  | nil => cases h
  | cons c cs =>
    simp only [isXmlName, Bool.and_eq_true, List.all_eq_true] at h
    refine ⟨?_, optS_cons_not c cs (nameStart_not_S h.1), fun x => optS_cons_not c (cs ++ x) (nameStart_not_S h.1)⟩
    intro d hd
    rcases List.mem_cons.mp hd with rfl | hd
    · simp [isNameChar, h.1]
    · exact h.2 d hd

def doctypeKw : Str := ['<','!','D','O','C','T','Y','P','E']

/-- After `<!DOCTYPE name`: the external identifier, then `>`. -/
theorem doctypeDecl_steps (name x : Str) (hn : isXmlName name = true) :
    doctypeDecl (doctypeKw ++ ' ' :: (name ++ ' ' :: x)) =
      lit ['>'] (optS ((externalId (optS x)).getD (' ' :: x))) := by
  obtain ⟨hall, _, hopt⟩ := xmlName_all name hn
  obtain ⟨hd, ht⟩ := dropWhile_append_stop isNameChar name ' ' x hall (by decide)
  unfold doctypeDecl
  have h1 : lit ['<','!','D','O','C','T','Y','P','E'] (doctypeKw ++ ' ' :: (name ++ ' ' :: x)) =
      some (' ' :: (name ++ ' ' :: x)) := lit_append _ _
  have h2 : reqS (' ' :: (name ++ ' ' :: x)) = some (name ++ ' ' :: x) := by
    simp only [reqS]
    rw [if_pos (by decide), hopt]
  simp only [h1, h2, ht, hn, if_true, hd]
  have h3 : reqS (' ' :: x) = some (optS x) := by
    simp only [reqS]
    rw [if_pos (by decide)]
  rw [h3]
  rfl

theorem externalId_system (sysId x : Str) (hs : '"' ∉ sysId) :
    externalId (['S','Y','S','T','E','M',' ','"'] ++ sysId ++ '"' :: x) = some x := by
  have h1 : lit ['S','Y','S','T','E','M'] (['S','Y','S','T','E','M',' ','"'] ++ sysId ++ '"' :: x) =
      some (' ' :: '"' :: (sysId ++ '"' :: x)) := by
    have := lit_append ['S','Y','S','T','E','M'] (' ' :: '"' :: (sysId ++ '"' :: x))
    simpa using this
  have h2 : reqS (' ' :: '"' :: (sysId ++ '"' :: x)) = some ('"' :: (sysId ++ '"' :: x)) := by
    simp only [reqS]
    rw [if_pos (by decide), optS_cons_not _ _ (by decide)]
  unfold externalId
  simp only [h1, h2, quoted_dq sysId x hs, Option.map_some]

theorem externalId_public (pubId sysId x : Str) (hp : pubId.all isPubidChar = true) (hs : '"' ∉ sysId) :
    externalId (['P','U','B','L','I','C',' ','"'] ++ pubId ++ ['"',' ','"'] ++ sysId ++ '"' :: x) = some x := by
  have h0 : lit ['S','Y','S','T','E','M']
      (['P','U','B','L','I','C',' ','"'] ++ pubId ++ ['"',' ','"'] ++ sysId ++ '"' :: x) = none := by
    simp [lit]
  have h1 : lit ['P','U','B','L','I','C']
      (['P','U','B','L','I','C',' ','"'] ++ pubId ++ ['"',' ','"'] ++ sysId ++ '"' :: x) =
      some (' ' :: '"' :: (pubId ++ '"' :: (' ' :: '"' :: (sysId ++ '"' :: x)))) := by
    have := lit_append ['P','U','B','L','I','C'] (' ' :: '"' :: (pubId ++ '"' :: (' ' :: '"' :: (sysId ++ '"' :: x))))
    simpa using this
  have h2 : ∀ y : Str, reqS (' ' :: '"' :: y) = some ('"' :: y) := by
    intro y
    simp only [reqS]
    rw [if_pos (by decide), optS_cons_not _ _ (by decide)]
  unfold externalId
  simp only [h0, h1, h2, quoted_dq pubId _ (pubid_no_quote pubId hp), hp, if_true,
    quoted_dq sysId x hs, Option.map_some]

/-- What the caller must guarantee about the identifiers. -/
def idsOk : DocType → Bool
  | .pub p s => p.all isPubidChar && !s.contains '"'
  | .sys s => !s.contains '"'

/-- (b) for the doctype: written with an XML `Name`, a public identifier of `PubidChar`s and a
    system identifier without `"`, the bytes are a `doctypedecl` of the grammar, read up to the
    line break the writer appends. -/
theorem doctypeDecl_written (d : DocType) (name r : Str) (hn : isXmlName name = true)
    (hd : idsOk d = true) : doctypeDecl (d.bytes name ++ r) = some ('\n' :: r) := by
  rw [doctype_bytes]
  cases d with
  | sys s =>
    have hs : '"' ∉ s := by simpa [idsOk] using hd
    have h := doctypeDecl_steps name (['S','Y','S','T','E','M',' ','"'] ++ s ++ '"' :: ('>' :: '\n' :: r)) hn
    have he := externalId_system s ('>' :: '\n' :: r) hs
    have ho : optS (['S','Y','S','T','E','M',' ','"'] ++ s ++ '"' :: ('>' :: '\n' :: r)) =
        ['S','Y','S','T','E','M',' ','"'] ++ s ++ '"' :: ('>' :: '\n' :: r) := rfl
    rw [ho, he] at h
    simp only [doctypeKw, List.cons_append, List.nil_append, List.append_assoc] at h ⊢
    rw [h]
    rfl
  | pub p s =>
    simp only [idsOk, Bool.and_eq_true] at hd
    have hs : '"' ∉ s := by simpa using hd.2
    have h := doctypeDecl_steps name
      (['P','U','B','L','I','C',' ','"'] ++ p ++ ['"',' ','"'] ++ s ++ '"' :: ('>' :: '\n' :: r)) hn
    have he := externalId_public p s ('>' :: '\n' :: r) hd.1 hs
    have ho : optS (['P','U','B','L','I','C',' ','"'] ++ p ++ ['"',' ','"'] ++ s ++ '"' :: ('>' :: '\n' :: r)) =
        ['P','U','B','L','I','C',' ','"'] ++ p ++ ['"',' ','"'] ++ s ++ '"' :: ('>' :: '\n' :: r) := rfl
    rw [ho, he] at h
    simp only [doctypeKw, List.cons_append, List.nil_append, List.append_assoc] at h ⊢
    rw [h]
    rfl

/-! ### Necessity: closed witnesses -/

/-- An encoding with a double quote is written literally and ends the literal early: no `XMLDecl`. -/
theorem xmlDecl_quote_witness :
    (⟨some ['x','"','y'], none⟩ : Declaration).bytes =
      ['<','?','x','m','l',' ','v','e','r','s','i','o','n','=','"','1','.','0','"',
       ' ','e','n','c','o','d','i','n','g','=','"','x','"','y','"','?','>','\n'] ∧
    xmlDecl ((⟨some ['x','"','y'], none⟩ : Declaration).bytes) = none := by decide

/-- Quote-freeness is not enough: `encoding="é"` and `encoding=""` are no `EncName`s. -/
theorem xmlDecl_encname_witness :
    xmlDecl ((⟨some ['é'], none⟩ : Declaration).bytes) = none ∧
    xmlDecl ((⟨some [], none⟩ : Declaration).bytes) = none ∧
    xmlDecl ((⟨some ['a',' ','b'], some true⟩ : Declaration).bytes) = none := by decide

theorem doctypeDecl_quote_witness :
    doctypeDecl ((DocType.sys ['x','"','y']).bytes ['a']) = none ∧
    doctypeDecl ((DocType.pub ['p','"','q'] ['d']).bytes ['a']) = none ∧
    doctypeDecl ((DocType.pub ['p','<','q'] ['d']).bytes ['a']) = none := by decide

end Prolog
end XotModel
