/-
  The resolver over the tokens of a whole serialisation run, by structural recursion over the tree
  (the events of a subtree are `genNode`; the `FullnameSerializer` stack is back where it was after
  them: Lemmas/TraceInv).
-/
import XotModel.Lemmas.SerResolveRun

namespace XotModel.SerResolve
open XotModel

/-- Every element at or below `n` declares registered prefixes only and does not rebind `xml`. -/
def DeclsOkBelow (env : Env) (n : Tree) : Prop := ∀ rel y, n.at? rel = some y → DeclsOk env (frameOf y)

theorem DeclsOkBelow.kid {env : Env} {v : Value} {ks : List Tree} (h : DeclsOkBelow env (.node v ks))
    {i : Nat} {k : Tree} (hk : ks[i]? = some k) : DeclsOkBelow env k := by
  intro rel y hy
  apply h (i :: rel) y
  rw [at?_cons, hk]
  exact hy

/-- The declaration events of a start tag. -/
def declEvs (isTop : Bool) (inScope : List (Nat × Nat)) (n : Tree) : List (Nat × Nat) :=
  if isTop then topDecls inScope n else n.nsDecls

theorem headEvents_eq (inScope : List (Nat × Nat)) (isTop : Bool) (path : Path) (n : Tree) :
    headEvents inScope isTop path n =
      (declEvs isTop inScope n).map (fun d => (path, Output.pfx d.1 d.2)) ++
        (n.attrs.map (fun a => (path, Output.attribute a.1 a.2)) ++ [(path, Output.startTagClose)]) := by
  cases isTop <;>
    simp [headEvents, declEvs, topDecls, extraPrefixes, List.map_append, List.map_map, Function.comp_def]

variable (esc : Escapers) (env : Env) (pr : TokenParams) (t : Tree) (unesc : Str → Str)

theorem render_neutral_stack {s s' : FStack} {path : Path} {o : Output} {tok : OutputToken}
    (ho : o.isNeutral = true) (h : renderAtWith esc env pr t s path o = .ok (s', tok)) : s' = s := by
  have : stepStack esc env pr t s (path, o) = some s' := by simp [stepStack, h]
  exact stepStack_neutral esc env pr t s s' path o ho this

/-- The start-tag-open token. -/
theorem render_open {s s' : FStack} {path : Path} {node : Tree} (hat : t.at? path = some node) {name : Nat}
    {tok : OutputToken} (h : renderAtWith esc env pr t s path (.startTagOpen name) = .ok (s', tok)) :
    ∃ pfx, s' = s.push node.nsDecls ∧ (s.push node.nsDecls).elementPrefix env name = .ok pfx ∧
      tok.text = fmt Gen.fmtStartTagOpen [qname env pfx name] ∧
      ¬ (env.nsOfName name = Env.noNamespace ∧ (s.push node.nsDecls).hasDefaultNamespace = true) := by
  simp only [renderAtWith, hat, renderXmlWith] at h
  split at h
  · cases h
  · rename_i hc
    unfold FStack.elementFullname at h
    cases hp : (s.push node.nsDecls).elementPrefix env name with
    | error e => simp [hp] at h
    | ok pfx =>
      simp only [hp, Outcome.ok.injEq, Prod.mk.injEq] at h
      obtain ⟨rfl, rfl⟩ := h
      exact ⟨pfx, rfl, rfl, rfl, fun hh => hc (by simp [hh.1, hh.2])⟩

/-- The end-tag token, rendered with the stack the start tag was rendered with. -/
theorem render_end {s s' : FStack} {path : Path} {node : Tree} (hat : t.at? path = some node) {name : Nat}
    {pfx : Option Nat} (hp : s.elementPrefix env name = .ok pfx)
    {tok : OutputToken} (h : renderAtWith esc env pr t s path (.endTag name) = .ok (s', tok)) :
    tok.text = [] ∨ tok.text = fmt Gen.fmtEndTag [qname env pfx name] := by
  simp only [renderAtWith, hat, renderXmlWith, FStack.elementFullname, hp] at h
  split at h
  · simp only [Outcome.ok.injEq, Prod.mk.injEq] at h
    exact Or.inr (by rw [← h.2])
  · simp only [Outcome.ok.injEq, Prod.mk.injEq] at h
    exact Or.inl (by rw [← h.2]; rfl)

mutual
theorem genNode_seg (h : EnvStrings env) (hue : ∀ u, unesc (esc.attr u) = u)
    (inScope : List (Nat × Nat)) (isTop : Bool) (path : Path) (n : Tree)
    (hat : t.at? path = some n) (hu : UniqueBelow n) (hdk : DeclsOkBelow env n)
    (s : FStack) (fs : Frames) (hinv : StackInv s fs) (hok : FramesOk env fs) (sc : List SFrame)
    (h1 : isTop = true → n.value.isElement = true →
      Corr env (strFrame env (topDecls inScope n) :: sc) (n.nsDecls :: fs))
    (h2 : (isTop = false ∨ n.value.isElement = false) → Corr env sc fs)
    (toks : List Tok) (hr : renderAllWith esc env pr t s (genNode inScope isTop path n) = .ok toks) :
    SegOk env unesc sc toks := by
  cases n with
  | node v ks =>
    have hkat : ∀ (j : Nat) (k : Tree), ks[j]? = some k → t.at? (path ++ [0 + j]) = some k := by
      intro j k hk
      rw [at?_append, hat]
      simp only [Nat.zero_add]
      rw [at?_cons, hk]
      rfl
    have hku : ∀ (j : Nat) (k : Tree), ks[j]? = some k → UniqueBelow k := fun j k hk => hu.kid hk
    have hkd : ∀ (j : Nat) (k : Tree), ks[j]? = some k → DeclsOkBelow env k := fun j k hk => hdk.kid hk
    -- a node that is not an element: its own token (if any) is skipped, then the children
    have other : ∀ (o : Output), o.isNeutral = true →
        ((∃ x, o = .text x) ∨ (∃ x, o = .comment x) ∨ (∃ a b, o = .pi a b)) →
        Corr env sc fs →
        renderAllWith esc env pr t s ((path, o) :: genNode.genKids inScope path 0 ks) = .ok toks →
        SegOk env unesc sc toks := by
      intro o hn ho hc hr'
      obtain ⟨s1, tok, l, r1, r2, rfl⟩ := renderAll_cons_ok esc env pr t hr'
      have := render_neutral_stack esc env pr t hn r1
      subst this
      exact segOk_append env unesc (L1 := [(path, o, tok)]) (segOk_other env unesc path o tok ho)
        (genKids_seg h hue inScope path 0 ks hkat hku hkd s1 fs hinv hok sc hc l r2)
    cases v with
    | element name =>
      rw [genNode_element_split, headEvents_eq] at hr
      simp only [List.append_assoc] at hr
      have hD : DeclsOk env (Tree.node (.element name) ks).nsDecls := hdk [] _ rfl
      have hun : UniquePrefixes (Tree.node (.element name) ks).nsDecls := hu [] _ rfl
      have hinv1 := hinv.push' hun
      have hok1 : FramesOk env ((Tree.node (.element name) ks).nsDecls :: fs) := by
        intro f hf
        rcases List.mem_cons.mp hf with rfl | hf
        · exact hD
        · exact hok f hf
      -- the scope the resolver holds inside the element
      have hcorr : Corr env (strFrame env (declEvs isTop inScope (.node (.element name) ks)) :: sc)
          ((Tree.node (.element name) ks).nsDecls :: fs) := by
        cases isTop with
        | true => exact h1 rfl rfl
        | false => exact corr_push h (h2 (Or.inl rfl)) hok hD
      obtain ⟨s1, tok0, l0, r0, rr0, rfl⟩ := renderAll_cons_ok esc env pr t hr
      obtain ⟨pfx, rfl, hp, htext0, hcheck⟩ := render_open esc env pr t hat r0
      obtain ⟨dt, l1, rfl, rr1, d3, d4⟩ := decl_run esc env pr t unesc h hue path _ hat _ _ _ l0 rr0
      obtain ⟨at', l2, qs, rfl, rr2, a3, a4, a5⟩ := attr_run esc env pr t unesc h path _ hat _ _ hinv1 hok1 _ hcorr
        _ _ l1 rr1
      simp only [List.singleton_append] at rr2
      obtain ⟨s2, tokc, l3, r3, rr3, rfl⟩ := renderAll_cons_ok esc env pr t rr2
      have := render_neutral_stack esc env pr t (o := .startTagClose) rfl r3
      subst this
      obtain ⟨ta, tb, s3, k1, k2, k3, rfl⟩ := renderAll_append_ok esc env pr t _ _ _ l3 rr3
      have := (genKids_trace esc env pr t inScope path 0 ks hkat hku _ _ hinv1).2 s3 k2
      subst this
      obtain ⟨s4, toke, l4, r4, rr4, rfl⟩ := renderAll_cons_ok esc env pr t k3
      simp only [renderAllWith, Outcome.ok.injEq] at rr4
      subst rr4
      obtain ⟨kout, ko1, ko2⟩ := genKids_seg h hue inScope path 0 ks hkat hku hkd _ _ hinv1 hok1 _ hcorr ta k1
      have hel := element_resolves h hcorr hok1 hinv1 name pfx hp hcheck
      refine ⟨expandedName env false name ::
          ((Tree.node (.element name) ks).attrs.map Prod.fst).map (expandedName env true) ++ kout ++
          (if toke.text.isEmpty then [] else [expandedName env false name]), fun rest => ?_, fun erest => ?_⟩
      · simp only [view_cons, view_append, List.cons_append, List.append_assoc, kindOf_startTagOpen,
          kindOf_startTagClose, kindOf_endTag, List.nil_append]
        rw [resolveGo, htext0, startName_fmt, d3, a3]
        simp only [List.nil_append, resolveGo]
        rw [ko1, hel, a5]
        simp only [resolveGo, List.tail_cons, List.append_assoc, List.cons_append]
        congr 2
        congr 1
        congr 1
        rcases render_end esc env pr t hat hp r4 with he | he
        · simp [he]
        · rw [he, fmt_endTag_ne_nil, endName_fmt, hel]
      · simp only [evs_cons, evs_append, List.cons_append, List.append_assoc, List.nil_append]
        rw [expectedGo, d4, a4]
        simp only [List.nil_append, expectedGo]
        rw [ko2]
        simp only [expectedGo, List.append_assoc, List.cons_append]
        rfl
    | document =>
      rw [genNode_document] at hr
      exact genKids_seg h hue inScope path 0 ks hkat hku hkd s fs hinv hok sc (h2 (Or.inr rfl)) toks hr
    | text x =>
      rw [genNode_text] at hr
      exact other (.text x) rfl (Or.inl ⟨x, rfl⟩) (h2 (Or.inr rfl)) hr
    | comment x =>
      rw [genNode_comment] at hr
      exact other (.comment x) rfl (Or.inr (Or.inl ⟨x, rfl⟩)) (h2 (Or.inr rfl)) hr
    | pi a b =>
      rw [genNode_pi] at hr
      exact other (.pi a b) rfl (Or.inr (Or.inr ⟨a, b, rfl⟩)) (h2 (Or.inr rfl)) hr
    | «attribute» a b =>
      rw [genNode_attribute] at hr
      exact genKids_seg h hue inScope path 0 ks hkat hku hkd s fs hinv hok sc (h2 (Or.inr rfl)) toks hr
    | «namespace» a b =>
      rw [genNode_namespace] at hr
      exact genKids_seg h hue inScope path 0 ks hkat hku hkd s fs hinv hok sc (h2 (Or.inr rfl)) toks hr

theorem genKids_seg (h : EnvStrings env) (hue : ∀ u, unesc (esc.attr u) = u)
    (inScope : List (Nat × Nat)) (path : Path) (i : Nat) (ks : List Tree)
    (hat : ∀ (j : Nat) (k : Tree), ks[j]? = some k → t.at? (path ++ [i + j]) = some k)
    (hu : ∀ (j : Nat) (k : Tree), ks[j]? = some k → UniqueBelow k)
    (hdk : ∀ (j : Nat) (k : Tree), ks[j]? = some k → DeclsOkBelow env k)
    (s : FStack) (fs : Frames) (hinv : StackInv s fs) (hok : FramesOk env fs) (sc : List SFrame)
    (hc : Corr env sc fs) (toks : List Tok)
    (hr : renderAllWith esc env pr t s (genNode.genKids inScope path i ks) = .ok toks) :
    SegOk env unesc sc toks := by
  cases ks with
  | nil =>
    simp only [genNode.genKids, renderAllWith, Outcome.ok.injEq] at hr
    subst hr
    exact segOk_nil env unesc sc
  | cons k ks' =>
    simp only [genNode.genKids] at hr
    obtain ⟨ta, tb, s', k1, k2, k3, rfl⟩ := renderAll_append_ok esc env pr t _ _ _ toks hr
    have hatk : t.at? (path ++ [i]) = some k := by simpa using hat 0 k rfl
    have := (genNode_trace esc env pr t inScope false (path ++ [i]) k hatk (hu 0 k rfl) s fs hinv).2 s' k2
    subst this
    exact segOk_append env unesc
      (genNode_seg h hue inScope false (path ++ [i]) k hatk (hu 0 k rfl) (hdk 0 k rfl) s' fs hinv hok sc
        (fun hh => by cases hh) (fun _ => hc) ta k1)
      (genKids_seg h hue inScope path (i + 1) ks'
        (fun j k' hk => by
          have := hat (j + 1) k' (by simpa using hk)
          rwa [show i + (j + 1) = i + 1 + j by omega] at this)
        (fun j k' hk => hu (j + 1) k' (by simpa using hk))
        (fun j k' hk => hdk (j + 1) k' (by simpa using hk)) s' fs hinv hok sc hc tb k3)
end

end XotModel.SerResolve
