/-
  C06 lemmas: `text_content_mut(node)` + `set`: on an element without normal children a fresh
  text node is appended and found again as the first child, so none of the `unwrap`s panics.
-/
import XotModel.Lemmas.FatomGet

namespace XotModel
open HTree

theorem dropWhile_nil_imp {α : Type} (p : α → Bool) : ∀ (l : List α), l.dropWhile p = [] →
    ∀ a ∈ l, p a = true
  | [], _, a, h => by cases h
  | b :: l, h, a, ha => by
    rw [List.dropWhile_cons] at h
    cases hp : p b with
    | false => rw [hp] at h; simp at h
    | true =>
      rw [hp] at h
      simp only [if_true] at h
      rcases List.mem_cons.1 ha with e | e
      · rw [e]; exact hp
      · exact dropWhile_nil_imp p l h a e

namespace Forest

/-- Appending a parentless node under a parent that has no (normal) last child: no
    consolidation happens, the node is cut from the roots and placed last. -/
theorem append_root_last {f : Forest} (w : f.W) {p t : Nat} {tt : HTree} (ck : Checked f p t)
    (hroot : f.isRoot t = true) (hg : f.get? t = some tt) (hlast : f.lastChild p = none) :
    f.append p t = ((f.cut t).1.placeLast p tt, .ok) := by
  have hpn : f.parent? t = none := isRoot_noParent w hroot
  have hcut := (cut_spec w hg).1
  unfold append
  simp only [structureCheck_of_checked ck, hlast, Bool.not_true, Bool.false_eq_true, if_false]
  have : ((none : Option Nat) == some t) = false := rfl
  simp only [this, Bool.false_eq_true, if_false]
  rw [prevSibling_none_of_root hpn, fa_removeConsolidate_none_left]
  simp only [hlast, fa_addConsolidate_none, Bool.false_eq_true, if_false]
  unfold checkedAppend
  have hcond : (p = t || (f.ancestors p).contains t) = false := by
    simp [ck.ne w, ck.notAnc]
  simp only [hcond, Bool.false_eq_true, if_false]
  rcases hc : f.cut t with ⟨f', o⟩
  rw [hc] at hcut
  simp only at hcut
  subst hcut
  rfl

theorem lastChild_none_of_firstChild_none {f : Forest} {n : Nat} (h : f.firstChild n = none) :
    f.lastChild n = none ∧
    ∀ t, f.get? n = some t → ∀ k ∈ t.kids, (!k.value.isNormal) = true := by
  unfold firstChild at h
  unfold lastChild
  cases hg : f.get? n with
  | none => exact ⟨rfl, fun t e => by cases e⟩
  | some t =>
    rw [hg] at h
    simp only [Option.map_eq_none_iff, List.head?_eq_none_iff] at h
    replace h := dropWhile_nil_imp _ _ h
    refine ⟨?_, fun t' e => by injection e with e; subst e; exact h⟩
    simp only
    cases hl : t.kids.getLast? with
    | none => rfl
    | some k =>
      have := h k (List.mem_of_getLast? hl)
      simp only [Bool.not_eq_true', ] at this
      simp [this]

theorem lastChild_congr {f g : Forest} {n : Nat} (h : g.get? n = f.get? n) :
    g.lastChild n = f.lastChild n := by
  unfold lastChild; rw [h]

/-- `text_content_mut(node).set(s)`: refused with nothing changed, or carried out. -/
theorem textContentSet_outcome {f : Forest} (w : f.W) (node : Nat) (s : Str) :
    f.textContentSet node s = (f, .err .invalidOperation) ∨ OkRes f (f.textContentSet node s) := by
  unfold textContentSet
  cases hfc : f.firstChild node with
  | some child =>
    simp only
    cases (f.nextSibling child).isSome with
    | true => left; rfl
    | false =>
      simp only [Bool.false_eq_true, if_false]
      cases ht : f.isText child with
      | false => left; rfl
      | true =>
        right
        simp only [if_true]
        unfold isText at ht
        cases hv : f.value? child with
        | none => rw [hv] at ht; simp at ht
        | some v =>
          rw [hv] at ht
          have hvt : v.isText = true := by simpa using ht
          obtain ⟨t, hg, hk⟩ := leaf_of_value w hv
            (by cases v <;> simp_all [Value.isText, Value.isElement])
            (by cases v <;> simp_all [Value.isText, Value.isDocument])
          exact okRes_setLeaf w hg hk _
  | none =>
    simp only
    cases hel : f.isElement node with
    | false => left; rfl
    | true =>
      right
      simp only [if_true]
      have hlp : f.isLive node = true := by
        rw [isLive_iff_value?]; obtain ⟨n, e⟩ := isElement_value hel; rw [e]; rfl
      obtain ⟨n, hgn⟩ := get?_of_isLive hlp
      obtain ⟨hlast, hkids⟩ := lastChild_none_of_firstChild_none hfc
      -- the fresh text node
      obtain ⟨hwr, w1, fr1, hg1, hr1, hdead⟩ := newNode_spec w (.text [])
      have kp := newNode_kept w (.text []) hlp
      have hgn1 := newNode_get? (f := f) (.text []) hlp
      unfold newText
      rcases hnew : f.newNode (.text []) with ⟨f1, t⟩
      rw [hnew] at hwr w1 fr1 hg1 hr1 kp hgn1
      simp only at hwr w1 fr1 hg1 hr1 kp hgn1
      subst hwr
      rw [hgn] at hgn1
      have hne : node ≠ f.next := fun e => by rw [e, hdead] at hlp; cases hlp
      have ck : Checked f1 node f.next := by
        refine ⟨Or.inl (by rw [kp.isElement]; exact hel), ?_, ?_⟩
        · rw [kp.anc]; intro h'; rw [ancestors_live w h'] at hdead; cases hdead
        · refine ⟨.text [], ?_, rfl, rfl⟩
          unfold value?; rw [hg1]; rfl
      have hlast1 : f1.lastChild node = none := by
        rw [lastChild_congr (f := f) (by rw [hgn1, hgn])]; exact hlast
      have happ := append_root_last w1 ck hr1 hg1 hlast1
      have m := append_ok w1 (structureCheck_of_checked ck)
      rw [happ] at m ⊢
      simp only
      have w2 := m.w
      simp only at w2
      have hnt : node ∉ handles (HTree.node f.next (.text []) []) := by
        simpa [handles, handlesList] using hne
      have hg2 : ((f1.cut f.next).1.placeLast node (.node f.next (.text []) [])).get? node =
          some (n.setKids (n.kids ++ [.node f.next (.text []) []])) := by
        rw [placeLast_get?, cut_root_get? w1 hg1 hr1 hnt, hgn1]; rfl
      generalize (f1.cut f.next).1.placeLast node (.node f.next (.text []) []) = f2 at m w2 hg2 ⊢
      have hkids2 : (n.setKids (n.kids ++ [.node f.next (.text []) []])).kids =
          n.kids ++ [.node f.next (.text []) []] := by cases n; rfl
      have hfc2 : f2.firstChild node = some f.next := by
        unfold firstChild
        rw [hg2]
        simp only [hkids2]
        rw [List.dropWhile_append_of_pos (hkids n hgn)]
        simp [List.dropWhile, HTree.value, Value.isNormal, Value.category, HTree.handle]
      have hmem : (HTree.node f.next (.text []) []) ∈
          (n.setKids (n.kids ++ [.node f.next (.text []) []])).kids := by
        rw [hkids2]; simp
      have hgt2 := (kid_spec w2 hg2 hmem).1
      simp only [HTree.handle] at hgt2
      have htext2 : f2.isText f.next = true := by
        unfold isText value?; rw [hgt2]; rfl
      simp only [hfc2, htext2, if_true]
      have := okRes_setLeaf (f := f2) w2 hgt2 rfl (.text s)
      exact ⟨this.ok, this.w, by
        rw [this.corrupt]
        have := m.corrupt
        simp only at this
        rw [this, fr1.corrupt]⟩

end Forest
end XotModel
