/-
  FspecBase — structural facts about the handle-addressed recursions of `Model/Forest.lean`
  (`handles`, `find?`, `ctxBelow`, `replaceBelow`, `mapAt`) used by the C05 proofs:
  equation lemmas, locality ("a handle that is not there changes nothing"), lookups inside a
  found subtree, and the bridge between `ctx?` (where a node sits) and `get?` of its parent.
-/
import XotModel.Lemmas.ForestBasic
import XotModel.Model.FspecSpec

namespace XotModel
open HTree

/-! ### Equation lemmas (the model's `match`es are private matchers: state them by cases) -/

theorem handles_node (h : Nat) (v : Value) (ks : List HTree) :
    handles (.node h v ks) = h :: handlesList ks := by simp [handles]

theorem handlesList_nil : handlesList [] = [] := by simp [handlesList]
theorem handlesList_cons (k : HTree) (ks : List HTree) :
    handlesList (k :: ks) = handles k ++ handlesList ks := by simp [handlesList]

theorem fs_handlesList_append (a b : List HTree) :
    handlesList (a ++ b) = handlesList a ++ handlesList b := by
  induction a with
  | nil => simp [handlesList]
  | cons k ks ih => simp [handlesList, ih]

theorem fs_handle_mem_handles (t : HTree) : t.handle ∈ handles t := by
  cases t with
  | node h v ks => simp [handles, HTree.handle]

theorem handle_ne_of_not_mem {k : HTree} {h : Nat} (hn : h ∉ handles k) : k.handle ≠ h :=
  fun e => hn (e ▸ fs_handle_mem_handles k)

theorem mem_handlesList {x : Nat} {ks : List HTree} :
    x ∈ handlesList ks ↔ ∃ k ∈ ks, x ∈ handles k := by
  induction ks with
  | nil => simp [handlesList]
  | cons k ks ih => simp [handlesList, ih]

theorem handle_mem_handlesList {k : HTree} {ks : List HTree} (h : k ∈ ks) :
    k.handle ∈ handlesList ks := mem_handlesList.2 ⟨k, h, fs_handle_mem_handles k⟩

theorem find?_node (h h' : Nat) (v : Value) (ks : List HTree) :
    find? h (.node h' v ks) = if h' = h then some (.node h' v ks) else findList? h ks := by
  simp [find?]

theorem fs_find?_self (t : HTree) : find? t.handle t = some t := by
  cases t with
  | node h v ks => simp [find?, HTree.handle]

theorem findList?_nil (h : Nat) : findList? h [] = none := by simp [findList?]

theorem findList?_cons_some {h : Nat} {k : HTree} {ks : List HTree} {t : HTree}
    (e : find? h k = some t) : findList? h (k :: ks) = some t := by
  simp [findList?, e]

theorem findList?_cons_none {h : Nat} {k : HTree} {ks : List HTree}
    (e : find? h k = none) : findList? h (k :: ks) = findList? h ks := by
  simp [findList?, e]

theorem ctxBelow_node (h p : Nat) (v : Value) (ks : List HTree) :
    ctxBelow h (.node p v ks) = ctxKids h p [] ks := by simp [ctxBelow]

theorem ctxKids_nil (h p : Nat) (left : List HTree) : ctxKids h p left [] = none := by
  simp [ctxKids]

theorem ctxKids_cons_hit {h p : Nat} {left : List HTree} {k : HTree} {right : List HTree}
    (e : k.handle = h) : ctxKids h p left (k :: right) = some ⟨p, left, k, right⟩ := by
  simp [ctxKids, e]

theorem ctxKids_cons_below {h p : Nat} {left : List HTree} {k : HTree} {right : List HTree}
    {c : Ctx} (e : k.handle ≠ h) (e2 : ctxBelow h k = some c) :
    ctxKids h p left (k :: right) = some c := by
  simp [ctxKids, e, e2]

theorem ctxKids_cons_skip {h p : Nat} {left : List HTree} {k : HTree} {right : List HTree}
    (e : k.handle ≠ h) (e2 : ctxBelow h k = none) :
    ctxKids h p left (k :: right) = ctxKids h p (left ++ [k]) right := by
  simp [ctxKids, e, e2]

theorem mapAt_node (s h : Nat) (G : HTree → HTree) (v : Value) (ks : List HTree) :
    mapAt s G (.node h v ks) = if h = s then G (.node h v ks) else .node h v (mapAtList s G ks) := by
  simp [mapAt]

theorem replaceBelow_node (h : Nat) (F : HTree → List HTree) (p : Nat) (v : Value) (ks : List HTree) :
    replaceBelow h F (.node p v ks) = .node p v (replaceKids h F ks) := by simp [replaceBelow]

theorem replaceKids_nil (h : Nat) (F : HTree → List HTree) : replaceKids h F [] = [] := by
  simp [replaceKids]

theorem fs_replaceKids_cons (h : Nat) (F : HTree → List HTree) (k : HTree) (ks : List HTree) :
    replaceKids h F (k :: ks) =
      if k.handle = h then F k ++ ks else replaceBelow h F k :: replaceKids h F ks := by
  simp [replaceKids]

/-! ### Locality -/

mutual
  theorem find?_eq_none {h : Nat} : ∀ t : HTree, h ∉ handles t → find? h t = none
    | .node h' v ks => by
      intro hn
      rw [handles_node] at hn
      simp only [List.mem_cons, not_or] at hn
      rw [find?_node, if_neg (fun e => hn.1 e.symm)]
      exact findList?_eq_none ks hn.2
  theorem findList?_eq_none {h : Nat} : ∀ ks : List HTree, h ∉ handlesList ks → findList? h ks = none
    | [] => fun _ => findList?_nil h
    | k :: ks => by
      intro hn
      rw [handlesList_cons] at hn
      simp only [List.mem_append, not_or] at hn
      rw [findList?_cons_none (find?_eq_none k hn.1)]
      exact findList?_eq_none ks hn.2
end

mutual
  /-- What `find?` returns has the handle asked for and lies inside the tree. -/
  theorem find?_some {h : Nat} : ∀ (t u : HTree), find? h t = some u →
      u.handle = h ∧ (∀ x ∈ handles u, x ∈ handles t)
    | .node h' v ks, u => by
      intro e
      rw [find?_node] at e
      by_cases hh : h' = h
      · rw [if_pos hh] at e
        cases e
        exact ⟨hh, fun _ hx => hx⟩
      · rw [if_neg hh] at e
        obtain ⟨e1, e2⟩ := findList?_some ks u e
        refine ⟨e1, fun x hx => ?_⟩
        rw [handles_node]
        exact List.mem_cons_of_mem _ (e2 x hx)
  theorem findList?_some {h : Nat} : ∀ (ks : List HTree) (u : HTree), findList? h ks = some u →
      u.handle = h ∧ (∀ x ∈ handles u, x ∈ handlesList ks)
    | [], u => by intro e; rw [findList?_nil] at e; cases e
    | k :: ks, u => by
      intro e
      cases hk : find? h k with
      | some t =>
        rw [findList?_cons_some hk] at e
        have e' := Option.some.inj e
        subst e'
        obtain ⟨e1, e2⟩ := find?_some k t hk
        refine ⟨e1, fun x hx => ?_⟩
        rw [handlesList_cons]
        exact List.mem_append_left _ (e2 x hx)
      | none =>
        rw [findList?_cons_none hk] at e
        obtain ⟨e1, e2⟩ := findList?_some ks u e
        refine ⟨e1, fun x hx => ?_⟩
        rw [handlesList_cons]
        exact List.mem_append_right _ (e2 x hx)
end

mutual
  theorem find?_isSome_of_mem {h : Nat} : ∀ t : HTree, h ∈ handles t → (find? h t).isSome = true
    | .node h' v ks => by
      intro hm
      rw [find?_node]
      by_cases hh : h' = h
      · simp [hh]
      · rw [if_neg hh]
        rw [handles_node] at hm
        cases List.mem_cons.1 hm with
        | inl e => exact absurd e.symm hh
        | inr e => exact findList?_isSome_of_mem ks e
  theorem findList?_isSome_of_mem {h : Nat} : ∀ ks : List HTree, h ∈ handlesList ks →
      (findList? h ks).isSome = true
    | [] => by intro hm; simp [handlesList] at hm
    | k :: ks => by
      intro hm
      cases hk : find? h k with
      | some t => rw [findList?_cons_some hk]; rfl
      | none =>
        rw [findList?_cons_none hk]
        rw [handlesList_cons] at hm
        cases List.mem_append.1 hm with
        | inl e =>
          have := find?_isSome_of_mem k e
          rw [hk] at this
          cases this
        | inr e => exact findList?_isSome_of_mem ks e
end

theorem mem_of_find?_some {h : Nat} {t u : HTree} (e : find? h t = some u) : h ∈ handles t := by
  obtain ⟨e1, e2⟩ := find?_some t u e
  exact e1 ▸ e2 _ (fs_handle_mem_handles u)

theorem mem_of_findList?_some {h : Nat} {ks : List HTree} {u : HTree} (e : findList? h ks = some u) :
    h ∈ handlesList ks := by
  obtain ⟨e1, e2⟩ := findList?_some ks u e
  exact e1 ▸ e2 _ (fs_handle_mem_handles u)

mutual
  theorem fs_mapAt_of_not_mem {s : Nat} {G : HTree → HTree} : ∀ t : HTree, s ∉ handles t → mapAt s G t = t
    | .node h v ks => by
      intro hn
      rw [handles_node] at hn
      simp only [List.mem_cons, not_or] at hn
      rw [mapAt_node, if_neg (fun e => hn.1 e.symm), fs_mapAtList_of_not_mem ks hn.2]
  theorem fs_mapAtList_of_not_mem {s : Nat} {G : HTree → HTree} : ∀ ks : List HTree,
      s ∉ handlesList ks → mapAtList s G ks = ks
    | [] => by intro _; simp [mapAtList]
    | k :: ks => by
      intro hn
      rw [handlesList_cons] at hn
      simp only [List.mem_append, not_or] at hn
      simp only [mapAtList]
      rw [fs_mapAt_of_not_mem k hn.1, fs_mapAtList_of_not_mem ks hn.2]
end

mutual
  theorem fs_replaceBelow_of_not_mem {h : Nat} {F : HTree → List HTree} : ∀ t : HTree,
      h ∉ handles t → replaceBelow h F t = t
    | .node p v ks => by
      intro hn
      rw [handles_node] at hn
      simp only [List.mem_cons, not_or] at hn
      rw [replaceBelow_node, fs_replaceKids_of_not_mem ks hn.2]
  theorem fs_replaceKids_of_not_mem {h : Nat} {F : HTree → List HTree} : ∀ ks : List HTree,
      h ∉ handlesList ks → replaceKids h F ks = ks
    | [] => by intro _; exact replaceKids_nil h F
    | k :: ks => by
      intro hn
      rw [handlesList_cons] at hn
      simp only [List.mem_append, not_or] at hn
      rw [fs_replaceKids_cons, if_neg (handle_ne_of_not_mem hn.1),
        fs_replaceBelow_of_not_mem k hn.1, fs_replaceKids_of_not_mem ks hn.2]
end

mutual
  theorem ctxBelow_of_not_mem {h : Nat} : ∀ t : HTree, h ∉ handles t → ctxBelow h t = none
    | .node p v ks => by
      intro hn
      rw [handles_node] at hn
      simp only [List.mem_cons, not_or] at hn
      rw [ctxBelow_node]
      exact ctxKids_of_not_mem p [] ks hn.2
  theorem ctxKids_of_not_mem {h : Nat} (p : Nat) : ∀ (left ks : List HTree),
      h ∉ handlesList ks → ctxKids h p left ks = none
    | left, [] => by intro _; exact ctxKids_nil h p left
    | left, k :: ks => by
      intro hn
      rw [handlesList_cons] at hn
      simp only [List.mem_append, not_or] at hn
      rw [ctxKids_cons_skip (handle_ne_of_not_mem hn.1) (ctxBelow_of_not_mem k hn.1)]
      exact ctxKids_of_not_mem p (left ++ [k]) ks hn.2
end

/-! ### Lookups under distinct handles -/

theorem nodup_handles_node {h : Nat} {v : Value} {ks : List HTree} (nd : (handles (.node h v ks)).Nodup) :
    h ∉ handlesList ks ∧ (handlesList ks).Nodup := by
  rw [handles_node] at nd
  exact List.nodup_cons.1 nd

theorem nodup_handlesList_cons {k : HTree} {ks : List HTree} (nd : (handlesList (k :: ks)).Nodup) :
    (handles k).Nodup ∧ (handlesList ks).Nodup ∧ ∀ a ∈ handles k, a ∉ handlesList ks := by
  rw [handlesList_cons] at nd
  obtain ⟨a, b, c⟩ := List.nodup_append.1 nd
  exact ⟨a, b, fun x hx hy => c x hx x hy rfl⟩

/-- In a list of trees with distinct handles, the child `k` is what its handle finds. -/
theorem findList?_mid {l : List HTree} {k : HTree} {r : List HTree}
    (hn : k.handle ∉ handlesList l) : findList? k.handle (l ++ k :: r) = some k := by
  induction l with
  | nil => exact findList?_cons_some (fs_find?_self k)
  | cons a l ih =>
    rw [handlesList_cons] at hn
    simp only [List.mem_append, not_or] at hn
    rw [List.cons_append, findList?_cons_none (find?_eq_none a hn.1)]
    exact ih hn.2

theorem nodup_mid {l : List HTree} {k : HTree} {r : List HTree}
    (nd : (handlesList (l ++ k :: r)).Nodup) :
    (∀ x ∈ handles k, x ∉ handlesList l) ∧ (∀ x ∈ handles k, x ∉ handlesList r) ∧
    (∀ x ∈ handlesList l, x ∉ handlesList r) ∧
    (handlesList l).Nodup ∧ (handles k).Nodup ∧ (handlesList r).Nodup := by
  rw [fs_handlesList_append, handlesList_cons] at nd
  obtain ⟨n1, n2, n3⟩ := List.nodup_append.1 nd
  obtain ⟨n4, n5, n6⟩ := List.nodup_append.1 n2
  refine ⟨fun x hx hl => n3 x hl x (List.mem_append_left _ hx) rfl, fun x hx hr => n6 x hx x hr rfl,
    fun x hl hr => n3 x hl x (List.mem_append_right _ hr) rfl, n1, n4, n5⟩

mutual
  /-- Looking up `x` inside a found subtree is looking it up in the whole tree. -/
  theorem find?_inside {p x : Nat} : ∀ (t u : HTree), (handles t).Nodup → find? p t = some u →
      x ∈ handles u → find? x t = find? x u
    | .node h v ks, u => by
      intro nd e hx
      rw [find?_node] at e
      by_cases hh : h = p
      · rw [if_pos hh] at e
        cases e
        rfl
      · rw [if_neg hh] at e
        obtain ⟨n1, n2⟩ := nodup_handles_node nd
        have hxk : x ∈ handlesList ks := (findList?_some ks u e).2 x hx
        rw [find?_node, if_neg (fun (e' : h = x) => n1 (e' ▸ hxk))]
        exact findList?_inside ks u n2 e hx
  theorem findList?_inside {p x : Nat} : ∀ (ks : List HTree) (u : HTree), (handlesList ks).Nodup →
      findList? p ks = some u → x ∈ handles u → findList? x ks = find? x u
    | [], u => by intro _ e; rw [findList?_nil] at e; cases e
    | k :: ks, u => by
      intro nd e hx
      obtain ⟨n1, n2, n3⟩ := nodup_handlesList_cons nd
      cases hk : find? p k with
      | some t =>
        rw [findList?_cons_some hk] at e
        have e' := Option.some.inj e
        subst e'
        have := find?_inside k t n1 hk hx
        have hs := find?_isSome_of_mem t hx
        cases hxu : find? x t with
        | none => rw [hxu] at hs; cases hs
        | some w =>
          rw [hxu] at this
          exact findList?_cons_some this
      | none =>
        rw [findList?_cons_none hk] at e
        have hxk : x ∈ handlesList ks := (findList?_some ks u e).2 x hx
        have : x ∉ handles k := fun hm => n3 x hm hxk
        rw [findList?_cons_none (find?_eq_none k this)]
        exact findList?_inside ks u n2 e hx
end

/-! ### Where a node sits (`ctxBelow`) versus the child list of its parent (`find?`) -/

/-- Skipping children that do not hold `h`. -/
theorem ctxKids_skip {h p : Nat} : ∀ (l left rest : List HTree), h ∉ handlesList l →
    ctxKids h p left (l ++ rest) = ctxKids h p (left ++ l) rest
  | [], left, rest => by intro _; simp
  | k :: l, left, rest => by
    intro hn
    rw [handlesList_cons] at hn
    simp only [List.mem_append, not_or] at hn
    rw [List.cons_append,
      ctxKids_cons_skip (handle_ne_of_not_mem hn.1) (ctxBelow_of_not_mem k hn.1),
      ctxKids_skip l (left ++ [k]) rest hn.2]
    simp

mutual
  /-- `ctxBelow` describes the child list of the parent it reports. -/
  theorem ctxBelow_find {h : Nat} : ∀ (t : HTree) (c : Ctx), (handles t).Nodup → ctxBelow h t = some c →
      c.self.handle = h ∧ ∃ v, find? c.parent t = some (.node c.parent v (c.left ++ c.self :: c.right))
    | .node q v ks, c => by
      intro nd e
      rw [ctxBelow_node] at e
      obtain ⟨n1, n2⟩ := nodup_handles_node nd
      rcases ctxKids_find q [] ks c n2 e with ⟨e0, e1, e2⟩ | ⟨e0, v', e2⟩
      · refine ⟨e0, v, ?_⟩
        rw [find?_node, if_pos e1.symm]
        simp only [List.nil_append] at e2
        rw [e1, e2]
      · refine ⟨e0, v', ?_⟩
        have hm : c.parent ∈ handlesList ks := mem_of_findList?_some e2
        rw [find?_node, if_neg (fun (e' : q = c.parent) => n1 (e' ▸ hm))]
        exact e2
  theorem ctxKids_find {h : Nat} (q : Nat) : ∀ (left ks : List HTree) (c : Ctx), (handlesList ks).Nodup →
      ctxKids h q left ks = some c →
      (c.self.handle = h ∧ c.parent = q ∧ left ++ ks = c.left ++ c.self :: c.right) ∨
      (c.self.handle = h ∧ ∃ v, findList? c.parent ks = some (.node c.parent v (c.left ++ c.self :: c.right)))
    | left, [], c => by intro _ e; rw [ctxKids_nil] at e; cases e
    | left, k :: ks, c => by
      intro nd e
      obtain ⟨n1, n2, n3⟩ := nodup_handlesList_cons nd
      by_cases hk : k.handle = h
      · rw [ctxKids_cons_hit hk] at e
        cases e
        exact Or.inl ⟨hk, rfl, rfl⟩
      · cases hb : ctxBelow h k with
        | some c' =>
          rw [ctxKids_cons_below hk hb] at e
          have e' := Option.some.inj e
          subst e'
          obtain ⟨e0, v', e2⟩ := ctxBelow_find k c' n1 hb
          exact Or.inr ⟨e0, v', findList?_cons_some e2⟩
        | none =>
          rw [ctxKids_cons_skip hk hb] at e
          rcases ctxKids_find q (left ++ [k]) ks c n2 e with ⟨e0, e1, e2⟩ | ⟨e0, v', e2⟩
          · refine Or.inl ⟨e0, e1, ?_⟩
            rw [← e2]; simp
          · refine Or.inr ⟨e0, v', ?_⟩
            have hm : c.parent ∈ handlesList ks := mem_of_findList?_some e2
            have : c.parent ∉ handles k := fun hx => n3 _ hx hm
            rw [findList?_cons_none (find?_eq_none k this)]
            exact e2
end

mutual
  /-- Conversely: a child of the node `p` has the context its position in `p`'s child list gives. -/
  theorem find_ctxBelow {p : Nat} {v : Value} {l : List HTree} {s : HTree} {r : List HTree} :
      ∀ (t : HTree), (handles t).Nodup → find? p t = some (.node p v (l ++ s :: r)) →
      ctxBelow s.handle t = some ⟨p, l, s, r⟩
    | .node q v' ks => by
      intro nd e
      rw [find?_node] at e
      obtain ⟨n1, n2⟩ := nodup_handles_node nd
      rw [ctxBelow_node]
      by_cases hq : q = p
      · rw [if_pos hq] at e
        subst hq
        have e' := Option.some.inj e
        injection e' with _ _ e3
        subst e3
        obtain ⟨m1, _, _, _, _, _⟩ := nodup_mid n2
        have := ctxKids_skip (h := s.handle) (p := q) l [] (s :: r) (m1 _ (fs_handle_mem_handles s))
        rw [this, ctxKids_cons_hit rfl]
        simp
      · rw [if_neg hq] at e
        exact findList_ctxKids q [] ks n2 e
  theorem findList_ctxKids {p : Nat} {v : Value} {l : List HTree} {s : HTree} {r : List HTree} (q : Nat) :
      ∀ (left ks : List HTree), (handlesList ks).Nodup →
      findList? p ks = some (.node p v (l ++ s :: r)) →
      ctxKids s.handle q left ks = some ⟨p, l, s, r⟩
    | left, [] => by intro _ e; rw [findList?_nil] at e; cases e
    | left, k :: ks => by
      intro nd e
      obtain ⟨n1, n2, n3⟩ := nodup_handlesList_cons nd
      have hs_in : ∀ w, (w = HTree.node p v (l ++ s :: r)) → s.handle ∈ handlesList w.kids := by
        intro w hw
        subst hw
        simp only [HTree.kids]
        rw [fs_handlesList_append, handlesList_cons]
        exact List.mem_append_right _ (List.mem_append_left _ (fs_handle_mem_handles s))
      cases hk : find? p k with
      | some t =>
        rw [findList?_cons_some hk] at e
        cases e
        have hb := find_ctxBelow k n1 hk
        -- `s` lies strictly inside `k`
        have hne : k.handle ≠ s.handle := by
          intro heq
          cases k with
          | node kh kv kks =>
            obtain ⟨k1, k2⟩ := nodup_handles_node n1
            simp only [HTree.handle] at heq
            rw [find?_node] at hk
            by_cases hkp : kh = p
            · rw [if_pos hkp] at hk
              cases hk
              apply k1
              rw [heq, fs_handlesList_append, handlesList_cons]
              exact List.mem_append_right _ (List.mem_append_left _ (fs_handle_mem_handles s))
            · rw [if_neg hkp] at hk
              have := (findList?_some kks _ hk).2 s.handle (by
                rw [handles_node, fs_handlesList_append, handlesList_cons]
                exact List.mem_cons_of_mem _ (List.mem_append_right _ (List.mem_append_left _ (fs_handle_mem_handles s))))
              exact k1 (heq ▸ this)
        exact ctxKids_cons_below hne hb
      | none =>
        rw [findList?_cons_none hk] at e
        have hm : s.handle ∈ handlesList ks := (findList?_some ks _ e).2 s.handle (by
          rw [handles_node, fs_handlesList_append, handlesList_cons]
          exact List.mem_cons_of_mem _ (List.mem_append_right _ (List.mem_append_left _ (fs_handle_mem_handles s))))
        have hnk : s.handle ∉ handles k := fun hx => n3 _ hx hm
        rw [ctxKids_cons_skip (handle_ne_of_not_mem hnk) (ctxBelow_of_not_mem k hnk)]
        exact findList_ctxKids q (left ++ [k]) ks n2 e
end

end XotModel
