/-
  Glue for the END-TO-END theorems (`C01_reachable_roundtrip` in Props/C01.lean,
  `C10_reachable_repair_roundtrip` in Props/C10.lean, `C15_reachable_dedup` in Props/C15.lean): a
  parentless tree `r` of a forest with the invariant, addressed by its own handle, is the tree the
  refinement theorems of Lemmas/FpxRefine*.lean call "the root tree of `node`, `node` at path `[]`".
  Forest-side vocabulary only (nothing of the tokenizer / builder is imported here).
-/
import XotModel.Lemmas.FpxRefineMain
import XotModel.Lemmas.ReachRepresentable

namespace XotModel.Reach
open XotModel HTree

/-- A node is at the empty path of its own tree. -/
theorem pathOf_self (r : HTree) : pathOf r.handle r = some [] := by
  cases r with | node h v ks => simp [pathOf, HTree.handle]

/-- Only the root is at the empty path. -/
theorem handle_of_pathOf_nil {h : Nat} {r : HTree} (hp : pathOf h r = some []) : r.handle = h := by
  cases r with
  | node h' v ks =>
    unfold pathOf at hp
    by_cases e : h' = h
    · exact e
    · rw [if_neg e] at hp
      exfalso
      generalize 0 = j at hp
      induction ks generalizing j with
      | nil => simp [pathOfList] at hp
      | cons k ks ih =>
        unfold pathOfList at hp
        cases hk : pathOf h k with
        | some p => rw [hk] at hp; simp at hp
        | none => rw [hk] at hp; exact ih _ hp

/-- A parentless tree of a forest with the invariant, looked up by its own handle. -/
theorem root_located {f : Forest} (hi : f.Inv) {r : HTree} (hr : r ∈ f.roots) :
    f.rootOf? r.handle = some r ∧ pathOf r.handle r = some [] ∧ f.get? r.handle = some r ∧
      f.isDocument r.handle = r.value.isDocument ∧ f.isLive r.handle = true := by
  have h1 : f.rootOf? r.handle = some r := Forest.fpxr_rootOf_of_mem hi.nodup hr (fi_handle_mem_handles r)
  have h2 := pathOf_self r
  obtain ⟨D, _, hg, hat, _, _⟩ := Forest.fpxr_locate hi h1 h2
  have hD : D = r := by
    cases r with | node h v ks => simpa [HTree.at?] using hat.symm
  subst hD
  refine ⟨h1, h2, hg, ?_, ?_⟩
  · simp [Forest.isDocument, Forest.value?, hg]
  · simp [Forest.isLive, hg]

/-- `singleRoot` of the erasure names an element child of the tree. -/
theorem element_kid_of_singleRoot {r : HTree} (h : singleRoot r.erase = true) :
    ∃ k ∈ r.kids, k.value.isElement = true := by
  cases r with
  | node hh v ks =>
    simp only [singleRoot, Bool.and_eq_true, beq_iff_eq] at h
    have hne : (erase (.node hh v ks)).kids.filter (fun k => k.value.isElement) ≠ [] := by
      intro hn; rw [hn] at h; simp at h
    obtain ⟨k, hk⟩ := List.exists_mem_of_ne_nil _ hne
    obtain ⟨hk1, hk2⟩ := List.mem_filter.mp hk
    simp only [erase, Tree.kids] at hk1
    obtain ⟨k0, hk0, rfl⟩ := mem_eraseList hk1
    exact ⟨k0, hk0, by rw [erase_value] at hk2; exact hk2⟩

end XotModel.Reach
