/-
  Finv (C04), part 35: every call and every history.  `VStep` for each constructor of
  `Forest.Call`, for the steps of a history, and what it means for the value read at a handle
  under the invariant.
-/
import XotModel.Lemmas.FinvValue4
import XotModel.Lemmas.FinvReach2

namespace XotModel
open HTree

namespace Forest

variable {S : Nat → Prop}

/-- Every call: the handles it may overwrite are `c.targets f`; text consolidation may extend text
    nodes; everything else that is still there is as it was. -/
theorem vstep_call {f : Forest} (hi : f.Inv) (c : Call) (hS : ∀ x ∈ c.targets f, S x) :
    VStep S Any f (c.run f).1 := by
  cases c with
  | append p c => exact vstep_append_any f p c
  | prepend p c => exact vstep_prepend_any f p c
  | insertAfter a b => exact vstep_insertAfter_any f a b
  | insertBefore a b => exact vstep_insertBefore_any f a b
  | detach n => exact vstep_detach_any f n
  | remove n => exact vstep_remove_any f n
  | replace a b => exact vstep_replace f a b
  | elementWrap n name => exact vstep_elementWrap f n name
  | elementUnwrap n => exact vstep_elementUnwrap f n
  | cloneNode n => exact vstep_cloneNode hi n
  | anyAppend p c => exact vstep_anyAppend_any f p c hS
  | appendEntryNode k p c => exact vstep_appendEntryNode f k p c hS
  | mapInsert k p e =>
    apply vstep_mapInsert f k p e
    intro n hn
    apply hS
    simp [Call.targets, hn]
  | mapRemove k p key => exact vstep_mapRemove f k p key
  | mapClear k p => exact vstep_mapClear f k p
  | setElementName n name => exact vstep_setElementName f n name (hS n (by simp [Call.targets]))
  | setText n s => exact vstep_setText f n s (hS n (by simp [Call.targets]))
  | setComment n s => exact vstep_setComment f n s (hS n (by simp [Call.targets]))
  | setPiData n d => exact vstep_setPiData f n d (hS n (by simp [Call.targets]))
  | textContentSet n s =>
    apply vstep_textContentSet f n s
    intro c hc
    apply hS
    simp [Call.targets, hc]

theorem vstep_stepAll {f : Forest} (hi : f.Inv) (st : HStep) (hS : ∀ x ∈ st.targets f, S x) :
    VStep S Any f (f.stepAll st) := by
  cases st with
  | call c => exact vstep_call hi c hS
  | newNode v => exact vstep_newNode f v
  | setConsolidation b => exact vstep_setConsolidation f b
  | removeInsignificantWhitespace n => exact vstep_removeInsignificantWhitespace f n

theorem step_eq_stepAll' (f : Forest) (o : Op) : f.step o = f.stepAll o.toStep := by
  cases o <;> rfl

theorem vstep_step {f : Forest} (hi : f.Inv) (o : Op) (hS : ∀ x ∈ o.targets f, S x) :
    VStep S Any f (f.step o) := by
  rw [step_eq_stepAll']; exact vstep_stepAll hi o.toStep hS

/-! ### Reading the relation at a handle -/

/-- Under distinct handles below `next`, `VStep` says how the value read at a handle that is live
    before and after is related. -/
theorem VStep.value {S T : Nat → Prop} {f f' : Forest} (h : VStep S T f f') (hi : f.Inv) {x : Nat}
    {v v' : Value} (hv : f.value? x = some v) (hv' : f'.value? x = some v') : VRel S T x v v' := by
  rcases h.old x v' (hv_of_value? hv') with h1 | ⟨v0, h2, h3⟩
  · have := hi.below x (mem_allHandles_of_isLive (isLive_of_value? hv))
    omega
  · have := (value?_eq_some_iff hi.nodup x v0).2 h2
    rw [hv] at this
    cases this
    exact h3

/-- A handle that was live is afterwards live or removed — never "unknown". -/
theorem VStep.live_or_removed {S T : Nat → Prop} {f f' : Forest} (h : VStep S T f f') (hi : f.Inv)
    {x : Nat} (hl : f.isLive x = true) : f'.isLive x = true ∨ f'.isRemoved x = true := by
  cases hl' : f'.isLive x with
  | true => exact Or.inl rfl
  | false =>
    right
    have := hi.below x (mem_allHandles_of_isLive hl)
    have := h.next
    simp [isRemoved, hl']
    omega

theorem TextExt.of_nontext {v v' : Value} (h : TextExt v v') (hv : v.isText = false) : False := by
  obtain ⟨s, a, b, rfl, _⟩ := h
  simp [Value.isText] at hv

/-- The form used below: same kind always; same value unless text (extended) or a target. -/
theorem VRel.cases_any {x : Nat} {v v' : Value} (h : VRel S Any x v v') :
    SameKind v v' ∧ (¬ S x → v' = v ∨ TextExt v v') ∧ (¬ S x → v.isText = false → v' = v) := by
  refine ⟨h.sameKind, ?_, ?_⟩
  · intro hS
    rcases h with h | h | h
    · exact Or.inl h
    · exact Or.inr h.2
    · exact absurd h.1 hS
  · intro hS hnt
    rcases h with h | h | h
    · exact h
    · exact (h.2.of_nontext hnt).elim
    · exact absurd h.1 hS

/-! ### Histories -/

/-- A handle live at both ends of a history is live throughout (a removed handle stays removed). -/
theorem live_between {f : Forest} (hi : f.Inv) (o : Op) (os : List Op) {x : Nat}
    (hl : f.isLive x = true) (hl' : ((f.step o).run os).isLive x = true) : (f.step o).isLive x = true := by
  cases h1 : (f.step o).isLive x with
  | true => rfl
  | false =>
    exfalso
    have hlt := hi.below x (mem_allHandles_of_isLive hl)
    have hr : (f.step o).isRemoved x = true := by
      have := (le_step f o).next
      simp [isRemoved, h1]; omega
    have := isRemoved_mono (le_run (f.step o) os) hr
    simp [isRemoved, hl'] at this

theorem run_cons (f : Forest) (o : Op) (os : List Op) : f.run (o :: os) = (f.step o).run os := rfl

/-- Along any history: a handle live at the start and at the end denotes a node of the same kind;
    if no call in between had it among its targets, the value is the same, up to the extension of
    text content by consolidation. -/
theorem history_value : ∀ (ops : List Op) {f : Forest}, f.Inv → ∀ {x : Nat} {v v' : Value},
    f.value? x = some v → (f.run ops).value? x = some v' →
    SameKind v v' ∧ (f.neverTarget x ops → v' = v ∨ TextExt v v')
  | [], f, _, x, v, v', hv, hv' => by
    have : f.run [] = f := rfl
    rw [this, hv] at hv'
    cases hv'
    exact ⟨SameKind.refl _, fun _ => Or.inl rfl⟩
  | o :: os, f, hi, x, v, v', hv, hv' => by
    rw [run_cons] at hv'
    have hi1 : (f.step o).Inv := step_inv hi o (by cases o <;> rfl)
    have hl1 := live_between hi o os (isLive_of_value? hv) (isLive_of_value? hv')
    rw [isLive_iff_value?] at hl1
    cases hv1 : (f.step o).value? x with
    | none => rw [hv1] at hl1; cases hl1
    | some v1 =>
      have ih := history_value os hi1 hv1 hv'
      have st := vstep_step (S := fun y => y ∈ o.targets f) hi o (fun _ h => h)
      have r1 := (st.value hi hv hv1).cases_any
      refine ⟨r1.1.trans' ih.1, ?_⟩
      intro hn
      obtain ⟨hn1, hn2⟩ := hn
      rcases r1.2.1 hn1 with e | e
      · rw [e] at ih; exact ih.2 hn2
      · rcases ih.2 hn2 with e2 | e2
        · rw [e2]; exact Or.inr e
        · exact Or.inr (e.trans e2)

end Forest
end XotModel
