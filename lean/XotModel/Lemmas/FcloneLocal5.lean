/-
  Lemmas for C12, part 17 (locality of `clone_with_prefixes`): inserting the inherited
  declarations on the clone, in any order, leaves every other root as it is.
-/
import XotModel.Lemmas.FcloneLocal4
import XotModel.Model.FcloneModel

namespace XotModel
open HTree

/-- Every handle of `r` was handed out before `f.next`. -/
def Below (r : HTree) (f : Forest) : Prop := ∀ a ∈ handles r, a < f.next

namespace Sep

variable {r : HTree} {f : Forest}

theorem newNode (s : Sep r f) (hb : Below r f) (v : Value) :
    Sep r (f.newNode v).1 ∧ Below r (f.newNode v).1 ∧ (f.newNode v).2 ∉ handles r := by
  refine ⟨?_, ?_, ?_⟩
  · refine s.appendRoots [.node f.next v []] ?_ rfl
    intro t ht a ha hat
    simp only [List.mem_singleton] at ht
    subst ht
    simp only [handles, handlesList, List.mem_cons, List.not_mem_nil, or_false] at hat
    have := hb a ha
    omega
  · intro a ha
    have := hb a ha
    show a < f.next + 1
    omega
  · intro h
    exact Nat.lt_irrefl _ (hb _ h)

theorem mapChildren_sub (k : Forest.MapKind) (t : HTree) : ∀ x ∈ Forest.mapChildren k t, x ∈ t.kids := by
  intro x hx
  cases k with
  | namespaces => exact (List.takeWhile_sublist _).mem hx
  | attributes =>
    exact (List.dropWhile_sublist _).mem ((List.takeWhile_sublist _).mem hx)

theorem mapGetNode_disj (s : Sep r f) {k : Forest.MapKind} {p key : Nat} {n : HTree}
    (hp : p ∉ handles r) (hn : f.mapGetNode k p key = some n) : n.handle ∉ handles r := by
  unfold Forest.mapGetNode at hn
  cases hg : f.get? p with
  | none => simp [hg] at hn
  | some t0 =>
    rw [hg] at hn
    simp only at hn
    have hx : n ∈ t0.kids := mapChildren_sub k t0 n (List.mem_of_find?_eq_some hn)
    intro har
    exact s.get?_disj hp hg _ har (kids_handles_sub t0 n hx _ (fc_handle_mem_handles n))

theorem mapInsertionPoint_disj (s : Sep r f) {k : Forest.MapKind} {p ip : Nat}
    (hp : p ∉ handles r) (hi : f.mapInsertionPoint k p = some ip) : ip ∉ handles r := by
  unfold Forest.mapInsertionPoint at hi
  cases hg : f.get? p with
  | none => simp [hg] at hi
  | some t0 =>
    rw [hg] at hi
    simp only at hi
    have key : ∀ x ∈ t0.kids, x.handle ∉ handles r := fun x hx har =>
      s.get?_disj hp hg _ har (kids_handles_sub t0 x hx _ (fc_handle_mem_handles x))
    cases hl : (Forest.mapChildren k t0).getLast? with
    | some l =>
      rw [hl] at hi
      cases hi
      exact key l (mapChildren_sub k t0 l (List.mem_of_getLast? hl))
    | none =>
      rw [hl] at hi
      cases k with
      | namespaces => simp at hi
      | attributes =>
        simp only [Option.map_eq_some_iff] at hi
        obtain ⟨x, hx, rfl⟩ := hi
        exact key x ((List.takeWhile_sublist _).mem (List.mem_of_getLast? hx))

theorem next_cut (f : Forest) (b : Nat) : (f.cut b).1.next = f.next := by
  unfold Forest.cut
  cases f.get? b with
  | none => rfl
  | some t => simp only; split <;> rfl

theorem next_checkedInsertAfter (f : Forest) (a b : Nat) : (f.checkedInsertAfter a b).1.next = f.next := by
  unfold Forest.checkedInsertAfter
  split
  · rfl
  · split
    · rfl
    · have h := next_cut f b
      cases hcut : f.cut b with
      | mk f' o =>
        rw [hcut] at h
        cases o <;> exact h

theorem next_checkedPrepend (f : Forest) (a b : Nat) : (f.checkedPrepend a b).1.next = f.next := by
  unfold Forest.checkedPrepend
  split
  · rfl
  · have h := next_cut f b
    cases hcut : f.cut b with
    | mk f' o =>
      rw [hcut] at h
      cases o <;> exact h

theorem mapPlace (s : Sep r f) (hb : Below r f) {k : Forest.MapKind} {p n : Nat} (hp : p ∉ handles r)
    (hn : n ∉ handles r) : Sep r (f.mapPlace k p n).1 ∧ Below r (f.mapPlace k p n).1 := by
  unfold Forest.mapPlace
  cases hi : f.mapInsertionPoint k p with
  | some ip =>
    simp only
    have s1 := s.checkedInsertAfter (s.mapInsertionPoint_disj hp hi) hn
    have n1 := next_checkedInsertAfter f ip n
    generalize f.checkedInsertAfter ip n = ca at s1 n1 ⊢
    obtain ⟨f', b'⟩ := ca
    cases b' <;> exact ⟨s1, fun a ha => by have := hb a ha; simp only at n1; show a < f'.next; omega⟩
  | none =>
    simp only
    have s1 := s.checkedPrepend hp hn
    have n1 := next_checkedPrepend f p n
    generalize f.checkedPrepend p n = ca at s1 n1 ⊢
    obtain ⟨f', b'⟩ := ca
    cases b' <;> exact ⟨s1, fun a ha => by have := hb a ha; simp only at n1; show a < f'.next; omega⟩

theorem mapInsert (s : Sep r f) (hb : Below r f) {k : Forest.MapKind} {p : Nat} (hp : p ∉ handles r)
    (entry : Value) : Sep r (f.mapInsert k p entry).1 ∧ Below r (f.mapInsert k p entry).1 := by
  unfold Forest.mapInsert
  split
  · exact ⟨s, hb⟩
  · cases hg : f.mapGetNode k p (Forest.entryKey entry) with
    | some n => exact ⟨s.setValue (s.mapGetNode_disj hp hg) _, hb⟩
    | none =>
      simp only
      obtain ⟨s1, b1, h1⟩ := s.newNode hb entry
      exact s1.mapPlace b1 hp h1

theorem addPrefixes (clone : Nat) (hc : clone ∉ handles r) : ∀ (order : List (Nat × Nat)) {f : Forest},
    Sep r f → Below r f → Sep r (f.addPrefixes clone order).1
  | [], _, s, _ => s
  | (p, ns) :: rest, f, s, hb => by
    unfold Forest.addPrefixes
    split
    · exact addPrefixes clone hc rest s hb
    · have h := s.mapInsert (k := .namespaces) hb hc (.namespace p ns)
      generalize f.mapInsert .namespaces clone (.namespace p ns) = mi at h ⊢
      obtain ⟨f', res⟩ := mi
      cases res with
      | ok => exact addPrefixes clone hc rest h.1 h.2
      | err e => exact h.1
      | panic => exact h.1

end Sep

/-- `clone_with_prefixes`, whatever the iteration order of the inherited prefixes: every tree
    that existed before is still a root, unchanged. -/
theorem cloneWithPrefixes_frame (f : Forest) (inv : f.Inv) (node : Nat) (src : HTree)
    (hsrc : f.get? node = some src) (order : List (Nat × Nat)) :
    ∀ r ∈ f.roots, r ∈ (f.cloneWithPrefixes node order).1.roots := by
  obtain ⟨C, f', h1, h2, _, h4, h5, -⟩ := cloneNode_full f inv node src hsrc
  obtain ⟨_, g4⟩ := sep_after_clone f inv C f' h2 (fun a ha => (h4 a ha).1)
  intro r hr
  have s := g4 r hr
  have hb : Below r f' := fun a ha => by
    have := inv.below a (handles_subset_handlesList hr a ha)
    omega
  have hc : C.handle ∉ handles r := by
    intro h
    have := inv.below _ (handles_subset_handlesList hr _ h)
    have := (h4 _ (fc_handle_mem_handles C)).1
    omega
  unfold Forest.cloneWithPrefixes
  rw [h1]
  simp only
  split
  · have h := Sep.addPrefixes C.handle hc order s hb
    generalize f'.addPrefixes C.handle order = ap at h ⊢
    obtain ⟨f2, res⟩ := ap
    cases res <;> exact h.mem
  · exact s.mem

end XotModel
