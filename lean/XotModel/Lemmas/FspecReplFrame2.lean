/-
  FspecReplFrame2 — C05 for `replace`, the specification `specReplace` (no model function):
  F1 the frame (`frame_specReplace`) and F2 the handles (`specReplace_nodup`,
  `specReplace_handles_sub`, `specReplace_handles_kept`, `specReplace_flags`,
  `specReplace_keeps_new`, `specReplace_get_new`), all derived from the one form
  `ReplFrame.Stage` of the three geometries.
-/
import XotModel.Lemmas.FspecReplFrame

namespace XotModel
open HTree Spec

namespace ReplFrame

variable {f : Forest} {keep : Keep} {a b q : Nat} {vq : Value} {l : List HTree} {A : HTree} {r : List HTree}
  {t : HTree} {Y : Forest} {l' r' : List HTree}

/-- The replacement in the child list of `q` as it stands in `Y`. -/
theorem Stage.put (st : Stage f keep a b q vq l A r t Y l' r') (ha : A.handle = a) :
    replaceTop a (fun _ => [t]) (l' ++ A :: r') = l' ++ t :: r' := by
  obtain ⟨ndL, _⟩ := st.site.nodupKids
  obtain ⟨tl, _⟩ := tops_ne_of_nodup ndL
  rw [replaceTop_mid ha (ha ▸ tl)]
  simp

/-- Handles: those of `A` are exchanged for those of `t` (and merged text nodes go). -/
theorem Stage.count_final (st : Stage f keep a b q vq l A r t Y l' r') (ha : A.handle = a) (z : Nat) :
    (specReplace keep a b f).allHandles.count z + (handles A).count z ≤ f.allHandles.count z := by
  rw [st.spec]
  have h1 := st.site.count (mergeOpt f.consolidation keep ∘ replaceTop a (fun _ => [t])) z
  simp only [Function.comp] at h1
  rw [st.put ha] at h1
  have h2 := (mergeOpt_sublist f.consolidation keep (l' ++ t :: r')).count_le z
  have h3 := count_handles_mid z l' t r'
  have h4 := count_handles_mid z l' A r'
  have h5 := st.count z
  omega

theorem Stage.nodup (st : Stage f keep a b q vq l A r t Y l' r') (ha : A.handle = a) (nd : f.allHandles.Nodup) :
    (specReplace keep a b f).allHandles.Nodup := by
  rw [List.nodup_iff_count]
  intro z
  have := st.count_final ha z
  have := (List.nodup_iff_count.1 nd) z
  omega

/-- A text child of `q` in `Y` is a text child of `q` in `f`: a leaf, found by its handle. -/
theorem Stage.text_kid (st : Stage f keep a b q vq l A r t Y l' r') (inv : f.Inv)
    (sq : SiteAt f q vq (l ++ A :: r)) {k : HTree} (hk : k ∈ l' ++ r') (hkt : k.value.isText = true) :
    k.kids = [] ∧ f.get? k.handle = some k ∧ f.parent? k.handle = some q := by
  have h0 := st.text k hk hkt
  have hkL : k ∈ l ++ A :: r := by
    rcases List.mem_append.1 h0 with h | h
    · exact List.mem_append_left _ h
    · exact List.mem_append_right _ (List.mem_cons_of_mem _ h)
  obtain ⟨A', B', hAB⟩ := List.append_of_mem hkL
  have sq' : SiteAt f q vq (A' ++ k :: B') := hAB ▸ sq
  exact ⟨sq.leaf inv.valid k hkL hkt, sq'.getKid, Forest.parent?_of_ctx sq'.ctx⟩

theorem mem_put {l' r' : List HTree} {t k : HTree} (hk : k ∈ l' ++ t :: r') : k = t ∨ k ∈ l' ++ r' := by
  rcases List.mem_append.1 hk with h | h
  · exact Or.inr (List.mem_append_left _ h)
  · rcases List.mem_cons.1 h with h' | h'
    · exact Or.inl h'
    · exact Or.inr (List.mem_append_right _ h')

/-- F1 from the stage. -/
theorem Stage.frame_final (st : Stage f keep a b q vq l A r t Y l' r') (inv : f.Inv)
    (ra : ReplArgs f a b q vq l A r t) {x : Nat} {cx : Ctx} (hx : f.ctx? x = some cx)
    (h1 : cx.parent ≠ q) (h2 : some cx.parent ≠ f.parent? b) (h3 : cx.parent ∉ handles t)
    (h4 : x ∉ handles t) (h5 : cx.parent ∉ handles A) :
    ∃ cx', (specReplace keep a b f).ctx? x = some cx' ∧ cx'.shape = cx.shape := by
  have nd := inv.nodup
  obtain ⟨cx1, hx1, hs1⟩ := st.frame hx h1 h2 h3 h4
  have hp1 : cx1.parent = cx.parent := congrArg Prod.fst hs1
  have hnd := st.nodup ra.ha nd
  rw [st.spec] at hnd ⊢
  obtain ⟨ndL, _⟩ := st.site.nodupKids
  obtain ⟨cx', h', hs'⟩ := st.site.frame _ hnd hx1 (by rw [hp1]; exact h1) (by
    rw [hp1]
    simp only [Function.comp]
    rw [findList?_mergeOpt, findList?_putTop h3]
    · intro k hk hka
      rw [top_unique ndL hk (hka.trans ra.ha.symm)]
      exact h5
    · rw [st.put ra.ha]
      intro k hk hkt
      rcases mem_put hk with e | e
      · rw [e] at hkt ⊢
        exact ⟨leaf_of_text inv.valid ra.hgb hkt, fun e' => h3 (e' ▸ fs_handle_mem_handles t)⟩
      · obtain ⟨hl, hg, _⟩ := st.text_kid inv ra.sq e hkt
        exact ⟨hl, not_text_leaf_of_parent nd hx hg hl⟩)
  exact ⟨cx', h', hs'.trans hs1⟩

/-- A handle of the edited child list that the forest did not hold is a handle afterwards. -/
theorem mem_editAt_new {f : Forest} {p : Nat} {v : Value} {L : List HTree} (s : SiteAt f p v L)
    (g : List HTree → List HTree) {z : Nat} (hz : z ∈ handlesList (g L)) (hzL : z ∉ handlesList L) :
    z ∈ (f.editAt (some p) g).allHandles := by
  have hc := s.count g z
  have h1 : 0 < (handlesList (g L)).count z := List.count_pos_iff.2 hz
  have h2 : (handlesList L).count z = 0 := List.count_eq_zero.2 hzL
  apply List.count_pos_iff.1
  omega

/-- Which nodes outside the replaced subtree stay: every one that is not a text node standing in
    one of the two touched child lists (nor the replacing node itself when it is text). -/
theorem Stage.kept_final (st : Stage f keep a b q vq l A r t Y l' r') (inv : f.Inv)
    (ra : ReplArgs f a b q vq l A r t) {z : Nat} (hz : z ∈ f.allHandles) (hzA : z ∉ handles A)
    (hcond : f.consolidation = false ∨ f.textOf z = none ∨
      (z ≠ b ∧ ∀ p, f.parent? z = some p → p ≠ q ∧ some p ≠ f.parent? b)) :
    z ∈ (specReplace keep a b f).allHandles := by
  have nd := inv.nodup
  rw [st.spec]
  by_cases hzt : z ∈ handles t
  · -- a node of the replacing subtree
    apply mem_editAt_new st.site
    · simp only [Function.comp]
      rw [st.put ra.ha]
      have hzL : z ∈ handlesList (l' ++ t :: r') := by
        rw [fs_handlesList_append, handlesList_cons]
        exact List.mem_append_right _ (List.mem_append_left _ hzt)
      apply mem_mergeOpt _ _ hzL
      intro hc k hk hkt hzk
      -- `z` would be a text node
      have hzk' : z = k.handle ∧ f.get? k.handle = some k := by
        rcases mem_put hk with e | e
        · subst e
          rw [handles_leaf (leaf_of_text inv.valid ra.hgb hkt)] at hzk
          exact ⟨List.mem_singleton.1 hzk, by rw [ra.hb]; exact ra.hgb⟩
        · obtain ⟨hl, hg, _⟩ := st.text_kid inv ra.sq e hkt
          rw [handles_leaf hl] at hzk
          exact ⟨List.mem_singleton.1 hzk, hg⟩
      have htext : f.textOf z ≠ none := by
        rw [hzk'.1, Forest.textOf_of_get hzk'.2]
        obtain ⟨x, hx⟩ := isText_iff_textData.1 hkt
        rw [hx]; simp
      rcases hcond with h | h | h
      · rw [h] at hc; cases hc
      · exact htext h
      · -- `z` is the root of `t` or a text child of `q`
        rcases mem_put hk with e | e
        · subst e; exact h.1 (hzk'.1.trans ra.hb)
        · obtain ⟨_, _, hp⟩ := st.text_kid inv ra.sq e hkt
          rw [← hzk'.1] at hp
          exact (h.2 q hp).1 rfl
    · intro hzL
      have h1 : 0 < (handlesList (l' ++ A :: r')).count z := List.count_pos_iff.2 hzL
      have h2 : 0 < (handles t).count z := List.count_pos_iff.2 hzt
      have h3 := st.count z
      have h4 := (List.nodup_iff_count.1 nd) z
      have h5 : (handlesList (l' ++ A :: r')).count z ≤ Y.allHandles.count z := by
        have := (fs_findList?_sublist Y.roots _ st.site.kids).count_le z
        rw [handles_node, List.count_cons] at this
        unfold Forest.allHandles
        omega
      omega
  · -- any other node
    have hzY : z ∈ Y.allHandles := by
      apply st.kept z hz hzt
      intro hc po hpb hne hbad
      rcases hcond with h | h | h
      · rw [h] at hc; cases hc
      · exact hbad.2 h
      · exact (h.2 po hbad.1).2 (by rw [hpb])
    apply mem_editAt st.site _ hzY
    intro hzL
    simp only [Function.comp]
    rw [st.put ra.ha]
    have hzL' : z ∈ handlesList (l' ++ t :: r') := by
      have := mem_mid_of_ne hzL hzA
      rw [fs_handlesList_append] at this
      rw [fs_handlesList_append, handlesList_cons]
      rcases List.mem_append.1 this with h | h
      · exact List.mem_append_left _ h
      · exact List.mem_append_right _ (List.mem_append_right _ h)
    apply mem_mergeOpt _ _ hzL'
    intro hc k hk hkt hzk
    rcases mem_put hk with e | e
    · subst e; exact hzt hzk
    · obtain ⟨hl, hg, hp⟩ := st.text_kid inv ra.sq e hkt
      rw [handles_leaf hl] at hzk
      have hzk' : z = k.handle := List.mem_singleton.1 hzk
      rcases hcond with h | h | h
      · rw [h] at hc; cases hc
      · rw [hzk', Forest.textOf_of_get hg] at h
        obtain ⟨x, hx⟩ := isText_iff_textData.1 hkt
        rw [hx] at h; cases h
      · rw [← hzk'] at hp
        exact (h.2 q hp).1 rfl

/-- The replacing subtree stands, unchanged, where `a` stood (when it is not a text node that a
    merge may absorb). -/
theorem Stage.get_new (st : Stage f keep a b q vq l A r t Y l' r') (ra : ReplArgs f a b q vq l A r t)
    (nd : f.allHandles.Nodup) (hcond : f.consolidation = false ∨ t.value.isText = false) :
    (specReplace keep a b f).get? b = some t ∧ (specReplace keep a b f).parent? b = some q := by
  have hnd := st.nodup ra.ha nd
  rw [st.spec] at hnd ⊢
  have s' := site_edit st.site _ hnd
  simp only [Function.comp] at s'
  rw [st.put ra.ha] at s'
  have hm : t ∈ mergeOpt f.consolidation keep (l' ++ t :: r') := by
    rcases hcond with h | h
    · rw [h]; exact List.mem_append_right _ List.mem_cons_self
    · exact mem_mergeOpt_nontext _ _ h (List.mem_append_right _ List.mem_cons_self)
  obtain ⟨A', B', hAB⟩ := List.append_of_mem hm
  rw [hAB] at s'
  rw [← ra.hb]
  exact ⟨s'.getKid, Forest.parent?_of_ctx s'.ctx⟩

end ReplFrame

variable {f : Forest} {a b q : Nat} {vq : Value} {l : List HTree} {A : HTree} {r : List HTree} {t : HTree}

/-- **F1, frame of `specReplace`**: a node whose parent is neither `q` (the parent of the
    replaced node) nor the old parent of the replacing node `b`, and lies neither in the replaced
    subtree `A` nor in the replacing subtree `t` (nor does the node itself lie in `t`), keeps its
    parent, the handles of its left and right siblings and its value. -/
theorem frame_specReplace (keep : Keep) (inv : f.Inv) (ra : ReplArgs f a b q vq l A r t)
    {x : Nat} {cx : Ctx} (hx : f.ctx? x = some cx)
    (h1 : cx.parent ≠ q) (h2 : some cx.parent ≠ f.parent? b) (h3 : cx.parent ∉ handles t)
    (h4 : x ∉ handles t) (h5 : cx.parent ∉ handles A) :
    ∃ cx', (specReplace keep a b f).ctx? x = some cx' ∧ cx'.shape = cx.shape := by
  obtain ⟨Y, l', r', st⟩ := ReplFrame.stage_exists keep inv ra
  exact st.frame_final inv ra hx h1 h2 h3 h4 h5

/-- **F2a**: handles stay distinct. -/
theorem specReplace_nodup (keep : Keep) (inv : f.Inv) (ra : ReplArgs f a b q vq l A r t) :
    (specReplace keep a b f).allHandles.Nodup := by
  obtain ⟨Y, l', r', st⟩ := ReplFrame.stage_exists keep inv ra
  exact st.nodup ra.ha inv.nodup

/-- **F2b**, counting form: the handles of `A` leave, nothing is added. -/
theorem specReplace_count (keep : Keep) (inv : f.Inv) (ra : ReplArgs f a b q vq l A r t) (z : Nat) :
    (specReplace keep a b f).allHandles.count z + (handles A).count z ≤ f.allHandles.count z := by
  obtain ⟨Y, l', r', st⟩ := ReplFrame.stage_exists keep inv ra
  exact st.count_final ra.ha z

/-- **F2b**: no node is created, and the replaced subtree is gone entirely. -/
theorem specReplace_handles_sub (keep : Keep) (inv : f.Inv) (ra : ReplArgs f a b q vq l A r t) :
    ∀ h ∈ (specReplace keep a b f).allHandles, h ∈ f.allHandles ∧ h ∉ handles A := by
  intro h hh
  have h1 : 0 < (specReplace keep a b f).allHandles.count h := List.count_pos_iff.2 hh
  have h2 := specReplace_count keep inv ra h
  have h3 := (List.nodup_iff_count.1 inv.nodup) h
  constructor
  · apply List.count_pos_iff.1; omega
  · apply List.count_eq_zero.1; omega

/-- **F2c, precise**: a node outside the replaced subtree can only disappear when consolidation
    is on and it is a text node that is the replacing node itself or a child of `q` or of the old
    parent of the replacing node (it was absorbed by a merge). -/
theorem specReplace_handles_kept_precise (keep : Keep) (inv : f.Inv) (ra : ReplArgs f a b q vq l A r t)
    {h : Nat} (hh : h ∈ f.allHandles) (hA : h ∉ handles A)
    (hcond : f.consolidation = false ∨ f.textOf h = none ∨
      (h ≠ b ∧ ∀ p, f.parent? h = some p → p ≠ q ∧ some p ≠ f.parent? b)) :
    h ∈ (specReplace keep a b f).allHandles := by
  obtain ⟨Y, l', r', st⟩ := ReplFrame.stage_exists keep inv ra
  exact st.kept_final inv ra hh hA hcond

/-- **F2c**: every other node that is not a text node is kept. -/
theorem specReplace_handles_kept (keep : Keep) (inv : f.Inv) (ra : ReplArgs f a b q vq l A r t) :
    ∀ h ∈ f.allHandles, h ∉ handles A → f.textOf h = none → h ∈ (specReplace keep a b f).allHandles :=
  fun _ hh hA ht => specReplace_handles_kept_precise keep inv ra hh hA (Or.inr (Or.inl ht))

/-- **F2e**: without consolidation nothing but the replaced subtree disappears. -/
theorem specReplace_handles_kept_off (keep : Keep) (inv : f.Inv) (ra : ReplArgs f a b q vq l A r t)
    (hc : f.consolidation = false) :
    ∀ h ∈ f.allHandles, h ∉ handles A → h ∈ (specReplace keep a b f).allHandles :=
  fun _ hh hA => specReplace_handles_kept_precise keep inv ra hh hA (Or.inl hc)

/-- **F2d**: the counters and flags are untouched. -/
theorem specReplace_flags (keep : Keep) (inv : f.Inv) (ra : ReplArgs f a b q vq l A r t) :
    (specReplace keep a b f).next = f.next ∧ (specReplace keep a b f).consolidation = f.consolidation ∧
    (specReplace keep a b f).everOff = f.everOff ∧ (specReplace keep a b f).corrupt = f.corrupt := by
  obtain ⟨Y, l', r', st⟩ := ReplFrame.stage_exists keep inv ra
  rw [st.spec]
  exact st.flags

/-- **F2f**: the replacing subtree keeps its handles (unless it is a text node and consolidation is on). -/
theorem specReplace_keeps_new (keep : Keep) (inv : f.Inv) (ra : ReplArgs f a b q vq l A r t)
    (hcond : f.consolidation = false ∨ t.value.isText = false) :
    ∀ h ∈ handles t, h ∈ (specReplace keep a b f).allHandles := by
  intro h hh
  obtain ⟨Y, l', r', st⟩ := ReplFrame.stage_exists keep inv ra
  obtain ⟨hg, _⟩ := st.get_new ra inv.nodup hcond
  exact (findList?_some _ t hg).2 h hh

/-- **F2f**: the replacing subtree is found, unchanged, as a child of `q`. -/
theorem specReplace_get_new (keep : Keep) (inv : f.Inv) (ra : ReplArgs f a b q vq l A r t)
    (hcond : f.consolidation = false ∨ t.value.isText = false) :
    (specReplace keep a b f).get? b = some t ∧ (specReplace keep a b f).parent? b = some q := by
  obtain ⟨Y, l', r', st⟩ := ReplFrame.stage_exists keep inv ra
  exact st.get_new ra inv.nodup hcond

end XotModel
