/-
  GENERATED COPY (wt-c17str) of the declarations of XotModel.Lemmas.RoundTripTop that depend on `valueOK`, restated in the
  namespace `XotModel.PiColon`, where `valueOK` asks of a PI target what the tokenizer's `consume_name` accepts
  (`nameOK`: colons allowed) instead of an NCName (Lemmas/PiColonDefs.lean).  Proof texts unchanged except where noted.
-/
import XotModel.Lemmas.RoundTripTop
import XotModel.Lemmas.PiColonRoundTripIds

namespace XotModel.PiColon

variable {env : Env}

/-- What `RepresentableFragment` and a successful serialisation give, for the tree induction. -/
structure TopFacts (env : Env) (ks : List Tree) (ts : List Token) : Prop where
  he : EnvFacts env
  hkids : ∀ k ∈ ks, k.allNodes (nodeOK env) = true
  hord : OrderedKids ks
  hnoadj : noAdjText ks = true
  hnormal : ∀ k ∈ ks, k.value.isNormal = true
  hdocs : ∀ k ∈ ks, k.value.isDocument = false
  hids : (xmlIdValues.idsList env ks).Nodup
  hser : serNode.serKids env false basePrefixes (FStack.new basePrefixes) ks = .ok ts
  hspell : spellTop env (.node .document ks) =
    spellNode.spellKids env basePrefixes (FStack.new basePrefixes) ks

theorem topFacts {t : Tree} (hr : RepresentableFragment env t = true) {ts : List Token}
    (h : serTokensTop env t = .ok ts) : ∃ ks, t = .node .document ks ∧ TopFacts env ks ts := by
  obtain ⟨henv, hdocv, hn, hids⟩ := (representableFragment_iff env t).mp hr
  cases t with
  | node v ks =>
    cases v <;> simp [Tree.value, Value.isDocument] at hdocv
    refine ⟨ks, rfl, ?_⟩
    have hnode : nodeOK env .document ks = true := by
      rw [allNodes_node, Bool.and_eq_true] at hn; exact hn.1
    obtain ⟨hord, hkinds, _, hnoadj, _⟩ := (nodeOK_iff env _ ks).mp hnode
    have hnormal := hkinds.2.1 rfl
    have hin := inScope_document ks hord hnormal
    rw [serTokensTop_document, hin] at h
    refine ⟨envFacts_of_envOK henv, fun k hk => allNodes_kid hn hk, hord, hnoadj, hnormal, hkinds.2.2, ?_, h, ?_⟩
    · simpa [xmlIdValues] using hids
    · simp [spellTop, spellAt, Tree.at?, namespacesInScope, Tree.ancestorsOrSelf, hin, spellNode]

/-- **Lemma B** for a whole document or fragment: what the spelling denotes in the base scope is what
    the tree reads back as. -/
theorem spellTop_denote {ks : List Tree} {ts : List Token} (hf : TopFacts env ks ts) :
    decodeNs env ks = some (NSNode.denote.denoteList baseScope (spellTop env (.node .document ks))) ∧
      ∃ items, decodeNsTree.decodeItems env ks = some items ∧
        NSNode.denote.denoteList baseScope (spellTop env (.node .document ks)) = items.filterMap NItem.node? ∧
        items.filterMap NItem.attr? = [] := by
  obtain ⟨items, h1, h2, h3, h4⟩ := spellKids_denote hf.he basePrefixes ks _ _ _ (ScopeRel.base hf.he)
    hf.hkids hf.hdocs ts hf.hser
  obtain ⟨k1, k2⟩ := kids_normal_none ks hf.hnormal
  rw [k1] at h2
  rw [k2] at h3
  refine ⟨?_, items, h1, by rw [hf.hspell, h4], h3⟩
  unfold decodeNs
  rw [h1, hf.hspell, h4]
  exact mapM_node_of_normal items h2 h3

/-- **Lemma C** for a whole document or fragment. -/
theorem spellTop_well {ks : List Tree} {ts : List Token} (hf : TopFacts env ks ts) :
    WellNsDoc (spellTop env (.node .document ks)) := by
  have hrel := ScopeRel.base hf.he
  refine ⟨?_, ?_, ?_⟩
  · rw [hf.hspell]
    exact spellKids_well hf.he basePrefixes ks _ _ _ hrel hf.hkids hf.hdocs ts hf.hser
  · rw [hf.hspell]
    exact spellKids_noAdj basePrefixes _ ks hf.hkids hf.hdocs hf.hord hf.hnoadj
  · obtain ⟨_, items, h1, h2, h3⟩ := spellTop_denote hf
    rw [h2]
    have hv := serKids_nsInterned hf.he basePrefixes ks _ _ _ hrel hf.hkids ts hf.hser
    have hperm := decode_ids_kids hf.he ks items h1 hv (by
      rw [(kids_normal_none ks hf.hnormal).2]; intro a ha; cases ha)
    have hsplit := ids_split items
    rw [h3] at hsplit
    simp only [attrIds, List.filter_nil, List.map_nil, List.nil_append] at hsplit
    exact (hsplit.trans hperm).nodup_iff.mpr hf.hids

/-! ### Top-level shape -/

/-- Document mode: the abstract document has exactly one top-level element and no top-level text. -/
theorem spellTop_abstractTop {ks : List Tree} {ts : List Token} (hf : TopFacts env ks ts)
    (hsingle : singleRoot (.node .document ks) = true) :
    AbstractTopNs (NSNode.denote.denoteList baseScope (spellTop env (.node .document ks))) := by
  obtain ⟨_, items, h1, h2, h3⟩ := spellTop_denote hf
  have hd : items.filterMap NItem.decl? = [] := by
    obtain ⟨items', h1', h2', _, _⟩ := spellKids_denote hf.he basePrefixes ks _ _ _ (ScopeRel.base hf.he)
      hf.hkids hf.hdocs ts hf.hser
    rw [h1] at h1'
    cases h1'
    rw [h2', (kids_normal_none ks hf.hnormal).1]; rfl
  obtain ⟨t1, t2⟩ := decodeItems_top ks items h1 hd h3
  simp only [singleRoot, Tree.kids, Bool.and_eq_true, beq_iff_eq, List.all_eq_true, Bool.not_eq_true'] at hsingle
  rw [h2]
  exact ⟨t1.trans hsingle.1, t2 hsingle.2⟩

end XotModel.PiColon
