/-
  FspecSamePrepend — `prepend` within one child list, and the total theorem.
-/
import XotModel.Lemmas.FspecSameBefore

namespace XotModel
open HTree Spec

theorem takeWhile_abn_append_of_normal {l : List HTree} (X : List HTree) (h : ∃ k ∈ l, abn k = false) :
    (l ++ X).takeWhile abn = l.takeWhile abn := by
  induction l with
  | nil => obtain ⟨k, hk, _⟩ := h; cases hk
  | cons a l ih =>
    rw [List.cons_append, List.takeWhile_cons, List.takeWhile_cons]
    cases ha : abn a with
    | false => rfl
    | true =>
      simp only [if_true]
      congr 1
      apply ih
      obtain ⟨k, hk, hkn⟩ := h
      cases List.mem_cons.1 hk with
      | inl e => rw [e, ha] at hkn; cases hkn
      | inr e => exact ⟨k, e, hkn⟩

theorem dropWhile_abn_append_of_normal {l : List HTree} (X : List HTree) (h : ∃ k ∈ l, abn k = false) :
    (l ++ X).dropWhile abn = l.dropWhile abn ++ X := by
  induction l with
  | nil => obtain ⟨k, hk, _⟩ := h; cases hk
  | cons a l ih =>
    rw [List.cons_append, List.dropWhile_cons, List.dropWhile_cons]
    cases ha : abn a with
    | false => rfl
    | true =>
      simp only [if_true]
      apply ih
      obtain ⟨k, hk, hkn⟩ := h
      cases List.mem_cons.1 hk with
      | inl e => rw [e, ha] at hkn; cases hkn
      | inr e => exact ⟨k, e, hkn⟩

theorem dropWhile_abn_ne_nil_of_normal {l : List HTree} (h : ∃ k ∈ l, abn k = false) : l.dropWhile abn ≠ [] := by
  induction l with
  | nil => obtain ⟨k, hk, _⟩ := h; cases hk
  | cons a l ih =>
    rw [List.dropWhile_cons]
    cases ha : abn a with
    | false => simp
    | true =>
      simp only [if_true]
      apply ih
      obtain ⟨k, hk, hkn⟩ := h
      cases List.mem_cons.1 hk with
      | inl e => rw [e, ha] at hkn; cases hkn
      | inr e => exact ⟨k, e, hkn⟩

/-- If the first normal child is not `t`, there is a normal child before `t`. -/
theorem normal_before {l : List HTree} {t : HTree} {r : List HTree} (hnt : t.value.isNormal = true)
    (hsame : ¬ (((l ++ t :: r).dropWhile abn).head?).map (·.handle) = some t.handle) :
    ∃ k ∈ l, abn k = false := by
  apply Classical.byContradiction
  intro hno
  apply hsame
  have hall : ∀ k ∈ l, abn k = true := by
    intro k hk
    cases h : abn k with
    | true => rfl
    | false => exact absurd ⟨k, hk, h⟩ hno
  have : (l ++ t :: r).dropWhile abn = t :: r := by
    clear hsame hno
    induction l with
    | nil => simp [List.dropWhile_cons, abn, hnt]
    | cons a l ih =>
      rw [List.cons_append, List.dropWhile_cons, hall a List.mem_cons_self]
      simp only [if_true]
      exact ih (fun k hk => hall k (List.mem_cons_of_mem _ hk))
  rw [this]; rfl

/-- The indextree insertion of `prepend` when the node is a child of `p` already, with a normal
    child before it. -/
theorem prepend_place_same {X : Forest} {p : Nat} {vp : Value} {lx : List HTree} {t : HTree} {rx : List HTree}
    (sX : SiteAt X p vp (lx ++ t :: rx)) (hnt : t.value.isNormal = true) (hN : ∃ k ∈ lx, abn k = false)
    (hok : (prependTail X p t.handle).2 = .ok)
    (hr2 : X.addConsolidate t.handle none (X.firstChild p) = (X, false)) :
    (prependTail X p t.handle).1 = (X.editAt (some p) (dropTop t.handle)).editAt (some p) (insertFirstNormal t) := by
  have hget : X.get? t.handle = some t := sX.getKid
  have hpar : X.parent? t.handle = some p := Forest.parent?_of_ctx sX.ctx
  obtain ⟨ndL, hpL⟩ := sX.nodupKids
  obtain ⟨tl, tr⟩ := tops_ne_of_nodup ndL
  have hdrop : dropTop t.handle (lx ++ t :: rx) = lx ++ rx := dropTop_mid rfl tl tr
  have hpt : p ∉ handles t := by
    intro hin
    apply hpL
    rw [fs_handlesList_append, handlesList_cons]
    exact List.mem_append_right _ (List.mem_append_left _ hin)
  have sY : SiteAt (X.editAt (some p) (dropTop t.handle)) p vp (lx ++ rx) := by
    have := sX.edit (dropTop t.handle) (by
      rw [hdrop]
      simp only [fs_handlesList_append, handlesList_cons]
      exact (List.Sublist.refl _).append (List.sublist_append_right _ _))
    rw [hdrop] at this
    exact this
  have hI : insertFirstNormal t (lx ++ rx) = lx.takeWhile abn ++ t :: (lx.dropWhile abn ++ rx) := by
    rw [insertFirstNormal_eq, takeWhile_abn_append_of_normal rx hN, dropWhile_abn_append_of_normal rx hN]
  unfold prependTail at hok ⊢
  rw [hr2] at hok ⊢
  simp only [Bool.false_eq_true, if_false] at hok ⊢
  have hpp : X.prependPoint p = ((lx.takeWhile abn).getLast?).map (·.handle) := by
    rw [Forest.prependPoint_of_get sX.kids, takeWhile_abn_append_of_normal _ hN]
  rw [hpp] at hok ⊢
  cases hl : (lx.takeWhile abn).getLast? with
  | none =>
    rw [hl] at hok
    simp only [Option.map_none] at hok ⊢
    have hr3 : (X.checkedPrepend p t.handle).2 = true := by
      cases h : (X.checkedPrepend p t.handle).2 with
      | true => rfl
      | false => rw [h] at hok; simp at hok
    rw [hr3]
    simp only [if_true]
    rw [Forest.checkedPrepend_ok sX.nd hget hr3, hpar]
    apply sY.congr
    have hnil : lx.takeWhile abn = [] := List.getLast?_eq_none_iff.1 hl
    rw [hI, hnil]
    simp only [List.nil_append]
    have : lx.dropWhile abn = lx := by
      have := List.takeWhile_append_dropWhile (p := abn) (l := lx)
      rw [hnil] at this
      simpa using this
    rw [this]
  | some kip =>
    rw [hl] at hok
    simp only [Option.map_some] at hok ⊢
    obtain ⟨Ab2, eAb⟩ := List.getLast?_eq_some_iff.1 hl
    have hlx : lx = Ab2 ++ kip :: lx.dropWhile abn := by
      calc lx = lx.takeWhile abn ++ lx.dropWhile abn := (List.takeWhile_append_dropWhile).symm
        _ = Ab2 ++ kip :: lx.dropWhile abn := by rw [eAb]; simp
    have sX' : SiteAt X p vp (Ab2 ++ kip :: (lx.dropWhile abn ++ t :: rx)) := by
      have : Ab2 ++ kip :: (lx.dropWhile abn ++ t :: rx) = lx ++ t :: rx := by
        conv => rhs; rw [hlx]
        simp
      rw [this]; exact sX
    have hkipc : kip.handle ≠ t.handle := tl kip (by rw [hlx]; simp)
    rw [Forest.checkedInsertAfter_ok hget sX' hpt hkipc]
    simp only [if_true]
    rw [hpar]
    have sY' : SiteAt (X.editAt (some p) (dropTop t.handle)) p vp (Ab2 ++ kip :: (lx.dropWhile abn ++ rx)) := by
      have : Ab2 ++ kip :: (lx.dropWhile abn ++ rx) = lx ++ rx := by
        conv => rhs; rw [hlx]
        simp
      rw [this]; exact sY
    rw [Forest.placeAfter_of_ctx t sY'.nd sY'.ctx]
    apply sY.congr
    rw [hI, eAb]
    have : lx ++ rx = Ab2 ++ kip :: (lx.dropWhile abn ++ rx) := by
      conv => lhs; rw [hlx]
      simp
    rw [this]
    obtain ⟨ndLY, _⟩ := sY'.nodupKids
    rw [insertAfterTop_mid t (tops_ne_of_nodup ndLY).1]
    simp

/-- `prepend` within one child list, nothing merged at the old place. -/
theorem prepend_same_nomerge {f : Forest} {p : Nat} {vp : Value} {l : List HTree} {t : HTree} {r : List HTree}
    (inv : f.Inv) (norm : f.Normal) (so : SiteAt f p vp (l ++ t :: r)) (hnt : t.value.isNormal = true)
    (hseam : f.consolidation = true → ∀ a b, l.getLast? = some a → r.head? = some b →
      ¬ (a.value.isText = true ∧ b.value.isText = true))
    (hsame : ¬ (((l ++ t :: r).dropWhile abn).head?).map (·.handle) = some t.handle)
    (hocc : Dest.occupiedBy f t.handle (.firstNormalChildOf p) = false)
    (hok : (prependTail f p t.handle).2 = .ok) :
    (prependTail f p t.handle).1 = specMove (Keep.resident t.handle) (.firstNormalChildOf p) t.handle f := by
  have hN := normal_before hnt hsame
  have hgc : f.get? t.handle = some t := so.getKid
  have F0 := far_same (keep := Keep.resident t.handle) so
  have hfirst : f.firstChild p = (((l ++ r).dropWhile abn).head?).map (·.handle) := by
    rw [Forest.firstChild_of_get so.kids, dropWhile_abn_append_of_normal _ hN, dropWhile_abn_append_of_normal _ hN]
    have hne := dropWhile_abn_ne_nil_of_normal hN
    cases hd : l.dropWhile abn with
    | nil => exact absurd hd hne
    | cons x xs => rfl
  have hsame' : ¬ (((l ++ r).dropWhile abn).head?).map (·.handle) = some t.handle := by
    rw [← hfirst, Forest.firstChild_of_get so.kids]; exact hsame
  exact prependTail_core inv F0 (view_without inv norm so hseam) (Forest.isLive_of_get so.kids)
    (fun _ => hfirst) (fun hok' hr2 => prepend_place_same so hnt hN hok' hr2) hgc (Or.inl rfl) hsame' hocc hok

theorem takeWhile_abn_snoc_normal {u : HTree} (hu : abn u = false) : ∀ l : List HTree,
    (l ++ [u]).takeWhile abn = l.takeWhile abn ∧ (l ++ [u]).dropWhile abn = l.dropWhile abn ++ [u]
  | [] => by simp [List.takeWhile_cons, List.dropWhile_cons, hu]
  | z :: zs => by
    obtain ⟨i1, i2⟩ := takeWhile_abn_snoc_normal hu zs
    simp only [List.cons_append, List.takeWhile_cons, List.dropWhile_cons]
    cases hz : abn z with
    | false => simp
    | true => simp only [if_true]; exact ⟨by rw [i1], i2⟩

/-- `prepend` within one child list when the two text nodes around the moved node were merged. -/
theorem prepend_same_merged {f : Forest} {p : Nat} {vp : Value} {l' : List HTree} {a t b : HTree}
    {r' : List HTree} {x y : Str} (inv : f.Inv) (norm : f.Normal)
    (so : SiteAt f p vp ((l' ++ [a]) ++ t :: b :: r')) (hc : f.consolidation = true)
    (hx : a.value = .text x) (hy : b.value = .text y) (ht : textData t = none)
    (hnt : t.value.isNormal = true)
    (hocc : Dest.occupiedBy f t.handle (.firstNormalChildOf p) = false)
    (hok : (prependTail (f.editAt (some p) (fun _ => l' ++ a.setValue (.text (x ++ y)) :: t :: r')) p t.handle).2 = .ok) :
    (prependTail (f.editAt (some p) (fun _ => l' ++ a.setValue (.text (x ++ y)) :: t :: r')) p t.handle).1 =
      specMove (Keep.resident t.handle) (.firstNormalChildOf p) t.handle f := by
  obtain ⟨ndL, _⟩ := so.nodupKids
  obtain ⟨tl, tr⟩ := tops_ne_of_nodup ndL
  have hnott : ¬ t.value.isText = true := by
    intro h
    obtain ⟨z, hz⟩ := isText_iff_textData.1 h
    rw [ht] at hz; cases hz
  have hstrict := (validTree_node (so.valid (norm hc))).2.2.1 rfl
  obtain ⟨hla, htbr, _⟩ := noAdj_append.1 hstrict
  have hbr : noAdjacentText (b :: r') = true := noAdj_tail htbr
  have hak : a.handle ≠ t.handle := tl a (by simp)
  have F0 := far_same (keep := Keep.resident t.handle) so
  have hsite : Dest.site f (.firstNormalChildOf p) = some p := by
    simp [Dest.site, Forest.isLive_of_get so.kids]
  have hspec := F0.spec (.firstNormalChildOf p) hocc hsite (fun ψ hk hψ => natFor_insertFirstNormal hk hψ)
  simp only [Dest.insert] at hspec
  have hYc : ((f.editAt (some p) (dropTop t.handle)).editAt (some p) (insertFirstNormal t)).consolidation = true := by
    rw [Forest.editAt_consolidation, Forest.editAt_consolidation]; exact hc
  rw [hspec, mergeAt_on hYc, Forest.editAt_editAt, Forest.editAt_editAt]
  have hdrop : dropTop t.handle ((l' ++ [a]) ++ t :: b :: r') = (l' ++ [a]) ++ b :: r' := dropTop_mid rfl tl tr
  let a' := a.setValue (.text (x ++ y))
  have sX : SiteAt (f.editAt (some p) (fun _ => l' ++ a' :: t :: r')) p vp ((l' ++ [a']) ++ t :: r') := by
    have := so.edit (fun _ => l' ++ a' :: t :: r') (by
      simp only [a', fs_handlesList_append, handlesList_cons, setValue_handles, handlesList_nil, List.append_nil,
        List.append_assoc]
      refine (List.Sublist.refl _).append ((List.Sublist.refl _).append ((List.Sublist.refl _).append ?_))
      exact List.sublist_append_right _ _)
    simpa using this
  obtain ⟨ndLX, _⟩ := sX.nodupKids
  obtain ⟨tlX, trX⟩ := tops_ne_of_nodup ndLX
  have hr2 : ∀ nx, (f.editAt (some p) (fun _ => l' ++ a' :: t :: r')).addConsolidate t.handle none nx =
      (f.editAt (some p) (fun _ => l' ++ a' :: t :: r'), false) := by
    intro nx
    apply Forest.addConsolidate_not_text
    rw [Forest.textOf_of_get sX.getKid]; exact ht
  have hatext : a.value.isText = true := by rw [hx]; rfl
  have hNa' : ∃ k ∈ l' ++ [a'], abn k = false :=
    ⟨a', by simp, by simp [abn, a', setValue_value, Value.isNormal, Value.category]⟩
  have hNa : ∃ k ∈ l' ++ [a], abn k = false := ⟨a, by simp, by simp [abn, isNormal_of_text hatext]⟩
  rw [prepend_place_same sX hnt hNa' hok (hr2 _), Forest.editAt_editAt, Forest.editAt_editAt]
  apply so.congr
  simp only [Function.comp]
  rw [hdrop]
  have e1 : l' ++ a' :: t :: r' = (l' ++ [a']) ++ t :: r' := by simp
  rw [e1, dropTop_mid rfl tlX trX]
  rw [insertFirstNormal_eq, insertFirstNormal_eq,
    takeWhile_abn_append_of_normal _ hNa', dropWhile_abn_append_of_normal _ hNa',
    takeWhile_abn_append_of_normal _ hNa, dropWhile_abn_append_of_normal _ hNa]
  -- the namespace / attribute prefix lies inside `l'`
  have hua : abn a = false := by simp [abn, isNormal_of_text hatext]
  have hua' : abn a' = false := by simp [abn, a', setValue_value, Value.isNormal, Value.category]
  obtain ⟨t1, d1⟩ := takeWhile_abn_snoc_normal hua l'
  obtain ⟨t2, d2⟩ := takeWhile_abn_snoc_normal hua' l'
  rw [t1, d1, t2, d2]
  have e2 : l'.takeWhile abn ++ t :: (l'.dropWhile abn ++ [a] ++ b :: r')
      = (l'.takeWhile abn ++ t :: l'.dropWhile abn) ++ a :: b :: r' := by simp
  rw [e2, mergeRuns_seam _ hx hy (by
    have : (l'.takeWhile abn ++ t :: l'.dropWhile abn) ++ [a] = l'.takeWhile abn ++ t :: (l'.dropWhile abn ++ [a]) := by simp
    rw [this]
    apply noAdj_insert_nontext _ hnott
    have : l'.takeWhile abn ++ (l'.dropWhile abn ++ [a]) = l' ++ [a] := by
      rw [← List.append_assoc, List.takeWhile_append_dropWhile]
    rw [this]; exact hla) hbr]
  simp [join, Keep.resident, hak, a']

end XotModel

namespace XotModel
open HTree Spec

/-- **prepend**: all geometries. -/
theorem prepend_spec {f : Forest} {p c : Nat} (inv : f.Inv) (norm : f.Normal)
    (hok : (f.prepend p c).2 = .ok) :
    (f.prepend p c).1 = specMove (Keep.resident c) (.firstNormalChildOf p) c f := by
  by_cases hfar : f.parent? c ≠ some p
  · exact prepend_spec_far inv norm hfar hok
  have hsamepar : f.parent? c = some p := Classical.not_not.1 hfar
  have nd := inv.nodup
  have hsc : f.structureCheck (some p) c = true := by
    cases h : f.structureCheck (some p) c with
    | true => rfl
    | false => rw [prepend_unfold] at hok; simp [h] at hok
  obtain ⟨vp, Lp, t, hgp, hgc, hpt, hnorm, hndoc, hvp⟩ := Forest.structureCheck_unpack nd hsc
  have sp : SiteAt f p vp Lp := ⟨nd, hgp⟩
  have htc : t.handle = c := (findList?_some f.roots t hgc).1
  have hfirst : f.firstChild p = ((Lp.dropWhile abn).head?).map (·.handle) := Forest.firstChild_of_get hgp
  have hoccEq := occupied_firstNormal (c := c) sp
  by_cases hsame : ((Lp.dropWhile abn).head?).map (·.handle) = some c
  · rw [prepend_unfold]
    unfold specMove
    simp [hsc, hfirst, hsame, hoccEq]
  · have hocc : Dest.occupiedBy f c (.firstNormalChildOf p) = false := by
      rw [hoccEq]; simpa using hsame
    rw [prepend_unfold] at hok ⊢
    simp only [hsc, hfirst, Bool.not_true, Bool.false_eq_true, if_false, beq_iff_eq, hsame] at hok ⊢
    cases hctx : f.ctx? c with
    | none => rw [Forest.parent?_of_no_ctx hctx] at hsamepar; cases hsamepar
    | some cx =>
      obtain ⟨e0, vo, so⟩ := SiteAt.of_ctx nd hctx
      have hself : cx.self = t := by
        have := Forest.get?_of_ctx nd hctx
        rw [hgc] at this
        exact (Option.some.inj this).symm
      obtain ⟨po, l, k, r⟩ := cx
      simp only at e0 so hself
      subst hself
      subst htc
      have hpo : po = p := by
        rw [Forest.parent?_of_ctx hctx] at hsamepar
        exact Option.some.inj hsamepar
      subst hpo
      have hlists : vo = vp ∧ Lp = l ++ k :: r := by
        have := so.kids
        rw [hgp] at this
        have := Option.some.inj this
        injection this with _ e2 e3
        exact ⟨e2.symm, e3⟩
      obtain ⟨ev, eL⟩ := hlists
      subst ev eL
      rw [Forest.prevSibling_of_ctx hctx, Forest.nextSibling_of_ctx hctx] at hok ⊢
      simp only at hok ⊢
      have hold := old_stage inv norm so
      generalize hres : f.removeConsolidate (prevOf l k) (nextOf r k) = res at hold hok
      cases hold with
      | same hseam =>
        exact prepend_same_nomerge inv norm so hnorm hseam hsame hocc hok
      | merged l' a b r' x y hc el er hx hy hp hn ht =>
        subst el er
        have so' : SiteAt f po vo ((l' ++ [a]) ++ k :: b :: r') := so
        exact prepend_same_merged inv norm so' hc hx hy ht hnorm hocc hok

theorem prepend_content {f : Forest} {p c : Nat} (inv : f.Inv) (norm : f.Normal)
    (hok : (f.prepend p c).2 = .ok) :
    (f.prepend p c).1.content = (specMove Keep.earlier (.firstNormalChildOf p) c f).content := by
  rw [prepend_spec inv norm hok]
  have nd := inv.nodup
  have hsc : f.structureCheck (some p) c = true := by
    cases h : f.structureCheck (some p) c with
    | true => rfl
    | false => rw [prepend_unfold] at hok; simp [h] at hok
  obtain ⟨vp, Lp, t, hgp, hgc, hpt, hnorm, hndoc, hvp⟩ := Forest.structureCheck_unpack nd hsc
  have sp : SiteAt f p vp Lp := ⟨nd, hgp⟩
  have hvq : vp.isText = false := by
    cases hvp with
    | inl h => cases vp <;> simp_all [Value.isElement, Value.isText]
    | inr h => cases vp <;> simp_all [Value.isDocument, Value.isText]
  exact specMove_content_keep inv norm hgc sp hpt hvq _ (by simp [Dest.site, Forest.isLive_of_get hgp])

end XotModel
