/-
  FspecSame — a move WITHIN one child list (the node is already a child of the destination
  parent), when nothing is merged at the old place: the package `Far` can be built with the
  destination list = the old list without the node, so the proofs of the far geometry apply.
-/
import XotModel.Lemmas.FspecContent

namespace XotModel
open HTree Spec

theorem dropTop_setValTop_comm {c a : Nat} (v : Value) (hac : a ≠ c) : ∀ L : List HTree,
    dropTop c (replaceTop a (fun k => [k.setValue v]) L) = replaceTop a (fun k => [k.setValue v]) (dropTop c L)
  | [] => rfl
  | k :: ks => by
    rw [replaceTop_cons, dropTop_cons]
    by_cases hka : k.handle = a
    · have hkc : ¬ k.handle = c := fun e => hac (hka.symm.trans e)
      rw [if_pos hka, if_neg hkc, replaceTop_cons, if_pos hka]
      simp only [List.singleton_append]
      rw [dropTop_cons, setValue_handle, if_neg hkc]
    · rw [if_neg hka]
      by_cases hkc : k.handle = c
      · rw [if_pos hkc, dropTop_cons, if_pos hkc, dropTop_setValTop_comm v hac ks]
      · rw [if_neg hkc, dropTop_cons, if_neg hkc, replaceTop_cons, if_neg hka, dropTop_setValTop_comm v hac ks]

theorem mergeRuns_comp_idem (keep : Keep) : mergeRuns keep ∘ mergeRuns keep = mergeRuns keep := by
  funext L; exact mergeRuns_idem keep L

/-- The package for a move within one child list (no statement about the old-site merge: use
    it when that merge did nothing, `X = f`). -/
theorem far_same {f : Forest} {keep : Keep} {q : Nat} {vq : Value} {l : List HTree} {t : HTree} {r : List HTree}
    (sq : SiteAt f q vq (l ++ t :: r)) :
    Far f keep t.handle t q vq (l ++ r) f (f.editAt (some q) (dropTop t.handle)) id := by
  have nd := sq.nd
  obtain ⟨ndL, _⟩ := sq.nodupKids
  obtain ⟨tl, tr⟩ := tops_ne_of_nodup ndL
  have hdrop : dropTop t.handle (l ++ t :: r) = l ++ r := dropTop_mid rfl tl tr
  have hpar : f.parent? t.handle = some q := Forest.parent?_of_ctx sq.ctx
  have hgc : f.get? t.handle = some t := sq.getKid
  have sY : SiteAt (f.editAt (some q) (dropTop t.handle)) q vq (l ++ r) := by
    have := sq.edit (dropTop t.handle) (by
      rw [hdrop]
      simp only [handlesList_append, handlesList_cons]
      exact (List.Sublist.refl _).append (List.sublist_append_right _ _))
    rw [hdrop] at this
    exact this
  refine ⟨nd, hgc, by rw [hpar], rfl, Forest.editAt_consolidation _ _ _, kidMap_id, rfl,
    by rw [List.map_id]; exact sY, by intro h; rw [List.map_id]; exact h, ?_, ?_⟩
  · intro dest hocc hs _
    rw [specMove_unfold hocc hgc hs, hpar]
    rcases Bool.eq_false_or_eq_true f.consolidation with hc | hc
    · have c1 : ((f.editAt (some q) (dropTop t.handle)).editAt (some q) (dest.insert t)).consolidation = true := by
        rw [Forest.editAt_consolidation, Forest.editAt_consolidation]; exact hc
      have c2 : (((f.editAt (some q) (dropTop t.handle)).editAt (some q) (dest.insert t)).editAt (some q)
          (mergeRuns keep)).consolidation = true := by
        rw [Forest.editAt_consolidation]; exact c1
      rw [mergeAt_on c1, mergeAt_on c2, Forest.editAt_editAt, mergeRuns_comp_idem]
    · have c1 : ((f.editAt (some q) (dropTop t.handle)).editAt (some q) (dest.insert t)).consolidation = false := by
        rw [Forest.editAt_consolidation, Forest.editAt_consolidation]; exact hc
      rw [mergeAt_off c1, mergeAt_off c1]
  · intro _ a v hta hac hleaf _
    obtain ⟨A, ka, B, hL, hka⟩ := isTop_split hta
    subst hka
    -- `ka` is a child of `q` in `f` as well
    have hkaL : ka ∈ l ++ t :: r := by
      have : ka ∈ l ++ r := by rw [hL]; simp
      cases List.mem_append.1 this with
      | inl h => exact List.mem_append_left _ h
      | inr h => exact List.mem_append_right _ (List.mem_cons_of_mem _ h)
    obtain ⟨A', B', hL'⟩ := List.append_of_mem hkaL
    have sq' : SiteAt f q vq (A' ++ ka :: B') := hL' ▸ sq
    let S : List HTree → List HTree := replaceTop ka.handle (fun k => [k.setValue v])
    have hset : f.setValue ka.handle v = f.editAt (some q) S := Forest.setValue_of_ctx v nd sq'.ctx
    rw [hset]
    have sZ := sq.edit S (by simp only [S]; rw [handlesList_setValTop]; exact List.Sublist.refl _)
    -- `t` is still a child after the value update
    have htopZ : IsTop t.handle (S (l ++ t :: r)) := by
      have : ∀ L : List HTree, IsTop t.handle L → IsTop t.handle (S L) := by
        intro L
        induction L with
        | nil => intro h; exact h
        | cons x xs ih =>
          intro ⟨k, hk, e⟩
          simp only [S, replaceTop_cons]
          by_cases hx : x.handle = ka.handle
          · rw [if_pos hx]
            cases List.mem_cons.1 hk with
            | inl e' =>
              refine ⟨x.setValue v, by simp, ?_⟩
              rw [setValue_handle, ← e', e]
            | inr e' => exact ⟨k, by simp [e'], e⟩
          · rw [if_neg hx]
            cases List.mem_cons.1 hk with
            | inl e' => exact ⟨k, by rw [e']; simp, e⟩
            | inr e' =>
              obtain ⟨k', hk', e''⟩ := ih ⟨k, e', e⟩
              exact ⟨k', List.mem_cons_of_mem _ hk', e''⟩
      exact this _ ⟨t, by simp, rfl⟩
    obtain ⟨P, w, Q, hPQ, hw⟩ := isTop_split htopZ
    have sZ' : SiteAt (f.editAt (some q) S) q vq (P ++ w :: Q) := hPQ ▸ sZ
    have hqt : q ∉ handles t := by
      intro hin
      apply sq.nodupKids.2
      rw [handlesList_append, handlesList_cons]
      exact List.mem_append_right _ (List.mem_append_left _ hin)
    have hcq : t.handle ≠ q := fun e => hqt (e ▸ handle_mem_handles t)
    have hZget : (f.editAt (some q) S).get? t.handle = some t := by
      rw [Forest.get?_editAt_other hcq nd (by
        intro v' L' _
        exact findList?_setValTop v (fun e' => hac e'.symm) L'), hgc]
      simp only [Option.map_some]
      rw [editAt_of_not_mem t hqt]
    have hZpar : (f.editAt (some q) S).parent? t.handle = some q := by
      have := sZ'.ctx
      rw [hw] at this
      exact Forest.parent?_of_ctx this
    rw [Forest.spliceOut_leaf sZ.nd hZget hleaf, hZpar, Forest.editAt_editAt, Forest.editAt_editAt]
    apply sq.congr
    simp only [Function.comp, S]
    exact dropTop_setValTop_comm v hac _

end XotModel

namespace XotModel
open HTree Spec

theorem split_two {A : List HTree} {kr : HTree} {B l : List HTree} {t : HTree} {r : List HTree}
    (h : A ++ kr :: B = l ++ t :: r) (hne : kr ≠ t) :
    (∃ m, A = l ++ t :: m ∧ r = m ++ kr :: B) ∨ (∃ m, l = A ++ kr :: m ∧ B = m ++ t :: r) := by
  rcases List.append_eq_append_iff.1 h with ⟨a', h1, h2⟩ | ⟨c', h1, h2⟩
  · cases a' with
    | nil =>
      simp only [List.nil_append] at h2
      injection h2 with e _
      exact absurd e hne
    | cons x a'' =>
      simp only [List.cons_append] at h2
      injection h2 with e1 e2
      subst e1
      exact Or.inr ⟨a'', h1, e2⟩
  · cases c' with
    | nil =>
      simp only [List.nil_append] at h2
      injection h2 with e _
      exact absurd e.symm hne
    | cons x c'' =>
      simp only [List.cons_append] at h2
      injection h2 with e1 e2
      subst e1
      exact Or.inl ⟨c'', h1, e2⟩

/-- The view of the old child list without the moved node, when the old-site merge did nothing. -/
theorem view_without {f : Forest} {q : Nat} {vq : Value} {l : List HTree} {t : HTree} {r : List HTree}
    (inv : f.Inv) (norm : f.Normal) (so : SiteAt f q vq (l ++ t :: r))
    (hseam : f.consolidation = true → ∀ a b, l.getLast? = some a → r.head? = some b →
      ¬ (a.value.isText = true ∧ b.value.isText = true)) : View f (l ++ r) := by
  have V := View.of_site inv norm so
  have hsubset : ∀ k ∈ l ++ r, k ∈ l ++ t :: r := by
    intro k hk
    cases List.mem_append.1 hk with
    | inl h => exact List.mem_append_left _ h
    | inr h => exact List.mem_append_right _ (List.mem_cons_of_mem _ h)
  refine ⟨fun k hk => V.get k (hsubset k hk), fun k hk => V.leaf k (hsubset k hk), ?_, ?_⟩
  · have := V.nd
    rw [handlesList_append, handlesList_cons] at this
    rw [handlesList_append]
    exact ((List.Sublist.refl _).append (List.sublist_append_right _ _)).nodup this
  · intro hc
    obtain ⟨hl, hkr, _⟩ := noAdj_append.1 (V.noadj hc)
    exact noAdj_append.2 ⟨hl, noAdj_tail hkr, hseam hc⟩

theorem nextOf_append_ne_nil {m : List HTree} (r : List HTree) (kr : HTree) (hm : m ≠ []) :
    nextOf (m ++ r) kr = nextOf m kr := by
  cases m with
  | nil => exact absurd rfl hm
  | cons x xs => simp [nextOf]

/-- `insert_after` within one child list, nothing merged at the old place. -/
theorem insertAfter_same_nomerge {f : Forest} {q : Nat} {vq : Value} {l : List HTree} {t : HTree} {r : List HTree}
    {A : List HTree} {kr : HTree} {B : List HTree} (inv : f.Inv) (norm : f.Normal)
    (so : SiteAt f q vq (l ++ t :: r)) (hAB : A ++ kr :: B = l ++ t :: r)
    (hrc : kr.handle ≠ t.handle) (hkrn : kr.value.isNormal = true) (hnt : t.value.isNormal = true)
    (hseam : f.consolidation = true → ∀ a b, l.getLast? = some a → r.head? = some b →
      ¬ (a.value.isText = true ∧ b.value.isText = true))
    (hsame : ¬ nextOf B kr = some t.handle)
    (hocc : Dest.occupiedBy f t.handle (.after kr.handle) = false) :
    (insertAfterTail f kr.handle t.handle).1 =
      specMove (Keep.resident t.handle) (.after kr.handle) t.handle f := by
  have nd := so.nd
  have sq : SiteAt f q vq (A ++ kr :: B) := hAB ▸ so
  have hgc : f.get? t.handle = some t := so.getKid
  have hpar : f.parent? kr.handle = some q := Forest.parent?_of_ctx sq.ctx
  have hparc : f.parent? t.handle = some q := Forest.parent?_of_ctx so.ctx
  have hqt : q ∉ handles t := by
    intro hin
    apply so.nodupKids.2
    rw [handlesList_append, handlesList_cons]
    exact List.mem_append_right _ (List.mem_append_left _ hin)
  have hnext : f.nextSibling kr.handle = nextOf B kr := Forest.nextSibling_of_ctx sq.ctx
  have Vlr := view_without inv norm so hseam
  have F0 := far_same (keep := Keep.resident t.handle) so
  have hkt : kr ≠ t := fun e => hrc (by rw [e])
  -- the checked insertion, given the destination list without `t` split at the reference
  have hplace : ∀ A' B', l ++ r = A' ++ kr :: B' →
      f.checkedInsertAfter kr.handle t.handle =
        ((f.editAt (some q) (dropTop t.handle)).editAt (some q) (insertAfterTop kr.handle t), true) := by
    intro A' B' e
    rw [Forest.checkedInsertAfter_ok hgc sq hqt hrc, hparc]
    have sY : SiteAt (f.editAt (some q) (dropTop t.handle)) q vq (A' ++ kr :: B') := by
      have := F0.ysite
      rw [List.map_id, e] at this
      exact this
    rw [Forest.placeAfter_of_ctx t sY.nd sY.ctx]
  rcases split_two hAB hkt with ⟨m, hA, hr⟩ | ⟨m, hl, hB⟩
  · -- `t` stands before the reference
    have e : l ++ r = (l ++ m) ++ kr :: B := by rw [hr]; simp
    have F : Far f (Keep.resident t.handle) t.handle t q vq ((l ++ m) ++ kr :: B) f
        (f.editAt (some q) (dropTop t.handle)) id := e ▸ F0
    exact insertAfterTail_core inv F (e ▸ Vlr) hpar (fun _ => hnext) (hplace _ _ e) hgc (Or.inl rfl) hrc hkrn hsame hocc
  · -- `t` stands after the reference, not directly
    have hm : m ≠ [] := by
      intro em
      apply hsame
      rw [hB, em]
      have h1 : t.value.category = .normal := by simpa [Value.isNormal] using hnt
      have h2 : kr.value.category = .normal := by simpa [Value.isNormal] using hkrn
      simp [nextOf, h1, h2]
    have e : l ++ r = A ++ kr :: (m ++ r) := by rw [hl]; simp
    have F : Far f (Keep.resident t.handle) t.handle t q vq (A ++ kr :: (m ++ r)) f
        (f.editAt (some q) (dropTop t.handle)) id := e ▸ F0
    have hnx : nextOf B kr = nextOf (m ++ r) kr := by
      rw [hB, nextOf_append_ne_nil _ _ hm, nextOf_append_ne_nil _ _ hm]
    exact insertAfterTail_core inv F (e ▸ Vlr) hpar (fun _ => hnext.trans hnx) (hplace _ _ e) hgc (Or.inl rfl)
      hrc hkrn (by rw [← hnx]; exact hsame) hocc

end XotModel
