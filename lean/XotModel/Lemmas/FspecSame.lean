/-
  FspecSame — a move WITHIN one child list (the node is already a child of the destination
  parent), when nothing is merged at the old place: the package `Far` can be built with the
  destination list = the old list without the node, so the proofs of the far geometry apply.
-/
import XotModel.Lemmas.FspecContent

namespace XotModel
open HTree Spec

theorem dropTop_setValTop_comm {c a : Nat} (v : Value) (hac : a ≠ c) : ∀ L : List HTree,
    dropTop c (replaceTop a (fun k => [k.setValue v]) L) = replaceTop a (fun k => [k.setValue v]) (dropTop c L)
  | [] => rfl
  | k :: ks => by
    rw [replaceTop_cons, dropTop_cons]
    by_cases hka : k.handle = a
    · have hkc : ¬ k.handle = c := fun e => hac (hka.symm.trans e)
      rw [if_pos hka, if_neg hkc, replaceTop_cons, if_pos hka]
      simp only [List.singleton_append]
      rw [dropTop_cons, setValue_handle, if_neg hkc]
    · rw [if_neg hka]
      by_cases hkc : k.handle = c
      · rw [if_pos hkc, dropTop_cons, if_pos hkc, dropTop_setValTop_comm v hac ks]
      · rw [if_neg hkc, dropTop_cons, if_neg hkc, replaceTop_cons, if_neg hka, dropTop_setValTop_comm v hac ks]

theorem mergeRuns_comp_idem (keep : Keep) : mergeRuns keep ∘ mergeRuns keep = mergeRuns keep := by
  funext L; exact mergeRuns_idem keep L

/-- The package for a move within one child list (no statement about the old-site merge: use
    it when that merge did nothing, `X = f`). -/
theorem far_same {f : Forest} {keep : Keep} {q : Nat} {vq : Value} {l : List HTree} {t : HTree} {r : List HTree}
    (sq : SiteAt f q vq (l ++ t :: r)) :
    Far f keep t.handle t q vq (l ++ r) f (f.editAt (some q) (dropTop t.handle)) id := by
  have nd := sq.nd
  obtain ⟨ndL, _⟩ := sq.nodupKids
  obtain ⟨tl, tr⟩ := tops_ne_of_nodup ndL
  have hdrop : dropTop t.handle (l ++ t :: r) = l ++ r := dropTop_mid rfl tl tr
  have hpar : f.parent? t.handle = some q := Forest.parent?_of_ctx sq.ctx
  have hgc : f.get? t.handle = some t := sq.getKid
  have sY : SiteAt (f.editAt (some q) (dropTop t.handle)) q vq (l ++ r) := by
    have := sq.edit (dropTop t.handle) (by
      rw [hdrop]
      simp only [fs_handlesList_append, handlesList_cons]
      exact (List.Sublist.refl _).append (List.sublist_append_right _ _))
    rw [hdrop] at this
    exact this
  refine ⟨nd, hgc, by rw [hpar], rfl, Forest.editAt_consolidation _ _ _, kidMap_id, rfl,
    by rw [List.map_id]; exact sY, by intro h; rw [List.map_id]; exact h, ?_, ?_⟩
  · intro dest hocc hs _
    rw [specMove_unfold hocc hgc hs, hpar]
    rcases Bool.eq_false_or_eq_true f.consolidation with hc | hc
    · have c1 : ((f.editAt (some q) (dropTop t.handle)).editAt (some q) (dest.insert t)).consolidation = true := by
        rw [Forest.editAt_consolidation, Forest.editAt_consolidation]; exact hc
      have c2 : (((f.editAt (some q) (dropTop t.handle)).editAt (some q) (dest.insert t)).editAt (some q)
          (mergeRuns keep)).consolidation = true := by
        rw [Forest.editAt_consolidation]; exact c1
      rw [mergeAt_on c1, mergeAt_on c2, Forest.editAt_editAt, mergeRuns_comp_idem]
    · have c1 : ((f.editAt (some q) (dropTop t.handle)).editAt (some q) (dest.insert t)).consolidation = false := by
        rw [Forest.editAt_consolidation, Forest.editAt_consolidation]; exact hc
      rw [mergeAt_off c1, mergeAt_off c1]
  · intro _ a v hta hac hleaf _
    obtain ⟨A, ka, B, hL, hka⟩ := isTop_split hta
    subst hka
    -- `ka` is a child of `q` in `f` as well
    have hkaL : ka ∈ l ++ t :: r := by
      have : ka ∈ l ++ r := by rw [hL]; simp
      cases List.mem_append.1 this with
      | inl h => exact List.mem_append_left _ h
      | inr h => exact List.mem_append_right _ (List.mem_cons_of_mem _ h)
    obtain ⟨A', B', hL'⟩ := List.append_of_mem hkaL
    have sq' : SiteAt f q vq (A' ++ ka :: B') := hL' ▸ sq
    let S : List HTree → List HTree := replaceTop ka.handle (fun k => [k.setValue v])
    have hset : f.setValue ka.handle v = f.editAt (some q) S := Forest.setValue_of_ctx v nd sq'.ctx
    rw [hset]
    have sZ := sq.edit S (by simp only [S]; rw [handlesList_setValTop]; exact List.Sublist.refl _)
    -- `t` is still a child after the value update
    have htopZ : IsTop t.handle (S (l ++ t :: r)) := by
      have : ∀ L : List HTree, IsTop t.handle L → IsTop t.handle (S L) := by
        intro L
        induction L with
        | nil => intro h; exact h
        | cons x xs ih =>
          intro ⟨k, hk, e⟩
          simp only [S, replaceTop_cons]
          by_cases hx : x.handle = ka.handle
          · rw [if_pos hx]
            cases List.mem_cons.1 hk with
            | inl e' =>
              refine ⟨x.setValue v, by simp, ?_⟩
              rw [setValue_handle, ← e', e]
            | inr e' => exact ⟨k, by simp [e'], e⟩
          · rw [if_neg hx]
            cases List.mem_cons.1 hk with
            | inl e' => exact ⟨k, by rw [e']; simp, e⟩
            | inr e' =>
              obtain ⟨k', hk', e''⟩ := ih ⟨k, e', e⟩
              exact ⟨k', List.mem_cons_of_mem _ hk', e''⟩
      exact this _ ⟨t, by simp, rfl⟩
    obtain ⟨P, w, Q, hPQ, hw⟩ := isTop_split htopZ
    have sZ' : SiteAt (f.editAt (some q) S) q vq (P ++ w :: Q) := hPQ ▸ sZ
    have hqt : q ∉ handles t := by
      intro hin
      apply sq.nodupKids.2
      rw [fs_handlesList_append, handlesList_cons]
      exact List.mem_append_right _ (List.mem_append_left _ hin)
    have hcq : t.handle ≠ q := fun e => hqt (e ▸ fs_handle_mem_handles t)
    have hZget : (f.editAt (some q) S).get? t.handle = some t := by
      rw [Forest.get?_editAt_other hcq nd (by
        intro v' L' _
        exact findList?_setValTop v (fun e' => hac e'.symm) L'), hgc]
      simp only [Option.map_some]
      rw [editAt_of_not_mem t hqt]
    have hZpar : (f.editAt (some q) S).parent? t.handle = some q := by
      have := sZ'.ctx
      rw [hw] at this
      exact Forest.parent?_of_ctx this
    rw [Forest.spliceOut_leaf sZ.nd hZget hleaf, hZpar, Forest.editAt_editAt, Forest.editAt_editAt]
    apply sq.congr
    simp only [Function.comp, S]
    exact dropTop_setValTop_comm v hac _

end XotModel

namespace XotModel
open HTree Spec

theorem split_two {A : List HTree} {kr : HTree} {B l : List HTree} {t : HTree} {r : List HTree}
    (h : A ++ kr :: B = l ++ t :: r) (hne : kr ≠ t) :
    (∃ m, A = l ++ t :: m ∧ r = m ++ kr :: B) ∨ (∃ m, l = A ++ kr :: m ∧ B = m ++ t :: r) := by
  rcases List.append_eq_append_iff.1 h with ⟨a', h1, h2⟩ | ⟨c', h1, h2⟩
  · cases a' with
    | nil =>
      simp only [List.nil_append] at h2
      injection h2 with e _
      exact absurd e hne
    | cons x a'' =>
      simp only [List.cons_append] at h2
      injection h2 with e1 e2
      subst e1
      exact Or.inr ⟨a'', h1, e2⟩
  · cases c' with
    | nil =>
      simp only [List.nil_append] at h2
      injection h2 with e _
      exact absurd e.symm hne
    | cons x c'' =>
      simp only [List.cons_append] at h2
      injection h2 with e1 e2
      subst e1
      exact Or.inl ⟨c'', h1, e2⟩

/-- The view of the old child list without the moved node, when the old-site merge did nothing. -/
theorem view_without {f : Forest} {q : Nat} {vq : Value} {l : List HTree} {t : HTree} {r : List HTree}
    (inv : f.Inv) (norm : f.Normal) (so : SiteAt f q vq (l ++ t :: r))
    (hseam : f.consolidation = true → ∀ a b, l.getLast? = some a → r.head? = some b →
      ¬ (a.value.isText = true ∧ b.value.isText = true)) : View f (l ++ r) := by
  have V := View.of_site inv norm so
  have hsubset : ∀ k ∈ l ++ r, k ∈ l ++ t :: r := by
    intro k hk
    cases List.mem_append.1 hk with
    | inl h => exact List.mem_append_left _ h
    | inr h => exact List.mem_append_right _ (List.mem_cons_of_mem _ h)
  refine ⟨fun k hk => V.get k (hsubset k hk), fun k hk => V.leaf k (hsubset k hk), ?_, ?_⟩
  · have := V.nd
    rw [fs_handlesList_append, handlesList_cons] at this
    rw [fs_handlesList_append]
    exact ((List.Sublist.refl _).append (List.sublist_append_right _ _)).nodup this
  · intro hc
    obtain ⟨hl, hkr, _⟩ := noAdj_append.1 (V.noadj hc)
    exact noAdj_append.2 ⟨hl, noAdj_tail hkr, hseam hc⟩

theorem nextOf_append_ne_nil {m : List HTree} (r : List HTree) (kr : HTree) (hm : m ≠ []) :
    nextOf (m ++ r) kr = nextOf m kr := by
  cases m with
  | nil => exact absurd rfl hm
  | cons x xs => simp [nextOf]

/-- `insert_after` within one child list, nothing merged at the old place. -/
theorem insertAfter_same_nomerge {f : Forest} {q : Nat} {vq : Value} {l : List HTree} {t : HTree} {r : List HTree}
    {A : List HTree} {kr : HTree} {B : List HTree} (inv : f.Inv) (norm : f.Normal)
    (so : SiteAt f q vq (l ++ t :: r)) (hAB : A ++ kr :: B = l ++ t :: r)
    (hrc : kr.handle ≠ t.handle) (hkrn : kr.value.isNormal = true) (hnt : t.value.isNormal = true)
    (hseam : f.consolidation = true → ∀ a b, l.getLast? = some a → r.head? = some b →
      ¬ (a.value.isText = true ∧ b.value.isText = true))
    (hsame : ¬ nextOf B kr = some t.handle)
    (hocc : Dest.occupiedBy f t.handle (.after kr.handle) = false) :
    (insertAfterTail f kr.handle t.handle).1 =
      specMove (Keep.resident t.handle) (.after kr.handle) t.handle f := by
  have nd := so.nd
  have sq : SiteAt f q vq (A ++ kr :: B) := hAB ▸ so
  have hgc : f.get? t.handle = some t := so.getKid
  have hpar : f.parent? kr.handle = some q := Forest.parent?_of_ctx sq.ctx
  have hparc : f.parent? t.handle = some q := Forest.parent?_of_ctx so.ctx
  have hqt : q ∉ handles t := by
    intro hin
    apply so.nodupKids.2
    rw [fs_handlesList_append, handlesList_cons]
    exact List.mem_append_right _ (List.mem_append_left _ hin)
  have hnext : f.nextSibling kr.handle = nextOf B kr := Forest.nextSibling_of_ctx sq.ctx
  have Vlr := view_without inv norm so hseam
  have F0 := far_same (keep := Keep.resident t.handle) so
  have hkt : kr ≠ t := fun e => hrc (by rw [e])
  -- the checked insertion, given the destination list without `t` split at the reference
  have hplace : ∀ A' B', l ++ r = A' ++ kr :: B' →
      f.checkedInsertAfter kr.handle t.handle =
        ((f.editAt (some q) (dropTop t.handle)).editAt (some q) (insertAfterTop kr.handle t), true) := by
    intro A' B' e
    rw [Forest.checkedInsertAfter_ok hgc sq hqt hrc, hparc]
    have sY : SiteAt (f.editAt (some q) (dropTop t.handle)) q vq (A' ++ kr :: B') := by
      have := F0.ysite
      rw [List.map_id, e] at this
      exact this
    rw [Forest.placeAfter_of_ctx t sY.nd sY.ctx]
  rcases split_two hAB hkt with ⟨m, hA, hr⟩ | ⟨m, hl, hB⟩
  · -- `t` stands before the reference
    have e : l ++ r = (l ++ m) ++ kr :: B := by rw [hr]; simp
    have F : Far f (Keep.resident t.handle) t.handle t q vq ((l ++ m) ++ kr :: B) f
        (f.editAt (some q) (dropTop t.handle)) id := e ▸ F0
    exact insertAfterTail_core inv F (e ▸ Vlr) hpar (fun _ => hnext) (hplace _ _ e) hgc (Or.inl rfl) hrc hkrn hsame hocc
  · -- `t` stands after the reference, not directly
    have hm : m ≠ [] := by
      intro em
      apply hsame
      rw [hB, em]
      have h1 : t.value.category = .normal := by simpa [Value.isNormal] using hnt
      have h2 : kr.value.category = .normal := by simpa [Value.isNormal] using hkrn
      simp [nextOf, h1, h2]
    have e : l ++ r = A ++ kr :: (m ++ r) := by rw [hl]; simp
    have F : Far f (Keep.resident t.handle) t.handle t q vq (A ++ kr :: (m ++ r)) f
        (f.editAt (some q) (dropTop t.handle)) id := e ▸ F0
    have hnx : nextOf B kr = nextOf (m ++ r) kr := by
      rw [hB, nextOf_append_ne_nil _ _ hm, nextOf_append_ne_nil _ _ hm]
    exact insertAfterTail_core inv F (e ▸ Vlr) hpar (fun _ => hnext.trans hnx) (hplace _ _ e) hgc (Or.inl rfl)
      hrc hkrn (by rw [← hnx]; exact hsame) hocc

end XotModel

namespace XotModel
open HTree Spec

/-- Inserting a non-text node keeps a list free of adjacent text. -/
theorem noAdj_insert_nontext {P Q : List HTree} {t : HTree} (h : noAdjacentText (P ++ Q) = true)
    (ht : ¬ t.value.isText = true) : noAdjacentText (P ++ t :: Q) = true :=
  noAdj_insert h (fun _ _ h' => ht h'.2) (fun _ _ h' => ht h'.1)

/-- `insert_after` within one child list when the two text nodes around the moved node were
    merged (the moved node is then not a text node, and the reference may be the consumed one). -/
theorem insertAfter_same_merged {f : Forest} {q : Nat} {vq : Value} {l' : List HTree} {a t b : HTree}
    {r' : List HTree} {x y : Str} {A : List HTree} {kr : HTree} {B : List HTree} {ref' : Nat}
    (inv : f.Inv) (norm : f.Normal)
    (so : SiteAt f q vq ((l' ++ [a]) ++ t :: b :: r')) (hc : f.consolidation = true)
    (hx : a.value = .text x) (hy : b.value = .text y) (ht : textData t = none)
    (hAB : A ++ kr :: B = (l' ++ [a]) ++ t :: b :: r')
    (hrc : kr.handle ≠ t.handle) (hkrn : kr.value.isNormal = true) (hnt : t.value.isNormal = true)
    (href : ref' = if b.handle = kr.handle then a.handle else kr.handle)
    (hsame : ¬ nextOf B kr = some t.handle)
    (hocc : Dest.occupiedBy f t.handle (.after kr.handle) = false) :
    (insertAfterTail (f.editAt (some q) (fun _ => l' ++ a.setValue (.text (x ++ y)) :: t :: r')) ref' t.handle).1 =
      specMove (Keep.resident t.handle) (.after kr.handle) t.handle f := by
  have nd := so.nd
  have sq : SiteAt f q vq (A ++ kr :: B) := hAB ▸ so
  have hgc : f.get? t.handle = some t := so.getKid
  have hpar : f.parent? kr.handle = some q := Forest.parent?_of_ctx sq.ctx
  have hqt : q ∉ handles t := by
    intro hin
    apply so.nodupKids.2
    rw [fs_handlesList_append, handlesList_cons]
    exact List.mem_append_right _ (List.mem_append_left _ hin)
  obtain ⟨ndL, _⟩ := so.nodupKids
  obtain ⟨tl, tr⟩ := tops_ne_of_nodup ndL
  have hnott : ¬ t.value.isText = true := by
    intro h
    obtain ⟨z, hz⟩ := isText_iff_textData.1 h
    rw [ht] at hz; cases hz
  have hstrict := (validTree_node (so.valid (norm hc))).2.2.1 rfl
  obtain ⟨hla, htbr, _⟩ := noAdj_append.1 hstrict
  have hbr : noAdjacentText (b :: r') = true := noAdj_tail htbr
  have hak : a.handle ≠ t.handle := tl a (by simp)
  -- the specification as one edit
  have F0 := far_same (keep := Keep.resident t.handle) so
  have hsite : Dest.site f (.after kr.handle) = some q := by simp only [Dest.site]; exact hpar
  have hspec := F0.spec (.after kr.handle) hocc hsite (fun ψ hk hψ => natFor_insertAfterTop hk _ hψ)
  simp only [Dest.insert] at hspec
  have hYc : ((f.editAt (some q) (dropTop t.handle)).editAt (some q) (insertAfterTop kr.handle t)).consolidation = true := by
    rw [Forest.editAt_consolidation, Forest.editAt_consolidation]; exact hc
  rw [hspec, mergeAt_on hYc, Forest.editAt_editAt, Forest.editAt_editAt]
  have hdrop : dropTop t.handle ((l' ++ [a]) ++ t :: b :: r') = (l' ++ [a]) ++ b :: r' := dropTop_mid rfl tl tr
  -- the model
  let a' := a.setValue (.text (x ++ y))
  have sX : SiteAt (f.editAt (some q) (fun _ => l' ++ a' :: t :: r')) q vq ((l' ++ [a']) ++ t :: r') := by
    have := so.edit (fun _ => l' ++ a' :: t :: r') (by
      simp only [a', fs_handlesList_append, handlesList_cons, setValue_handles, handlesList_nil, List.append_nil,
        List.append_assoc]
      refine (List.Sublist.refl _).append ((List.Sublist.refl _).append ((List.Sublist.refl _).append ?_))
      exact List.sublist_append_right _ _)
    simpa using this
  obtain ⟨ndLX, _⟩ := sX.nodupKids
  obtain ⟨tlX, trX⟩ := tops_ne_of_nodup ndLX
  have hXget : (f.editAt (some q) (fun _ => l' ++ a' :: t :: r')).get? t.handle = some t := sX.getKid
  have hXpar : (f.editAt (some q) (fun _ => l' ++ a' :: t :: r')).parent? t.handle = some q :=
    Forest.parent?_of_ctx sX.ctx
  have hr2 : ∀ rf nx, (f.editAt (some q) (fun _ => l' ++ a' :: t :: r')).addConsolidate t.handle rf nx =
      (f.editAt (some q) (fun _ => l' ++ a' :: t :: r'), false) := by
    intro rf nx
    apply Forest.addConsolidate_not_text
    rw [Forest.textOf_of_get hXget]; exact ht
  -- the cut forest
  have hXcut : (f.editAt (some q) (fun _ => l' ++ a' :: t :: r')).editAt (some q) (dropTop t.handle) =
      f.editAt (some q) (fun _ => (l' ++ [a']) ++ r') := by
    rw [Forest.editAt_editAt]
    apply so.congr
    simp only [Function.comp]
    have : l' ++ a' :: t :: r' = (l' ++ [a']) ++ t :: r' := by simp
    rw [this, dropTop_mid rfl tlX trX]
  have sYm : SiteAt (f.editAt (some q) (fun _ => (l' ++ [a']) ++ r')) q vq ((l' ++ [a']) ++ r') := by
    have := so.edit (fun _ => (l' ++ [a']) ++ r') (by
      simp only [a', fs_handlesList_append, handlesList_cons, setValue_handles, handlesList_nil, List.append_nil,
        List.append_assoc]
      refine (List.Sublist.refl _).append ((List.Sublist.refl _).append ?_)
      exact (List.sublist_append_right _ _).trans (List.sublist_append_right _ _))
    exact this
  -- the model's result, given where the (rewritten) reference sits in the two lists
  have model : ∀ (P Q P2 Q2 : List HTree) (w w2 : HTree), w.handle = ref' → w2.handle = ref' →
      (l' ++ [a']) ++ t :: r' = P ++ w :: Q → (l' ++ [a']) ++ r' = P2 ++ w2 :: Q2 →
      (insertAfterTail (f.editAt (some q) (fun _ => l' ++ a' :: t :: r')) ref' t.handle).1 =
        f.editAt (some q) (fun _ => P2 ++ w2 :: t :: Q2) := by
    intro P Q P2 Q2 w w2 hw hw2 e1 e2
    unfold insertAfterTail
    rw [hr2]
    simp only [Bool.false_eq_true, if_false]
    have sX' : SiteAt (f.editAt (some q) (fun _ => l' ++ a' :: t :: r')) q vq (P ++ w :: Q) := e1 ▸ sX
    have hne : w.handle ≠ t.handle := by
      rw [hw, href]
      split
      · exact hak
      · exact hrc
    have := Forest.checkedInsertAfter_ok hXget sX' hqt hne
    rw [hw] at this
    rw [this]
    simp only [if_true]
    rw [hXpar, hXcut]
    have sY' : SiteAt (f.editAt (some q) (fun _ => (l' ++ [a']) ++ r')) q vq (P2 ++ w2 :: Q2) := e2 ▸ sYm
    have hctx := sY'.ctx
    rw [hw2] at hctx
    rw [Forest.placeAfter_of_ctx t sY'.nd hctx, Forest.editAt_editAt]
    apply so.congr
    simp only [Function.comp]
    rw [e2]
    obtain ⟨ndY, _⟩ := sY'.nodupKids
    have := insertAfterTop_mid (A := P2) (w := w2) (B := Q2) t (tops_ne_of_nodup ndY).1
    rw [hw2] at this
    exact this
  have hkt : kr ≠ t := fun e => hrc (by rw [e])
  have htopsAB : ∀ k ∈ A, k.handle ≠ kr.handle := (tops_ne_of_nodup (hAB ▸ ndL)).1
  rcases split_two hAB hkt with ⟨m, hA, hr⟩ | ⟨m, hl, hB⟩
  · cases m with
    | nil =>
      -- the reference is the consumed text node `b`
      simp only [List.nil_append] at hr
      injection hr with e1 e2
      subst e1 e2
      have href' : ref' = a.handle := by rw [href, if_pos rfl]
      rw [model l' (t :: r') l' r' a' a' (by simp [a', setValue_handle, href']) (by simp [a', setValue_handle, href'])
        (by simp) (by simp)]
      apply so.congr
      simp only [Function.comp]
      rw [hdrop]
      have e3 : (l' ++ [a]) ++ b :: r' = (l' ++ [a]) ++ b :: r' := rfl
      have htopsb : ∀ k ∈ l' ++ [a], k.handle ≠ b.handle := by
        intro k hk
        have := htopsAB k (by rw [hA]; exact List.mem_append_left _ hk)
        exact this
      rw [insertAfterTop_mid (A := l' ++ [a]) (w := b) (B := r') t htopsb]
      have e4 : (l' ++ [a]) ++ b :: t :: r' = l' ++ a :: b :: (t :: r') := by simp
      rw [e4, mergeRuns_seam _ hx hy hla (by
        rw [noAdj_cons_cons, Bool.and_eq_true]
        refine ⟨by simp [hnott], ?_⟩
        have : t :: r' = [] ++ t :: r' := rfl
        rw [this]
        exact noAdj_insert_nontext (by simpa using noAdj_tail hbr) hnott)]
      simp [join, Keep.resident, hak, a']
    | cons b0 Z =>
      -- the reference stands behind the merged pair
      simp only [List.cons_append] at hr
      injection hr with e1 e2
      subst e1
      subst e2
      have hbk : b.handle ≠ kr.handle := by
        have := htopsAB b (by rw [hA]; simp)
        exact this
      have href' : ref' = kr.handle := by rw [href, if_neg hbk]
      rw [model ((l' ++ [a']) ++ t :: Z) B ((l' ++ [a']) ++ Z) B kr kr href'.symm href'.symm (by simp) (by simp)]
      apply so.congr
      simp only [Function.comp]
      rw [hdrop]
      have htopsk : ∀ k ∈ (l' ++ [a]) ++ b :: Z, k.handle ≠ kr.handle := by
        intro k hk
        apply htopsAB k
        rw [hA]
        simp only [List.mem_append, List.mem_cons, List.mem_singleton] at hk ⊢
        rcases hk with (h | h) | h | h
        · exact Or.inl (Or.inl h)
        · exact Or.inl (Or.inr h)
        · exact Or.inr (Or.inr (Or.inl h))
        · exact Or.inr (Or.inr (Or.inr h))
      have e3 : (l' ++ [a]) ++ b :: (Z ++ kr :: B) = ((l' ++ [a]) ++ b :: Z) ++ kr :: B := by simp
      rw [e3, insertAfterTop_mid t htopsk]
      have e4 : ((l' ++ [a]) ++ b :: Z) ++ kr :: t :: B = l' ++ a :: b :: (Z ++ kr :: t :: B) := by simp
      rw [e4, mergeRuns_seam _ hx hy hla (by
        have : b :: (Z ++ kr :: t :: B) = (b :: Z ++ [kr]) ++ t :: B := by simp
        rw [this]
        apply noAdj_insert_nontext _ hnott
        have : (b :: Z ++ [kr]) ++ B = b :: (Z ++ kr :: B) := by simp
        rw [this]; exact hbr)]
      simp [join, Keep.resident, hak, a']
  · -- the reference stands before the merged pair
    have hm : m ≠ [] := by
      intro em
      apply hsame
      rw [hB, em]
      have h1 : t.value.category = .normal := by simpa [Value.isNormal] using hnt
      have h2 : kr.value.category = .normal := by simpa [Value.isNormal] using hkrn
      simp [nextOf, h1, h2]
    obtain ⟨W, a0, em⟩ : ∃ W a0, m = W ++ [a0] := by
      cases hlm : m.getLast? with
      | none => exact absurd (List.getLast?_eq_none_iff.1 hlm) hm
      | some k => exact ⟨_, k, (List.getLast?_eq_some_iff.1 hlm).choose_spec⟩
    subst em
    have e0 : l' ++ [a] = (A ++ kr :: W) ++ [a0] := by rw [hl]; simp
    obtain ⟨el, ea⟩ := List.append_inj' e0 rfl
    have ea' : a = a0 := by simpa using ea
    subst ea'
    subst el
    have hbk : b.handle ≠ kr.handle := by
      intro e
      have := (tops_ne_of_nodup ndL).2 b (by simp)
      have h2 := tl kr (by simp)
      -- both `kr` (in `l`) and `b` (in `r`) are children; equal handles contradict distinctness
      obtain ⟨m1, m2, m3, _⟩ := nodup_mid ndL
      have hkin : kr.handle ∈ handlesList ((A ++ kr :: W) ++ [a]) :=
        handle_mem_handlesList (by simp)
      have hbin : b.handle ∈ handlesList (b :: r') := handle_mem_handlesList (by simp)
      exact m3 _ hkin (e ▸ hbin)
    have href' : ref' = kr.handle := by rw [href, if_neg hbk]
    rw [model A (W ++ a' :: t :: r') A (W ++ a' :: r') kr kr href'.symm href'.symm (by simp) (by simp)]
    apply so.congr
    simp only [Function.comp]
    rw [hdrop]
    have e3 : ((A ++ kr :: W) ++ [a]) ++ b :: r' = A ++ kr :: (W ++ a :: b :: r') := by simp
    rw [e3, insertAfterTop_mid t htopsAB]
    have e4 : A ++ kr :: t :: (W ++ a :: b :: r') = (A ++ kr :: t :: W) ++ a :: b :: r' := by simp
    rw [e4, mergeRuns_seam _ hx hy (by
      have : (A ++ kr :: t :: W) ++ [a] = (A ++ [kr]) ++ t :: (W ++ [a]) := by simp
      rw [this]
      apply noAdj_insert_nontext _ hnott
      have : (A ++ [kr]) ++ (W ++ [a]) = (A ++ kr :: W) ++ [a] := by simp
      rw [this]; exact hla) hbr]
    simp [join, Keep.resident, hak, a']

end XotModel

namespace XotModel
open HTree Spec

/-- **insert_after**: the model's `insert_after`, when it succeeds, is the specification's move
    to the place after `ref` — handle for handle, with xot's survivor rule; all geometries. -/
theorem insertAfter_spec {f : Forest} {ref c : Nat} (inv : f.Inv) (norm : f.Normal)
    (hok : (f.insertAfter ref c).2 = .ok) :
    (f.insertAfter ref c).1 = specMove (Keep.resident c) (.after ref) c f := by
  by_cases hfar : f.parent? c ≠ f.parent? ref
  · exact insertAfter_spec_far inv norm hfar hok
  have hsamepar : f.parent? c = f.parent? ref := Classical.not_not.1 hfar
  have nd := inv.nodup
  have hsc : f.structureCheck (f.parent? ref) c = true := by
    cases h : f.structureCheck (f.parent? ref) c with
    | true => rfl
    | false => rw [insertAfter_unfold] at hok; simp [h] at hok
  have hsr : f.siblingReferenceCheck ref c = true := by
    cases h : f.siblingReferenceCheck ref c with
    | true => rfl
    | false => rw [insertAfter_unfold] at hok; simp [hsc, h] at hok
  obtain ⟨q, vq, A, kr, B, t, sq, ekr, hkrn, hrc, hgc, hqt, hnorm, hndoc, hvq⟩ := sibling_checks_unpack nd hsc hsr
  subst ekr
  have htc : t.handle = c := (findList?_some f.roots t hgc).1
  have hnext : f.nextSibling kr.handle = nextOf B kr := Forest.nextSibling_of_ctx sq.ctx
  have hparref : f.parent? kr.handle = some q := Forest.parent?_of_ctx sq.ctx
  have hoccIff := occupied_after sq hgc hnorm hkrn
  by_cases hsame : nextOf B kr = some c
  · have hocc := hoccIff.2 hsame
    rw [insertAfter_unfold]
    unfold specMove
    simp [hsc, hsr, hnext, hsame, hocc]
  · have hocc : Dest.occupiedBy f c (.after kr.handle) = false := by
      cases h : Dest.occupiedBy f c (.after kr.handle) with
      | false => rfl
      | true => exact absurd (hoccIff.1 h) hsame
    rw [insertAfter_unfold]
    simp only [hsc, hsr, hnext, Bool.not_true, Bool.false_eq_true, if_false, beq_iff_eq, hsame]
    -- the moved node is a child of `q`
    rw [hparref] at hsamepar
    cases hctx : f.ctx? c with
    | none => rw [Forest.parent?_of_no_ctx hctx] at hsamepar; cases hsamepar
    | some cx =>
      obtain ⟨e0, vo, so⟩ := SiteAt.of_ctx nd hctx
      have hself : cx.self = t := by
        have := Forest.get?_of_ctx nd hctx
        rw [hgc] at this
        exact (Option.some.inj this).symm
      obtain ⟨po, l, k, r⟩ := cx
      simp only at e0 so hself
      subst hself
      subst htc
      have hpo : po = q := by
        rw [Forest.parent?_of_ctx hctx] at hsamepar
        exact Option.some.inj hsamepar
      subst hpo
      have hlists : vo = vq ∧ A ++ kr :: B = l ++ k :: r := by
        have := so.kids
        rw [sq.kids] at this
        have := Option.some.inj this
        injection this with _ e2 e3
        exact ⟨e2.symm, e3⟩
      obtain ⟨ev, hAB⟩ := hlists
      subst ev
      rw [Forest.prevSibling_of_ctx hctx, Forest.nextSibling_of_ctx hctx]
      simp only
      have hold := old_stage inv norm so
      generalize hres : f.removeConsolidate (prevOf l k) (nextOf r k) = res at hold
      cases hold with
      | same hseam =>
        simp only [Bool.false_and, Bool.false_eq_true, if_false]
        exact insertAfter_same_nomerge inv norm so hAB hrc hkrn hnorm hseam hsame hocc
      | merged l' a b r' x y hc el er hx hy hp hn ht =>
        subst el er
        simp only [Bool.true_and, hp, hn, Option.getD_some]
        have so' : SiteAt f po vo ((l' ++ [a]) ++ k :: b :: r') := so
        exact insertAfter_same_merged inv norm so' hc hx hy ht hAB hrc hkrn hnorm (by
          by_cases hb : b.handle = kr.handle
          · simp [hb]
          · simp [hb]) hsame hocc

end XotModel

namespace XotModel
open HTree Spec

/-- The content of the specification of a move does not depend on the survivor rule (any geometry). -/
theorem specMove_content_keep {f : Forest} {c : Nat} {t : HTree} {q : Nat} {vq : Value} {Lq : List HTree}
    (inv : f.Inv) (norm : f.Normal) (hgc : f.get? c = some t) (sq : SiteAt f q vq Lq) (hqt : q ∉ handles t)
    (hvq : vq.isText = false) (dest : Dest) (hsite : dest.site f = some q) :
    (specMove (Keep.resident c) dest c f).content = (specMove Keep.earlier dest c f).content := by
  by_cases hfar : f.parent? c ≠ some q
  · exact specMove_content_keep_far' inv norm hgc sq hqt hvq hfar dest hsite
  have hpar : f.parent? c = some q := Classical.not_not.1 hfar
  cases hocc : dest.occupiedBy f c with
  | true => unfold specMove; rw [hocc]; rfl
  | false =>
    have nd := inv.nodup
    cases hctx : f.ctx? c with
    | none => rw [Forest.parent?_of_no_ctx hctx] at hpar; cases hpar
    | some cx =>
      obtain ⟨e0, vo, so⟩ := SiteAt.of_ctx nd hctx
      have hself : cx.self = t := by
        have := Forest.get?_of_ctx nd hctx
        rw [hgc] at this
        exact (Option.some.inj this).symm
      obtain ⟨po, l, k, r⟩ := cx
      simp only at e0 so hself
      subst hself
      subst e0
      have hpo : po = q := by
        rw [Forest.parent?_of_ctx hctx] at hpar
        exact Option.some.inj hpar
      subst hpo
      have ev : vo = vq := by
        have := so.kids
        rw [sq.kids] at this
        have := Option.some.inj this
        injection this with _ e2 _
        exact e2.symm
      subst ev
      have hleafL := so.leaf inv.valid
      exact (far_same (keep := Keep.resident k.handle) so).content_keep (far_same (keep := Keep.earlier) so)
        (fun k' hk' => hleafL k' (by
          cases List.mem_append.1 hk' with
          | inl h => exact List.mem_append_left _ h
          | inr h => exact List.mem_append_right _ (List.mem_cons_of_mem _ h)))
        (leaf_of_text inv.valid hgc) dest hocc hsite

theorem insertAfter_content {f : Forest} {ref c : Nat} (inv : f.Inv) (norm : f.Normal)
    (hok : (f.insertAfter ref c).2 = .ok) :
    (f.insertAfter ref c).1.content = (specMove Keep.earlier (.after ref) c f).content := by
  rw [insertAfter_spec inv norm hok]
  have nd := inv.nodup
  have hsc : f.structureCheck (f.parent? ref) c = true := by
    cases h : f.structureCheck (f.parent? ref) c with
    | true => rfl
    | false => rw [insertAfter_unfold] at hok; simp [h] at hok
  have hsr : f.siblingReferenceCheck ref c = true := by
    cases h : f.siblingReferenceCheck ref c with
    | true => rfl
    | false => rw [insertAfter_unfold] at hok; simp [hsc, h] at hok
  obtain ⟨q, vq, A, kr, B, t, sq, ekr, hkrn, hrc, hgc, hqt, hnorm, hndoc, hvq⟩ := sibling_checks_unpack nd hsc hsr
  subst ekr
  exact specMove_content_keep inv norm hgc sq hqt hvq _ (by
    simp only [Dest.site]; exact Forest.parent?_of_ctx sq.ctx)

end XotModel
