/-
  Character level of C14_options: the spelling-as-data of `serialize_text(unescaped_gt = true)`
  (`gtPieces`) — renders to what the serialiser writes, denotes the value, is well spelled, and the text
  token meets the tokenizer's side condition.
-/
import XotModel.Lemmas.SerOptDefs
import XotModel.Lemmas.SerTokensChars
import XotModel.Lemmas.SerTokensPieces

namespace XotModel
open Gen

/-! ### `hasInfix "]]>"` is `hasCdataEnd` -/

theorem beq_swap (a b : Char) : (a == b) = (b == a) := by
  by_cases h : a = b
  · subst h; rfl
  · have h' : ¬ b = a := fun e => h e.symm
    rw [beq_eq_false_iff_ne.mpr h, beq_eq_false_iff_ne.mpr h']

theorem isPrefixOf_cdataEnd (l : Str) : [']', ']', '>'].isPrefixOf l = startsCdataEnd l := by
  match l with
  | [] => rfl
  | [a] => simp [List.isPrefixOf, startsCdataEnd]
  | [a, b] => simp [List.isPrefixOf, startsCdataEnd]
  | a :: b :: c :: r =>
    simp only [List.isPrefixOf, startsCdataEnd, Bool.and_true, beq_swap ']' a, beq_swap ']' b,
      beq_swap '>' c, Bool.and_assoc]

theorem hasInfix_cdataEnd (s : Str) : hasInfix [']', ']', '>'] s = hasCdataEnd s := by
  induction s with
  | nil => rfl
  | cons c cs ih => simp only [hasInfix, hasCdataEnd, isPrefixOf_cdataEnd, ih]

/-! ### `unescaped_gt` -/

theorem gtPiece_gt (racc : Str) : gtPiece racc '>' = if startsBrBr racc then textGtEscape else ['>'] := by
  unfold gtPiece
  simp only [if_true]
  split
  · simp [startsBrBr]
  · rename_i hno
    have : startsBrBr racc = false := by
      match racc, hno with
      | [], _ => rfl
      | [a], _ => rfl
      | a :: b :: r, hno =>
        simp only [startsBrBr, Bool.and_eq_false_iff, beq_eq_false_iff_ne, ne_eq]
        by_cases ha : a = ']'
        · by_cases hb : b = ']'
          · exact absurd (by rw [ha, hb]) (hno r)
          · exact .inr hb
        · exact .inl ha
    simp [this]

theorem renderPiece_gtPieceP (racc : Str) (c : Char) : renderPiece (gtPieceP racc c) = gtPiece racc c := by
  by_cases hc : c = '>'
  · subst hc
    rw [gtPiece_gt]
    unfold gtPieceP
    simp only [if_true]
    split <;> rfl
  · unfold gtPieceP gtPiece
    simp only [hc, if_false, renderPiece_textPiece]

theorem renderPieces_gtPieces (s : Str) : ∀ racc, renderPieces (gtPieces racc s) = gtOut racc s := by
  induction s with
  | nil => intro racc; rfl
  | cons c cs ih =>
    intro racc
    have := ih ((gtPiece racc c).reverse ++ racc)
    simp only [renderPieces] at this
    simp only [gtPieces, gtOut, renderPieces, List.flatMap_cons, renderPiece_gtPieceP, this]

theorem serializeText_true_eq (s : Str) : serializeText true s = gtOut [] s := by
  simp [serializeText, serializeTextGtGo_eq]

/-- The pieces render to what `serialize_text` writes, with or without `unescaped_gt`. -/
theorem renderPieces_txtPieces (ugt : Bool) (s : Str) : renderPieces (txtPieces ugt s) = serializeText ugt s := by
  cases ugt
  · exact renderPieces_textPieces s
  · simp only [txtPieces, if_true, renderPieces_gtPieces, serializeText_true_eq]

theorem pieceValue_gtPieceP (racc : Str) (c : Char) : pieceValue false (gtPieceP racc c) = some c := by
  unfold gtPieceP
  by_cases hc : c = '>'
  · subst hc
    simp only [if_true]
    split
    · decide
    · rfl
  · simp only [hc, if_false, pieceValue_textPiece]

theorem valueOf_gtPieces (s : Str) : ∀ racc, valueOf false (gtPieces racc s) = s := by
  induction s with
  | nil => intro racc; rfl
  | cons c cs ih =>
    intro racc
    have := ih ((gtPiece racc c).reverse ++ racc)
    simp only [valueOf] at this
    simp only [valueOf, gtPieces, List.filterMap_cons, pieceValue_gtPieceP, this]

theorem valueOf_txtPieces (ugt : Bool) (s : Str) : valueOf false (txtPieces ugt s) = s := by
  cases ugt
  · exact valueOf_textPieces s
  · simp only [txtPieces, if_true, valueOf_gtPieces]

theorem gtPieceP_ok (racc : Str) (c : Char) : (gtPieceP racc c).ok ∧ gtPieceP racc c ≠ .cr := by
  unfold gtPieceP
  by_cases hc : c = '>'
  · simp only [hc, if_true]
    split
    · exact ⟨named_ok _ (by decide) (by decide) (by decide), by simp⟩
    · exact ⟨⟨by decide, by decide⟩, by simp⟩
  · simp only [hc, if_false]
    exact textPiece_ok c

theorem wellSpelled_gtPieces (s : Str) : ∀ racc, WellSpelled (gtPieces racc s) := by
  induction s with
  | nil => intro racc; trivial
  | cons c cs ih =>
    intro racc
    exact wellSpelled_cons (gtPieceP_ok racc c).2 (gtPieceP_ok racc c).1 (ih _)

theorem wellSpelled_txtPieces (ugt : Bool) (s : Str) : WellSpelled (txtPieces ugt s) := by
  cases ugt
  · exact wellSpelled_textPieces s
  · simp only [txtPieces, if_true]; exact wellSpelled_gtPieces s []

theorem txtPieces_ne_nil (ugt : Bool) {s : Str} (h : s ≠ []) : txtPieces ugt s ≠ [] := by
  cases s with
  | nil => exact absurd rfl h
  | cons c cs => cases ugt <;> simp [txtPieces, textPieces, gtPieces]

/-! ### The text token under `unescaped_gt` meets the tokenizer's side condition -/

theorem gtPiece_all {P : Char → Bool} (ht : tableAll P textEscapes = true) (hg : textGtEscape.all P = true)
    (hgt : P '>' = true) (racc : Str) (c : Char) (hc : P c = true) : (gtPiece racc c).all P = true := by
  unfold gtPiece
  by_cases h : c = '>'
  · simp only [h, if_true]
    split
    · exact hg
    · simp [hgt]
  · simp only [h, if_false]
    exact escapeWith_all ht c hc

theorem gtOut_all {P : Char → Bool} (ht : tableAll P textEscapes = true) (hg : textGtEscape.all P = true)
    (hgt : P '>' = true) (s : Str) (hs : s.all P = true) : ∀ racc, (gtOut racc s).all P = true := by
  induction s with
  | nil => intro racc; rfl
  | cons c cs ih =>
    intro racc
    simp only [List.all_cons, Bool.and_eq_true] at hs
    simp only [gtOut, List.all_append, Bool.and_eq_true]
    exact ⟨gtPiece_all ht hg hgt racc c hs.1, ih hs.2 _⟩

theorem gtPiece_ne_nil (racc : Str) (c : Char) : gtPiece racc c ≠ [] := by
  unfold gtPiece
  by_cases h : c = '>'
  · simp only [h, if_true]
    split <;> simp [textGtEscape]
  · simp only [h, if_false]
    exact escapeWith_ne_nil (by decide) c

/-- `serialize_text s` (either setting) of a non-empty string of XML characters: not empty, XML
    characters other than `<` only, no `]]>`. -/
theorem serializeText_lexOK (ugt : Bool) (s : Str) (hne : s ≠ []) (hs : s.all isXmlChar = true) :
    (Token.text (sp0 (serializeText ugt s))).lexOK = true := by
  simp only [Token.lexOK, sp0, Bool.and_eq_true, Bool.not_eq_true', List.isEmpty_eq_false_iff]
  cases ugt
  · exact ⟨⟨serializeText_ne_nil s hne, serializeText_chars s hs⟩, serializeText_noCdataEnd s⟩
  · rw [serializeText_true_eq]
    refine ⟨⟨?_, ?_⟩, ?_⟩
    · cases s with
      | nil => exact absurd rfl hne
      | cons c cs =>
        simp only [gtOut, ne_eq, List.append_eq_nil_iff, not_and]
        intro h; exact absurd h (gtPiece_ne_nil [] c)
    · have h1 := gtOut_all (P := isXmlChar) (by decide) (by decide) (by decide) s hs []
      have h3 : '<' ∉ gtOut [] s := gtOut_hides (c := '<') (by decide) (by decide) (by decide) s []
      simp only [List.all_eq_true, Bool.and_eq_true, bne_iff_ne, ne_eq] at h1 ⊢
      intro c hc
      exact ⟨h1 c hc, by rintro rfl; exact h3 hc⟩
    · rw [hasInfix_cdataEnd]
      have := gtOut_noCdataEnd (by decide) (by decide) s [] rfl
      simpa using this

end XotModel
