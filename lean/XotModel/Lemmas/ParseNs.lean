/-
  C02_spelled_ns, part 4: by induction over the spelled document, the builder run on its tokens adds
  exactly the encoded abstract nodes (with namespaces) to the current frame.
-/
import XotModel.Lemmas.ParseNsNodes

namespace XotModel

/-- Running `toks` from `b` adds `trees` to the current frame, leaves the tables `env'` and has
    seen the ID values `ids` (in that order). -/
def SimNs (b : Builder) (toks : List Token) (env' : Env) (trees : List Tree) (ids : List Str) : Prop :=
  ∀ (rest : List Token) (lexErr : Option Nat),
    ∃ idn sp, b.run (toks ++ rest) lexErr =
      (b.emitNs env' trees (ids.reverse ++ b.seenIds) idn sp).run rest lexErr

/-- ID values pairwise different and not seen before. -/
def IdsFresh (ids seen : List Str) : Prop := ids.Nodup ∧ ∀ x ∈ ids, x ∉ seen

theorem IdsFresh.split {a b seen : List Str} (h : IdsFresh (a ++ b) seen) :
    IdsFresh a seen ∧ IdsFresh b (a.reverse ++ seen) := by
  obtain ⟨hn, hd⟩ := h
  obtain ⟨ha, hb, hab⟩ := List.nodup_append.mp hn
  refine ⟨⟨ha, fun x hx => hd x (by simp [hx])⟩, hb, ?_⟩
  intro x hx hm
  simp only [List.mem_append, List.mem_reverse] at hm
  rcases hm with hm | hm
  · exact hab x hm x hx rfl
  · exact hd x (by simp [hx]) hm

theorem idsList_append : ∀ (l1 l2 : List NPNode),
    NPNode.ids.idsList (l1 ++ l2) = NPNode.ids.idsList l1 ++ NPNode.ids.idsList l2
  | [], _ => rfl
  | k :: ks, l2 => by simp only [List.cons_append, NPNode.ids.idsList, idsList_append ks l2, List.append_assoc]

theorem headOk_emitNs_single {b : Builder} {env' : Env} {t : Tree} {seen : List Str} {idn : List (Str × Path)}
    {sp : SpanMap} (h : t.value.isText = false) : HeadOk (b.emitNs env' [t] seen idn sp) :=
  headOk_of_head (k := t) (more := b.cur.rkids) h (by simp [Builder.emitNs])

theorem noAdjCharsNs_tail {k : NSNode} {ks : List NSNode} (h : noAdjCharsNs (k :: ks) = true) :
    noAdjCharsNs ks = true := by
  cases ks with
  | nil => rfl
  | cons k2 rest => simp only [noAdjCharsNs, Bool.and_eq_true] at h; exact h.2

/-- Start tag up to and including `>` / before `/>`: the state `open_element` is called in. -/
theorem run_start_ns {b : Builder} {frames : List (List (Str × Str))} (pfx loc junk : StrSpan)
    (attrs : List NSAttr) (hw : attrsWellNs ((flatScope frames).push (declsOf attrs)) attrs)
    (hbc : pfx.bareColon = false) (tail : List Token) (lexErr : Option Nat) :
    b.run (.elementStart pfx loc junk :: (attrs.map NSAttr.token ++ tail)) lexErr =
      Builder.run { b with
        env := (declIds b.env (declsOf attrs)).1,
        eb := some { (ElementBuilder.new pfx loc) with
          namespaces := (declIds b.env (declsOf attrs)).2,
          attributes := (ordinary attrs).map NSAttr.builder } } tail lexErr := by
  simp only [Builder.run, Builder.step, hbc, Bool.false_eq_true, if_false]
  rw [run_attrs_ns tail lexErr attrs (b.element pfx loc) (ElementBuilder.new pfx loc) rfl hw.1 hw.2.1
    (by intro d hd; simp [ElementBuilder.new] at hd) hw.2.2.1
    (by simpa [ElementBuilder.new] using written_nodup hw.2.2.2.1) hw.2.2.2.2.2]
  simp [Builder.element, ElementBuilder.new]

mutual
theorem sim_node_ns : ∀ (sn : NSNode) (frames : List (List (Str × Str))), sn.Well (flatScope frames) →
    ∀ (b : Builder), ReadyNs b frames → (sn.isChars = true → HeadOk b) →
    IdsFresh (NPNode.ids.idsList (sn.denote (flatScope frames))) b.seenIds →
    SimNs b sn.tokens (NPNode.encode.encodeList b.env (sn.denote (flatScope frames))).1
      (NPNode.encode.encodeList b.env (sn.denote (flatScope frames))).2
      (NPNode.ids.idsList (sn.denote (flatScope frames))) ∧
    (sn.isChars = false → ∀ seen idn sp,
      HeadOk (b.emitNs (NPNode.encode.encodeList b.env (sn.denote (flatScope frames))).1
        (NPNode.encode.encodeList b.env (sn.denote (flatScope frames))).2 seen idn sp))
  | .elem pfx loc junk attrs openSp kids cpfx cloc closeSp, frames, hw, b, hr, _, hids => by
    obtain ⟨hwa, hp, hcp, hcn, hadj, hwk, hbp, hbcp⟩ := hw
    simp only [NSNode.denote, encodeNsList_single, NPNode.encode, NPNode.ids.idsList, NPNode.ids, List.append_nil]
      at hids ⊢
    refine ⟨?_, fun _ _ _ _ => headOk_emitNs_single rfl⟩
    intro rest lexErr
    simp only [NSNode.tokens, List.cons_append, List.append_assoc, List.nil_append]
    rw [run_start_ns pfx loc junk attrs hwa hbp]
    obtain ⟨hidA, hidK⟩ := hids.split
    obtain ⟨idn0, sp0, hopen⟩ := openElement_ns hr pfx loc attrs hwa hp hidA.1 hidA.2
    simp only [Builder.run, Builder.step, hopen]
    have hr1 := readyNs_opened hr pfx.text (((flatScope frames).push (declsOf attrs)).resolve pfx.text) loc.text (declsOf attrs)
      (attrsOf ((flatScope frames).push (declsOf attrs)) attrs) idn0 sp0
    obtain ⟨hsim, _⟩ := sim_list_ns kids (declsOf attrs :: frames) hwk hadj _ hr1
      (fun _ _ _ _ => headOk_openedNs b _ _ _ _ _ idn0 sp0) hidK
    obtain ⟨idnk, spk, hk⟩ := hsim (.elementEnd (.close cpfx cloc) closeSp :: rest) lexErr
    simp only [flatScope_push] at hk
    rw [hk]
    obtain ⟨u, hu⟩ := Option.isSome_iff_exists.mp hp
    have hres : ((flatScope frames).push (declsOf attrs)).resolve pfx.text = u := by simp [Scope.resolve, hu]
    obtain ⟨sp, hc⟩ := run_close_ns hr pfx.text (((flatScope frames).push (declsOf attrs)).resolve pfx.text) loc.text
      (declsOf attrs) (attrsOf ((flatScope frames).push (declsOf attrs)) attrs) idn0 sp0 _ _ _ idnk spk
      (encodeNsList_app (NSNode.denote.denoteList ((flatScope frames).push (declsOf attrs)) kids) _)
      cpfx cloc closeSp hcp hcn (by rw [hres, hcp]; exact hu) hbcp rest lexErr
    refine ⟨idnk, sp, ?_⟩
    rw [hc]
    simp only [Builder.openedNs, List.reverse_append, List.append_assoc]
  | .empty pfx loc junk attrs endSp, frames, hw, b, hr, _, hids => by
    obtain ⟨hwa, hp, hbp⟩ := hw
    simp only [NSNode.denote, encodeNsList_single, NPNode.ids.idsList, NPNode.ids, List.append_nil] at hids ⊢
    refine ⟨?_, fun _ _ _ _ => headOk_emitNs_single (by simp [NPNode.encode, Tree.value, Value.isText])⟩
    intro rest lexErr
    simp only [NSNode.tokens, List.cons_append, List.append_assoc, List.nil_append]
    rw [run_start_ns pfx loc junk attrs hwa hbp]
    obtain ⟨idn0, sp0, hopen⟩ := openElement_ns hr pfx loc attrs hwa hp hids.1 hids.2
    simp only [Builder.run, Builder.step, hopen, closeImmediate_openedNs b hr.eb]
    exact ⟨_, _, rfl⟩
  | .chars parts, frames, hw, b, hr, hh, _ => by
    refine ⟨?_, fun h => by simp [NSNode.isChars] at h⟩
    intro rest lexErr
    obtain ⟨sp, h⟩ := run_chars_ns b (hh rfl) parts hw rest lexErr
    refine ⟨b.idNodes, sp, ?_⟩
    simp only [NSNode.tokens, NSNode.denote]
    rw [h, emit_eq_emitNs]
    by_cases hv : partsValue parts = []
    · simp [hv, NPNode.encode.encodeList, NPNode.ids.idsList]
    · simp [hv, NPNode.encode.encodeList, NPNode.encode, NPNode.ids.idsList, NPNode.ids]
  | .comment text junk, frames, _, b, _, _, _ => by
    simp only [NSNode.denote, encodeNsList_single, NPNode.encode]
    refine ⟨?_, fun _ _ _ _ => headOk_emitNs_single rfl⟩
    intro rest lexErr
    obtain ⟨sp, h⟩ := run_comment b text junk rest lexErr
    exact ⟨b.idNodes, sp, by simpa [NSNode.tokens, emit_eq_emitNs, NPNode.ids.idsList, NPNode.ids] using h⟩
  | .pi target content junk, frames, hw, b, _, _, _ => by
    simp only [NSNode.denote, encodeNsList_single, NPNode.encode]
    refine ⟨?_, fun _ _ _ _ => headOk_emitNs_single rfl⟩
    intro rest lexErr
    obtain ⟨sp, h⟩ := run_pi b target content junk rest lexErr hw
    exact ⟨b.idNodes, sp, by simpa [NSNode.tokens, emit_eq_emitNs, NPNode.ids.idsList, NPNode.ids] using h⟩
theorem sim_list_ns : ∀ (sns : List NSNode) (frames : List (List (Str × Str))),
    NSNode.Well.wellList (flatScope frames) sns → noAdjCharsNs sns = true →
    ∀ (b : Builder), ReadyNs b frames → (∀ sn rest, sns = sn :: rest → sn.isChars = true → HeadOk b) →
    IdsFresh (NPNode.ids.idsList (NSNode.denote.denoteList (flatScope frames) sns)) b.seenIds →
    SimNs b (NSNode.tokens.tokensList sns)
      (NPNode.encode.encodeList b.env (NSNode.denote.denoteList (flatScope frames) sns)).1
      (NPNode.encode.encodeList b.env (NSNode.denote.denoteList (flatScope frames) sns)).2
      (NPNode.ids.idsList (NSNode.denote.denoteList (flatScope frames) sns)) ∧ True
  | [], frames, _, _, b, _, _, _ => by
    refine ⟨?_, trivial⟩
    intro rest lexErr
    refine ⟨b.idNodes, b.spans, ?_⟩
    simp [NSNode.tokens.tokensList, NSNode.denote.denoteList, NPNode.encode.encodeList, Builder.emitNs,
      NPNode.ids.idsList]
  | k :: ks, frames, hw, hadj, b, hr, hstart, hids => by
    refine ⟨?_, trivial⟩
    obtain ⟨hwk, hwks⟩ := hw
    simp only [NSNode.denote.denoteList, idsList_append] at hids
    obtain ⟨hidk, hidks⟩ := hids.split
    obtain ⟨hsimk, hheadk⟩ := sim_node_ns k frames hwk b hr (hstart k ks rfl) hidk
    intro rest lexErr
    simp only [NSNode.tokens.tokensList, NSNode.denote.denoteList, List.append_assoc]
    obtain ⟨idn1, sp1, h1⟩ := hsimk (NSNode.tokens.tokensList ks ++ rest) lexErr
    rw [h1]
    have hext1 := encodeNsList_app (k.denote (flatScope frames)) b.env
    have hr1 := hr.emitNs hext1 (NPNode.encode.encodeList b.env (k.denote (flatScope frames))).2
      ((NPNode.ids.idsList (k.denote (flatScope frames))).reverse ++ b.seenIds) idn1 sp1
    have hstart1 : ∀ sn rest', ks = sn :: rest' → sn.isChars = true →
        HeadOk (b.emitNs (NPNode.encode.encodeList b.env (k.denote (flatScope frames))).1
          (NPNode.encode.encodeList b.env (k.denote (flatScope frames))).2
          ((NPNode.ids.idsList (k.denote (flatScope frames))).reverse ++ b.seenIds) idn1 sp1) := by
      intro sn rest' hks hsn
      subst hks
      have hk : k.isChars = false := by
        simp only [noAdjCharsNs, Bool.and_eq_true, Bool.not_eq_true', Bool.and_eq_false_iff] at hadj
        rcases hadj.1 with h | h
        · exact h
        · rw [hsn] at h; cases h
      exact hheadk hk _ idn1 sp1
    obtain ⟨hsims, _⟩ := sim_list_ns ks frames hwks (noAdjCharsNs_tail hadj) _ hr1 hstart1 hidks
    obtain ⟨idn2, sp2, h2⟩ := hsims rest lexErr
    refine ⟨idn2, sp2, ?_⟩
    rw [h2, emitNs_emitNs, encodeNsList_append, idsList_append]
    simp [Builder.emitNs, List.reverse_append, List.append_assoc]
end

end XotModel
