/-
  An independent XML-Namespaces resolver over the TOKEN TEXTS of the serialiser (the Lean
  counterpart of `check_names` in harness/src/ser_oracle.rs).

  The resolver sees, per token, only its kind (start-tag-open / declaration / attribute /
  start-tag-close / end-tag / other) and its text.  Declarations are read out of the texts
  (`xmlns="…"`, `xmlns:p="…"`, value unescaped), qualified names are split at the first colon, a
  prefix is looked up in the declarations read so far (innermost start tag first; `xml` is
  reserved), an unprefixed element name takes the default namespace, an unprefixed attribute none.

  This file: the resolver, the expected answer (`expectedGo`: the nodes' expanded names as strings,
  through the interning tables), and the lexical facts (what the parsing functions answer on the
  texts the serialiser formats).
-/
import XotModel.Model.Output

namespace XotModel.SerResolve
open XotModel

/-- What the resolver is told about a token besides its text. -/
inductive TokKind where
  | startOpen | decl | attr | startClose | endTag | other
  deriving DecidableEq, Repr

def kindOf : Output → TokKind
  | .startTagOpen _ => .startOpen
  | .pfx _ _ => .decl
  | .attribute _ _ => .attr
  | .startTagClose => .startClose
  | .endTag _ => .endTag
  | _ => .other

/-- Declarations read from one start tag: (prefix, namespace URI), in token order. -/
abbrev SFrame := List (Str × Str)

/-- Innermost start tag first; within one start tag the first declaration of the prefix. -/
def lookupStr : List SFrame → Str → Option Str
  | [], _ => none
  | f :: fs, p =>
    match List.lookup p f with
    | some u => some u
    | none => lookupStr fs p

/-- `prefix:local` split at the first colon. -/
def splitQName (q : Str) : Option Str × Str :=
  if q.contains ':' then (some (q.takeWhile (· != ':')), (q.dropWhile (· != ':')).drop 1)
  else (none, q)

def xmlPrefixStr : Str := ['x','m','l']

/-- XML Namespaces: the namespace name a (possibly absent) prefix stands for; `none` = the prefix is
    not declared. -/
def resolveStr (sc : List SFrame) (isAttr : Bool) : Option Str → Option Str
  | some p => if p == xmlPrefixStr then some Gen.xmlNs else lookupStr sc p
  | none => if isAttr then some [] else some ((lookupStr sc []).getD [])

/-- (is an attribute name, namespace name or `none` for an undeclared prefix, local part). -/
abbrev RName := Bool × Option Str × Str

def resolveName (sc : List SFrame) (isAttr : Bool) (q : Str) : RName :=
  (isAttr, resolveStr sc isAttr (splitQName q).1, (splitQName q).2)

/-- Text up to the first `=`. -/
def beforeEq (text : Str) : Str := text.takeWhile (· != '=')
/-- `lhs="value"`: the text between the `="` after `lhs` and the final `"`. -/
def quotedValue (text : Str) : Str := ((text.dropWhile (· != '=')).drop 2).dropLast
/-- `xmlns:p` ↦ `p`; `xmlns` ↦ the empty prefix. -/
def declPrefix (lhs : Str) : Str :=
  if lhs.take 6 == ['x','m','l','n','s',':'] then lhs.drop 6 else []

def parseDecl (unesc : Str → Str) (text : Str) : Str × Str :=
  (declPrefix (beforeEq text), unesc (quotedValue text))

/-- `<name` ↦ `name`. -/
def startName (text : Str) : Str := text.drop 1
/-- `</name>` ↦ `name`. -/
def endName (text : Str) : Str := (text.drop 2).dropLast

/-- The start tag being read: its qualified name, the declarations and attribute names so far. -/
structure Pending where
  q : Str
  frame : SFrame
  attrs : List Str

/-- The resolver: `sc` = declarations of the open elements (innermost first). -/
def resolveGo (unesc : Str → Str) : List SFrame → Option Pending → List (TokKind × Str) → List RName
  | _, _, [] => []
  | sc, pend, (k, text) :: rest =>
    match k with
    | .startOpen => resolveGo unesc sc (some ⟨startName text, [], []⟩) rest
    | .decl =>
      (match pend with
       | some pd =>
         resolveGo unesc sc
           (some { pd with frame := if text.isEmpty then pd.frame else pd.frame ++ [parseDecl unesc text] }) rest
       | none => resolveGo unesc sc none rest)
    | .attr =>
      (match pend with
       | some pd => resolveGo unesc sc (some { pd with attrs := pd.attrs ++ [beforeEq text] }) rest
       | none => resolveGo unesc sc none rest)
    | .startClose =>
      (match pend with
       | some pd =>
         resolveName (pd.frame :: sc) false pd.q :: pd.attrs.map (resolveName (pd.frame :: sc) true)
           ++ resolveGo unesc (pd.frame :: sc) none rest
       | none => resolveGo unesc sc none rest)
    | .endTag =>
      (if text.isEmpty then [] else [resolveName sc false (endName text)])
        ++ resolveGo unesc sc.tail pend rest
    | .other => resolveGo unesc sc pend rest

/-- The expanded name of a name id, as strings. -/
def expandedName (env : Env) (isAttr : Bool) (name : Nat) : RName :=
  (isAttr, some (env.namespaceStr (env.nsOfName name)), env.localName name)

/-- What the resolver has to answer: per start tag the element's expanded name and its attributes',
    per written end tag the element's. -/
def expectedGo (env : Env) : Option (Nat × List Nat) → List (Output × OutputToken) → List RName
  | _, [] => []
  | pend, (o, tok) :: rest =>
    match o with
    | .startTagOpen name => expectedGo env (some (name, [])) rest
    | .attribute a _ =>
      (match pend with
       | some pd => expectedGo env (some (pd.1, pd.2 ++ [a])) rest
       | none => expectedGo env none rest)
    | .startTagClose =>
      (match pend with
       | some pd => expandedName env false pd.1 :: pd.2.map (expandedName env true) ++ expectedGo env none rest
       | none => expectedGo env none rest)
    | .endTag name =>
      (if tok.text.isEmpty then [] else [expandedName env false name]) ++ expectedGo env pend rest
    | _ => expectedGo env pend rest

/-! ### Lexical facts -/

theorem takeWhile_append_stop {α : Type} (p : α → Bool) (a : List α) (x : α) (b : List α)
    (ha : ∀ c ∈ a, p c = true) (hx : p x = false) : (a ++ x :: b).takeWhile p = a := by
  induction a with
  | nil => simp [List.takeWhile, hx]
  | cons c a ih =>
    simp only [List.cons_append, List.takeWhile_cons, ha c (by simp), if_true]
    rw [ih (fun c' hc' => ha c' (by simp [hc']))]

theorem dropWhile_append_stop {α : Type} (p : α → Bool) (a : List α) (x : α) (b : List α)
    (ha : ∀ c ∈ a, p c = true) (hx : p x = false) : (a ++ x :: b).dropWhile p = x :: b := by
  induction a with
  | nil => simp [List.dropWhile, hx]
  | cons c a ih =>
    simp only [List.cons_append, List.dropWhile_cons, ha c (by simp), if_true]
    exact ih (fun c' hc' => ha c' (by simp [hc']))

theorem ne_of_notMem {x : Char} {a : Str} (h : x ∉ a) : ∀ c ∈ a, (c != x) = true := by
  intro c hc
  simp only [bne_iff_ne, ne_eq]
  rintro rfl
  exact h hc

theorem splitQName_prefixed (P L : Str) (hP : ':' ∉ P) :
    splitQName (P ++ [':'] ++ L) = (some P, L) := by
  unfold splitQName
  have hc : (P ++ [':'] ++ L).contains ':' = true := by simp
  rw [if_pos hc]
  have h1 := takeWhile_append_stop (· != ':') P ':' L (ne_of_notMem hP) (by simp)
  have h2 := dropWhile_append_stop (· != ':') P ':' L (ne_of_notMem hP) (by simp)
  simp only [List.append_assoc, List.singleton_append]
  rw [h1, h2]
  rfl

theorem splitQName_plain (L : Str) (hL : ':' ∉ L) : splitQName L = (none, L) := by
  unfold splitQName
  simp [hL]

theorem fmt_startTagOpen (q : Str) : fmt Gen.fmtStartTagOpen [q] = '<' :: q := by
  simp [fmt, Gen.fmtStartTagOpen]

theorem fmt_endTag (q : Str) : fmt Gen.fmtEndTag [q] = '<' :: '/' :: (q ++ ['>']) := by
  simp [fmt, Gen.fmtEndTag]

theorem fmt_xmlnsDefault (u : Str) :
    fmt Gen.fmtXmlnsDefault [u] = ['x','m','l','n','s'] ++ '=' :: ('"' :: (u ++ ['"'])) := by
  simp [fmt, Gen.fmtXmlnsDefault]

theorem fmt_xmlnsPrefix (P u : Str) :
    fmt Gen.fmtXmlnsPrefix [P, u] = (['x','m','l','n','s',':'] ++ P) ++ '=' :: ('"' :: (u ++ ['"'])) := by
  simp [fmt, Gen.fmtXmlnsPrefix]

theorem fmt_attribute (q v : Str) : fmt Gen.fmtAttribute [q, v] = q ++ '=' :: ('"' :: (v ++ ['"'])) := by
  simp [fmt, Gen.fmtAttribute]

theorem startName_fmt (q : Str) : startName (fmt Gen.fmtStartTagOpen [q]) = q := by
  rw [fmt_startTagOpen]; rfl

theorem endName_fmt (q : Str) : endName (fmt Gen.fmtEndTag [q]) = q := by
  rw [fmt_endTag]
  simp [endName]

theorem fmt_endTag_ne_nil (q : Str) : (fmt Gen.fmtEndTag [q]).isEmpty = false := by
  rw [fmt_endTag]; rfl

theorem quotedValue_fmt (lhs u : Str) (hl : '=' ∉ lhs) :
    quotedValue (lhs ++ '=' :: ('"' :: (u ++ ['"']))) = u := by
  unfold quotedValue
  rw [dropWhile_append_stop (· != '=') lhs '=' _ (ne_of_notMem hl) (by simp)]
  simp

theorem beforeEq_fmt (lhs rest : Str) (hl : '=' ∉ lhs) : beforeEq (lhs ++ '=' :: rest) = lhs := by
  unfold beforeEq
  exact takeWhile_append_stop (· != '=') lhs '=' rest (ne_of_notMem hl) (by simp)

theorem parseDecl_default (unesc : Str → Str) (u : Str) :
    parseDecl unesc (fmt Gen.fmtXmlnsDefault [u]) = ([], unesc u) := by
  rw [fmt_xmlnsDefault]
  unfold parseDecl
  rw [beforeEq_fmt _ _ (by decide), quotedValue_fmt _ _ (by decide)]
  rfl

theorem parseDecl_prefixed (unesc : Str → Str) (P u : Str) (hP : '=' ∉ P) :
    parseDecl unesc (fmt Gen.fmtXmlnsPrefix [P, u]) = (P, unesc u) := by
  rw [fmt_xmlnsPrefix]
  have hl : '=' ∉ ['x','m','l','n','s',':'] ++ P := by
    simp only [List.mem_append, not_or]
    exact ⟨by decide, hP⟩
  unfold parseDecl
  rw [beforeEq_fmt _ _ hl, quotedValue_fmt _ _ hl]
  simp [declPrefix]

theorem fmt_xmlnsDefault_ne_nil (u : Str) : (fmt Gen.fmtXmlnsDefault [u]).isEmpty = false := by
  rw [fmt_xmlnsDefault]; rfl

theorem fmt_xmlnsPrefix_ne_nil (P u : Str) : (fmt Gen.fmtXmlnsPrefix [P, u]).isEmpty = false := by
  rw [fmt_xmlnsPrefix]; rfl

theorem beforeEq_attribute (q v : Str) (hq : '=' ∉ q) : beforeEq (fmt Gen.fmtAttribute [q, v]) = q := by
  rw [fmt_attribute]; exact beforeEq_fmt q _ hq

end XotModel.SerResolve
