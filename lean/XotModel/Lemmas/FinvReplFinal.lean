/-
  Finv (C04), part 38: `replace` preserves the invariant — all cases, all outcomes.
-/
import XotModel.Lemmas.FinvReplN4

namespace XotModel
open HTree

namespace Forest

section gap
variable {f : Forest} {a : Nat} {init : List ZipFrame} {fr : ZipFrame} {l0 : List HTree} {P A N : HTree}
  {r0 : List HTree} {ps ns : Str}

/-- The replacing node is not a text node: it lands exactly in the hole. -/
theorem Gap.replace_nontext (g : Gap f a init fr l0 P A N r0 ps ns) (hi : f.Inv) {b : Nat} {bv : Value}
    (ra : ReplArgs f a b fr P N bv) (hbt : bv.isText = false) :
    ∃ F0, (f.dropSubtree a).insertAfter P.handle b = (F0, .ok) ∧ F0.Inv := by
  have nd := hi.nodup
  obtain ⟨hpar, hsc1, hsr1, hnx1⟩ := g.guards hi ra
  obtain ⟨hpb, hnb, _, _, _, _, _⟩ := g.sibs_b nd ra.live ra.ancB ra.ancA ra.neP ra.neN
  obtain ⟨g1, bb, so⟩ := exists_sibsOut hi ra.live
  obtain ⟨hS1, hancb, hLN⟩ := g.first_step hi ra hbt so
  have hb1 : g1.value? b = some bv := by rw [so.valC]; exact ra.val
  have ha1 : g1.value? a = some A.value := so.keep_nontext (g.valA nd) g.hAt
  have ha1m : a ∈ g1.allHandles := mem_allHandles_of_isLive (isLive_of_value? ha1)
  have hb1m : b ∈ g1.allHandles := mem_allHandles_of_isLive (isLive_of_value? hb1)
  have h2 : (g1.ancestors a).contains b = false := by rw [so.anc a ha1m]; exact ra.ancA
  obtain ⟨F0, hchk, hF0⟩ := place_over_hole so.inv hb1 ra.normal ra.nodoc hbt ha1 g.hAn g.hAd g.hAt
    so.cutOK hancb h2 hLN
  refine ⟨F0, ?_, hF0⟩
  -- `b` is not text in the state the new-site consolidation looks at
  obtain ⟨pb, lb, Bn, rb, locb⟩ := exists_loc hb1m
  have vb := dropView locb so.inv.nodup ha1m hancb
  have htb : (g1.dropSubtree a).textOf b = none :=
    textOf_none_of_value (by rw [vb.value? locb so.inv.nodup]; exact hb1) hbt
  unfold insertAfter
  simp only [hpar, hsc1, hsr1, hnx1, hpb, hnb, hS1, Bool.not_true, Bool.false_eq_true, if_false,
    fi_addConsolidate_nontext _ _ htb, hchk, if_true]

end gap

/-- `replace` when the replaced node sits between two text nodes in strict mode. -/
theorem replace_inv_of_gap {f : Forest} (hi : f.Inv) (a b : Nat) (hg : f.textGap a = true) :
    (f.replace a b).1.Inv := by
  have nd := hi.nodup
  obtain ⟨init, fr, l0, P, A, N, r0, ps, ns, g⟩ := gap_of_textGap hi hg
  unfold replace
  split
  · exact hi
  rw [g.parent nd]
  simp only
  split
  · exact hi
  split
  · exact hi
  rename_i hsc
  split
  · exact hi
  rename_i hancB
  split
  · exact remove_inv hi a
  rename_i hearly
  simp only [Bool.or_eq_true, not_or] at hearly
  obtain ⟨bv, ra⟩ := g.replArgs hi (by simpa using hsc) (by simpa using hancB) hearly.1 hearly.2
  rw [g.prev nd, g.next nd]
  simp only
  cases hbt : bv.isText with
  | true =>
    obtain ⟨Y, hY, hInv⟩ := g.replace_text hi ra hbt
    rw [hY]
    exact hInv
  | false =>
    obtain ⟨F0, hF, hInv⟩ := g.replace_nontext hi ra hbt
    rw [hF]
    exact removeConsolidate_inv hInv _ _

/-- `replace` preserves the invariant, whatever it answers. -/
theorem replace_inv {f : Forest} (hi : f.Inv) (a b : Nat) : (f.replace a b).1.Inv := by
  cases hg : f.textGap a with
  | false => exact replace_inv_of_noGap hi a b hg
  | true => exact replace_inv_of_gap hi a b hg

end Forest
end XotModel
