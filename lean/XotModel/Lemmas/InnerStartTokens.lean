/-
  Round trip for a start node INSIDE a tree, part 1: the tokens.

  `serTokensAt env ugt t q` (what `to_string(node at q)` renders) for an element at `q` are the
  tokens of the document `standalone t q` (Model/InnerStartSpec.lean) serialised from its root —
  for EVERY tree, sound or not.

  Why.  Inner start: the stack starts as `[I]`, `I = namespaces_in_scope(node)`, the node pushes its
  own declarations `N`: top frame `I∖N ++ N`.  Standalone: the stack starts as `[[xml]]`, the element
  pushes `X ++ N` (`X` = `I∖N` without the built-in `xml` binding): top frame `[xml]? ++ X ++ N`.  The
  two frames differ only in where (and whether) the pair `(xml, XML namespace)` stands, and no lookup
  of the serialiser sees that pair (`TopRel`): names in the XML namespace are answered before the
  frame is consulted, `has_default_namespace` looks at the empty prefix only.  The relation survives
  every further `push` (`topRel_pushTop`).
-/
import XotModel.Lemmas.SerTokensTop
import XotModel.Lemmas.RepairWalk
import XotModel.Lemmas.Doctype
import XotModel.Model.InnerStartSpec

namespace XotModel
open XotModel.Repair

variable {env : Env}

/-! ### Frames up to the built-in `xml` binding -/

/-- Not the built-in `xml` binding. -/
def keepNB (d : Nat × Nat) : Bool := !isBaseXml d

/-- Two top frames that agree once the pair `(xml, XML namespace)` is taken out. -/
def TopRel (a b : List (Nat × Nat)) : Prop := a.filter keepNB = b.filter keepNB

theorem TopRel.refl (a : List (Nat × Nat)) : TopRel a a := rfl

/-- `pushTop` without the case split: nothing is filtered out when nothing is declared. -/
theorem pushTop_eq_filter (top D : List (Nat × Nat)) :
    pushTop top D = top.filter (fun d => !D.any (fun d' => d'.1 == d.1)) ++ D := by
  unfold pushTop
  cases D with
  | nil =>
    simp only [List.isEmpty_nil, if_true, List.any_nil, Bool.not_false, List.append_nil]
    exact (List.filter_eq_self.mpr (fun _ _ => rfl)).symm
  | cons d D => simp only [List.isEmpty_cons, Bool.false_eq_true, if_false, fullnameInfoNew]

theorem topRel_pushTop {a b : List (Nat × Nat)} (h : TopRel a b) (D : List (Nat × Nat)) :
    TopRel (pushTop a D) (pushTop b D) := by
  unfold TopRel at h ⊢
  rw [pushTop_eq_filter, pushTop_eq_filter, List.filter_append, List.filter_append, List.filter_filter,
    List.filter_filter]
  have hc : ∀ l : List (Nat × Nat),
      l.filter (fun d => keepNB d && !D.any (fun d' => d'.1 == d.1)) =
        (l.filter keepNB).filter (fun d => !D.any (fun d' => d'.1 == d.1)) := by
    intro l
    rw [List.filter_filter]
    apply List.filter_congr
    intro x _
    exact Bool.and_comm _ _
  rw [hc a, hc b, h]

theorem topRel_hasDefault {a b : List (Nat × Nat)} (h : TopRel a b) : hasDefault a = hasDefault b := by
  have key : ∀ l : List (Nat × Nat), hasDefault l = hasDefault (l.filter keepNB) := by
    intro l
    unfold hasDefault
    rw [List.any_filter]
    congr 1
    funext d
    by_cases hd : (d.1 == Env.emptyPrefix) = true
    · have : keepNB d = true := by
        have h1 : d.1 = Env.emptyPrefix := by simpa using hd
        simp [keepNB, isBaseXml, h1, Env.emptyPrefix, Env.xmlPrefix]
      simp [this]
    · have hd' : (d.1 == Env.emptyPrefix) = false := by simpa using hd
      simp [hd']
  rw [key a, key b, h]

theorem topRel_prefixesByNamespace {a b : List (Nat × Nat)} (h : TopRel a b) {ns : Nat}
    (hns : ns ≠ Env.xmlNamespace) : prefixesByNamespace a ns = prefixesByNamespace b ns := by
  have key : ∀ l : List (Nat × Nat),
      l.filter (fun d => d.2 == ns) = (l.filter keepNB).filter (fun d => d.2 == ns) := by
    intro l
    rw [List.filter_filter]
    apply List.filter_congr
    intro d _
    by_cases hd : (d.2 == ns) = true
    · have h1 : d.2 = ns := by simpa using hd
      have : keepNB d = true := by
        simp only [keepNB, isBaseXml, Bool.not_eq_true', Bool.and_eq_false_iff, beq_eq_false_iff_ne, ne_eq]
        right; rw [h1]; exact hns
      simp [hd, this]
    · have hd' : (d.2 == ns) = false := by simpa using hd
      simp [hd']
  have e : ∀ l : List (Nat × Nat), prefixesByNamespace l ns =
      ((l.filter (fun d => d.2 == ns)).reverse).map (·.1) := by
    intro l
    unfold prefixesByNamespace
    rw [List.filter_reverse]
  rw [e a, e b, key a, key b, h]

theorem topRel_elementPrefix {s1 s2 : FStack} (h : TopRel s1.top s2.top) (name : Nat) :
    s1.elementPrefix env name = s2.elementPrefix env name := by
  unfold FStack.elementPrefix
  by_cases h1 : (env.nsOfName name == Env.noNamespace) = true
  · simp [h1]
  · by_cases h2 : (env.nsOfName name == Env.xmlNamespace) = true
    · simp [h1, h2]
    · have hne : env.nsOfName name ≠ Env.xmlNamespace := by simpa using h2
      simp only [h1, h2, Bool.false_eq_true, if_false]
      unfold elementPrefixByNamespace
      rw [topRel_prefixesByNamespace h hne]

theorem topRel_attributePrefix {s1 s2 : FStack} (h : TopRel s1.top s2.top) (name : Nat) :
    s1.attributePrefix env name = s2.attributePrefix env name := by
  unfold FStack.attributePrefix
  by_cases h1 : (env.nsOfName name == Env.noNamespace) = true
  · simp [h1]
  · by_cases h2 : (env.nsOfName name == Env.xmlNamespace) = true
    · simp [h1, h2]
    · have hne : env.nsOfName name ≠ Env.xmlNamespace := by simpa using h2
      simp only [h1, h2, Bool.false_eq_true, if_false]
      unfold attributePrefixByNamespace
      rw [topRel_prefixesByNamespace h hne]

theorem topRel_push {s1 s2 : FStack} (h : TopRel s1.top s2.top) (D : List (Nat × Nat)) :
    TopRel (s1.push D).top (s2.push D).top := by
  rw [top_push, top_push]; exact topRel_pushTop h D

theorem topRel_attrTokens {s1 s2 : FStack} (h : TopRel s1.top s2.top) :
    ∀ (as : List (Nat × Str)), attrTokens env s1 as = attrTokens env s2 as
  | [] => rfl
  | (name, v) :: rest => by
    rw [attrTokens, attrTokens, topRel_attributePrefix (env := env) h name, topRel_attrTokens h rest]

/-! ### `serNode` below the start node sees the stack only through its top frame up to `TopRel` -/

mutual
theorem serNode_topRel (ugt : Bool) (i1 i2 : List (Nat × Nat)) (n : Tree) (s1 s2 : FStack)
    (h : TopRel s1.top s2.top) :
    serNode env ugt i1 false s1 n = serNode env ugt i2 false s2 n := by
  cases n with
  | node v ks =>
    have hk := serKids_topRel ugt i1 i2 ks s1 s2 h
    cases v with
    | document => simpa [serNode] using hk
    | «attribute» a b => simpa [serNode] using hk
    | «namespace» a b => simpa [serNode] using hk
    | text str => rw [serNode, serNode, hk]
    | comment str => rw [serNode, serNode, hk]
    | pi target data => rw [serNode, serNode, hk]
    | element name =>
      have ht := topRel_push h (Tree.node (.element name) ks).nsDecls
      have hk' := serKids_topRel ugt i1 i2 ks _ _ ht
      have hd : (s1.push (Tree.node (.element name) ks).nsDecls).hasDefaultNamespace =
          (s2.push (Tree.node (.element name) ks).nsDecls).hasDefaultNamespace := by
        rw [hasDefaultNamespace_eq, hasDefaultNamespace_eq]; exact topRel_hasDefault ht
      have he := topRel_elementPrefix (env := env) ht name
      have ha := topRel_attrTokens (env := env) ht (Tree.node (.element name) ks).attrs
      rw [serNode, serNode]
      simp only [hd, he, ha, hk', Bool.false_eq_true, if_false]

theorem serKids_topRel (ugt : Bool) (i1 i2 : List (Nat × Nat)) (ks : List Tree) (s1 s2 : FStack)
    (h : TopRel s1.top s2.top) :
    serNode.serKids env ugt i1 s1 ks = serNode.serKids env ugt i2 s2 ks := by
  cases ks with
  | nil => simp [serNode.serKids]
  | cons k ks =>
    rw [serNode.serKids, serNode.serKids, serNode_topRel ugt i1 i2 k s1 s2 h,
      serKids_topRel ugt i1 i2 ks s1 s2 h]
end

/-! ### The element of `standalone` -/

theorem nsLeaves_category (X : List (Nat × Nat)) :
    ∀ k ∈ nsLeaves X, (k.value.category == Category.namespace) = true := by
  intro k hk
  simp only [nsLeaves, List.mem_map] at hk
  obtain ⟨d, _, rfl⟩ := hk
  rfl

theorem nsLeaves_abnormal (X : List (Nat × Nat)) : ∀ k ∈ nsLeaves X, (!k.value.isNormal) = true := by
  intro k hk
  simp only [nsLeaves, List.mem_map] at hk
  obtain ⟨d, _, rfl⟩ := hk
  rfl

theorem nsDecls_nsLeaves_append (v : Value) (X : List (Nat × Nat)) (ks : List Tree) :
    (Tree.node v (nsLeaves X ++ ks)).nsDecls = X ++ (Tree.node v ks).nsDecls := by
  simp only [Tree.nsDecls, Tree.namespaceNodes, Tree.kids]
  rw [List.takeWhile_append_of_pos (nsLeaves_category X), List.filterMap_append]
  congr 1
  induction X with
  | nil => rfl
  | cons d X ih =>
    simp only [nsLeaves, List.map_cons, List.filterMap_cons, Tree.value] at ih ⊢
    rw [ih]

theorem attrs_nsLeaves_append (v : Value) (X : List (Nat × Nat)) (ks : List Tree) :
    (Tree.node v (nsLeaves X ++ ks)).attrs = (Tree.node v ks).attrs := by
  simp only [Tree.attrs, Tree.attributeNodes, Tree.kids]
  rw [List.dropWhile_append_of_pos (nsLeaves_category X)]

theorem firstChild_nsLeaves_append (v : Value) (X : List (Nat × Nat)) (ks : List Tree) :
    (Tree.node v (nsLeaves X ++ ks)).firstChild? = (Tree.node v ks).firstChild? := by
  simp only [Tree.firstChild?, Tree.normalKids, Tree.kids]
  rw [List.dropWhile_append_of_pos (nsLeaves_abnormal X)]

theorem appendOk_ok_nil_left (a : Except XotError (List Token)) : appendOk (.ok []) a = a := by
  cases a <;> simp [appendOk]

theorem appendOk_ok_nil_right (a : Except XotError (List Token)) : appendOk a (.ok []) = a := by
  cases a <;> simp [appendOk]

/-- Childless namespace nodes contribute no token. -/
theorem serKids_nsLeaves_append (ugt : Bool) (i : List (Nat × Nat)) (s : FStack) (X : List (Nat × Nat))
    (ks : List Tree) :
    serNode.serKids env ugt i s (nsLeaves X ++ ks) = serNode.serKids env ugt i s ks := by
  induction X with
  | nil => rfl
  | cons d X ih =>
    have : nsLeaves (d :: X) ++ ks = Tree.node (.namespace d.1 d.2) [] :: (nsLeaves X ++ ks) := rfl
    rw [this, serNode.serKids, ih]
    have h0 : serNode env ugt i false s (Tree.node (.namespace d.1 d.2) []) = .ok [] := by
      simp [serNode, serNode.serKids]
    rw [h0, appendOk_ok_nil_left]

/-- The built-in `xml` binding renders as nothing. -/
theorem flatMap_declTokens_filter_keepNB (l : List (Nat × Nat)) :
    (l.filter keepNB).flatMap (declTokens env) = l.flatMap (declTokens env) := by
  induction l with
  | nil => rfl
  | cons d l ih =>
    by_cases hd : keepNB d = true
    · simp only [List.filter_cons, hd, if_true, List.flatMap_cons, ih]
    · have hb : isBaseXml d = true := by simpa [keepNB] using hd
      have h2 : (d.2 == Env.xmlNamespace) = true := by
        simp only [isBaseXml, Bool.and_eq_true] at hb; exact hb.2
      have h0 : declTokens env d = [] := by simp [declTokens, h2]
      have hd' : keepNB d = false := by simpa using hd
      simp only [List.filter_cons, hd', Bool.false_eq_true, if_false, List.flatMap_cons, ih, h0,
        List.nil_append]

theorem inheritedExtra_eq (I : List (Nat × Nat)) (n : Tree) :
    inheritedExtra I n = (I.filter (fun d => !n.declaresPrefix d.1)).filter keepNB := by
  unfold inheritedExtra
  rw [List.filter_filter]
  apply List.filter_congr
  intro d _
  simp only [keepNB]
  exact Bool.and_comm _ _

/-- The start frame of the standalone document's element: the base frame after pushing `Y`. -/
theorem pushTop_base_filter (Y : List (Nat × Nat)) :
    (pushTop basePrefixes Y).filter keepNB = Y.filter keepNB := by
  rw [pushTop_eq_filter, List.filter_append, List.filter_filter]
  have : basePrefixes.filter (fun a => keepNB a && !Y.any (fun d' => d'.1 == a.1)) = [] := by
    apply List.filter_eq_nil_iff.mpr
    intro a ha
    simp only [basePrefixes, List.mem_singleton] at ha
    subst ha
    simp [keepNB, isBaseXml]
  rw [this, List.nil_append]

/-- The frames the two serialisations hold inside the start element are `TopRel`-related. -/
theorem topRel_start (I : List (Nat × Nat)) (n : Tree) :
    TopRel (pushTop I n.nsDecls) (pushTop basePrefixes (inheritedExtra I n ++ n.nsDecls)) := by
  unfold TopRel
  rw [pushTop_base_filter, pushTop_eq_filter, List.filter_append, List.filter_append, inheritedExtra_eq,
    List.filter_filter, List.filter_filter, List.filter_filter]
  congr 1
  apply List.filter_congr
  intro d _
  simp only [Tree.declaresPrefix]
  cases keepNB d <;> simp

/-- The scope of the root of a document holding just an element: the base prefixes. -/
theorem inScope_document_single (e : Tree) (he : e.value.isElement = true) :
    namespacesInScopeChain [Tree.node .document [e]] = basePrefixes := by
  have h0 : (Tree.node .document [e]).nsDecls = [] := by
    cases e with
    | node v ks =>
      cases v <;> simp [Tree.value, Value.isElement] at he
      simp [Tree.nsDecls, Tree.namespaceNodes, Tree.kids, Tree.value, Value.category]
  simp [namespacesInScopeChain, traverseChain, traverseDecls, h0, basePrefixes]

/-! ### Theorem A at token level -/

/-- **The tokens of an inner element are the tokens of its standalone document**, for every tree and
    every path leading to an element; `unescaped_gt` on or off. -/
theorem serTokensAt_standalone (ugt : Bool) (t : Tree) (q : Path) (name : Nat) (ks : List Tree)
    (hat : t.at? q = some (.node (.element name) ks)) :
    ∃ t', standalone t q = some t' ∧ serTokensAt env ugt t q = serTokensAt env ugt t' [] := by
  obtain ⟨rest, hchain⟩ := ancestorsOrSelf_of_at? t q _ hat
  have hsc : namespacesInScope t q = some (namespacesInScopeChain (.node (.element name) ks :: rest)) := by
    simp [namespacesInScope, hchain]
  generalize namespacesInScopeChain (.node (.element name) ks :: rest) = I at hsc
  obtain ⟨X, hX⟩ : ∃ X, X = inheritedExtra I (.node (.element name) ks) := ⟨_, rfl⟩
  obtain ⟨N, hNd⟩ : ∃ N, N = (Tree.node (.element name) ks).nsDecls := ⟨_, rfl⟩
  refine ⟨.node .document [.node (.element name) (nsLeaves X ++ ks)], ?_, ?_⟩
  · simp only [standalone, hat, hsc, standaloneElement, Option.map_some, hX]
  · have hdoc := inScope_document_single (Tree.node (.element name) (nsLeaves X ++ ks)) rfl
    have hL : serTokensAt env ugt t q =
        serNode env ugt I true (FStack.new I) (.node (.element name) ks) := by
      simp only [serTokensAt, hat, hsc]
    have hRt : serTokensAt env ugt (.node .document [.node (.element name) (nsLeaves X ++ ks)]) [] =
        serNode env ugt basePrefixes true (FStack.new basePrefixes)
          (.node .document [.node (.element name) (nsLeaves X ++ ks)]) := by
      simp only [serTokensAt, Tree.at?, namespacesInScope, Tree.ancestorsOrSelf, Option.map_some, hdoc]
    rw [hL, hRt]
    -- the document node passes its one child on
    have hR : serNode env ugt basePrefixes true (FStack.new basePrefixes)
        (.node .document [.node (.element name) (nsLeaves X ++ ks)]) =
        serNode env ugt basePrefixes false (FStack.new basePrefixes)
          (.node (.element name) (nsLeaves X ++ ks)) := by
      rw [serNode]
      show appendOk _ (.ok []) = _
      exact appendOk_ok_nil_right _
    rw [hR, serNode, serNode]
    have hN : (Tree.node (.element name) (nsLeaves X ++ ks)).nsDecls = X ++ N := by
      rw [hNd]; exact nsDecls_nsLeaves_append _ X ks
    have hA : (Tree.node (.element name) (nsLeaves X ++ ks)).attrs = (Tree.node (.element name) ks).attrs :=
      attrs_nsLeaves_append _ X ks
    have hF : (Tree.node (.element name) (nsLeaves X ++ ks)).firstChild? =
        (Tree.node (.element name) ks).firstChild? := firstChild_nsLeaves_append _ X ks
    have ht : TopRel ((FStack.new I).push N).top ((FStack.new basePrefixes).push (X ++ N)).top := by
      rw [top_push, top_push, hX, hNd]
      exact topRel_start I _
    have hd : ((FStack.new I).push N).hasDefaultNamespace =
        ((FStack.new basePrefixes).push (X ++ N)).hasDefaultNamespace := by
      rw [hasDefaultNamespace_eq, hasDefaultNamespace_eq]; exact topRel_hasDefault ht
    have he := topRel_elementPrefix (env := env) ht name
    have ha := topRel_attrTokens (env := env) ht (Tree.node (.element name) ks).attrs
    have hk : serNode.serKids env ugt I ((FStack.new I).push N) ks =
        serNode.serKids env ugt basePrefixes ((FStack.new basePrefixes).push (X ++ N))
          (nsLeaves X ++ ks) := by
      rw [serKids_nsLeaves_append]
      exact serKids_topRel ugt _ _ ks _ _ ht
    have hdecl : ((I.filter (fun d => !(Tree.node (.element name) ks).declaresPrefix d.1)) ++ N).flatMap
          (declTokens env) = (X ++ N).flatMap (declTokens env) := by
      rw [List.flatMap_append, List.flatMap_append, hX, inheritedExtra_eq, flatMap_declTokens_filter_keepNB]
    simp only [hN, hA, hF, ← hNd, if_true, Bool.false_eq_true, if_false, List.nil_append]
    simp only [hd, he, ha, hk, hdecl]

end XotModel
