/-
  Finv (C04), part 30: a handle keeps denoting the same value.  Built on the frame relation of the
  C06 lemmas (`Forest.Frame f f' P`: outside `P` every node keeps its parent and its value up to
  text content).  Text nodes are the one exception by design: consolidation rewrites the content
  of a neighbouring text node, so for them only "is still a text node" holds.
-/
import XotModel.Lemmas.FatomComposite
import XotModel.Lemmas.FinvClone

namespace XotModel
open HTree

namespace Forest

theorem shape_eq_of_nontext {v v' : Value} (hv : v.isText = false) (h : v'.shape = v.shape) : v' = v := by
  cases v <;> cases v' <;> simp_all [Value.shape, Value.isText]

/-- Outside the touched set a node that is not text keeps its value exactly. -/
theorem Frame.value_nontext {f f' : Forest} {P : List Nat} (a : Frame f f' P) {x : Nat} (hx : x ∉ P)
    {v : Value} (hv : f.value? x = some v) (hnt : v.isText = false) : f'.value? x = some v := by
  have := a.shape x hx
  rw [hv] at this
  cases h1 : f'.value? x with
  | none => rw [h1] at this; cases this
  | some v' =>
    rw [h1] at this
    simp only [Option.map_some, Option.some.injEq] at this
    rw [shape_eq_of_nontext hnt this]

/-- … and a text node stays a text node. -/
theorem Frame.value_text {f f' : Forest} {P : List Nat} (a : Frame f f' P) {x : Nat} (hx : x ∉ P)
    {v : Value} (hv : f.value? x = some v) (ht : v.isText = true) :
    ∃ v', f'.value? x = some v' ∧ v'.isText = true := by
  have := a.shape x hx
  rw [hv] at this
  cases h1 : f'.value? x with
  | none => rw [h1] at this; cases this
  | some v' =>
    rw [h1] at this
    simp only [Option.map_some, Option.some.injEq] at this
    refine ⟨v', rfl, ?_⟩
    rw [← shape_isText, this, shape_isText]; exact ht

/-- Node creation changes no existing value (text or not). -/
theorem value_stable_newNode (f : Forest) (w : Value) {h : Nat} {v : Value} (hv : f.value? h = some v) :
    (f.newNode w).1.value? h = some v := value?_newNode_of_some w hv

/-- The four moves: a node outside the moved subtree that is not text keeps its value. -/
theorem value_stable_of_outcome {f : Forest} {r : Forest × Res} {c : Nat} (m : MoveOutcome f r c)
    {h : Nat} {v : Value} (hv : f.value? h = some v) (hnt : v.isText = false)
    (hc : c ∉ f.ancestors h) : r.1.value? h = some v := by
  rcases m with m | m
  · rw [m]; exact hv
  · obtain ⟨P, fr, hP⟩ := m.frame
    apply fr.value_nontext _ hv hnt
    intro hx
    rcases hP h hx with h1 | ⟨_, h2⟩
    · exact hc h1
    · have : f.textOf h = none := textOf_none_of_value hv hnt
      rw [this] at h2; cases h2

theorem value_stable_remove {f : Forest} (hi : f.Inv) (n : Nat) {h : Nat} {v : Value}
    (hv : f.value? h = some v) (hnt : v.isText = false) (hsub : ∀ t, f.get? n = some t → h ∉ handles t) :
    (f.remove n).1.value? h = some v := by
  have w := hi.toW
  unfold remove
  cases hg : f.get? n with
  | none =>
    have hd : f.dropSubtree n = f := by unfold dropSubtree; rw [cut_dead hg]
    rw [hd]
    obtain ⟨_, _, P, hP, fr⟩ := removeConsolidate_spec w (f.prevSibling n) (f.nextSibling n)
    apply fr.value_nontext _ hv hnt
    intro hx
    have := (hP h hx).2.1
    rw [textOf_none_of_value hv hnt] at this; cases this
  | some t =>
    obtain ⟨_, w1, _, fr1, _⟩ := cut_spec w hg
    have hv1 : (f.dropSubtree n).value? h = some v := fr1.value_nontext (hsub t hg) hv hnt
    obtain ⟨_, _, P, hP, fr⟩ := removeConsolidate_spec (f := f.dropSubtree n) w1 (f.prevSibling n) (f.nextSibling n)
    apply fr.value_nontext _ hv1 hnt
    intro hx
    have := (hP h hx).2.1
    rw [textOf_none_of_value hv1 hnt] at this; cases this

theorem value_stable_detach {f : Forest} (hi : f.Inv) (n : Nat) {h : Nat} {v : Value}
    (hv : f.value? h = some v) (hnt : v.isText = false) (hsub : ∀ t, f.get? n = some t → h ∉ handles t) :
    (f.detach n).1.value? h = some v := by
  have w := hi.toW
  unfold detach
  cases hg : f.get? n with
  | none =>
    rw [detachRaw_dead hg]
    obtain ⟨_, _, P, hP, fr⟩ := removeConsolidate_spec w (f.prevSibling n) (f.nextSibling n)
    apply fr.value_nontext _ hv hnt
    intro hx
    have := (hP h hx).2.1
    rw [textOf_none_of_value hv hnt] at this; cases this
  | some t =>
    obtain ⟨w1, fr1, _⟩ := detachRaw_spec w hg
    have hv1 : (f.detachRaw n).value? h = some v := fr1.value_nontext (hsub t hg) hv hnt
    obtain ⟨_, _, P, hP, fr⟩ := removeConsolidate_spec (f := f.detachRaw n) w1 (f.prevSibling n) (f.nextSibling n)
    apply fr.value_nontext _ hv1 hnt
    intro hx
    have := (hP h hx).2.1
    rw [textOf_none_of_value hv1 hnt] at this; cases this

end Forest
end XotModel
