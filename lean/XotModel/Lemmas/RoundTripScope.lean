/-
  Round trip, name resolution: the bridge from the id-level scoping of the serialiser (C10: the top
  frame of the `FullnameSerializer` stack is nearest-declaration-wins over the declaration lists
  pushed, `StackInv`) to the STRING scope the builder theorems use (`Scope`, Lemmas/ParseNsDefs.lean).

  `ScopeRel env s fs sc`: the stack `s` stands for the id frames `fs`, and looking a prefix id's
  string up in `sc` gives the string of the namespace id the frames bind it to (the empty prefix is
  bound to no namespace at the outset, `xml` to the XML namespace throughout).
  Kept by `push` of the declarations of a `nodeOK` element; then the prefix `element_prefix` /
  `attribute_prefix` chooses resolves, in the string scope, to the URI of the name's namespace
  (via `sound_prefix`, `sound_attribute` of Lemmas/Scope10Sound.lean = C10_sound_prefix, C10_sound_attribute).
-/
import XotModel.Lemmas.RoundTripEnv
import XotModel.Lemmas.Scope10Sound
import XotModel.Lemmas.TraceInv
import XotModel.Lemmas.RepairDoc
import XotModel.Lemmas.RepairFuel
import XotModel.Lemmas.RepairKeepTop
import XotModel.Lemmas.RepairValid
import XotModel.Lemmas.SerResolveTop

namespace XotModel
open XotModel.Props

/-- A declaration as strings. -/
def declStr (env : Env) (d : Nat × Nat) : Str × Str := (env.prefixStr d.1, env.namespaceStr d.2)

structure ScopeRel (env : Env) (s : FStack) (fs : Frames) (sc : Scope) : Prop where
  inv : StackInv s fs
  xmlBound : lookupFrames fs Env.xmlPrefix = some Env.xmlNamespace
  valid : ∀ p n, lookupFrames fs p = some n → p < env.prefixes.length
  validNs : ∀ p n, lookupFrames fs p = some n → n < env.namespaces.length
  notXmlns : ∀ p n, lookupFrames fs p = some n → env.prefixStr p ≠ xmlnsName
  look : ∀ p, p < env.prefixes.length →
    sc.lookup (env.prefixStr p) =
      match lookupFrames fs p with
      | some n => some (env.namespaceStr n)
      | none => if p = Env.emptyPrefix then some [] else none

/-- The declarations of one element of a `nodeOK` tree. -/
def DeclsOK (env : Env) (decls : List (Nat × Nat)) : Prop :=
  UniquePrefixes decls ∧ ∀ d ∈ decls, valueOK env (.namespace d.1 d.2) = true

theorem nodup_map_of_inj_on {α β : Type} (f : α → β) {l : List α}
    (hinj : ∀ a ∈ l, ∀ b ∈ l, f a = f b → a = b) (h : l.Nodup) : (l.map f).Nodup := by
  unfold List.Nodup at h ⊢
  rw [List.pairwise_map]
  exact List.Pairwise.imp_of_mem (fun ha hb hne he => hne (hinj _ ha _ hb he)) h

variable {env : Env}

theorem valueOK_namespace_facts {p ns : Nat} (h : valueOK env (.namespace p ns) = true) :
    p ≠ Env.xmlPrefix ∧ ns ≠ Env.xmlNamespace ∧
      (p ≠ Env.emptyPrefix → env.prefixStr p ≠ [] ∧ env.prefixStr p ≠ xmlnsName ∧ ns ≠ Env.noNamespace) ∧
      (ns ≠ Env.noNamespace → env.namespaceStr ns ≠ []) := by
  simp only [valueOK, Bool.and_eq_true, Bool.or_eq_true, beq_iff_eq, bne_iff_ne, ne_eq,
    Bool.not_eq_true', List.isEmpty_eq_false_iff] at h
  obtain ⟨⟨⟨⟨⟨h1, h2⟩, _⟩, h3⟩, h4⟩, _⟩ := h
  refine ⟨h1, h2, fun hp => ?_, fun hn => ?_⟩
  · rcases h3 with h3 | h3
    · exact absurd h3 hp
    · have := h3.1.1
      simp only [ncNameNE, Bool.and_eq_true, Bool.not_eq_true', List.isEmpty_eq_false_iff] at this
      exact ⟨this.2, h3.1.2, h3.2⟩
  · rcases h4 with h4 | h4
    · exact absurd h4 hn
    · exact h4

theorem DeclsOK.prefix_lt (he : EnvFacts env) {decls : List (Nat × Nat)} (h : DeclsOK env decls)
    {d : Nat × Nat} (hd : d ∈ decls) : d.1 < env.prefixes.length := by
  by_cases hp : d.1 = Env.emptyPrefix
  · rw [hp]; exact he.emptyPrefix_lt
  · exact EnvFacts.prefix_lt_of_ne ((valueOK_namespace_facts (h.2 d hd)).2.2.1 hp).1

theorem DeclsOK.namespace_lt (he : EnvFacts env) {decls : List (Nat × Nat)} (h : DeclsOK env decls)
    {d : Nat × Nat} (hd : d ∈ decls) : d.2 < env.namespaces.length := by
  by_cases hp : d.2 = Env.noNamespace
  · rw [hp]; exact he.noNamespace_lt
  · exact EnvFacts.namespace_lt_of_ne ((valueOK_namespace_facts (h.2 d hd)).2.2.2 hp)

/-- The declared prefixes are pairwise different as strings too. -/
theorem DeclsOK.keys_nodup (he : EnvFacts env) {decls : List (Nat × Nat)} (h : DeclsOK env decls) :
    ((decls.map (declStr env)).map Prod.fst).Nodup := by
  rw [List.map_map]
  have : (Prod.fst ∘ declStr env) = (fun d : Nat × Nat => env.prefixStr d.1) := rfl
  rw [this]
  have h1 : (decls.map Prod.fst).Nodup := h.1
  have := nodup_map_of_inj_on env.prefixStr (l := decls.map Prod.fst) (fun a ha b hb hab => by
    obtain ⟨da, hda, rfl⟩ := List.mem_map.mp ha
    obtain ⟨db, hdb, rfl⟩ := List.mem_map.mp hb
    exact he.prefixStr_inj (h.prefix_lt he hda) (h.prefix_lt he hdb) hab) h1
  simpa [List.map_map, Function.comp_def] using this

/-- A declaration of a `nodeOK` tree is none of those `DocumentBuilder::prefix` refuses. -/
theorem valueOK_namespace_not_reserved (he : EnvFacts env) {p ns : Nat}
    (h : valueOK env (.namespace p ns) = true) :
    reservedDecl (env.prefixStr p) (env.namespaceStr ns) = false := by
  obtain ⟨_, hnx, hpfx, hnsne⟩ := valueOK_namespace_facts h
  have hxmlns : env.namespaceStr ns ≠ xmlnsNamespaceUri := by
    simp only [valueOK, Bool.and_eq_true, bne_iff_ne, ne_eq] at h
    exact h.1.1.1.2
  have hnotXmlUri : env.namespaceStr ns ≠ xmlNamespaceUri := by
    intro heq
    have hlt : ns < env.namespaces.length :=
      EnvFacts.namespace_lt_of_ne (by rw [heq]; decide)
    have h1 : env.namespaceStr ns = env.namespaceStr Env.xmlNamespace := by rw [heq, he.ns1]; rfl
    exact hnx (he.namespaceStr_inj hlt he.xmlNamespace_lt h1)
  have hpx : env.prefixStr p ≠ xmlnsName := by
    by_cases hp : p = Env.emptyPrefix
    · rw [hp, he.p0]; decide
    · exact (hpfx hp).2.1
  have hundecl : ¬ (env.prefixStr p ≠ [] ∧ env.namespaceStr ns = []) := by
    rintro ⟨hp1, hu⟩
    have hp : p ≠ Env.emptyPrefix := fun hp => hp1 (by rw [hp, he.p0])
    exact hnsne (hpfx hp).2.2 hu
  have e1 : (env.prefixStr p == ['x', 'm', 'l', 'n', 's']) = false := by simpa [xmlnsName] using hpx
  have e2 : (env.namespaceStr ns == xmlNamespaceUri) = false := by simpa using hnotXmlUri
  have e3 : (env.namespaceStr ns == xmlnsNamespaceUri) = false := by simpa using hxmlns
  simp only [reservedDecl, e1, e2, e3, Bool.and_false, Bool.or_false, Bool.false_or]
  by_cases hp1 : env.prefixStr p = []
  · simp [hp1]
  · have hu : env.namespaceStr ns ≠ [] := fun hu => hundecl ⟨hp1, hu⟩
    have : (env.namespaceStr ns).isEmpty = false := by simpa using hu
    simp [this]

theorem DeclsOK.not_reserved (he : EnvFacts env) {decls : List (Nat × Nat)} (h : DeclsOK env decls) :
    ∀ d ∈ decls.map (declStr env), reservedDecl d.1 d.2 = false := by
  intro d hd
  obtain ⟨x, hx, rfl⟩ := List.mem_map.mp hd
  exact valueOK_namespace_not_reserved he (h.2 x hx)

theorem lookupFrames_cons (decls : List (Nat × Nat)) (fs : Frames) (p : Nat) :
    lookupFrames (decls :: fs) p =
      match List.lookup p decls with
      | some n => some n
      | none => lookupFrames fs p := rfl

theorem nodup_reverse_gen {α : Type} {l : List α} : l.reverse.Nodup ↔ l.Nodup := by
  unfold List.Nodup
  rw [List.pairwise_reverse]
  constructor <;> exact fun h => h.imp (fun hne he => hne he.symm)

theorem lookupFrames_base {p n : Nat} (h : lookupFrames [basePrefixes] p = some n) :
    p = Env.xmlPrefix ∧ n = Env.xmlNamespace := by
  by_cases hp : (p == Env.xmlPrefix) = true
  · simp only [lookupFrames, basePrefixes, List.lookup, hp, Option.some.injEq] at h
    exact ⟨by simpa using hp, h.symm⟩
  · simp [lookupFrames, basePrefixes, List.lookup, hp] at h

/-- The scope at the outset. -/
theorem ScopeRel.base (he : EnvFacts env) :
    ScopeRel env (FStack.new basePrefixes) [basePrefixes] baseScope := by
  have hu : UniquePrefixes basePrefixes := by simp [UniquePrefixes, basePrefixes]
  refine ⟨StackInv.base _ hu, by simp [lookupFrames, basePrefixes], ?_, ?_, ?_, ?_⟩
  · intro p n hl
    rw [(lookupFrames_base hl).1]; exact he.xmlPrefix_lt
  · intro p n hl
    rw [(lookupFrames_base hl).2]; exact he.xmlNamespace_lt
  · intro p n hl
    rw [(lookupFrames_base hl).1, he.p1]; simp [xmlnsName]
  · intro p hp
    by_cases h0 : p = Env.emptyPrefix
    · subst h0
      rw [he.p0]
      simp [baseScope, lookupFrames, basePrefixes, Env.emptyPrefix, Env.xmlPrefix]
    · by_cases h1 : p = Env.xmlPrefix
      · subst h1
        rw [he.p1]
        simp [baseScope, lookupFrames, basePrefixes, List.lookup, he.ns1]
      · have hne0 : env.prefixStr p ≠ [] := fun h => h0 (he.prefixStr_inj hp he.emptyPrefix_lt (by rw [h, he.p0]))
        have hne1 : env.prefixStr p ≠ ['x', 'm', 'l'] := fun h =>
          h1 (he.prefixStr_inj hp he.xmlPrefix_lt (by rw [h, he.p1]))
        have hb : (p == Env.xmlPrefix) = false := by simpa using h1
        simp only [baseScope, lookupFrames, basePrefixes, List.lookup, hb, h0, if_false]
        have b0 : (env.prefixStr p == ([] : Str)) = false := by simpa using hne0
        have b1 : (env.prefixStr p == ['x', 'm', 'l']) = false := by simpa using hne1
        simp [b0, b1]

/-- `push` of an element's declarations keeps the relation. -/
theorem ScopeRel.push (he : EnvFacts env) {s : FStack} {fs : Frames} {sc : Scope}
    (h : ScopeRel env s fs sc) {decls : List (Nat × Nat)} (hd : DeclsOK env decls) :
    ScopeRel env (s.push decls) (decls :: fs) (sc.push (decls.map (declStr env))) := by
  have hmem : ∀ p n, List.lookup p decls = some n → (p, n) ∈ decls := fun p n hl =>
    (lookup_some_iff hd.1 p n).mp hl
  refine ⟨h.inv.push' hd.1, ?_, ?_, ?_, ?_, ?_⟩
  · rw [lookupFrames_cons]
    have : List.lookup Env.xmlPrefix decls = none := by
      rw [lookup_none_iff]
      intro hm
      obtain ⟨d, hd', hd1⟩ := List.mem_map.mp hm
      exact (valueOK_namespace_facts (hd.2 d hd')).1 hd1
    rw [this]; exact h.xmlBound
  · intro p n hl
    rw [lookupFrames_cons] at hl
    cases hq : List.lookup p decls with
    | some m => exact hd.prefix_lt he (hmem p m hq)
    | none => rw [hq] at hl; exact h.valid p n hl
  · intro p n hl
    rw [lookupFrames_cons] at hl
    cases hq : List.lookup p decls with
    | some m =>
      rw [hq] at hl
      exact (Option.some.inj hl) ▸ hd.namespace_lt he (hmem p m hq)
    | none => rw [hq] at hl; exact h.validNs p n hl
  · intro p n hl
    rw [lookupFrames_cons] at hl
    cases hq : List.lookup p decls with
    | some m =>
      have hv := valueOK_namespace_facts (hd.2 _ (hmem p m hq))
      by_cases hp : p = Env.emptyPrefix
      · rw [hp, he.p0]; simp [xmlnsName]
      · exact (hv.2.2.1 hp).2.1
    | none => rw [hq] at hl; exact h.notXmlns p n hl
  · intro p hp
    have hkeys := hd.keys_nodup he
    have hkeys' : (((decls.map (declStr env)).reverse).map Prod.fst).Nodup := by
      rw [List.map_reverse]; exact nodup_reverse_gen.mpr hkeys
    simp only [Scope.push, List.lookup_append, lookupFrames_cons]
    cases hq : List.lookup p decls with
    | some m =>
      have hin : (env.prefixStr p, env.namespaceStr m) ∈ (decls.map (declStr env)).reverse :=
        List.mem_reverse.mpr (List.mem_map.mpr ⟨(p, m), hmem p m hq, rfl⟩)
      rw [(lookup_some_iff_mem hkeys' _ _).mpr hin]
      rfl
    | none =>
      have hnot : p ∉ decls.map Prod.fst := (lookup_none_iff p decls).mp hq
      have : ((decls.map (declStr env)).reverse).lookup (env.prefixStr p) = none := by
        rw [lookup_none_iff_not_mem]
        intro hm
        obtain ⟨x, hx, hx1⟩ := List.mem_map.mp hm
        obtain ⟨d, hd', rfl⟩ := List.mem_map.mp (List.mem_reverse.mp hx)
        have : d.1 = p := he.prefixStr_inj (hd.prefix_lt he hd') hp hx1
        exact hnot (this ▸ List.mem_map_of_mem (f := Prod.fst) hd')
      rw [this]
      simpa using h.look p hp

theorem ScopeRel.reserved {s : FStack} {fs : Frames} {sc : Scope} (h : ScopeRel env s fs sc) :
    XmlPrefixReserved fs := by
  intro n hn
  rw [h.xmlBound] at hn
  exact (Option.some.inj hn).symm

/-- A prefix id the frames bind, or `xml`, resolves in the string scope. -/
theorem ScopeRel.resolvePrefix (he : EnvFacts env) {s : FStack} {fs : Frames} {sc : Scope}
    (h : ScopeRel env s fs sc) {q ns : Nat} (hr : resolvePrefix fs q = some ns) :
    sc.lookup (env.prefixStr q) = some (env.namespaceStr ns) ∧ q < env.prefixes.length ∧
      env.prefixStr q ≠ xmlnsName ∧ ns < env.namespaces.length := by
  unfold Props.resolvePrefix at hr
  by_cases hq : (q == Env.xmlPrefix) = true
  · have hq' : q = Env.xmlPrefix := by simpa using hq
    simp only [hq, if_true, Option.some.injEq] at hr
    subst hr hq'
    refine ⟨?_, he.xmlPrefix_lt, by rw [he.p1]; simp [xmlnsName], he.xmlNamespace_lt⟩
    rw [h.look _ he.xmlPrefix_lt, h.xmlBound]
  · simp only [hq, Bool.false_eq_true, if_false] at hr
    have hv := h.valid q ns hr
    refine ⟨?_, hv, h.notXmlns q ns hr, h.validNs q ns hr⟩
    rw [h.look q hv, hr]

/-- Element names: the prefix text the serialiser writes resolves to the URI of the name's
    namespace in the string scope (the element's own declarations pushed). -/
theorem ScopeRel.element (he : EnvFacts env) {s : FStack} {fs : Frames} {sc : Scope}
    (h : ScopeRel env s fs sc) {name : Nat} {p : Option Nat} (hp : s.elementPrefix env name = .ok p)
    (hcheck : ¬ (env.nsOfName name = Env.noNamespace ∧ s.hasDefaultNamespace = true)) :
    sc.lookup (prefixText env p) = some (env.namespaceStr (env.nsOfName name)) ∧
      env.nsOfName name < env.namespaces.length := by
  have hres := sound_prefix env s fs name p h.inv h.reserved hp hcheck
  cases p with
  | none =>
    simp only [resolveElementName, Option.some.injEq] at hres
    simp only [prefixText]
    have := h.look Env.emptyPrefix he.emptyPrefix_lt
    rw [he.p0] at this
    rw [this, ← hres]
    cases hl : lookupFrames fs Env.emptyPrefix with
    | none => exact ⟨by simp [he.ns0], he.noNamespace_lt⟩
    | some n => exact ⟨rfl, h.validNs _ n hl⟩
  | some q =>
    simp only [resolveElementName] at hres
    exact ⟨(h.resolvePrefix he hres).1, (h.resolvePrefix he hres).2.2.2⟩

/-- Attribute names. -/
theorem ScopeRel.attribute (he : EnvFacts env) {s : FStack} {fs : Frames} {sc : Scope}
    (h : ScopeRel env s fs sc) {name : Nat} {p : Option Nat} (hp : s.attributePrefix env name = .ok p) :
    sc.attrNs (prefixText env p) = env.namespaceStr (env.nsOfName name) ∧
      (prefixText env p ≠ [] → (sc.lookup (prefixText env p)).isSome = true) ∧
      prefixText env p ≠ xmlnsName ∧
      (prefixText env p = [] → env.nsOfName name = Env.noNamespace) ∧
      (prefixText env p = ['x', 'm', 'l'] → env.nsOfName name = Env.xmlNamespace) ∧
      env.nsOfName name < env.namespaces.length := by
  obtain ⟨hres, hne⟩ := sound_attribute env s fs name p h.inv h.reserved hp
  cases p with
  | none =>
    simp only [resolveAttributeName, Option.some.injEq] at hres
    simp only [prefixText, Scope.attrNs, if_true, ← hres, he.ns0]
    refine ⟨trivial, fun hh => absurd rfl hh, by simp [xmlnsName], fun _ => trivial, fun hh => (by cases hh),
      he.noNamespace_lt⟩
  | some q =>
    simp only [resolveAttributeName] at hres
    obtain ⟨hl, hq, hx, hnslt⟩ := h.resolvePrefix he hres
    have hq0 : q ≠ Env.emptyPrefix := fun hh => hne (by rw [hh])
    have hstr : env.prefixStr q ≠ [] := fun hh =>
      hq0 (he.prefixStr_inj hq he.emptyPrefix_lt (by rw [hh, he.p0]))
    refine ⟨?_, fun _ => by simp [prefixText, hl], hx, fun hh => absurd hh hstr, fun hh => ?_, hnslt⟩
    · simp only [prefixText, Scope.attrNs, hstr, if_false, Scope.resolve, hl, Option.getD_some]
    have hq1 : q = Env.xmlPrefix := he.prefixStr_inj hq he.xmlPrefix_lt (by rw [he.p1]; exact hh)
    subst hq1
    simp only [Props.resolvePrefix, beq_self_eq_true, if_true, Option.some.injEq] at hres
    exact hres.symm

end XotModel
