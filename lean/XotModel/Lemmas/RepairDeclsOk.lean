/-
  `create_missing_prefixes_for_element` keeps the hypotheses of `C10_names_resolve_in_tokens`
  (Lemmas/SerResolveCorr / SerResolveTree), for EVERY tree:
    * `EnvStrings`: the call only appends prefix strings `n<k>` that were not in the table — pairwise different
      strings stay pairwise different, and `n` + decimal digits holds no `:` and no `=`;
    * `DeclsOkBelow` / `DeclsOk` of the bindings in scope: the declarations it inserts are `xmlns=""` and
      prefixes that `add_prefix` has just registered and that are bound nowhere in scope of the element — so
      they are registered and are not the `xml` prefix (which is always in scope).
  Family prefix `rdo_`.
-/
import XotModel.Lemmas.RepairBridge
import XotModel.Lemmas.RepairUnique
import XotModel.Lemmas.RepairRepresentable
import XotModel.Lemmas.SerResolveTree
import XotModel.Lemmas.Scope10Sound

namespace XotModel.Repair
open XotModel XotModel.SerResolve

/-! ### The strings the call registers -/

theorem rdo_addPrefix_prefixes (env : Env) (s : Str) :
    (env.addPrefix s).1.prefixes = env.prefixes ∨ (env.addPrefix s).1.prefixes = env.prefixes ++ [s] := by
  unfold Env.addPrefix
  cases env.prefixes.findIdx? (· == s) with
  | some i => exact Or.inl rfl
  | none => exact Or.inr rfl

theorem rdo_freshPrefix_new (used : List Nat) : ∀ (fuel : Nat) (env : Env) (c : Nat) (env1 : Env) (p c1 : Nat),
    freshPrefix used fuel env c = some (env1, p, c1) →
      ∀ s ∈ env1.prefixes, s ∈ env.prefixes ∨ IsGenerated s
  | 0, _, _, _, _, _, h => by simp [freshPrefix] at h
  | fuel + 1, env, c, env1, p, c1, h => by
    have hadd : ∀ s ∈ (env.addPrefix (generatedPrefixName c)).1.prefixes, s ∈ env.prefixes ∨ IsGenerated s := by
      intro s hs
      rcases rdo_addPrefix_prefixes env (generatedPrefixName c) with h1 | h1
      · rw [h1] at hs; exact Or.inl hs
      · rw [h1, List.mem_append, List.mem_singleton] at hs
        rcases hs with hs | rfl
        · exact Or.inl hs
        · exact Or.inr ⟨c, rfl⟩
    simp only [freshPrefix] at h
    split at h
    · simp only [Option.some.injEq, Prod.mk.injEq] at h
      obtain ⟨rfl, _, _⟩ := h
      exact hadd
    · intro s hs
      rcases rdo_freshPrefix_new used fuel _ _ env1 p c1 h s hs with h1 | h1
      · exact hadd s h1
      · exact Or.inr h1

theorem rdo_assignPrefixes_new : ∀ (M : List Nat) (env : Env) (used : List Nat) (c : Nat) (env' : Env)
    (nd : List (Nat × Nat)), assignPrefixes env used c M = some (env', nd) →
      ∀ s ∈ env'.prefixes, s ∈ env.prefixes ∨ IsGenerated s
  | [], env, used, c, env', nd, h => by
    simp only [assignPrefixes, Option.some.injEq, Prod.mk.injEq] at h
    obtain ⟨rfl, _⟩ := h
    exact fun s hs => Or.inl hs
  | ns :: M, env, used, c, env', nd, h => by
    simp only [assignPrefixes] at h
    cases hf : freshPrefix used (used.length + 1) env c with
    | none => simp [hf] at h
    | some r =>
      obtain ⟨env1, p, c1⟩ := r
      simp only [hf] at h
      cases ha : assignPrefixes env1 (p :: used) c1 M with
      | none => simp [ha] at h
      | some r2 =>
        obtain ⟨env2, l⟩ := r2
        simp only [ha, Option.some.injEq, Prod.mk.injEq] at h
        obtain ⟨rfl, _⟩ := h
        intro s hs
        rcases rdo_assignPrefixes_new M env1 (p :: used) c1 env2 l ha s hs with h1 | h1
        · exact rdo_freshPrefix_new used _ env c env1 p c1 hf s h1
        · exact Or.inr h1

/-- A decimal digit is neither `:` nor `=`. -/
theorem rdo_digit_lex {c : Char} (h : c.isDigit = true) : c ≠ ':' ∧ c ≠ '=' := by
  simp only [Char.isDigit, Bool.and_eq_true, decide_eq_true_eq] at h
  have h2 : c.toNat ≤ 57 := by
    have := h.2
    rw [UInt32.le_iff_toNat_le] at this
    exact this
  constructor
  · intro hc; subst hc; revert h2; decide
  · intro hc; subst hc; revert h2; decide

theorem rdo_lexOk_generated {s : Str} (h : IsGenerated s) : lexOk s = true := by
  obtain ⟨k, rfl⟩ := h
  rw [lexOk_iff]
  simp only [generatedPrefixName, List.mem_cons]
  constructor
  · rintro (h | h)
    · revert h; decide
    · exact (rdo_digit_lex (Nat.isDigit_of_mem_toDigits (by decide) (by decide) h)).1 rfl
  · rintro (h | h)
    · revert h; decide
    · exact (rdo_digit_lex (Nat.isDigit_of_mem_toDigits (by decide) (by decide) h)).2 rfl

/-- `EnvStrings` survives a growth of the prefix table by generated strings. -/
theorem rdo_envStrings_ext {env env' : Env} (h : EnvStrings env) (hx : PrefixExt env env')
    (hnew : ∀ s ∈ env'.prefixes, s ∈ env.prefixes ∨ IsGenerated s) : EnvStrings env' := by
  have hlex := h.lexical
  simp only [NamesLexical, Bool.and_eq_true, List.all_eq_true] at hlex
  refine ⟨hx.nodup h.nodup, hx.getElem? h.empty, hx.getElem? h.xml, ?_, ?_, ?_⟩
  · rw [hx.namespaceStr]; exact h.noNs
  · rw [hx.namespaceStr]; exact h.xmlNs
  · simp only [NamesLexical, Bool.and_eq_true, List.all_eq_true]
    refine ⟨fun s hs => ?_, fun n hn => hlex.2 n (by rw [← hx.names]; exact hn)⟩
    rcases hnew s hs with h1 | h1
    · exact hlex.1 s h1
    · exact rdo_lexOk_generated h1

/-! ### A predicate on the declaration list of every node, as a recursion over the tree -/

section PRec
variable (P : List (Nat × Nat) → Prop)

mutual
def rdo_PRec : Tree → Prop
  | .node v ks => P (frameOf (.node v ks)) ∧ rdo_PKids ks
def rdo_PKids : List Tree → Prop
  | [] => True
  | k :: ks => rdo_PRec k ∧ rdo_PKids ks
end

mutual
theorem rdo_prec_of_below : ∀ (t : Tree), (∀ rel n', t.at? rel = some n' → P (frameOf n')) → rdo_PRec P t
  | .node v ks, h => ⟨h [] _ rfl, rdo_pkids_of_below ks (fun i k hk rel n' hn =>
      h (i :: rel) n' (by rw [at?_cons, hk]; exact hn))⟩
theorem rdo_pkids_of_below : ∀ (ks : List Tree),
    (∀ (i : Nat) (k : Tree), ks[i]? = some k → ∀ rel n', k.at? rel = some n' → P (frameOf n')) → rdo_PKids P ks
  | [], _ => trivial
  | k :: ks, h => ⟨rdo_prec_of_below k (h 0 k rfl),
      rdo_pkids_of_below ks (fun i k' hk => h (i + 1) k' (by simpa using hk))⟩
end

theorem rdo_pkids_get : ∀ (ks : List Tree), rdo_PKids P ks → ∀ (i : Nat) (k : Tree), ks[i]? = some k → rdo_PRec P k
  | [], _, i, k, hk => by simp at hk
  | k0 :: ks, h, 0, k, hk => by
    simp only [List.getElem?_cons_zero, Option.some.injEq] at hk
    subst hk
    exact h.1
  | k0 :: ks, h, i + 1, k, hk => rdo_pkids_get ks h.2 i k (by simpa using hk)

theorem rdo_below_of_prec : ∀ (rel : Path) (t : Tree), rdo_PRec P t → ∀ n', t.at? rel = some n' → P (frameOf n')
  | [], .node v ks, h, n', hn => by
    simp only [Tree.at?, Option.some.injEq] at hn
    subst hn
    exact h.1
  | i :: rel, .node v ks, h, n', hn => by
    rw [at?_cons] at hn
    cases hk : ks[i]? with
    | none => simp [hk] at hn
    | some k =>
      simp only [hk, Option.bind_some] at hn
      exact rdo_below_of_prec rel k (rdo_pkids_get P ks h.2 i k hk) n' hn

variable {P}

theorem rdo_pkids_insertNsKid (h0 : P []) (p ns : Nat) :
    ∀ (ks : List Tree), rdo_PKids P ks → rdo_PKids P (insertNsKid p ns ks)
  | [], _ => by
    simp only [insertNsKid, rdo_PKids, rdo_PRec, and_true]
    simpa [frameOf, Tree.value] using h0
  | k :: ks, h => by
    cases k with
    | node kv kk =>
      simp only [rdo_PKids] at h
      cases kv with
      | «namespace» q m =>
        simp only [insertNsKid, Tree.value]
        by_cases hq : (q == p) = true
        · simp only [hq, if_true, rdo_PKids, Tree.kids]
          refine ⟨?_, h.2⟩
          have := h.1
          simp only [rdo_PRec] at this ⊢
          exact ⟨by simpa [frameOf, Tree.value] using h0, this.2⟩
        · simp only [hq, Bool.false_eq_true, if_false, rdo_PKids]
          exact ⟨h.1, rdo_pkids_insertNsKid h0 p ns ks h.2⟩
      | _ =>
        simp only [insertNsKid, Tree.value, rdo_PKids]
        exact ⟨⟨by simpa [frameOf, Tree.value] using h0, trivial⟩, h.1, h.2⟩

theorem rdo_prec_insertNamespace (h0 : P []) (p ns : Nat) (hins : ∀ d, P d → P (insertDecl p ns d))
    (t : Tree) (h : rdo_PRec P t) : rdo_PRec P (insertNamespace p ns t) := by
  cases t with
  | node v ks =>
    simp only [insertNamespace, rdo_PRec] at h ⊢
    refine ⟨?_, rdo_pkids_insertNsKid h0 p ns ks h.2⟩
    rw [frameOf_node] at h ⊢
    split
    · rename_i hv
      simp only [hv, if_true] at h
      rw [declsOfKids_insertNsKid]
      exact hins _ h.1
    · exact h0

theorem rdo_prec_insertNamespaces (h0 : P []) (nd : List (Nat × Nat))
    (hins : ∀ x ∈ nd, ∀ d, P d → P (insertDecl x.1 x.2 d)) (t : Tree) (h : rdo_PRec P t) :
    rdo_PRec P (insertNamespaces nd t) := by
  unfold insertNamespaces
  induction nd generalizing t with
  | nil => exact h
  | cons x nd ih =>
    simp only [List.foldl_cons]
    exact ih (fun y hy => hins y (by simp [hy])) _
      (rdo_prec_insertNamespace h0 x.1 x.2 (hins x (by simp)) t h)

mutual
theorem rdo_prec_rebuild (h0 : P []) (nsOf : Nat → Nat) (nd : List (Nat × Nat))
    (hins : ∀ x ∈ nd, ∀ d, P d → P (insertDecl x.1 x.2 d))
    (hund : ∀ d, P d → P (insertDecl Env.emptyPrefix Env.noNamespace d)) : ∀ (x : Tree) (b : Bool)
    (top : List (Nat × Nat)), rdo_PRec P x → rdo_PRec P (rebuild nsOf nd b top x)
  | .node v ks, b, top, h => by
    have hbase : ∀ top', rdo_PRec P (.node v (rebuildKids nsOf nd top' ks)) := by
      intro top'
      simp only [rdo_PRec] at h ⊢
      exact ⟨by rw [frameOf_congr (map_value_rebuildKids nsOf nd top' ks)]; exact h.1,
        rdo_pkids_rebuildKids h0 nsOf nd hins hund ks top' h.2⟩
    by_cases hv : v.isElement = true
    · cases v <;> simp [Value.isElement] at hv
      rename_i name
      simp only [rebuild]
      split <;> split <;>
        first
          | exact rdo_prec_insertNamespace h0 _ _ hund _ (rdo_prec_insertNamespaces h0 _ hins _ (hbase _))
          | exact rdo_prec_insertNamespace h0 _ _ hund _ (hbase _)
          | exact rdo_prec_insertNamespaces h0 _ hins _ (hbase _)
          | exact hbase _
    · rw [rebuild_other nsOf nd b top v ks (by simpa using hv)]
      split
      · exact rdo_prec_insertNamespaces h0 _ hins _ (hbase _)
      · exact hbase _
theorem rdo_pkids_rebuildKids (h0 : P []) (nsOf : Nat → Nat) (nd : List (Nat × Nat))
    (hins : ∀ x ∈ nd, ∀ d, P d → P (insertDecl x.1 x.2 d))
    (hund : ∀ d, P d → P (insertDecl Env.emptyPrefix Env.noNamespace d)) : ∀ (ks : List Tree)
    (top : List (Nat × Nat)), rdo_PKids P ks → rdo_PKids P (rebuildKids nsOf nd top ks)
  | [], _, _ => by simp [rebuildKids, rdo_PKids]
  | k :: ks, top, h => by
    simp only [rdo_PKids] at h
    simp only [rebuildKids, rdo_PKids]
    exact ⟨rdo_prec_rebuild h0 nsOf nd hins hund k false top h.1,
      rdo_pkids_rebuildKids h0 nsOf nd hins hund ks top h.2⟩
end

end PRec

/-! ### `DeclsOk` -/

theorem rdo_mem_insertDecl (p ns : Nat) : ∀ (D : List (Nat × Nat)) (x : Nat × Nat),
    x ∈ insertDecl p ns D → x ∈ D ∨ x = (p, ns)
  | [], x, h => by simp only [insertDecl, List.mem_singleton] at h; exact Or.inr h
  | (q, m) :: rest, x, h => by
    simp only [insertDecl] at h
    split at h
    · rename_i hq
      have : q = p := by simpa using hq
      subst this
      rcases List.mem_cons.mp h with rfl | h
      · exact Or.inr rfl
      · exact Or.inl (List.mem_cons_of_mem _ h)
    · rcases List.mem_cons.mp h with rfl | h
      · exact Or.inl (by simp)
      · rcases rdo_mem_insertDecl p ns rest x h with h1 | h1
        · exact Or.inl (List.mem_cons_of_mem _ h1)
        · exact Or.inr h1

theorem rdo_declsOk_insertDecl {env : Env} (p ns : Nat) (hp : p < env.prefixes.length)
    (hx : p = Env.xmlPrefix → ns = Env.xmlNamespace) (d : List (Nat × Nat)) (hd : DeclsOk env d) :
    DeclsOk env (insertDecl p ns d) := by
  intro x hxm
  rcases rdo_mem_insertDecl p ns d x hxm with h | rfl
  · exact hd x h
  · exact ⟨hp, hx⟩

theorem rdo_declsOk_ext {env env' : Env} (hx : PrefixExt env env') {d : List (Nat × Nat)} (hd : DeclsOk env d) :
    DeclsOk env' d := by
  obtain ⟨e, he⟩ := hx.ext
  intro x hxm
  obtain ⟨h1, h2⟩ := hd x hxm
  exact ⟨by rw [he, List.length_append]; omega, h2⟩

theorem rdo_lookup_mem {l : List (Nat × Nat)} {p n : Nat} (h : l.lookup p = some n) : (p, n) ∈ l := by
  induction l with
  | nil => simp at h
  | cons a l ih =>
    obtain ⟨q, m⟩ := a
    simp only [List.lookup] at h
    split at h
    · rename_i hq
      have : p = q := by simpa using hq
      subst this
      simp only [Option.some.injEq] at h
      subst h
      simp
    · exact List.mem_cons_of_mem _ (ih h)

/-- The `xml` prefix is bound in every scope. -/
theorem rdo_xml_in_scope (chain : List Tree) : Env.xmlPrefix ∈ keys (namespacesInScopeChain chain) := by
  have : ∃ ns, scopeSpecChain chain Env.xmlPrefix = some ns := by
    induction chain with
    | nil => exact ⟨Env.xmlNamespace, by simp [scopeSpecChain]⟩
    | cons a rest ih =>
      simp only [scopeSpecChain]
      cases a.nsDecls.lookup Env.xmlPrefix with
      | none => exact ih
      | some ns => exact ⟨ns, by simp [Env.xmlPrefix, Env.emptyPrefix]⟩
  obtain ⟨ns, h⟩ := this
  exact mem_keys.mpr ⟨ns, (rs_mem_namespacesInScopeChain chain _ ns).mpr h⟩

/-- The bindings in scope at a node come from its own declarations or from the scope of its ancestors. -/
theorem rdo_scope_cons (a : Tree) (rest : List Tree) (x : Nat × Nat)
    (h : x ∈ namespacesInScopeChain (a :: rest)) : x ∈ a.nsDecls ∨ x ∈ namespacesInScopeChain rest := by
  obtain ⟨p, m⟩ := x
  have hs := (rs_mem_namespacesInScopeChain (a :: rest) p m).mp h
  simp only [scopeSpecChain] at hs
  cases hl : a.nsDecls.lookup p with
  | none =>
    simp only [hl] at hs
    exact Or.inr ((rs_mem_namespacesInScopeChain rest p m).mpr hs)
  | some ns =>
    simp only [hl] at hs
    split at hs
    · cases hs
    · simp only [Option.some.injEq] at hs
      subst hs
      exact Or.inl (rdo_lookup_mem hl)

/-! ### One call -/

/-- `create_missing_prefixes_for_element` keeps `EnvStrings`, `DeclsOkBelow` of the element and `DeclsOk` of
    the bindings in scope at it — for every tree. -/
theorem rdo_repairElement (env : Env) (henv : EnvStrings env) (t : Tree) (path : Path)
    (name : Nat) (ks : List Tree) (hat : t.at? path = some (.node (.element name) ks))
    (hdk : DeclsOkBelow env (.node (.element name) ks)) (hinh : DeclsOk env (inheritedDecls t path))
    (env' : Env) (t' : Tree) (h : repairElement env t path = .ok (env', t')) :
    EnvStrings env' ∧ ∃ E', t'.at? path = some E' ∧ E'.value = .element name ∧ DeclsOkBelow env' E' ∧
      ∀ inScope, namespacesInScope t' path = some inScope → DeclsOk env' inScope := by
  rw [repairElement_eq env t path _ hat] at h
  generalize hR : collectRec env.nsOfName (inheritedDecls t path) path (.node (.element name) ks) ⟨[], [], []⟩ = R at h
  cases ha : assignPrefixes env (R.used ++ ((namespacesInScope t path).getD []).map (·.1)) 0 R.missing with
  | none => rw [ha] at h; cases h
  | some r =>
    obtain ⟨env1, nd⟩ := r
    rw [ha] at h
    simp only [Outcome.ok.injEq, Prod.mk.injEq] at h
    obtain ⟨rfl, rfl⟩ := h
    obtain ⟨_, _, s3, _, _, _⟩ := assignPrefixes_spec _ _ _ _ _ _ ha
    obtain ⟨hext, hreg⟩ := assignPrefixes_ext _ _ _ _ _ _ ha
    have hnew := rdo_assignPrefixes_new _ _ _ _ _ _ ha
    have henv1 := rdo_envStrings_ext henv hext hnew
    obtain ⟨rest, hc⟩ := ancestorsOrSelf_of_at? t path _ hat
    have hscope : (namespacesInScope t path).getD [] =
        namespacesInScopeChain (.node (.element name) ks :: rest) := by
      simp [namespacesInScope, hc]
    -- the inserted pairs are fine for the grown table
    have hndOk : ∀ x ∈ nd, x.1 < env1.prefixes.length ∧ (x.1 = Env.xmlPrefix → x.2 = Env.xmlNamespace) := by
      intro x hx
      obtain ⟨s, hs, _⟩ := hreg x hx
      refine ⟨(List.getElem?_eq_some_iff.mp hs).1, fun hxml => ?_⟩
      exfalso
      apply s3 x.1 (mem_keys.mpr ⟨x.2, hx⟩)
      simp only [List.mem_append]
      right
      rw [hscope, hxml]
      exact rdo_xml_in_scope _
    have h0lt : Env.emptyPrefix < env1.prefixes.length := (List.getElem?_eq_some_iff.mp henv1.empty).1
    have hP0 : DeclsOk env1 [] := fun x hx => by cases hx
    have hrec : rdo_PRec (DeclsOk env1) (.node (.element name) ks) :=
      rdo_prec_of_below _ _ (fun rel n' hn => rdo_declsOk_ext hext (hdk rel n' hn))
    have hrec' := rdo_prec_rebuild hP0 env.nsOfName nd
      (fun x hx d hd => rdo_declsOk_insertDecl x.1 x.2 (hndOk x hx).1 (hndOk x hx).2 d hd)
      (fun d hd => rdo_declsOk_insertDecl _ _ h0lt (by intro hh; cases hh) d hd)
      (.node (.element name) ks) true (inheritedDecls t path) hrec
    have hdk' : DeclsOkBelow env1 (rebuild env.nsOfName nd true (inheritedDecls t path) (.node (.element name) ks)) :=
      fun rel n' hn => rdo_below_of_prec _ rel _ hrec' n' hn
    have hat' : (scopeModifyAt (fun _ => rebuild env.nsOfName nd true (inheritedDecls t path)
        (.node (.element name) ks)) t path).at? path =
          some (rebuild env.nsOfName nd true (inheritedDecls t path) (.node (.element name) ks)) := by
      rw [at?_scopeModifyAt, hat]; rfl
    have hval := value_rebuild env.nsOfName nd true (inheritedDecls t path) (.node (.element name) ks)
    refine ⟨henv1, _, hat', hval, hdk', ?_⟩
    intro inScope hs
    obtain ⟨rest', hc', hmap⟩ := ancestors_after
      (fun _ => rebuild env.nsOfName nd true (inheritedDecls t path) (.node (.element name) ks)) t path _ rest hat hc
      hval
    simp only [namespacesInScope, hc', Option.map_some, Option.some.injEq] at hs
    subst hs
    intro x hx
    rcases rdo_scope_cons _ rest' x hx with h1 | h1
    · have := hdk' [] _ rfl
      rw [show frameOf (rebuild env.nsOfName nd true (inheritedDecls t path) (.node (.element name) ks)) =
        (rebuild env.nsOfName nd true (inheritedDecls t path) (.node (.element name) ks)).nsDecls by
          unfold frameOf; rw [hval]; rfl] at this
      exact this x h1
    · rw [namespacesInScopeChain_congr rest' rest hmap, ← inheritedDecls_eq t path _ rest hc] at h1
      exact rdo_declsOk_ext hext hinh x h1

/-! ### The reserved prefix -/

theorem rdo_framesOk_along {env : Env} : ∀ (rel : Path) (n : Tree), DeclsOkBelow env n →
    FramesOk env (framesAlong n rel)
  | [], n, h => by
    intro f hf
    simp only [framesAlong, List.mem_singleton] at hf
    subst hf
    exact h [] n rfl
  | i :: rel, .node v ks, h => by
    intro f hf
    simp only [framesAlong, Tree.kids] at hf
    cases hk : ks[i]? with
    | none =>
      simp only [hk, List.mem_singleton] at hf
      subst hf
      exact h [] _ rfl
    | some k =>
      simp only [hk, List.mem_append, List.mem_singleton] at hf
      rcases hf with hf | rfl
      · exact rdo_framesOk_along rel k (h.kid hk) f hf
      · exact h [] _ rfl

/-- Declarations that do not rebind `xml`, below the start node and in scope at it: the frames of every
    event satisfy `XmlPrefixReserved`. -/
theorem rdo_xmlPrefixReserved {env : Env} (n : Tree) (inScope : List (Nat × Nat)) (hdk : DeclsOkBelow env n)
    (hin : DeclsOk env inScope) (rel : Path) : Props.XmlPrefixReserved (framesAlong n rel ++ [inScope]) := by
  have hok : FramesOk env (framesAlong n rel ++ [inScope]) := by
    intro f hf
    rcases List.mem_append.mp hf with hf | hf
    · exact rdo_framesOk_along rel n hdk f hf
    · rw [List.mem_singleton.mp hf]; exact hin
  exact fun m hl => (key_lt_of_lookupFrames hok hl).2 rfl

end XotModel.Repair
