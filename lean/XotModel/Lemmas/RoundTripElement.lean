/-
  Round trip for an ELEMENT start node that is the root of its own tree (a parentless element, e.g.
  the result of `clone_node` / `clone_with_prefixes`): `to_string(element)` writes exactly what
  `to_string` of a document node holding just that element writes, so the text parses back to that
  document (C01_roundtrip_identical).

  Why the two serialisations agree.  Document start: the stack is `[basePrefixes]` (the `xml`
  binding), and the element pushes its own declarations `D`: top frame `[xml] ++ D`.  Element start:
  `namespaces_in_scope(element)` is `D' ++ [xml]` (`D'` = `D` without `xmlns=""`), the stack starts
  as `[D' ++ [xml]]`, and the element pushes `D`: top frame `[xml] ++ D` again.  The frames below the
  top are never consulted (`serNode_congr`).  The start element moreover writes the in-scope
  declarations it does not declare itself: only the `xml` binding, which is never written
  (`declTokens` of it is `[]`).  No Forest notions here.
-/
import XotModel.Props.C01

namespace XotModel
open XotModel.Repair

variable {env : Env}

/-! ### `serNode` consults the stack only through its top frame, and `inScope` only at the start node -/

theorem rte_push_top_congr {s1 s2 : FStack} (h : s1.top = s2.top) (d : List (Nat × Nat)) :
    (s1.push d).top = (s2.push d).top := by
  rw [top_push, top_push, h]

theorem rte_attrTokens_congr {s1 s2 : FStack} (h : s1.top = s2.top) :
    ∀ (as : List (Nat × Str)), attrTokens env s1 as = attrTokens env s2 as
  | [] => rfl
  | (name, v) :: rest => by
    have hp : s1.attributePrefix env name = s2.attributePrefix env name := by
      unfold FStack.attributePrefix; rw [h]
    rw [attrTokens, attrTokens, hp, rte_attrTokens_congr h rest]

mutual
/-- Below the start node (`isTop = false`) the tokens do not depend on `inScope`, and they depend on
    the name stack only through its top frame. -/
theorem serNode_congr (ugt : Bool) (i1 i2 : List (Nat × Nat)) (n : Tree) (s1 s2 : FStack)
    (h : s1.top = s2.top) :
    serNode env ugt i1 false s1 n = serNode env ugt i2 false s2 n := by
  cases n with
  | node v ks =>
    have hk := serKids_congr ugt i1 i2 ks s1 s2 h
    cases v with
    | document => simpa [serNode] using hk
    | «attribute» a b => simpa [serNode] using hk
    | «namespace» a b => simpa [serNode] using hk
    | text str => rw [serNode, serNode, hk]
    | comment str => rw [serNode, serNode, hk]
    | pi target data => rw [serNode, serNode, hk]
    | element name =>
      have ht := rte_push_top_congr h (Tree.node (.element name) ks).nsDecls
      have hk' := serKids_congr ugt i1 i2 ks _ _ ht
      have hd : (s1.push (Tree.node (.element name) ks).nsDecls).hasDefaultNamespace =
          (s2.push (Tree.node (.element name) ks).nsDecls).hasDefaultNamespace := by
        unfold FStack.hasDefaultNamespace; rw [ht]
      have he : (s1.push (Tree.node (.element name) ks).nsDecls).elementPrefix env name =
          (s2.push (Tree.node (.element name) ks).nsDecls).elementPrefix env name := by
        unfold FStack.elementPrefix; rw [ht]
      have ha := rte_attrTokens_congr (env := env) ht (Tree.node (.element name) ks).attrs
      rw [serNode, serNode]
      simp only [hd, he, ha, hk', Bool.false_eq_true, if_false]

theorem serKids_congr (ugt : Bool) (i1 i2 : List (Nat × Nat)) (ks : List Tree) (s1 s2 : FStack)
    (h : s1.top = s2.top) :
    serNode.serKids env ugt i1 s1 ks = serNode.serKids env ugt i2 s2 ks := by
  cases ks with
  | nil => simp [serNode.serKids]
  | cons k ks =>
    rw [serNode.serKids, serNode.serKids, serNode_congr ugt i1 i2 k s1 s2 h,
      serKids_congr ugt i1 i2 ks s1 s2 h]
end

theorem rte_appendOk_nil (a : Except XotError (List Token)) : appendOk a (.ok []) = a := by
  cases a <;> simp [appendOk]

/-! ### The scope of a parentless element -/

/-- `xmlns=""` (dropped by `namespace_traverse`). -/
def rteUndecl (d : Nat × Nat) : Bool := (d.1 == Env.emptyPrefix) && (d.2 == Env.noNamespace)

/-- One pass over a declaration list with pairwise distinct, not yet seen prefixes. -/
theorem rte_traverseDecls_fresh (ds : List (Nat × Nat)) : ∀ (seen : List Nat),
    (ds.map Prod.fst).Nodup → (∀ p ∈ ds.map Prod.fst, p ∉ seen) →
    traverseDecls seen ds = (seen ++ ds.map Prod.fst, ds.filter (fun d => !rteUndecl d)) := by
  induction ds with
  | nil => intro seen _ _; simp [traverseDecls]
  | cons d ds ih =>
    intro seen hnd hns
    obtain ⟨p, n⟩ := d
    simp only [List.map_cons, List.nodup_cons] at hnd
    have hp : ¬ seen.contains p = true := by
      have := hns p (by simp)
      simpa using this
    rw [traverseDecls_cons_new seen p n ds hp, ih (seen ++ [p]) hnd.2 ?_]
    · by_cases hu : ((p == Env.emptyPrefix) && (n == Env.noNamespace)) = true
      · have hu' : rteUndecl (p, n) = true := hu
        simp only [hu, if_true, List.map_cons, List.filter_cons, hu', Bool.not_true, Bool.false_eq_true,
          if_false, List.append_assoc, List.singleton_append]
      · have hu' : rteUndecl (p, n) = false := by simpa [rteUndecl] using hu
        simp only [hu, List.map_cons, List.filter_cons, hu', Bool.not_false,
          if_true, List.append_assoc, List.singleton_append, Bool.false_eq_true, if_false]
    · intro q hq hqs
      rcases List.mem_append.mp hqs with h | h
      · exact hns q (by simp [hq]) h
      · simp only [List.mem_singleton] at h
        subst h
        exact hnd.1 hq

theorem rte_contains_false {l : List Nat} {p : Nat} (h : p ∉ l) : l.contains p = false := by
  cases hc : l.contains p with
  | false => rfl
  | true => exact absurd (by simpa using hc) h

theorem rte_any_false {D : List (Nat × Nat)} {p : Nat} (h : p ∉ D.map Prod.fst) :
    D.any (fun d => d.1 == p) = false := by
  cases hc : D.any (fun d => d.1 == p) with
  | false => rfl
  | true => exact absurd ((any_key_iff D p).mp hc) h

/-- `namespaces_in_scope` of a parentless node: its own declarations (without `xmlns=""`), then `xml`. -/
theorem rte_inScope_single (t : Tree) (hnd : (t.nsDecls.map Prod.fst).Nodup)
    (hx : Env.xmlPrefix ∉ t.nsDecls.map Prod.fst) :
    namespacesInScopeChain [t] = t.nsDecls.filter (fun d => !rteUndecl d) ++ basePrefixes := by
  unfold namespacesInScopeChain traverseChain
  rw [rte_traverseDecls_fresh t.nsDecls [] hnd (fun _ _ h => by cases h)]
  simp only [traverseChain, List.nil_append, List.append_nil]
  congr 1
  have hc := rte_contains_false hx
  apply List.filter_eq_self.mpr
  intro a ha
  simp only [basePrefixes, List.mem_singleton] at ha
  subst ha
  show (!(List.map Prod.fst t.nsDecls).contains Env.xmlPrefix) = true
  rw [hc]; rfl

theorem rte_filter_append_base {α : Type} (q : α → Bool) (a b : List α) (ha : ∀ x ∈ a, q x = false)
    (hb : ∀ x ∈ b, q x = true) : (a ++ b).filter q = b := by
  rw [List.filter_append, List.filter_eq_nil_iff.mpr (fun x hx => by simp [ha x hx]),
    List.filter_eq_self.mpr hb, List.nil_append]

theorem rte_any_fst (D : List (Nat × Nat)) (p : Nat) :
    (D.any (fun d => d.1 == p)) = true ↔ p ∈ D.map Prod.fst := any_key_iff D p

/-- `FullnameInfo::new(D, D' ++ [xml])` = `[xml] ++ D`. -/
theorem rte_fullnameInfoNew_own (D : List (Nat × Nat)) (hx : Env.xmlPrefix ∉ D.map Prod.fst) :
    fullnameInfoNew D (D.filter (fun d => !rteUndecl d) ++ basePrefixes) = basePrefixes ++ D := by
  unfold fullnameInfoNew
  congr 1
  apply rte_filter_append_base
  · intro x hx'
    have hm : x.1 ∈ D.map Prod.fst := List.mem_map_of_mem (List.mem_filter.mp hx').1
    have := (rte_any_fst D x.1).mpr hm
    obtain ⟨p, n⟩ := x
    simpa using this
  · intro x hx'
    simp only [basePrefixes, List.mem_singleton] at hx'
    subst hx'
    show (!D.any (fun d => d.1 == Env.xmlPrefix)) = true
    rw [rte_any_false hx]; rfl

theorem rte_fullnameInfoNew_base (D : List (Nat × Nat)) (hx : Env.xmlPrefix ∉ D.map Prod.fst) :
    fullnameInfoNew D basePrefixes = basePrefixes ++ D := by
  have := rte_filter_append_base (fun (x : Nat × Nat) => !D.any (fun y => y.1 == x.1)) [] basePrefixes
    (fun _ h => by cases h) (fun x hx' => by
      simp only [basePrefixes, List.mem_singleton] at hx'
      subst hx'
      show (!D.any (fun d => d.1 == Env.xmlPrefix)) = true
      rw [rte_any_false hx]; rfl)
  unfold fullnameInfoNew
  congr 1

/-- The two start stacks have the same top frame once the element has pushed its declarations. -/
theorem rte_top_eq (D : List (Nat × Nat)) (hx : Env.xmlPrefix ∉ D.map Prod.fst) :
    ((FStack.new (D.filter (fun d => !rteUndecl d) ++ basePrefixes)).push D).top =
      ((FStack.new basePrefixes).push D).top := by
  rw [top_push, top_push]
  unfold Repair.pushTop
  by_cases hD : D.isEmpty = true
  · have : D = [] := by simpa using hD
    subst this
    simp [FStack.new, FStack.top]
  · simp only [hD, if_false, Bool.false_eq_true]
    simp only [FStack.new, FStack.top, List.headD_cons]
    rw [rte_fullnameInfoNew_own D hx, rte_fullnameInfoNew_base D hx]

/-- The in-scope declarations a parentless element does not declare itself: the `xml` binding. -/
theorem rte_extra (t : Tree) (hx : Env.xmlPrefix ∉ t.nsDecls.map Prod.fst) :
    (t.nsDecls.filter (fun d => !rteUndecl d) ++ basePrefixes).filter (fun d => !t.declaresPrefix d.1) =
      basePrefixes := by
  apply rte_filter_append_base
  · intro x hx'
    have hm : x.1 ∈ t.nsDecls.map Prod.fst := List.mem_map_of_mem (List.mem_filter.mp hx').1
    have := (rte_any_fst t.nsDecls x.1).mpr hm
    simp [Tree.declaresPrefix, this]
  · intro x hx'
    simp only [basePrefixes, List.mem_singleton] at hx'
    subst hx'
    show (!t.nsDecls.any (fun d => d.1 == Env.xmlPrefix)) = true
    rw [rte_any_false hx]; rfl

theorem rte_declTokens_base (l : List (Nat × Nat)) :
    (basePrefixes ++ l).flatMap (declTokens env) = l.flatMap (declTokens env) := by
  simp [basePrefixes, declTokens]

theorem rte_nsDecls_document_single (v : Value) (ks : List Tree) (hv : v.isElement = true) :
    (Tree.node .document [Tree.node v ks]).nsDecls = [] := by
  cases v <;> simp [Value.isElement] at hv
  simp [Tree.nsDecls, Tree.namespaceNodes, Tree.kids, Tree.value, Value.category]

/-! ### The tokens -/

/-- **The tokens of a parentless element are the tokens of the document holding just it**, for
    every element whose own declarations have pairwise distinct prefixes, none of them `xml`. -/
theorem serTokensAt_element_root (ugt : Bool) (name : Nat) (ks : List Tree)
    (hnd : ((Tree.node (.element name) ks).nsDecls.map Prod.fst).Nodup)
    (hx : Env.xmlPrefix ∉ (Tree.node (.element name) ks).nsDecls.map Prod.fst) :
    serTokensAt env ugt (.node (.element name) ks) [] =
      serTokensAt env ugt (.node .document [.node (.element name) ks]) [] := by
  have hdoc : namespacesInScopeChain [Tree.node .document [Tree.node (.element name) ks]] = basePrefixes := by
    have h0 := rte_nsDecls_document_single (.element name) ks rfl
    simp [namespacesInScopeChain, traverseChain, traverseDecls, h0, basePrefixes]
  have hel := rte_inScope_single (Tree.node (.element name) ks) hnd hx
  simp only [serTokensAt, Tree.at?, namespacesInScope, Tree.ancestorsOrSelf, Option.map_some, hdoc, hel]
  generalize hD : (Tree.node (.element name) ks).nsDecls = D at hnd hx
  have ht := rte_top_eq D hx
  have hR : serNode env ugt basePrefixes true (FStack.new basePrefixes)
      (.node .document [.node (.element name) ks]) =
      serNode env ugt basePrefixes false (FStack.new basePrefixes) (.node (.element name) ks) := by
    rw [serNode]
    show appendOk _ (.ok []) = _
    exact rte_appendOk_nil _
  rw [hR, serNode, serNode]
  simp only [hD]
  have hd : ((FStack.new (D.filter (fun d => !rteUndecl d) ++ basePrefixes)).push D).hasDefaultNamespace =
      ((FStack.new basePrefixes).push D).hasDefaultNamespace := by
    unfold FStack.hasDefaultNamespace; rw [ht]
  have he : ((FStack.new (D.filter (fun d => !rteUndecl d) ++ basePrefixes)).push D).elementPrefix env name =
      ((FStack.new basePrefixes).push D).elementPrefix env name := by
    unfold FStack.elementPrefix; rw [ht]
  have ha := rte_attrTokens_congr (env := env) ht (Tree.node (.element name) ks).attrs
  have hk := serKids_congr (env := env) ugt (D.filter (fun d => !rteUndecl d) ++ basePrefixes) basePrefixes ks _ _ ht
  have hextra := rte_extra (Tree.node (.element name) ks) (by rw [hD]; exact hx)
  rw [hD] at hextra
  simp only [hd, he, ha, hk, if_true, hextra, rte_declTokens_base, Bool.false_eq_true, if_false,
    List.nil_append]

/-! ### On the round-trip domain -/

/-- The declarations of a `nodeOK` element: pairwise distinct prefixes, none of them `xml`. -/
theorem rte_decls_of_nodeOK {name : Nat} {ks : List Tree}
    (hn : (Tree.node (.element name) ks).allNodes (nodeOK env) = true) :
    ((Tree.node (.element name) ks).nsDecls.map Prod.fst).Nodup ∧
      Env.xmlPrefix ∉ (Tree.node (.element name) ks).nsDecls.map Prod.fst := by
  have hnode : nodeOK env (.element name) ks = true := by
    rw [allNodes_node, Bool.and_eq_true] at hn; exact hn.1
  obtain ⟨hord, _, huniq, _, _⟩ := (nodeOK_iff env _ ks).mp hnode
  rw [nsDecls_eq_kidDecls _ ks hord, kidDecls_fst]
  refine ⟨huniq.2, fun hm => ?_⟩
  simp only [nsPrefixes, List.mem_filterMap] at hm
  obtain ⟨k, hk, hkv⟩ := hm
  have hval := allNodes_value env (allNodes_kid hn hk)
  cases hv : k.value <;> simp only [hv, reduceCtorEq, Option.some.injEq] at hkv
  subst hkv
  rw [hv] at hval
  exact (valueOK_namespace_facts hval).1 rfl

/-- The domain of the element round trip: the document holding just the element is `Representable`
    (tables with the built-in values, `nodeOK` at every node, no repeated `xml:id` value). -/
def RepresentableElement (env : Env) (t : Tree) : Bool :=
  t.value.isElement && Representable env (.node .document [t])

/-- `to_string(element)` of a parentless element IS `to_string(document holding just it)`: same text,
    same error, whatever the token parameters (no CDATA-section elements). -/
theorem serializeString_element_root (pr : TokenParams) (hcd : pr.cdataSectionElements = []) (t : Tree)
    (hel : t.value.isElement = true) (hr : RepresentableFragment env (.node .document [t]) = true) :
    serializeString env pr t [] = serializeString env pr (.node .document [t]) [] := by
  obtain ⟨henv, -, hn, -⟩ := (representableFragment_iff env _).mp hr
  have hx : env.prefixStr Env.xmlPrefix ≠ [] := by rw [envOK_xmlPrefix env henv]; simp
  have hnt : t.allNodes (nodeOK env) = true := allNodes_kid hn (by simp)
  cases t with
  | node v ks =>
    cases v <;> simp [Tree.value, Value.isElement] at hel
    rename_i name
    obtain ⟨hnd, hxp⟩ := rte_decls_of_nodeOK hnt
    show serializeStringWith xmlEscapers env pr _ [] = serializeStringWith xmlEscapers env pr _ []
    rw [serializeString_serTokensAt env pr _ hcd [] hx (nodeOK_declsNamed env _ hnt),
      serializeString_serTokensAt env pr _ hcd [] hx (nodeOK_declsNamed env _ hn),
      serTokensAt_element_root pr.unescapedGt name ks hnd hxp]

theorem toXmlString_element_root (t : Tree) (hel : t.value.isElement = true)
    (hr : RepresentableFragment env (.node .document [t]) = true) :
    toXmlString env t [] = toXmlString env (.node .document [t]) [] :=
  serializeString_element_root {} rfl t hel hr

/-- **Round trip of a parentless element**: if the document holding just the element `t` is
    `Representable` and `to_string(t)` succeeds, then parsing the text gives that document — the
    reparsed tree is `.node .document [t]`, id for id (declarations and prefixes included), the
    interning tables are unchanged, and `deep_equal` answers `true`. -/
theorem roundtrip_element (env : Env) (t : Tree) (hr : Representable env (.node .document [t]) = true)
    (hel : t.value.isElement = true) (s : Str) (hs : serializeString env {} t [] = .ok s) :
    ∃ p, parseString .document env s = .ok p ∧ p.tree = .node .document [t] ∧ p.env = env ∧
      deepEqual p.tree (.node .document [t]) = true := by
  have hfrag : RepresentableFragment env (.node .document [t]) = true := by
    simp only [Representable, Bool.and_eq_true] at hr; exact hr.1
  rw [serializeString_element_root {} rfl t hel hfrag] at hs
  exact Props.C01_roundtrip_identical env _ hr s hs

/-- The same from the decidable condition: a parentless representable element every namespaced
    name of which has a usable prefix among its own declarations serialises, and the text parses
    back to the document holding it. -/
theorem roundtrip_element_writable (env : Env) (t : Tree) (hr : RepresentableElement env t = true)
    (hw : namesWritable env (.node .document [t]) [] = some true) :
    ∃ s p, toXmlString env t [] = .ok s ∧ parseString .document env s = .ok p ∧
      p.tree = .node .document [t] ∧ p.env = env ∧ deepEqual p.tree (.node .document [t]) = true := by
  simp only [RepresentableElement, Bool.and_eq_true] at hr
  have hfrag : RepresentableFragment env (.node .document [t]) = true := by
    have := hr.2
    simp only [Representable, Bool.and_eq_true] at this; exact this.1
  obtain ⟨s, p, h1, h2⟩ := Props.C01_roundtrip_writable env _ hr.2 hw
  exact ⟨s, p, by rw [toXmlString_element_root t hr.1 hfrag]; exact h1, h2⟩

end XotModel
