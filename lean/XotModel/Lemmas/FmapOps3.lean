/-
  Lemmas for C11, part 9: each operation as one step — the new state, its `MInv`, the
  reference-map meaning of the view, and the frame (`Step`).
-/
import XotModel.Lemmas.FmapOps2

namespace XotModel
namespace Fmap
open HTree
open Forest (MapKind entryKey mapChildren)

mutual
  theorem mapAt_id (e : Nat) : ∀ k : HTree, mapAt e (atKids (fun ks => ks)) k = k
    | .node h' v ks => by
      simp only [mapAt]
      split
      · rfl
      · rw [mapAtList_id e ks]
  theorem mapAtList_id (e : Nat) : ∀ ks : List HTree, mapAtList e (atKids (fun ks => ks)) ks = ks
    | [] => rfl
    | k :: ks => by simp only [mapAtList]; rw [mapAt_id e k, mapAtList_id e ks]
end

theorem withKids_self {f : Forest} {e : Nat} {ev : Value} {ks : List HTree}
    (h : Located f e ev ks) : withKids f.roots e ks = f.roots := by
  have := withKids_of f.roots e (fun ks => ks) _ h.nodup h.get
  simp only [HTree.kids] at this
  rw [← this, mapAtList_id]

theorem setSec_self (k : MapKind) (N A : List HTree) :
    setSecN k N (Sect.sec k N A) = N ∧ setSecA k A (Sect.sec k N A) = A := by
  cases k <;> exact ⟨rfl, rfl⟩

/-- The result of one operation on view `k` of the element `e`: the view's section became `s'`,
    nothing else in the element changed, the rest of the forest is as it was except for the
    parentless trees listed in `roots0`. -/
structure Step (f f' : Forest) (e nm : Nat) (N A S : List HTree) (k : MapKind)
    (roots0 s' : List HTree) : Prop where
  state : f' = { f with roots := withKids roots0 e (preK k N ++ s' ++ postK k A S), next := f'.next }
  inv : MInv f' e nm (setSecN k N s') (setSecA k A s') S
  next_le : f.next ≤ f'.next

theorem Step.abs_same {f f' : Forest} {e nm : Nat} {N A S roots0 s' : List HTree} {k : MapKind}
    (st : Step f f' e nm N A S k roots0 s') : abs k f' e = s'.map entryPair :=
  MInv.abs_update st.inv

theorem Step.abs_other {f f' : Forest} {e nm : Nat} {N A S roots0 s' : List HTree} {k k' : MapKind}
    (h : MInv f e nm N A S) (st : Step f f' e nm N A S k roots0 s') (hk : k' ≠ k) :
    abs k' f' e = abs k' f e :=
  MInv.abs_update_other h st.inv hk

theorem Step.nodes_same {f f' : Forest} {e nm : Nat} {N A S roots0 s' : List HTree} {k : MapKind}
    (st : Step f f' e nm N A S k roots0 s') : absNodes k f' e = s'.map (·.handle) := by
  rw [st.inv.absNodes_eq k, sec_setSec]

theorem Step.nodes_other {f f' : Forest} {e nm : Nat} {N A S roots0 s' : List HTree} {k k' : MapKind}
    (h : MInv f e nm N A S) (st : Step f f' e nm N A S k roots0 s') (hk : k' ≠ k) :
    absNodes k' f' e = absNodes k' f e := by
  rw [st.inv.absNodes_eq k', h.absNodes_eq k', sec_setSec_other k k' N A s' hk]

/-- The step that changes nothing. -/
theorem Step.refl {f : Forest} {e nm : Nat} {N A S : List HTree} (h : MInv f e nm N A S)
    (k : MapKind) : Step f f e nm N A S k f.roots (Sect.sec k N A) := by
  refine ⟨?_, ?_, Nat.le_refl _⟩
  · rw [← split_kids k N A S, withKids_self h.loc]
  · rw [(setSec_self k N A).1, (setSec_self k N A).2]; exact h

/-! ### `insert` -/

theorem mapInsert_step {f : Forest} {e nm : Nat} {N A S : List HTree} (h : MInv f e nm N A S)
    (k : MapKind) (entry : Value) (hm : k.matches entry = true) :
    ∃ s', Step f (f.mapInsert k e entry).1 e nm N A S k f.roots s' ∧
      (f.mapInsert k e entry).2 = .ok ∧
      s'.map entryPair =
        omInsert ((Sect.sec k N A).map entryPair) (entryKey entry) (payloadOf entry) ∧
      (∀ n, f.mapGetNode k e (entryKey entry) = some n →
        s'.map (·.handle) = (Sect.sec k N A).map (·.handle)) ∧
      (f.mapGetNode k e (entryKey entry) = none →
        s'.map (·.handle) = (Sect.sec k N A).map (·.handle) ++ [f.next]) := by
  unfold Forest.mapInsert
  rw [h.isElement]
  simp only [Bool.not_true, Bool.false_eq_true, if_false]
  rw [h.getNode k]
  cases hf : (Sect.sec k N A).find? (fun c => entryKey c.value == entryKey entry) with
  | some n =>
    obtain ⟨hkey, s1, s2, hs, hs1⟩ := find?_key_split _ _ _ hf
    obtain ⟨heq, hinv, hmap, hnodes⟩ := insert_existing h k entry hm n s1 s2 hs _ hkey hs1
    refine ⟨_, ⟨?_, ?_, ?_⟩, rfl, hmap, fun _ _ => hnodes, fun hn => (by cases hn)⟩
    · simp only; rw [heq]
    · simp only; rw [heq]; exact hinv
    · simp only; rw [heq]; exact Nat.le_refl _
  | none =>
    have habs := find?_key_none _ _ hf
    simp only
    obtain ⟨hloc1, hroot1, hne1, hbelow1⟩ := located_newNode h.loc h.below entry
    have h1 : MInv (f.newNode entry).1 e nm N A S := ⟨hloc1, h.sect, h.uniq, hbelow1, h.leaf⟩
    obtain ⟨hplace, hinv, hmap, hnodes⟩ :=
      place_absent h1 k f.next entry hm hroot1 hne1 habs
    rw [rootsWithout_newNode f h.below entry] at hplace hinv
    show ∃ s', Step f ((f.newNode entry).1.mapPlace k e f.next).1 e nm N A S k f.roots s' ∧
      ((f.newNode entry).1.mapPlace k e f.next).2 = .ok ∧ _
    rw [hplace]
    refine ⟨_, ⟨?_, hinv, ?_⟩, rfl, hmap, fun n hn => (by cases hn), fun _ => hnodes⟩
    · simp only [newNode_eq]
    · simp only [newNode_eq]; omega

/-! ### `remove` -/

theorem mapRemove_step {f : Forest} {e nm : Nat} {N A S : List HTree} (h : MInv f e nm N A S)
    (k : MapKind) (key : Nat) :
    ∃ s', Step f (f.mapRemove k e key).1 e nm N A S k f.roots s' ∧
      (f.mapRemove k e key).2 = .ok ∧
      s'.map entryPair = omRemove ((Sect.sec k N A).map entryPair) key ∧
      (s'.map (·.handle)).Sublist ((Sect.sec k N A).map (·.handle)) := by
  unfold Forest.mapRemove
  rw [h.isElement]
  simp only [Bool.not_true, Bool.false_eq_true, if_false]
  rw [h.getNode k]
  cases hf : (Sect.sec k N A).find? (fun c => entryKey c.value == key) with
  | some n =>
    obtain ⟨hkey, s1, s2, hs, hs1⟩ := find?_key_split _ _ _ hf
    obtain ⟨hrem, hinv, hmap⟩ := remove_present h k key n s1 s2 hs hkey hs1
    simp only
    rw [hrem]
    refine ⟨_, ⟨rfl, hinv, Nat.le_refl _⟩, rfl, hmap, ?_⟩
    rw [hs]
    simp only [List.map_append, List.map_cons]
    exact List.Sublist.append (List.Sublist.refl _) (List.sublist_cons_self _ _)
  | none =>
    have habs := find?_key_none _ _ hf
    refine ⟨_, Step.refl h k, rfl, ?_, List.Sublist.refl _⟩
    rw [omRemove_absent]
    intro a ha
    obtain ⟨x, hx, rfl⟩ := List.mem_map.mp ha
    exact habs x hx

/-! ### `clear` -/

theorem clear_fold (e : Nat) (ev : Value) (pre post : List HTree) :
    ∀ (cs : List HTree) (f : Forest), Located f e ev (pre ++ cs ++ post) →
      (∀ c ∈ cs, c.value.category ≠ .normal) →
      cs.foldl (fun acc c => (acc.remove c.handle).1) f =
        { f with roots := withKids f.roots e (pre ++ post) } ∧
      Located { f with roots := withKids f.roots e (pre ++ post) } e ev (pre ++ post)
  | [], f => by
    intro hl _
    simp only [List.append_nil] at hl
    simp only [List.foldl_nil]
    rw [withKids_self hl]
    exact ⟨rfl, hl⟩
  | c :: cs, f => by
    intro hl hc
    have hl' : Located f e ev (pre ++ c :: (cs ++ post)) := by
      have : pre ++ c :: cs ++ post = pre ++ c :: (cs ++ post) := by simp
      rw [← this]; exact hl
    have hrem := remove_child hl' (hc c List.mem_cons_self)
    have hl1 := located_after_cut hl'
    have hk : pre ++ (cs ++ post) = pre ++ cs ++ post := by simp
    rw [hk] at hrem hl1
    simp only [List.foldl_cons]
    rw [hrem]
    simp only
    obtain ⟨h1, h2⟩ := clear_fold e ev pre post cs _ hl1 (fun x hx => hc x (List.mem_cons_of_mem _ hx))
    rw [h1]
    simp only [withKids_withKids] at h2 ⊢
    exact ⟨trivial, h2⟩

theorem mapClear_step {f : Forest} {e nm : Nat} {N A S : List HTree} (h : MInv f e nm N A S)
    (k : MapKind) :
    Step f (f.mapClear k e).1 e nm N A S k f.roots [] ∧ (f.mapClear k e).2 = .ok := by
  unfold Forest.mapClear
  rw [h.isElement]
  simp only [Bool.not_true, Bool.false_eq_true, if_false]
  rw [h.loc.get]
  simp only
  rw [mapChildren_eq]
  simp only [HTree.kids]
  rw [h.sect.kidsOf]
  have hl : Located f e (.element nm) (preK k N ++ Sect.sec k N A ++ postK k A S) := by
    rw [← split_kids]; exact h.loc
  obtain ⟨h1, h2⟩ := clear_fold e _ (preK k N) (postK k A S) (Sect.sec k N A) f hl
    (fun c hc => by rw [h.sect.sec_cat k c hc]; exact kindCat_ne_normal k)
  rw [h1]
  refine ⟨⟨by simp, ?_, Nat.le_refl _⟩, trivial⟩
  apply h.update k []
  · intro x hx; cases hx
  · simpa using h2
  · intro x hx; cases hx
  · simp
  · intro x hx
    rcases mem_withKids _ e _ _ h.loc.nodup h.loc.get x hx with hx | hx
    · exact h.below x hx
    · apply h.below
      apply findList?_sub e f.roots _ h.loc.get
      simp only [handles, List.mem_cons]
      right
      rw [split_kids k N A S]
      simp only [handlesList_append, List.mem_append] at hx ⊢
      rcases hx with hx | hx
      · exact Or.inl (Or.inl hx)
      · exact Or.inr hx

end Fmap
end XotModel
