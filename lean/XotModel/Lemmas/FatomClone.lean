/-
  C06 lemmas: `clone_node` never hits its `unwrap`s on a structurally valid source, keeps the
  invariant, and never leaves the list semantics (the scratch element that is spliced out at
  the end has exactly one child).
-/
import XotModel.Lemmas.FatomStep

namespace XotModel
open HTree

/-! ### Which source subtrees can be replayed under an element (`ce = true`) / a document -/

mutual
  def cloneOk (ce : Bool) : HTree → Bool
    | .node _ v ks =>
      match v with
      | .document => cloneOkList ce ks
      | _ => (v.category == .normal || ce) && cloneOkList (if v.isElement then true else ce) ks
  def cloneOkList (ce : Bool) : List HTree → Bool
    | [] => true
    | k :: ks => cloneOk ce k && cloneOkList ce ks
end

mutual
  theorem valid_cloneOk (b ce : Bool) : ∀ t : HTree, validTree b t = true →
      (t.value.category = .normal ∨ ce = true) → cloneOk ce t = true
    | .node h v ks => by
      intro hv hc
      simp only [validTree, Bool.and_eq_true] at hv
      obtain ⟨⟨⟨⟨⟨h1, _⟩, _⟩, _⟩, _⟩, h6⟩ := hv
      simp only [HTree.value] at hc
      cases v with
      | document =>
        simp only [cloneOk]
        apply validList_cloneOk b ce ks h6
        intro k hk
        have := List.all_eq_true.1 h1 k hk
        simp only [kidAllowed, Bool.and_eq_true, Value.isNormal, beq_iff_eq] at this
        exact Or.inl this.1
      | element n =>
        simp only [cloneOk, Value.isElement, if_true, Bool.and_eq_true, Bool.or_eq_true, beq_iff_eq]
        exact ⟨hc, validList_cloneOk b true ks h6 (fun _ _ => Or.inr rfl)⟩
      | text s =>
        have : ks = [] := by
          cases ks with
          | nil => rfl
          | cons k ks => simp [kidAllowed] at h1
        subst this
        simp only [cloneOk, cloneOkList, Bool.and_true, Bool.or_eq_true, beq_iff_eq]
        exact hc
      | pi tg d =>
        have : ks = [] := by
          cases ks with
          | nil => rfl
          | cons k ks => simp [kidAllowed] at h1
        subst this
        simp only [cloneOk, cloneOkList, Bool.and_true, Bool.or_eq_true, beq_iff_eq]
        exact hc
      | comment s =>
        have : ks = [] := by
          cases ks with
          | nil => rfl
          | cons k ks => simp [kidAllowed] at h1
        subst this
        simp only [cloneOk, cloneOkList, Bool.and_true, Bool.or_eq_true, beq_iff_eq]
        exact hc
      | «attribute» a c =>
        have : ks = [] := by
          cases ks with
          | nil => rfl
          | cons k ks => simp [kidAllowed] at h1
        subst this
        simp only [cloneOk, cloneOkList, Bool.and_true, Bool.or_eq_true, beq_iff_eq]
        exact hc
      | «namespace» a c =>
        have : ks = [] := by
          cases ks with
          | nil => rfl
          | cons k ks => simp [kidAllowed] at h1
        subst this
        simp only [cloneOk, cloneOkList, Bool.and_true, Bool.or_eq_true, beq_iff_eq]
        exact hc
  theorem validList_cloneOk (b ce : Bool) : ∀ ks : List HTree, validList b ks = true →
      (∀ k ∈ ks, k.value.category = .normal ∨ ce = true) → cloneOkList ce ks = true
    | [] => by simp [cloneOkList]
    | k :: ks => by
      intro hv hc
      simp only [validList, Bool.and_eq_true] at hv
      simp only [cloneOkList, Bool.and_eq_true]
      exact ⟨valid_cloneOk b ce k hv.1 (hc k (List.mem_cons_self ..)),
        validList_cloneOk b ce ks hv.2 (fun k' hk' => hc k' (List.mem_cons_of_mem _ hk'))⟩
end

namespace Forest

/-! ### What a replay guarantees -/

/-- The forest grew below `cur`: old nodes are untouched (parents, liveness; containers keep
    everything), new nodes hang below `cur` or below other new nodes. -/
structure Grow (f f' : Forest) (cur : Nat) : Prop where
  w : f'.W
  corrupt : f'.corrupt = f.corrupt
  par : ∀ x, f.isLive x = true → f'.parent? x = f.parent? x
  live : ∀ x, f.isLive x = true → f'.isLive x = true
  kept : ∀ x, f.isLive x = true → (f.isElement x = true ∨ f.isDocument x = true) → Kept f f' x
  newpar : ∀ x q, f.isLive x = false → f'.parent? x = some q → q = cur ∨ f.isLive q = false

theorem Grow.refl {f : Forest} (w : f.W) (cur : Nat) : Grow f f cur :=
  ⟨w, rfl, fun _ _ => rfl, fun _ h => h, fun _ _ _ => Kept.refl _ _,
    fun x q hx hq => by rw [(parent?_live hq).1] at hx; cases hx⟩

theorem Grow.trans {f f' f'' : Forest} {cur : Nat} (a : Grow f f' cur) (b : Grow f' f'' cur) :
    Grow f f'' cur := by
  refine ⟨b.w, by rw [b.corrupt, a.corrupt], ?_, fun x hx => b.live x (a.live x hx), ?_, ?_⟩
  · intro x hx; rw [b.par x (a.live x hx), a.par x hx]
  · intro x hx hc
    have k1 := a.kept x hx hc
    exact k1.trans (b.kept x (a.live x hx) (by rw [k1.isElement, k1.isDocument]; exact hc))
  · intro x q hx hq
    cases hx' : f'.isLive x with
    | true => rw [b.par x hx'] at hq; exact a.newpar x q hx hq
    | false =>
      rcases b.newpar x q hx' hq with h | h
      · exact Or.inl h
      · right
        cases hq' : f.isLive q with
        | false => rfl
        | true => rw [a.live q hq'] at h; cases h

/-- One replayed node followed by the replay of its children. -/
theorem Grow.step {f f2 f' : Forest} {cur cur' m : Nat} {v : Value} (w : f.W) (hm : m = f.next)
    (st : Step (f.newNode v).1 f2 m cur) (g : Grow f2 f' cur')
    (hcur' : cur' = cur ∨ (cur' = m ∧ f2.isLive m = true)) : Grow f f' cur := by
  obtain ⟨_, w1, fr1, _, _, hdead⟩ := newNode_spec w v
  subst hm
  have hlive1 : ∀ x, f.isLive x = true → x ≠ f.next := fun x hx e => by
    rw [e, hdead] at hx; cases hx
  have hl1 : ∀ x, x ≠ f.next → (f.newNode v).1.isLive x = f.isLive x :=
    fun x hx => fr1.live x (by simpa using hx)
  have hl2 : ∀ x, x ≠ f.next → f2.isLive x = f.isLive x :=
    fun x hx => by rw [st.live x hx, hl1 x hx]
  refine ⟨g.w, by rw [g.corrupt, st.corrupt, fr1.corrupt], ?_, ?_, ?_, ?_⟩
  · intro x hx
    have hne := hlive1 x hx
    rw [g.par x (by rw [hl2 x hne]; exact hx), st.par x hne, fr1.parent x (by simpa using hne)]
  · intro x hx
    exact g.live x (by rw [hl2 x (hlive1 x hx)]; exact hx)
  · intro x hx hc
    have hne := hlive1 x hx
    have k1 := newNode_kept w v hx
    have k2 := st.kept x hne (by rw [k1.isLive]; exact hx)
      (by rw [k1.isElement, k1.isDocument]; exact hc)
    have k12 := k1.trans k2
    exact k12.trans (g.kept x (by rw [k12.isLive]; exact hx)
      (by rw [k12.isElement, k12.isDocument]; exact hc))
  · intro x q hx hq
    have hqdead : f2.isLive q = false → f.isLive q = false := by
      intro h
      cases hq' : f.isLive q with
      | false => rfl
      | true => rw [← hl2 q (hlive1 q hq'), h] at hq'; cases hq'
    by_cases hxm : x = f.next
    · subst hxm
      cases hm2 : f2.isLive f.next with
      | true =>
        rw [g.par _ hm2] at hq
        exact Or.inl (st.newpar q hq)
      | false =>
        rcases g.newpar _ q hm2 hq with h | h
        · rcases hcur' with e | ⟨_, e⟩
          · exact Or.inl (h.trans e)
          · rw [hm2] at e; cases e
        · exact Or.inr (hqdead h)
    · have hx2 : f2.isLive x = false := by rw [hl2 x hxm]; exact hx
      rcases g.newpar x q hx2 hq with h | h
      · rcases hcur' with e | ⟨e, _⟩
        · exact Or.inl (h.trans e)
        · right; rw [h, e]; exact hdead
      · exact Or.inr (hqdead h)

theorem cloneInto_document (f : Forest) (cur h : Nat) (ks : List HTree) :
    cloneInto f cur (.node h .document ks) = cloneKids f cur ks := by
  simp [cloneInto]

theorem cloneInto_other (f : Forest) (cur h : Nat) (v : Value) (ks : List HTree)
    (hv : v.isDocument = false) :
    cloneInto f cur (.node h v ks) =
      match (f.newNode v).1.anyAppend cur f.next with
      | (f2, .ok, _) => cloneKids f2 (if v.isElement then f.next else cur) ks
      | _ => none := by
  cases v <;> first | (exact absurd hv (by decide)) | rfl | (simp [cloneInto, newNode]; done)

theorem newNode_freshLeaf {f : Forest} (w : f.W) (v : Value) :
    FreshLeaf (f.newNode v).1 f.next v := by
  obtain ⟨_, _, _, hg, hr, _⟩ := newNode_spec w v
  exact ⟨hg, hr⟩

/-- The first replay step, shared by the recursion and by `clone_node` on an element. -/
theorem clone_first_step {f : Forest} (w : f.W) {cur : Nat} (v : Value)
    (hl : f.isLive cur = true) (hc : f.isElement cur = true ∨ f.isDocument cur = true)
    (hdoc : v.isDocument = false) (hent : v.category ≠ .normal → f.isElement cur = true) :
    ∃ f2 x, (f.newNode v).1.anyAppend cur f.next = (f2, .ok, x) ∧
      Step (f.newNode v).1 f2 f.next cur ∧
      (v.isElement = true → f2.parent? f.next = some cur ∧ f2.isElement f.next = true) ∧
      Kept f (f.newNode v).1 cur := by
  obtain ⟨_, w1, _, _, _, hdead⟩ := newNode_spec w v
  have kc := newNode_kept w v hl
  have hne : cur ≠ f.next := fun e => by rw [e, hdead] at hl; cases hl
  have st := step_anyAppend w1 (newNode_freshLeaf w v) (by rw [kc.isLive]; exact hl)
    (by rw [kc.isElement, kc.isDocument]; exact hc) hne hdoc
    (fun h => by rw [kc.isElement]; exact hent h)
  rcases hres : (f.newNode v).1.anyAppend cur f.next with ⟨f2, r, x⟩
  rw [hres] at st
  obtain ⟨h1, h2, h3⟩ := st
  simp only at h1 h2 h3
  subst h1
  exact ⟨f2, x, rfl, h2, h3, kc⟩

mutual
  theorem cloneInto_grow : ∀ (src : HTree) (f : Forest) (cur : Nat), f.W → f.isLive cur = true →
      (f.isElement cur = true ∨ f.isDocument cur = true) →
      cloneOk (f.isElement cur) src = true →
      ∃ f', cloneInto f cur src = some f' ∧ Grow f f' cur
    | .node h v ks, f, cur => by
      intro w hl hc hok
      cases hdoc : v.isDocument with
      | true =>
        have : v = .document := by cases v <;> simp_all [Value.isDocument]
        subst this
        rw [cloneInto_document]
        simp only [cloneOk] at hok
        exact cloneKids_grow ks f cur w hl hc hok
      | false =>
        have hok' : (v.category == .normal || f.isElement cur) = true ∧
            cloneOkList (if v.isElement then true else f.isElement cur) ks = true := by
          cases v <;> simp_all [cloneOk, Value.isDocument]
        have hent : v.category ≠ .normal → f.isElement cur = true := by
          intro hn
          have := hok'.1
          simp only [Bool.or_eq_true, beq_iff_eq] at this
          rcases this with h' | h'
          · exact absurd h' hn
          · exact h'
        obtain ⟨f2, x, hres, st, hel, kc⟩ := clone_first_step w v hl hc hdoc hent
        rw [cloneInto_other f cur h v ks hdoc, hres]
        simp only
        obtain ⟨_, _, _, _, _, hdead⟩ := newNode_spec w v
        have hne : cur ≠ f.next := fun e => by rw [e, hdead] at hl; cases hl
        cases hve : v.isElement with
        | true =>
          simp only [if_true]
          obtain ⟨hp, he⟩ := hel hve
          have hlm : f2.isLive f.next = true := (parent?_live hp).1
          rw [hve] at hok'
          simp only [if_true] at hok'
          obtain ⟨f', hf', g⟩ := cloneKids_grow ks f2 f.next st.w hlm (Or.inl he)
            (by rw [he]; exact hok'.2)
          exact ⟨f', hf', Grow.step w rfl st g (Or.inr ⟨rfl, hlm⟩)⟩
        | false =>
          simp only [Bool.false_eq_true, if_false]
          rw [hve] at hok'
          simp only [Bool.false_eq_true, if_false] at hok'
          have k2 := st.kept cur hne (by rw [kc.isLive]; exact hl)
            (by rw [kc.isElement, kc.isDocument]; exact hc)
          have k := kc.trans k2
          obtain ⟨f', hf', g⟩ := cloneKids_grow ks f2 cur st.w (by rw [k.isLive]; exact hl)
            (by rw [k.isElement, k.isDocument]; exact hc) (by rw [k.isElement]; exact hok'.2)
          exact ⟨f', hf', Grow.step w rfl st g (Or.inl rfl)⟩
  theorem cloneKids_grow : ∀ (ks : List HTree) (f : Forest) (cur : Nat), f.W →
      f.isLive cur = true → (f.isElement cur = true ∨ f.isDocument cur = true) →
      cloneOkList (f.isElement cur) ks = true →
      ∃ f', cloneKids f cur ks = some f' ∧ Grow f f' cur
    | [], f, cur => by
      intro w _ _ _
      exact ⟨f, rfl, Grow.refl w cur⟩
    | k :: ks, f, cur => by
      intro w hl hc hok
      simp only [cloneOkList, Bool.and_eq_true] at hok
      obtain ⟨f1, h1, g1⟩ := cloneInto_grow k f cur w hl hc hok.1
      have kc := g1.kept cur hl hc
      obtain ⟨f', h2, g2⟩ := cloneKids_grow ks f1 cur g1.w (g1.live cur hl)
        (by rw [kc.isElement, kc.isDocument]; exact hc) (by rw [kc.isElement]; exact hok.2)
      refine ⟨f', ?_, g1.trans g2⟩
      simp only [cloneKids, h1, h2]
end

end Forest
end XotModel
