/-
  C03, PI targets with a colon: the closed witness `<?a:b x?><r><?c:d?></r>` — accepted from `Xot::new()`,
  outside `PlainPiTargets`, serialised to the same text.
-/
import XotModel.Lemmas.AcceptedWitness
import XotModel.Lemmas.PiColonAcceptedMain

namespace XotModel.Witness

open XotModel

private def sp (s : String) : StrSpan := ⟨s.toList, 0⟩
private def nosp : StrSpan := ⟨[], 0⟩

def piColonTokens : List Token :=
  [.pi (sp "a:b") (some (sp "x")) nosp, .elementStart nosp (sp "r") nosp, .elementEnd .open nosp,
   .pi (sp "c:d") none nosp, .elementEnd (.close nosp (sp "r")) nosp]

def piColonText : Str := "<?a:b x?><r><?c:d?></r>".toList

def piColonAccepted : Bool :=
  match buildE .document (strLen piColonText) Env.fresh (placeTokens 0 piColonTokens) none with
  | .ok p => NoReservedDecls p.env p.tree && !PlainPiTargets p.env p.tree && !Representable p.env p.tree &&
      PiColon.Representable p.env p.tree &&
      (match toXmlString p.env p.tree [] with
       | .ok s' => s' == piColonText
       | _ => false)
  | _ => false

theorem piColon_accepted : LexOK false piColonTokens = true ∧ renderTokens piColonTokens = piColonText ∧
    piColonAccepted = true := by decide +kernel

theorem piColon_spec : ∃ p, parseString .document Env.fresh piColonText = .ok p ∧
    NoReservedDecls p.env p.tree = true ∧ PlainPiTargets p.env p.tree = false ∧
    Representable p.env p.tree = false ∧ PiColon.Representable p.env p.tree = true ∧
    toXmlString p.env p.tree [] = .ok piColonText := by
  obtain ⟨h1, h2, h4⟩ := piColon_accepted
  unfold piColonAccepted at h4
  split at h4
  · rename_i p hp
    simp only [Bool.and_eq_true, Bool.not_eq_true'] at h4
    obtain ⟨⟨⟨⟨g1, g2⟩, g3⟩, g4⟩, g5⟩ := h4
    refine ⟨p, ?_, g1, g2, g3, g4, ?_⟩
    · rw [← h2, parseString_render _ _ h1, h2]; exact hp
    · split at g5
      · rename_i s' hs
        have : s' = piColonText := by simpa using g5
        rw [hs, this]
      · cases g5
  · cases h4

end XotModel.Witness
