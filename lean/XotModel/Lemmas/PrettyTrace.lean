/-
  The `Pretty` stack along the traversal: before every event of `genOutputs` the stack consists of
  the entries of the open elements (those with children) between the start node and the event's
  node — an explicit function of the tree (`pentriesAbove` / `pentriesIncl`).
-/
import XotModel.Model.Pretty
import XotModel.Lemmas.Events

namespace XotModel

variable (sup : List Nat) (t : Tree)

/-- The stack after `prettify` of one event. -/
def pstep (ps : PStack) (po : Path × Output) : PStack := (prettifyAt sup t ps po.1 po.2).1

/-- The stack after a list of events. -/
def prun : PStack → List (Path × Output) → PStack
  | ps, [] => ps
  | ps, po :: rest => prun (pstep sup t ps po) rest

/-- The stack held before each event. -/
def ptrace : PStack → List (Path × Output) → List (PStack × Path × Output)
  | _, [] => []
  | ps, po :: rest => (ps, po.1, po.2) :: ptrace (pstep sup t ps po) rest

theorem prun_append (ps : PStack) (a b : List (Path × Output)) :
    prun sup t ps (a ++ b) = prun sup t (prun sup t ps a) b := by
  induction a generalizing ps with
  | nil => rfl
  | cons po a ih => simp only [List.cons_append, prun]; exact ih _

theorem mem_ptrace_append (ps : PStack) (a b : List (Path × Output)) (x : PStack × Path × Output) :
    x ∈ ptrace sup t ps (a ++ b) ↔ x ∈ ptrace sup t ps a ∨ x ∈ ptrace sup t (prun sup t ps a) b := by
  induction a generalizing ps with
  | nil => simp [ptrace, prun]
  | cons po a ih => simp only [List.cons_append, ptrace, prun, List.mem_cons, ih, or_assoc]

/-- Events `prettify` does not move the stack for. -/
def Output.isPrettyNeutral : Output → Bool
  | .startTagClose => false
  | .endTag _ => false
  | _ => true

theorem pstep_neutral (ps : PStack) (p : Path) (o : Output) (ho : o.isPrettyNeutral = true) :
    pstep sup t ps (p, o) = ps := by
  unfold pstep prettifyAt
  cases t.at? p with
  | none => rfl
  | some node => cases o <;> simp [Output.isPrettyNeutral] at ho <;> rfl

/-- The entry `StartTagClose` pushes for an element with children. -/
def entryFor (node : Tree) : StackEntry :=
  if hasInlineChild node then .mixed
  else if (match node.value with
           | .element name => sup.contains name
           | _ => false) then .mixed
  else .unmixed (elementSpace node)

/-- What an open node has on the stack: elements with children one entry, anything else nothing. -/
def openEntryOf (node : Tree) : PStack :=
  match node.value with
  | .element _ => if node.firstChild?.isSome then [entryFor sup node] else []
  | _ => []

theorem pstep_close (ps : PStack) (p : Path) (name : Nat) (ks : List Tree)
    (hn : t.at? p = some (.node (.element name) ks)) :
    pstep sup t ps (p, .startTagClose) = openEntryOf sup (.node (.element name) ks) ++ ps := by
  unfold pstep prettifyAt
  simp only [hn, prettify, openEntryOf, entryFor, Tree.value]
  by_cases hc : (Tree.node (.element name) ks).firstChild?.isSome = true
  · simp only [hc, if_true]
    by_cases hi : hasInlineChild (.node (.element name) ks) = true
    · simp [hi]
    · by_cases hsup : sup.contains name = true
      · have : name ∈ sup := by simpa using hsup
        simp [hi, this]
      · have : name ∉ sup := by simpa using hsup
        simp [hi, this]
  · simp [hc]

theorem pstep_end (ps : PStack) (p : Path) (name : Nat) (ks : List Tree)
    (hn : t.at? p = some (.node (.element name) ks)) :
    pstep sup t (openEntryOf sup (.node (.element name) ks) ++ ps) (p, .endTag name) = ps := by
  unfold pstep prettifyAt
  simp only [hn, prettify, openEntryOf, Tree.value]
  by_cases hc : (Tree.node (.element name) ks).firstChild?.isSome = true
  · simp [hc]
  · simp [hc]

theorem neutral_prun (ps : PStack) (evs : List (Path × Output))
    (hall : ∀ po ∈ evs, po.2.isPrettyNeutral = true) :
    (∀ x ∈ ptrace sup t ps evs, x.1 = ps ∧ (x.2.1, x.2.2) ∈ evs) ∧ prun sup t ps evs = ps := by
  induction evs with
  | nil => simp [ptrace, prun]
  | cons po evs ih =>
    obtain ⟨ih1, ih2⟩ := ih (fun q hq => hall q (by simp [hq]))
    have hpo : pstep sup t ps po = ps := pstep_neutral sup t ps po.1 po.2 (hall po (by simp))
    simp only [ptrace, prun, hpo, List.mem_cons]
    refine ⟨?_, ih2⟩
    rintro x (rfl | hx)
    · simp
    · exact ⟨(ih1 x hx).1, Or.inr (ih1 x hx).2⟩

/-! ### Entries of the open elements -/

/-- Entries of the nodes from `n` down to the parent of the node at `rel`, innermost first. -/
def pentriesAbove : Tree → Path → PStack
  | _, [] => []
  | n, i :: rel =>
    match n.kids[i]? with
    | some k => pentriesAbove k rel ++ openEntryOf sup n
    | none => []

/-- … down to the node at `rel` itself. -/
def pentriesIncl : Tree → Path → PStack
  | n, [] => openEntryOf sup n
  | n, i :: rel =>
    match n.kids[i]? with
    | some k => pentriesIncl k rel ++ openEntryOf sup n
    | none => openEntryOf sup n

/-- The stack an event of the node at `rel` sees: the end tag is handled with the element's own
    entry still on the stack. -/
def pentriesFor (o : Output) (n : Tree) (rel : Path) : PStack :=
  match o with
  | .endTag _ => pentriesIncl sup n rel
  | _ => pentriesAbove sup n rel

theorem pentriesFor_cons (o : Output) (v : Value) (ks : List Tree) (j : Nat) (k : Tree) (rel : Path)
    (hk : ks[j]? = some k) :
    pentriesFor sup o (.node v ks) (j :: rel) = pentriesFor sup o k rel ++ openEntryOf sup (.node v ks) := by
  cases o <;> simp [pentriesFor, pentriesAbove, pentriesIncl, Tree.kids, hk]

/-- The claim about one trace entry, relative to node `n` at `path` entered with stack `ps`. -/
def PEntryOk (path : Path) (n : Tree) (ps : PStack) (x : PStack × Path × Output) : Prop :=
  ∃ rel, x.2.1 = path ++ rel ∧ x.1 = pentriesFor sup x.2.2 n rel ++ ps

/-- The events of an element before its `StartTagClose`. -/
def preCloseEvents (inScope : List (Nat × Nat)) (isTop : Bool) (path : Path) (n : Tree) :
    List (Path × Output) :=
  (path, Output.startTagOpen (match n.value with | .element name => name | _ => 0)) ::
    ((if isTop then extraPrefixes inScope n else []).map (fun o => (path, o))
      ++ n.nsDecls.map (fun d => (path, Output.pfx d.1 d.2))
      ++ n.attrs.map (fun a => (path, Output.attribute a.1 a.2)))

theorem preCloseEvents_neutral (inScope : List (Nat × Nat)) (isTop : Bool) (path : Path) (n : Tree) :
    ∀ po ∈ preCloseEvents inScope isTop path n, po.2.isPrettyNeutral = true ∧ po.1 = path := by
  intro po hpo
  unfold preCloseEvents at hpo
  simp only [List.mem_cons, List.mem_append, List.mem_map] at hpo
  rcases hpo with rfl | ((⟨o, ho, rfl⟩ | ⟨d, _, rfl⟩) | ⟨a, _, rfl⟩)
  · exact ⟨rfl, rfl⟩
  · refine ⟨?_, rfl⟩
    split at ho
    · unfold extraPrefixes at ho
      obtain ⟨d, _, rfl⟩ := List.mem_map.mp ho
      rfl
    · cases ho
  · exact ⟨rfl, rfl⟩
  · exact ⟨rfl, rfl⟩

theorem genNode_element_psplit (inScope : List (Nat × Nat)) (isTop : Bool) (path : Path) (name : Nat)
    (ks : List Tree) :
    genNode inScope isTop path (.node (.element name) ks) =
      preCloseEvents inScope isTop path (.node (.element name) ks)
        ++ ((path, Output.startTagClose) ::
          (genNode.genKids inScope path 0 ks ++ [(path, Output.endTag name)])) := by
  rw [genNode_element]
  simp [preCloseEvents, Tree.value, List.append_assoc]

mutual
theorem genNode_ptrace (inScope : List (Nat × Nat)) (isTop : Bool) (path : Path) (n : Tree)
    (hat : t.at? path = some n) (ps : PStack) :
    (∀ x ∈ ptrace sup t ps (genNode inScope isTop path n), PEntryOk sup path n ps x) ∧
    prun sup t ps (genNode inScope isTop path n) = ps := by
  cases n with
  | node v ks =>
    have hkat : ∀ (j : Nat) (k : Tree), ks[j]? = some k → t.at? (path ++ [0 + j]) = some k := by
      intro j k hk
      rw [at?_append, hat]
      simp only [Nat.zero_add]
      rw [at?_cons, hk]
      rfl
    have kidsPart : ∀ ps1, ps1 = openEntryOf sup (.node v ks) ++ ps →
        (∀ x ∈ ptrace sup t ps1 (genNode.genKids inScope path 0 ks), PEntryOk sup path (.node v ks) ps x) ∧
        prun sup t ps1 (genNode.genKids inScope path 0 ks) = ps1 := by
      intro ps1 h1
      obtain ⟨k1, k2⟩ := genKids_ptrace inScope path 0 ks hkat ps1
      refine ⟨fun x hx => ?_, k2⟩
      obtain ⟨j, k, rel, hk, hp, hs⟩ := k1 x hx
      refine ⟨j :: rel, by simpa using hp, ?_⟩
      rw [pentriesFor_cons sup _ v ks j k rel hk, hs, h1, List.append_assoc]
    have leaf : ∀ (o : Output), o.isPrettyNeutral = true → openEntryOf sup (.node v ks) = [] →
        (∀ x ∈ ptrace sup t ps ((path, o) :: genNode.genKids inScope path 0 ks),
            PEntryOk sup path (.node v ks) ps x) ∧
        prun sup t ps ((path, o) :: genNode.genKids inScope path 0 ks) = ps := by
      intro o ho he
      obtain ⟨k1, k2⟩ := kidsPart ps (by simp [he])
      have hstep := pstep_neutral sup t ps path o ho
      simp only [ptrace, prun, hstep, List.mem_cons]
      refine ⟨?_, k2⟩
      rintro x (rfl | hx)
      · exact ⟨[], by simp, by cases o <;> simp [pentriesFor, pentriesAbove, Output.isPrettyNeutral] at ho ⊢⟩
      · exact k1 x hx
    cases v with
    | element name =>
      rw [genNode_element_psplit]
      obtain ⟨n1, n2⟩ := neutral_prun sup t ps _
        (fun po hpo => (preCloseEvents_neutral inScope isTop path (.node (.element name) ks) po hpo).1)
      have hclose := pstep_close sup t ps path name ks hat
      obtain ⟨k1, k2⟩ := kidsPart (openEntryOf sup (.node (.element name) ks) ++ ps) rfl
      constructor
      · intro x hx
        rcases (mem_ptrace_append sup t ps _ _ x).mp hx with hx | hx
        · obtain ⟨e1, e2⟩ := n1 x hx
          obtain ⟨e3, e4⟩ := preCloseEvents_neutral inScope isTop path _ _ e2
          obtain ⟨xs, xp, xo⟩ := x
          simp only at e1 e3 e4
          subst e1; subst e4
          exact ⟨[], by simp, by cases xo <;> simp [pentriesFor, pentriesAbove, Output.isPrettyNeutral] at e3 ⊢⟩
        · rw [n2] at hx
          simp only [ptrace, List.mem_cons, hclose] at hx
          rcases hx with rfl | hx
          · exact ⟨[], by simp, by simp [pentriesFor, pentriesAbove]⟩
          · rcases (mem_ptrace_append sup t _ _ _ x).mp hx with hx | hx
            · exact k1 x hx
            · rw [k2] at hx
              simp only [ptrace, List.mem_cons, List.not_mem_nil, or_false] at hx
              subst hx
              exact ⟨[], by simp, by simp [pentriesFor, pentriesIncl]⟩
      · rw [prun_append, n2]
        simp only [prun, hclose]
        rw [prun_append, k2]
        simp only [prun]
        exact pstep_end sup t ps path name ks hat
    | document => rw [genNode_document]; exact kidsPart ps (by simp [openEntryOf, Tree.value])
    | «attribute» a val => rw [genNode_attribute]; exact kidsPart ps (by simp [openEntryOf, Tree.value])
    | «namespace» p ns => rw [genNode_namespace]; exact kidsPart ps (by simp [openEntryOf, Tree.value])
    | text x => rw [genNode_text]; exact leaf _ rfl (by simp [openEntryOf, Tree.value])
    | comment x => rw [genNode_comment]; exact leaf _ rfl (by simp [openEntryOf, Tree.value])
    | pi tg d => rw [genNode_pi]; exact leaf _ rfl (by simp [openEntryOf, Tree.value])

theorem genKids_ptrace (inScope : List (Nat × Nat)) (path : Path) (i : Nat) (ks : List Tree)
    (hat : ∀ (j : Nat) (k : Tree), ks[j]? = some k → t.at? (path ++ [i + j]) = some k) (ps : PStack) :
    (∀ x ∈ ptrace sup t ps (genNode.genKids inScope path i ks),
        ∃ (j : Nat) (k : Tree) (rel : Path), ks[j]? = some k ∧ x.2.1 = path ++ (i + j) :: rel ∧
          x.1 = pentriesFor sup x.2.2 k rel ++ ps) ∧
    prun sup t ps (genNode.genKids inScope path i ks) = ps := by
  cases ks with
  | nil => simp [genNode.genKids, ptrace, prun]
  | cons k ks' =>
    simp only [genNode.genKids]
    obtain ⟨a1, a2⟩ := genNode_ptrace inScope false (path ++ [i]) k (by simpa using hat 0 k rfl) ps
    obtain ⟨b1, b2⟩ := genKids_ptrace inScope path (i + 1) ks'
      (fun j k' hk => by
        have := hat (j + 1) k' (by simpa using hk)
        rwa [show i + (j + 1) = i + 1 + j by omega] at this) ps
    constructor
    · intro x hx
      rcases (mem_ptrace_append sup t ps _ _ x).mp hx with hx1 | hx1
      · obtain ⟨rel, hp, hs⟩ := a1 x hx1
        exact ⟨0, k, rel, rfl, by simp [hp], hs⟩
      · rw [a2] at hx1
        obtain ⟨j, k', rel, hk, hp, hs⟩ := b1 x hx1
        exact ⟨j + 1, k', rel, by simpa using hk, by rw [hp]; simp; omega, hs⟩
    · rw [prun_append, a2, b2]
end

/-! ### The pretty token stream against the trace -/

theorem prettyAll_ptrace (esc : Escapers) (env : Env) (pr : TokenParams) (ps : PStack) (s : FStack)
    (evs : List (Path × Output)) (ks : List (Path × Output × PrettyOutputToken))
    (h : prettyAllWith esc env pr sup t ps s evs = .ok ks) :
    ∀ k ∈ ks, ∃ ps', (ps', k.1, k.2.1) ∈ ptrace sup t ps evs ∧
      (k.2.2.indentation, k.2.2.newline) = (prettifyAt sup t ps' k.1 k.2.1).2 := by
  induction evs generalizing ps s ks with
  | nil =>
    simp only [prettyAllWith] at h
    cases h
    simp
  | cons po evs ih =>
    obtain ⟨p, o⟩ := po
    simp only [prettyAllWith] at h
    cases hr : renderAtWith esc env pr t s p o with
    | ok st =>
      obtain ⟨s', tok⟩ := st
      simp only [hr] at h
      cases hrest : prettyAllWith esc env pr sup t (prettifyAt sup t ps p o).1 s' evs with
      | ok l =>
        simp only [hrest] at h
        cases h
        intro k hk
        simp only [List.mem_cons] at hk
        rcases hk with rfl | hk
        · exact ⟨ps, by simp [ptrace], rfl⟩
        · obtain ⟨ps', h1, h2⟩ := ih _ _ _ hrest k hk
          exact ⟨ps', by simp only [ptrace, List.mem_cons]; exact Or.inr h1, h2⟩
      | err e => simp [hrest] at h
      | panic => simp [hrest] at h
    | err e => simp [hr] at h
    | panic => simp [hr] at h

/-- From the start node: the `Pretty` stack starts empty. -/
theorem genOutputs_ptrace (start : Path) (n : Tree) (inScope : List (Nat × Nat))
    (hat : t.at? start = some n) (hs : namespacesInScope t start = some inScope)
    (x : PStack × Path × Output) (hx : x ∈ ptrace sup t [] (genOutputs t start)) :
    ∃ rel, x.2.1 = start ++ rel ∧ x.1 = pentriesFor sup x.2.2 n rel := by
  have hg : genOutputs t start = genNode inScope true start n := by simp [genOutputs, hat, hs]
  rw [hg] at hx
  obtain ⟨rel, h1, h2⟩ := (genNode_ptrace sup t inScope true start n hat []).1 x hx
  exact ⟨rel, h1, by simpa using h2⟩

/-! ### Reading the entries off the tree -/

/-- The open elements strictly above the node at `rel`: `a` sits at a proper prefix of `rel`. -/
def OpenAbove (n : Tree) (rel : Path) (a : Tree) : Prop :=
  ∃ rel1 rel2, rel = rel1 ++ rel2 ∧ rel2 ≠ [] ∧ (∃ node, n.at? rel = some node) ∧ n.at? rel1 = some a

theorem mem_openEntryOf {a : Tree} {e : StackEntry} (h : e ∈ openEntryOf sup a) :
    (∃ name, a.value = .element name) ∧ a.firstChild?.isSome = true ∧ e = entryFor sup a := by
  unfold openEntryOf at h
  cases hv : a.value <;> simp [hv] at h
  rename_i name
  exact ⟨⟨name, rfl⟩, h.1, h.2⟩

theorem mem_pentriesAbove (n : Tree) (rel : Path) (node : Tree) (hat : n.at? rel = some node)
    (e : StackEntry) (h : e ∈ pentriesAbove sup n rel) :
    ∃ a, OpenAbove n rel a ∧ e ∈ openEntryOf sup a := by
  induction rel generalizing n with
  | nil => simp [pentriesAbove] at h
  | cons i rel ih =>
    cases n with
    | node v ks =>
      rw [at?_cons] at hat
      cases hk : ks[i]? with
      | none => simp [hk] at hat
      | some k =>
        simp only [hk, Option.bind_some] at hat
        simp only [pentriesAbove, Tree.kids, hk, List.mem_append] at h
        rcases h with h | h
        · obtain ⟨a, ⟨r1, r2, hr, hne, _, ha⟩, he⟩ := ih k hat h
          refine ⟨a, ⟨i :: r1, r2, by simp [hr], hne, ⟨node, by rw [at?_cons, hk]; exact hat⟩, ?_⟩, he⟩
          rw [at?_cons, hk]; exact ha
        · exact ⟨.node v ks, ⟨[], i :: rel, rfl, by simp, ⟨node, by rw [at?_cons, hk]; exact hat⟩, rfl⟩, h⟩

theorem entryFor_mixed_iff (a : Tree) (name : Nat) (hv : a.value = .element name) :
    entryFor sup a = .mixed ↔ (hasInlineChild a = true ∨ sup.contains name = true) := by
  unfold entryFor
  rw [hv]
  by_cases h1 : hasInlineChild a = true
  · simp [h1]
  · by_cases h2 : sup.contains name = true
    · have : name ∈ sup := by simpa using h2
      simp [h1, this]
    · have : name ∉ sup := by simpa using h2
      simp [h1, this]

theorem openAbove_entry (n : Tree) (rel : Path) (a : Tree) (h : OpenAbove n rel a) :
    ∀ e ∈ openEntryOf sup a, e ∈ pentriesAbove sup n rel := by
  obtain ⟨rel1, rel2, hr, hne, ⟨node, hnode⟩, ha⟩ := h
  subst hr
  induction rel1 generalizing n with
  | nil =>
    simp only [Tree.at?, Option.some.injEq] at ha
    subst ha
    cases rel2 with
    | nil => exact absurd rfl hne
    | cons i rel' =>
      cases n with
      | node v ks =>
        simp only [List.nil_append] at hnode ⊢
        rw [at?_cons] at hnode
        cases hk : ks[i]? with
        | none => simp [hk] at hnode
        | some k =>
          intro e he
          simp [pentriesAbove, Tree.kids, hk, he]
  | cons i r1 ih =>
    cases n with
    | node v ks =>
      simp only [List.cons_append] at hnode ⊢
      rw [at?_cons] at hnode ha
      cases hk : ks[i]? with
      | none => simp [hk] at ha
      | some k =>
        simp only [hk, Option.bind_some] at hnode ha
        intro e he
        simp only [pentriesAbove, Tree.kids, hk, List.mem_append]
        exact Or.inl (ih k ha hnode e he)

theorem pentriesIncl_eq (n : Tree) (rel : Path) (node : Tree) (h : n.at? rel = some node) :
    pentriesIncl sup n rel = openEntryOf sup node ++ pentriesAbove sup n rel := by
  induction rel generalizing n with
  | nil =>
    simp only [Tree.at?, Option.some.injEq] at h
    subst h
    simp [pentriesIncl, pentriesAbove]
  | cons i rel ih =>
    cases n with
    | node v ks =>
      rw [at?_cons] at h
      cases hk : ks[i]? with
      | none => simp [hk] at h
      | some k =>
        simp only [hk, Option.bind_some] at h
        simp [pentriesIncl, pentriesAbove, Tree.kids, hk, ih k h]

theorem ownEvent_endTag {inScope : List (Nat × Nat)} {b : Bool} {n : Tree} {name : Nat}
    (h : OwnEvent inScope b n (.endTag name)) : n.value = .element name := by
  unfold OwnEvent edgeStart edgeEnd at h
  cases hv : n.value <;> simp [hv] at h
  rcases h with h1 | h1
  · have h2 := h1.2
    unfold extraPrefixes at h2
    simp at h2
  · rw [h1]

end XotModel
