/-
  XotModel.Lemmas.ArenaStamp — stamps along calls: the magnitude of a slot's stamp never
  decreases, so an id whose stamp is below the magnitude of its slot's stamp (`Gone`) stays
  removed for ever; `remove` of a live id with stamp below 32767 makes it `Gone`.
-/
import XotModel.Lemmas.ArenaRemove

namespace XotModel
namespace Arena

/-- `|x| ≤ |y|` without `natAbs`. -/
def AbsLe (x y : Int) : Prop := (x ≤ y ∨ x ≤ -y) ∧ (-x ≤ y ∨ -x ≤ -y)

/-- Every slot stays, and the magnitude of its stamp does not decrease. -/
def StampMono (a a' : Arena) : Prop :=
  ∀ j s, a.slot j = some s → ∃ s', a'.slot j = some s' ∧ AbsLe s.stamp s'.stamp

theorem StampMono.refl (a : Arena) : StampMono a a := fun _ s hs => ⟨s, hs, by unfold AbsLe; omega⟩

theorem StampMono.trans {a b c : Arena} (h1 : StampMono a b) (h2 : StampMono b c) : StampMono a c := by
  intro j s hs
  obtain ⟨s1, hs1, l1⟩ := h1 j s hs
  obtain ⟨s2, hs2, l2⟩ := h2 j s1 hs1
  exact ⟨s2, hs2, by unfold AbsLe at *; omega⟩

theorem MetaEq.stampMono {a a' : Arena} (h : MetaEq a a') : StampMono a a' := by
  intro j s hs
  obtain ⟨s', hs', hst, _⟩ := h.slot_some hs
  exact ⟨s', hs', by unfold AbsLe; omega⟩

/-- The id was handed out for an earlier occupancy of its slot. -/
def Gone (a : Arena) (id : NodeId) : Prop :=
  ∃ s, a.slot id.index0 = some s ∧ 0 ≤ id.stamp ∧ (id.stamp < s.stamp ∨ id.stamp < -s.stamp)

theorem Gone.mono {a a' : Arena} {id : NodeId} (h : Gone a id) (hm : StampMono a a') : Gone a' id := by
  obtain ⟨s, hs, h0, hlt⟩ := h
  obtain ⟨s', hs', l⟩ := hm _ s hs
  exact ⟨s', hs', h0, by unfold AbsLe at l; omega⟩

theorem Gone.isRemoved {a : Arena} {id : NodeId} (h : Gone a id) : Arena.isRemoved a id = .done a true := by
  obtain ⟨s, hs, h0, hlt⟩ := h
  unfold Arena.isRemoved
  rw [rd_some _ _ _ _ hs]
  have : s.stamp ≠ id.stamp := by omega
  simp [this]

theorem LiveId.isRemoved {a : Arena} {id : NodeId} (h : LiveId a id) : Arena.isRemoved a id = .done a false := by
  obtain ⟨s, hs, _, he⟩ := Rep.liveId_slot h
  unfold Arena.isRemoved
  rw [rd_some _ _ _ _ hs]
  have : id.stamp = s.stamp := by rw [he]
  simp [this]

theorem Gone.not_liveId {a : Arena} {id : NodeId} (h : Gone a id) : ¬ LiveId a id := by
  intro hl
  have h1 := h.isRemoved
  rw [hl.isRemoved] at h1
  cases h1

theorem NewNodeOk.stampMono {a a' : Arena} {g g' : Shape} {v : Nat} {id : NodeId} (r : Rep a g)
    (h : NewNodeOk a g v a' id g') : StampMono a a' := by
  intro j s hs
  by_cases hj : j = id.index0
  · subst hj
    cases hf : g.free with
    | nil =>
      exfalso
      have e := h.slotFresh hf
      have := lt_of_slot hs
      rw [e] at this
      simp [NodeId.index0] at this
    | cons i rest =>
      obtain ⟨s0, hs0, e⟩ := h.slotReuse i rest hf
      have hi : id.index0 = i := by rw [e]; simp [NodeId.index0]
      rw [hi] at hs
      rw [hs0] at hs; cases hs
      obtain ⟨_, ⟨s', hs', _⟩, hid⟩ := h.liveId
      rw [idAt_of_slot hs'] at hid
      have : s'.stamp = -s.stamp := by
        have := congrArg NodeId.stamp hid
        rw [e] at this; simpa using this
      exact ⟨s', hs', by unfold AbsLe; omega⟩
  · exact ⟨s, by rw [h.others j hj]; exact hs, by unfold AbsLe; omega⟩

theorem FreeNodeOk.stampMono {b b' : Arena} {h : Shape} {i : Nat} (r : Rep b h) (ok : FreeNodeOk b h i b') (hi : Live b i) :
    StampMono b b' := by
  intro j s hs
  by_cases hj : j = i
  · subst hj
    obtain ⟨s', hs', hst⟩ := ok.stamp s hs
    obtain ⟨s0, hs0, h0⟩ := hi
    rw [hs] at hs0; cases hs0
    refine ⟨s', hs', ?_⟩
    unfold AbsLe
    split at hst <;> omega
  · have := ok.others j hj
    rw [hs] at this
    cases hs' : b'.slot j with
    | none => rw [hs'] at this; simp at this
    | some s' =>
      rw [hs'] at this
      simp at this
      exact ⟨s', rfl, by unfold AbsLe; omega⟩

/-- After `free_node` the id that was current is `Gone`, unless its stamp is saturated. -/
theorem FreeNodeOk.gone {b b' : Arena} {h : Shape} {i : Nat} (ok : FreeNodeOk b h i b') (hi : Live b i)
    (hlt : (b.idAt i).stamp < 32767) : Gone b' (b.idAt i) := by
  obtain ⟨s, hs, h0⟩ := hi
  obtain ⟨s', hs', hst⟩ := ok.stamp s hs
  have e : (b.idAt i).stamp = s.stamp := by rw [idAt_of_slot hs]
  rw [e] at hlt
  refine ⟨s', by rw [idAt_index0]; exact hs', by rw [e]; exact h0, ?_⟩
  rw [e, hst, if_pos hlt]
  omega

end Arena
end XotModel
