/-
  XotModel.Lemmas.SpanDescOpen — the C17 description invariant `DInv` under `open_element`: the
  attribute loop (name resolution, xml:id normalisation, `attribute_spans`) and the new frame.
-/
import XotModel.Lemmas.SpanDescLeaf

namespace XotModel

/-! ### `add_attribute_spans` -/

theorem get_addAttributeSpans_notin (node : Path) (k : SpanKey) : ∀ (l : List (Nat × Span × Span)) (m : SpanMap),
    (∀ a ∈ l, k ≠ ⟨node, .attributeName a.1⟩ ∧ k ≠ ⟨node, .attributeValue a.1⟩) →
      (m.addAttributeSpans node l).get k = m.get k := by
  intro l
  induction l with
  | nil => intro m _; rfl
  | cons a rest ih =>
    intro m h
    obtain ⟨n, s1, s2⟩ := a
    simp only [SpanMap.addAttributeSpans]
    have ha := h (n, s1, s2) (by simp)
    rw [ih _ (fun x hx => h x (by simp [hx])), get_add_other _ _ _ _ ha.2, get_add_other _ _ _ _ ha.1]

theorem get_addAttributeSpans_path (node : Path) (k : SpanKey) (hk : k.path ≠ node)
    (l : List (Nat × Span × Span)) (m : SpanMap) : (m.addAttributeSpans node l).get k = m.get k :=
  get_addAttributeSpans_notin node k l m (fun a _ =>
    ⟨fun h => hk (by rw [h]), fun h => hk (by rw [h])⟩)

/-- With pairwise different name ids every entry decides its two keys. -/
theorem get_addAttributeSpans_mem (node : Path) : ∀ (l : List (Nat × Span × Span)) (m : SpanMap),
    (l.map (fun a => a.1)).Nodup → ∀ n s1 s2, (n, s1, s2) ∈ l →
      (m.addAttributeSpans node l).get ⟨node, .attributeName n⟩ = some s1 ∧
      (m.addAttributeSpans node l).get ⟨node, .attributeValue n⟩ = some s2 := by
  intro l
  induction l with
  | nil => intro m _ n s1 s2 h; cases h
  | cons a rest ih =>
    intro m hn n s1 s2 hmem
    obtain ⟨x, t1, t2⟩ := a
    simp only [List.map_cons, List.nodup_cons] at hn
    simp only [SpanMap.addAttributeSpans]
    simp only [List.mem_cons, Prod.mk.injEq] at hmem
    rcases hmem with ⟨rfl, rfl, rfl⟩ | hmem
    · have hnot : ∀ a ∈ rest, a.1 ≠ n := by
        intro a ha he
        exact hn.1 (by rw [← he]; exact List.mem_map_of_mem ha)
      rw [get_addAttributeSpans_notin node _ rest _ (fun a ha => ⟨by simp [Ne.symm (hnot a ha)], by simp⟩),
        get_addAttributeSpans_notin node _ rest _ (fun a ha => ⟨by simp, by simp [Ne.symm (hnot a ha)]⟩)]
      refine ⟨?_, get_add_self _ _ _⟩
      rw [get_add_other _ _ _ _ (by simp), get_add_self]
    · exact ih _ hn.2 n s1 s2 hmem

theorem hasKey_addAttributeSpans_cases (node : Path) : ∀ (l : List (Nat × Span × Span)) (m : SpanMap) (k : SpanKey),
    HasKey (m.addAttributeSpans node l) k → HasKey m k ∨ k.path = node := by
  intro l
  induction l with
  | nil => intro m k h; exact .inl h
  | cons a rest ih =>
    intro m k h
    obtain ⟨n, s1, s2⟩ := a
    simp only [SpanMap.addAttributeSpans] at h
    rcases ih _ k h with h | h
    · rcases hasKey_add_cases h with rfl | h
      · exact .inr rfl
      · rcases hasKey_add_cases h with rfl | h
        · exact .inr rfl
        · exact .inl h
    · exact .inr h

/-! ### The attribute loop -/

/-- What the loop has established for the attribute children made so far. -/
structure AttrInv (ts : List Token) (stack : NsStack) (st : AttrLoop) : Prop where
  names : st.aspans.map (fun a => a.1) = st.seenNames
  nodup : st.seenNames.Nodup
  kids : ∀ k ∈ st.rkids, ∀ n v, k.value = .attribute n v →
    ∃ p l val sp, Token.attribute p l val sp ∈ ts ∧ (n, Span.fromPrefixName p l, val.span) ∈ st.aspans ∧
      (∃ raw, parseContentGo true val.start 0 val.text = .ok raw ∧ v = xmlIdValue n raw) ∧
      NameFacts st.env stack true n p.text l.text
  leaves : ∀ k ∈ st.rkids, k.kids = [] ∧ k.value.phase < 2

theorem addAttributes_inv {ts : List Token} (stack : NsStack) (node : Path) (abs : List AttributeBuilder) :
    ∀ (st st' : AttrLoop), (∀ ab ∈ abs, AbFacts ts ab) → AttrInv ts stack st →
      addAttributes stack node st abs = .ok st' →
      AttrInv ts stack st' ∧ SdEnvApp st.env st'.env ∧
        sdDeclsOf st'.rkids.reverse = sdDeclsOf st.rkids.reverse := by
  induction abs with
  | nil =>
    intro st st' _ h hr
    simp only [addAttributes, Step.ok.injEq] at hr
    subst hr
    exact ⟨h, SdEnvApp.refl _, rfl⟩
  | cons ab rest ih =>
    intro st st' habs h hr
    simp only [addAttributes] at hr
    cases hn : attributeNameId st.env stack ab.pfx ab.name ab.prefixSpan with
    | panic => rw [hn] at hr; cases hr
    | err e env => rw [hn] at hr; cases hr
    | ok r =>
      obtain ⟨env1, nameId⟩ := r
      rw [hn] at hr
      simp only at hr
      obtain ⟨happ, hname⟩ := attributeNameId_facts hn
      split at hr
      · cases hr
      · next hnew =>
        split at hr
        · cases hr
        · have hnotin : nameId ∉ st.seenNames := by simpa using hnew
          obtain ⟨p, l, val, sp, htok, e1, e2, e3, e4, e5⟩ := habs ab (by simp)
          refine (fun x => ⟨x.1, happ.trans x.2.1,
            x.2.2.trans (declsOf_reverse_cons _ (by intro q n hh; cases hh))⟩)
            (ih _ st' (fun x hx => habs x (by simp [hx])) ?_ hr)
          · refine ⟨?_, ?_, ?_, ?_⟩
            · simp only [List.map_append, List.map_cons, List.map_nil, h.names]
            · rw [List.nodup_append]
              refine ⟨h.nodup, by simp, ?_⟩
              intro a ha c hc
              simp only [List.mem_singleton] at hc
              subst hc
              intro hac; subst hac
              exact hnotin ha
            · intro k hk n v hkv
              simp only [List.mem_cons] at hk
              rcases hk with rfl | hk
              · simp only [Tree.value, Value.attribute.injEq] at hkv
                obtain ⟨rfl, rfl⟩ := hkv
                refine ⟨p, l, val, sp, htok, ?_, ⟨ab.value, e5, rfl⟩, ?_⟩
                · rw [← e3, ← e4]
                  exact List.mem_append_right _ (List.mem_singleton.mpr rfl)
                · rw [← e1, ← e2]; exact hname
              · obtain ⟨p', l', val', sp', a1, a2, a3, a4⟩ := h.kids k hk n v hkv
                exact ⟨p', l', val', sp', a1, by simp [a2], a3, a4.mono happ⟩
            · intro k hk
              simp only [List.mem_cons] at hk
              rcases hk with rfl | hk
              · exact ⟨rfl, by simp [Tree.value, Value.phase]⟩
              · exact h.leaves k hk

theorem declsOf_namespaceKids (decls : List (Nat × Nat)) : sdDeclsOf (namespaceKids decls).reverse = decls := by
  simp only [namespaceKids, List.reverse_reverse]
  induction decls with
  | nil => rfl
  | cons d ds ih =>
    simp only [List.map_cons, sdDeclsOf, List.filterMap_cons, Tree.value] at ih ⊢
    rw [ih]

theorem descR_leaves {ts : List Token} {g : SpanKey → Option Span} {env : Env} (stack : NsStack) (path : Path) :
    ∀ (l : List Tree), (∀ k ∈ l, k.kids = [] ∧ k.value.phase < 2) → DescR ts g env stack path l := by
  intro l
  induction l with
  | nil => intro _; trivial
  | cons k rest ih =>
    intro h
    refine ⟨?_, ih (fun x hx => h x (by simp [hx]))⟩
    obtain ⟨hk, hph⟩ := h k (by simp)
    cases k with
    | node v ks =>
      simp only [Tree.kids] at hk
      subst hk
      rw [Desc]
      refine ⟨?_, trivial⟩
      cases v <;> simp_all [NodeFacts, Tree.value, Value.phase]

/-! ### `open_element` -/

theorem openElement_dinv {ts done done' : List Token} {b b' : Builder} (h : DInv ts done b)
    (hpre : done' <+: ts) (hr : b.openElement = .ok b') : DInv ts done' b' := by
  unfold Builder.openElement at hr
  cases heb : b.eb with
  | none => rw [heb] at hr; cases hr
  | some eb =>
    rw [heb] at hr
    dsimp only at hr
    cases hn : elementNameId b.env (eb.namespaces :: b.nsStack) eb.pfx eb.name eb.prefixSpan with
    | panic => rw [hn] at hr; cases hr
    | err e env => rw [hn] at hr; cases hr
    | ok r =>
      obtain ⟨env1, nameId⟩ := r
      rw [hn] at hr
      simp only at hr
      obtain ⟨happ1, hname⟩ := elementNameId_facts hn
      split at hr
      · cases hr
      · cases hr
      · next st hst =>
        simp only [Step.ok.injEq] at hr
        subst hr
        obtain ⟨⟨p, l, sp, htok, e1, e2, e3⟩, habs⟩ := h.eb eb heb
        have hinv0 : AttrInv ts (eb.namespaces :: b.nsStack)
            { env := env1, seenIds := b.seenIds, idNodes := b.idNodes, seenNames := [],
              rkids := namespaceKids eb.namespaces, aspans := [] } := by
          refine ⟨rfl, List.nodup_nil, ?_, ?_⟩
          · intro k hk n v hkv
            simp only [namespaceKids, List.mem_reverse, List.mem_map] at hk
            obtain ⟨d, _, rfl⟩ := hk
            cases hkv
          · intro k hk
            simp only [namespaceKids, List.mem_reverse, List.mem_map] at hk
            obtain ⟨d, _, rfl⟩ := hk
            exact ⟨rfl, by simp [Tree.value, Value.phase]⟩
        obtain ⟨hinv, happ2, hdecl⟩ := addAttributes_inv _ _ _ _ st habs hinv0 hst
        have happ : SdEnvApp b.env st.env := happ1.trans happ2
        have hnp := nextPath_eq b
        -- the span map afterwards
        have hget : ∀ k : SpanKey, k.path ≠ b.curPath ++ [b.cur.rkids.length] →
            ((b.spans.add ⟨b.curPath ++ [b.cur.rkids.length], .elementStart⟩ eb.span).addAttributeSpans
              (b.curPath ++ [b.cur.rkids.length]) st.aspans).get k = b.spans.get k := by
          intro k hk
          rw [get_addAttributeSpans_path _ _ hk, get_add_other _ _ _ _ (fun he => hk (by rw [he]))]
        have hprot := prot_of_next hget
        have hstartKey : ((b.spans.add ⟨b.curPath ++ [b.cur.rkids.length], .elementStart⟩ eb.span).addAttributeSpans
              (b.curPath ++ [b.cur.rkids.length]) st.aspans).get ⟨b.curPath ++ [b.cur.rkids.length], .elementStart⟩ =
            some (Span.fromPrefixName p l) := by
          rw [get_addAttributeSpans_notin _ _ _ _ (fun a _ => ⟨by simp, by simp⟩), get_add_self, e3]
        have hpfx : PfxDesc ts ((b.spans.add ⟨b.curPath ++ [b.cur.rkids.length], .elementStart⟩ eb.span).addAttributeSpans
              (b.curPath ++ [b.cur.rkids.length]) st.aspans).get st.env
            (⟨.element nameId, st.rkids⟩ :: b.cur :: b.parents) (eb.pfx :: b.openPrefixes) := by
          refine pfxDesc_of_element (id := nameId) rfl ⟨⟨p, l, sp, htok, by rw [hnp]; exact hstartKey, by rw [e1]; rfl, ?_⟩, ?_⟩
          · obtain ⟨_, ns, hns, _⟩ := hname.mono happ2
            exact ⟨ns, by rw [← e2]; exact hns⟩
          · exact pfxDesc_mono happ _ _ (fun k hk => hprot k (.inr hk)) h.pfx
        refine ⟨hpre, ⟨⟨descR_leaves _ _ _ hinv.leaves, ?_, ?_⟩, ?_⟩, hpfx, (fun e he => by cases he), ?_, ?_⟩
        · -- the start tag
          show StartFacts ts _ st.env (eb.namespaces :: b.nsStack) (framesPath (b.cur :: b.parents)) nameId st.rkids
          rw [hnp]
          refine ⟨⟨p, l, sp, htok, ?_, ?_⟩, ?_⟩
          · rw [get_addAttributeSpans_notin _ _ _ _ (fun a _ => ⟨by simp, by simp⟩), get_add_self, e3]
          · rw [← e1, ← e2]; exact hname.mono happ2
          · intro k hk n v hkv
            obtain ⟨p', l', val', sp', a1, a2, a3, a4⟩ := hinv.kids k hk n v hkv
            obtain ⟨g1, g2⟩ := get_addAttributeSpans_mem (b.curPath ++ [b.cur.rkids.length]) st.aspans
              (b.spans.add ⟨b.curPath ++ [b.cur.rkids.length], .elementStart⟩ eb.span)
              (by rw [hinv.names]; exact hinv.nodup) n _ _ a2
            exact ⟨p', l', val', sp', a1, g1, g2, a3, a4⟩
        · show (eb.namespaces :: b.nsStack).head? = some (sdDeclsOf st.rkids.reverse)
          rw [hdecl, declsOf_namespaceKids]; rfl
        · exact stackDesc_mono happ (b.cur :: b.parents) _ hprot h.stack
        · intro s ks more hrk
          have := (hinv.leaves (.node (.text s) ks) (by
            show Tree.node (.text s) ks ∈ st.rkids
            rw [show st.rkids = Tree.node (.text s) ks :: more from hrk]; simp)).2
          simp [Tree.value, Value.phase] at this
        · intro k hk
          rcases hasKey_addAttributeSpans_cases _ _ _ _ hk with hk | hk
          · rcases hasKey_add_cases hk with rfl | hk
            · exact .inl (by simp only [List.tail_cons]; rw [hnp]; exact List.prefix_refl _)
            · exact (h.seen k hk).push (by simp)
          · exact .inl (by simp only [List.tail_cons]; rw [hk, hnp]; exact List.prefix_refl _)

end XotModel
