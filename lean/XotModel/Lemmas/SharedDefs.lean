/-
  Small specification-side definitions that both the TEXT half (tokenizer, builder, serialiser,
  round trip: `ParseNs*`, `RoundTrip*`, `SerOpt*`, `LexSpell*`) and the comparison / id-map lemmas
  (`Compare*`, `IdMap*`) state theorems with.  They used to be declared twice, word for word, once per
  family, which kept the families from being imported together.  Declared once here; nothing else
  lives in this file.
-/
import XotModel.Model.ParseTypes

namespace XotModel

/-- The expanded name of a name id: (namespace URI, local name) =
    `(namespace_str(namespace_for_name(n)), local_name_str(n))`. -/
def Env.expanded (env : Env) (n : Nat) : Str × Str := (env.namespaceStr (env.nsOfName n), env.localName n)

/-- Character data tokens: text and CDATA sections. -/
def Token.isCharData : Token → Bool
  | .text _ => true
  | .cdata _ _ => true
  | _ => false

end XotModel
