/-
  XotModel.Lemmas.BytesTotal — where the model of `encoding::decode` answers: always, except when
  the declaration names one of the 34 legacy encodings the model knows by name only (and there is no
  byte order mark).  The real `decode` is total (since /repo f576658).
-/
import XotModel.Lemmas.BytesDecode

namespace XotModel.Bytes

theorem decodeWith_isSome (e : Enc) (bs : Bytes) (h : ∀ n, e ≠ .other n) : (decodeWith e bs).isSome = true := by
  cases e with
  | other n => exact absurd rfl (h n)
  | _ => rfl

theorem bomSniff_modelled (bs : Bytes) (e : Enc) (rest : Bytes) (h : bomSniff bs = some (e, rest)) :
    ∀ n, e ≠ .other n := by
  unfold bomSniff at h
  intro n
  split at h
  · cases h; exact fun e => by cases e
  · split at h
    · cases h; exact fun e => by cases e
    · split at h
      · cases h; exact fun e => by cases e
      · cases h

/-- With a byte order mark the model always answers. -/
theorem decodeBytes_isSome_of_bom (bs : Bytes) (h : (bomSniff bs).isSome = true) : (decodeBytes bs).isSome = true := by
  unfold decodeBytes decodeSniffed
  cases hb : bomSniff bs with
  | none => rw [hb] at h; cases h
  | some p =>
    obtain ⟨e, rest⟩ := p
    exact decodeWith_isSome e rest (bomSniff_modelled bs e rest hb)

/-- The model answers unless the encoding chosen is one of those known by name only. -/
theorem decodeBytes_isSome (bs : Bytes) (h : ∀ n, encodingOf bs ≠ some (.other n)) :
    (decodeBytes bs).isSome = true := by
  cases hb : bomSniff bs with
  | some p => exact decodeBytes_isSome_of_bom bs (by rw [hb]; rfl)
  | none =>
    unfold decodeBytes decodeSniffed
    rw [hb]
    apply decodeWith_isSome
    intro n hn
    cases he : encodingOf bs with
    | none => rw [he] at hn; cases hn
    | some e => rw [he] at hn; exact h n (by rw [he]; exact congrArg some hn)

end XotModel.Bytes
