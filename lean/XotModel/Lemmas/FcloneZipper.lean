/-
  Lemmas for C12, part 2: a tree seen from a node on its right-most spine (`fcPlug`), and what the
  primitives do at that node.  During `clone_node` the node being filled (`current`) is always
  the last child of the last child … of the temporary top node.
-/
import XotModel.Lemmas.FcloneBasic

namespace XotModel
open HTree

/-- One step up from the focus: the parent's handle and value, and the siblings to the left
    (the focus is the last child). -/
structure CFrame where
  h : Nat
  v : Value
  left : List HTree

/-- Rebuild the tree: frames from the root inwards, focus `t` at the bottom right. -/
def fcPlug : List CFrame → HTree → HTree
  | [], t => t
  | fr :: fs, t => .node fr.h fr.v (fr.left ++ [fcPlug fs t])

/-- All handles that belong to the frames. -/
def frameHandles : List CFrame → List Nat
  | [] => []
  | fr :: fs => fr.h :: (handlesList fr.left ++ frameHandles fs)

theorem frameHandles_append (A B : List CFrame) :
    frameHandles (A ++ B) = frameHandles A ++ frameHandles B := by
  induction A with
  | nil => rfl
  | cons a A ih => simp [frameHandles, ih, List.append_assoc]

theorem handles_plug (fs : List CFrame) (t : HTree) :
    handles (fcPlug fs t) = frameHandles fs ++ handles t := by
  induction fs with
  | nil => rfl
  | cons fr fs ih =>
    simp [fcPlug, handles, frameHandles, handlesList_append, handlesList_singleton, ih, List.append_assoc]

theorem fcPlug_append (fs : List CFrame) (fr : CFrame) (t : HTree) :
    fcPlug (fs ++ [fr]) t = fcPlug fs (.node fr.h fr.v (fr.left ++ [t])) := by
  induction fs with
  | nil => rfl
  | cons a fs ih => simp [fcPlug, ih]

/-- Handle of the root of the plugged tree. -/
def plugRoot : List CFrame → HTree → Nat
  | [], t => t.handle
  | fr :: _, _ => fr.h

theorem handle_plug (fs : List CFrame) (t : HTree) : (fcPlug fs t).handle = plugRoot fs t := by
  cases fs <;> rfl

theorem plugRoot_mem (fs : List CFrame) (t : HTree) :
    plugRoot fs t ∈ frameHandles fs ++ [t.handle] := by
  cases fs with
  | nil => simp [plugRoot, frameHandles]
  | cons fr fs => simp [plugRoot, frameHandles]

/-! ### the primitives at (or below) the focus -/

theorem find?_node_ne {h h' : Nat} (v : Value) (ks : List HTree) (hne : h' ≠ h) :
    find? h (.node h' v ks) = findList? h ks := by
  simp [find?, hne]

theorem mapAt_node_ne {h h' : Nat} (g : HTree → HTree) (v : Value) (ks : List HTree) (hne : h' ≠ h) :
    mapAt h g (.node h' v ks) = .node h' v (mapAtList h g ks) := by
  simp [mapAt, hne]

theorem ancestorsOf_node_ne {h h' : Nat} (v : Value) (ks : List HTree) (hne : h' ≠ h) :
    ancestorsOf h (.node h' v ks) = (ancestorsOfList h ks).map (· ++ [h']) := by
  simp only [ancestorsOf, if_neg hne]
  cases ancestorsOfList h ks <;> rfl

theorem findList?_singleton (h : Nat) (t : HTree) : findList? h [t] = find? h t := by
  simp only [findList?]
  cases find? h t <;> rfl

theorem ancestorsOfList_singleton (h : Nat) (t : HTree) : ancestorsOfList h [t] = ancestorsOf h t := by
  simp only [ancestorsOfList]
  cases ancestorsOf h t <;> rfl

theorem find?_plug (h : Nat) (fs : List CFrame) (t : HTree) (hn : h ∉ frameHandles fs) :
    find? h (fcPlug fs t) = find? h t := by
  induction fs with
  | nil => rfl
  | cons fr fs ih =>
    simp only [frameHandles, List.mem_cons, List.mem_append, not_or] at hn
    simp only [fcPlug]
    rw [find?_node_ne _ _ (fun e => hn.1 e.symm), findList?_append_of_not_mem h _ _ hn.2.1,
      findList?_singleton, ih hn.2.2]

theorem mapAt_plug (h : Nat) (g : HTree → HTree) (fs : List CFrame) (t : HTree)
    (hn : h ∉ frameHandles fs) : mapAt h g (fcPlug fs t) = fcPlug fs (mapAt h g t) := by
  induction fs with
  | nil => rfl
  | cons fr fs ih =>
    simp only [frameHandles, List.mem_cons, List.mem_append, not_or] at hn
    simp only [fcPlug]
    rw [mapAt_node_ne _ _ _ (fun e => hn.1 e.symm), fc_mapAtList_append, fc_mapAtList_of_not_mem h g _ hn.2.1]
    simp only [mapAtList]
    rw [ih hn.2.2]

theorem mapAt_self (h : Nat) (g : HTree → HTree) (v : Value) (ks : List HTree) :
    mapAt h g (.node h v ks) = g (.node h v ks) := by
  simp [mapAt]

/-- `replaceBelow` reaches the child list of the focus. -/
theorem replaceBelow_plug (h : Nat) (f : HTree → List HTree) (fs : List CFrame) (c : Nat) (vc : Value)
    (K : List HTree) (hn : h ∉ frameHandles fs) (hc : h ≠ c) :
    replaceBelow h f (fcPlug fs (.node c vc K)) = fcPlug fs (.node c vc (replaceKids h f K)) := by
  induction fs with
  | nil => simp [fcPlug, replaceBelow]
  | cons fr fs ih =>
    simp only [frameHandles, List.mem_cons, List.mem_append, not_or] at hn
    simp only [fcPlug]
    rw [show ∀ p v ks, replaceBelow h f (.node p v ks) = .node p v (replaceKids h f ks) from
      fun _ _ _ => by simp [replaceBelow]]
    rw [replaceKids_append_of_not_mem h f _ _ hn.2.1]
    have hr : (fcPlug fs (.node c vc K)).handle ≠ h := by
      rw [handle_plug]
      intro e
      have := plugRoot_mem fs (.node c vc K)
      rw [e] at this
      simp only [List.mem_append, List.mem_singleton, HTree.handle] at this
      cases this with
      | inl h1 => exact hn.2.2 h1
      | inr h1 => exact hc h1
    simp only [replaceKids]
    rw [if_neg hr, ih hn.2.2]

/-- Replacing the last child `x` of the focus. -/
theorem replaceKids_last (h : Nat) (f : HTree → List HTree) (K' : List HTree) (x : HTree)
    (hx : x.handle = h) (hn : h ∉ handlesList K') :
    replaceKids h f (K' ++ [x]) = K' ++ f x := by
  rw [replaceKids_append_of_not_mem h f _ _ hn]
  simp [replaceKids, hx]

theorem ancestorsOf_plug (fs : List CFrame) (t : HTree) (hn : t.handle ∉ frameHandles fs) :
    ancestorsOf t.handle (fcPlug fs t) = some (t.handle :: (fs.map (·.h)).reverse) := by
  induction fs with
  | nil =>
    cases t with
    | node h v ks => simp [fcPlug, ancestorsOf, HTree.handle]
  | cons fr fs ih =>
    simp only [frameHandles, List.mem_cons, List.mem_append, not_or] at hn
    simp only [fcPlug]
    rw [ancestorsOf_node_ne _ _ (fun e => hn.1 e.symm), fc_ancestorsOfList_append_of_not_mem _ _ _ hn.2.1,
      ancestorsOfList_singleton, ih hn.2.2]
    simp

theorem ancestorsOf_plug_mem (fs : List CFrame) (t : HTree) (hn : t.handle ∉ frameHandles fs) :
    ∀ l, ancestorsOf t.handle (fcPlug fs t) = some l → ∀ a ∈ l, a = t.handle ∨ a ∈ frameHandles fs := by
  intro l hl a ha
  rw [ancestorsOf_plug fs t hn] at hl
  cases hl
  simp only [List.mem_cons, List.mem_reverse, List.mem_map] at ha
  cases ha with
  | inl h1 => exact Or.inl h1
  | inr h1 =>
    obtain ⟨fr, hfr, rfl⟩ := h1
    right
    clear hn
    induction fs with
    | nil => cases hfr
    | cons g fs ih =>
      simp only [frameHandles, List.mem_cons, List.mem_append]
      cases hfr with
      | head => exact Or.inl rfl
      | tail _ h2 => exact Or.inr (Or.inr (ih h2))

end XotModel
