/-
  GENERATED COPY (wt-c17str) of the declarations of XotModel.Lemmas.RoundTripScope that depend on `valueOK`, restated in the
  namespace `XotModel.PiColon`, where `valueOK` asks of a PI target what the tokenizer's `consume_name` accepts
  (`nameOK`: colons allowed) instead of an NCName (Lemmas/PiColonDefs.lean).  Proof texts unchanged except where noted.
-/
import XotModel.Lemmas.RoundTripScope
import XotModel.Lemmas.PiColonSerTokensLexTop

namespace XotModel.PiColon
open XotModel.Props

/-- The declarations of one element of a `nodeOK` tree. -/
def DeclsOK (env : Env) (decls : List (Nat × Nat)) : Prop :=
  UniquePrefixes decls ∧ ∀ d ∈ decls, valueOK env (.namespace d.1 d.2) = true

variable {env : Env}

theorem valueOK_namespace_facts {p ns : Nat} (h : valueOK env (.namespace p ns) = true) :
    p ≠ Env.xmlPrefix ∧ ns ≠ Env.xmlNamespace ∧
      (p ≠ Env.emptyPrefix → env.prefixStr p ≠ [] ∧ env.prefixStr p ≠ xmlnsName ∧ ns ≠ Env.noNamespace) ∧
      (ns ≠ Env.noNamespace → env.namespaceStr ns ≠ []) := by
  simp only [valueOK, Bool.and_eq_true, Bool.or_eq_true, beq_iff_eq, bne_iff_ne, ne_eq,
    Bool.not_eq_true', List.isEmpty_eq_false_iff] at h
  obtain ⟨⟨⟨⟨⟨h1, h2⟩, _⟩, h3⟩, h4⟩, _⟩ := h
  refine ⟨h1, h2, fun hp => ?_, fun hn => ?_⟩
  · rcases h3 with h3 | h3
    · exact absurd h3 hp
    · have := h3.1.1
      simp only [ncNameNE, Bool.and_eq_true, Bool.not_eq_true', List.isEmpty_eq_false_iff] at this
      exact ⟨this.2, h3.1.2, h3.2⟩
  · rcases h4 with h4 | h4
    · exact absurd h4 hn
    · exact h4

theorem DeclsOK.prefix_lt (he : EnvFacts env) {decls : List (Nat × Nat)} (h : DeclsOK env decls)
    {d : Nat × Nat} (hd : d ∈ decls) : d.1 < env.prefixes.length := by
  by_cases hp : d.1 = Env.emptyPrefix
  · rw [hp]; exact he.emptyPrefix_lt
  · exact EnvFacts.prefix_lt_of_ne ((valueOK_namespace_facts (h.2 d hd)).2.2.1 hp).1

theorem DeclsOK.namespace_lt (he : EnvFacts env) {decls : List (Nat × Nat)} (h : DeclsOK env decls)
    {d : Nat × Nat} (hd : d ∈ decls) : d.2 < env.namespaces.length := by
  by_cases hp : d.2 = Env.noNamespace
  · rw [hp]; exact he.noNamespace_lt
  · exact EnvFacts.namespace_lt_of_ne ((valueOK_namespace_facts (h.2 d hd)).2.2.2 hp)

/-- The declared prefixes are pairwise different as strings too. -/
theorem DeclsOK.keys_nodup (he : EnvFacts env) {decls : List (Nat × Nat)} (h : DeclsOK env decls) :
    ((decls.map (declStr env)).map Prod.fst).Nodup := by
  rw [List.map_map]
  have : (Prod.fst ∘ declStr env) = (fun d : Nat × Nat => env.prefixStr d.1) := rfl
  rw [this]
  have h1 : (decls.map Prod.fst).Nodup := h.1
  have := nodup_map_of_inj_on env.prefixStr (l := decls.map Prod.fst) (fun a ha b hb hab => by
    obtain ⟨da, hda, rfl⟩ := List.mem_map.mp ha
    obtain ⟨db, hdb, rfl⟩ := List.mem_map.mp hb
    exact he.prefixStr_inj (h.prefix_lt he hda) (h.prefix_lt he hdb) hab) h1
  simpa [List.map_map, Function.comp_def] using this

/-- A declaration of a `nodeOK` tree is none of those `DocumentBuilder::prefix` refuses. -/
theorem valueOK_namespace_not_reserved (he : EnvFacts env) {p ns : Nat}
    (h : valueOK env (.namespace p ns) = true) :
    reservedDecl (env.prefixStr p) (env.namespaceStr ns) = false := by
  obtain ⟨_, hnx, hpfx, hnsne⟩ := valueOK_namespace_facts h
  have hxmlns : env.namespaceStr ns ≠ xmlnsNamespaceUri := by
    simp only [valueOK, Bool.and_eq_true, bne_iff_ne, ne_eq] at h
    exact h.1.1.1.2
  have hnotXmlUri : env.namespaceStr ns ≠ xmlNamespaceUri := by
    intro heq
    have hlt : ns < env.namespaces.length :=
      EnvFacts.namespace_lt_of_ne (by rw [heq]; decide)
    have h1 : env.namespaceStr ns = env.namespaceStr Env.xmlNamespace := by rw [heq, he.ns1]; rfl
    exact hnx (he.namespaceStr_inj hlt he.xmlNamespace_lt h1)
  have hpx : env.prefixStr p ≠ xmlnsName := by
    by_cases hp : p = Env.emptyPrefix
    · rw [hp, he.p0]; decide
    · exact (hpfx hp).2.1
  have hundecl : ¬ (env.prefixStr p ≠ [] ∧ env.namespaceStr ns = []) := by
    rintro ⟨hp1, hu⟩
    have hp : p ≠ Env.emptyPrefix := fun hp => hp1 (by rw [hp, he.p0])
    exact hnsne (hpfx hp).2.2 hu
  have e1 : (env.prefixStr p == ['x', 'm', 'l', 'n', 's']) = false := by simpa [xmlnsName] using hpx
  have e2 : (env.namespaceStr ns == xmlNamespaceUri) = false := by simpa using hnotXmlUri
  have e3 : (env.namespaceStr ns == xmlnsNamespaceUri) = false := by simpa using hxmlns
  simp only [reservedDecl, e1, e2, e3, Bool.and_false, Bool.or_false, Bool.false_or]
  by_cases hp1 : env.prefixStr p = []
  · simp [hp1]
  · have hu : env.namespaceStr ns ≠ [] := fun hu => hundecl ⟨hp1, hu⟩
    have : (env.namespaceStr ns).isEmpty = false := by simpa using hu
    simp [this]

theorem DeclsOK.not_reserved (he : EnvFacts env) {decls : List (Nat × Nat)} (h : DeclsOK env decls) :
    ∀ d ∈ decls.map (declStr env), reservedDecl d.1 d.2 = false := by
  intro d hd
  obtain ⟨x, hx, rfl⟩ := List.mem_map.mp hd
  exact valueOK_namespace_not_reserved he (h.2 x hx)

/-- `push` of an element's declarations keeps the relation. -/
theorem ScopeRel.push (he : EnvFacts env) {s : FStack} {fs : Frames} {sc : Scope}
    (h : ScopeRel env s fs sc) {decls : List (Nat × Nat)} (hd : DeclsOK env decls) :
    ScopeRel env (s.push decls) (decls :: fs) (sc.push (decls.map (declStr env))) := by
  have hmem : ∀ p n, List.lookup p decls = some n → (p, n) ∈ decls := fun p n hl =>
    (lookup_some_iff hd.1 p n).mp hl
  refine ⟨h.inv.push' hd.1, ?_, ?_, ?_, ?_, ?_⟩
  · rw [lookupFrames_cons]
    have : List.lookup Env.xmlPrefix decls = none := by
      rw [lookup_none_iff]
      intro hm
      obtain ⟨d, hd', hd1⟩ := List.mem_map.mp hm
      exact (valueOK_namespace_facts (hd.2 d hd')).1 hd1
    rw [this]; exact h.xmlBound
  · intro p n hl
    rw [lookupFrames_cons] at hl
    cases hq : List.lookup p decls with
    | some m => exact hd.prefix_lt he (hmem p m hq)
    | none => rw [hq] at hl; exact h.valid p n hl
  · intro p n hl
    rw [lookupFrames_cons] at hl
    cases hq : List.lookup p decls with
    | some m =>
      rw [hq] at hl
      exact (Option.some.inj hl) ▸ hd.namespace_lt he (hmem p m hq)
    | none => rw [hq] at hl; exact h.validNs p n hl
  · intro p n hl
    rw [lookupFrames_cons] at hl
    cases hq : List.lookup p decls with
    | some m =>
      have hv := valueOK_namespace_facts (hd.2 _ (hmem p m hq))
      by_cases hp : p = Env.emptyPrefix
      · rw [hp, he.p0]; simp [xmlnsName]
      · exact (hv.2.2.1 hp).2.1
    | none => rw [hq] at hl; exact h.notXmlns p n hl
  · intro p hp
    have hkeys := hd.keys_nodup he
    have hkeys' : (((decls.map (declStr env)).reverse).map Prod.fst).Nodup := by
      rw [List.map_reverse]; exact nodup_reverse_gen.mpr hkeys
    simp only [Scope.push, List.lookup_append, lookupFrames_cons]
    cases hq : List.lookup p decls with
    | some m =>
      have hin : (env.prefixStr p, env.namespaceStr m) ∈ (decls.map (declStr env)).reverse :=
        List.mem_reverse.mpr (List.mem_map.mpr ⟨(p, m), hmem p m hq, rfl⟩)
      rw [(lookup_some_iff_mem hkeys' _ _).mpr hin]
      rfl
    | none =>
      have hnot : p ∉ decls.map Prod.fst := (lookup_none_iff p decls).mp hq
      have : ((decls.map (declStr env)).reverse).lookup (env.prefixStr p) = none := by
        rw [lookup_none_iff_not_mem]
        intro hm
        obtain ⟨x, hx, hx1⟩ := List.mem_map.mp hm
        obtain ⟨d, hd', rfl⟩ := List.mem_map.mp (List.mem_reverse.mp hx)
        have : d.1 = p := he.prefixStr_inj (hd.prefix_lt he hd') hp hx1
        exact hnot (this ▸ List.mem_map_of_mem (f := Prod.fst) hd')
      rw [this]
      simpa using h.look p hp

end XotModel.PiColon
