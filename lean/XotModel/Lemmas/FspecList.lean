/-
  FspecList — facts about ONE child list: `noAdjacentText`, `kidsOrdered`, the specification's
  list functions (`dropTop`, `mergeRuns`, insertions) on a list split at a child.
-/
import XotModel.Lemmas.FspecSite

namespace XotModel
open HTree Spec

/-- The character data of a text node. -/
def textData (t : HTree) : Option Str :=
  match t.value with
  | .text s => some s
  | _ => none

theorem textData_some {t : HTree} {x : Str} (h : textData t = some x) : t.value = .text x := by
  unfold textData at h
  split at h
  · rename_i s hs; rw [hs]; cases h; rfl
  · cases h

theorem textData_of_value {t : HTree} {x : Str} (h : t.value = .text x) : textData t = some x := by
  unfold textData; rw [h]

theorem isText_iff_textData {t : HTree} : t.value.isText = true ↔ ∃ x, textData t = some x := by
  constructor
  · intro h
    cases hv : t.value <;> simp [hv, Value.isText] at h
    exact ⟨_, textData_of_value hv⟩
  · intro ⟨x, hx⟩
    rw [textData_some hx]; rfl

/-! ### `noAdjacentText` -/

theorem noAdj_nil : noAdjacentText [] = true := rfl
theorem noAdj_single (a : HTree) : noAdjacentText [a] = true := rfl
theorem noAdj_cons_cons (a b : HTree) (rest : List HTree) :
    noAdjacentText (a :: b :: rest) = (!(a.value.isText && b.value.isText) && noAdjacentText (b :: rest)) := rfl

theorem noAdj_tail {a : HTree} {rest : List HTree} (h : noAdjacentText (a :: rest) = true) :
    noAdjacentText rest = true := by
  cases rest with
  | nil => rfl
  | cons b rest => rw [noAdj_cons_cons, Bool.and_eq_true] at h; exact h.2

/-- A list is free of adjacent text iff both parts are and the seam is. -/
theorem noAdj_append {l r : List HTree} :
    noAdjacentText (l ++ r) = true ↔
      noAdjacentText l = true ∧ noAdjacentText r = true ∧
      ∀ a b, l.getLast? = some a → r.head? = some b → ¬ (a.value.isText = true ∧ b.value.isText = true) := by
  induction l with
  | nil => simp [noAdj_nil]
  | cons a l ih =>
    cases l with
    | nil =>
      cases r with
      | nil => simp [noAdj_single, noAdj_nil]
      | cons b r =>
        simp only [List.cons_append, List.nil_append, noAdj_cons_cons, noAdj_single, Bool.and_eq_true,
          Bool.not_eq_true', List.getLast?_singleton, List.head?_cons, Option.some.injEq, true_and]
        constructor
        · intro ⟨h1, h2⟩
          refine ⟨h2, ?_⟩
          intro a' b' ea eb; subst ea eb
          intro ⟨x, y⟩; simp [x, y] at h1
        · intro ⟨h2, h3⟩
          refine ⟨?_, h2⟩
          have := h3 a b rfl rfl
          cases hx : a.value.isText <;> cases hy : b.value.isText <;> simp_all
    | cons c l =>
      have ih' := ih
      simp only [List.cons_append] at ih' ⊢
      rw [noAdj_cons_cons, noAdj_cons_cons, Bool.and_eq_true, Bool.and_eq_true, ih']
      have : (a :: c :: l).getLast? = (c :: l).getLast? := by simp [List.getLast?_cons_cons]
      rw [this]
      constructor
      · intro ⟨h1, h2, h3, h4⟩; exact ⟨⟨h1, h2⟩, h3, h4⟩
      · intro ⟨⟨h1, h2⟩, h3, h4⟩; exact ⟨h1, h2, h3, h4⟩

/-! ### `mergeRuns` -/

theorem mergeInto_nil (keep : Keep) (cur : HTree) : mergeInto keep cur [] = [cur] := rfl

theorem mergeInto_cons_text {keep : Keep} {cur b : HTree} {rest : List HTree} {x y : Str}
    (hx : cur.value = .text x) (hy : b.value = .text y) :
    mergeInto keep cur (b :: rest) = mergeInto keep (join keep cur b x y) rest := by
  rw [mergeInto]; simp [hx, hy]

theorem mergeInto_cons_other {keep : Keep} {cur b : HTree} {rest : List HTree}
    (h : ¬ (cur.value.isText = true ∧ b.value.isText = true)) :
    mergeInto keep cur (b :: rest) = cur :: mergeInto keep b rest := by
  rw [mergeInto]
  split
  · rename_i x y hx hy
    exact absurd ⟨by rw [hx]; rfl, by rw [hy]; rfl⟩ h
  · rfl

/-- Nothing to merge. -/
theorem mergeInto_id (keep : Keep) : ∀ (rest : List HTree) (cur : HTree),
    noAdjacentText (cur :: rest) = true → mergeInto keep cur rest = cur :: rest
  | [], cur => fun _ => rfl
  | b :: rest, cur => by
    intro h
    rw [noAdj_cons_cons, Bool.and_eq_true] at h
    have h1 : ¬ (cur.value.isText = true ∧ b.value.isText = true) := by
      intro ⟨x, y⟩; simp [x, y] at h
    rw [mergeInto_cons_other h1, mergeInto_id keep rest b h.2]

theorem mergeRuns_id (keep : Keep) {L : List HTree} (h : noAdjacentText L = true) : mergeRuns keep L = L := by
  cases L with
  | nil => rfl
  | cons a rest => exact mergeInto_id keep rest a h

theorem join_value (keep : Keep) (a b : HTree) (x y : Str) : (join keep a b x y).value = .text (x ++ y) := by
  unfold join
  split
  · cases a; rfl
  · cases b; rfl

/-- One seam: `… a b …` with `a`, `b` text and no other adjacency. -/
theorem mergeInto_seam (keep : Keep) {a b : HTree} {x y : Str} {r : List HTree}
    (hx : a.value = .text x) (hy : b.value = .text y) (hr : noAdjacentText (b :: r) = true) :
    ∀ (l : List HTree) (cur : HTree), noAdjacentText (cur :: (l ++ [a])) = true →
    mergeInto keep cur (l ++ a :: b :: r) = cur :: (l ++ join keep a b x y :: r)
  | [], cur => by
    intro h
    simp only [List.nil_append] at h ⊢
    rw [noAdj_cons_cons, Bool.and_eq_true] at h
    have h1 : ¬ (cur.value.isText = true ∧ a.value.isText = true) := by
      intro ⟨p, q⟩; simp [p, q] at h
    rw [mergeInto_cons_other h1, mergeInto_cons_text hx hy]
    have : noAdjacentText (join keep a b x y :: r) = true := by
      cases r with
      | nil => rfl
      | cons c r =>
        rw [noAdj_cons_cons, Bool.and_eq_true] at hr ⊢
        refine ⟨?_, hr.2⟩
        have hb : b.value.isText = true := by rw [hy]; rfl
        have := hr.1
        simp [hb] at this
        simp [this]
    rw [mergeInto_id keep r _ this]
  | d :: l, cur => by
    intro h
    simp only [List.cons_append] at h ⊢
    rw [noAdj_cons_cons, Bool.and_eq_true] at h
    have h1 : ¬ (cur.value.isText = true ∧ d.value.isText = true) := by
      intro ⟨p, q⟩; simp [p, q] at h
    rw [mergeInto_cons_other h1, mergeInto_seam keep hx hy hr l d h.2]

theorem mergeRuns_seam (keep : Keep) {a b : HTree} {x y : Str} {l r : List HTree}
    (hx : a.value = .text x) (hy : b.value = .text y)
    (hl : noAdjacentText (l ++ [a]) = true) (hr : noAdjacentText (b :: r) = true) :
    mergeRuns keep (l ++ a :: b :: r) = l ++ join keep a b x y :: r := by
  cases l with
  | nil =>
    simp only [List.nil_append, mergeRuns]
    rw [mergeInto_cons_text hx hy]
    have : noAdjacentText (join keep a b x y :: r) = true := by
      cases r with
      | nil => rfl
      | cons c r =>
        rw [noAdj_cons_cons, Bool.and_eq_true] at hr ⊢
        refine ⟨?_, hr.2⟩
        have hb : b.value.isText = true := by rw [hy]; rfl
        have := hr.1
        simp [hb] at this
        simp [this]
    rw [mergeInto_id keep r _ this]
  | cons c l =>
    simp only [List.cons_append, mergeRuns]
    exact mergeInto_seam keep hx hy hr l c hl

/-! ### `dropTop` -/

theorem dropTop_nil (n : Nat) : dropTop n [] = [] := rfl
theorem dropTop_cons (n : Nat) (k : HTree) (ks : List HTree) :
    dropTop n (k :: ks) = if k.handle = n then dropTop n ks else k :: dropTop n ks := rfl

theorem dropTop_eq_filter (n : Nat) : ∀ L : List HTree, dropTop n L = L.filter (fun r => r.handle != n)
  | [] => rfl
  | k :: ks => by
    rw [dropTop_cons, List.filter_cons, dropTop_eq_filter n ks]
    by_cases h : k.handle = n <;> simp [h]

theorem dropTop_of_not_top {n : Nat} : ∀ L : List HTree, (∀ k ∈ L, k.handle ≠ n) → dropTop n L = L
  | [] => fun _ => rfl
  | k :: ks => by
    intro h
    rw [dropTop_cons, if_neg (h k List.mem_cons_self),
      dropTop_of_not_top ks (fun k' hk' => h k' (List.mem_cons_of_mem _ hk'))]

theorem dropTop_append (n : Nat) (a b : List HTree) : dropTop n (a ++ b) = dropTop n a ++ dropTop n b := by
  induction a with
  | nil => rfl
  | cons k ks ih =>
    rw [List.cons_append, dropTop_cons, dropTop_cons, ih]
    split <;> rfl

theorem dropTop_mid {n : Nat} {l : List HTree} {s : HTree} {r : List HTree} (hs : s.handle = n)
    (hl : ∀ k ∈ l, k.handle ≠ n) (hr : ∀ k ∈ r, k.handle ≠ n) : dropTop n (l ++ s :: r) = l ++ r := by
  rw [dropTop_append, dropTop_cons, if_pos hs, dropTop_of_not_top l hl, dropTop_of_not_top r hr]

/-- In a child list with distinct handles, the other children do not carry the handle of `s`. -/
theorem tops_ne_of_nodup {l : List HTree} {s : HTree} {r : List HTree}
    (nd : (handlesList (l ++ s :: r)).Nodup) :
    (∀ k ∈ l, k.handle ≠ s.handle) ∧ (∀ k ∈ r, k.handle ≠ s.handle) := by
  obtain ⟨m1, m2, _⟩ := nodup_mid nd
  exact ⟨fun k hk e => m1 _ (fs_handle_mem_handles s) (e ▸ handle_mem_handlesList hk),
    fun k hk e => m2 _ (fs_handle_mem_handles s) (e ▸ handle_mem_handlesList hk)⟩

/-! ### `kidsOrdered` -/

theorem kidsOrdered_cons_cons (a b : HTree) (rest : List HTree) :
    kidsOrdered (a :: b :: rest) = (decide (a.value.category.rank ≤ b.value.category.rank) && kidsOrdered (b :: rest)) := rfl

theorem kidsOrdered_tail {a : HTree} {rest : List HTree} (h : kidsOrdered (a :: rest) = true) :
    kidsOrdered rest = true := by
  cases rest with
  | nil => rfl
  | cons b rest => rw [kidsOrdered_cons_cons, Bool.and_eq_true] at h; exact h.2

theorem kidsOrdered_drop : ∀ (l : List HTree) {r : List HTree}, kidsOrdered (l ++ r) = true → kidsOrdered r = true
  | [], _ => fun h => h
  | a :: l, _ => fun h => kidsOrdered_drop l (kidsOrdered_tail h)

/-- Ranks increase along an ordered list. -/
theorem kidsOrdered_rank_le {a : HTree} : ∀ (rest : List HTree), kidsOrdered (a :: rest) = true →
    ∀ b ∈ rest, a.value.category.rank ≤ b.value.category.rank
  | [], _ => by intro b hb; cases hb
  | c :: rest, h => by
    rw [kidsOrdered_cons_cons, Bool.and_eq_true, decide_eq_true_eq] at h
    intro b hb
    cases List.mem_cons.1 hb with
    | inl e => rw [e]; exact h.1
    | inr e => exact Nat.le_trans h.1 (kidsOrdered_rank_le rest h.2 b e)

theorem rank_normal {v : Value} : v.category.rank = 2 ↔ v.category = .normal := by
  cases hv : v.category <;> simp [Category.rank]

theorem rank_le_two (c : Category) : c.rank ≤ 2 := by cases c <;> simp [Category.rank]

theorem text_category {v : Value} (h : v.isText = true) : v.category = .normal := by
  cases v <;> simp_all [Value.isText, Value.category]

/-- A node between two text nodes of an ordered child list is a normal node. -/
theorem between_texts_normal {l : List HTree} {a k b : HTree} {r : List HTree}
    (ho : kidsOrdered (l ++ a :: k :: b :: r) = true) (ha : a.value.isText = true) :
    k.value.category = .normal := by
  have h1 := kidsOrdered_drop l ho
  have := kidsOrdered_rank_le _ h1 k List.mem_cons_self
  rw [rank_normal.2 (text_category ha)] at this
  exact rank_normal.1 (Nat.le_antisymm (rank_le_two _) this)

end XotModel
