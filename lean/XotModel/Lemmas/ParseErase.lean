/-
  "Byte positions do not matter" for the builder (`Model/Parse.lean`): two token lists with the
  same `Token.erase` image give the same tree, interning tables and id map (or both fail).

  Contents: `parseContentGo` modulo positions; the position-free erasure of a builder state
  (`Builder.erase`) and of a step result (`Step.er`); every `DocumentBuilder` operation,
  `Builder.step` and `Builder.run` modulo erasure; the epilogues; `build_erase_lex`,
  `build_erase`, `build_erase_ok`.
-/
import XotModel.Model.Parse
import XotModel.Model.TokenRender
import XotModel.Lemmas.ParseQName

namespace XotModel

/-! ### `parse_content` modulo positions -/

/-- The success value of an `Except`. -/
def okOf {ε α : Type} : Except ε α → Option α
  | .ok a => some a
  | .error _ => none

theorem okOf_consOk (c : Char) {r r' : Except ContentErr Str} (h : okOf r = okOf r') :
    okOf (consOk c r) = okOf (consOk c r') := by
  cases r <;> cases r' <;> simp_all [okOf, consOk]

/-- `parse_content` reads `base_position` / the running offset only for error payloads. -/
theorem parseContentGo_okOf (attr : Bool) (base base' : Nat) :
    ∀ (n : Nat) (s : Str) (pos pos' : Nat), s.length = n →
      okOf (parseContentGo attr base pos s) = okOf (parseContentGo attr base' pos' s) := by
  intro n
  induction n using Nat.strongRecOn with
  | _ n ih =>
    intro s pos pos' hn
    match s, hn with
    | [], _ => rw [parseContentGo.eq_def, parseContentGo.eq_def]
    | c :: rest, hn =>
      rw [parseContentGo.eq_def attr base, parseContentGo.eq_def attr base']
      simp only
      simp only [List.length_cons] at hn
      split
      · have hl := skipLf_length rest
        exact okOf_consOk _ (ih _ (by omega) _ _ _ rfl)
      · split
        · split
          · rename_i h1
            rfl
          · rename_i ent rest' h1
            have hl := splitSemi_length h1
            cases decodeEntity ent with
            | none => rfl
            | some ch => exact okOf_consOk _ (ih _ (by omega) _ _ _ rfl)
        · split
          · exact okOf_consOk _ (ih _ (by omega) _ _ _ rfl)
          · exact okOf_consOk _ (ih _ (by omega) _ _ _ rfl)

/-- Both fail, or both succeed with the same value. -/
theorem parseContentGo_cases (attr : Bool) (base base' pos pos' : Nat) (s : Str) :
    (∃ e e', parseContentGo attr base pos s = .error e ∧ parseContentGo attr base' pos' s = .error e') ∨
    (∃ v, parseContentGo attr base pos s = .ok v ∧ parseContentGo attr base' pos' s = .ok v) := by
  have h := parseContentGo_okOf attr base base' s.length s pos pos' rfl
  cases h1 : parseContentGo attr base pos s <;> cases h2 : parseContentGo attr base' pos' s <;>
    simp_all [okOf]

/-! ### The position-free part of a builder state -/

/-- Forget the spans of a pending attribute. -/
def AttributeBuilder.erase (a : AttributeBuilder) : AttributeBuilder :=
  { a with nameSpan := ⟨0, 0⟩, valueSpan := ⟨0, 0⟩, prefixSpan := ⟨0, 0⟩ }

/-- Forget the spans of a pending start tag. -/
def ElementBuilder.erase (e : ElementBuilder) : ElementBuilder :=
  { e with attributes := e.attributes.map AttributeBuilder.erase, prefixSpan := ⟨0, 0⟩, span := ⟨0, 0⟩ }

/-- Forget every position a builder state holds: `SpanInfo` and the spans of the pending tag. -/
def Builder.erase (b : Builder) : Builder :=
  { b with eb := b.eb.map ElementBuilder.erase, spans := [] }

/-- The position-free part of a step result: failures are all alike. -/
def Step.er {α β : Type} (f : α → β) : Step α → Option β
  | .ok a => some (f a)
  | _ => none

@[simp] theorem Step.er_ok {α β : Type} (f : α → β) (a : α) : (Step.ok a).er f = some (f a) := rfl
@[simp] theorem Step.er_err {α β : Type} (f : α → β) (e : ParseErr) (env : Env) :
    (Step.err e env : Step α).er f = none := rfl
@[simp] theorem Step.er_panic {α β : Type} (f : α → β) : (Step.panic : Step α).er f = none := rfl

/-- Both fail, or both succeed with results that agree after erasure. -/
theorem Step.er_cases {α β : Type} {f : α → β} {r r' : Step α} (h : r.er f = r'.er f) :
    (r.er f = none ∧ r'.er f = none) ∨ (∃ a a', r = .ok a ∧ r' = .ok a' ∧ f a = f a') := by
  cases r <;> cases r' <;> simp_all

theorem Step.er_none {α β : Type} {f : α → β} {r : Step α} (h : r.er f = none) :
    r = .panic ∨ ∃ e env, r = .err e env := by
  cases r <;> simp_all

theorem Builder.erase_eq_iff (b b' : Builder) : b.erase = b'.erase ↔
    b.env = b'.env ∧ b.cur = b'.cur ∧ b.parents = b'.parents ∧ b.nsStack = b'.nsStack ∧
    b.eb.map ElementBuilder.erase = b'.eb.map ElementBuilder.erase ∧
    b.seenIds = b'.seenIds ∧ b.idNodes = b'.idNodes ∧ b.openPrefixes = b'.openPrefixes := by
  obtain ⟨a1, a2, a3, a4, a5, a6, a7, a8, a9⟩ := b
  obtain ⟨b1, b2, b3, b4, b5, b6, b7, b8, b9⟩ := b'
  simp only [Builder.erase, Builder.mk.injEq, true_and]

theorem ElementBuilder.erase_eq_iff (e e' : ElementBuilder) : e.erase = e'.erase ↔
    e.pfx = e'.pfx ∧ e.name = e'.name ∧ e.namespaces = e'.namespaces ∧
    e.attributes.map AttributeBuilder.erase = e'.attributes.map AttributeBuilder.erase := by
  obtain ⟨a1, a2, a3, a4, a5, a6⟩ := e
  obtain ⟨b1, b2, b3, b4, b5, b6⟩ := e'
  simp only [ElementBuilder.erase, ElementBuilder.mk.injEq, and_true]

theorem AttributeBuilder.erase_eq_iff (a a' : AttributeBuilder) : a.erase = a'.erase ↔
    a.pfx = a'.pfx ∧ a.name = a'.name ∧ a.value = a'.value := by
  obtain ⟨a1, a2, a3, a4, a5, a6⟩ := a
  obtain ⟨b1, b2, b3, b4, b5, b6⟩ := a'
  simp only [AttributeBuilder.erase, AttributeBuilder.mk.injEq, and_true]

/-- Erasure-equal pending tags: both absent, or both present and erasure-equal. -/
theorem eb_erase_cases {o o' : Option ElementBuilder}
    (h : o.map ElementBuilder.erase = o'.map ElementBuilder.erase) :
    (o = none ∧ o' = none) ∨ (∃ e e', o = some e ∧ o' = some e' ∧ e.erase = e'.erase) := by
  cases o <;> cases o' <;> simp_all

/-! ### The operations of `DocumentBuilder` modulo positions -/

theorem prefix_erase {b b' : Builder} (hb : b.erase = b'.erase) (pfx : Str) {uri uri' : StrSpan}
    (hu : uri.text = uri'.text) (sp sp' : Span) :
    (b.prefix pfx uri sp).er Builder.erase = (b'.prefix pfx uri' sp').er Builder.erase := by
  obtain ⟨h1, h2, h3, h4, h5, h6, h7, h8⟩ := (Builder.erase_eq_iff b b').1 hb
  unfold Builder.prefix
  rw [← hu]
  rcases parseContentGo_cases true uri.start uri'.start 0 0 uri.text with ⟨e, e', p1, p2⟩ | ⟨v, p1, p2⟩
  · rw [p1, p2]; rfl
  · rw [p1, p2]
    simp only
    by_cases hr : reservedDecl pfx v = true
    · simp only [hr, if_true]; rfl
    simp only [hr, if_false, Bool.false_eq_true]
    rcases eb_erase_cases h5 with ⟨q1, q2⟩ | ⟨e, e', q1, q2, q3⟩
    · rw [q1, q2]
    · rw [q1, q2]
      obtain ⟨r1, r2, r3, r4⟩ := (ElementBuilder.erase_eq_iff e e').1 q3
      simp only [← h1, ← r3]
      split
      · rfl
      · simp only [Step.er_ok, Option.some.injEq]
        rw [Builder.erase_eq_iff]
        simp only [Option.map_some, Option.some.injEq, ElementBuilder.erase_eq_iff]
        exact ⟨trivial, h2, h3, h4, ⟨r1, r2, trivial, r4⟩, h6, h7, h8⟩

theorem any_attr_erase (l : List AttributeBuilder) (x y : Str) :
    l.any (fun ab => ab.pfx == x && ab.name == y) =
      (l.map AttributeBuilder.erase).any (fun ab => ab.pfx == x && ab.name == y) := by
  rw [List.any_map]; rfl

theorem attribute_erase {b b' : Builder} (hb : b.erase = b'.erase)
    {pfx pfx' loc loc' value value' : StrSpan}
    (hp : pfx.text = pfx'.text) (hl : loc.text = loc'.text) (hv : value.text = value'.text) :
    (b.attribute pfx loc value).er Builder.erase = (b'.attribute pfx' loc' value').er Builder.erase := by
  obtain ⟨h1, h2, h3, h4, h5, h6, h7, h8⟩ := (Builder.erase_eq_iff b b').1 hb
  unfold Builder.attribute
  rcases eb_erase_cases h5 with ⟨q1, q2⟩ | ⟨e, e', q1, q2, q3⟩
  · rw [q1, q2]
  · rw [q1, q2]
    obtain ⟨r1, r2, r3, r4⟩ := (ElementBuilder.erase_eq_iff e e').1 q3
    simp only [← hp, ← hl, ← hv]
    rw [any_attr_erase e.attributes, any_attr_erase e'.attributes, r4]
    split
    · rfl
    · rcases parseContentGo_cases true value.start value'.start 0 0 value.text with
        ⟨e, e', p1, p2⟩ | ⟨v, p1, p2⟩
      · rw [p1, p2]; rfl
      · rw [p1, p2]
        simp only [Step.er_ok, Option.some.injEq]
        rw [Builder.erase_eq_iff]
        simp only [Option.map_some, Option.some.injEq, ElementBuilder.erase_eq_iff, List.map_append,
          List.map_cons, List.map_nil, r4]
        exact ⟨h1, h2, h3, h4, ⟨r1, r2, r3, rfl⟩, h6, h7, h8⟩

/-- Forget `attribute_spans`. -/
def AttrLoop.erase (st : AttrLoop) : AttrLoop := { st with aspans := [] }

theorem attributeNameId_er (env : Env) (stack : NsStack) (pfx name : Str) (sp sp' : Span) :
    (∃ r, attributeNameId env stack pfx name sp = .ok r ∧ attributeNameId env stack pfx name sp' = .ok r) ∨
    (∃ e e' v, attributeNameId env stack pfx name sp = .err e v ∧
      attributeNameId env stack pfx name sp' = .err e' v) := by
  unfold attributeNameId
  simp only
  split
  · exact .inl ⟨_, rfl, rfl⟩
  · cases lookupPrefix stack (env.internPrefix pfx).2 with
    | some ns => exact .inl ⟨_, rfl, rfl⟩
    | none => exact .inr ⟨_, _, _, rfl, rfl⟩

theorem elementNameId_er (env : Env) (stack : NsStack) (pfx name : Str) (sp sp' : Span) :
    (∃ r, elementNameId env stack pfx name sp = .ok r ∧ elementNameId env stack pfx name sp' = .ok r) ∨
    (∃ e e' v, elementNameId env stack pfx name sp = .err e v ∧
      elementNameId env stack pfx name sp' = .err e' v) := by
  unfold elementNameId
  simp only
  cases lookupPrefix stack (env.internPrefix pfx).2 with
  | some ns => exact .inl ⟨_, rfl, rfl⟩
  | none => exact .inr ⟨_, _, _, rfl, rfl⟩

theorem addAttributes_erase (stack : NsStack) (node : Path) :
    ∀ (abs abs' : List AttributeBuilder) (st st' : AttrLoop),
      abs.map AttributeBuilder.erase = abs'.map AttributeBuilder.erase → st.erase = st'.erase →
      (addAttributes stack node st abs).er AttrLoop.erase =
        (addAttributes stack node st' abs').er AttrLoop.erase := by
  intro abs
  induction abs with
  | nil =>
    intro abs' st st' ha hst
    cases abs' with
    | nil => simp only [addAttributes, Step.er_ok, hst]
    | cons a' r' => simp at ha
  | cons a r ih =>
    intro abs' st st' ha hst
    cases abs' with
    | nil => simp at ha
    | cons a' r' =>
      simp only [List.map_cons, List.cons.injEq, AttributeBuilder.erase_eq_iff] at ha
      obtain ⟨⟨a1, a2, a3⟩, ha⟩ := ha
      obtain ⟨env, seenIds, idNodes, seenNames, rkids, aspans⟩ := st
      obtain ⟨env', seenIds', idNodes', seenNames', rkids', aspans'⟩ := st'
      simp only [AttrLoop.erase, AttrLoop.mk.injEq, and_true] at hst
      obtain ⟨rfl, rfl, rfl, rfl, rfl⟩ := hst
      simp only [addAttributes, ← a1, ← a2, ← a3]
      rcases attributeNameId_er env stack a.pfx a.name a.prefixSpan a'.prefixSpan with
        ⟨⟨env1, nameId⟩, p1, p2⟩ | ⟨e, e', v, p1, p2⟩
      · rw [p1, p2]
        simp only
        split
        · rfl
        · split
          · rfl
          · exact ih r' _ _ ha (by simp only [AttrLoop.erase])
      · rw [p1, p2]; rfl

theorem AttrLoop.erase_eq_iff (s s' : AttrLoop) : s.erase = s'.erase ↔
    s.env = s'.env ∧ s.seenIds = s'.seenIds ∧ s.idNodes = s'.idNodes ∧ s.seenNames = s'.seenNames ∧
    s.rkids = s'.rkids := by
  obtain ⟨a1, a2, a3, a4, a5, a6⟩ := s
  obtain ⟨b1, b2, b3, b4, b5, b6⟩ := s'
  simp only [AttrLoop.erase, AttrLoop.mk.injEq, and_true]

theorem curPath_congr {b b' : Builder} (h : b.parents = b'.parents) : b.curPath = b'.curPath := by
  unfold Builder.curPath; rw [h]

theorem openElement_erase {b b' : Builder} (hb : b.erase = b'.erase) :
    b.openElement.er Builder.erase = b'.openElement.er Builder.erase := by
  obtain ⟨h1, h2, h3, h4, h5, h6, h7, h8⟩ := (Builder.erase_eq_iff b b').1 hb
  unfold Builder.openElement
  rcases eb_erase_cases h5 with ⟨q1, q2⟩ | ⟨e, e', q1, q2, q3⟩
  · rw [q1, q2]
  · rw [q1, q2]
    obtain ⟨r1, r2, r3, r4⟩ := (ElementBuilder.erase_eq_iff e e').1 q3
    simp only [← h1, ← h2, ← h4, ← h6, ← h7, ← r1, ← r2, ← r3, ← curPath_congr h3]
    rcases elementNameId_er b.env (e.namespaces :: b.nsStack) e.pfx e.name e.prefixSpan e'.prefixSpan with
      ⟨⟨env1, nameId⟩, p1, p2⟩ | ⟨x, x', v, p1, p2⟩
    · rw [p1, p2]
      simp only
      have ha := addAttributes_erase (e.namespaces :: b.nsStack) (b.curPath ++ [b.cur.rkids.length])
        e.attributes e'.attributes
        { env := env1, seenIds := b.seenIds, idNodes := b.idNodes, seenNames := [],
          rkids := namespaceKids e.namespaces, aspans := [] }
        { env := env1, seenIds := b.seenIds, idNodes := b.idNodes, seenNames := [],
          rkids := namespaceKids e.namespaces, aspans := [] } r4 rfl
      rcases Step.er_cases ha with ⟨n1, n2⟩ | ⟨st, st', s1, s2, s3⟩
      · rcases Step.er_none n1 with n1 | ⟨_, _, n1⟩ <;> rcases Step.er_none n2 with n2 | ⟨_, _, n2⟩ <;>
          rw [n1, n2] <;> rfl
      · rw [s1, s2]
        obtain ⟨t1, t2, t3, t4, t5⟩ := (AttrLoop.erase_eq_iff st st').1 s3
        simp only [Step.er_ok, Option.some.injEq]
        rw [Builder.erase_eq_iff]
        simp only [t1, t2, t3, t5, h3, h8, r1, Option.map_none, and_self]
    · rw [p1, p2]; rfl

theorem addText_erase {b b' : Builder} (hb : b.erase = b'.erase) (c : Str) :
    (b.addText c).1.erase = (b'.addText c).1.erase := by
  obtain ⟨h1, h2, h3, h4, h5, h6, h7, h8⟩ := (Builder.erase_eq_iff b b').1 hb
  unfold Builder.addText
  rw [← h2]
  split <;> (rw [Builder.erase_eq_iff]; exact ⟨h1, rfl, h3, h4, h5, h6, h7, h8⟩)

theorem text_erase {b b' : Builder} (hb : b.erase = b'.erase) {t t' : StrSpan} (ht : t.text = t'.text) :
    (b.text t).er Builder.erase = (b'.text t').er Builder.erase := by
  unfold Builder.text
  rw [← ht]
  rcases parseContentGo_cases false t.start t'.start 0 0 t.text with ⟨e, e', p1, p2⟩ | ⟨v, p1, p2⟩
  · rw [p1, p2]; rfl
  · rw [p1, p2]
    simp only [Step.er_ok, Option.some.injEq]
    exact addText_erase hb v

theorem cdata_erase {b b' : Builder} (hb : b.erase = b'.erase) {t t' : StrSpan} (ht : t.text = t'.text) :
    (b.cdata t).er Builder.erase = (b'.cdata t').er Builder.erase := by
  unfold Builder.cdata
  rw [← ht]
  split
  · simp only [Step.er_ok, hb]
  · simp only [Step.er_ok, Option.some.injEq]
    exact addText_erase hb _

theorem toParent_erase {b b' : Builder} (hb : b.erase = b'.erase) :
    b.toParent.er Builder.erase = b'.toParent.er Builder.erase := by
  obtain ⟨h1, h2, h3, h4, h5, h6, h7, h8⟩ := (Builder.erase_eq_iff b b').1 hb
  unfold Builder.toParent
  rw [← h3, ← h2]
  split
  · rfl
  · simp only [Step.er_ok, Option.some.injEq]
    rw [Builder.erase_eq_iff]
    exact ⟨h1, rfl, rfl, h4, h5, h6, h7, h8⟩

theorem leave_erase {b b' : Builder} (hb : b.erase = b'.erase) (node node' : Path) (sp sp' : StrSpan) :
    (b.leave node sp).er Builder.erase = (b'.leave node' sp').er Builder.erase := by
  have h := toParent_erase hb
  unfold Builder.leave
  rcases Step.er_cases h with ⟨n1, n2⟩ | ⟨c, c', s1, s2, s3⟩
  · rcases Step.er_none n1 with n1 | ⟨_, _, n1⟩ <;> rcases Step.er_none n2 with n2 | ⟨_, _, n2⟩ <;>
      rw [n1, n2] <;> rfl
  · rw [s1, s2]
    simp only [Step.er_ok, Option.some.injEq]
    exact s3

theorem closeImmediate_erase {b b' : Builder} (hb : b.erase = b'.erase) (sp sp' : StrSpan) :
    (b.closeImmediate sp).er Builder.erase = (b'.closeImmediate sp').er Builder.erase := by
  obtain ⟨h1, h2, h3, h4, h5, h6, h7, h8⟩ := (Builder.erase_eq_iff b b').1 hb
  unfold Builder.closeImmediate
  apply leave_erase
  rw [← h2]
  split
  · rw [Builder.erase_eq_iff]; exact ⟨h1, rfl, h3, by simp only [h4], h5, h6, h7, by simp only [h8]⟩
  · exact hb

theorem closeElement_erase {b b' : Builder} (hb : b.erase = b'.erase) {pfx pfx' loc loc' : StrSpan}
    (hp : pfx.text = pfx'.text) (hl : loc.text = loc'.text) (sp sp' : StrSpan) :
    (b.closeElement pfx loc sp).er Builder.erase = (b'.closeElement pfx' loc' sp').er Builder.erase := by
  obtain ⟨h1, h2, h3, h4, h5, h6, h7, h8⟩ := (Builder.erase_eq_iff b b').1 hb
  unfold Builder.closeElement
  rw [← h1, ← h4, ← hp, ← hl, ← h3, ← h2, ← h8]
  rcases elementNameId_er b.env b.nsStack pfx.text loc.text pfx.span pfx'.span with
    ⟨⟨env1, nameId⟩, p1, p2⟩ | ⟨x, x', v, p1, p2⟩
  · rw [p1, p2]
    simp only
    split
    · rfl
    · split
      · split
        · rfl
        · apply leave_erase
          rw [Builder.erase_eq_iff]; exact ⟨rfl, rfl, rfl, rfl, h5, h6, h7, rfl⟩
      · apply leave_erase
        rw [Builder.erase_eq_iff]; exact ⟨rfl, rfl, rfl, rfl, h5, h6, h7, rfl⟩
  · rw [p1, p2]; rfl

theorem element_erase {b b' : Builder} (hb : b.erase = b'.erase) {pfx pfx' loc loc' : StrSpan}
    (hp : pfx.text = pfx'.text) (hl : loc.text = loc'.text) :
    (b.element pfx loc).erase = (b'.element pfx' loc').erase := by
  obtain ⟨h1, h2, h3, h4, h5, h6, h7, h8⟩ := (Builder.erase_eq_iff b b').1 hb
  rw [Builder.erase_eq_iff]
  refine ⟨h1, h2, h3, h4, ?_, h6, h7, h8⟩
  simp only [Builder.element, Option.map_some, Option.some.injEq, ElementBuilder.erase_eq_iff,
    ElementBuilder.new, hp, hl, List.map_nil, and_self]

theorem comment_erase {b b' : Builder} (hb : b.erase = b'.erase) {t t' : StrSpan} (ht : t.text = t'.text) :
    (b.comment t).erase = (b'.comment t').erase := by
  obtain ⟨h1, h2, h3, h4, h5, h6, h7, h8⟩ := (Builder.erase_eq_iff b b').1 hb
  rw [Builder.erase_eq_iff]
  simp only [Builder.comment, Builder.addLeaf, ht, h2]
  exact ⟨h1, trivial, h3, h4, h5, h6, h7, h8⟩

theorem pi_erase {b b' : Builder} (hb : b.erase = b'.erase) {t t' : StrSpan} (ht : t.text = t'.text)
    {c c' : Option StrSpan} (hc : c.map (fun x => x.text) = c'.map (fun x => x.text)) :
    (b.processingInstruction t c).erase = (b'.processingInstruction t' c').erase := by
  obtain ⟨h1, h2, h3, h4, h5, h6, h7, h8⟩ := (Builder.erase_eq_iff b b').1 hb
  rw [Builder.erase_eq_iff]
  have hc' : c.map (fun x => normalizeLineEnds x.text) = c'.map (fun x => normalizeLineEnds x.text) := by
    cases c <;> cases c' <;> simp_all
  simp only [Builder.processingInstruction, Builder.addLeaf, ht, h1, h2, hc']
  exact ⟨trivial, trivial, h3, h4, h5, h6, h7, h8⟩

/-! ### One token, the token loop -/

/-- An arm commutes with erasure of the token (and of the state). -/
theorem stepCore_erase1 {b b' : Builder} (hb : b.erase = b'.erase) (t : Token) :
    (b.stepCore t).er Builder.erase = (b'.stepCore t.erase).er Builder.erase := by
  cases t with
  | «attribute» pfx loc value sp =>
    simp only [Token.erase, Builder.stepCore, StrSpan.erase]
    split
    · exact prefix_erase hb _ (by rfl) _ _
    · split
      · exact prefix_erase hb _ (by rfl) _ _
      · exact attribute_erase hb (by rfl) (by rfl) (by rfl)
  | text t => simp only [Token.erase, Builder.stepCore]; exact text_erase hb (by rfl)
  | cdata t sp => simp only [Token.erase, Builder.stepCore]; exact cdata_erase hb (by rfl)
  | elementStart pfx loc sp =>
    simp only [Token.erase, Builder.stepCore, Step.er_ok, Option.some.injEq]
    exact element_erase hb (by rfl) (by rfl)
  | elementEnd e sp =>
    cases e with
    | «open» => simp only [Token.erase, Builder.stepCore]; exact openElement_erase hb
    | close pfx loc => simp only [Token.erase, Builder.stepCore]; exact closeElement_erase hb (by rfl) (by rfl) _ _
    | empty =>
      simp only [Token.erase, Builder.stepCore]
      rcases Step.er_cases (openElement_erase hb) with ⟨n1, n2⟩ | ⟨c, c', s1, s2, s3⟩
      · rcases Step.er_none n1 with n1 | ⟨_, _, n1⟩ <;> rcases Step.er_none n2 with n2 | ⟨_, _, n2⟩ <;>
          rw [n1, n2] <;> rfl
      · rw [s1, s2]
        exact closeImmediate_erase s3 _ _
  | comment t sp =>
    simp only [Token.erase, Builder.stepCore, Step.er_ok, Option.some.injEq]
    exact comment_erase hb (by rfl)
  | pi target content sp =>
    simp only [Token.erase, Builder.stepCore, StrSpan.erase]
    split
    · rfl
    simp only [Step.er_ok, Option.some.injEq]
    refine pi_erase hb (by rfl) ?_
    cases content <;> rfl
  | declaration version enc sa sp =>
    simp only [Token.erase, Builder.stepCore, StrSpan.erase]
    split
    · rfl
    · simp only [Step.er_ok, hb]
  | dtdStart sp => rfl
  | dtdEnd sp => rfl
  | emptyDtd sp => rfl
  | entityDecl sp => rfl

/-- A step commutes with erasure of the token (and of the state), for a token that passes
    `check_qname` (/repo a5fafb0: the one place where xot looks at a byte position - an empty
    prefix at a non-zero offset is a colon with nothing in front of it; the erased token, all
    offsets 0, always passes). -/
theorem step_erase1 {b b' : Builder} (hb : b.erase = b'.erase) (t : Token) (hq : t.prefixOk = true) :
    (b.step t).er Builder.erase = (b'.step t.erase).er Builder.erase := by
  rw [b.step_eq_core hq, b'.step_eq_core (Token.erase_prefixOk t)]
  exact stepCore_erase1 hb t

/-- Erasure-equal states and erasure-equal tokens: erasure-equal results, or two failures. -/
theorem step_erase {b b' : Builder} (hb : b.erase = b'.erase) {t t' : Token} (ht : t.erase = t'.erase)
    (hq : t.prefixOk = true) (hq' : t'.prefixOk = true) :
    (b.step t).er Builder.erase = (b'.step t').er Builder.erase := by
  rw [step_erase1 hb t hq, ht, ← step_erase1 (rfl : b'.erase = b'.erase) t' hq']

/-- `lexErr` matters only through being there. -/
theorem run_erase : ∀ (ts ts' : List Token) (b b' : Builder) (le le' : Option Nat),
    b.erase = b'.erase → ts.map Token.erase = ts'.map Token.erase → le.isSome = le'.isSome →
    tokensPrefixOk ts = true → tokensPrefixOk ts' = true →
    (b.run ts le).er Builder.erase = (b'.run ts' le').er Builder.erase := by
  intro ts
  induction ts with
  | nil =>
    intro ts' b b' le le' hb hts hle _ _
    cases ts' with
    | cons t' r' => simp at hts
    | nil =>
      cases le <;> cases le' <;> simp at hle
      · simp only [Builder.run]
        obtain ⟨h1, h2, h3, h4, h5, h6, h7, h8⟩ := (Builder.erase_eq_iff b b').1 hb
        rcases eb_erase_cases h5 with ⟨q1, q2⟩ | ⟨e, e', q1, q2, q3⟩
        · rw [q1, q2]; simp only [Step.er_ok, hb]
        · rw [q1, q2]; rfl
      · rfl
  | cons t r ih =>
    intro ts' b b' le le' hb hts hle hq hq'
    cases ts' with
    | nil => simp at hts
    | cons t' r' =>
      simp only [List.map_cons, List.cons.injEq] at hts
      simp only [tokensPrefixOk_cons, Bool.and_eq_true] at hq hq'
      simp only [Builder.run]
      rcases Step.er_cases (step_erase hb hts.1 hq.1 hq'.1) with ⟨n1, n2⟩ | ⟨c, c', s1, s2, s3⟩
      · rcases Step.er_none n1 with n1 | ⟨_, _, n1⟩ <;> rcases Step.er_none n2 with n2 | ⟨_, _, n2⟩ <;>
          rw [n1, n2] <;> rfl
      · rw [s1, s2]
        exact ih r' c c' le le' s3 hts.2 hle hq.2 hq'.2

/-! ### The epilogues and `build` -/

/-- What of a result does not depend on positions. -/
def BuildResult.okPart : BuildResult → Option (Tree × Env × List (Str × Path))
  | .ok p => some (p.tree, p.env, p.ids)
  | _ => none

/-- The success value of an `Outcome`. -/
def Outcome.okOf {ε α : Type} : Outcome ε α → Option α
  | .ok a => some a
  | _ => none

/-- `topLevelScan` consults `SpanInfo` only to build an error. -/
theorem topLevelScan_okOf (sp sp' : SpanMap) : ∀ (ks : List Tree) (i : Nat) (es : List Nat),
    (topLevelScan sp i ks es).okOf = (topLevelScan sp' i ks es).okOf := by
  intro ks
  induction ks with
  | nil => intro i es; rfl
  | cons k rest ih =>
    intro i es
    simp only [topLevelScan]
    cases k.value with
    | element n => exact ih _ _
    | text s =>
      simp only
      cases SpanMap.get sp ⟨[i], .text⟩ <;> cases SpanMap.get sp' ⟨[i], .text⟩ <;> rfl
    | document => exact ih _ _
    | pi t d => exact ih _ _
    | comment s => exact ih _ _
    | «attribute» n v => exact ih _ _
    | «namespace» p n => exact ih _ _

theorem unclosed_okPart (b : Builder) : b.unclosed.okPart = none := by
  unfold Builder.unclosed
  cases b.spans.get ⟨b.curPath, .elementStart⟩ <;> rfl

theorem parsed_okPart {b b' : Builder} (hb : b.erase = b'.erase) :
    (BuildResult.ok b.parsed).okPart = (BuildResult.ok b'.parsed).okPart := by
  obtain ⟨h1, h2, h3, h4, h5, h6, h7, h8⟩ := (Builder.erase_eq_iff b b').1 hb
  simp only [BuildResult.okPart, Builder.parsed, Builder.root, h1, h2, h3, h7]

theorem finishFragment_erase {b b' : Builder} (hb : b.erase = b'.erase) :
    b.finishFragment.okPart = b'.finishFragment.okPart := by
  obtain ⟨h1, h2, h3, h4, h5, h6, h7, h8⟩ := (Builder.erase_eq_iff b b').1 hb
  unfold Builder.finishFragment Builder.isCurrentDocument
  rw [← h2]
  split
  · exact parsed_okPart hb
  · rw [unclosed_okPart, unclosed_okPart]

theorem finishDocument_erase (len len' : Nat) {b b' : Builder} (hb : b.erase = b'.erase) :
    (b.finishDocument len).okPart = (b'.finishDocument len').okPart := by
  obtain ⟨h1, h2, h3, h4, h5, h6, h7, h8⟩ := (Builder.erase_eq_iff b b').1 hb
  have hr : b'.root = b.root := by simp only [Builder.root, h2, h3]
  unfold Builder.finishDocument Builder.isCurrentDocument
  rw [← h2, hr]
  split
  · have hs := topLevelScan_okOf b.spans b'.spans b.root.kids 0 []
    cases s1 : topLevelScan b.spans 0 b.root.kids [] <;>
      cases s2 : topLevelScan b'.spans 0 b.root.kids [] <;>
      simp only [s1, s2, Outcome.okOf, reduceCtorEq, Option.some.injEq] at hs <;> try rfl
    subst hs
    rename_i es
    match es with
    | [] => rfl
    | [_] => exact parsed_okPart hb
    | _ :: second :: _ =>
      simp only
      cases b.spans.get ⟨[second], .elementStart⟩ <;> cases b'.spans.get ⟨[second], .elementStart⟩ <;> rfl
  · rw [unclosed_okPart, unclosed_okPart]

theorem new_erase (env : Env) : (Builder.new env).erase = (Builder.new env).erase := rfl

/-- Byte positions (and the length of the source) do not matter for what `build` returns on
    success, nor for whether it succeeds - for token lists that pass `check_qname`, the one test of
    a byte position in xot: no empty prefix at a non-zero offset (`tokensPrefixOk`; a list that does
    not pass is refused, `Builder.step_refused`). The tokenizer error matters only through being
    there. -/
theorem build_erase_lex (mode : Mode) (len len' : Nat) (env : Env) (ts ts' : List Token)
    (le le' : Option Nat) (h : ts.map Token.erase = ts'.map Token.erase) (hle : le.isSome = le'.isSome)
    (hq : tokensPrefixOk ts = true) (hq' : tokensPrefixOk ts' = true) :
    (build mode len env ts le).okPart = (build mode len' env ts' le').okPart := by
  unfold build
  rcases Step.er_cases (run_erase ts ts' _ _ le le' (new_erase env) h hle hq hq') with
    ⟨n1, n2⟩ | ⟨c, c', s1, s2, s3⟩
  · rcases Step.er_none n1 with n1 | ⟨_, _, n1⟩ <;> rcases Step.er_none n2 with n2 | ⟨_, _, n2⟩ <;>
      rw [n1, n2] <;> rfl
  · rw [s1, s2]
    cases mode with
    | document => exact finishDocument_erase len len' s3
    | fragment => exact finishFragment_erase s3

theorem build_erase (mode : Mode) (len len' : Nat) (env : Env) (ts ts' : List Token)
    (h : ts.map Token.erase = ts'.map Token.erase)
    (hq : tokensPrefixOk ts = true) (hq' : tokensPrefixOk ts' = true) :
    (build mode len env ts none).okPart = (build mode len' env ts' none).okPart :=
  build_erase_lex mode len len' env ts ts' none none h rfl hq hq'

/-- The erased list decides: `build` on any list that passes `check_qname` is `build` on its
    erasure (which always passes). -/
theorem build_erase_self (mode : Mode) (len len' : Nat) (env : Env) (ts : List Token)
    (hq : tokensPrefixOk ts = true) :
    (build mode len env ts none).okPart = (build mode len' env (ts.map Token.erase) none).okPart :=
  build_erase mode len len' env ts _ (by simp [Token.erase_erase]) hq (tokensPrefixOk_erase ts)

/-- An accepted token list passes `check_qname`. -/
theorem build_ok_prefixOk {mode : Mode} {len : Nat} {env : Env} {ts : List Token} {le : Option Nat}
    {p : Parsed} (hp : build mode len env ts le = .ok p) : tokensPrefixOk ts = true := by
  unfold build at hp
  cases hr : (Builder.new env).run ts le with
  | ok b => exact Builder.run_ok_prefixOk ts _ b le hr
  | err e v => rw [hr] at hp; cases hp
  | panic => rw [hr] at hp; cases hp

/-- Corollary in the form the coordinator asked for: from an accepted list to any list with the
    same erasure that passes `check_qname`. -/
theorem build_erase_ok (mode : Mode) (len len' : Nat) (env : Env) (ts ts' : List Token)
    (h : ts.map Token.erase = ts'.map Token.erase) (hq' : tokensPrefixOk ts' = true) (p : Parsed)
    (hp : build mode len env ts none = .ok p) :
    ∃ p', build mode len' env ts' none = .ok p' ∧ p'.tree = p.tree ∧ p'.env = p.env ∧ p'.ids = p.ids := by
  have he := build_erase mode len len' env ts ts' h (build_ok_prefixOk hp) hq'
  rw [hp] at he
  cases hb : build mode len' env ts' none with
  | ok p' =>
    rw [hb] at he
    simp only [BuildResult.okPart, Option.some.injEq, Prod.mk.injEq] at he
    exact ⟨p', rfl, he.1.symm, he.2.1.symm, he.2.2.symm⟩
  | err e v => rw [hb] at he; simp [BuildResult.okPart] at he
  | panic => rw [hb] at he; simp [BuildResult.okPart] at he

end XotModel
