/-
  Where the whitespace of `Pretty` lands, token by token: between two consecutive pretty tokens
  whitespace is written only when the first closes a piece of markup (`>` / end tag / comment / PI)
  and the second opens one (`<…`): never inside a tag, never next to a text token.

  Two ingredients:
  * the tag grammar of the event stream (`gram`): `pfx` / `attribute` / `startTagClose` events
    follow exactly `startTagOpen` / `pfx` / `attribute` events — structure of `genNode` alone;
  * the stack BETWEEN two consecutive events: a newline behind the first or indentation in front
    of the second both require that stack to be outside mixed content, while the stack around a
    text event always holds the `Mixed` entry of the text node's parent element.
-/
import XotModel.Lemmas.PrettyWhere
import XotModel.Model.Valid

namespace XotModel

/-! ### Kinds of events -/

/-- Events after which the writer is inside a start tag. -/
def Output.inTag : Output → Bool
  | .startTagOpen _ => true
  | .pfx _ _ => true
  | .attribute _ _ => true
  | _ => false

/-- Events that can only be written inside a start tag. -/
def Output.contTag : Output → Bool
  | .pfx _ _ => true
  | .attribute _ _ => true
  | .startTagClose => true
  | _ => false

/-- Events whose token ends a piece of markup: `>` / `/>`, an end tag, a comment, a PI. -/
def Output.closesMarkup : Output → Bool
  | .startTagClose => true
  | .endTag _ => true
  | .comment _ => true
  | .pi _ _ => true
  | _ => false

/-- Events whose token begins a piece of markup: `<name`, an end tag, a comment, a PI. -/
def Output.opensMarkup : Output → Bool
  | .startTagOpen _ => true
  | .endTag _ => true
  | .comment _ => true
  | .pi _ _ => true
  | _ => false

/-! ### The tag grammar of the event stream -/

/-- `st` = inside a start tag.  Every event is a tag-continuation exactly when the previous one
    left the writer inside a tag, and the stream ends outside a tag. -/
def gram : Bool → List (Path × Output) → Bool
  | st, [] => !st
  | st, po :: rest => (po.2.contTag == st) && gram po.2.inTag rest

theorem gram_append {st : Bool} {a b : List (Path × Output)} (ha : gram st a = true)
    (hb : gram false b = true) : gram st (a ++ b) = true := by
  induction a generalizing st with
  | nil =>
    simp only [gram, Bool.not_eq_true'] at ha
    subst ha
    simpa using hb
  | cons po a ih =>
    simp only [gram, Bool.and_eq_true] at ha
    simp only [List.cons_append, gram, Bool.and_eq_true]
    exact ⟨ha.1, ih ha.2⟩

/-- A run of `pfx` / `attribute` events inside a tag. -/
theorem gram_inTag_run (l : List (Path × Output)) (rest : List (Path × Output))
    (hl : ∀ po ∈ l, po.2.inTag = true ∧ po.2.contTag = true) (hr : gram true rest = true) :
    gram true (l ++ rest) = true := by
  induction l with
  | nil => simpa using hr
  | cons po l ih =>
    obtain ⟨h1, h2⟩ := hl po (by simp)
    simp only [List.cons_append, gram, h1, h2, beq_self_eq_true, Bool.true_and]
    exact ih (fun q hq => hl q (by simp [hq]))

mutual
theorem genNode_gram (inScope : List (Nat × Nat)) (isTop : Bool) (path : Path) (n : Tree) :
    gram false (genNode inScope isTop path n) = true := by
  cases n with
  | node v ks =>
    have hk := genKids_gram inScope path 0 ks
    cases v with
    | element name =>
      rw [genNode_element]
      simp only [List.append_assoc, List.singleton_append, List.cons_append, List.nil_append]
      simp only [gram, Output.contTag, Output.inTag, beq_self_eq_true, Bool.true_and]
      apply gram_inTag_run
      · intro po hpo
        obtain ⟨o, ho, rfl⟩ := List.mem_map.mp hpo
        split at ho
        · unfold extraPrefixes at ho
          obtain ⟨d, _, rfl⟩ := List.mem_map.mp ho
          exact ⟨rfl, rfl⟩
        · cases ho
      apply gram_inTag_run
      · intro po hpo
        obtain ⟨d, _, rfl⟩ := List.mem_map.mp hpo
        exact ⟨rfl, rfl⟩
      apply gram_inTag_run
      · intro po hpo
        obtain ⟨a, _, rfl⟩ := List.mem_map.mp hpo
        exact ⟨rfl, rfl⟩
      simp only [gram, Output.contTag, Output.inTag, beq_self_eq_true, Bool.true_and]
      exact gram_append hk (by simp [gram, Output.contTag, Output.inTag])
    | document => rw [genNode_document]; exact hk
    | «attribute» a val => rw [genNode_attribute]; exact hk
    | «namespace» p ns => rw [genNode_namespace]; exact hk
    | text x => rw [genNode_text]; simpa [gram, Output.contTag, Output.inTag] using hk
    | comment x => rw [genNode_comment]; simpa [gram, Output.contTag, Output.inTag] using hk
    | pi tg d => rw [genNode_pi]; simpa [gram, Output.contTag, Output.inTag] using hk

theorem genKids_gram (inScope : List (Nat × Nat)) (path : Path) (i : Nat) (ks : List Tree) :
    gram false (genNode.genKids inScope path i ks) = true := by
  cases ks with
  | nil => rfl
  | cons k ks' =>
    simp only [genNode.genKids]
    exact gram_append (genNode_gram inScope false (path ++ [i]) k) (genKids_gram inScope path (i + 1) ks')
end

/-- Two consecutive events of a grammatical stream: the second continues a tag iff the first
    leaves the writer inside one. -/
theorem gram_adjacent {st : Bool} (pre : List (Path × Output)) (a b : Path × Output)
    (post : List (Path × Output)) (h : gram st (pre ++ a :: b :: post) = true) :
    b.2.contTag = a.2.inTag := by
  induction pre generalizing st with
  | nil =>
    simp only [List.nil_append, gram, Bool.and_eq_true, beq_iff_eq] at h
    exact h.2.1
  | cons po pre ih =>
    simp only [List.cons_append, gram, Bool.and_eq_true] at h
    exact ih h.2

/-! ### The stack between two consecutive events -/

variable (sup : List Nat) (t : Tree)

/-- A granted newline is decided on the stack the event leaves behind. -/
theorem prettify_newline_after (s : PStack) (node : Tree) (o : Output)
    (h : (prettify sup s node o).2.2 = true) :
    o.closesMarkup = true ∧ (prettify sup s node o).1.getNewline = true := by
  cases o with
  | startTagOpen name => simp [prettify] at h
  | comment c => exact ⟨rfl, by simpa [prettify] using h⟩
  | pi tg d => exact ⟨rfl, by simpa [prettify] using h⟩
  | text c => simp [prettify] at h
  | pfx a b => simp [prettify] at h
  | «attribute» a v => simp [prettify] at h
  | startTagClose =>
    refine ⟨rfl, ?_⟩
    simp only [prettify] at h ⊢
    split
    · rename_i hc
      simp only [hc, if_true] at h
      split
      · rename_i hi
        simp only [hi, if_true] at h
        exact h
      · rename_i hi
        simp [hi] at h
    · rename_i hc
      simp [hc] at h
  | endTag name =>
    refine ⟨rfl, ?_⟩
    simp only [prettify] at h ⊢
    split
    · rename_i hc
      simp only [hc, if_true] at h
      exact h
    · rename_i hc
      simp only [hc] at h
      exact h

/-- Indentation is granted on the stack the event finds. -/
theorem prettify_indent_before (s : PStack) (node : Tree) (o : Output)
    (h : (prettify sup s node o).2.1 > 0) :
    o.opensMarkup = true ∧ s.inMixed = false ∧ s.inSpacePreserve = false := by
  cases o with
  | startTagOpen name =>
    exact ⟨rfl, getIndentation_pos (by simpa [prettify] using h),
      getIndentation_pos_preserve (by simpa [prettify] using h)⟩
  | comment c =>
    exact ⟨rfl, getIndentation_pos (by simpa [prettify] using h),
      getIndentation_pos_preserve (by simpa [prettify] using h)⟩
  | pi tg d =>
    exact ⟨rfl, getIndentation_pos (by simpa [prettify] using h),
      getIndentation_pos_preserve (by simpa [prettify] using h)⟩
  | text c => simp [prettify] at h
  | pfx a b => simp [prettify] at h
  | «attribute» a v => simp [prettify] at h
  | startTagClose =>
    simp only [prettify] at h
    split at h
    · split at h <;> simp at h
    · simp at h
  | endTag name =>
    refine ⟨rfl, ?_⟩
    simp only [prettify] at h
    split at h
    · cases hm : s.inMixed <;> cases hp : s.inSpacePreserve <;> simp [hm, hp] at h ⊢
    · simp at h

theorem prettifyAt_newline_after (s : PStack) (p : Path) (o : Output)
    (h : (prettifyAt sup t s p o).2.2 = true) :
    o.closesMarkup = true ∧ (pstep sup t s (p, o)).getNewline = true := by
  unfold pstep
  unfold prettifyAt at h ⊢
  cases hn : t.at? p with
  | none => simp [hn] at h
  | some node =>
    simp only [hn] at h ⊢
    exact prettify_newline_after sup s node o h

theorem prettifyAt_indent_before (s : PStack) (p : Path) (o : Output)
    (h : (prettifyAt sup t s p o).2.1 > 0) :
    o.opensMarkup = true ∧ s.inMixed = false ∧ s.inSpacePreserve = false := by
  unfold prettifyAt at h
  cases hn : t.at? p with
  | none => simp [hn] at h
  | some node =>
    simp only [hn] at h
    exact prettify_indent_before sup s node o h

/-- The events of a successful pretty stream are the events it was run on. -/
theorem prettyAll_events (esc : Escapers) (env : Env) (pr : TokenParams) (ps : PStack) (s : FStack)
    (evs : List (Path × Output)) (ks : List (Path × Output × PrettyOutputToken))
    (h : prettyAllWith esc env pr sup t ps s evs = .ok ks) :
    ks.map (fun k => (k.1, k.2.1)) = evs := by
  induction evs generalizing ps s ks with
  | nil =>
    simp only [prettyAllWith] at h
    cases h
    rfl
  | cons po evs ih =>
    obtain ⟨p, o⟩ := po
    simp only [prettyAllWith] at h
    cases hr : renderAtWith esc env pr t s p o with
    | ok st =>
      obtain ⟨s', tok⟩ := st
      simp only [hr] at h
      cases hrest : prettyAllWith esc env pr sup t (prettifyAt sup t ps p o).1 s' evs with
      | ok l =>
        simp only [hrest] at h
        cases h
        simp [ih _ _ _ hrest]
      | err e => simp [hrest] at h
      | panic => simp [hrest] at h
    | err e => simp [hr] at h
    | panic => simp [hr] at h

/-- Two consecutive pretty tokens: both are trace entries, the second one's stack is the stack the
    first leaves behind. -/
theorem prettyAll_adjacent (esc : Escapers) (env : Env) (pr : TokenParams) (ps : PStack) (s : FStack)
    (evs : List (Path × Output)) (ks pre post : List (Path × Output × PrettyOutputToken))
    (k1 k2 : Path × Output × PrettyOutputToken)
    (h : prettyAllWith esc env pr sup t ps s evs = .ok ks) (hks : ks = pre ++ k1 :: k2 :: post) :
    ∃ ps1, (ps1, k1.1, k1.2.1) ∈ ptrace sup t ps evs ∧
      (pstep sup t ps1 (k1.1, k1.2.1), k2.1, k2.2.1) ∈ ptrace sup t ps evs ∧
      (k1.2.2.indentation, k1.2.2.newline) = (prettifyAt sup t ps1 k1.1 k1.2.1).2 ∧
      (k2.2.2.indentation, k2.2.2.newline) =
        (prettifyAt sup t (pstep sup t ps1 (k1.1, k1.2.1)) k2.1 k2.2.1).2 := by
  induction evs generalizing ps s ks pre with
  | nil =>
    simp only [prettyAllWith] at h
    cases h
    cases pre <;> simp at hks
  | cons po evs ih =>
    obtain ⟨p, o⟩ := po
    simp only [prettyAllWith] at h
    cases hr : renderAtWith esc env pr t s p o with
    | ok st =>
      obtain ⟨s', tok⟩ := st
      simp only [hr] at h
      cases hrest : prettyAllWith esc env pr sup t (prettifyAt sup t ps p o).1 s' evs with
      | ok l =>
        simp only [hrest] at h
        cases h
        cases pre with
        | nil =>
          simp only [List.nil_append, List.cons.injEq] at hks
          obtain ⟨hk1, hl⟩ := hks
          subst hk1
          -- the second token is the head of the rest
          cases evs with
          | nil =>
            simp only [prettyAllWith] at hrest
            cases hrest
            cases hl
          | cons po2 evs2 =>
            obtain ⟨p2, o2⟩ := po2
            simp only [prettyAllWith] at hrest
            cases hr2 : renderAtWith esc env pr t s' p2 o2 with
            | ok st2 =>
              obtain ⟨s2, tok2⟩ := st2
              simp only [hr2] at hrest
              cases hrest2 : prettyAllWith esc env pr sup t
                  (prettifyAt sup t (prettifyAt sup t ps p o).1 p2 o2).1 s2 evs2 with
              | ok l2 =>
                simp only [hrest2] at hrest
                cases hrest
                simp only [List.cons.injEq] at hl
                obtain ⟨hk2, _⟩ := hl
                subst hk2
                exact ⟨ps, by simp [ptrace], by simp [ptrace, pstep], rfl, rfl⟩
              | err e => simp [hrest2] at hrest
              | panic => simp [hrest2] at hrest
            | err e => simp [hr2] at hrest
            | panic => simp [hr2] at hrest
        | cons k0 pre' =>
          simp only [List.cons_append, List.cons.injEq] at hks
          obtain ⟨_, hl⟩ := hks
          obtain ⟨ps1, m1, m2, e1, e2⟩ := ih _ _ _ pre' hrest hl
          exact ⟨ps1, by simp only [ptrace, List.mem_cons]; exact Or.inr m1,
            by simp only [ptrace, List.mem_cons]; exact Or.inr m2, e1, e2⟩
      | err e => simp [hrest] at h
      | panic => simp [hrest] at h
    | err e => simp [hr] at h
    | panic => simp [hr] at h

end XotModel
