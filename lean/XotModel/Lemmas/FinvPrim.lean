/-
  Finv (C04), part 3: the forest primitives evaluated at a located handle, and the handle
  bookkeeping (which handles a primitive adds, removes, keeps).
-/
import XotModel.Lemmas.FinvEval

namespace XotModel
open HTree

/-- `h` is the handle of `k`, which sits between `l` and `r` in the child list at `path`. -/
structure Loc (roots : List HTree) (h : Nat) (path : List ZipFrame) (l : List HTree) (k : HTree)
    (r : List HTree) : Prop where
  eq : roots = plug path (l ++ k :: r)
  hk : k.handle = h

/-- What distinct handles say about a located handle. -/
structure Loc.Fresh (h : Nat) (path : List ZipFrame) (l : List HTree) (k : HTree) (r : List HTree) : Prop where
  path : h ∉ pathHandles path
  left : h ∉ handlesList l
  kids : h ∉ handlesList k.kids
  right : h ∉ handlesList r

theorem Loc.nodup {roots h path l k r} (lc : Loc roots h path l k r) (nd : (handlesList roots).Nodup) :
    (pathHandles path ++ (handlesList l ++ (h :: handlesList k.kids ++ handlesList r))).Nodup := by
  have := nodup_plug.mp (lc.eq ▸ nd)
  simpa [fi_handles_eq k, lc.hk] using this

theorem Loc.fresh {roots h path l k r} (lc : Loc roots h path l k r) (nd : (handlesList roots).Nodup) :
    Loc.Fresh h path l k r := by
  have h0 := lc.nodup nd
  rw [List.nodup_append] at h0
  obtain ⟨_, h2, h3⟩ := h0
  rw [List.nodup_append] at h2
  obtain ⟨_, h5, h6⟩ := h2
  have h7 : (h :: (handlesList k.kids ++ handlesList r)).Nodup := by simpa using h5
  rw [List.nodup_cons] at h7
  refine ⟨?_, ?_, ?_, ?_⟩
  · intro hc; exact h3 h hc h (by simp) rfl
  · intro hc; exact h6 h hc h (by simp) rfl
  · intro hc; exact h7.1 (by simp [hc])
  · intro hc; exact h7.1 (by simp [hc])

theorem fi_mem_of_findList?_some {h : Nat} {ks : List HTree} {t : HTree} (hs : findList? h ks = some t) :
    h ∈ handlesList ks := by
  apply Classical.byContradiction
  intro hn
  rw [findList?_of_not_mem h ks hn] at hs
  cases hs

namespace Forest

theorem mem_allHandles_of_isLive {f : Forest} {h : Nat} (hl : f.isLive h = true) : h ∈ f.allHandles := by
  unfold isLive get? at hl
  cases hs : findList? h f.roots with
  | none => rw [hs] at hl; cases hl
  | some t => exact fi_mem_of_findList?_some hs

/-- A live handle can be located. -/
theorem exists_loc {f : Forest} {h : Nat} (hm : h ∈ f.allHandles) :
    ∃ path l k r, Loc f.roots h path l k r := by
  obtain ⟨path, l, k, r, he, hk⟩ := exists_plug_of_mem h f.roots hm
  exact ⟨path, l, k, r, ⟨he, hk⟩⟩

section located
variable {f : Forest} {h : Nat} {path : List ZipFrame} {l : List HTree} {k : HTree} {r : List HTree}

theorem get?_of_loc (lc : Loc f.roots h path l k r) (nd : f.allHandles.Nodup) : f.get? h = some k := by
  have fr := lc.fresh nd
  unfold get?
  rw [lc.eq]
  exact findList?_plug h path l k r lc.hk fr.path fr.left

theorem isLive_of_loc (lc : Loc f.roots h path l k r) (nd : f.allHandles.Nodup) : f.isLive h = true := by
  simp [isLive, get?_of_loc lc nd]

theorem isRoot_of_loc_nil (lc : Loc f.roots h [] l k r) : f.isRoot h = true := by
  unfold isRoot
  rw [lc.eq]
  simp [lc.hk]

theorem isRoot_of_loc_cons {fr : ZipFrame} {rest : List ZipFrame} (lc : Loc f.roots h (fr :: rest) l k r)
    (nd : f.allHandles.Nodup) : f.isRoot h = false := by
  have hf := lc.fresh nd
  unfold isRoot
  rw [lc.eq, List.any_eq_false]
  intro x hx
  simpa using root_handle_ne_of_plug_cons hf.path x hx

theorem ctx?_of_loc_snoc {fr : ZipFrame} {rest : List ZipFrame} (lc : Loc f.roots h (rest ++ [fr]) l k r)
    (nd : f.allHandles.Nodup) : f.ctx? h = some ⟨fr.h, l, k, r⟩ := by
  have hf := lc.fresh nd
  unfold ctx?
  rw [lc.eq]
  exact ctxRoots_plug h rest fr l k r lc.hk hf.path hf.left

theorem ctx?_of_loc_nil (lc : Loc f.roots h [] l k r) (nd : f.allHandles.Nodup) : f.ctx? h = none := by
  have hf := lc.fresh nd
  have hnd : (handlesList (l ++ k :: r)).Nodup := by
    have := nd; unfold allHandles at this; rw [lc.eq] at this; simpa using this
  unfold ctx?
  rw [lc.eq, plug_nil, findSome?_ctxBelow_append_of_not_mem h l _ hf.left, List.findSome?_cons,
    fi_ctxBelow_of_not_mem h k hf.kids]
  apply findSome?_ctxBelow_none
  intro x hx hc
  apply hf.right
  obtain ⟨a, b, rfl⟩ := List.append_of_mem hx
  simp only [fi_handlesList_append, fi_handlesList_cons, List.mem_append]
  refine Or.inr (Or.inl ?_)
  rw [fi_handles_eq]; exact List.mem_cons_of_mem _ hc

theorem ancestors_of_loc (lc : Loc f.roots h path l k r) (nd : f.allHandles.Nodup) :
    f.ancestors h = h :: (path.map (·.h)).reverse := by
  have hf := lc.fresh nd
  unfold ancestors
  rw [findSome?_ancestorsOf, lc.eq, ancestorsOfList_plug h path l k r lc.hk hf.path hf.left]
  rfl

/-! #### The primitives at a located handle -/

theorem map_replaceBelow_of_loc (g : HTree → List HTree) {fr : ZipFrame} {rest : List ZipFrame}
    (lc : Loc f.roots h (fr :: rest) l k r) (nd : f.allHandles.Nodup) :
    f.roots.map (replaceBelow h g) = plug (fr :: rest) (l ++ g k ++ r) := by
  have hf := lc.fresh nd
  rw [lc.eq, fi_map_replaceBelow_eq h g _ (root_handle_ne_of_plug_cons hf.path)]
  exact replaceKids_plug h g _ l k r lc.hk hf.path hf.left

theorem filter_ne_of_loc_nil (lc : Loc f.roots h [] l k r) (nd : f.allHandles.Nodup) :
    f.roots.filter (fun x => x.handle != h) = l ++ r := by
  have hf := lc.fresh nd
  rw [lc.eq, plug_nil, List.filter_append, List.filter_cons]
  have e1 : l.filter (fun x => x.handle != h) = l := by
    rw [List.filter_eq_self]; intro x hx
    simpa using handle_ne_of_not_mem_handlesList hf.left x hx
  have e2 : r.filter (fun x => x.handle != h) = r := by
    rw [List.filter_eq_self]; intro x hx
    simpa using handle_ne_of_not_mem_handlesList hf.right x hx
  simp [e1, e2, lc.hk]

/-- `cut` removes the located subtree and returns it. -/
theorem cut_of_loc (lc : Loc f.roots h path l k r) (nd : f.allHandles.Nodup) :
    f.cut h = ({ f with roots := plug path (l ++ r) }, some k) := by
  unfold cut
  rw [get?_of_loc lc nd]
  cases path with
  | nil =>
    simp only [isRoot_of_loc_nil lc, if_true, filter_ne_of_loc_nil lc nd, plug_nil]
  | cons fr rest =>
    simp only [isRoot_of_loc_cons lc nd, map_replaceBelow_of_loc _ lc nd]
    simp

theorem placeAfter_of_loc (t : HTree) {fr : ZipFrame} {rest : List ZipFrame}
    (lc : Loc f.roots h (fr :: rest) l k r) (nd : f.allHandles.Nodup) :
    f.placeAfter h t = { f with roots := plug (fr :: rest) (l ++ k :: t :: r) } := by
  unfold placeAfter
  rw [map_replaceBelow_of_loc _ lc nd]
  simp

theorem placeBefore_of_loc (t : HTree) {fr : ZipFrame} {rest : List ZipFrame}
    (lc : Loc f.roots h (fr :: rest) l k r) (nd : f.allHandles.Nodup) :
    f.placeBefore h t = { f with roots := plug (fr :: rest) (l ++ t :: k :: r) } := by
  unfold placeBefore
  rw [map_replaceBelow_of_loc _ lc nd]
  simp

theorem map_mapAt_of_loc (g : HTree → HTree) (lc : Loc f.roots h path l k r) (nd : f.allHandles.Nodup) :
    f.roots.map (mapAt h g) = plug path (l ++ g k :: r) := by
  have hf := lc.fresh nd
  rw [← mapAtList_eq_map, lc.eq]
  exact mapAtList_plug h g path l k r lc.hk hf.path hf.left hf.right

theorem placeLast_of_loc (t : HTree) (lc : Loc f.roots h path l k r) (nd : f.allHandles.Nodup) :
    f.placeLast h t = { f with roots := plug path (l ++ k.setKids (k.kids ++ [t]) :: r) } := by
  unfold placeLast
  rw [map_mapAt_of_loc _ lc nd]

theorem placeFirst_of_loc (t : HTree) (lc : Loc f.roots h path l k r) (nd : f.allHandles.Nodup) :
    f.placeFirst h t = { f with roots := plug path (l ++ k.setKids (t :: k.kids) :: r) } := by
  unfold placeFirst
  rw [map_mapAt_of_loc _ lc nd]

theorem setValue_of_loc (v : Value) (lc : Loc f.roots h path l k r) (nd : f.allHandles.Nodup) :
    f.setValue h v = { f with roots := plug path (l ++ k.setValue v :: r) } := by
  unfold setValue
  rw [map_mapAt_of_loc _ lc nd]

/-- `spliceOut` of a non-root node: the children take its place. -/
theorem spliceOut_of_loc_cons {fr : ZipFrame} {rest : List ZipFrame}
    (lc : Loc f.roots h (fr :: rest) l k r) (nd : f.allHandles.Nodup) :
    f.spliceOut h = { f with roots := plug (fr :: rest) (l ++ k.kids ++ r) } := by
  unfold spliceOut
  rw [get?_of_loc lc nd]
  simp only [isRoot_of_loc_cons lc nd, map_replaceBelow_of_loc _ lc nd]
  simp

/-- `spliceOut` of a root. -/
theorem spliceOut_of_loc_nil (lc : Loc f.roots h [] l k r) (nd : f.allHandles.Nodup) :
    f.spliceOut h =
      if k.kids.length ≤ 1 then { f with roots := l ++ r ++ k.kids }
      else { f with roots := l ++ r ++ k.kids, corrupt := true } := by
  unfold spliceOut
  rw [get?_of_loc lc nd]
  simp only [isRoot_of_loc_nil lc, if_true, filter_ne_of_loc_nil lc nd]

/-! #### The same with `path ≠ []` instead of a syntactic `cons` -/

theorem isRoot_of_loc_ne (lc : Loc f.roots h path l k r) (hne : path ≠ [])
    (nd : f.allHandles.Nodup) : f.isRoot h = false := by
  cases path with
  | nil => exact absurd rfl hne
  | cons fr rest => exact isRoot_of_loc_cons lc nd

theorem placeAfter_of_loc_ne (t : HTree) (lc : Loc f.roots h path l k r) (hne : path ≠ [])
    (nd : f.allHandles.Nodup) :
    f.placeAfter h t = { f with roots := plug path (l ++ k :: t :: r) } := by
  cases path with
  | nil => exact absurd rfl hne
  | cons fr rest => exact placeAfter_of_loc t lc nd

theorem placeBefore_of_loc_ne (t : HTree) (lc : Loc f.roots h path l k r) (hne : path ≠ [])
    (nd : f.allHandles.Nodup) :
    f.placeBefore h t = { f with roots := plug path (l ++ t :: k :: r) } := by
  cases path with
  | nil => exact absurd rfl hne
  | cons fr rest => exact placeBefore_of_loc t lc nd

theorem spliceOut_of_loc_ne (lc : Loc f.roots h path l k r) (hne : path ≠ [])
    (nd : f.allHandles.Nodup) :
    f.spliceOut h = { f with roots := plug path (l ++ k.kids ++ r) } := by
  cases path with
  | nil => exact absurd rfl hne
  | cons fr rest => exact spliceOut_of_loc_cons lc nd

theorem ctx?_of_loc_ne (lc : Loc f.roots h path l k r) (hne : path ≠ [])
    (nd : f.allHandles.Nodup) : ∃ p, f.ctx? h = some ⟨p, l, k, r⟩ := by
  rcases List.eq_nil_or_concat path with h0 | ⟨init, fr, h0⟩
  · exact absurd h0 hne
  · rw [List.concat_eq_append] at h0
    subst h0
    exact ⟨fr.h, ctx?_of_loc_snoc lc nd⟩

end located

/-! ### Handle bookkeeping -/

theorem allHandles_newNode (f : Forest) (v : Value) :
    (f.newNode v).1.allHandles = f.allHandles ++ [f.next] := by
  simp [newNode, allHandles]

theorem next_newNode (f : Forest) (v : Value) : (f.newNode v).1.next = f.next + 1 := rfl
theorem snd_newNode (f : Forest) (v : Value) : (f.newNode v).2 = f.next := rfl

/-- `cut`: the handles that stay and the handles of the cut subtree partition the old handles. -/
theorem cut_perm {f f' : Forest} {h : Nat} {t : HTree} (nd : f.allHandles.Nodup)
    (hc : f.cut h = (f', some t)) : (f'.allHandles ++ handles t).Perm f.allHandles := by
  have hlive : f.isLive h = true := by
    unfold cut at hc
    cases hg : f.get? h with
    | none => rw [hg] at hc; simp at hc
    | some t' => simp [isLive, hg]
  obtain ⟨path, l, k, r, lc⟩ := exists_loc (mem_allHandles_of_isLive hlive)
  rw [cut_of_loc lc nd] at hc
  simp only [Prod.mk.injEq, Option.some.injEq] at hc
  obtain ⟨rfl, rfl⟩ := hc
  unfold allHandles
  simp only
  rw [lc.eq]
  refine ((handlesList_plug_perm path (l ++ r)).append_right _).trans
    (List.Perm.trans ?_ (handlesList_plug_perm path (l ++ k :: r)).symm)
  simp only [fi_handlesList_append, fi_handlesList_cons, List.append_assoc]
  exact List.Perm.append_left _ (List.Perm.append_left _ List.perm_append_comm)

theorem cut_none {f f' : Forest} {h : Nat} (hc : f.cut h = (f', none)) : f' = f := by
  unfold cut at hc
  cases hg : f.get? h with
  | none => rw [hg] at hc; simp at hc; exact hc.symm
  | some t' =>
    rw [hg] at hc
    by_cases hr : f.isRoot h <;> simp [hr] at hc

theorem placeAfter_perm {f : Forest} {ref : Nat} (t : HTree) (nd : f.allHandles.Nodup)
    (hl : f.isLive ref = true) (hr : f.isRoot ref = false) :
    (f.placeAfter ref t).allHandles.Perm (f.allHandles ++ handles t) := by
  obtain ⟨path, l, k, r, lc⟩ := exists_loc (mem_allHandles_of_isLive hl)
  cases path with
  | nil => rw [isRoot_of_loc_nil lc] at hr; cases hr
  | cons fr rest =>
    rw [placeAfter_of_loc t lc nd]
    unfold allHandles
    simp only
    rw [lc.eq]
    refine (handlesList_plug_perm _ _).trans
      (List.Perm.trans ?_ ((handlesList_plug_perm _ _).symm.append_right _))
    simp only [fi_handlesList_append, fi_handlesList_cons, List.append_assoc]
    refine List.Perm.append_left _ (List.Perm.append_left _ (List.Perm.append_left _ ?_))
    exact List.perm_append_comm

theorem placeBefore_perm {f : Forest} {ref : Nat} (t : HTree) (nd : f.allHandles.Nodup)
    (hl : f.isLive ref = true) (hr : f.isRoot ref = false) :
    (f.placeBefore ref t).allHandles.Perm (f.allHandles ++ handles t) := by
  obtain ⟨path, l, k, r, lc⟩ := exists_loc (mem_allHandles_of_isLive hl)
  cases path with
  | nil => rw [isRoot_of_loc_nil lc] at hr; cases hr
  | cons fr rest =>
    rw [placeBefore_of_loc t lc nd]
    unfold allHandles
    simp only
    rw [lc.eq]
    refine (handlesList_plug_perm _ _).trans
      (List.Perm.trans ?_ ((handlesList_plug_perm _ _).symm.append_right _))
    simp only [fi_handlesList_append, fi_handlesList_cons, List.append_assoc]
    refine List.Perm.append_left _ (List.Perm.append_left _ ?_)
    refine List.perm_append_comm.trans ?_
    simp only [List.append_assoc]
    exact List.Perm.refl _

theorem handles_setKids (k : HTree) (ks : List HTree) :
    handles (k.setKids ks) = k.handle :: handlesList ks := by
  cases k; simp [HTree.setKids]

theorem placeLast_perm {f : Forest} {p : Nat} (t : HTree) (nd : f.allHandles.Nodup)
    (hl : f.isLive p = true) :
    (f.placeLast p t).allHandles.Perm (f.allHandles ++ handles t) := by
  obtain ⟨path, l, k, r, lc⟩ := exists_loc (mem_allHandles_of_isLive hl)
  rw [placeLast_of_loc t lc nd]
  unfold allHandles
  simp only
  rw [lc.eq]
  refine (handlesList_plug_perm _ _).trans
    (List.Perm.trans ?_ ((handlesList_plug_perm _ _).symm.append_right _))
  simp only [fi_handlesList_append, fi_handlesList_cons, List.append_assoc, handles_setKids, fi_handles_eq k,
    fi_handlesList_nil, List.append_nil, List.cons_append]
  refine List.Perm.append_left _ (List.Perm.append_left _ (List.Perm.cons _ (List.Perm.append_left _ ?_)))
  exact List.perm_append_comm

theorem placeFirst_perm {f : Forest} {p : Nat} (t : HTree) (nd : f.allHandles.Nodup)
    (hl : f.isLive p = true) :
    (f.placeFirst p t).allHandles.Perm (f.allHandles ++ handles t) := by
  obtain ⟨path, l, k, r, lc⟩ := exists_loc (mem_allHandles_of_isLive hl)
  rw [placeFirst_of_loc t lc nd]
  unfold allHandles
  simp only
  rw [lc.eq]
  refine (handlesList_plug_perm _ _).trans
    (List.Perm.trans ?_ ((handlesList_plug_perm _ _).symm.append_right _))
  simp only [fi_handlesList_append, fi_handlesList_cons, List.append_assoc, handles_setKids, fi_handles_eq k,
    List.cons_append]
  refine List.Perm.append_left _ (List.Perm.append_left _ (List.Perm.cons _ ?_))
  refine List.perm_append_comm.trans ?_
  simp only [List.append_assoc]
  exact List.Perm.refl _

/-- `spliceOut` removes exactly the handle `h` (its children stay). -/
theorem spliceOut_perm {f : Forest} {h : Nat} (nd : f.allHandles.Nodup) (hl : f.isLive h = true) :
    ((f.spliceOut h).allHandles ++ [h]).Perm f.allHandles := by
  obtain ⟨path, l, k, r, lc⟩ := exists_loc (mem_allHandles_of_isLive hl)
  have key : ∀ c : Bool, (({ f with roots := plug path (l ++ k.kids ++ r), corrupt := c } : Forest).allHandles
      ++ [h]).Perm f.allHandles := by
    intro c
    unfold allHandles
    simp only
    rw [lc.eq]
    refine ((handlesList_plug_perm _ _).append_right _).trans
      (List.Perm.trans ?_ (handlesList_plug_perm _ _).symm)
    simp only [fi_handlesList_append, fi_handlesList_cons, List.append_assoc, fi_handles_eq k, lc.hk,
      List.cons_append]
    refine List.Perm.append_left _ (List.Perm.append_left _ ?_)
    rw [← List.append_assoc]
    exact List.perm_append_comm
  cases path with
  | cons fr rest =>
    rw [spliceOut_of_loc_cons lc nd]
    exact key f.corrupt
  | nil =>
    rw [spliceOut_of_loc_nil lc nd]
    have key2 : ∀ c : Bool, (({ f with roots := l ++ r ++ k.kids, corrupt := c } : Forest).allHandles
        ++ [h]).Perm f.allHandles := by
      intro c
      refine List.Perm.trans ?_ (key c)
      refine List.Perm.append_right _ ?_
      unfold allHandles
      simp only [plug_nil, fi_handlesList_append, List.append_assoc]
      exact List.Perm.append_left _ List.perm_append_comm
    split
    · exact key2 f.corrupt
    · exact key2 true

theorem dropSubtree_perm {f : Forest} {h : Nat} {t : HTree} (nd : f.allHandles.Nodup)
    (hg : f.get? h = some t) : ((f.dropSubtree h).allHandles ++ handles t).Perm f.allHandles := by
  have hlive : f.isLive h = true := by simp [isLive, hg]
  obtain ⟨path, l, k, r, lc⟩ := exists_loc (mem_allHandles_of_isLive hlive)
  have e := get?_of_loc lc nd
  rw [hg] at e
  cases e
  exact cut_perm nd (by unfold dropSubtree; rw [cut_of_loc lc nd])

end Forest
end XotModel
