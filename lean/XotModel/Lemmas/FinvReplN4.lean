/-
  Finv (C04), part 37: `replace` in the gap case with a replacing node that is not text.
  `insert_after(previous, replacing)` on the state after `remove_subtree(replaced)` is, step by
  step, the corresponding step on the valid forest followed by `remove_subtree(replaced)`; the
  replacing node ends up exactly in the hole, so the result satisfies the invariant.
-/
import XotModel.Lemmas.FinvReplN3

namespace XotModel
open HTree

namespace Forest

theorem removeConsolidate_merge_eq {f : Forest} {u v : Nat} {us vs : Str} (hc : f.consolidation = true)
    (tu : f.textOf u = some us) (tv : f.textOf v = some vs) :
    f.removeConsolidate (some u) (some v) = ((f.setValue u (.text (us ++ vs))).spliceOut v, true) := by
  unfold removeConsolidate; simp [hc, tu, tv]

section gap
variable {f : Forest} {a : Nat} {init : List ZipFrame} {fr : ZipFrame} {l0 : List HTree} {P A N : HTree}
  {r0 : List HTree} {ps ns : Str}

theorem Gap.leftOf (g : Gap f a init fr l0 P A N r0 ps ns) (nd : f.allHandles.Nodup) :
    f.leftOf a = some P.handle := by
  rw [leftOf_of_loc g.loc nd (by simp)]; simp

theorem Gap.valA (g : Gap f a init fr l0 P A N r0 ps ns) (nd : f.allHandles.Nodup) :
    f.value? a = some A.value := value?_of_loc g.loc nd

/-- The first step of `insert_after` on the state after `remove_subtree(a)`, and where the hole's
    left neighbour ends up. -/
theorem Gap.first_step (g : Gap f a init fr l0 P A N r0 ps ns) (hi : f.Inv) {b : Nat} {bv : Value}
    (ra : ReplArgs f a b fr P N bv) (hbt : bv.isText = false) {g1 : Forest} {bb : Bool}
    (so : SibsOut f b g1 bb) :
    (f.dropSubtree a).removeConsolidate (f.prevSibling b) (f.nextSibling b) = (g1.dropSubtree a, bb) ∧
    (g1.ancestors b).contains a = false ∧
    (g1.dropSubtree b).leftOf a =
      some (if (bb && f.nextSibling b == some P.handle) = true then (f.prevSibling b).getD P.handle
            else P.handle) := by
  have nd := hi.nodup
  obtain ⟨_, _, _, _, _, _, htx⟩ := g.sibs_b nd ra.live ra.ancB ra.ancA ra.neP ra.neN
  have hcons1 : (f.dropSubtree a).consolidation = f.consolidation := by rw [g.drop nd]
  have hab : a ≠ b := by
    intro e; have := ra.ancB; rw [← e, ancestors_of_loc g.loc nd] at this; simp at this
  have hpb : P.handle ≠ b := Ne.symm ra.neP
  cases bb with
  | false =>
    have e := removeConsolidate_false so.eq
    subst e
    refine ⟨removeConsolidate_false_of so.eq hcons1 (fun x hx => (htx x hx).1), ra.ancB, ?_⟩
    simp only [Bool.false_and, Bool.false_eq_true, if_false]
    rw [leftOf_drop nd g.mem ra.live ra.ancA (by rw [g.leftOf nd]; simpa using hpb), g.leftOf nd]
  | true =>
    obtain ⟨hcons, u, v, us, vs, hu, hv, tu, tv⟩ := fi_removeConsolidate_true so.eq
    have hg1 : g1 = (f.setValue u (.text (us ++ vs))).spliceOut v := by
      have := so.eq
      rw [hu, hv, removeConsolidate_merge_eq hcons tu tv] at this
      exact (Prod.mk.inj this).1.symm
    obtain ⟨htu1, hau⟩ := htx u (Or.inl hu)
    obtain ⟨htv1, hav⟩ := htx v (Or.inr hv)
    -- u, v, a, b are four different nodes
    have hva : a ≠ v := by
      intro e
      have := (textOf_eq_some_iff _ _ _).mp tv
      rw [← e, g.valA nd] at this
      have h2 := g.hAt; rw [Option.some.inj this] at h2; cases h2
    have hua : a ≠ u := by
      intro e
      have := (textOf_eq_some_iff _ _ _).mp tu
      rw [← e, g.valA nd] at this
      have h2 := g.hAt; rw [Option.some.inj this] at h2; cases h2
    have hbu : b ≠ u := by
      intro e
      have := (textOf_eq_some_iff _ _ _).mp tu
      rw [← e, ra.val] at this
      rw [Option.some.inj this] at hbt; cases hbt
    have hbv : b ≠ v := by
      intro e
      have := (textOf_eq_some_iff _ _ _).mp tv
      rw [← e, ra.val] at this
      rw [Option.some.inj this] at hbt; cases hbt
    have huL : u ∈ f.allHandles := mem_allHandles_of_isLive (isLive_of_value? ((textOf_eq_some_iff _ _ _).mp tu))
    have hvL : v ∈ f.allHandles := mem_allHandles_of_isLive (isLive_of_value? ((textOf_eq_some_iff _ _ _).mp tv))
    -- the shape of b's child list
    obtain ⟨pathb, lb, Bn, rb, locb⟩ := exists_loc ra.live
    obtain ⟨ib, frb, lb0, U, V, rb0, rfl, rfl, rfl, hUh, hVh, _, _⟩ := sibs_shape nd locb hu hv
    have locV : Loc f.roots v (ib ++ [frb]) (lb0 ++ [U] ++ [Bn]) V rb0 := ⟨by rw [locb.eq]; simp, hVh⟩
    have huv : u ≠ v := by
      intro e
      apply (locV.fresh nd).left
      simp only [fi_handlesList_append, fi_handlesList_cons, fi_handlesList_nil, List.append_nil, List.mem_append]
      exact Or.inl (Or.inr (by rw [← e, ← hUh]; exact fi_handle_mem_handles U))
    have hva' : (f.ancestors a).contains v = false := text_not_ancestor hi tv g.mem hva
    have hua' : (f.ancestors a).contains u = false := text_not_ancestor hi tu g.mem hua
    -- the valid forest with the new text
    have hfs : (f.setValue u (.text (us ++ vs))).Inv :=
      setValue_inv hi ((textOf_eq_some_iff _ _ _).mp tu) ⟨rfl, rfl, rfl, rfl⟩ (fun _ => rfl)
    have hleft_fs : (f.setValue u (.text (us ++ vs))).leftOf a = some P.handle := by
      rw [leftOf_setValue _ nd g.mem hua', g.leftOf nd]
    have hanc_fs_a : ((f.setValue u (.text (us ++ vs))).ancestors a) = f.ancestors a :=
      ancestors_setValue nd _ g.mem hua'
    have hanc_fs_b : ((f.setValue u (.text (us ++ vs))).ancestors b) = f.ancestors b :=
      ancestors_setValue nd _ ra.live (text_not_ancestor hi tu ra.live hbu)
    generalize hfsdef : f.setValue u (.text (us ++ vs)) = fs at hfs hleft_fs hanc_fs_a hanc_fs_b hg1
    have ndfs := hfs.nodup
    have hafs : a ∈ fs.allHandles := by rw [← hfsdef, allHandles_setValue]; exact g.mem
    have hbfs : b ∈ fs.allHandles := by rw [← hfsdef, allHandles_setValue]; exact ra.live
    have hvfs : v ∈ fs.allHandles := by rw [← hfsdef, allHandles_setValue]; exact hvL
    have htv_fs : fs.textOf v = some vs := by
      rw [← hfsdef, textOf_eq_some_iff, value?_setValue_ne nd (Ne.symm huv)]
      exact (textOf_eq_some_iff _ _ _).mp tv
    obtain ⟨pathv, lv, Vt, rv, locvfs⟩ := exists_loc hvfs
    have hVk : Vt.kids = [] := by
      have hval := value?_of_loc locvfs ndfs
      rw [(textOf_eq_some_iff _ _ _).mp htv_fs] at hval
      exact kids_nil_of_text (hfs.validTree_of_loc locvfs) (by rw [← Option.some.inj hval]; rfl)
    have eg1 : g1 = fs.dropSubtree v := by
      rw [hg1]; exact spliceOut_leaf_eq_drop ndfs (get?_of_loc locvfs ndfs) hVk
    have hva_fs : (fs.ancestors a).contains v = false := by rw [hanc_fs_a]; exact hva'
    have hvb_fs : (fs.ancestors b).contains v = false := by
      rw [hanc_fs_b]; exact text_not_ancestor hi tv ra.live hbv
    refine ⟨?_, ?_, ?_⟩
    · -- the merge on the state without `a`
      rw [hu, hv, removeConsolidate_merge_eq (by rw [hcons1]; exact hcons) (by rw [htu1]; exact tu)
        (by rw [htv1]; exact tv), hg1, ← hfsdef,
        merge_drop_comm hi _ tu tv huv g.mem hau hav hva']
    · -- ancestors of `b` in g1
      obtain ⟨pb, lb', Bn', rb', locbfs⟩ := exists_loc hbfs
      rw [eg1, (dropView locbfs ndfs hvfs hvb_fs).ancestors locbfs ndfs, hanc_fs_b]
      exact ra.ancB
    · -- the left neighbour of the hole
      have hanc_g1_a : (g1.ancestors a).contains b = false := by
        have ha1 : a ∈ g1.allHandles :=
          mem_allHandles_of_isLive (isLive_of_value? (so.keep_nontext (g.valA nd) g.hAt))
        rw [so.anc a ha1]; exact ra.ancA
      have ha1 : a ∈ g1.allHandles :=
        mem_allHandles_of_isLive (isLive_of_value? (so.keep_nontext (g.valA nd) g.hAt))
      have hb1 : b ∈ g1.allHandles := by
        have := so.valC; rw [ra.val] at this
        exact mem_allHandles_of_isLive (isLive_of_value? this)
      by_cases hvp : v = P.handle
      · -- `P` itself is merged away: b sits right before P, u right before b
        subst hvp
        simp only [hv, hu, beq_self_eq_true, Bool.and_self, if_true, Option.getD_some]
        -- P's context, read off b's child list and off the gap
        have locP' : Loc f.roots P.handle (ib ++ [frb]) (lb0 ++ [U] ++ [Bn]) V rb0 := locV
        have locP : Loc f.roots P.handle (init ++ [fr]) l0 P (A :: N :: r0) := ⟨by rw [g.loc.eq]; simp, rfl⟩
        have c1 := ctx?_of_loc_snoc locP' nd
        rw [ctx?_of_loc_snoc locP nd] at c1
        simp only [Option.some.injEq, Ctx.mk.injEq] at c1
        obtain ⟨_, hl0, _, _⟩ := c1
        -- a's context in fs, then without P, then without b
        have loca : Loc f.roots a (init ++ [fr]) (((lb0 ++ [U]) ++ [Bn]) ++ [P]) A (N :: r0) := by
          have := g.loc; rw [hl0] at this; exact this
        have loca_fs := setView (.text (us ++ vs)) loca nd hua'
        rw [hfsdef] at loca_fs
        simp only [mapAtList_append] at loca_fs
        have e1 : mapAtList u (HTree.setValue (.text (us ++ vs))) [P] =
            [mapAt u (HTree.setValue (.text (us ++ vs))) P] := by simp [mapAtList]
        have e2 : mapAtList u (HTree.setValue (.text (us ++ vs))) [Bn] =
            [mapAt u (HTree.setValue (.text (us ++ vs))) Bn] := by simp [mapAtList]
        have e3 : mapAtList u (HTree.setValue (.text (us ++ vs))) [U] =
            [mapAt u (HTree.setValue (.text (us ++ vs))) U] := by simp [mapAtList]
        rw [e1, e2, e3] at loca_fs
        have hP' : (mapAt u (HTree.setValue (.text (us ++ vs))) P).handle = P.handle :=
          mapAt_handle u _ (fun t => by simp) P
        have hB' : (mapAt u (HTree.setValue (.text (us ++ vs))) Bn).handle = b := by
          rw [mapAt_handle u _ (fun t => by simp) Bn]; exact locb.hk
        have hU' : (mapAt u (HTree.setValue (.text (us ++ vs))) U).handle = u := by
          rw [mapAt_handle u _ (fun t => by simp) U]; exact hUh
        obtain ⟨loc2, nd2⟩ := loc_drop_last ndfs loca_fs
        rw [hP', ← eg1] at loc2 nd2
        obtain ⟨loc3, nd3⟩ := loc_drop_last nd2 loc2
        rw [hB'] at loc3 nd3
        rw [leftOf_of_loc loc3 nd3 (by simp)]
        simp [hU']
      · -- the merge does not touch P
        have hnot : (true && f.nextSibling b == some P.handle) = false := by
          rw [hv]; simp [hvp]
        rw [hnot]
        simp only [Bool.false_eq_true, if_false]
        have h1 : g1.leftOf a = some P.handle := by
          rw [eg1, leftOf_drop ndfs hafs hvfs hva_fs (by rw [hleft_fs]; simpa using Ne.symm hvp), hleft_fs]
        rw [leftOf_drop so.inv.nodup ha1 hb1 hanc_g1_a (by rw [h1]; simpa using hpb), h1]

end gap
end Forest
end XotModel
