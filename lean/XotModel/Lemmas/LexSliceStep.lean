/-
  XotModel.Lemmas.LexSliceStep — one call of `parse_next_impl`, taken apart once and for all:
  `TokStep tk t tk'` lists the ways a token can come out (which parser, in which state, and the
  tokenizer after it), `parseNextImpl_tokStep` / `parseNextImpl_skipStep` say these are all.
  Everything the loop needs (slices, abutting names, tag and depth bookkeeping) is then read
  off the constructors.
-/
import XotModel.Lemmas.LexSliceParse

namespace XotModel.Lex.Slice

open XotModel.Lex.Stream

/-- The depth after a close tag. -/
def closeDepth (d : Nat) : Nat := if d > 0 then d - 1 else d

/-- The ways `parse_next_impl` returns a token. -/
inductive TokStep (tk : Tokenizer) : Token → Tokenizer → Prop where
  | decl {t s'} : tk.state = .declaration → parseDeclaration tk.stream = some (t, s') →
      TokStep tk t { tk with stream := s', state := .afterDeclaration }
  | doctype {t s'} (st : State) : tk.state = .afterDeclaration →
      parseDoctype tk.stream = some (t, s') →
      (st = .dtd ∨ st = .afterDtd) → TokStep tk t { tk with stream := s', state := st }
  | entity {t s'} : tk.state = .dtd → parseEntityDecl tk.stream = some (t, s') →
      TokStep tk t { tk with stream := s' }
  | comment {t s'} : tk.state ≠ .attributes → parseComment tk.stream = some (t, s') →
      TokStep tk t { tk with stream := s' }
  | pi {t s'} : tk.state ≠ .attributes → parsePI tk.stream = some (t, s') →
      TokStep tk t { tk with stream := s' }
  | dtdEnd {s2} : tk.state = .dtd → Reach tk.stream s2 →
      TokStep tk (.dtdEnd (sliceBack tk.stream s2)) { tk with stream := s2, state := .afterDtd }
  | start {t s'} : (tk.state = .afterDtd ∨ tk.state = .elements) →
      parseElementStart tk.stream = some (t, s') →
      TokStep tk t { tk with stream := s', state := .attributes }
  | cdata {t s'} : tk.state = .elements → parseCdata tk.stream = some (t, s') →
      TokStep tk t { tk with stream := s' }
  | text {t s'} : tk.state = .elements → parseText tk.stream = some (t, s') →
      TokStep tk t { tk with stream := s' }
  | close {t s'} : tk.state = .elements → parseCloseElement tk.stream = some (t, s') →
      TokStep tk t { tk with stream := s', depth := closeDepth tk.depth,
                             state := stateAfterTag (closeDepth tk.depth) tk.fragment }
  | attr {t s'} : tk.state = .attributes → parseAttribute tk.stream = some (t, s') →
      kind t = .attr → TokStep tk t { tk with stream := s' }
  | tagOpen {sp s'} : tk.state = .attributes →
      parseAttribute tk.stream = some (.elementEnd .open sp, s') →
      TokStep tk (.elementEnd .open sp)
        { tk with stream := s', depth := tk.depth + 1,
                  state := stateAfterTag (tk.depth + 1) tk.fragment }
  | tagEmpty {sp s'} : tk.state = .attributes →
      parseAttribute tk.stream = some (.elementEnd .empty sp, s') →
      TokStep tk (.elementEnd .empty sp)
        { tk with stream := s', depth := tk.depth,
                  state := stateAfterTag tk.depth tk.fragment }

/-- `miscStep` returning a token: a comment, a PI, or the `other` alternative. -/
theorem miscStep_tokStep {tk tk' : Tokenizer} {other : Step} {t : Token}
    (hst : tk.state ≠ .attributes) (h : miscStep tk other = .token t tk') :
    TokStep tk t tk' ∨ other = .token t tk' := by
  unfold miscStep at h
  dsimp only at h
  split at h
  · obtain ⟨s', hr, rfl⟩ := Step.ofParse_token h
    exact .inl (.comment hst hr)
  · split at h
    · split at h
      · simp at h
      · obtain ⟨s', hr, rfl⟩ := Step.ofParse_token h
        exact .inl (.pi hst hr)
    · exact .inr h

theorem parseNextImpl_tokStep {src : Str} {tk tk' : Tokenizer} {t : Token}
    (hw : SWf src tk.stream) (he : tk.stream.atEnd = false)
    (h : parseNextImpl tk = .token t tk') : TokStep tk t tk' := by
  unfold parseNextImpl at h
  simp only [he, Bool.false_eq_true, if_false] at h
  split at h
  · next hst =>
    -- declaration
    split at h
    · obtain ⟨s', hr, rfl⟩ := Step.ofParse_token h
      exact .decl hst hr
    · simp at h
  · next hst =>
    -- afterDeclaration
    have hna : tk.state ≠ .attributes := by rw [hst]; decide
    split at h
    · split at h
      · simp at h
      · next t1 s1 hd =>
        simp only [Step.token.injEq] at h
        obtain ⟨rfl, rfl⟩ := h
        rcases (parseDoctype_good hw hd).2 with ⟨sp, rfl⟩ | ⟨sp, rfl⟩
        · exact .doctype .dtd hst hd (.inl rfl)
        · exact .doctype .afterDtd hst hd (.inr rfl)
    · rcases miscStep_tokStep hna h with h | h
      · exact h
      · split at h <;> simp at h
  · next hst =>
    -- dtd
    have hna : tk.state ≠ .attributes := by rw [hst]; decide
    split at h
    · obtain ⟨s', hr, rfl⟩ := Step.ofParse_token h
      exact .entity hst hr
    · rcases miscStep_tokStep hna h with h | h
      · exact h
      · split at h
        · split at h
          · simp only [Step.token.injEq] at h
            obtain ⟨rfl, rfl⟩ := h
            exact .dtdEnd hst (((Reach.adv _ 1).trans (skipSpaces_reach _)).trans (Reach.adv _ 1))
          · simp at h
        · split at h
          · simp at h
          · split at h
            · split at h <;> simp at h
            · simp at h
  · next hst =>
    -- afterDtd
    have hna : tk.state ≠ .attributes := by rw [hst]; decide
    rcases miscStep_tokStep hna h with h | h
    · exact h
    · split at h
      · simp at h
      · split at h
        · obtain ⟨s', hr, rfl⟩ := Step.ofParse_token h
          exact .start (.inl hst) hr
        · split at h <;> simp at h
  · next hst =>
    -- elements
    have hna : tk.state ≠ .attributes := by rw [hst]; decide
    split at h
    · split at h
      · simp at h
      · split at h
        · split at h
          · obtain ⟨s', hr, rfl⟩ := Step.ofParse_token h
            exact .comment hna hr
          · split at h
            · obtain ⟨s', hr, rfl⟩ := Step.ofParse_token h
              exact .cdata hst hr
            · simp at h
        · split at h
          · split at h
            · obtain ⟨s', hr, rfl⟩ := Step.ofParse_token h
              exact .pi hna hr
            · simp at h
          · split at h
            · obtain ⟨s', hr, rfl⟩ := Step.ofParse_token h
              exact .close hst hr
            · obtain ⟨s', hr, rfl⟩ := Step.ofParse_token h
              exact .start (.inr hst) hr
    · obtain ⟨s', hr, rfl⟩ := Step.ofParse_token h
      exact .text hst hr
  · next hst =>
    -- attributes
    split at h
    · simp at h
    · next t1 s1 ha =>
      rcases parseAttribute_good hw ha with hg | ⟨sp, rfl, _⟩ | ⟨sp, rfl, _⟩
      · have hk := hg.kind
        split at h
        · next e _ => cases e <;> simp [kind] at hk
        · simp only [Step.token.injEq] at h
          obtain ⟨rfl, rfl⟩ := h
          exact .attr hst ha hk
      · have e1 : (ElementEnd.open == ElementEnd.open) = true := by decide
        simp only [e1, if_true, Step.token.injEq] at h
        obtain ⟨rfl, rfl⟩ := h
        exact .tagOpen hst ha
      · have e2 : (ElementEnd.empty == ElementEnd.open) = false := by decide
        simp only [e2, Bool.false_eq_true, if_false, Step.token.injEq] at h
        obtain ⟨rfl, rfl⟩ := h
        exact .tagEmpty hst ha
  · next hst =>
    -- afterElements
    have hna : tk.state ≠ .attributes := by rw [hst]; decide
    rcases miscStep_tokStep hna h with h | h
    · exact h
    · split at h <;> simp at h
  · simp at h

/-- `parse_next_impl` returning `None` (stream not at its end, state not `End`): the stream
    moved forward, depth and mode are unchanged, and neither state is `Elements` or
    `Attributes`. -/
structure SkipStep (tk tk' : Tokenizer) : Prop where
  reach : Reach tk.stream tk'.stream
  depth : tk'.depth = tk.depth
  fragment : tk'.fragment = tk.fragment
  notAttr : tk.state ≠ .attributes
  notAttr' : tk'.state ≠ .attributes
  notElem' : tk'.state ≠ .elements

theorem parseNextImpl_skipStep {tk tk' : Tokenizer} (he : tk.stream.atEnd = false)
    (hf : tk.state ≠ .finished) (h : parseNextImpl tk = .skip tk') : SkipStep tk tk' := by
  have hr := (parseNextImpl_skip he hf h).1
  unfold parseNextImpl at h
  simp only [he, Bool.false_eq_true, if_false] at h
  split at h
  · next hst =>
    split at h
    · exact absurd h Step.ofParse_skip
    · simp only [Step.skip.injEq] at h
      subst h
      exact ⟨hr, rfl, rfl, by rw [hst]; decide, by simp, by simp⟩
  · next hst =>
    split at h
    · split at h <;> simp at h
    · have h := miscStep_skip h
      split at h
      · simp only [Step.skip.injEq] at h
        subst h
        exact ⟨hr, rfl, rfl, by rw [hst]; decide, by simp [hst], by simp [hst]⟩
      · simp only [Step.skip.injEq] at h
        subst h
        exact ⟨hr, rfl, rfl, by rw [hst]; decide, by simp, by simp⟩
  · next hst =>
    split at h
    · exact absurd h Step.ofParse_skip
    · have h := miscStep_skip h
      split at h
      · split at h <;> simp at h
      · split at h
        · simp only [Step.skip.injEq] at h
          subst h
          exact ⟨hr, rfl, rfl, by rw [hst]; decide, by simp [hst], by simp [hst]⟩
        · split at h
          · split at h
            · simp at h
            · simp only [Step.skip.injEq] at h
              subst h
              exact ⟨hr, rfl, rfl, by rw [hst]; decide, by simp [hst], by simp [hst]⟩
          · simp at h
  · next hst =>
    have h := miscStep_skip h
    split at h
    · simp at h
    · split at h
      · exact absurd h Step.ofParse_skip
      · split at h
        · simp only [Step.skip.injEq] at h
          subst h
          exact ⟨hr, rfl, rfl, by rw [hst]; decide, by simp [hst], by simp [hst]⟩
        · simp at h
  · split at h
    · split at h
      · simp at h
      · split at h
        · split at h
          · exact absurd h Step.ofParse_skip
          · split at h
            · exact absurd h Step.ofParse_skip
            · simp at h
        · split at h
          · split at h
            · exact absurd h Step.ofParse_skip
            · simp at h
          · split at h <;> exact absurd h Step.ofParse_skip
    · exact absurd h Step.ofParse_skip
  · split at h
    · simp at h
    · split at h <;> simp at h
  · next hst =>
    have h := miscStep_skip h
    split at h
    · simp only [Step.skip.injEq] at h
      subst h
      exact ⟨hr, rfl, rfl, by rw [hst]; decide, by simp [hst], by simp [hst]⟩
    · simp at h
  · next hst =>
    exact absurd hst hf

end XotModel.Lex.Slice
