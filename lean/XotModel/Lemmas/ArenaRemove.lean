/-
  XotModel.Lemmas.ArenaRemove — `NodeId::remove` of a live node WITH a parent and WITH children on
  a well-formed arena: the children take the node's place in the parent's child list, the slot is
  freed; no panic.
-/
import XotModel.Lemmas.ArenaSpliceRep

namespace XotModel
namespace Arena

/-- The `next_sibling` pointers along a child list form the chain. -/
theorem Rep.chainNext {a : Arena} {g : Shape} (r : Rep a g) (p : Nat) :
    ∀ (suf pre : List Nat), g.kids p = pre ++ suf → ChainNext a a suf
  | [], _, _ => trivial
  | c :: rest, pre, hk => by
    have hmem : c ∈ g.kids p := by rw [hk]; simp
    obtain ⟨s, hs, h0⟩ := (r.kidsLive p c hmem).2.1
    obtain ⟨L1, R1, e1, _, e3⟩ := (r.ptrs c s hs h0).sib p (r.kidsLive p c hmem).2.2
    obtain ⟨_, hR⟩ := split_unique (by rw [← e1]; exact r.kidsNodup p) (e1.symm.trans hk)
    exact ⟨⟨s, hs, by rw [e3, hR]⟩, r.chainNext p rest (pre ++ [c]) (by rw [hk]; simp)⟩

theorem Rep.kids_length_le {a : Arena} {g : Shape} (r : Rep a g) (p : Nat) : (g.kids p).length ≤ a.nodes.length :=
  nodup_bounded _ _ (r.kidsNodup p) (fun c hc => by
    obtain ⟨s, hs, _⟩ := (r.kidsLive p c hc).2.1
    exact lt_of_slot hs)

/-- List-level `remove` of a node with parent `p` (`kids p = L ++ i :: R`) and children. -/
def Shape.removeInner (g : Shape) (i p : Nat) (L R : List Nat) : Shape :=
  { (g.detach i).splice i p L R with free := g.free ++ [i] }

theorem Shape.detach_kids_par (g : Shape) (i p : Nat) (L R : List Nat) (hpar : g.par i = some p)
    (hk : g.kids p = L ++ i :: R) (hnd : (g.kids p).Nodup) : (g.detach i).kids p = L ++ R := by
  unfold Shape.detach
  rw [hpar]
  simp only [if_true]
  rw [hk]; rw [hk] at hnd
  exact erase_split hnd

theorem Rep.remove_inner {a : Arena} {g : Shape} (r : Rep a g) (i p : Nat) (L R : List Nat) (c1 ck : Nat)
    (hi : Live a i) (hpar : g.par i = some p) (hk : g.kids p = L ++ i :: R)
    (hhead : (g.kids i).head? = some c1) (hlast : (g.kids i).getLast? = some ck) :
    ∃ a5 a', MetaEq a a5 ∧ Rep a5 ((g.detach i).splice i p L R) ∧
      Arena.remove a (a.idAt i) = .done a' () ∧ FreeNodeOk a5 ((g.detach i).splice i p L R) i a' ∧
      Rep a' (g.removeInner i p L R) := by
  obtain ⟨a1, hd, r1, hM⟩ := r.detach (a.idAt i) (LiveId.idAt hi)
  rw [idAt_index0] at r1
  have hid : a1.idAt = a.idAt := funext hM.idAt
  have hi1 : Live a1 i := (hM.live i).mpr hi
  have hpi : p ≠ i := r.par_ne hpar
  have hkids1 : (g.detach i).kids i = g.kids i := Shape.detach_kids_self g (fun c p h => r.par_ne h) i
  have hkp1 : (g.detach i).kids p = L ++ R := Shape.detach_kids_par g i p L R hpar hk (r.kidsNodup p)
  have hp1 : Live a1 p := (hM.live p).mpr (r.live_of_par hpar).2
  have hanc1 : ¬ Reach (g.detach i).par p i := fun h =>
    r.acyclic i p hpar (Reach.mono (Shape.detach_par_le g i) h)
  have r5 := r1.splice i p L R c1 ck hi1 (Shape.detach_par_self g i) hp1 hpi hkp1 hanc1
    (by rw [hkids1]; exact hhead) (by rw [hkids1]; exact hlast)
  rw [hkids1, hid] at r5
  generalize ha5 : spliceArena a1 i p c1 ck (L.getLast?.map a.idAt) (R.head?.map a.idAt) (g.kids i) = a5 at r5
  have hM5 : MetaEq a a5 := by rw [← ha5]; exact hM.trans (MetaEq.spliceArena _ _ _ _ _ _ _ _)
  have hi5 : Live a5 i := (hM5.live i).mpr hi
  have hpar5 : ((g.detach i).splice i p L R).par i = none := by
    have : i ∉ (g.detach i).kids i := fun hm => by
      have := (r1.kidsLive i i hm).2.2
      rw [Shape.detach_par_self] at this; cases this
    simp [Shape.splice, this, Shape.detach_par_self]
  have hkids5 : ((g.detach i).splice i p L R).kids i = [] := by simp [Shape.splice, hpi.symm]
  obtain ⟨a', hf, hok⟩ := r5.freeNode i hi5 hpar5 hkids5
  have hfinal : Rep a' (g.removeInner i p L R) := by
    have := hok.rep
    simp only [Shape.splice, Shape.detach_free] at this
    exact this
  refine ⟨a5, a', hM5, r5, ?_, hok, hfinal⟩
  -- the computation
  obtain ⟨s, hs, h0⟩ := hi
  have P := r.ptrs i s hs h0
  unfold Arena.remove
  rw [rd_some _ _ _ _ (show a.slot (a.idAt i).index0 = some s by rw [idAt_index0]; exact hs)]
  have hfirst : s.first = some (a.idAt c1) := by rw [P.first, hhead]; rfl
  have hlast' : s.last = some (a.idAt ck) := by rw [P.last, hlast]; rfl
  have hsp : s.parent = some (a.idAt p) := by rw [P.parent, hpar]; rfl
  obtain ⟨L', R', e1, hsv, hsn⟩ := P.sib p hpar
  obtain ⟨hL, hR⟩ := split_unique (by rw [← e1]; exact r.kidsNodup p) (e1.symm.trans hk)
  subst hL hR
  simp only [hfirst, hlast', Option.isSome_some, bne_self_eq_false, Bool.false_eq_true, if_false]
  rw [hd]
  simp only [Step.bind_done]
  -- `detach_from_siblings` of the whole child list
  have hc1K : c1 ∈ g.kids i := List.mem_of_mem_head? hhead
  have hckK : ck ∈ g.kids i := List.mem_of_getLast? hlast
  have hc1K1 : c1 ∈ (g.detach i).kids i := by rw [hkids1]; exact hc1K
  have hckK1 : ck ∈ (g.detach i).kids i := by rw [hkids1]; exact hckK
  obtain ⟨sf, hsf, hsf0⟩ := (r1.kidsLive i c1 hc1K1).2.1
  obtain ⟨sl, hsl, hsl0⟩ := (r1.kidsLive i ck hckK1).2.1
  have Pf := r1.ptrs c1 sf hsf hsf0
  have Pl := r1.ptrs ck sl hsl hsl0
  have hsfp : sf.prev = none := by
    obtain ⟨A, B, e1, e2, _⟩ := Pf.sib i (r1.kidsLive i c1 hc1K1).2.2
    rw [hkids1] at e1
    have : A = [] := by
      cases A with
      | nil => rfl
      | cons y A' =>
        exfalso
        rw [e1] at hhead
        simp at hhead; subst hhead
        have hnd := r.kidsNodup i
        rw [e1] at hnd
        exact (List.nodup_cons.mp hnd).1 (by simp)
    rw [e2, this]; rfl
  have hsln : sl.next = none := by
    obtain ⟨A, B, e1, _, e3⟩ := Pl.sib i (r1.kidsLive i ck hckK1).2.2
    rw [hkids1] at e1
    have : B = [] := by
      cases hB : B with
      | nil => rfl
      | cons y B' =>
        exfalso
        have hne : B ≠ [] := by rw [hB]; simp
        rw [e1] at hlast
        have hm := getLast?_cons_ne_nil_mem hne hlast
        have hnd := r.kidsNodup i
        rw [e1] at hnd
        exact (List.nodup_cons.mp (List.nodup_append.mp hnd).2.1).1 hm
    rw [e3, this]; rfl
  have hsfpar : sf.parent = some (a.idAt i) := by
    rw [Pf.parent, (r1.kidsLive i c1 hc1K1).2.2, hid]; rfl
  obtain ⟨si1, hsi1, hsi10⟩ := hi1
  have e2 := detachFromSiblings_all_eq a1 (a.idAt c1) (a.idAt ck) sf sl (by rw [idAt_index0]; exact hsf) hsfp
    (by rw [idAt_index0]; exact hsl) hsln (by
      rw [hsfpar]; intro id hid'; cases hid'; exact ⟨si1, by rw [idAt_index0]; exact hsi1⟩)
  rw [e2, hsfpar]
  simp only [Step.bind_done, modOpt_some, idAt_index0]
  -- `transplant`
  generalize ha2 : a1.mod i (fun s => { s with first := none, last := none }) = a2
  have ha2slot : ∀ j, j ≠ i → a2.slot j = a1.slot j := fun j hj => by rw [← ha2]; simp [Ne.symm hj]
  have hiK : i ∉ g.kids i := fun hm => by
    have := (r.kidsLive i i hm).2.2
    exact r.par_ne this rfl
  have hchain : ChainNext a2 a1 (g.kids i) :=
    ChainNext.congr _ (fun c hc => ha2slot c (fun e => hiK (e ▸ hc)))
      (r1.chainNext i (g.kids i) [] (by rw [hkids1]; rfl))
  have hlen : (g.kids i).length < a2.fuel := by
    have := r.kids_length_le i
    have hl : a2.nodes.length = a.nodes.length := by
      rw [← ha2, mod_length]
      have := hM.stamp
      -- same number of slots: both arenas have a slot exactly where the other has
      rcases Nat.lt_trichotomy a1.nodes.length a.nodes.length with h | h | h
      · exfalso
        have h1 : a.slot a1.nodes.length ≠ none := by
          unfold slot; rw [List.getElem?_eq_getElem h]; simp
        have h2 : a1.slot a1.nodes.length = none := slot_none_of_ge a1 _ (Nat.le_refl _)
        have := hM.stamp a1.nodes.length
        rw [h2] at this
        cases h3 : a.slot a1.nodes.length with
        | none => exact h1 h3
        | some x => rw [h3] at this; simp at this
      · exact h
      · exfalso
        have h1 : a1.slot a.nodes.length ≠ none := by
          unfold slot; rw [List.getElem?_eq_getElem h]; simp
        have h2 : a.slot a.nodes.length = none := slot_none_of_ge a _ (Nat.le_refl _)
        have := hM.stamp a.nodes.length
        rw [h2] at this
        cases h3 : a1.slot a.nodes.length with
        | none => exact h1 h3
        | some x => rw [h3] at this; simp at this
    unfold fuel; omega
  have inr : ∀ (o : Option Nat), (∀ j, o = some j → Live a j) → InRange a2 (o.map a.idAt) := by
    intro o ho id hid'
    cases o with
    | none => simp at hid'
    | some j =>
      simp only [Option.map_some, Option.some.injEq] at hid'
      subst hid'
      obtain ⟨sj, hsj, _⟩ := (hM.live j).mpr (ho j rfl)
      rw [idAt_index0, ← ha2, slot_mod]
      split
      · exact ⟨_, by rw [hsj]; rfl⟩
      · exact ⟨sj, hsj⟩
  have live_kids : ∀ q c, c ∈ g.kids q → Live a c := fun q c hc => (r.kidsLive q c hc).2.1
  have hLp : ∀ y, y ∈ L' → y ∈ g.kids p := fun y h => by rw [hk]; exact List.mem_append_left _ h
  have hRp : ∀ y, y ∈ R' → y ∈ g.kids p := fun y h => by rw [hk]; exact List.mem_append_right _ (List.mem_cons_of_mem _ h)
  have e3 := transplant_chain_eq a1 a2 (g.kids i) c1 ck (some (a.idAt p)) (L'.getLast?.map a.idAt) (R'.head?.map a.idAt)
    hhead (r.kidsNodup i) (fun c hc => by
      rw [hid]; intro e
      simp only [Option.some.injEq] at e
      have := congrArg NodeId.index0 e
      simp at this; subst this
      have h1 := (r.kidsLive i c hc).2.2
      exact r.acyclic c i h1 (.single hpar)) hchain hlen
    (inr (some p) (fun j hj => by cases hj; exact (r.live_of_par hpar).2))
    (inr _ (fun j hj => live_kids p j (hLp j (List.mem_of_getLast? hj))))
    (inr _ (fun j hj => live_kids p j (hRp j (List.mem_of_mem_head? hj))))
    (by rw [hid]; exact inr (some c1) (fun j hj => by cases hj; exact live_kids i c1 hc1K))
    (by rw [hid]; exact inr (some ck) (fun j hj => by cases hj; exact live_kids i ck hckK))
  rw [hid] at e3
  rw [hsp, hsv, hsn, e3]
  simp only [expectOk, Step.bind_done]
  have e5 : unlink (unlink (setParents a2 (g.kids i) (some (a.idAt p))) (some (a.idAt p)) (L'.getLast?.map a.idAt)
      (some (a.idAt c1))) (some (a.idAt p)) (some (a.idAt ck)) (R'.head?.map a.idAt) = a5 := by
    rw [← ha5, ← ha2]
    unfold spliceArena
    rw [hid]
  rw [e5, ← hM5.idAt i]
  exact hf

end Arena
end XotModel
