/-
  Lemmas for C11, part 14: node-style removal — `remove` and `detach` of an entry node of the
  element are `remove(key)` of the view (the detached node stays as a parentless tree).
-/
import XotModel.Lemmas.FmapEntry

namespace XotModel
namespace Fmap
open HTree
open Forest (MapKind entryKey mapChildren)

/-- With distinct keys, `get_node` of an entry node's key finds that node. -/
theorem getNode_of_mem {f : Forest} {e nm : Nat} {N A S : List HTree} (h : MInv f e nm N A S)
    (k : MapKind) (n : HTree) (hn : n ∈ Sect.sec k N A) :
    f.mapGetNode k e (keyOf n) = some n ∧
    ∃ s1 s2, Sect.sec k N A = s1 ++ n :: s2 ∧ ∀ a ∈ s1, keyOf a ≠ keyOf n := by
  obtain ⟨s1, s2, hs⟩ := List.append_of_mem hn
  have hu := h.uniq k
  rw [hs] at hu
  simp only [List.map_append, List.map_cons] at hu
  have hs1 : ∀ a ∈ s1, keyOf a ≠ keyOf n := by
    intro a ha hk
    have := (List.nodup_append.mp hu).2.2 (keyOf a) (List.mem_map.mpr ⟨a, ha, rfl⟩)
      (keyOf n) List.mem_cons_self
    exact this hk
  refine ⟨?_, s1, s2, hs, hs1⟩
  rw [h.getNode k, hs]
  apply List.find?_eq_some_iff_append.mpr
  refine ⟨by simp [keyOf], s1, s2, rfl, ?_⟩
  intro a ha
  have := hs1 a ha
  simpa [keyOf] using this

/-- `remove(node)` of an entry node of view `k` of `e` is `remove(key)` on the view. -/
theorem remove_node_eq {f : Forest} {e nm : Nat} {N A S : List HTree} (h : MInv f e nm N A S)
    (k : MapKind) (hd : Nat) (hm : hd ∈ absNodes k f e) :
    ∃ n, f.mapGetNode k e (keyOf n) = some n ∧ n.handle = hd ∧
      f.remove hd = f.mapRemove k e (keyOf n) := by
  rw [h.absNodes_eq k] at hm
  obtain ⟨n, hn, hh⟩ := List.mem_map.mp hm
  obtain ⟨hg, _⟩ := getNode_of_mem h k n hn
  refine ⟨n, hg, hh, ?_⟩
  unfold Forest.mapRemove
  rw [h.isElement, hg, ← hh]
  rfl

theorem mapAtList_append (e : Nat) (g : HTree → HTree) (a b : List HTree) :
    mapAtList e g (a ++ b) = mapAtList e g a ++ mapAtList e g b := by
  simp [mapAtList_eq_map]

/-- `detach(node)` of a direct child that is an entry node. -/
theorem detach_child {f : Forest} {e : Nat} {ev : Value} {l r : List HTree} {n : HTree}
    (h : Located f e ev (l ++ n :: r)) (hc : n.value.category ≠ .normal) :
    f.detach n.handle = ({ f with roots := withKids f.roots e (l ++ r) ++ [n] }, .ok) := by
  unfold Forest.detach
  simp only
  congr 1
  unfold Forest.detachRaw
  rw [cut_child h]
  simp only [Forest.addRoot]
  have hloc := located_after_cut h
  have hfound : ∀ x ∈ l ++ r,
      ({ f with roots := withKids f.roots e (l ++ r) ++ [n] } : Forest).get? x.handle = some x := by
    intro x hx
    have := hloc.childFound x hx
    exact findList?_append_left _ _ _ _ this
  generalize hf1 : ({ f with roots := withKids f.roots e (l ++ r) ++ [n] } : Forest) = f1 at hfound ⊢
  have hctx := ctx?_child f h.nodup e _ l r n h.get rfl
  unfold Forest.removeConsolidate
  split
  · rfl
  · cases hp : f.prevSibling n.handle with
    | none => rfl
    | some p =>
      cases hnx : f.nextSibling n.handle with
      | none => rfl
      | some nx =>
        simp only
        have : f1.textOf p = none := by
          unfold Forest.prevSibling at hp
          rw [hctx] at hp
          simp only at hp
          cases hl : l.getLast? with
          | none => rw [hl] at hp; cases hp
          | some pt =>
            rw [hl] at hp
            simp only at hp
            split at hp
            · rename_i hcat
              cases hp
              have hpm : pt ∈ l := List.mem_of_getLast? hl
              have hpc : pt.value.category ≠ .normal := by
                have : pt.value.category = n.value.category := by simpa using hcat
                rw [this]; exact hc
              exact textOf_none_of_entry f1 pt (hfound pt (List.mem_append_left _ hpm)) hpc
            · cases hp
        rw [this]

/-- After the detachment `e` is located with the remaining children; handles stay distinct. -/
theorem located_after_detach {f : Forest} {e : Nat} {ev : Value} {l r : List HTree} {n : HTree}
    (h : Located f e ev (l ++ n :: r)) :
    Located { f with roots := withKids f.roots e (l ++ r) ++ [n] } e ev (l ++ r) := by
  have hloc := located_after_cut h
  constructor
  · show (handlesList (withKids f.roots e (l ++ r) ++ [n])).Nodup
    rw [handlesList_append]
    simp only [handlesList, List.append_nil]
    have hs := nodup_split l r n h.kidsNodup.1
    apply List.nodup_append.mpr
    refine ⟨hloc.nodup, hs.2.2.2.2, ?_⟩
    intro x hx y hy hxy
    subst hxy
    -- a handle of the detached subtree is in no other part of the old forest
    obtain ⟨pre, post, h1, h2⟩ :=
      handlesList_mapAtList_split e (atKids (fun _ => l ++ r)) f.roots _ h.nodup h.get
    have hnd := h.nodup
    unfold Forest.allHandles at hnd
    rw [h1] at hnd
    unfold withKids at hx
    rw [h2] at hx
    change x ∈ pre ++ handles (.node e ev (l ++ r)) ++ post at hx
    have hxt : x ∈ handles (.node e ev (l ++ n :: r)) := by
      simp only [handles, handlesList_append, handlesList, List.mem_cons, List.mem_append]
      exact Or.inr (Or.inr (Or.inl hy))
    have ha := List.nodup_append.mp hnd
    have hb := List.nodup_append.mp ha.1
    simp only [List.mem_append] at hx
    rcases hx with (hx | hx) | hx
    · exact hb.2.2 _ hx _ hxt rfl
    · -- inside `e`'s remaining subtree: contradiction with distinctness inside `e`
      have hk := findList?_nodup e f.roots _ h.nodup h.get
      simp only [handles, List.nodup_cons, handlesList_append, handlesList] at hk hx
      simp only [List.mem_cons, List.mem_append] at hx
      have hk2 := List.nodup_append.mp hk.2
      have hk3 := List.nodup_append.mp hk2.2.1
      rcases hx with hx | hx | hx
      · exact hk.1 (by
          rw [← hx]
          simp only [List.mem_append]
          exact Or.inr (Or.inl hy))
      · exact hk2.2.2 _ hx _ (List.mem_append_left _ hy) rfl
      · exact hk3.2.2 _ hy _ hx rfl
    · exact ha.2.2 _ (List.mem_append_right _ hxt) _ hx rfl
  · exact findList?_append_left e _ _ _ hloc.get

/-- `detach(node)` of an entry node of view `k`: the view loses that key (`omRemove`), the node
    becomes a parentless tree with its value, everything else stays. -/
theorem detach_node_step {f : Forest} {e nm : Nat} {N A S : List HTree} (h : MInv f e nm N A S)
    (k : MapKind) (n : HTree) (hn : n ∈ Sect.sec k N A) :
    ∃ s', Step f (f.detach n.handle).1 e nm N A S k (f.roots ++ [n]) s' ∧
      (f.detach n.handle).2 = .ok ∧
      s'.map entryPair = omRemove ((Sect.sec k N A).map entryPair) (keyOf n) ∧
      n ∈ (f.detach n.handle).1.roots := by
  obtain ⟨_, s1, s2, hs, hs1⟩ := getNode_of_mem h k n hn
  have hloc : Located f e (.element nm) ((preK k N ++ s1) ++ n :: (s2 ++ postK k A S)) := by
    rw [← kids_around k N A S s1 s2 n hs]; exact h.loc
  have hncat : n.value.category = kindCat k := h.sect.sec_cat k n hn
  have hdet := detach_child hloc (by rw [hncat]; exact kindCat_ne_normal k)
  have hkids : (preK k N ++ s1) ++ (s2 ++ postK k A S) = preK k N ++ (s1 ++ s2) ++ postK k A S := by
    simp
  have hloc' := located_after_detach hloc
  rw [hkids] at hdet hloc'
  rw [hdet]
  have hen : e ∉ handles n := by
    intro hx
    apply hloc.kidsNodup.2
    rw [handlesList_append]
    simp only [handlesList, List.mem_append]
    exact Or.inr (Or.inl hx)
  refine ⟨s1 ++ s2, ⟨?_, ?_, Nat.le_refl _⟩, rfl, ?_, by simp⟩
  · simp only
    congr 1
    unfold withKids
    rw [mapAtList_append]
    simp only [mapAtList, mapAt_not_mem e _ n hen]
  · apply h.update k (s1 ++ s2) (fun x hx => h.leaf k x (by
      rw [hs]
      simp only [List.mem_append, List.mem_cons] at hx ⊢
      rcases hx with hx | hx
      · exact Or.inl hx
      · exact Or.inr (Or.inr hx))) hloc'
    · intro x hx
      apply h.sect.sec_cat k x
      rw [hs]
      simp only [List.mem_append, List.mem_cons] at hx ⊢
      rcases hx with hx | hx
      · exact Or.inl hx
      · exact Or.inr (Or.inr hx)
    · have := h.uniq k
      rw [hs] at this
      simp only [List.map_append, List.map_cons] at this ⊢
      exact List.Nodup.sublist (List.Sublist.append (List.Sublist.refl _) (List.sublist_cons_self _ _)) this
    · intro x hx
      change x ∈ handlesList (withKids f.roots e _ ++ [n]) at hx
      rw [handlesList_append] at hx
      simp only [handlesList, List.append_nil, List.mem_append] at hx
      have hold : ∀ y ∈ handlesList (N ++ A ++ S), y < f.next := by
        intro y hy
        apply h.below
        apply findList?_sub e f.roots _ h.loc.get
        simp only [handles, List.mem_cons]; exact Or.inr hy
      rcases hx with hx | hx
      · rcases mem_withKids _ e _ _ h.loc.nodup h.loc.get x hx with hx | hx
        · exact h.below x hx
        · apply hold
          rw [kids_around k N A S s1 s2 n hs]
          rw [← hkids] at hx
          rw [handlesList_append] at hx ⊢
          simp only [handlesList, List.mem_append] at hx ⊢
          rcases hx with hx | hx
          · exact Or.inl hx
          · exact Or.inr (Or.inr hx)
      · apply hold
        rw [kids_around k N A S s1 s2 n hs, handlesList_append]
        simp only [handlesList, List.mem_append]
        exact Or.inr (Or.inl hx)
  · rw [hs]
    simp only [List.map_append, List.map_cons]
    have e1 : entryPair n = (keyOf n, payloadOf n.value) := rfl
    rw [e1, omRemove_split]
    intro a ha
    obtain ⟨x, hx, rfl⟩ := List.mem_map.mp ha
    exact hs1 x hx

end Fmap
end XotModel

namespace XotModel
namespace Fmap
open HTree
open Forest (MapKind entryKey mapChildren)

theorem entryUpdate_self (k : MapKind) (v : Value) (hc : v.category = kindCat k) :
    Forest.entryUpdate v v = v := by
  cases k <;> cases v <;> simp_all [Value.category, kindCat, Forest.entryUpdate]

theorem setValue_self (n : HTree) : n.setValue n.value = n := by
  cases n; rfl

/-- Appending an entry node that already is an entry of this view of this element changes
    nothing (the node finds itself under its key and is "updated" with its own value). -/
theorem appendEntryNode_own {f : Forest} {e nm : Nat} {N A S : List HTree} (h : MInv f e nm N A S)
    (k : MapKind) (n : HTree) (hn : n ∈ Sect.sec k N A) :
    f.appendEntryNode k e n.handle = (f, .ok, n.handle) := by
  obtain ⟨hg, s1, s2, hs, hs1⟩ := getNode_of_mem h k n hn
  have hncat : n.value.category = kindCat k := h.sect.sec_cat k n hn
  have hm : k.matches n.value = true := (matches_iff_cat k _).mpr hncat
  have hnk : n ∈ N ++ A ++ S := by
    cases k
    · exact List.mem_append_left _ (List.mem_append_right _ hn)
    · exact List.mem_append_left _ (List.mem_append_left _ hn)
  have hval : f.value? n.handle = some n.value := by
    simp [Forest.value?, h.loc.childFound n hnk]
  unfold Forest.appendEntryNode
  rw [h.isElement]
  simp only [Bool.not_true, Bool.false_eq_true, if_false, hval, hm]
  unfold Forest.mapInsertNode
  simp only [hval, hm, Bool.not_true, Bool.false_eq_true, if_false]
  have hg' : f.mapGetNode k e (entryKey n.value) = some n := hg
  rw [hg']
  simp only
  obtain ⟨heq, _⟩ := insert_existing h k n.value hm n s1 s2 hs _ rfl hs1
  rw [heq, entryUpdate_self k n.value hncat, setValue_self, ← hs, ← split_kids, withKids_self h.loc]

end Fmap
end XotModel

namespace XotModel
namespace Fmap
open HTree
open Forest (MapKind entryKey mapChildren)

/-- `append_*_node` of ANY live entry node (detached, or attached anywhere) whose key the view
    already has: the existing node takes the value and is returned; nothing else changes (in
    particular the passed node stays where it is). -/
theorem appendEntryNode_existing {f : Forest} {e nm : Nat} {N A S : List HTree}
    (h : MInv f e nm N A S) (k : MapKind) (nd : Nat) (v : Value) (hval : f.value? nd = some v)
    (hm : k.matches v = true) (n : HTree) (hn : f.mapGetNode k e (entryKey v) = some n) :
    ∃ s', Step f (f.appendEntryNode k e nd).1 e nm N A S k f.roots s' ∧
      f.appendEntryNode k e nd = (f.setValue n.handle (Forest.entryUpdate n.value v), .ok, n.handle) ∧
      s'.map entryPair = omInsert ((Sect.sec k N A).map entryPair) (entryKey v) (payloadOf v) ∧
      s'.map (·.handle) = (Sect.sec k N A).map (·.handle) := by
  have heq : f.appendEntryNode k e nd =
      (f.setValue n.handle (Forest.entryUpdate n.value v), .ok, n.handle) := by
    unfold Forest.appendEntryNode
    rw [h.isElement]
    simp only [Bool.not_true, Bool.false_eq_true, if_false, hval, hm]
    unfold Forest.mapInsertNode
    simp only [hval, hm, Bool.not_true, Bool.false_eq_true, if_false, hn]
  rw [h.getNode k] at hn
  obtain ⟨hkey, s1, s2, hs, hs1⟩ := find?_key_split _ _ _ hn
  obtain ⟨hset, hinv, hmap, hnodes⟩ := insert_existing h k v hm n s1 s2 hs _ hkey hs1
  rw [heq]
  refine ⟨_, ⟨?_, ?_, ?_⟩, rfl, hmap, hnodes⟩
  · simp only; rw [hset]
  · simp only; rw [hset]; exact hinv
  · simp only; rw [hset]; exact Nat.le_refl _

end Fmap
end XotModel
