/-
  The right-to-left construction route (`prepend`, then `insert_before` the previously attached
  sibling), and the document level of the bottom-up and right-to-left routes.
-/
import XotModel.Lemmas.FfixedBottomUp

namespace XotModel
open HTree

theorem noAdjacentFText_of_no_text : ∀ (l : List FContent), (∀ c ∈ l, c.isText = false) →
    noAdjacentFText l = true
  | [], _ => rfl
  | [_], _ => rfl
  | a :: b :: rest, h => by
    simp only [noAdjacentFText, Bool.and_eq_true]
    exact ⟨by simp [h a (by simp)],
      noAdjacentFText_of_no_text (b :: rest) (fun c hc => h c (List.mem_cons_of_mem _ hc))⟩

theorem items_no_text (d : FDocument) : ∀ c ∈ d.items, c.isText = false := by
  intro c hc
  simp only [FDocument.items, List.mem_append, List.mem_map, List.mem_cons] at hc
  rcases hc with ⟨b, _, rfl⟩ | rfl | ⟨b, _, rfl⟩
  · cases b <;> rfl
  · rfl
  · cases b <;> rfl

theorem wfList_append (b : Bool) (l1 l2 : List FContent) :
    FContent.wfList b (l1 ++ l2) = (FContent.wfList b l1 && FContent.wfList b l2) := by
  induction l1 with
  | nil => simp [FContent.wfList]
  | cons c cs ih => simp [FContent.wfList, ih, Bool.and_assoc]

theorem wfList_docContent (b : Bool) (l : List FDocContent) :
    FContent.wfList b (l.map FDocContent.toContent) = true := by
  induction l with
  | nil => rfl
  | cons c cs ih => cases c <;> simp [FContent.wfList, FDocContent.toContent, FContent.wf, ih]

theorem items_wfList (d : FDocument) (b : Bool) (h : d.wf b = true) :
    FContent.wfList b d.items = true := by
  unfold FDocument.items
  rw [wfList_append]
  simp only [FContent.wfList, wfList_docContent, Bool.and_true, Bool.true_and]
  exact h

/-- A document tree from its built children. -/
theorem built_document {f : Forest} (hg : Good f) (d : FDocument) {ts : List HTree} {dn lo : Nat}
    (hts : BuiltL lo d.items ts)
    (hdn : f.next ≤ dn ∧ dn < f.next + d.size) (hlo : f.next ≤ lo ∧ lo + FContent.sizeList d.items ≤ f.next + d.size)
    (hdisj : dn < lo ∨ lo + FContent.sizeList d.items ≤ dn) :
    (HTree.node dn .document ts).erase = treeOf d ∧
    Good { f with roots := f.roots ++ [HTree.node dn .document ts], next := f.next + d.size } := by
  refine ⟨by simp [erase, treeOf, hts.erase], ?_⟩
  apply hg.add_roots [HTree.node dn .document ts] _
  · simp only [handlesList, handles, List.append_nil, List.nodup_cons]
    refine ⟨?_, hts.nodup⟩
    intro hh; have := hts.bounds _ hh; omega
  · intro h hh
    simp only [handlesList, handles, List.append_nil, List.mem_cons] at hh
    rcases hh with rfl | hh
    · omega
    · have := hts.bounds h hh; omega
  · omega

theorem Good.add_kids {f : Forest} (hg : Good f) {A K : List HTree} {p : Nat} {v : Value}
    (hroots : f.roots = A ++ [HTree.node p v K]) (ts : List HTree) (n' : Nat)
    (hnd : (handlesList ts).Nodup) (hb : ∀ h ∈ handlesList ts, f.next ≤ h ∧ h < n') (hn : f.next ≤ n') :
    Good { f with roots := A ++ [HTree.node p v (K ++ ts)], next := n' } := by
  intro a
  have h0 := hg a
  unfold Forest.allHandles at h0 ⊢
  have hc : (handlesList (A ++ [HTree.node p v (K ++ ts)])).count a =
      (handlesList f.roots).count a + (handlesList ts).count a := by
    rw [hroots]
    simp only [handlesList_append_ff, handlesList, handles, List.count_append, List.count_cons,
      List.append_nil]
    omega
  show (handlesList (A ++ [HTree.node p v (K ++ ts)])).count a ≤ if a < n' then 1 else 0
  rw [hc]
  have h1 := List.nodup_iff_count.1 hnd a
  by_cases hlt : a < f.next
  · have : (handlesList ts).count a = 0 :=
      List.count_eq_zero.2 (fun hm => by have := (hb a hm).1; omega)
    rw [if_pos hlt] at h0
    rw [if_pos (by omega)]; omega
  · rw [if_neg hlt] at h0
    by_cases hlt' : a < n'
    · rw [if_pos hlt']; omega
    · have : (handlesList ts).count a = 0 :=
        List.count_eq_zero.2 (fun hm => by have := (hb a hm).2; omega)
      rw [if_neg hlt']; omega

namespace Forest

/-- Bottom-up document. -/
theorem bottomUpDocument_spec (f : Forest) (d : FDocument) (hg : Good f)
    (hwf : d.wf f.consolidation = true) :
    ∃ t, f.bottomUpDocument d =
          some ({ f with roots := f.roots ++ [t], next := f.next + d.size }, t.handle) ∧
        t.erase = treeOf d ∧
        Good { f with roots := f.roots ++ [t], next := f.next + d.size } := by
  obtain ⟨ts, hts, hlist⟩ := bottomUpList_spec d.items f hg (items_wfList d _ hwf)
  let f1 : Forest := { f with roots := f.roots ++ ts, next := f.next + FContent.sizeList d.items }
  have hg1 : Good f1 := hg.add_roots ts _ hts.nodup hts.bounds (by omega)
  let dn := f1.next
  let f2 : Forest := { f1 with roots := f1.roots ++ [HTree.node dn .document []], next := dn + 1 }
  have hg2 : Good f2 := hg1.newNode .document
  have happ := appendAllOk_before (A := f.roots) (B := []) (p := dn) (v := .document) (Or.inr rfl)
    ts f2 [] (by simp [f2, f1]) hg2 (built_normal ts _ hts.erase)
    (fun _ => by
      simpa using built_noAdjacentText ts _ hts.erase (noAdjacentFText_of_no_text _ (items_no_text d)))
  obtain ⟨he, hgood⟩ := built_document hg d (dn := dn) hts
    (by simp only [dn, f1, FDocument.size]; omega) (by simp only [FDocument.size]; omega)
    (Or.inr (by simp only [dn, f1]; omega))
  refine ⟨HTree.node dn .document ts, ?_, he, hgood⟩
  unfold bottomUpDocument
  rw [hlist]
  simp only [newDocument, newNode]
  show (match f2.appendAllOk dn (ts.map HTree.handle) with
    | none => none
    | some f3 => some (f3, dn)) = _
  rw [happ]
  simp only [f2, f1, dn, FDocument.size, List.nil_append, HTree.handle, Option.some.injEq,
    Prod.mk.injEq, and_true]
  congr 1
  omega

theorem attachFirst_prepend {f f' : Forest} {p h : Nat} (hp : f.prepend p h = (f', .ok)) :
    f.attachFirst p none h = some f' := by
  unfold attachFirst; simp only; rw [hp]

theorem attachFirst_insert {f f' : Forest} {p n h : Nat} (hp : f.insertBefore n h = (f', .ok)) :
    f.attachFirst p (some n) h = some f' := by
  unfold attachFirst; simp only; rw [hp]

mutual
  theorem rtlContent_spec : ∀ (c : FContent) (f : Forest), Good f → c.wf f.consolidation = true →
      ∃ t, Built f.next c t ∧
        rtlContent f c = some ({ f with roots := f.roots ++ [t], next := f.next + c.size }, t.handle)
    | .text s, f, _, _ => ⟨.node f.next (.text s) [], Built.leaf _ _ _ rfl rfl, rfl⟩
    | .comment s, f, _, _ => ⟨.node f.next (.comment s) [], Built.leaf _ _ _ rfl rfl, rfl⟩
    | .pi t d, f, _, _ => ⟨.node f.next (.pi t d) [], Built.leaf _ _ _ rfl rfl, rfl⟩
    | .element nm ps as cs, f, hg, hwf => by
      simp only [FContent.wf, Bool.and_eq_true, decide_eq_true_eq, Bool.or_eq_true] at hwf
      obtain ⟨⟨⟨hps, has⟩, hadj⟩, hwfl⟩ := hwf
      have hhead := newElementWithMaps_spec f hg nm ps as hps has
      let el := f.next
      let K := headKids el ps as
      let f1 : Forest := { f with roots := f.roots ++ [HTree.node el (.element nm) K],
                                  next := el + 1 + ps.length + as.length }
      have hg1 : Good f1 := hg.add_roots [HTree.node el (.element nm) K] _
        (by
          simp only [handlesList, handles, List.append_nil, List.nodup_cons]
          refine ⟨?_, nodup_handlesList_leavesFrom _ _⟩
          rw [mem_handlesList_headKids]; omega)
        (by
          intro h hh
          simp only [handlesList, handles, List.append_nil, List.mem_cons] at hh
          rcases hh with rfl | hh
          · omega
          · rw [mem_handlesList_headKids] at hh; omega)
        (by omega)
      obtain ⟨ts, hts, hl⟩ := rtlList_spec cs f1 f.roots el (.element nm) K rfl hg1 (Or.inl rfl)
        (fun k hk => (headKids_nontext k hk).2) hwfl
        (by
          intro hc
          rcases hadj with hadj | hadj
          · have : f.consolidation = true := hc
            rw [this] at hadj; cases hadj
          · exact hadj)
      refine ⟨HTree.node el (.element nm) (K ++ ts), ?_, ?_⟩
      · exact built_element f1.next hts (by simp only [el, FContent.size]; omega)
          (by simp only [f1, el, FContent.size]; omega) (Or.inr (by simp only [f1]; omega))
      · unfold rtlContent
        rw [hhead]
        simp only
        rw [hl]
        simp only [f1, el, FContent.size, HTree.handle, Option.some.injEq, Prod.mk.injEq, and_true]
        congr 1
        omega
  theorem rtlList_spec : ∀ (cs : List FContent) (f : Forest) (A : List HTree) (p : Nat) (v : Value)
      (K : List HTree), f.roots = A ++ [HTree.node p v K] → Good f →
      (v.isElement = true ∨ v.isDocument = true) → (∀ k ∈ K, k.value.isNormal = false) →
      FContent.wfList f.consolidation cs = true →
      (f.consolidation = true → noAdjacentFText cs = true) →
      ∃ ts, BuiltL f.next cs ts ∧
        rtlList f p cs = some ({ f with roots := A ++ [HTree.node p v (K ++ ts)],
                                        next := f.next + FContent.sizeList cs },
          ts.head?.map HTree.handle)
    | [], f, A, p, v, K, hroots, _, _, _, _, _ => by
      refine ⟨[], ⟨rfl, ?_, ?_⟩, ?_⟩
      · intro h hh; simp [handlesList] at hh
      · simp [handlesList]
      · simp [rtlList, FContent.sizeList, ← hroots]
    | c :: cs, f, A, p, v, K, hroots, hg, hpv, hK, hwf, hadj => by
      simp only [FContent.wfList, Bool.and_eq_true] at hwf
      have hadj' : f.consolidation = true → noAdjacentFText cs = true := by
        intro hc
        have := hadj hc
        cases cs with
        | nil => rfl
        | cons c' cs' =>
          simp only [noAdjacentFText, Bool.and_eq_true] at this
          exact this.2
      obtain ⟨ts, hts, hl⟩ := rtlList_spec cs f A p v K hroots hg hpv hK hwf.2 hadj'
      let f1 : Forest := { f with roots := A ++ [HTree.node p v (K ++ ts)],
                                  next := f.next + FContent.sizeList cs }
      have hg1 : Good f1 := hg.add_kids hroots ts _ hts.nodup hts.bounds (by omega)
      obtain ⟨tc, htc, hc⟩ := rtlContent_spec c f1 hg1 hwf.1
      let f2 : Forest := { f1 with roots := f1.roots ++ [tc], next := f1.next + c.size }
      have hg2 : Good f2 := good_add_built hg1 htc
      have hR : RootAt f2 (A ++ [HTree.node p v (K ++ ts)]) tc [] := ⟨by simp [f2, f1], hg2.nodup⟩
      have htcn := treeOfContent_normal c
      rw [← htc.erase, ffx_erase_value] at htcn
      -- the attachment
      have hattach : f2.attachFirst p (ts.head?.map HTree.handle) tc.handle =
          some { f2 with roots := A ++ [HTree.node p v (K ++ tc :: ts)] } := by
        cases ts with
        | nil =>
          have hXY : (A ++ [HTree.node p v (K ++ [])]) ++ [] = A ++ HTree.node p v K :: [] := by simp
          have := hR.prepend_root hXY hpv htcn.1 htcn.2 hK
          simp only [List.head?_nil, Option.map_none]
          rw [attachFirst_prepend this]
        | cons r ts' =>
          have hXY : (A ++ [HTree.node p v (K ++ r :: ts')]) ++ [] =
              A ++ HTree.node p v (K ++ r :: ts') :: [] := by simp
          have hrn := built_normal (r :: ts') cs hts.erase r (by simp)
          have := hR.insertBefore_kid hXY hpv htcn.1 htcn.2 hrn.1 (by
            intro hcons htt
            refine ⟨?_, ?_⟩
            · -- r is the tree of the head of cs, which is not text since c is
              cases cs with
              | nil =>
                have he := hts.erase
                simp [eraseList, treeOfList] at he
              | cons c' cs' =>
                have he := hts.erase
                simp only [eraseList, treeOfList, List.cons.injEq] at he
                have hct : c.isText = true := by
                  rw [← treeOfContent_isText, ← htc.erase, ffx_erase_value]; exact htt
                have hn := hadj hcons
                simp only [noAdjacentFText, Bool.and_eq_true, Bool.not_eq_true', Bool.and_eq_false_iff] at hn
                rw [← ffx_erase_value, he.1, treeOfContent_isText]
                rcases hn.1 with h1 | h1
                · rw [hct] at h1; cases h1
                · exact h1
            · intro k hk
              have hkn := hK k (List.mem_of_getLast? hk)
              cases hv : k.value <;> simp_all [Value.isNormal, Value.category, Value.isText])
          simp only [List.head?_cons, Option.map_some]
          rw [attachFirst_insert this]
      refine ⟨tc :: ts, ⟨?_, ?_, ?_⟩, ?_⟩
      · simp [eraseList, treeOfList, htc.erase, hts.erase]
      · intro h hh
        simp only [handlesList, List.mem_append, FContent.sizeList] at hh ⊢
        rcases hh with hh | hh
        · have := htc.bounds h hh; simp only [f1] at this; omega
        · have := hts.bounds h hh; omega
      · simp only [handlesList]
        refine List.nodup_append.2 ⟨htc.nodup, hts.nodup, ?_⟩
        intro a ha b hb e
        have h1 := htc.bounds a ha
        have h2 := hts.bounds b hb
        simp only [f1] at h1
        omega
      · unfold rtlList
        rw [hl]
        simp only
        rw [hc]
        simp only
        rw [hattach]
        simp only [f2, f1, FContent.sizeList, List.head?_cons, Option.map_some, Option.some.injEq,
          Prod.mk.injEq, and_true]
        congr 1
        omega
end

/-- Right-to-left document. -/
theorem rtlDocument_spec (f : Forest) (d : FDocument) (hg : Good f)
    (hwf : d.wf f.consolidation = true) :
    ∃ t, f.rtlDocument d =
          some ({ f with roots := f.roots ++ [t], next := f.next + d.size }, t.handle) ∧
        t.erase = treeOf d ∧
        Good { f with roots := f.roots ++ [t], next := f.next + d.size } := by
  let dn := f.next
  let f1 : Forest := { f with roots := f.roots ++ [HTree.node dn .document []], next := dn + 1 }
  have hg1 : Good f1 := hg.newNode .document
  obtain ⟨ts, hts, hl⟩ := rtlList_spec d.items f1 f.roots dn .document [] rfl hg1 (Or.inr rfl)
    (by intro k hk; cases hk) (items_wfList d _ hwf)
    (fun _ => noAdjacentFText_of_no_text _ (items_no_text d))
  obtain ⟨he, hgood⟩ := built_document hg d (dn := dn) hts
    (by simp only [dn, FDocument.size]; omega) (by simp only [f1, dn, FDocument.size]; omega)
    (Or.inl (by simp only [f1, dn]; omega))
  refine ⟨HTree.node dn .document ts, ?_, he, hgood⟩
  unfold rtlDocument
  simp only [newDocument, newNode]
  show (match rtlList f1 dn d.items with
    | none => none
    | some (f2, _) => some (f2, dn)) = _
  rw [hl]
  simp only [f1, dn, FDocument.size, List.nil_append, HTree.handle, Option.some.injEq,
    Prod.mk.injEq, and_true]
  congr 1
  omega

end Forest
end XotModel
