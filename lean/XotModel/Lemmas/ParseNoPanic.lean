/-
  C03_nopanic: under the token-shape contract (attributes and `>` / `/>` only inside a start
  tag) `build` never reaches an `unwrap` / `expect`.

  Invariant: `element_builder` is `Some` exactly inside a start tag; every open element frame
  and every element / text child of the document node has its span recorded (the epilogues
  `unwrap` those).
-/
import XotModel.Model.Parse
import XotModel.Lemmas.ParseQName
import XotModel.Model.TokenShape
import XotModel.Lemmas.ParseSound

namespace XotModel

/-! ### Keys of the span map -/

def HasKey (m : SpanMap) (k : SpanKey) : Prop := (m.get k).isSome = true

def KeysSub (m m' : SpanMap) : Prop := ∀ k, HasKey m k → HasKey m' k

theorem KeysSub.refl (m : SpanMap) : KeysSub m m := fun _ h => h
theorem KeysSub.trans {a b c : SpanMap} (h1 : KeysSub a b) (h2 : KeysSub b c) : KeysSub a c :=
  fun k h => h2 k (h1 k h)

theorem lookup_filter_ne (m : SpanMap) (k k' : SpanKey) (h : k' ≠ k) :
    (m.filter (fun e => e.1 != k)).lookup k' = m.lookup k' := by
  induction m with
  | nil => rfl
  | cons x xs ih =>
    obtain ⟨a, s⟩ := x
    by_cases ha : a = k
    · subst ha
      have : (k' == a) = false := by simpa using h
      simp [List.filter, List.lookup, this, ih]
    · have hne : (a != k) = true := by simpa using ha
      simp only [List.filter, hne, List.lookup]
      split <;> simp_all

theorem hasKey_add_self (m : SpanMap) (k : SpanKey) (s : Span) : HasKey (m.add k s) k := by
  simp [HasKey, SpanMap.get, SpanMap.add, List.lookup]

theorem keysSub_add (m : SpanMap) (k : SpanKey) (s : Span) : KeysSub m (m.add k s) := by
  intro k' h
  by_cases hk : k' = k
  · subst hk; exact hasKey_add_self m k' s
  · have : (k' == k) = false := by simpa using hk
    simp only [HasKey, SpanMap.get, SpanMap.add, List.lookup, this] at h ⊢
    rw [lookup_filter_ne m k k' hk]; exact h

theorem keysSub_extendText (m : SpanMap) (node : Path) (s : Span) : KeysSub m (m.extendText node s) := by
  unfold SpanMap.extendText; split <;> exact keysSub_add _ _ _

theorem hasKey_extendText (m : SpanMap) (node : Path) (s : Span) : HasKey (m.extendText node s) ⟨node, .text⟩ := by
  unfold SpanMap.extendText; split <;> exact hasKey_add_self _ _ _

theorem keysSub_addAttributeSpans (node : Path) (l : List (Nat × Span × Span)) :
    ∀ m : SpanMap, KeysSub m (m.addAttributeSpans node l) := by
  induction l with
  | nil => intro m; exact KeysSub.refl m
  | cons a rest ih =>
    intro m
    obtain ⟨n, s1, s2⟩ := a
    simp only [SpanMap.addAttributeSpans]
    exact ((keysSub_add m _ _).trans (keysSub_add _ _ _)).trans (ih _)

/-! ### Span presence -/

/-- Path of the frame sitting on top of the given chain of frames. -/
def framesPath (l : List Frame) : Path := (l.map (fun f => f.rkids.length)).reverse

/-- Every open frame that has a parent has its `ElementStart` span. -/
def OpenSpans (m : SpanMap) : List Frame → Prop
  | [] => True
  | p :: rest => HasKey m ⟨framesPath (p :: rest), .elementStart⟩ ∧ OpenSpans m rest

/-- Children of the document node (last first): elements and texts have their spans. -/
def TopSpans (m : SpanMap) : List Tree → Prop
  | [] => True
  | k :: rest =>
    (k.value.isElement = true → HasKey m ⟨[rest.length], .elementStart⟩) ∧
    (k.value.isText = true → HasKey m ⟨[rest.length], .text⟩) ∧ TopSpans m rest

/-- Children of the bottom frame. -/
def bottomRkids : Frame → List Frame → List Tree
  | c, [] => c.rkids
  | _, p :: rest => bottomRkids p rest

theorem OpenSpans.mono {m m' : SpanMap} (h : KeysSub m m') : ∀ {l : List Frame}, OpenSpans m l → OpenSpans m' l
  | [], _ => trivial
  | _ :: _, ⟨a, b⟩ => ⟨h _ a, OpenSpans.mono h b⟩

theorem TopSpans.mono {m m' : SpanMap} (h : KeysSub m m') : ∀ {l : List Tree}, TopSpans m l → TopSpans m' l
  | [], _ => trivial
  | _ :: _, ⟨a, b, c⟩ => ⟨fun x => h _ (a x), fun x => h _ (b x), TopSpans.mono h c⟩

structure NoPanicInv (b : Builder) (inTag : Bool) : Prop where
  eb : b.eb.isSome = inTag
  opens : OpenSpans b.spans b.parents
  top : TopSpans b.spans (bottomRkids b.cur b.parents)

theorem noPanicInv_new (env : Env) : NoPanicInv (Builder.new env) false :=
  ⟨rfl, trivial, trivial⟩

theorem curPath_eq (b : Builder) : b.curPath = framesPath b.parents := rfl

/-! ### Steps -/

/-- What a step must deliver: no panic, and the invariant for the state the tokenizer is in
    afterwards. -/
def StepNP (inTag : Bool) : Step Builder → Prop
  | .ok b' => NoPanicInv b' inTag
  | .err _ _ => True
  | .panic => False

theorem prefix_np {b : Builder} (h : NoPanicInv b true) (p : Str) (u : StrSpan) (sp : Span) :
    StepNP true (b.prefix p u sp) := by
  unfold Builder.prefix
  split
  · trivial
  · split
    · trivial
    dsimp only
    cases he : b.eb with
    | none => have := h.eb; rw [he] at this; cases this
    | some eb =>
      simp only
      split
      · trivial
      · exact ⟨rfl, h.opens, h.top⟩

theorem attribute_np {b : Builder} (h : NoPanicInv b true) (p l v : StrSpan) :
    StepNP true (b.attribute p l v) := by
  unfold Builder.attribute
  cases he : b.eb with
  | none => have := h.eb; rw [he] at this; cases this
  | some eb =>
    simp only
    split
    · trivial
    · split
      · trivial
      · exact ⟨rfl, h.opens, h.top⟩

theorem addAttributes_np (stack : NsStack) (node : Path) (abs : List AttributeBuilder) :
    ∀ st : AttrLoop, addAttributes stack node st abs ≠ .panic := by
  induction abs with
  | nil => intro st h; simp [addAttributes] at h
  | cons ab rest ih =>
    intro st h
    simp only [addAttributes] at h
    cases hn : attributeNameId st.env stack ab.pfx ab.name ab.prefixSpan with
    | panic =>
      unfold attributeNameId at hn
      dsimp only at hn
      split at hn
      · cases hn
      · split at hn <;> cases hn
    | err e env => rw [hn] at h; cases h
    | ok r =>
      obtain ⟨env1, nameId⟩ := r
      rw [hn] at h
      simp only at h
      split at h
      · cases h
      · split at h
        · cases h
        · exact ih _ h

theorem elementNameId_np (env : Env) (stack : NsStack) (p n : Str) (sp : Span) :
    elementNameId env stack p n sp ≠ .panic := by
  unfold elementNameId
  dsimp only
  split <;> simp

theorem openElement_np {b : Builder} (h : NoPanicInv b true) : StepNP false b.openElement := by
  unfold Builder.openElement
  cases he : b.eb with
  | none => have := h.eb; rw [he] at this; cases this
  | some eb =>
    dsimp only
    cases hn : elementNameId b.env (eb.namespaces :: b.nsStack) eb.pfx eb.name eb.prefixSpan with
    | panic => exact absurd hn (elementNameId_np _ _ _ _ _)
    | err e env => trivial
    | ok r =>
      obtain ⟨env1, nameId⟩ := r
      simp only
      cases ha : addAttributes (eb.namespaces :: b.nsStack) (b.curPath ++ [b.cur.rkids.length])
          { env := env1, seenIds := b.seenIds, idNodes := b.idNodes, seenNames := [], rkids := namespaceKids eb.namespaces, aspans := [] }
          eb.attributes with
      | panic => exact absurd ha (addAttributes_np _ _ _ _)
      | err e env => trivial
      | ok st =>
        simp only
        have hsub : KeysSub b.spans
            ((b.spans.add ⟨b.curPath ++ [b.cur.rkids.length], .elementStart⟩ eb.span).addAttributeSpans
              (b.curPath ++ [b.cur.rkids.length]) st.aspans) :=
          (keysSub_add _ _ _).trans (keysSub_addAttributeSpans _ _ _)
        refine ⟨rfl, ⟨?_, h.opens.mono hsub⟩, ?_⟩
        · apply keysSub_addAttributeSpans
          have : framesPath (b.cur :: b.parents) = b.curPath ++ [b.cur.rkids.length] := by
            simp [framesPath, Builder.curPath]
          rw [this]
          exact hasKey_add_self _ _ _
        · simp only [bottomRkids]
          exact h.top.mono hsub

theorem leave_np {b : Builder} (h : NoPanicInv b false) (hne : b.parents ≠ [])
    (hshape : ShapeOk (b.cur :: b.parents)) (sp : StrSpan) : StepNP false (b.leave b.curPath sp) := by
  unfold Builder.leave Builder.toParent
  cases hpar : b.parents with
  | nil => exact absurd hpar hne
  | cons p rest =>
    simp only
    have ho := h.opens
    have ht := h.top
    rw [hpar] at ho ht hshape
    have hsub := keysSub_add b.spans ⟨b.curPath, .elementEnd⟩ sp.span
    refine ⟨h.eb, ho.2.mono hsub, ?_⟩
    simp only [bottomRkids] at ht ⊢
    cases rest with
    | nil =>
      -- the closed element becomes a child of the document node
      simp only [bottomRkids] at ht ⊢
      refine ⟨fun _ => hsub _ ?_, fun htext => ?_, ht.mono hsub⟩
      · have := ho.1
        simpa [framesPath] using this
      · simp only [ShapeOk] at hshape
        have hel := hshape.1
        have : b.cur.close.value = b.cur.value := rfl
        rw [this] at htext
        cases hv : b.cur.value <;> simp_all [Value.isElement, Value.isText]
    | cons g gs =>
      simp only [bottomRkids] at ht ⊢
      exact ht.mono hsub

theorem addText_np {b : Builder} (h : NoPanicInv b false) (content : Str) (sp : Span) :
    NoPanicInv { (b.addText content).1 with spans := (b.addText content).1.spans.extendText (b.addText content).2 sp } false := by
  unfold Builder.addText
  split
  · rename_i s ks more hr
    simp only
    have hsub := keysSub_extendText b.spans (b.curPath ++ [more.length]) sp
    refine ⟨h.eb, h.opens.mono hsub, ?_⟩
    cases hpar : b.parents with
    | nil =>
      have ht := h.top
      rw [hpar] at ht
      simp only [bottomRkids] at ht ⊢
      rw [hr] at ht
      refine ⟨fun hel => by simp [Tree.value, Value.isElement] at hel, fun _ => ?_, ht.2.2.mono hsub⟩
      have : b.curPath = [] := by simp [Builder.curPath, hpar]
      rw [this]
      exact hasKey_extendText _ _ _
    | cons p rest =>
      have ht := h.top
      rw [hpar] at ht
      simp only [bottomRkids] at ht ⊢
      exact ht.mono hsub
  · simp only
    have hsub := keysSub_extendText b.spans (b.curPath ++ [b.cur.rkids.length]) sp
    refine ⟨h.eb, h.opens.mono hsub, ?_⟩
    cases hpar : b.parents with
    | nil =>
      have ht := h.top
      rw [hpar] at ht
      simp only [bottomRkids] at ht ⊢
      refine ⟨fun hel => by simp [Tree.value, Value.isElement] at hel, fun _ => ?_, ht.mono hsub⟩
      have : b.curPath = [] := by simp [Builder.curPath, hpar]
      rw [this]
      exact hasKey_extendText _ _ _
    | cons p rest =>
      have ht := h.top
      rw [hpar] at ht
      simp only [bottomRkids] at ht ⊢
      exact ht.mono hsub

/-- Adding a comment / PI leaf and any further spans. -/
theorem addLeaf_np {b : Builder} (h : NoPanicInv b false) (v : Value) (m' : SpanMap)
    (hv1 : v.isElement = false) (hv2 : v.isText = false) (hsub : KeysSub b.spans m') :
    NoPanicInv { (b.addLeaf v).1 with spans := m' } false := by
  unfold Builder.addLeaf
  simp only
  refine ⟨h.eb, h.opens.mono hsub, ?_⟩
  cases hpar : b.parents with
  | nil =>
    have ht := h.top
    rw [hpar] at ht
    simp only [bottomRkids] at ht ⊢
    exact ⟨fun hel => by simp [Tree.value, hv1] at hel, fun htx => by simp [Tree.value, hv2] at htx, ht.mono hsub⟩
  | cons p rest =>
    have ht := h.top
    rw [hpar] at ht
    simp only [bottomRkids] at ht ⊢
    exact ht.mono hsub

/-- The token loop never panics under the contract, and ends in a state satisfying the invariant. -/
theorem run_np (lexErr : Option Nat) (ts : List Token) :
    ∀ (b : Builder) (inTag : Bool), BuilderOk b → NoPanicInv b inTag → TagsOk inTag ts →
      match b.run ts lexErr with
      | .ok b' => ∃ inTag', NoPanicInv b' inTag'
      | .err _ _ => True
      | .panic => False := by
  induction ts with
  | nil =>
    intro b inTag _ h _
    cases lexErr with
    | none =>
      simp only [Builder.run]
      cases b.eb with
      | some eb => trivial
      | none => exact ⟨inTag, h⟩
    | some p => trivial
  | cons t ts ih =>
    intro b inTag hok h htags
    simp only [Builder.run]
    -- one step, then the induction hypothesis
    have key : ∀ inTag', StepNP inTag' (b.stepCore t) → TagsOk inTag' ts →
        match (match b.step t with | .ok b1 => Builder.run b1 ts lexErr | r => r) with
        | .ok b' => ∃ inTag', NoPanicInv b' inTag'
        | .err _ _ => True
        | .panic => False := by
      intro inTag' hs ht
      replace hs : StepNP inTag' (b.step t) := b.step_cases t (fun _ => hs) (fun _ _ _ _ => trivial)
      cases hb : b.step t with
      | ok b1 =>
        rw [hb] at hs
        exact ih b1 inTag' (step_ok t hok hb) hs ht
      | err e env => trivial
      | panic => rw [hb] at hs; exact hs
    cases t with
    | «attribute» p l v sp =>
      cases inTag with
      | false => simp [TagsOk] at htags
      | true =>
        refine key true ?_ (by simpa [TagsOk] using htags)
        simp only [Builder.stepCore]
        split
        · exact prefix_np h _ _ _
        · split
          · exact prefix_np h _ _ _
          · exact attribute_np h _ _ _
    | elementStart p l sp =>
      cases inTag with
      | true => simp [TagsOk] at htags
      | false =>
        refine key true ?_ (by simpa [TagsOk] using htags)
        exact ⟨rfl, h.opens, h.top⟩
    | elementEnd e sp =>
      cases e with
      | «open» =>
        cases inTag with
        | false => simp [TagsOk] at htags
        | true => exact key false (openElement_np h) (by simpa [TagsOk] using htags)
      | empty =>
        cases inTag with
        | false => simp [TagsOk] at htags
        | true =>
          refine key false ?_ (by simpa [TagsOk] using htags)
          simp only [Builder.stepCore]
          have ho := openElement_np h
          cases hb : b.openElement with
          | panic => rw [hb] at ho; exact ho
          | err e env => trivial
          | ok b1 =>
            rw [hb] at ho
            simp only
            have hok1 := openElement_ok hok hb
            have hne : b1.parents ≠ [] := by
              have hs := hok1.2.2.1
              intro hnil
              rw [hnil] at hs
              simp only [ShapeOk] at hs
              -- the frame just opened is an element, not the document node
              unfold Builder.openElement at hb
              split at hb
              · cases hb
              · dsimp only at hb
                split at hb
                · cases hb
                · cases hb
                · split at hb
                  · cases hb
                  · cases hb
                  · simp only [Step.ok.injEq] at hb
                    subst hb
                    simp at hnil
            unfold Builder.closeImmediate
            split
            · exact leave_np (b := { b1 with nsStack := b1.nsStack.tail, openPrefixes := b1.openPrefixes.tail }) ⟨ho.eb, ho.opens, ho.top⟩ hne hok1.2.2.1 sp
            · exact leave_np ho hne hok1.2.2.1 sp
      | close p l =>
        cases inTag with
        | true => simp [TagsOk] at htags
        | false =>
          refine key false ?_ (by simpa [TagsOk] using htags)
          simp only [Builder.stepCore]
          unfold Builder.closeElement
          cases hn : elementNameId b.env b.nsStack p.text l.text p.span with
          | panic => exact absurd hn (elementNameId_np _ _ _ _ _)
          | err e env => trivial
          | ok r =>
            obtain ⟨env1, nameId⟩ := r
            simp only
            split
            · trivial
            · rename_i hpe
              have hne : b.parents ≠ [] := by
                intro hnil; rw [hnil] at hpe; simp at hpe
              split
              · split
                · trivial
                · exact leave_np (b := { b with env := env1, nsStack := b.nsStack.tail, openPrefixes := b.openPrefixes.tail })
                    ⟨h.eb, h.opens, h.top⟩ hne hok.2.2.1 sp
              · exact leave_np (b := { b with env := env1 }) ⟨h.eb, h.opens, h.top⟩ hne hok.2.2.1 sp
    | text t =>
      cases inTag with
      | true => simp [TagsOk] at htags
      | false =>
        refine key false ?_ (by simpa [TagsOk] using htags)
        simp only [Builder.stepCore, Builder.text]
        split
        · trivial
        · exact addText_np h _ _
    | cdata t sp =>
      cases inTag with
      | true => simp [TagsOk] at htags
      | false =>
        refine key false ?_ (by simpa [TagsOk] using htags)
        simp only [Builder.stepCore, Builder.cdata]
        split
        · exact h
        · exact addText_np h _ _
    | comment t sp =>
      cases inTag with
      | true => simp [TagsOk] at htags
      | false =>
        refine key false ?_ (by simpa [TagsOk] using htags)
        simp only [Builder.stepCore, Builder.comment]
        exact addLeaf_np h (.comment (normalizeLineEnds t.text)) _ rfl rfl (keysSub_add _ _ _)
    | pi target content sp =>
      cases inTag with
      | true => simp [TagsOk] at htags
      | false =>
        refine key false ?_ (by simpa [TagsOk] using htags)
        simp only [Builder.stepCore]
        split
        · trivial
        simp only [Builder.processingInstruction]
        refine addLeaf_np (b := { b with env := (b.env.internName target.text Env.noNamespace).1 })
          ⟨h.eb, h.opens, h.top⟩ _ _ rfl rfl ?_
        cases content with
        | none => exact keysSub_add _ _ _
        | some c => exact (keysSub_add _ _ _).trans (keysSub_add _ _ _)
    | declaration v e s sp =>
      cases inTag with
      | true => simp [TagsOk] at htags
      | false =>
        refine key false ?_ (by simpa [TagsOk] using htags)
        simp only [Builder.stepCore]
        split
        · trivial
        · exact h
    | dtdStart sp =>
      cases inTag with
      | true => simp [TagsOk] at htags
      | false => exact key false trivial (by simpa [TagsOk] using htags)
    | dtdEnd sp =>
      cases inTag with
      | true => simp [TagsOk] at htags
      | false => exact key false trivial (by simpa [TagsOk] using htags)
    | emptyDtd sp =>
      cases inTag with
      | true => simp [TagsOk] at htags
      | false => exact key false trivial (by simpa [TagsOk] using htags)
    | entityDecl sp =>
      cases inTag with
      | true => simp [TagsOk] at htags
      | false => exact key false trivial (by simpa [TagsOk] using htags)

/-! ### Epilogues -/

/-- Children of the document node in document order, from index `i` on. -/
def FwdSpans (m : SpanMap) : Nat → List Tree → Prop
  | _, [] => True
  | i, k :: rest =>
    (k.value.isElement = true → HasKey m ⟨[i], .elementStart⟩) ∧
    (k.value.isText = true → HasKey m ⟨[i], .text⟩) ∧ FwdSpans m (i + 1) rest

theorem fwdSpans_snoc (m : SpanMap) (k : Tree) : ∀ (l : List Tree) (i : Nat),
    FwdSpans m i l →
    (k.value.isElement = true → HasKey m ⟨[i + l.length], .elementStart⟩) →
    (k.value.isText = true → HasKey m ⟨[i + l.length], .text⟩) → FwdSpans m i (l ++ [k]) := by
  intro l
  induction l with
  | nil => intro i _ h1 h2; exact ⟨by simpa using h1, by simpa using h2, trivial⟩
  | cons x xs ih =>
    intro i h h1 h2
    obtain ⟨a, b, c⟩ := h
    refine ⟨a, b, ih (i + 1) c ?_ ?_⟩
    · intro hk; have := h1 hk; simpa [Nat.add_assoc, Nat.add_comm 1] using this
    · intro hk; have := h2 hk; simpa [Nat.add_assoc, Nat.add_comm 1] using this

theorem fwdSpans_of_top (m : SpanMap) : ∀ rk : List Tree, TopSpans m rk → FwdSpans m 0 rk.reverse := by
  intro rk
  induction rk with
  | nil => intro _; trivial
  | cons k rest ih =>
    intro h
    obtain ⟨a, b, c⟩ := h
    rw [List.reverse_cons]
    exact fwdSpans_snoc m k _ 0 (ih c) (by simpa using a) (by simpa using b)

theorem scan_np (m : SpanMap) : ∀ (ks : List Tree) (i : Nat) (elems : List Nat), FwdSpans m i ks →
    (∀ n ∈ elems, HasKey m ⟨[n], .elementStart⟩) →
    match topLevelScan m i ks elems with
    | .ok es => ∀ n ∈ es, HasKey m ⟨[n], .elementStart⟩
    | .err _ => True
    | .panic => False := by
  intro ks
  induction ks with
  | nil => intro i elems _ he; simpa [topLevelScan] using he
  | cons k rest ih =>
    intro i elems h he
    obtain ⟨a, b, c⟩ := h
    simp only [topLevelScan]
    cases hv : k.value with
    | element n =>
      simp only
      refine ih (i + 1) _ c ?_
      intro x hx
      simp only [List.mem_append, List.mem_singleton] at hx
      rcases hx with hx | rfl
      · exact he x hx
      · exact a (by simp [hv, Value.isElement])
    | text s =>
      simp only
      have := b (by simp [hv, Value.isText])
      unfold HasKey at this
      cases hg : m.get ⟨[i], .text⟩ with
      | none => rw [hg] at this; cases this
      | some sp => trivial
    | document => exact ih (i + 1) _ c he
    | pi t d => exact ih (i + 1) _ c he
    | comment s => exact ih (i + 1) _ c he
    | «attribute» n v => exact ih (i + 1) _ c he
    | «namespace» p n => exact ih (i + 1) _ c he

theorem unclosed_np {b : Builder} {inTag : Bool} (hok : BuilderOk b) (h : NoPanicInv b inTag)
    (hcur : b.isCurrentDocument = false) : b.unclosed ≠ .panic := by
  unfold Builder.unclosed
  cases hpar : b.parents with
  | nil =>
    have hs := hok.2.2.1
    rw [hpar] at hs
    simp only [ShapeOk] at hs
    simp [Builder.isCurrentDocument, hs, Value.isDocument] at hcur
  | cons p rest =>
    have ho := h.opens
    rw [hpar] at ho
    have hk := ho.1
    unfold HasKey at hk
    have hp : b.curPath = framesPath (p :: rest) := by rw [curPath_eq, hpar]
    rw [hp]
    cases hg : b.spans.get ⟨framesPath (p :: rest), .elementStart⟩ with
    | none => rw [hg] at hk; cases hk
    | some sp => simp

theorem finishDocument_np {b : Builder} {inTag : Bool} (len : Nat) (hok : BuilderOk b)
    (h : NoPanicInv b inTag) : b.finishDocument len ≠ .panic := by
  unfold Builder.finishDocument
  split
  · rename_i hdoc
    have hpar : b.parents = [] := by
      cases hp : b.parents with
      | nil => rfl
      | cons p rest =>
        have hs := hok.2.2.1
        rw [hp] at hs
        simp only [ShapeOk] at hs
        have := hs.1
        simp only [Builder.isCurrentDocument] at hdoc
        cases hv : b.cur.value <;> simp_all [Value.isElement, Value.isDocument]
    have hroot : b.root.kids = b.cur.rkids.reverse := by
      simp [Builder.root, hpar, zipInto, Frame.close, Tree.kids]
    have ht := h.top
    rw [hpar] at ht
    simp only [bottomRkids] at ht
    have hscan := scan_np b.spans _ 0 [] (fwdSpans_of_top _ _ ht) (fun n hn => by simp at hn)
    rw [hroot]
    cases hs : topLevelScan b.spans 0 b.cur.rkids.reverse [] with
    | panic => rw [hs] at hscan; exact hscan.elim
    | err e => simp
    | ok elems =>
      rw [hs] at hscan
      simp only
      match elems, hscan with
      | [], _ => simp
      | [_], _ => simp
      | _ :: second :: _, hscan =>
        simp only
        have hk := hscan second (by simp)
        unfold HasKey at hk
        cases hg : b.spans.get ⟨[second], .elementStart⟩ with
        | none => rw [hg] at hk; cases hk
        | some sp => simp
  · rename_i hdoc
    exact unclosed_np hok h (by simpa using hdoc)

theorem finishFragment_np {b : Builder} {inTag : Bool} (hok : BuilderOk b)
    (h : NoPanicInv b inTag) : b.finishFragment ≠ .panic := by
  unfold Builder.finishFragment
  split
  · simp
  · rename_i hdoc
    exact unclosed_np hok h (by simpa using hdoc)

/-- C03_nopanic: attributes / tag ends only inside start tags. -/
theorem build_np (m : Mode) (len : Nat) (env : Env) (ts : List Token) (lexErr : Option Nat)
    (htags : TagsOk false ts) : build m len env ts lexErr ≠ .panic := by
  unfold build
  have hr := run_np lexErr ts (Builder.new env) false (builderOk_new env) (noPanicInv_new env) htags
  cases hb : (Builder.new env).run ts lexErr with
  | panic => rw [hb] at hr; exact hr.elim
  | err e env' => simp
  | ok b =>
    rw [hb] at hr
    obtain ⟨inTag, hinv⟩ := hr
    have hok := run_ok ts lexErr (builderOk_new env) hb
    cases m with
    | document => exact finishDocument_np len hok hinv
    | fragment => exact finishFragment_np hok hinv

end XotModel
