/-
  The serialised string is the canonical rendering of `serTokens`: the tree induction.
-/
import XotModel.Lemmas.SerTokensEvents

namespace XotModel
open Gen

variable (env : Env) (pr : TokenParams) (t : Tree)

/-! ### `allNodes` -/

theorem allList_eq (p : Value → List Tree → Bool) (ks : List Tree) :
    Tree.allNodes.allList p ks = ks.all (Tree.allNodes p) := by
  induction ks with
  | nil => rfl
  | cons k ks ih => simp [Tree.allNodes.allList, ih]

theorem allNodes_node (p : Value → List Tree → Bool) (v : Value) (ks : List Tree) :
    (Tree.node v ks).allNodes p = (p v ks && ks.all (Tree.allNodes p)) := by
  rw [Tree.allNodes, allList_eq]

theorem allNodes_mono {p q : Value → List Tree → Bool} (h : ∀ v ks, p v ks = true → q v ks = true) :
    ∀ (n : Tree), n.allNodes p = true → n.allNodes q = true
  | .node v ks => by
    rw [allNodes_node, allNodes_node]
    simp only [Bool.and_eq_true, List.all_eq_true]
    intro ⟨h1, h2⟩
    refine ⟨h v ks h1, fun k hk => ?_⟩
    have : sizeOf k < sizeOf (Tree.node v ks) := by
      have := List.sizeOf_lt_of_mem hk
      simp only [Tree.node.sizeOf_spec]
      omega
    exact allNodes_mono h k (h2 k hk)
termination_by n => sizeOf n

/-- Every prefix an element of the subtree declares (other than the empty one) has a non-empty
    spelling in the tables. -/
def declsNamed (env : Env) (v : Value) (ks : List Tree) : Bool :=
  (Tree.node v ks).nsDecls.all (fun d => d.1 == Env.emptyPrefix || !(env.prefixStr d.1).isEmpty)

/-- The chosen prefixes can be written: `xml` and every declared prefix have a spelling. -/
abbrev Named (env : Env) : FStack → Prop := TopAll (fun p => env.prefixStr p ≠ [])

theorem Named.push {s : FStack} (h : Named env s) {v : Value} {ks : List Tree}
    (hd : declsNamed env v ks = true) : Named env (s.push (Tree.node v ks).nsDecls) := by
  apply TopAll.push h
  intro d hd' hne
  simp only [declsNamed, List.all_eq_true] at hd
  have := hd d hd'
  simp only [Bool.or_eq_true, beq_iff_eq, Bool.not_eq_true', List.isEmpty_eq_false_iff] at this
  rcases this with h1 | h1
  · exact absurd h1 hne
  · exact h1

/-! ### Runs that are token renderings -/

/-- A run that leaves the stack as it was and writes the rendering of a token list. -/
def tokRun (s : FStack) (r : Except XotError (List Token)) : Outcome XotError (FStack × Str) :=
  match r with
  | .ok ts => .ok (s, renderTokens ts)
  | .error e => .err e

theorem runThen_tokRun (s : FStack) (a b : Except XotError (List Token))
    (f : FStack → Outcome XotError (FStack × Str)) (hf : f s = tokRun s b) :
    runThen (tokRun s a) f = tokRun s (appendOk a b) := by
  cases a with
  | error e => rfl
  | ok x =>
    simp only [tokRun, runThen, hf, appendOk]
    cases b with
    | error e => rfl
    | ok y => simp [renderTokens_append]

theorem genNode_element' (inScope : List (Nat × Nat)) (isTop : Bool) (path : Path) (name : Nat)
    (ks : List Tree) :
    genNode inScope isTop path (.node (.element name) ks) =
      (path, Output.startTagOpen name) ::
        (((if isTop then inScope.filter (fun d => !(Tree.node (.element name) ks).declaresPrefix d.1) else [])
            ++ (Tree.node (.element name) ks).nsDecls).map (fun d => (path, Output.pfx d.1 d.2))
          ++ ((Tree.node (.element name) ks).attrs.map (fun a => (path, Output.attribute a.1 a.2))
            ++ ((path, Output.startTagClose) ::
              (genNode.genKids inScope path 0 ks ++ [(path, Output.endTag name)])))) := by
  rw [genNode_element]
  cases isTop <;> simp [extraPrefixes, List.map_append, List.map_map, Function.comp_def]

theorem at?_kid {path : Path} {v : Value} {ks : List Tree} (hat : t.at? path = some (.node v ks))
    (j : Nat) (k : Tree) (hk : ks[j]? = some k) : t.at? (path ++ [0 + j]) = some k := by
  rw [at?_append, hat]
  simp [Tree.at?, hk]

/-! ### The tree induction -/

mutual
theorem runEvents_node (hcd : pr.cdataSectionElements = []) (inScope : List (Nat × Nat)) (isTop : Bool)
    (path : Path) (n : Tree) (s : FStack) (hat : t.at? path = some n) (hs : Named env s)
    (hn : n.allNodes (declsNamed env) = true) :
    runEvents xmlEscapers env pr t s (genNode inScope isTop path n) =
      tokRun s (serNode env pr.unescapedGt inScope isTop s n) := by
  cases n with
  | node v ks =>
    rw [allNodes_node, Bool.and_eq_true, ← allList_eq] at hn
    have hk := fun s' hs' => runEvents_kids hcd inScope path 0 ks s' (at?_kid t hat) hs' hn.2
    cases v with
    | document =>
      rw [genNode_document, hk s hs]; simp only [serNode]
    | «attribute» a b =>
      rw [genNode_attribute, hk s hs]; simp only [serNode]
    | «namespace» a b =>
      rw [genNode_namespace, hk s hs]; simp only [serNode]
    | text str =>
      rw [genNode_text, runEvents_cons, runEvent_text env pr t hcd s path _ hat, serNode]
      exact runThen_tokRun s (.ok _) _ _ (hk s hs)
    | comment str =>
      rw [genNode_comment, runEvents_cons, runEvent_comment env pr t s path _ hat, serNode]
      exact runThen_tokRun s (.ok _) _ _ (hk s hs)
    | pi target data =>
      rw [genNode_pi, runEvents_cons, runEvent_pi env pr t s path _ hat, serNode]
      by_cases hc : (!(env.namespaceStr (env.nsOfName target)).isEmpty) = true
      · simp only [hc, if_true]; rfl
      · simp only [hc]
        exact runThen_tokRun s (.ok _) _ _ (hk s hs)
    | element name =>
      have hs' := Named.push env hs hn.1
      rw [genNode_element', runEvents_cons, runEvent_open env pr t s path _ hat, serNode]
      by_cases hc : (env.nsOfName name == Env.noNamespace &&
          (s.push (Tree.node (.element name) ks).nsDecls).hasDefaultNamespace) = true
      · simp only [hc, if_true]; rfl
      · simp only [hc, Bool.false_eq_true, if_false]
        cases hp : (s.push (Tree.node (.element name) ks).nsDecls).elementPrefix env name with
        | error e => rfl
        | ok p =>
          simp only [runThen_ok]
          rw [runEvents_append, runEvents_pfx env pr t _ path _ hat, runThen_ok, runEvents_append,
            runEvents_attrs env pr t _ hs' path _ hat]
          cases ha : attrTokens env (s.push (Tree.node (.element name) ks).nsDecls)
              (Tree.node (.element name) ks).attrs with
          | error e => rfl
          | ok ats =>
            simp only [runThen_ok]
            rw [runEvents_cons, runEvent_close env pr t _ path _ hat, runThen_ok, runEvents_append,
              hk _ hs']
            cases hkids : serNode.serKids env pr.unescapedGt inScope
                (s.push (Tree.node (.element name) ks).nsDecls) ks with
            | error e => rfl
            | ok content =>
              have hq := qname_tokQName env p name (fun q hq => elementPrefix_some env hs' (hq ▸ hp))
              have hpop : (s.push (Tree.node (.element name) ks).nsDecls).pop
                  (Tree.node (.element name) ks).hasNsDecls = s := FStack.pop_push s _
              simp only [tokRun, runThen_ok, runEvents_single,
                runEvent_end env pr t _ path _ hat, hp, hpop]
              by_cases hfc : (Tree.node (.element name) ks).firstChild?.isNone = true
              · have : (Tree.node (.element name) ks).firstChild?.isSome = false := by
                  cases h : (Tree.node (.element name) ks).firstChild? <;> simp_all
                simp [hfc, this, elementTokens, renderTokens_append, renderTokens_cons, renderToken, hq, sp0]
              · have : (Tree.node (.element name) ks).firstChild?.isSome = true := by
                  cases h : (Tree.node (.element name) ks).firstChild? <;> simp_all
                simp [hfc, this, elementTokens, renderTokens_append, renderTokens_cons, renderToken, hq, sp0,
                  renderTokens_nil]

theorem runEvents_kids (hcd : pr.cdataSectionElements = []) (inScope : List (Nat × Nat)) (path : Path)
    (i : Nat) (ks : List Tree) (s : FStack)
    (hat : ∀ j k, ks[j]? = some k → t.at? (path ++ [i + j]) = some k) (hs : Named env s)
    (hn : Tree.allNodes.allList (declsNamed env) ks = true) :
    runEvents xmlEscapers env pr t s (genNode.genKids inScope path i ks) =
      tokRun s (serNode.serKids env pr.unescapedGt inScope s ks) := by
  cases ks with
  | nil => rfl
  | cons k ks =>
    simp only [Tree.allNodes.allList, Bool.and_eq_true] at hn
    rw [genNode.genKids, runEvents_append, serNode.serKids,
      runEvents_node hcd inScope false (path ++ [i]) k s (by simpa using hat 0 k rfl) hs hn.1]
    apply runThen_tokRun
    apply runEvents_kids hcd inScope path (i + 1) ks s _ hs hn.2
    intro j k' hk'
    have h1 : i + 1 + j = i + (j + 1) := by omega
    rw [h1]
    exact hat (j + 1) k' (by simpa using hk')
end

end XotModel
