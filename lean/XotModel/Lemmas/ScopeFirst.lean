/-
  XotModel.Lemmas.ScopeFirst — WHICH prefix `namespace_prefix` / `prefix_for_namespace` reports:
  for a real namespace, the first pair `namespaces_in_scope(node)` yields with that namespace
  (and, with `non_empty`, a non-empty prefix): both are one seen-list pass over the same
  declarations, nearest element first, declaration order within an element.
-/
import XotModel.Lemmas.Scope

namespace XotModel

theorem pfnDecls_eq_find (ns : Nat) (ne : Bool) (hns : ns ≠ Env.noNamespace) (l : List (Nat × Nat)) :
    ∀ (seen1 seen2 : List Nat), (∀ x, x ∈ seen1 ↔ x ∈ seen2) →
    pfnResult (pfnDecls ns ne seen1 l) =
      ((traverseDecls seen2 l).2.find? (fun kv => kv.2 == ns && pfnUsable ne kv.1)).map Prod.fst := by
  induction l with
  | nil => intro s1 s2 _; simp [pfnDecls_nil, traverseDecls_nil, pfnResult]
  | cons d rest ih =>
    obtain ⟨k, v⟩ := d
    intro s1 s2 hs
    by_cases h : k ∈ s1
    · rw [pfnDecls_cons_seen h, traverseDecls_cons_seen_sc ((hs k).1 h)]
      exact ih s1 s2 hs
    · have h2 : k ∉ s2 := fun hk => h ((hs k).2 hk)
      have hs' : ∀ x, x ∈ k :: s1 ↔ x ∈ s2 ++ [k] := by
        intro x
        rw [List.mem_cons, List.mem_append, List.mem_singleton, hs x]
        exact Or.comm
      rw [traverseDecls_cons_new_sc h2]
      cases hu : pfnUsable ne k with
      | false =>
        rw [pfnDecls_cons_skip h hu]
        split
        · exact ih _ _ hs'
        · simp only [List.find?_cons, hu, Bool.and_false]
          exact ih _ _ hs'
      | true =>
        by_cases hv : v = ns
        · subst hv
          rw [pfnDecls_cons_hit h hu rfl]
          have : ((k == Env.emptyPrefix) && (v == Env.noNamespace)) = false := by
            have : (v == Env.noNamespace) = false := by simpa using hns
            simp [this]
          simp [this, pfnResult, hu]
        · rw [pfnDecls_cons_miss h hv]
          have hb : (v == ns) = false := by simpa using hv
          split
          · exact ih _ _ hs'
          · simp only [List.find?_cons, hb, Bool.false_and]
            exact ih _ _ hs'

/-- `namespace_prefix(node, ns, non_empty)`, `ns` real = the prefix of the first pair of
    `namespaces_in_scope(node)` whose namespace is `ns` (and whose prefix is non-empty, with
    `non_empty`). -/
theorem namespacePrefixChain_eq_find (chain : List Tree) (ns : Nat) (ne : Bool)
    (hns : ns ≠ Env.noNamespace) :
    namespacePrefixChain chain ns ne =
      ((namespacesInScopeChain chain).find? (fun kv => kv.2 == ns && pfnUsable ne kv.1)).map Prod.fst := by
  rw [namespacePrefixChain_eq, namespacesInScopeChain_eq]
  exact pfnDecls_eq_find ns ne hns _ [] [] (fun _ => Iff.rfl)

/-- `prefix_for_namespace(node, ns)`, `ns` real = the prefix of the first pair of
    `namespaces_in_scope(node)` whose namespace is `ns`. -/
theorem prefixForNamespaceChain_eq_find (chain : List Tree) (ns : Nat) (hns : ns ≠ Env.noNamespace) :
    prefixForNamespaceChain chain ns =
      ((namespacesInScopeChain chain).find? (fun kv => kv.2 == ns)).map Prod.fst := by
  rw [prefixForNamespaceChain, namespacePrefixChain_eq_find chain ns false hns]
  simp

end XotModel
