/-
  FparseVals, part 3: VALUE PROVENANCE for the calls as data (`Forest.Call`, `Forest.XCall`) and the composites
  `deduplicate_namespaces`, `clone_with_prefixes` (generic predicate `Q`).  `create_missing_prefixes` generates
  values itself: Lemmas/FparseValsDomain.lean, for `Q = valueOK env`.
-/
import XotModel.Lemmas.FparseValsOps
import XotModel.Lemmas.FhistMono

namespace XotModel
open HTree

namespace Forest

variable {Q : Value → Prop}

/-- `Q` of the values a call is handed. -/
def Call.fpvNewQ (Q : Value → Prop) : Call → Prop
  | .elementWrap _ name => Q (.element name)
  | .mapInsert _ _ e => Q e
  | .setElementName _ name => Q (.element name)
  | .setText _ s => Q (.text s)
  | .setComment _ s => Q (.comment s)
  | .setPiData _ d => ∀ t d0, Q (.pi t d0) → Q (.pi t (match d with | some [] => none | x => x))
  | .textContentSet _ s => Q (.text s)
  | _ => True

/-- The one call whose proof needs the invariant. -/
def Call.fpvIsTextContentSet : Call → Prop
  | .textContentSet _ _ => True
  | _ => False

/-- **One call keeps `fpvQF Q`**, for all arguments and outcomes. -/
theorem fpv_call (hc : fpvQCat Q) {f : Forest} (hq : fpvQF Q f) (c : Call) (hn : c.fpvNewQ Q)
    (hi : c.fpvIsTextContentSet → f.Inv) : fpvQF Q (c.run f).1 := by
  cases c with
  | append p c => exact fpv_append hc hq p c
  | prepend p c => exact fpv_prepend hc hq p c
  | insertAfter r n => exact fpv_insertAfter hc hq r n
  | insertBefore r n => exact fpv_insertBefore hc hq r n
  | detach n => exact fpv_detach hc hq n
  | remove n => exact fpv_remove hc hq n
  | replace a b => exact fpv_replace hc hq a b
  | elementWrap n name => exact fpv_elementWrap hc hq n hn
  | elementUnwrap n => exact fpv_elementUnwrap hc hq n
  | cloneNode n => exact fpv_cloneNode hc hq n
  | anyAppend p c => exact fpv_anyAppend hc hq p c
  | appendEntryNode k p c => exact fpv_appendEntryNode hq k p c
  | mapInsert k p e => exact fpv_mapInsert hq k p hn
  | mapRemove k p key => exact fpv_mapRemove hc hq k p key
  | mapClear k p => exact fpv_mapClear hc hq k p
  | setElementName n name => exact fpv_setElementName hq n hn
  | setText n s => exact fpv_setText hq n hn
  | setComment n s => exact fpv_setComment hq n hn
  | setPiData n d => exact fpv_setPiData hq n d hn
  | textContentSet n s => exact fpv_textContentSet hc (hi trivial) hq n hn

theorem fpv_runCalls (hc : fpvQCat Q) : ∀ (cs : List Call) {f : Forest}, fpvQF Q f →
    (∀ c ∈ cs, c.fpvNewQ Q ∧ ¬ c.fpvIsTextContentSet) → fpvQF Q (f.runCalls cs).1
  | [], _, hq, _ => hq
  | c :: cs, f, hq, hall => by
    have hcc := hall c (List.mem_cons_self ..)
    have h1 := fpv_call hc hq c hcc.1 (fun h => absurd h hcc.2)
    unfold runCalls
    rcases hcr : c.run f with ⟨f', r⟩
    rw [hcr] at h1
    cases r with
    | ok => exact fpv_runCalls hc cs h1 (fun c' h' => hall c' (List.mem_cons_of_mem _ h'))
    | err e => exact h1
    | panic => exact h1

theorem fpv_dedupCalls_shape (env : Env) (f : Forest) (node : Nat) :
    ∀ c ∈ f.dedupCalls env node, c.fpvNewQ Q ∧ ¬ c.fpvIsTextContentSet := by
  intro c hcm
  unfold dedupCalls at hcm
  split at hcm
  · cases hcm
  · split at hcm
    · cases hcm
    · dsimp only at hcm
      split at hcm
      · cases hcm
      · obtain ⟨rm, _, hrm⟩ := List.mem_flatMap.mp hcm
        split at hrm
        · rcases List.mem_singleton.mp hrm with rfl
          exact ⟨trivial, fun h => h⟩
        · cases hrm

theorem fpv_dedupLoop (hc : fpvQCat Q) (env : Env) (node : Nat) : ∀ (fuel : Nat) {f : Forest}, fpvQF Q f →
    fpvQF Q (dedupLoop env node fuel f).1
  | 0, _, hq => hq
  | fuel + 1, f, hq => by
    unfold dedupLoop
    dsimp only
    split
    · exact hq
    · have h1 := fpv_runCalls hc (f.dedupCalls env node) hq (fpv_dedupCalls_shape env f node)
      rcases hcr : f.runCalls (f.dedupCalls env node) with ⟨f', r⟩
      rw [hcr] at h1
      cases r with
      | ok => exact fpv_dedupLoop hc env node fuel h1
      | err e => exact h1
      | panic => exact h1

theorem fpv_deduplicateNamespaces (hc : fpvQCat Q) (env : Env) {f : Forest} (hq : fpvQF Q f) (node : Nat) :
    fpvQF Q (f.deduplicateNamespaces env node).1 := fpv_dedupLoop hc env node _ hq

theorem fpv_addPrefixes : ∀ (order : List (Nat × Nat)) {f : Forest} (c : Nat), fpvQF Q f →
    (∀ b ∈ order, Q (.namespace b.1 b.2)) → fpvQF Q (f.addPrefixes c order).1
  | [], _, _, hq, _ => hq
  | (p, ns) :: rest, f, c, hq, hord => by
    have hrest : ∀ b ∈ rest, Q (.namespace b.1 b.2) := fun b hb => hord b (List.mem_cons_of_mem _ hb)
    unfold addPrefixes
    split
    · exact fpv_addPrefixes rest c hq hrest
    · have h1 := fpv_mapInsert hq .namespaces c (hord (p, ns) (List.mem_cons_self ..))
      rcases hm : f.mapInsert .namespaces c (.namespace p ns) with ⟨f', r⟩
      rw [hm] at h1
      cases r with
      | ok => exact fpv_addPrefixes rest c h1 hrest
      | err e => exact h1
      | panic => exact h1

theorem fpv_cloneWithPrefixes (hc : fpvQCat Q) {f : Forest} (hq : fpvQF Q f) (node : Nat) (order : List (Nat × Nat))
    (hord : ∀ b ∈ order, Q (.namespace b.1 b.2)) : fpvQF Q (f.cloneWithPrefixes node order).1 := by
  have h1 := fpv_cloneNode hc hq node
  unfold cloneWithPrefixes
  rcases hcn : f.cloneNode node with ⟨f1, oc⟩
  rw [hcn] at h1
  cases oc with
  | none => exact h1
  | some c =>
    simp only
    split
    · have h2 := fpv_addPrefixes order c h1 hord
      rcases ha : f1.addPrefixes c order with ⟨f2, r⟩
      rw [ha] at h2
      cases r <;> exact h2
    · exact h1

/-- `Q` of the values an extended call is handed (`create_missing_prefixes` apart). -/
def XCall.fpvNewQ (Q : Value → Prop) : XCall → Prop
  | .call c => c.fpvNewQ Q
  | .newNode v => Q v
  | .cloneWithPrefixes _ order => ∀ b ∈ order, Q (.namespace b.1 b.2)
  | _ => True

/-- **One extended call other than `create_missing_prefixes` keeps `fpvQF Q`** and the tables. -/
theorem fpv_xcall (hc : fpvQCat Q) {s : Store} (hi : s.forest.Inv) (hq : fpvQF Q s.forest) (c : XCall)
    (hn : c.fpvNewQ Q) (hne : ∀ n, c ≠ .createMissingPrefixes n) :
    fpvQF Q (c.run s).1.forest ∧ (c.run s).1.env = s.env := by
  cases c with
  | call c => exact ⟨fpv_call hc hq c hn (fun _ => hi), rfl⟩
  | newNode v => exact ⟨fpv_newNode hq hn, rfl⟩
  | setConsolidation b => exact ⟨fpv_setConsolidation hq b, rfl⟩
  | removeInsignificantWhitespace n => exact ⟨fpv_removeInsignificantWhitespace hc hq n, rfl⟩
  | createMissingPrefixes n => exact absurd rfl (hne n)
  | deduplicateNamespaces n => exact ⟨fpv_deduplicateNamespaces hc s.env hq n, rfl⟩
  | cloneWithPrefixes n order => exact ⟨fpv_cloneWithPrefixes hc hq n order hn, rfl⟩

end Forest
end XotModel
