/-
  Lemmas for C07 (axes and traversals), split by topic:
    AxesSpec       document order on paths, validity, well-formedness (`wf`), sizes
    AxesPre        pre-order lists and their decomposition around a node (filters)
    AxesPre2       the same seen from the node upwards; membership, sortedness
    AxesFollowing  the `Following` machine
    AxesPreceding  descendants, `preceding`
    AxesPartition  the four big axes, partition law
    AxesRevPre     the `ReversePreorder` machine
    AxesKids       children, first / last child
    AxesSibs       siblings, reverse_children, child_index
    AxesEdges(2)   NodeEdge::next / previous
    AxesLevel      level_order
    AxesCats       categories: all_* order, attribute axis
    AxesMisc       plain variants yield normal nodes only; document_element, top_element
    AxesSibs2      next / previous sibling of any node; start edges of traverse
-/
import XotModel.Lemmas.AxesSibs2
