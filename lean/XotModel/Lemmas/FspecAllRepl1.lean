/-
  FspecAllRepl1 — C05 for `replace`, pair reading, part 1.  The intermediate forest of `replace`
  (after `remove_subtree(old)`) may hold adjacent text nodes although consolidation has never
  been switched off: it satisfies the invariant only up to the ghost flag (`g.off.Inv`).  The pair
  theorems of `insert_after` and `prepend` are transferred to such forests; the argument facts of
  `replace` (`ReplArgs`) are completed by what the pair reading needs: adjacency, the raw neighbours
  of the replacing node, the forest after the first two steps.
-/
import XotModel.Lemmas.FspecAllOff
import XotModel.Lemmas.FspecAllList
import XotModel.Lemmas.FspecRepl3
import XotModel.Lemmas.FspecReplSpec
import XotModel.Lemmas.FspecPairAfter3
import XotModel.Lemmas.FspecPairAppend3
import XotModel.Lemmas.FspecReplValid

namespace XotModel
open HTree Spec

/-! ### The pair theorems for forests that satisfy the invariant up to the ghost flag -/

theorem insertAfter_pair_w {g : Forest} {r c : Nat} (hi : g.off.Inv) (hok : (g.insertAfter r c).2 = .ok) :
    (g.insertAfter r c).1 = specMoveP (.after r) c g := by
  have h1 := insertAfter_pair hi (by rw [Forest.off_insertAfter]; exact hok)
  rw [Forest.off_insertAfter, Spec.off_specMoveP] at h1
  exact Forest.off_inj true h1 (by rw [Forest.insertAfter_everOff, Spec.specMoveP_everOff])

theorem prepend_pair_w {g : Forest} {p c : Nat} (hi : g.off.Inv) (hok : (g.prepend p c).2 = .ok) :
    (g.prepend p c).1 = specMoveP (.firstNormalChildOf p) c g := by
  have h1 := prepend_pair hi (by rw [Forest.off_prepend]; exact hok)
  rw [Forest.off_prepend, Spec.off_specMoveP] at h1
  exact Forest.off_inj true h1 (by rw [Forest.prepend_everOff, Spec.specMoveP_everOff])

/-- The forest without the child `A` satisfies the invariant up to the ghost flag (its two
    neighbours may be adjacent text nodes now). -/
theorem drop_off_inv {f : Forest} {q : Nat} {vq : Value} {l : List HTree} {A : HTree} {r : List HTree}
    (inv : f.Inv) (s : SiteAt f q vq (l ++ A :: r)) : (f.editAt (some q) (dropTop A.handle)).off.Inv := by
  obtain ⟨ndL, _⟩ := s.nodupKids
  obtain ⟨tl, tr⟩ := tops_ne_of_nodup ndL
  have hdrop : dropTop A.handle (l ++ A :: r) = l ++ r := dropTop_mid rfl tl tr
  have hsub : (f.editAt (some q) (dropTop A.handle)).allHandles.Sublist f.allHandles :=
    handlesList_editAt_sublist (fun L => handlesList_dropTop_sublist _ L) f.roots
  have hv : validList false f.roots = true := (Forest.off_inv inv).valid
  refine ⟨inv.notCorrupt, hsub.nodup inv.nodup, fun h hh => inv.below h (hsub.subset hh), ?_, Or.inr rfl⟩
  show validList false (f.editAt (some q) (dropTop A.handle)).roots = true
  apply s.valid_edit _ hv
  rw [hdrop]
  exact validTree_drop_mid (s.valid hv) (fun e => by cases e)

/-! ### `neighbours` -/

namespace PairAll

theorem neighbours_map {φ : HTree → HTree} (hφ : KidMap φ) (n : Nat) : ∀ L : List HTree,
    neighbours n (L.map φ) = neighbours n L
  | [] => rfl
  | [x] => rfl
  | x :: y :: rest => by
    have ih := neighbours_map hφ n (y :: rest)
    simp only [List.map_cons] at ih ⊢
    rw [neighbours, neighbours, hφ.handle, hφ.handle, ih]
    cases rest <;> simp [hφ.handle]

end PairAll

/-! ### More about the arguments of `replace` -/

namespace ReplArgs
variable {f : Forest} {a b q : Nat} {vq : Value} {l : List HTree} {A : HTree} {r : List HTree} {t : HTree}

theorem adjacent_true (h : ReplArgs f a b q vq l A r t) (hadj : prevOf l A = some b ∨ nextOf r A = some b) :
    adjacentTo f a b = true := by
  rw [h.adjacentTo_eq]
  rcases hadj with e | e
  · rw [h.prevOf_iff.1 e]; simp
  · rw [h.nextOf_iff.1 e]; simp

theorem adjacent_false (h : ReplArgs f a b q vq l A r t) (h1 : prevOf l A ≠ some b) (h2 : nextOf r A ≠ some b) :
    adjacentTo f a b = false := by
  rw [h.adjacentTo_eq]
  have e1 : ((l.getLast?.map (·.handle)) == some b) = false := by
    cases hh : (l.getLast?.map (·.handle)) == some b with
    | false => rfl
    | true => exact absurd (h.prevOf_iff.2 (by simpa using hh)) h1
  have e2 : ((r.head?.map (·.handle)) == some b) = false := by
    cases hh : (r.head?.map (·.handle)) == some b with
    | false => rfl
    | true => exact absurd (h.nextOf_iff.2 (by simpa using hh)) h2
  rw [e1, e2]
  rfl

/-- The raw neighbours of the replaced node. -/
theorem nb_a (h : ReplArgs f a b q vq l A r t) :
    f.nbOf a = (l.getLast?.map (·.handle), r.head?.map (·.handle)) := by
  have := h.sq.nbOf
  rw [h.ha] at this
  exact this

/-- The replacing node, when it is a child of the same parent but not next to the replaced node. -/
theorem same_parent_split (h : ReplArgs f a b q vq l A r t) (hpar : f.parent? b = some q)
    (h1 : prevOf l A ≠ some b) (h2 : nextOf r A ≠ some b) :
    (∃ u w, l = u ++ t :: w ∧ w ≠ []) ∨ (∃ u w, r = u ++ t :: w ∧ u ≠ []) := by
  have nd := h.sq.nd
  cases hctx : f.ctx? b with
  | none => rw [Forest.parent?_of_no_ctx hctx] at hpar; cases hpar
  | some cx =>
    obtain ⟨e0, v, so⟩ := SiteAt.of_ctx nd hctx
    have hself : cx.self = t := by
      have := Forest.get?_of_ctx nd hctx
      rw [h.hgb] at this
      exact (Option.some.inj this).symm
    rw [Forest.parent?_of_ctx hctx] at hpar
    have hq := Option.some.inj hpar
    have eL : l ++ A :: r = cx.left ++ cx.self :: cx.right := by
      have e1 := so.kids
      rw [hq, h.sq.kids] at e1
      injection (Option.some.inj e1)
    have htmem : t ∈ l ++ A :: r := by rw [eL, hself]; simp
    have htA : t ≠ A := by
      intro e
      have := h.hb
      rw [e, h.ha] at this
      exact h.hab this
    cases List.mem_append.1 htmem with
    | inl hl =>
      left
      obtain ⟨u, w, e⟩ := List.append_of_mem hl
      refine ⟨u, w, e, ?_⟩
      intro hw
      subst hw
      apply h1
      apply h.prevOf_iff.2
      rw [e]
      simp [h.hb]
    | inr hr =>
      cases List.mem_cons.1 hr with
      | inl e => exact absurd e htA
      | inr hr' =>
        right
        obtain ⟨u, w, e⟩ := List.append_of_mem hr'
        refine ⟨u, w, e, ?_⟩
        intro hu
        subst hu
        apply h2
        apply h.nextOf_iff.2
        rw [e]
        simp [h.hb]

/-- The raw neighbours of the replacing node are the same once the replaced subtree is gone. -/
theorem nb1 (h : ReplArgs f a b q vq l A r t) (h1 : prevOf l A ≠ some b) (h2 : nextOf r A ≠ some b) :
    (f.editAt (some q) (dropTop a)).nbOf b = f.nbOf b := by
  have nd := h.sq.nd
  have s1 := h.site1
  cases hctx : f.ctx? b with
  | none =>
    have hp : f.parent? b = none := Forest.parent?_of_no_ctx hctx
    rw [Forest.nbOf_root hp, Forest.nbOf_root (by rw [h.parent1]; exact hp)]
  | some cx =>
    obtain ⟨e0, vo, so⟩ := SiteAt.of_ctx nd hctx
    have hself : cx.self = t := by
      have := Forest.get?_of_ctx nd hctx
      rw [h.hgb] at this
      exact (Option.some.inj this).symm
    have hp : f.parent? b = some cx.parent := Forest.parent?_of_ctx hctx
    rw [Forest.nbOf_kid hp, Forest.nbOf_kid (by rw [h.parent1]; exact hp)]
    by_cases hpo : cx.parent = q
    · rw [hpo, Forest.kidsOf_of_get h.sq.kids, Forest.kidsOf_of_get s1.kids]
      obtain ⟨ndL, _⟩ := h.sq.nodupKids
      have hbt := h.hb
      rcases h.same_parent_split (by rw [hp, hpo]) h1 h2 with ⟨u, w, e, hw⟩ | ⟨u, w, e, hu⟩
      · subst e
        have e1 : (u ++ t :: w) ++ A :: r = u ++ t :: (w ++ A :: r) := by simp
        have e2 : (u ++ t :: w) ++ r = u ++ t :: (w ++ r) := by simp
        rw [e1] at ndL
        have tu := (tops_ne_of_nodup ndL).1
        rw [e1, e2, ← hbt, neighbours_mid rfl _ u tu, neighbours_mid rfl _ u tu]
        cases w with
        | nil => exact absurd rfl hw
        | cons w0 w' => rfl
      · subst e
        have e1 : l ++ A :: (u ++ t :: w) = (l ++ A :: u) ++ t :: w := by simp
        have e2 : l ++ (u ++ t :: w) = (l ++ u) ++ t :: w := by simp
        rw [e1] at ndL
        have tu := (tops_ne_of_nodup ndL).1
        rw [e1, e2, ← hbt, neighbours_mid rfl _ _ tu,
          neighbours_mid rfl _ _ (fun x hx => tu x (by
            cases List.mem_append.1 hx with
            | inl h' => exact List.mem_append_left _ h'
            | inr h' => exact List.mem_append_right _ (List.mem_cons_of_mem _ h')))]
        rcases List.eq_nil_or_concat u with hu' | ⟨u', z, hu'⟩
        · exact absurd hu' hu
        · rw [List.concat_eq_append] at hu'
          subst hu'
          have e3 : l ++ A :: (u' ++ [z]) = (l ++ A :: u') ++ [z] := by simp
          have e4 : l ++ (u' ++ [z]) = (l ++ u') ++ [z] := by simp
          rw [e3, e4, List.getLast?_concat, List.getLast?_concat]
    · have s' := h.sq.other so.kids hpo (dropTop a) (handlesList_dropTop_sublist a _) (by
        apply findList?_dropTop
        intro k hk hka hin
        rw [h.kid_a hk hka] at hin
        have := child_inside h.live_a so hin
        rw [e0] at this
        exact h.hbA this)
      rw [Forest.kidsOf_of_get so.kids, Forest.kidsOf_of_get s'.kids,
        PairAll.neighbours_map (kidMap_editAt _ _)]

end ReplArgs

end XotModel
