/-
  Lemmas for C11, part 17: appending an entry node that is still attached to another element
  (the node moves).  The call computes the same as `detach` of the node followed by the append
  of the now parentless node.
-/
import XotModel.Lemmas.FmapShallow

namespace XotModel
namespace Fmap
open HTree
open Forest (MapKind entryKey mapChildren)

/-! ### Proper ancestors have children -/

mutual
  theorem ancestorsOf_inner (h x : Nat) (hx : x ≠ h) : ∀ (t : HTree) (l : List Nat),
      (handles t).Nodup → ancestorsOf h t = some l → x ∈ l →
      ∃ s, find? x t = some s ∧ h ∈ handlesList s.kids
    | .node h' v ks, l => by
      intro hnd ha hm
      simp only [handles, List.nodup_cons] at hnd
      simp only [ancestorsOf] at ha
      split at ha
      · rename_i hh
        cases ha
        simp only [List.mem_singleton] at hm
        exact absurd (hm.trans hh) hx
      · cases hk : ancestorsOfList h ks with
        | none => rw [hk] at ha; cases ha
        | some l' =>
          rw [hk] at ha; cases ha
          have hsub := ancestorsOfList_sub h ks l' hk
          simp only [List.mem_append, List.mem_singleton] at hm
          rcases hm with hm | hm
          · obtain ⟨s, hs, hin⟩ := ancestorsOfList_inner h x hx ks l' hnd.2 hk hm
            refine ⟨s, ?_, hin⟩
            have : h' ≠ x := fun hh => hnd.1 (hh ▸ hsub.1 x hm)
            simp only [find?, if_neg this]
            exact hs
          · subst hm
            exact ⟨.node x v ks, by simp [find?], hsub.2⟩
  theorem ancestorsOfList_inner (h x : Nat) (hx : x ≠ h) : ∀ (ks : List HTree) (l : List Nat),
      (handlesList ks).Nodup → ancestorsOfList h ks = some l → x ∈ l →
      ∃ s, findList? x ks = some s ∧ h ∈ handlesList s.kids
    | [], l => by simp [ancestorsOfList]
    | k :: ks, l => by
      intro hnd ha hm
      simp only [handlesList] at hnd
      have hnd' := List.nodup_append.mp hnd
      simp only [ancestorsOfList] at ha
      cases hk : ancestorsOf h k with
      | some l' =>
        rw [hk] at ha; cases ha
        obtain ⟨s, hs, hin⟩ := ancestorsOf_inner h x hx k _ hnd'.1 hk hm
        exact ⟨s, by simp [findList?, hs], hin⟩
      | none =>
        rw [hk] at ha
        obtain ⟨s, hs, hin⟩ := ancestorsOfList_inner h x hx ks l hnd'.2.1 ha hm
        have hxm : x ∈ handlesList ks := (ancestorsOfList_sub h ks l ha).1 x hm
        have : x ∉ handles k := fun hc => hnd'.2.2 _ hc _ hxm rfl
        exact ⟨s, by simp [findList?, find?_none_of_not_mem x k this, hs], hin⟩
end

theorem findSome?_ancestorsOf (h : Nat) (ks : List HTree) :
    ks.findSome? (ancestorsOf h) = ancestorsOfList h ks := by
  induction ks with
  | nil => rfl
  | cons k ks ih =>
    simp only [List.findSome?_cons, ancestorsOfList]
    cases ancestorsOf h k with
    | some l => rfl
    | none => exact ih

/-- A leaf is no proper ancestor of anything. -/
theorem ancestors_not_leaf (f : Forest) (hnd : f.allHandles.Nodup) (nd h : Nat) (n : HTree)
    (hg : f.get? nd = some n) (hk : n.kids = []) (hne : h ≠ nd) :
    (f.ancestors h).contains nd = false := by
  cases hc : (f.ancestors h).contains nd with
  | false => rfl
  | true =>
    exfalso
    have hm : nd ∈ f.ancestors h := by simpa using hc
    unfold Forest.ancestors at hm
    rw [findSome?_ancestorsOf] at hm
    cases ha : ancestorsOfList h f.roots with
    | none => rw [ha] at hm; simp at hm
    | some l =>
      rw [ha] at hm
      simp only [Option.getD_some] at hm
      obtain ⟨s, hs, hin⟩ := ancestorsOfList_inner h nd (fun hh => hne hh.symm) f.roots l hnd ha hm
      have : s = n := by
        have h1 : f.get? nd = some s := hs
        rw [hg] at h1; cases h1; rfl
      subst this
      rw [hk] at hin
      simp [handlesList] at hin

/-! ### The forest after the detachment -/

theorem map_handle_mapAtList (e : Nat) (F : List HTree → List HTree) (ks : List HTree) :
    (mapAtList e (atKids F) ks).map (·.handle) = ks.map (·.handle) := by
  rw [mapAtList_eq_map, List.map_map]
  apply List.map_congr_left
  intro c _
  exact mapAt_atKids_handle e F c

theorem isRoot_detached (f : Forest) (e2 : Nat) (ks2' : List HTree) (n : HTree) (ip : Nat)
    (hne : n.handle ≠ ip) (hr : f.isRoot ip = false) :
    ({ f with roots := withKids f.roots e2 ks2' ++ [n] } : Forest).isRoot ip = false := by
  unfold Forest.isRoot at hr ⊢
  simp only [List.any_append, List.any_cons, List.any_nil, Bool.or_false, Bool.or_eq_false_iff]
  constructor
  · rw [List.any_eq_false] at hr ⊢
    intro x hx
    unfold withKids at hx
    rw [mapAtList_eq_map] at hx
    obtain ⟨y, hy, rfl⟩ := List.mem_map.mp hx
    rw [mapAt_atKids_handle]
    exact hr y hy
  · simpa using hne

theorem rootsWithout_detached (f : Forest) (e2 : Nat) (ks2' : List HTree) (n : HTree)
    (hfresh : n.handle ∉ handlesList (withKids f.roots e2 ks2')) :
    rootsWithout { f with roots := withKids f.roots e2 ks2' ++ [n] } n.handle =
      withKids f.roots e2 ks2' := by
  simp only [rootsWithout, List.filter_append]
  have h1 : (withKids f.roots e2 ks2').filter (fun r => r.handle != n.handle) =
      withKids f.roots e2 ks2' := by
    apply List.filter_eq_self.mpr
    intro r hr
    have : r.handle ≠ n.handle := fun hh =>
      hfresh (hh ▸ mem_handlesList_of_mem _ r hr _ (handle_mem_handles r))
    simpa using this
  rw [h1]
  simp

/-- The situation: `n` is a leaf child of `e2`. -/
structure Attached (f : Forest) (e2 : Nat) (ev2 : Value) (l2 r2 : List HTree) (n : HTree) : Prop where
  loc : Located f e2 ev2 (l2 ++ n :: r2)
  leaf : n.kids = []

def Attached.fd {f : Forest} {e2 : Nat} {ev2 : Value} {l2 r2 : List HTree} {n : HTree}
    (_ : Attached f e2 ev2 l2 r2 n) : Forest :=
  { f with roots := withKids f.roots e2 (l2 ++ r2) ++ [n] }

theorem Attached.node_eq {f : Forest} {e2 : Nat} {ev2 : Value} {l2 r2 : List HTree} {n : HTree}
    (a : Attached f e2 ev2 l2 r2 n) : n = .node n.handle n.value [] := by
  cases n with
  | node h v ks =>
    have := a.leaf
    simp only [HTree.kids] at this
    subst this
    rfl

theorem Attached.fd_nodup {f : Forest} {e2 : Nat} {ev2 : Value} {l2 r2 : List HTree} {n : HTree}
    (a : Attached f e2 ev2 l2 r2 n) : a.fd.allHandles.Nodup :=
  (located_after_detach a.loc).nodup

theorem Attached.fresh {f : Forest} {e2 : Nat} {ev2 : Value} {l2 r2 : List HTree} {n : HTree}
    (a : Attached f e2 ev2 l2 r2 n) : n.handle ∉ handlesList (withKids f.roots e2 (l2 ++ r2)) := by
  have hnd := a.fd_nodup
  unfold Attached.fd Forest.allHandles at hnd
  simp only at hnd
  rw [handlesList_append] at hnd
  intro hx
  exact (List.nodup_append.mp hnd).2.2 _ hx _
    (by simp only [handlesList, List.append_nil]; exact handle_mem_handles n) rfl

theorem Attached.root_mem {f : Forest} {e2 : Nat} {ev2 : Value} {l2 r2 : List HTree} {n : HTree}
    (a : Attached f e2 ev2 l2 r2 n) : HTree.node n.handle n.value [] ∈ a.fd.roots := by
  unfold Attached.fd
  simp only [List.mem_append, List.mem_singleton]
  exact Or.inr a.node_eq.symm

/-- `checked_insert_after(ip, node)` computes the same before and after the detachment. -/
theorem checkedInsertAfter_detached {f : Forest} {e2 : Nat} {ev2 : Value} {l2 r2 : List HTree}
    {n : HTree} (a : Attached f e2 ev2 l2 r2 n) (ip : Nat) (hne : ip ≠ n.handle)
    (hr : f.isRoot ip = false) :
    f.checkedInsertAfter ip n.handle = a.fd.checkedInsertAfter ip n.handle := by
  have hgn : f.get? n.handle = some n := a.loc.childFound n (by simp)
  have hfdr : a.fd.isRoot ip = false := isRoot_detached f e2 _ n ip (fun h => hne h.symm) hr
  unfold Forest.checkedInsertAfter
  rw [if_neg hne, if_neg hne, ancestors_not_leaf f a.loc.nodup n.handle ip n hgn a.leaf hne, hr,
    ancestors_not_leafRoot a.fd a.fd_nodup n.handle ip n.value a.root_mem hne, hfdr]
  simp only [Bool.or_self, Bool.false_eq_true, if_false]
  rw [cut_child a.loc, cut_leafRoot a.fd a.fd_nodup n.handle n.value a.root_mem]
  simp only
  have hrw : rootsWithout a.fd n.handle = withKids f.roots e2 (l2 ++ r2) :=
    rootsWithout_detached f e2 _ n a.fresh
  rw [hrw, ← a.node_eq]
  rfl

/-- `checked_prepend(p, node)` likewise. -/
theorem checkedPrepend_detached {f : Forest} {e2 : Nat} {ev2 : Value} {l2 r2 : List HTree}
    {n : HTree} (a : Attached f e2 ev2 l2 r2 n) (p : Nat) (hne : p ≠ n.handle) :
    f.checkedPrepend p n.handle = a.fd.checkedPrepend p n.handle := by
  have hgn : f.get? n.handle = some n := a.loc.childFound n (by simp)
  unfold Forest.checkedPrepend
  rw [ancestors_not_leaf f a.loc.nodup n.handle p n hgn a.leaf hne,
    ancestors_not_leafRoot a.fd a.fd_nodup n.handle p n.value a.root_mem hne]
  simp only [Bool.or_false, decide_eq_true_eq, if_neg hne]
  rw [cut_child a.loc, cut_leafRoot a.fd a.fd_nodup n.handle n.value a.root_mem]
  simp only
  have hrw : rootsWithout a.fd n.handle = withKids f.roots e2 (l2 ++ r2) :=
    rootsWithout_detached f e2 _ n a.fresh
  rw [hrw, ← a.node_eq]
  rfl

end Fmap
end XotModel

namespace XotModel
namespace Fmap
open HTree
open Forest (MapKind entryKey mapChildren)

/-! ### The insertion point depends on the shallow view of the element only -/

theorem insertionPoint_shallow (f : Forest) (k : MapKind) (e : Nat) :
    f.mapInsertionPoint k e =
      match (f.get? e).map shallow with
      | none => none
      | some sh =>
        match ((kidsOfP k sh.2).map (·.1)).getLast? with
        | some h => some h
        | none =>
          match k with
          | .namespaces => none
          | .attributes => ((kidsOfP .namespaces sh.2).map (·.1)).getLast? := by
  unfold Forest.mapInsertionPoint
  cases hg : f.get? e with
  | none => rfl
  | some t =>
    simp only [Option.map_some]
    rw [← nodes_of_shallow k t, ← nodes_of_shallow .namespaces t, List.getLast?_map, List.getLast?_map]
    cases (mapChildren k t).getLast? with
    | some l => rfl
    | none =>
      cases k with
      | namespaces => rfl
      | attributes => rfl

theorem insertionPoint_of_shallow (f f' : Forest) (k : MapKind) (e : Nat)
    (h : (f'.get? e).map shallow = (f.get? e).map shallow) :
    f'.mapInsertionPoint k e = f.mapInsertionPoint k e := by
  rw [insertionPoint_shallow, insertionPoint_shallow, h]

/-- The insertion point, when there is one, is a direct child of the element. -/
theorem insertionPoint_child {f : Forest} {e nm : Nat} {N A S : List HTree} (h : MInv f e nm N A S)
    (k : MapKind) (ip : Nat) (hip : f.mapInsertionPoint k e = some ip) :
    ∃ l r c, N ++ A ++ S = l ++ c :: r ∧ c.handle = ip := by
  rw [insertionPoint_spec h.loc h.sect k] at hip
  cases hl : (Sect.sec k N A).getLast? with
  | some c =>
    rw [hl] at hip
    simp only [Option.some.injEq] at hip
    obtain ⟨s0, hs0⟩ := List.getLast?_eq_some_iff.mp hl
    refine ⟨preK k N ++ s0, postK k A S, c, ?_, hip⟩
    rw [split_kids k, hs0]; simp
  | none =>
    rw [hl] at hip
    cases k with
    | namespaces => cases hip
    | attributes =>
      simp only at hip
      cases hN : N.getLast? with
      | none => rw [hN] at hip; cases hip
      | some c =>
        rw [hN] at hip
        simp only [Option.map_some, Option.some.injEq] at hip
        obtain ⟨N0, hN0⟩ := List.getLast?_eq_some_iff.mp hN
        exact ⟨N0, A ++ S, c, by rw [hN0]; simp, hip⟩

/-- A node is the direct child of one node only. -/
theorem parent_unique {f : Forest} {e e2 : Nat} {ev ev2 : Value} {l r l2 r2 : List HTree}
    {c n : HTree} (h1 : Located f e ev (l ++ c :: r)) (h2 : Located f e2 ev2 (l2 ++ n :: r2))
    (hh : c.handle = n.handle) : e = e2 := by
  have c1 := ctx?_child f h1.nodup e _ l r c h1.get rfl
  have c2 := ctx?_child f h2.nodup e2 _ l2 r2 n h2.get rfl
  rw [hh, c2] at c1
  simp only [Option.some.injEq, HTree.Ctx.mk.injEq] at c1
  exact c1.1.symm

/-- The shallow view of every node other than `e2` and the detached leaf is the same after the
    detachment. -/
theorem Attached.shallow_eq {f : Forest} {e2 : Nat} {ev2 : Value} {l2 r2 : List HTree} {n : HTree}
    (a : Attached f e2 ev2 l2 r2 n) (e' : Nat) (h1 : e' ≠ e2) (h2 : n.handle ≠ e') :
    (a.fd.get? e').map shallow = (f.get? e').map shallow := by
  have hH : (findList? e' (l2 ++ r2)).map shallow = (findList? e' (l2 ++ n :: r2)).map shallow := by
    rw [findList?_skip_leaf e' l2 r2 n a.leaf h2]
  have hG := shallow_findList?_withKids e2 e' ev2 _ _ h1 hH f.roots a.loc.nodup a.loc.get
  have hn : find? e' n = none := by
    apply find?_none_of_not_mem
    rw [handles_eq, a.leaf]
    simp only [handlesList, List.mem_cons, List.not_mem_nil, or_false]
    exact fun h => h2 h.symm
  show (findList? e' (withKids f.roots e2 (l2 ++ r2) ++ [n])).map shallow = _
  rw [findList?_append]
  simp only [findList?, hn]
  unfold withKids
  show _ = (findList? e' f.roots).map shallow
  cases hw : findList? e' (mapAtList e2 (atKids fun _ => l2 ++ r2) f.roots) with
  | none => rw [hw] at hG; simpa using hG
  | some t => rw [hw] at hG; simpa using hG

/-- Appending an entry node still attached to another element computes the same as appending it
    after it has been detached. -/
theorem appendEntryNode_attached_eq {f : Forest} {e nm : Nat} {N A S : List HTree}
    (h : MInv f e nm N A S) {e2 : Nat} {ev2 : Value} {l2 r2 : List HTree} {n : HTree}
    (a : Attached f e2 ev2 l2 r2 n) (hne : e ≠ e2) (k : MapKind) (hm : k.matches n.value = true)
    (habs : f.mapGetNode k e (entryKey n.value) = none) :
    f.appendEntryNode k e n.handle = a.fd.appendEntryNode k e n.handle := by
  have hgn : f.get? n.handle = some n := a.loc.childFound n (by simp)
  have hen : n.handle ≠ e := by
    intro hh
    rw [hh, h.loc.get] at hgn
    simp only [Option.some.injEq] at hgn
    rw [← hgn] at hm
    cases k <;> simp [MapKind.matches, HTree.value] at hm
  have hsh := a.shallow_eq e hne hen
  obtain ⟨habs', _, hel, _⟩ := views_of_shallow f a.fd e hsh
  have hv1 : f.value? n.handle = some n.value := by simp [Forest.value?, hgn]
  have hv2 : a.fd.value? n.handle = some n.value := by
    have := leafRoot_get a.fd a.fd_nodup n.handle n.value a.root_mem
    simp [Forest.value?, this, HTree.value]
  have habs2 : a.fd.mapGetNode k e (entryKey n.value) = none := by
    have c1 := containsKey_eq f k e (entryKey n.value)
    have c2 := containsKey_eq a.fd k e (entryKey n.value)
    rw [habs' k, ← c1, habs] at c2
    cases hx : a.fd.mapGetNode k e (entryKey n.value) with
    | none => rfl
    | some _ => rw [hx] at c2; cases c2
  unfold Forest.appendEntryNode
  rw [hel, h.isElement]
  simp only [Bool.not_true, Bool.false_eq_true, if_false, hv1, hv2, hm]
  unfold Forest.mapInsertNode
  simp only [hv1, hv2, hm, Bool.not_true, Bool.false_eq_true, if_false, habs, habs2]
  -- the placement
  have hplace : f.mapPlace k e n.handle = a.fd.mapPlace k e n.handle := by
    unfold Forest.mapPlace
    rw [insertionPoint_of_shallow f a.fd k e hsh]
    cases hip : f.mapInsertionPoint k e with
    | some ip =>
      obtain ⟨l, r, c, hks, hc⟩ := insertionPoint_child h k ip hip
      have hloc : Located f e (.element nm) (l ++ c :: r) := by rw [← hks]; exact h.loc
      have hipn : ip ≠ n.handle := by
        intro hh
        exact hne (parent_unique hloc a.loc (hc.trans hh))
      have hr : f.isRoot ip = false := by rw [← hc]; exact hloc.isRoot_child
      simp only
      rw [checkedInsertAfter_detached a ip hipn hr]
    | none =>
      simp only
      rw [checkedPrepend_detached a e (fun hh => hen hh.symm)]
  rw [hplace]

end Fmap
end XotModel

namespace XotModel
namespace Fmap
open HTree
open Forest (MapKind entryKey mapChildren)

/-- `append_*_node` of a parentless entry node whose key is absent, with the new state explicit. -/
theorem appendEntryNode_absent {f : Forest} {e nm : Nat} {N A S : List HTree} (h : MInv f e nm N A S)
    (k : MapKind) (nd : Nat) (v : Value) (hm : k.matches v = true)
    (hroot : HTree.node nd v [] ∈ f.roots) (habs : f.mapGetNode k e (entryKey v) = none) :
    let s' := Sect.sec k N A ++ [.node nd v []]
    let f' : Forest := { f with roots := withKids (rootsWithout f nd) e (preK k N ++ s' ++ postK k A S) }
    f.appendEntryNode k e nd = (f', .ok, nd) ∧
    MInv f' e nm (setSecN k N s') (setSecA k A s') S ∧
    s'.map entryPair = omInsert ((Sect.sec k N A).map entryPair) (entryKey v) (payloadOf v) ∧
    s'.map (·.handle) = (Sect.sec k N A).map (·.handle) ++ [nd] := by
  intro s' f'
  have hne := leafRoot_ne_elem h k nd v hm hroot
  have hval : f.value? nd = some v := by
    simp [Forest.value?, leafRoot_get f h.loc.nodup nd v hroot, HTree.value]
  have habs' := find?_key_none _ _ (by rw [← h.getNode k]; exact habs)
  obtain ⟨hplace, hinv, hmap, hnodes⟩ := place_absent h k nd v hm hroot hne habs'
  refine ⟨?_, hinv, hmap, hnodes⟩
  unfold Forest.appendEntryNode
  rw [h.isElement]
  simp only [Bool.not_true, Bool.false_eq_true, if_false, hval, hm]
  unfold Forest.mapInsertNode
  simp only [hval, hm, Bool.not_true, Bool.false_eq_true, if_false, habs]
  rw [hplace]

/-- Moving an entry node `n` of view `k` of `e2` to another element `e` whose view lacks the key:
    `e` gains the entry at the end (carried by the same node), `e2` loses it, nothing else
    changes in the two elements' views, the invariant is kept. -/
theorem move_node (f : Forest) (hi : f.Inv) (k : MapKind) (e e2 hd : Nat)
    (he : f.isElement e = true) (he2 : f.isElement e2 = true) (hne : e ≠ e2)
    (hm : hd ∈ absNodes k f e2) :
    ∃ n, f.mapGetNode k e2 (keyOf n) = some n ∧ n.handle = hd ∧
      (f.mapGetNode k e (keyOf n) = none →
        (f.appendEntryNode k e hd).2 = (.ok, hd) ∧
        abs k (f.appendEntryNode k e hd).1 e = omInsert (abs k f e) (keyOf n) (payloadOf n.value) ∧
        absNodes k (f.appendEntryNode k e hd).1 e = absNodes k f e ++ [hd] ∧
        abs k (f.appendEntryNode k e hd).1 e2 = omRemove (abs k f e2) (keyOf n) ∧
        (∀ k', k' ≠ k → abs k' (f.appendEntryNode k e hd).1 e = abs k' f e ∧
          abs k' (f.appendEntryNode k e hd).1 e2 = abs k' f e2) ∧
        (f.appendEntryNode k e hd).1.Inv) := by
  obtain ⟨nm, N, A, S, h⟩ := minv_of_inv f e hi he
  obtain ⟨nm2, N2, A2, S2, h2⟩ := minv_of_inv f e2 hi he2
  have hm' := hm
  rw [h2.absNodes_eq k] at hm'
  obtain ⟨n, hn, hh⟩ := List.mem_map.mp hm'
  obtain ⟨hg2, s1, s2, hs, _⟩ := getNode_of_mem h2 k n hn
  refine ⟨n, hg2, hh, ?_⟩
  intro habs
  subst hh
  have hncat : n.value.category = kindCat k := h2.sect.sec_cat k n hn
  have hmv : k.matches n.value = true := (matches_iff_cat k _).mpr hncat
  -- the node as a leaf child of `e2`
  have hloc2 : Located f e2 (.element nm2) ((preK k N2 ++ s1) ++ n :: (s2 ++ postK k A2 S2)) := by
    rw [← kids_around k N2 A2 S2 s1 s2 n hs]; exact h2.loc
  have a : Attached f e2 (.element nm2) (preK k N2 ++ s1) (s2 ++ postK k A2 S2) n :=
    ⟨hloc2, h2.leaf k n hn⟩
  have hdet := detach_child hloc2 (by rw [hncat]; exact kindCat_ne_normal k)
  have hfd : (f.detach n.handle).1 = a.fd := by rw [hdet]; rfl
  have hen : n.handle ≠ e := by
    intro hx
    have hgn : f.get? n.handle = some n := hloc2.childFound n (by simp)
    rw [hx, h.loc.get] at hgn
    simp only [Option.some.injEq] at hgn
    rw [← hgn] at hmv
    cases k <;> simp [MapKind.matches, HTree.value] at hmv
  have hne2 : n.handle ≠ e2 := by
    intro hx
    apply hloc2.kidsNodup.2
    rw [← hx, handlesList_append]
    simp only [handlesList, List.mem_append]
    exact Or.inr (Or.inl (handle_mem_handles n))
  -- the call is the call on the detached forest
  rw [appendEntryNode_attached_eq h a hne k hmv habs]
  have hifd : a.fd.Inv := by
    have := detach_node_inv f hi k e2 n.handle he2 hm
    rwa [hfd] at this
  have hsh : (a.fd.get? e).map shallow = (f.get? e).map shallow := a.shallow_eq e hne hen
  obtain ⟨hva, hvn, hvel, _⟩ := views_of_shallow f a.fd e hsh
  have hefd : a.fd.isElement e = true := by rw [hvel]; exact he
  obtain ⟨nm', N', A', S', h'⟩ := minv_of_inv a.fd e hifd hefd
  have habsfd : a.fd.mapGetNode k e (entryKey n.value) = none := by
    have c1 := containsKey_eq f k e (entryKey n.value)
    have c2 := containsKey_eq a.fd k e (entryKey n.value)
    have habs0 : f.mapGetNode k e (entryKey n.value) = none := habs
    rw [hva k, ← c1, habs0] at c2
    cases hx : a.fd.mapGetNode k e (entryKey n.value) with
    | none => rfl
    | some _ => rw [hx] at c2; cases c2
  obtain ⟨hcall, hinv'', hmap, hnodes⟩ :=
    appendEntryNode_absent h' k n.handle n.value hmv a.root_mem habsfd
  have hinvF : (a.fd.appendEntryNode k e n.handle).1.Inv := by
    apply appendEntryNode_inv a.fd hifd k e n.handle n.value hefd
    · unfold Forest.isRoot
      exact List.any_eq_true.mpr ⟨_, a.root_mem, by simp [HTree.handle]⟩
    · have := leafRoot_get a.fd a.fd_nodup n.handle n.value a.root_mem
      simp [Forest.value?, this, HTree.value]
    · exact hmv
  rw [hcall] at hinvF ⊢
  simp only at hinvF ⊢
  -- the detached forest seen from `e2`
  obtain ⟨s2', st2, _, hmap2, _⟩ := detach_node_step h2 k n hn
  rw [hfd] at st2
  -- the final forest seen from `e2`: only `e`'s child list differs, by the leaf `n`
  have hW : rootsWithout a.fd n.handle =
      withKids f.roots e2 ((preK k N2 ++ s1) ++ (s2 ++ postK k A2 S2)) :=
    rootsWithout_detached f e2 _ n a.fresh
  have h0 := located_without h'.loc n.handle n.value a.root_mem (fun hx => hen hx.symm)
  have hH : (findList? e2 (preK k N' ++ (Sect.sec k N' A' ++ [.node n.handle n.value []]) ++
        postK k A' S')).map shallow = (findList? e2 (N' ++ A' ++ S')).map shallow := by
    have e1 : preK k N' ++ (Sect.sec k N' A' ++ [.node n.handle n.value []]) ++ postK k A' S' =
        (preK k N' ++ Sect.sec k N' A') ++ .node n.handle n.value [] :: postK k A' S' := by simp
    rw [e1, findList?_skip_leaf e2 _ _ (.node n.handle n.value []) rfl hne2, ← split_kids k N' A' S']
  have hG := shallow_findList?_withKids e e2 (.element nm') _ _ (fun hx => hne hx.symm) hH
    (rootsWithout a.fd n.handle) h0.nodup h0.get
  -- lookups of `e2`: final forest = roots without the leaf = detached forest
  have hfd2 : a.fd.get? e2 = findList? e2 (rootsWithout a.fd n.handle) := by
    rw [hW]
    have hW2 : findList? e2 (withKids f.roots e2 ((preK k N2 ++ s1) ++ (s2 ++ postK k A2 S2))) = _ :=
      (located_after_cut hloc2).get
    show findList? e2 (withKids f.roots e2 _ ++ [n]) = _
    rw [findList?_append_left e2 _ _ _ hW2, hW2]
  let ksF := preK k N' ++ (Sect.sec k N' A' ++ [HTree.node n.handle n.value []]) ++ postK k A' S'
  let fF : Forest := { a.fd with roots := withKids (rootsWithout a.fd n.handle) e ksF }
  have hsh2 : (fF.get? e2).map shallow = (a.fd.get? e2).map shallow := by
    rw [hfd2]; exact hG
  obtain ⟨hva2, _, _, _⟩ := views_of_shallow a.fd fF e2 hsh2
  refine ⟨by first | rfl | trivial, ?_, ?_, ?_, ?_, hinvF⟩
  · rw [MInv.abs_update hinv'', hmap, ← h'.abs_eq k, hva k]; rfl
  · rw [hinv''.absNodes_eq k, sec_setSec, hnodes, ← h'.absNodes_eq k, hvn k]
  · rw [hva2 k, st2.abs_same, hmap2, h2.abs_eq k]
  · intro k' hk'
    constructor
    · rw [MInv.abs_update_other h' hinv'' hk', hva k']
    · rw [hva2 k', st2.abs_other h2 hk']

end Fmap
end XotModel
