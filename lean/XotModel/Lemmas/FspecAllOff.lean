/-
  FspecAllOff — the ghost flag `everOff` ("has consolidation ever been switched off?") is read by
  no manipulation function and by no specification: switching it on (`Forest.off`) commutes with
  all of them.  `Forest.Inv` of `f.off` needs non-strict validity only, so a statement proved for
  every forest with `Forest.Inv` can be used for an INTERMEDIATE forest of a composite call
  (`replace` after `remove_subtree`: the two neighbours of the removed node may be adjacent text
  nodes although consolidation was never switched off).
-/
import XotModel.Lemmas.FspecInsertAfter
import XotModel.Lemmas.FspecPrepend
import XotModel.Model.FspecSpec4

namespace XotModel

/-- The same store with the ghost flag set to `b`. -/
def Forest.withOff (f : Forest) (b : Bool) : Forest := { f with everOff := b }

/-- The same store with the ghost flag set. -/
abbrev Forest.off (f : Forest) : Forest := f.withOff true

namespace Forest
variable (e : Bool)

theorem off_get? (f : Forest) (h : Nat) : (f.withOff e).get? h = f.get? h := rfl
theorem off_ctx? (f : Forest) (h : Nat) : (f.withOff e).ctx? h = f.ctx? h := rfl
theorem off_parent? (f : Forest) (h : Nat) : (f.withOff e).parent? h = f.parent? h := rfl
theorem off_roots (f : Forest) : (f.withOff e).roots = f.roots := rfl
theorem off_consolidation (f : Forest) : (f.withOff e).consolidation = f.consolidation := rfl
theorem off_everOff (f : Forest) : (f.withOff e).everOff = e := rfl
theorem off_isRoot (f : Forest) (h : Nat) : (f.withOff e).isRoot h = f.isRoot h := rfl
theorem off_textOf (f : Forest) (h : Nat) : (f.withOff e).textOf h = f.textOf h := rfl
theorem off_prevSibling (f : Forest) (h : Nat) : (f.withOff e).prevSibling h = f.prevSibling h := rfl
theorem off_nextSibling (f : Forest) (h : Nat) : (f.withOff e).nextSibling h = f.nextSibling h := rfl
theorem off_firstChild (f : Forest) (h : Nat) : (f.withOff e).firstChild h = f.firstChild h := rfl
theorem off_lastChild (f : Forest) (h : Nat) : (f.withOff e).lastChild h = f.lastChild h := rfl
theorem off_ancestors (f : Forest) (h : Nat) : (f.withOff e).ancestors h = f.ancestors h := rfl
theorem off_structureCheck (f : Forest) (p : Option Nat) (c : Nat) :
    (f.withOff e).structureCheck p c = f.structureCheck p c := rfl
theorem off_siblingReferenceCheck (f : Forest) (r c : Nat) :
    (f.withOff e).siblingReferenceCheck r c = f.siblingReferenceCheck r c := rfl
theorem off_prependPoint (f : Forest) (p : Nat) : (f.withOff e).prependPoint p = f.prependPoint p := rfl
theorem off_setValue (f : Forest) (h : Nat) (v : Value) : (f.withOff e).setValue h v = ((f.setValue h v).withOff e) := rfl
theorem off_placeAfter (f : Forest) (r : Nat) (t : HTree) : (f.withOff e).placeAfter r t = ((f.placeAfter r t).withOff e) := rfl
theorem off_placeFirst (f : Forest) (p : Nat) (t : HTree) : (f.withOff e).placeFirst p t = ((f.placeFirst p t).withOff e) := rfl
theorem off_editAt (f : Forest) (s : Option Nat) (g : List HTree → List HTree) :
    (f.withOff e).editAt s g = ((f.editAt s g).withOff e) := by
  cases s <;> rfl
theorem off_kidsOf (f : Forest) (p : Nat) : (f.withOff e).kidsOf p = f.kidsOf p := rfl
theorem off_nbOf (f : Forest) (n : Nat) : (f.withOff e).nbOf n = f.nbOf n := rfl

theorem withOff_self (f : Forest) : f.withOff f.everOff = f := rfl

/-- Two stores that agree up to the ghost flag and on the ghost flag are equal. -/
theorem off_inj {X Y : Forest} (h : (X.withOff e) = (Y.withOff e)) (he : X.everOff = Y.everOff) : X = Y := by
  cases X; cases Y
  simp only [withOff, Forest.mk.injEq] at h
  simp only at he
  simp [h, he]

/-- The invariant survives setting the ghost flag. -/
theorem off_inv {f : Forest} (inv : f.Inv) : f.off.Inv := by
  refine ⟨inv.notCorrupt, inv.nodup, inv.below, ?_, Or.inr rfl⟩
  show validList (!true) f.roots = true
  have := inv.valid
  cases h : f.everOff with
  | true => rw [h] at this; exact this
  | false => rw [h] at this; exact validList_weaken _ this

theorem off_spliceOut (f : Forest) (h : Nat) : (f.withOff e).spliceOut h = ((f.spliceOut h).withOff e) := by
  unfold spliceOut
  rw [off_get?]
  cases f.get? h with
  | none => rfl
  | some t =>
    simp only
    rw [off_isRoot]
    split
    · split <;> rfl
    · rfl

theorem off_cut (f : Forest) (h : Nat) : (f.withOff e).cut h = (((f.cut h).1.withOff e), (f.cut h).2) := by
  unfold cut
  rw [off_get?]
  cases f.get? h with
  | none => rfl
  | some t =>
    simp only
    rw [off_isRoot]
    split <;> rfl

theorem off_dropSubtree (f : Forest) (h : Nat) : (f.withOff e).dropSubtree h = ((f.dropSubtree h).withOff e) := by
  unfold dropSubtree
  rw [off_cut]

theorem off_removeConsolidate (f : Forest) (a b : Option Nat) :
    (f.withOff e).removeConsolidate a b = (((f.removeConsolidate a b).1.withOff e), (f.removeConsolidate a b).2) := by
  unfold removeConsolidate
  rw [off_consolidation]
  split
  · rfl
  · cases a <;> cases b <;> try rfl
    rename_i p n
    simp only [off_textOf]
    cases f.textOf p <;> cases f.textOf n <;> try rfl
    simp only [off_setValue, off_spliceOut]

theorem off_addConsolidate (f : Forest) (node : Nat) (a b : Option Nat) :
    (f.withOff e).addConsolidate node a b = (((f.addConsolidate node a b).1.withOff e), (f.addConsolidate node a b).2) := by
  unfold addConsolidate
  rw [off_consolidation]
  split
  · rfl
  · simp only [off_textOf, off_prevSibling, off_nextSibling]
    cases f.textOf node with
    | none => rfl
    | some added =>
      simp only
      generalize (if a == some node then f.prevSibling node else a) = a'
      generalize (if b == some node then f.nextSibling node else b) = b'
      cases a' with
      | none =>
        simp only
        cases b' with
        | none => rfl
        | some n =>
          simp only
          cases f.textOf n <;> simp only [off_setValue, off_spliceOut]
      | some p =>
        simp only
        cases f.textOf p with
        | some ps => simp only [off_setValue, off_spliceOut]
        | none =>
          simp only
          cases b' with
          | none => rfl
          | some n =>
            simp only
            cases f.textOf n <;> simp only [off_setValue, off_spliceOut]

theorem off_checkedInsertAfter (f : Forest) (r n : Nat) :
    (f.withOff e).checkedInsertAfter r n = (((f.checkedInsertAfter r n).1.withOff e), (f.checkedInsertAfter r n).2) := by
  unfold checkedInsertAfter
  rw [off_ancestors, off_isRoot, off_cut]
  split
  · rfl
  · split
    · rfl
    · cases h : f.cut n with
      | mk f' o => cases o <;> rfl

theorem off_checkedPrepend (f : Forest) (p c : Nat) :
    (f.withOff e).checkedPrepend p c = (((f.checkedPrepend p c).1.withOff e), (f.checkedPrepend p c).2) := by
  unfold checkedPrepend
  rw [off_ancestors, off_cut]
  split
  · rfl
  · cases h : f.cut c with
    | mk f' o => cases o <;> rfl

end Forest

section
variable (e : Bool)

theorem off_insertAfterTail (X : Forest) (ref c : Nat) :
    insertAfterTail (X.withOff e) ref c = (((insertAfterTail X ref c).1.withOff e), (insertAfterTail X ref c).2) := by
  unfold insertAfterTail
  simp only [Forest.off_nextSibling, Forest.off_addConsolidate]
  generalize X.addConsolidate c (some ref) (X.nextSibling ref) = R2
  obtain ⟨g2, b2⟩ := R2
  cases b2 with
  | true => rfl
  | false =>
    simp only [Bool.false_eq_true, if_false, Forest.off_checkedInsertAfter]
    generalize g2.checkedInsertAfter ref c = R3
    obtain ⟨g3, b3⟩ := R3
    cases b3 <;> rfl

/-- The indextree insertion of `prepend`: after the last attribute / namespace node. -/
def placeFirstNormal (g : Forest) (p c : Nat) : Forest × Bool :=
  match g.prependPoint p with
  | some ip => g.checkedInsertAfter ip c
  | none => g.checkedPrepend p c

theorem prependTail_eq (X : Forest) (p c : Nat) :
    prependTail X p c =
      if (X.addConsolidate c none (X.firstChild p)).2 then ((X.addConsolidate c none (X.firstChild p)).1, .ok) else
      if (placeFirstNormal (X.addConsolidate c none (X.firstChild p)).1 p c).2
      then ((placeFirstNormal (X.addConsolidate c none (X.firstChild p)).1 p c).1, .ok)
      else ((placeFirstNormal (X.addConsolidate c none (X.firstChild p)).1 p c).1, .err .nodeError) := rfl

theorem off_placeFirstNormal (g : Forest) (p c : Nat) :
    placeFirstNormal (g.withOff e) p c = (((placeFirstNormal g p c).1.withOff e), (placeFirstNormal g p c).2) := by
  unfold placeFirstNormal
  rw [Forest.off_prependPoint]
  split
  · exact Forest.off_checkedInsertAfter _ _ _ _
  · exact Forest.off_checkedPrepend _ _ _ _

theorem off_prependTail (X : Forest) (p c : Nat) :
    prependTail (X.withOff e) p c = (((prependTail X p c).1.withOff e), (prependTail X p c).2) := by
  rw [prependTail_eq, prependTail_eq]
  simp only [Forest.off_firstChild, Forest.off_addConsolidate]
  generalize X.addConsolidate c none (X.firstChild p) = R2
  obtain ⟨g2, b2⟩ := R2
  cases b2 with
  | true => rfl
  | false =>
    simp only [Bool.false_eq_true, if_false, off_placeFirstNormal]
    generalize placeFirstNormal g2 p c = R3
    obtain ⟨g3, b3⟩ := R3
    cases b3 <;> rfl

end

namespace Forest
variable (e : Bool)

theorem off_insertAfter (f : Forest) (r c : Nat) :
    (f.withOff e).insertAfter r c = (((f.insertAfter r c).1.withOff e), (f.insertAfter r c).2) := by
  rw [insertAfter_unfold, insertAfter_unfold]
  simp only [off_structureCheck, off_parent?, off_siblingReferenceCheck, off_nextSibling, off_prevSibling,
    off_removeConsolidate, off_insertAfterTail]
  split
  · rfl
  · split
    · rfl
    · split <;> rfl

theorem off_prepend (f : Forest) (p c : Nat) :
    (f.withOff e).prepend p c = (((f.prepend p c).1.withOff e), (f.prepend p c).2) := by
  rw [prepend_unfold, prepend_unfold]
  simp only [off_structureCheck, off_firstChild, off_nextSibling, off_prevSibling,
    off_removeConsolidate, off_prependTail]
  split
  · rfl
  · split <;> rfl

/-! ### The specifications -/

theorem off_mergeLeftAt (f : Forest) (s : Option Nat) (nb : Option Nat × Option Nat) :
    (f.withOff e).mergeLeftAt s nb = ((f.mergeLeftAt s nb).withOff e) := by
  obtain ⟨a, b⟩ := nb
  cases s <;> cases a <;> cases b <;> try rfl
  simp only [mergeLeftAt, off_consolidation, off_editAt]
  split <;> rfl

theorem off_mergeNewAt (f : Forest) (q n : Nat) : (f.withOff e).mergeNewAt q n = ((f.mergeNewAt q n).withOff e) := by
  simp only [mergeNewAt, off_consolidation, off_editAt]
  split <;> rfl

end Forest

theorem Spec.off_specMoveP (e : Bool) (dest : Dest) (c : Nat) (f : Forest) :
    Spec.specMoveP dest c (f.withOff e) = ((Spec.specMoveP dest c f).withOff e) := by
  unfold Spec.specMoveP
  have h1 : dest.occupiedBy (f.withOff e) c = dest.occupiedBy f c := by cases dest <;> rfl
  have h2 : dest.site (f.withOff e) = dest.site f := by cases dest <;> rfl
  rw [h1, h2, Forest.off_get?]
  split
  · rfl
  · cases f.get? c with
    | none => rfl
    | some t =>
      cases dest.site f with
      | none => rfl
      | some q =>
        simp only [Forest.off_parent?, Forest.off_nbOf, Forest.off_editAt, Forest.off_mergeLeftAt,
          Forest.off_mergeNewAt]

end XotModel

namespace XotModel
namespace Forest

/-! ### The ghost flag is carried along unchanged -/

theorem insertAfter_everOff (f : Forest) (r c : Nat) : (f.insertAfter r c).1.everOff = f.everOff := by
  have h := congrArg Prod.fst (off_insertAfter f.everOff f r c)
  rw [withOff_self] at h
  exact (congrArg Forest.everOff h).trans rfl

theorem prepend_everOff (f : Forest) (p c : Nat) : (f.prepend p c).1.everOff = f.everOff := by
  have h := congrArg Prod.fst (off_prepend f.everOff f p c)
  rw [withOff_self] at h
  exact (congrArg Forest.everOff h).trans rfl

theorem dropSubtree_everOff (f : Forest) (a : Nat) : (f.dropSubtree a).everOff = f.everOff := by
  have h := off_dropSubtree f.everOff f a
  rw [withOff_self] at h
  exact (congrArg Forest.everOff h).trans rfl

theorem removeConsolidate_everOff (f : Forest) (a b : Option Nat) :
    (f.removeConsolidate a b).1.everOff = f.everOff := by
  have h := congrArg Prod.fst (off_removeConsolidate f.everOff f a b)
  rw [withOff_self] at h
  exact (congrArg Forest.everOff h).trans rfl

theorem mergeLeftAt_everOff (f : Forest) (s : Option Nat) (nb : Option Nat × Option Nat) :
    (f.mergeLeftAt s nb).everOff = f.everOff := by
  have h := off_mergeLeftAt f.everOff f s nb
  rw [withOff_self] at h
  exact (congrArg Forest.everOff h).trans rfl

theorem mergeNewAt_everOff (f : Forest) (q n : Nat) : (f.mergeNewAt q n).everOff = f.everOff := by
  have h := off_mergeNewAt f.everOff f q n
  rw [withOff_self] at h
  exact (congrArg Forest.everOff h).trans rfl

theorem editAt_everOff (f : Forest) (s : Option Nat) (g : List HTree → List HTree) :
    (f.editAt s g).everOff = f.everOff := by
  cases s <;> rfl

end Forest

theorem Spec.specMoveP_everOff (dest : Dest) (c : Nat) (f : Forest) :
    (Spec.specMoveP dest c f).everOff = f.everOff := by
  have h := Spec.off_specMoveP f.everOff dest c f
  rw [Forest.withOff_self] at h
  exact (congrArg Forest.everOff h).trans rfl

end XotModel
