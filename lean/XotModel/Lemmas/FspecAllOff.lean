/-
  FspecAllOff — the ghost flag `everOff` ("has consolidation ever been switched off?") is read by
  no manipulation function and by no specification: switching it on (`Forest.off`) commutes with
  all of them.  `Forest.Inv` of `f.off` needs non-strict validity only, so a statement proved for
  every forest with `Forest.Inv` can be used for an INTERMEDIATE forest of a composite call
  (`replace` after `remove_subtree`: the two neighbours of the removed node may be adjacent text
  nodes although consolidation was never switched off).
-/
import XotModel.Lemmas.FspecInsertAfter
import XotModel.Lemmas.FspecPrepend
import XotModel.Model.FspecSpec4

namespace XotModel

/-- The same store with the ghost flag set. -/
def Forest.off (f : Forest) : Forest := { f with everOff := true }

namespace Forest

theorem off_get? (f : Forest) (h : Nat) : f.off.get? h = f.get? h := rfl
theorem off_ctx? (f : Forest) (h : Nat) : f.off.ctx? h = f.ctx? h := rfl
theorem off_parent? (f : Forest) (h : Nat) : f.off.parent? h = f.parent? h := rfl
theorem off_roots (f : Forest) : f.off.roots = f.roots := rfl
theorem off_consolidation (f : Forest) : f.off.consolidation = f.consolidation := rfl
theorem off_everOff (f : Forest) : f.off.everOff = true := rfl
theorem off_isRoot (f : Forest) (h : Nat) : f.off.isRoot h = f.isRoot h := rfl
theorem off_textOf (f : Forest) (h : Nat) : f.off.textOf h = f.textOf h := rfl
theorem off_prevSibling (f : Forest) (h : Nat) : f.off.prevSibling h = f.prevSibling h := rfl
theorem off_nextSibling (f : Forest) (h : Nat) : f.off.nextSibling h = f.nextSibling h := rfl
theorem off_firstChild (f : Forest) (h : Nat) : f.off.firstChild h = f.firstChild h := rfl
theorem off_lastChild (f : Forest) (h : Nat) : f.off.lastChild h = f.lastChild h := rfl
theorem off_ancestors (f : Forest) (h : Nat) : f.off.ancestors h = f.ancestors h := rfl
theorem off_structureCheck (f : Forest) (p : Option Nat) (c : Nat) :
    f.off.structureCheck p c = f.structureCheck p c := rfl
theorem off_siblingReferenceCheck (f : Forest) (r c : Nat) :
    f.off.siblingReferenceCheck r c = f.siblingReferenceCheck r c := rfl
theorem off_prependPoint (f : Forest) (p : Nat) : f.off.prependPoint p = f.prependPoint p := rfl
theorem off_setValue (f : Forest) (h : Nat) (v : Value) : f.off.setValue h v = (f.setValue h v).off := rfl
theorem off_placeAfter (f : Forest) (r : Nat) (t : HTree) : f.off.placeAfter r t = (f.placeAfter r t).off := rfl
theorem off_placeFirst (f : Forest) (p : Nat) (t : HTree) : f.off.placeFirst p t = (f.placeFirst p t).off := rfl
theorem off_editAt (f : Forest) (s : Option Nat) (g : List HTree → List HTree) :
    f.off.editAt s g = (f.editAt s g).off := by
  cases s <;> rfl
theorem off_kidsOf (f : Forest) (p : Nat) : f.off.kidsOf p = f.kidsOf p := rfl
theorem off_nbOf (f : Forest) (n : Nat) : f.off.nbOf n = f.nbOf n := rfl

theorem off_off (f : Forest) : f.off.off = f.off := rfl

/-- Two stores that agree up to the ghost flag and on the ghost flag are equal. -/
theorem off_inj {X Y : Forest} (h : X.off = Y.off) (he : X.everOff = Y.everOff) : X = Y := by
  cases X; cases Y
  simp only [off, Forest.mk.injEq] at h
  simp only at he
  simp [h, he]

/-- The invariant survives setting the ghost flag. -/
theorem off_inv {f : Forest} (inv : f.Inv) : f.off.Inv := by
  refine ⟨inv.notCorrupt, inv.nodup, inv.below, ?_, Or.inr rfl⟩
  show validList (!true) f.roots = true
  have := inv.valid
  cases h : f.everOff with
  | true => rw [h] at this; exact this
  | false => rw [h] at this; exact validList_weaken _ this

theorem off_spliceOut (f : Forest) (h : Nat) : f.off.spliceOut h = (f.spliceOut h).off := by
  unfold spliceOut
  rw [off_get?]
  cases f.get? h with
  | none => rfl
  | some t =>
    simp only
    rw [off_isRoot]
    split
    · split <;> rfl
    · rfl

theorem off_cut (f : Forest) (h : Nat) : f.off.cut h = ((f.cut h).1.off, (f.cut h).2) := by
  unfold cut
  rw [off_get?]
  cases f.get? h with
  | none => rfl
  | some t =>
    simp only
    rw [off_isRoot]
    split <;> rfl

theorem off_dropSubtree (f : Forest) (h : Nat) : f.off.dropSubtree h = (f.dropSubtree h).off := by
  unfold dropSubtree
  rw [off_cut]

theorem off_removeConsolidate (f : Forest) (a b : Option Nat) :
    f.off.removeConsolidate a b = ((f.removeConsolidate a b).1.off, (f.removeConsolidate a b).2) := by
  unfold removeConsolidate
  rw [off_consolidation]
  split
  · rfl
  · cases a <;> cases b <;> try rfl
    rename_i p n
    simp only [off_textOf]
    cases f.textOf p <;> cases f.textOf n <;> try rfl
    simp only [off_setValue, off_spliceOut]

theorem off_addConsolidate (f : Forest) (node : Nat) (a b : Option Nat) :
    f.off.addConsolidate node a b = ((f.addConsolidate node a b).1.off, (f.addConsolidate node a b).2) := by
  unfold addConsolidate
  rw [off_consolidation]
  split
  · rfl
  · simp only [off_textOf, off_prevSibling, off_nextSibling]
    cases f.textOf node with
    | none => rfl
    | some added =>
      simp only
      generalize (if a == some node then f.prevSibling node else a) = a'
      generalize (if b == some node then f.nextSibling node else b) = b'
      cases a' with
      | none =>
        simp only
        cases b' with
        | none => rfl
        | some n =>
          simp only
          cases f.textOf n <;> simp only [off_setValue, off_spliceOut]
      | some p =>
        simp only
        cases f.textOf p with
        | some ps => simp only [off_setValue, off_spliceOut]
        | none =>
          simp only
          cases b' with
          | none => rfl
          | some n =>
            simp only
            cases f.textOf n <;> simp only [off_setValue, off_spliceOut]

theorem off_checkedInsertAfter (f : Forest) (r n : Nat) :
    f.off.checkedInsertAfter r n = ((f.checkedInsertAfter r n).1.off, (f.checkedInsertAfter r n).2) := by
  unfold checkedInsertAfter
  rw [off_ancestors, off_isRoot, off_cut]
  split
  · rfl
  · split
    · rfl
    · cases h : f.cut n with
      | mk f' o => cases o <;> rfl

theorem off_checkedPrepend (f : Forest) (p c : Nat) :
    f.off.checkedPrepend p c = ((f.checkedPrepend p c).1.off, (f.checkedPrepend p c).2) := by
  unfold checkedPrepend
  rw [off_ancestors, off_cut]
  split
  · rfl
  · cases h : f.cut c with
    | mk f' o => cases o <;> rfl

end Forest

theorem off_insertAfterTail (X : Forest) (ref c : Nat) :
    insertAfterTail X.off ref c = ((insertAfterTail X ref c).1.off, (insertAfterTail X ref c).2) := by
  unfold insertAfterTail
  simp only [Forest.off_nextSibling, Forest.off_addConsolidate]
  generalize X.addConsolidate c (some ref) (X.nextSibling ref) = R2
  obtain ⟨g2, b2⟩ := R2
  cases b2 with
  | true => rfl
  | false =>
    simp only [Bool.false_eq_true, if_false, Forest.off_checkedInsertAfter]
    generalize g2.checkedInsertAfter ref c = R3
    obtain ⟨g3, b3⟩ := R3
    cases b3 <;> rfl

/-- The indextree insertion of `prepend`: after the last attribute / namespace node. -/
def placeFirstNormal (g : Forest) (p c : Nat) : Forest × Bool :=
  match g.prependPoint p with
  | some ip => g.checkedInsertAfter ip c
  | none => g.checkedPrepend p c

theorem prependTail_eq (X : Forest) (p c : Nat) :
    prependTail X p c =
      if (X.addConsolidate c none (X.firstChild p)).2 then ((X.addConsolidate c none (X.firstChild p)).1, .ok) else
      if (placeFirstNormal (X.addConsolidate c none (X.firstChild p)).1 p c).2
      then ((placeFirstNormal (X.addConsolidate c none (X.firstChild p)).1 p c).1, .ok)
      else ((placeFirstNormal (X.addConsolidate c none (X.firstChild p)).1 p c).1, .err .nodeError) := rfl

theorem off_placeFirstNormal (g : Forest) (p c : Nat) :
    placeFirstNormal g.off p c = ((placeFirstNormal g p c).1.off, (placeFirstNormal g p c).2) := by
  unfold placeFirstNormal
  rw [Forest.off_prependPoint]
  split
  · exact Forest.off_checkedInsertAfter _ _ _
  · exact Forest.off_checkedPrepend _ _ _

theorem off_prependTail (X : Forest) (p c : Nat) :
    prependTail X.off p c = ((prependTail X p c).1.off, (prependTail X p c).2) := by
  rw [prependTail_eq, prependTail_eq]
  simp only [Forest.off_firstChild, Forest.off_addConsolidate]
  generalize X.addConsolidate c none (X.firstChild p) = R2
  obtain ⟨g2, b2⟩ := R2
  cases b2 with
  | true => rfl
  | false =>
    simp only [Bool.false_eq_true, if_false, off_placeFirstNormal]
    generalize placeFirstNormal g2 p c = R3
    obtain ⟨g3, b3⟩ := R3
    cases b3 <;> rfl

namespace Forest

theorem off_insertAfter (f : Forest) (r c : Nat) :
    f.off.insertAfter r c = ((f.insertAfter r c).1.off, (f.insertAfter r c).2) := by
  rw [insertAfter_unfold, insertAfter_unfold]
  simp only [off_structureCheck, off_parent?, off_siblingReferenceCheck, off_nextSibling, off_prevSibling,
    off_removeConsolidate, off_insertAfterTail]
  split
  · rfl
  · split
    · rfl
    · split <;> rfl

theorem off_prepend (f : Forest) (p c : Nat) :
    f.off.prepend p c = ((f.prepend p c).1.off, (f.prepend p c).2) := by
  rw [prepend_unfold, prepend_unfold]
  simp only [off_structureCheck, off_firstChild, off_nextSibling, off_prevSibling,
    off_removeConsolidate, off_prependTail]
  split
  · rfl
  · split <;> rfl

/-! ### The specifications -/

theorem off_mergeLeftAt (f : Forest) (s : Option Nat) (nb : Option Nat × Option Nat) :
    f.off.mergeLeftAt s nb = (f.mergeLeftAt s nb).off := by
  obtain ⟨a, b⟩ := nb
  cases s <;> cases a <;> cases b <;> try rfl
  simp only [mergeLeftAt, off_consolidation, off_editAt]
  split <;> rfl

theorem off_mergeNewAt (f : Forest) (q n : Nat) : f.off.mergeNewAt q n = (f.mergeNewAt q n).off := by
  simp only [mergeNewAt, off_consolidation, off_editAt]
  split <;> rfl

end Forest

theorem Spec.off_specMoveP (dest : Dest) (c : Nat) (f : Forest) :
    Spec.specMoveP dest c f.off = (Spec.specMoveP dest c f).off := by
  unfold Spec.specMoveP
  have h1 : dest.occupiedBy f.off c = dest.occupiedBy f c := by cases dest <;> rfl
  have h2 : dest.site f.off = dest.site f := by cases dest <;> rfl
  rw [h1, h2, Forest.off_get?]
  split
  · rfl
  · cases f.get? c with
    | none => rfl
    | some t =>
      cases dest.site f with
      | none => rfl
      | some q =>
        simp only [Forest.off_parent?, Forest.off_nbOf, Forest.off_editAt, Forest.off_mergeLeftAt,
          Forest.off_mergeNewAt]

end XotModel
