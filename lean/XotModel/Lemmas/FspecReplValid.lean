/-
  FspecReplValid — C05 for `replace`, the two side conditions of its middle branch
  (`remove_subtree(a)`; `insert_after(previous, b)`; one more `remove_consolidate_text_nodes`):

  * V1 `drop_inv_normal`: the raw removal of a child (no text merging) keeps `Forest.Inv` and
    `Forest.Normal`, provided the two neighbours the child separated are not both text;
  * V2 `insertAfter_merge_noop`: after a successful `insert_after` on a forest satisfying `Inv` and
    `Normal`, the reference node and its next sibling are not both text, so the final
    consolidation does nothing.

  V2 goes through the specification (`insertAfter_spec`): the result of a move has distinct
  handles and — consolidation on — no node with two adjacent text children (`cleanT` / `cleanL`,
  `specMove_nodup_clean`); the same facts are exported for `prepend`.
-/
import XotModel.Lemmas.FmapInv
import XotModel.Lemmas.FspecMapUpd
import XotModel.Lemmas.FspecRepl2

namespace XotModel
open HTree Spec

/-! ### V1: validity after the raw removal of one child -/

theorem sublist_drop_mid (l : List HTree) (A : HTree) (r : List HTree) : (l ++ r).Sublist (l ++ A :: r) :=
  (List.Sublist.refl l).append (List.sublist_cons_self A r)

theorem keysUnique_sublist {c : Category} {ks ks' : List HTree} (hs : ks'.Sublist ks)
    (h : keysUnique c ks = true) : keysUnique c ks' = true := by
  simp only [keysUnique, decide_eq_true_eq] at h ⊢
  exact ((hs.filter _).map _).nodup h

theorem kidsOrdered_sublist {ks ks' : List HTree} (hs : ks'.Sublist ks)
    (h : kidsOrdered ks = true) : kidsOrdered ks' = true :=
  (Fmap.kidsOrdered_iff ks').2 (((Fmap.kidsOrdered_iff ks).1 h).sublist hs)

/-- Validity of a node survives the removal of one child, provided the two neighbours it
    separated are not both text (when `strict`). -/
theorem validTree_drop_mid {b : Bool} {q : Nat} {vq : Value} {l : List HTree} {A : HTree} {r : List HTree}
    (hv : validTree b (.node q vq (l ++ A :: r)) = true)
    (hng : b = true → ∀ x y, l.getLast? = some x → r.head? = some y →
      ¬ (x.value.isText = true ∧ y.value.isText = true)) :
    validTree b (.node q vq (l ++ r)) = true := by
  have hs := sublist_drop_mid l A r
  simp only [validTree, Bool.and_eq_true, Bool.or_eq_true, Bool.not_eq_true'] at hv ⊢
  obtain ⟨⟨⟨⟨⟨h1, h2⟩, h3⟩, h4⟩, h5⟩, h6⟩ := hv
  refine ⟨⟨⟨⟨⟨?_, kidsOrdered_sublist hs h2⟩, keysUnique_sublist hs h3⟩, keysUnique_sublist hs h4⟩, ?_⟩, ?_⟩
  · rw [List.all_eq_true] at h1 ⊢
    exact fun k hk => h1 k (hs.subset hk)
  · cases b with
    | false => exact Or.inl rfl
    | true =>
      right
      cases h5 with
      | inl h => cases h
      | inr h =>
        obtain ⟨a1, a2, _⟩ := noAdj_append.1 h
        exact noAdj_append.2 ⟨a1, noAdj_tail a2, hng rfl⟩
  · rw [Fmap.validList_append] at h6 ⊢
    rw [fs_validList_cons] at h6
    simp only [Bool.and_eq_true] at h6 ⊢
    exact ⟨h6.1, h6.2.2⟩

/-- Replacing the child list of a site by a list valid under that node keeps the forest valid. -/
theorem SiteAt.valid_edit {f : Forest} {q : Nat} {vq : Value} {L : List HTree} (s : SiteAt f q vq L)
    (g : List HTree → List HTree) {b : Bool} (hv : validList b f.roots = true)
    (hnew : validTree b (.node q vq (g L)) = true) :
    validList b (f.editAt (some q) g).roots = true := by
  rw [s.editAt_eq_withKids]
  exact Fmap.validList_withKids b q vq L (g L) hnew f.roots s.nd s.kids hv

theorem drop_inv_normal {f : Forest} {q : Nat} {vq : Value} {l : List HTree} {A : HTree} {r : List HTree}
    (inv : f.Inv) (norm : f.Normal) (s : SiteAt f q vq (l ++ A :: r))
    (hng : f.consolidation = true → ∀ x y, l.getLast? = some x → r.head? = some y →
      ¬ (x.value.isText = true ∧ y.value.isText = true)) :
    (f.editAt (some q) (dropTop A.handle)).Inv ∧ (f.editAt (some q) (dropTop A.handle)).Normal := by
  obtain ⟨ndL, _⟩ := s.nodupKids
  obtain ⟨tl, tr⟩ := tops_ne_of_nodup ndL
  have hdrop : dropTop A.handle (l ++ A :: r) = l ++ r := dropTop_mid rfl tl tr
  have hsub : (f.editAt (some q) (dropTop A.handle)).allHandles.Sublist f.allHandles :=
    handlesList_editAt_sublist (fun L => handlesList_dropTop_sublist _ L) f.roots
  have hnew : ∀ b : Bool, validList b f.roots = true → (b = true → f.consolidation = true) →
      validList b (f.editAt (some q) (dropTop A.handle)).roots = true := by
    intro b hv hb
    apply s.valid_edit _ hv
    rw [hdrop]
    exact validTree_drop_mid (s.valid hv) (fun e => hng (hb e))
  refine ⟨⟨inv.notCorrupt, hsub.nodup inv.nodup, fun h hh => inv.below h (hsub.subset hh), ?_, inv.consOn⟩, ?_⟩
  · apply hnew _ inv.valid
    intro hb
    cases inv.consOn with
    | inl h => exact h
    | inr h =>
      have : f.everOff = false := by simpa using hb
      rw [this] at h; cases h
  · intro hc
    rw [Forest.editAt_consolidation] at hc
    exact hnew true (norm hc) (fun _ => hc)


/-! ### V2: no adjacent text nodes anywhere after a move -/

mutual
  /-- No node of the subtree has two adjacent text children. -/
  def cleanT : HTree → Bool
    | .node _ _ ks => noAdjacentText ks && cleanL ks
  def cleanL : List HTree → Bool
    | [] => true
    | k :: ks => cleanT k && cleanL ks
end

theorem cleanT_node (h : Nat) (v : Value) (ks : List HTree) :
    cleanT (.node h v ks) = (noAdjacentText ks && cleanL ks) := by simp [cleanT]

theorem cleanL_nil : cleanL [] = true := by simp [cleanL]

theorem cleanL_cons (k : HTree) (ks : List HTree) : cleanL (k :: ks) = (cleanT k && cleanL ks) := by
  simp [cleanL]

theorem cleanL_iff {L : List HTree} : cleanL L = true ↔ ∀ k ∈ L, cleanT k = true := by
  induction L with
  | nil => simp [cleanL_nil]
  | cons k ks ih => rw [cleanL_cons, Bool.and_eq_true, ih]; simp

mutual
  theorem cleanT_of_valid : ∀ t : HTree, validTree true t = true → cleanT t = true
    | .node h v ks => by
      intro hv
      obtain ⟨_, _, h3, h4⟩ := validTree_node hv
      rw [cleanT_node, Bool.and_eq_true]
      exact ⟨h3 rfl, cleanL_of_valid ks h4⟩
  theorem cleanL_of_valid : ∀ ks : List HTree, validList true ks = true → cleanL ks = true
    | [] => fun _ => cleanL_nil
    | k :: ks => by
      intro hv
      rw [fs_validList_cons, Bool.and_eq_true] at hv
      rw [cleanL_cons, Bool.and_eq_true]
      exact ⟨cleanT_of_valid k hv.1, cleanL_of_valid ks hv.2⟩
end

theorem cleanT_setValue (v : Value) (t : HTree) : cleanT (t.setValue v) = cleanT t := by
  cases t; simp only [HTree.setValue, cleanT_node]

mutual
  theorem cleanT_find {x : Nat} : ∀ (t u : HTree), cleanT t = true → find? x t = some u → cleanT u = true
    | .node h v ks, u => by
      intro hc e
      rw [find?_node] at e
      by_cases hh : h = x
      · rw [if_pos hh] at e
        cases e
        exact hc
      · rw [if_neg hh] at e
        rw [cleanT_node, Bool.and_eq_true] at hc
        exact cleanL_find ks u hc.2 e
  theorem cleanL_find {x : Nat} : ∀ (ks : List HTree) (u : HTree), cleanL ks = true → findList? x ks = some u →
      cleanT u = true
    | [], u => by intro _ e; rw [findList?_nil] at e; cases e
    | k :: ks, u => by
      intro hc e
      rw [cleanL_cons, Bool.and_eq_true] at hc
      cases hk : find? x k with
      | some t =>
        rw [findList?_cons_some hk] at e
        cases e
        exact cleanT_find k _ hc.1 hk
      | none =>
        rw [findList?_cons_none hk] at e
        exact cleanL_find ks u hc.2 e
end

/-! ### The specification's list functions keep the children clean -/

theorem cleanL_dropTop (n : Nat) {L : List HTree} (h : cleanL L = true) : cleanL (dropTop n L) = true := by
  rw [cleanL_iff] at h ⊢
  intro k hk
  rw [dropTop_eq_filter] at hk
  exact h k (List.mem_filter.1 hk).1

theorem cleanL_insert (dest : Dest) {t : HTree} {L : List HTree} (ht : cleanT t = true) (h : cleanL L = true) :
    cleanL (dest.insert t L) = true := by
  rw [cleanL_iff] at h ⊢
  intro k hk
  cases mem_insert hk with
  | inl e => rw [e]; exact ht
  | inr e => exact h k e

theorem cleanT_join (keep : Keep) {a b : HTree} (x y : Str) (ha : cleanT a = true) (hb : cleanT b = true) :
    cleanT (join keep a b x y) = true := by
  unfold join
  split <;> rw [cleanT_setValue] <;> assumption

theorem cleanL_mergeInto (keep : Keep) : ∀ (rest : List HTree) (cur : HTree), cleanT cur = true →
    cleanL rest = true → cleanL (Spec.mergeInto keep cur rest) = true
  | [], cur => by
    intro hc _
    rw [mergeInto_nil, cleanL_cons, hc, cleanL_nil]; rfl
  | b :: rest, cur => by
    intro hc hr
    rw [cleanL_cons, Bool.and_eq_true] at hr
    by_cases h : cur.value.isText = true ∧ b.value.isText = true
    · obtain ⟨x, hx⟩ := isText_iff_textData.1 h.1
      obtain ⟨y, hy⟩ := isText_iff_textData.1 h.2
      rw [mergeInto_cons_text (textData_some hx) (textData_some hy)]
      exact cleanL_mergeInto keep rest _ (cleanT_join keep x y hc hr.1) hr.2
    · rw [mergeInto_cons_other h, cleanL_cons, hc, cleanL_mergeInto keep rest b hr.1 hr.2]; rfl

theorem cleanL_mergeRuns (keep : Keep) {L : List HTree} (h : cleanL L = true) : cleanL (mergeRuns keep L) = true := by
  cases L with
  | nil => exact h
  | cons a rest =>
    rw [cleanL_cons, Bool.and_eq_true] at h
    exact cleanL_mergeInto keep rest a h.1 h.2

/-! ### One edit whose result has no adjacent text keeps the tree clean -/

mutual
  theorem cleanT_editAt {s : Nat} {G : List HTree → List HTree}
      (hG : ∀ L, cleanL L = true → cleanL (G L) = true ∧ noAdjacentText (G L) = true) :
      ∀ t : HTree, cleanT t = true → cleanT (HTree.editAt s G t) = true
    | .node h v ks => by
      intro hc
      rw [cleanT_node, Bool.and_eq_true] at hc
      rw [editAt_node]
      by_cases hh : h = s
      · rw [if_pos hh, cleanT_node, Bool.and_eq_true]
        exact ⟨(hG ks hc.2).2, (hG ks hc.2).1⟩
      · rw [if_neg hh, cleanT_node, Bool.and_eq_true, noAdj_map (kidMap_editAt s G)]
        exact ⟨hc.1, cleanL_editAt hG ks hc.2⟩
  theorem cleanL_editAt {s : Nat} {G : List HTree → List HTree}
      (hG : ∀ L, cleanL L = true → cleanL (G L) = true ∧ noAdjacentText (G L) = true) :
      ∀ ks : List HTree, cleanL ks = true → cleanL (ks.map (HTree.editAt s G)) = true
    | [] => fun h => h
    | k :: ks => by
      intro hc
      rw [cleanL_cons, Bool.and_eq_true] at hc
      rw [List.map_cons, cleanL_cons, cleanT_editAt hG k hc.1, cleanL_editAt hG ks hc.2]; rfl
end


/-! ### Forests -/

theorem Forest.clean_of_normal {f : Forest} (norm : f.Normal) (hc : f.consolidation = true) :
    cleanL f.roots = true := cleanL_of_valid f.roots (norm hc)

theorem Forest.clean_editAt {f : Forest} {p : Nat} {G : List HTree → List HTree}
    (hG : ∀ L, cleanL L = true → cleanL (G L) = true ∧ noAdjacentText (G L) = true)
    (h : cleanL f.roots = true) : cleanL (f.editAt (some p) G).roots = true :=
  cleanL_editAt hG f.roots h

/-- Every live node of a clean forest has no two adjacent text children. -/
theorem Forest.noAdj_of_clean {f : Forest} (h : cleanL f.roots = true) {x : Nat} {v : Value} {L : List HTree}
    (e : f.get? x = some (.node x v L)) : noAdjacentText L = true := by
  have := cleanL_find f.roots _ h e
  rw [cleanT_node, Bool.and_eq_true] at this
  exact this.1

/-- The second half of a move keeps handles distinct. -/
theorem insert_step_nodup {Y : Forest} {keep : Keep} {dest : Dest} {t : HTree} {q : Nat} {vq : Value}
    {LY : List HTree} (sY : SiteAt Y q vq LY)
    (hcount : ∀ z, Y.allHandles.count z + (handles t).count z ≤ 1) :
    ((Y.editAt (some q) (dest.insert t)).mergeAt keep (some q)).allHandles.Nodup := by
  rw [mergeAt_eq_mergeOpt, Forest.editAt_consolidation, Forest.editAt_editAt]
  apply sY.nodup_of_count
  intro z
  simp only [Function.comp]
  have h1 := (mergeOpt_sublist Y.consolidation keep (dest.insert t LY)).count_le z
  have h2 := count_insert_le z dest t LY
  have h3 := hcount z
  omega

/-- The second half of a move (after an optional list edit `D` at the same site that keeps the
    children clean) yields a clean forest. -/
theorem insert_step_clean {Z : Forest} {keep : Keep} {dest : Dest} {t : HTree} {q : Nat}
    (D : List HTree → List HTree) (hD : ∀ L, cleanL L = true → cleanL (D L) = true)
    (hc : Z.consolidation = true) (hZ : cleanL Z.roots = true) (ht : cleanT t = true) :
    cleanL (((Z.editAt (some q) D).editAt (some q) (dest.insert t)).mergeAt keep (some q)).roots = true := by
  rw [mergeAt_on (by rw [Forest.editAt_consolidation, Forest.editAt_consolidation]; exact hc),
    Forest.editAt_editAt, Forest.editAt_editAt]
  apply Forest.clean_editAt _ hZ
  intro L hL
  simp only [Function.comp]
  exact ⟨cleanL_mergeRuns keep (cleanL_insert dest ht (hD L hL)), noAdj_mergeRuns keep _⟩

/-- **The result of a move has distinct handles and (consolidation on) no adjacent text anywhere.** -/
theorem specMove_nodup_clean {f : Forest} {keep : Keep} {dest : Dest} {c : Nat} {t : HTree} {q : Nat} {vq : Value}
    {Lq : List HTree} (inv : f.Inv) (norm : f.Normal) (hkeep : ∀ a b, a ≠ c → keep a b = true)
    (hgc : f.get? c = some t) (sq : SiteAt f q vq Lq) (hqt : q ∉ handles t) (hvq : vq.isText = false)
    (hsite : dest.site f = some q) :
    (specMove keep dest c f).allHandles.Nodup ∧
    (f.consolidation = true → cleanL (specMove keep dest c f).roots = true) := by
  have nd := inv.nodup
  cases hocc : dest.occupiedBy f c with
  | true =>
    have : specMove keep dest c f = f := by unfold specMove; rw [hocc]; rfl
    rw [this]
    exact ⟨nd, Forest.clean_of_normal norm⟩
  | false =>
  have htc : t.handle = c := (findList?_some f.roots t hgc).1
  have hclt : f.consolidation = true → cleanT t = true :=
    fun hc => cleanL_find f.roots t (Forest.clean_of_normal norm hc) hgc
  cases hpar : f.parent? c with
  | none =>
    have hno : f.ctx? c = none := by
      cases h : f.ctx? c with
      | none => rfl
      | some cc => rw [Forest.parent?_of_ctx h] at hpar; cases hpar
    have F := far_root (keep := keep) hgc hno sq hqt
    rw [F.spec dest hocc hsite (fun ψ hk hψ => natFor_insert hk hψ dest)]
    have sY : SiteAt (f.editAt none (dropTop c)) q vq Lq := sq.dropRoot hgc hqt
    refine ⟨insert_step_nodup sY (fun z => ?_), fun hc => ?_⟩
    · have h1 := count_specRemove (keep := keep) nd hgc z
      rw [specRemove_root hpar] at h1
      have := (List.nodup_iff_count.1 nd) z
      omega
    · have := insert_step_clean (Z := f.editAt none (dropTop c)) (keep := keep) (dest := dest) (q := q) id
        (fun _ h => h) hc (cleanL_dropTop c (Forest.clean_of_normal norm hc)) (hclt hc)
      rw [Forest.editAt_id] at this
      exact this
  | some po =>
    cases hctx : f.ctx? c with
    | none => rw [Forest.parent?_of_no_ctx hctx] at hpar; cases hpar
    | some cc =>
      obtain ⟨e0, vo, so⟩ := SiteAt.of_ctx nd hctx
      have hself : cc.self = t := by
        have := Forest.get?_of_ctx nd hctx
        rw [hgc] at this
        exact (Option.some.inj this).symm
      obtain ⟨po', l, k, r⟩ := cc
      simp only at e0 so hself
      subst hself
      subst e0
      have hpo' : po' = po := by
        rw [Forest.parent?_of_ctx hctx] at hpar
        exact Option.some.inj hpar
      subst hpo'
      obtain ⟨ndL, _⟩ := so.nodupKids
      obtain ⟨tl, tr⟩ := tops_ne_of_nodup ndL
      have hdrop : dropTop k.handle (l ++ k :: r) = l ++ r := dropTop_mid rfl tl tr
      by_cases hpq : po' = q
      · subst hpq
        have F := far_same (keep := keep) so
        rw [F.spec dest hocc hsite (fun ψ hk hψ => natFor_insert hk hψ dest)]
        have sY : SiteAt (f.editAt (some po') (dropTop k.handle)) po' vo (l ++ r) := by
          have := F.ysite; rw [List.map_id] at this; exact this
        refine ⟨insert_step_nodup sY (fun z => ?_), fun hc => ?_⟩
        · have h1 := so.count (dropTop k.handle) z
          rw [hdrop] at h1
          have h2 := count_handles_mid z l k r
          have := (List.nodup_iff_count.1 nd) z
          omega
        · exact insert_step_clean (dropTop k.handle) (fun _ h => cleanL_dropTop _ h) hc
            (Forest.clean_of_normal norm hc) (hclt hc)
      · obtain ⟨⟨φ, F⟩, _⟩ := far_kid (keep := keep) inv norm hkeep so sq hpq hqt hvq
        rw [F.spec dest hocc hsite (fun ψ hk hψ => natFor_insert hk hψ dest)]
        have hY : (f.editAt (some po') (dropTop k.handle)).mergeAt keep (some po') = specRemove keep k.handle f := by
          unfold specRemove; rw [hpar]
        refine ⟨insert_step_nodup F.ysite (fun z => ?_), fun hc => ?_⟩
        · rw [hY]
          have := count_specRemove (keep := keep) nd hgc z
          have := (List.nodup_iff_count.1 nd) z
          omega
        · have hYc : cleanL ((f.editAt (some po') (dropTop k.handle)).mergeAt keep (some po')).roots = true := by
            rw [mergeAt_on (by rw [Forest.editAt_consolidation]; exact hc), Forest.editAt_editAt]
            apply Forest.clean_editAt _ (Forest.clean_of_normal norm hc)
            intro L hL
            simp only [Function.comp]
            exact ⟨cleanL_mergeRuns keep (cleanL_dropTop _ hL), noAdj_mergeRuns keep _⟩
          have := insert_step_clean (keep := keep) (dest := dest) (q := q) id (fun _ h => h)
            (by rw [F.ycons]; exact hc) hYc (hclt hc)
          rw [Forest.editAt_id] at this
          exact this


/-! ### `insert_after` -/

theorem insertAfter_nodup_clean {g : Forest} {p b : Nat} (inv : g.Inv) (norm : g.Normal)
    (hok : (g.insertAfter p b).2 = .ok) :
    (g.insertAfter p b).1.allHandles.Nodup ∧
    (g.consolidation = true → cleanL (g.insertAfter p b).1.roots = true) := by
  rw [insertAfter_spec inv norm hok]
  have nd := inv.nodup
  have hsc : g.structureCheck (g.parent? p) b = true := by
    cases h : g.structureCheck (g.parent? p) b with
    | true => rfl
    | false => rw [insertAfter_unfold] at hok; simp [h] at hok
  have hsr : g.siblingReferenceCheck p b = true := by
    cases h : g.siblingReferenceCheck p b with
    | true => rfl
    | false => rw [insertAfter_unfold] at hok; simp [hsc, h] at hok
  obtain ⟨q, vq, A, kr, B, t, sq, ekr, hkrn, hrc, hgc, hqt, hnorm, hndoc, hvq⟩ := sibling_checks_unpack nd hsc hsr
  subst ekr
  exact specMove_nodup_clean inv norm (Keep.resident_spec b) hgc sq hqt hvq
    (by simp only [Dest.site]; exact Forest.parent?_of_ctx sq.ctx)

theorem insertAfter_nodup {g : Forest} {p b : Nat} (inv : g.Inv) (norm : g.Normal)
    (hok : (g.insertAfter p b).2 = .ok) : (g.insertAfter p b).1.allHandles.Nodup :=
  (insertAfter_nodup_clean inv norm hok).1

theorem Forest.mergeAt_consolidation (f : Forest) (keep : Keep) (s : Option Nat) :
    (f.mergeAt keep s).consolidation = f.consolidation := by
  cases s with
  | none => rfl
  | some p =>
    rw [mergeAt_some]
    split
    · exact Forest.editAt_consolidation _ _ _
    · rfl

theorem specMove_consolidation (keep : Keep) (dest : Dest) (c : Nat) (f : Forest) :
    (specMove keep dest c f).consolidation = f.consolidation := by
  unfold specMove
  split
  · rfl
  · split
    · simp only [Forest.mergeAt_consolidation, Forest.editAt_consolidation]
    · rfl

theorem insertAfter_consolidation {g : Forest} {p b : Nat} (inv : g.Inv) (norm : g.Normal)
    (hok : (g.insertAfter p b).2 = .ok) : (g.insertAfter p b).1.consolidation = g.consolidation := by
  rw [insertAfter_spec inv norm hok]
  exact specMove_consolidation _ _ _ _

/-- In a forest with distinct handles and (consolidation on) no adjacent text nodes anywhere, the
    consolidation of a node with its next sibling does nothing. -/
theorem removeConsolidate_next_noop {h : Forest} (nd : h.allHandles.Nodup)
    (hcl : h.consolidation = true → cleanL h.roots = true) (p : Nat) :
    h.removeConsolidate (some p) (h.nextSibling p) = (h, false) := by
  rcases Bool.eq_false_or_eq_true h.consolidation with hc | hc
  case inr => exact Forest.removeConsolidate_off hc _ _
  cases hctx : h.ctx? p with
  | none => rw [Forest.nextSibling_of_no_ctx hctx]; exact Forest.removeConsolidate_none_right _ _
  | some c =>
    rw [Forest.nextSibling_of_ctx hctx]
    obtain ⟨e0, v, s⟩ := SiteAt.of_ctx nd hctx
    have hgp : h.get? p = some c.self := Forest.get?_of_ctx nd hctx
    cases hr : c.right.head? with
    | none =>
      simp only [nextOf, hr]
      exact Forest.removeConsolidate_none_right _ _
    | some n' =>
      obtain ⟨r', er⟩ := List.head?_eq_some_iff.1 hr
      simp only [nextOf, hr]
      split
      case isFalse => exact Forest.removeConsolidate_none_right _ _
      case isTrue =>
      rw [er] at s
      have hno := Forest.noAdj_of_clean (hcl hc) s.kids
      have h2 := (noAdj_append.1 hno).2.1
      rw [noAdj_cons_cons, Bool.and_eq_true] at h2
      have s' : SiteAt h c.parent v ((c.left ++ [c.self]) ++ n' :: r') := by
        have : (c.left ++ [c.self]) ++ n' :: r' = c.left ++ c.self :: n' :: r' := by simp
        rw [this]; exact s
      cases hx : textData c.self with
      | none =>
        apply Forest.removeConsolidate_not_text_left
        rw [Forest.textOf_of_get hgp]; exact hx
      | some x =>
        cases hy : textData n' with
        | none =>
          apply Forest.removeConsolidate_not_text_right
          rw [Forest.textOf_of_get s'.getKid]; exact hy
        | some y =>
          have t1 : c.self.value.isText = true := isText_iff_textData.2 ⟨x, hx⟩
          have t2 : n'.value.isText = true := isText_iff_textData.2 ⟨y, hy⟩
          have := h2.1
          rw [t1, t2] at this
          cases this

/-- **V2**: after a successful `insert_after` on a forest satisfying the invariant and `Normal`,
    the consolidation of the reference node with its next sibling does nothing. -/
theorem insertAfter_merge_noop {g : Forest} {p b : Nat} (inv : g.Inv) (norm : g.Normal)
    (hok : (g.insertAfter p b).2 = .ok) :
    (g.insertAfter p b).1.removeConsolidate (some p) ((g.insertAfter p b).1.nextSibling p)
      = ((g.insertAfter p b).1, false) := by
  obtain ⟨h1, h2⟩ := insertAfter_nodup_clean inv norm hok
  apply removeConsolidate_next_noop h1
  intro hc
  rw [insertAfter_consolidation inv norm hok] at hc
  exact h2 hc

theorem insertAfter_noAdj {g : Forest} {p b : Nat} (inv : g.Inv) (norm : g.Normal)
    (hok : (g.insertAfter p b).2 = .ok) :
    g.consolidation = true → ∀ x v L, (g.insertAfter p b).1.get? x = some (.node x v L) →
      noAdjacentText L = true :=
  fun hc _ _ _ e => Forest.noAdj_of_clean ((insertAfter_nodup_clean inv norm hok).2 hc) e

/-! ### `prepend` -/

theorem prepend_nodup_clean {g : Forest} {p b : Nat} (inv : g.Inv) (norm : g.Normal)
    (hok : (g.prepend p b).2 = .ok) :
    (g.prepend p b).1.allHandles.Nodup ∧
    (g.consolidation = true → cleanL (g.prepend p b).1.roots = true) := by
  rw [prepend_spec inv norm hok]
  have nd := inv.nodup
  have hsc : g.structureCheck (some p) b = true := by
    cases h : g.structureCheck (some p) b with
    | true => rfl
    | false => rw [prepend_unfold] at hok; simp [h] at hok
  obtain ⟨vp, Lp, t, hgp, hgc, hpt, hnorm, hndoc, hvp⟩ := Forest.structureCheck_unpack nd hsc
  have hvq : vp.isText = false := by
    cases hvp with
    | inl h => cases vp <;> simp_all [Value.isElement, Value.isText]
    | inr h => cases vp <;> simp_all [Value.isDocument, Value.isText]
  exact specMove_nodup_clean inv norm (Keep.resident_spec b) hgc ⟨nd, hgp⟩ hpt hvq
    (by simp [Dest.site, Forest.isLive_of_get hgp])

theorem prepend_nodup {g : Forest} {p b : Nat} (inv : g.Inv) (norm : g.Normal)
    (hok : (g.prepend p b).2 = .ok) : (g.prepend p b).1.allHandles.Nodup :=
  (prepend_nodup_clean inv norm hok).1

theorem prepend_noAdj {g : Forest} {p b : Nat} (inv : g.Inv) (norm : g.Normal)
    (hok : (g.prepend p b).2 = .ok) :
    g.consolidation = true → ∀ x v L, (g.prepend p b).1.get? x = some (.node x v L) →
      noAdjacentText L = true :=
  fun hc _ _ _ e => Forest.noAdj_of_clean ((prepend_nodup_clean inv norm hok).2 hc) e

/-! ### Non-vacuity -/

/-- `<e0>a<e2/><!--c-->d</e0>` (children: text 1, element 2, comment 3, text 4) and a parentless
    text node 5. -/
def replValidWitness : Forest :=
  { roots := [.node 0 (.element 5) [.node 1 (.text ['a']) [], .node 2 (.element 6) [],
                .node 3 (.comment ['c']) [], .node 4 (.text ['d']) []],
              .node 5 (.text ['b']) []], next := 6 }

/-- The hypotheses of V1 are satisfiable: the removal of the element 2 (between the text 1 and the
    comment 3). -/
example : ∃ (f : Forest) (q : Nat) (vq : Value) (l : List HTree) (A : HTree) (r : List HTree),
    f.Inv ∧ f.Normal ∧ SiteAt f q vq (l ++ A :: r) ∧
    (f.consolidation = true → ∀ x y, l.getLast? = some x → r.head? = some y →
      ¬ (x.value.isText = true ∧ y.value.isText = true)) :=
  ⟨replValidWitness, 0, .element 5, [.node 1 (.text ['a']) []], .node 2 (.element 6) [],
    [.node 3 (.comment ['c']) [], .node 4 (.text ['d']) []],
    (Forest.inv_iff _).1 (by decide), fun _ => by decide, ⟨by decide, by decide⟩,
    fun _ x y hx hy => by cases hx; cases hy; decide⟩

/-- The hypotheses of V2 are satisfiable: `insert_after(1, 5)` succeeds on the witness. -/
example : replValidWitness.Inv ∧ replValidWitness.Normal ∧ (replValidWitness.insertAfter 1 5).2 = .ok :=
  ⟨(Forest.inv_iff _).1 (by decide), fun _ => by decide, by decide⟩

/-- The same, evaluated: the forest after the raw removal of 2 satisfies the invariant; the text 5
    is merged into the text 1 by `insert_after(1, 5)`, and the final consolidation of 1 with its
    next sibling does nothing. -/
example :
    replValidWitness.inv = true ∧ validList true replValidWitness.roots = true ∧
    (replValidWitness.editAt (some 0) (dropTop 2)).inv = true ∧
    validList true (replValidWitness.editAt (some 0) (dropTop 2)).roots = true ∧
    (replValidWitness.insertAfter 1 5).2 = .ok ∧
    (replValidWitness.insertAfter 1 5).1.value? 1 = some (.text ['a', 'b']) ∧
    (replValidWitness.insertAfter 1 5).1.nextSibling 1 = some 2 ∧
    ((replValidWitness.insertAfter 1 5).1.removeConsolidate (some 1)
      ((replValidWitness.insertAfter 1 5).1.nextSibling 1)).2 = false := by
  decide

end XotModel
