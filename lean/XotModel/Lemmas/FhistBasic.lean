/-
  Fhist (extended histories), part 0: bookkeeping of `Store.xrun` (Model/FhistSpec.lean) that needs no
  lemma about the forest: the embeddings of `Op` / `Forest.HStep` histories.  (Kept free of the
  Finv* / Fclone* lemma families, which cannot be imported together.)
-/
import XotModel.Model.FhistSpec

namespace XotModel
namespace Forest

theorem store_eta (s : Store) : (⟨s.forest, s.env⟩ : Store) = s := by cases s; rfl

end Forest

namespace Store
open Forest

theorem xrun_cons (s : Store) (c : XCall) (cs : List XCall) : s.xrun (c :: cs) = (s.xstep c).xrun cs := rfl

theorem xrun_append (s : Store) (cs ds : List XCall) : s.xrun (cs ++ ds) = (s.xrun cs).xrun ds := by
  unfold xrun; rw [List.foldl_append]

/-- Every `Op` is well-kinded as an extended call (its map insertions are built from key and value). -/
theorem ofOp_wellKinded (o : Op) : (XCall.ofOp o).wellKinded := by
  cases o <;> first | trivial | rfl

/-- Running the image of an `Op` is `Forest.step`; the interning tables are not touched. -/
theorem xstep_ofOp (s : Store) (o : Op) : s.xstep (XCall.ofOp o) = ⟨s.forest.step o, s.env⟩ := by
  cases o <;> rfl

theorem xrun_ofOp : ∀ (ops : List Op) (s : Store), s.xrun (ops.map XCall.ofOp) = ⟨s.forest.run ops, s.env⟩
  | [], _ => rfl
  | o :: ops, s => by
    rw [List.map_cons, xrun_cons, xstep_ofOp, xrun_ofOp ops]
    rfl

/-- Running the image of a step of `Forest.HStep` is `Forest.stepAll`. -/
theorem xstep_ofStep (s : Store) (st : HStep) : s.xstep (XCall.ofStep st) = ⟨s.forest.stepAll st, s.env⟩ := by
  cases st <;> rfl

theorem xrun_ofStep : ∀ (ss : List HStep) (s : Store),
    s.xrun (ss.map XCall.ofStep) = ⟨s.forest.runAll ss, s.env⟩
  | [], _ => rfl
  | st :: ss, s => by
    rw [List.map_cons, xrun_cons, xstep_ofStep, xrun_ofStep ss]
    rfl

end Store
end XotModel
