/-
  XotModel.Lemmas.ScopeUnres — `unresolved_namespaces(node)` as ONE path-indexed statement.

  `unresolvedRec` (ScopeWalk) is chained along paths: a namespace is reported iff some element of
  the subtree (at a raw path `q`, `Tree.at?`) carries a name that needs it and the declarations of
  the elements on the way from the start node to that element (both inclusive), read by the
  nearest-declaration rule from an EMPTY frame, give it no usable prefix.
-/
import XotModel.Lemmas.ScopeSerialise

namespace XotModel

/-- Declaration lists of the ELEMENTS of a chain (nearest first): the frames the name stack of
    `unresolved_namespaces` / the serialisers has pushed when it stands at the chain's head. -/
def elementFrames (chain : List Tree) : List (List (Nat × Nat)) :=
  (chain.filter (fun a => a.value.isElement)).map Tree.nsDecls

/-- Node `e` is an element one of whose names is in namespace `ns` (real, not the XML namespace)
    and cannot be written in the scope `sc`: the element name when no prefix at all is bound to
    `ns`, an attribute name when no NON-EMPTY prefix is. -/
def NeedsNs (env : Env) (sc : Nat → Option Nat) (e : Tree) (ns : Nat) : Prop :=
  ∃ name, e.value = .element name ∧ ns ≠ Env.noNamespace ∧ ns ≠ Env.xmlNamespace ∧
    ((env.nsOfName name = ns ∧ ∀ p, sc p ≠ some ns) ∨
     (∃ a ∈ e.attrs.map (·.1), env.nsOfName a = ns ∧ ∀ p, p ≠ Env.emptyPrefix → sc p ≠ some ns))

/-- Some element of `t` (at path `q`) needs `ns` in the nearest-declaration scope of the
    declarations on the way from `t` to it, on top of the frames `frames`. -/
def UnresolvedIn (env : Env) (frames : List (List (Nat × Nat))) (t : Tree) (ns : Nat) : Prop :=
  ∃ q chain e, t.ancestorsOrSelf q = some chain ∧ t.at? q = some e ∧
    NeedsNs env (scopeOf (elementFrames chain ++ frames)) e ns

/-- No element of the tree declares a prefix twice (always true of trees built through the API:
    the namespace view is a map). -/
def UniqueDeclsBelow (t : Tree) : Prop :=
  ∀ q e, t.at? q = some e → e.value.isElement = true → (e.nsDecls.map Prod.fst).Nodup

theorem UniqueDeclsBelow.kid {v : Value} {ks : List Tree} (h : UniqueDeclsBelow (.node v ks))
    {i : Nat} {k : Tree} (hk : ks[i]? = some k) : UniqueDeclsBelow k := by
  intro q e hq he
  exact h (i :: q) e (by simp [Tree.at?, hk, hq]) he

theorem UniqueDeclsBelow.self {t : Tree} (h : UniqueDeclsBelow t) (he : t.value.isElement = true) :
    (t.nsDecls.map Prod.fst).Nodup := h [] t rfl he

theorem UniqueDeclsBelow.at {t : Tree} (h : UniqueDeclsBelow t) {q : Path} {e : Tree}
    (hq : t.at? q = some e) : UniqueDeclsBelow e := by
  induction q generalizing t with
  | nil => simp only [Tree.at?, Option.some.injEq] at hq; subst hq; exact h
  | cons i q ih =>
    obtain ⟨v, ks⟩ := t
    simp only [Tree.at?] at hq
    cases hk : ks[i]? with
    | none => simp [hk] at hq
    | some k => simp only [hk] at hq; exact ih (h.kid hk) hq

/-- The frames the node itself contributes. -/
theorem elementFrames_append (c1 c2 : List Tree) :
    elementFrames (c1 ++ c2) = elementFrames c1 ++ elementFrames c2 := by
  simp [elementFrames]

theorem elementFrames_element (t : Tree) (h : t.value.isElement = true) :
    elementFrames [t] = [t.nsDecls] := by simp [elementFrames, h]

theorem elementFrames_other (t : Tree) (h : t.value.isElement = false) :
    elementFrames [t] = [] := by simp [elementFrames, h]

/-- One node of the path peeled off. -/
theorem unresolvedIn_node (env : Env) (frames : List (List (Nat × Nat))) (v : Value) (ks : List Tree)
    (ns : Nat) :
    UnresolvedIn env frames (.node v ks) ns ↔
      NeedsNs env (scopeOf (elementFrames [.node v ks] ++ frames)) (.node v ks) ns ∨
      ∃ (i : Nat) (k : Tree), ks[i]? = some k ∧ UnresolvedIn env (elementFrames [.node v ks] ++ frames) k ns := by
  constructor
  · rintro ⟨q, chain, e, hc, he, hn⟩
    cases q with
    | nil =>
      simp only [Tree.ancestorsOrSelf, Option.some.injEq] at hc
      simp only [Tree.at?, Option.some.injEq] at he
      subst hc he
      exact .inl hn
    | cons i q =>
      simp only [Tree.ancestorsOrSelf, Tree.kids] at hc
      simp only [Tree.at?] at he
      cases hk : ks[i]? with
      | none => simp [hk] at he
      | some k =>
        simp only [hk, Option.map_eq_some_iff] at hc he
        obtain ⟨c, hc, rfl⟩ := hc
        refine .inr ⟨i, k, hk, q, c, e, hc, he, ?_⟩
        simpa [elementFrames_append, List.append_assoc] using hn
  · rintro (hn | ⟨i, k, hk, q, c, e, hc, he, hn⟩)
    · exact ⟨[], [.node v ks], .node v ks, rfl, rfl, hn⟩
    · refine ⟨i :: q, c ++ [.node v ks], e, ?_, ?_, ?_⟩
      · simp [Tree.ancestorsOrSelf, Tree.kids, hk, hc]
      · simp [Tree.at?, hk, he]
      · simpa [elementFrames_append, List.append_assoc] using hn

/-- What one element contributes (the lemma behind `C09_unresolved_element`). -/
theorem mem_unresolvedOfElement_gen (env : Env) (top : List (Nat × Nat)) (frames : List (List (Nat × Nat)))
    (h : FrameInv top frames) (t : Tree) (name ns : Nat) :
    ns ∈ unresolvedOfElement env top t name ↔
      (env.nsOfName name = ns ∧ ns ≠ Env.noNamespace ∧ ns ≠ Env.xmlNamespace ∧
        ∀ p, scopeOf frames p ≠ some ns) ∨
      (∃ a ∈ t.attrs.map (·.1), env.nsOfName a = ns ∧ ns ≠ Env.noNamespace ∧
        ns ≠ Env.xmlNamespace ∧ ∀ p, p ≠ Env.emptyPrefix → scopeOf frames p ≠ some ns) := by
  have hk : ∀ n, knownIn top n = false ↔ ∀ p, scopeOf frames p ≠ some n := by
    intro n
    rw [Bool.eq_false_iff, Ne, knownIn_iff]
    constructor
    · intro hne p hp; exact hne ⟨p, (h.mem p n).2 hp⟩
    · rintro hall ⟨p, hp⟩; exact hall p ((h.mem p n).1 hp)
  have ha : ∀ n, attrKnownIn top n = false ↔ ∀ p, p ≠ Env.emptyPrefix → scopeOf frames p ≠ some n := by
    intro n
    rw [Bool.eq_false_iff, Ne, attrKnownIn_iff]
    constructor
    · intro hne p hp0 hp; exact hne ⟨p, hp0, (h.mem p n).2 hp⟩
    · rintro hall ⟨p, hp0, hp⟩; exact hall p hp0 ((h.mem p n).1 hp)
  simp only [unresolvedOfElement, List.mem_append, List.mem_filterMap, sc_elementPrefix_ok,
    sc_attributePrefix_ok]
  constructor
  · rintro (h1 | ⟨a, hmem, h1⟩)
    · left
      by_cases hc : (env.nsOfName name == Env.noNamespace || env.nsOfName name == Env.xmlNamespace ||
          knownIn top (env.nsOfName name)) = true
      · simp [hc] at h1
      · simp only [hc, Bool.not_false, ↓reduceIte, List.mem_singleton] at h1
        subst h1
        simp only [Bool.or_eq_true, beq_iff_eq, not_or, Bool.not_eq_true] at hc
        exact ⟨rfl, hc.1.1, hc.1.2, (hk _).1 hc.2⟩
    · right
      by_cases hc : (env.nsOfName a == Env.noNamespace || env.nsOfName a == Env.xmlNamespace ||
          attrKnownIn top (env.nsOfName a)) = true
      · simp [hc] at h1
      · simp only [hc, Bool.not_false, ↓reduceIte, Option.some.injEq] at h1
        subst h1
        simp only [Bool.or_eq_true, beq_iff_eq, not_or, Bool.not_eq_true] at hc
        exact ⟨a, hmem, rfl, hc.1.1, hc.1.2, (ha _).1 hc.2⟩
  · rintro (⟨rfl, h0, h1, h2⟩ | ⟨a, hmem, rfl, h0, h1, h2⟩)
    · left
      have : (env.nsOfName name == Env.noNamespace || env.nsOfName name == Env.xmlNamespace ||
          knownIn top (env.nsOfName name)) = false := by
        simp [h0, h1, (hk _).2 h2]
      simp [this]
    · right
      refine ⟨a, hmem, ?_⟩
      have : (env.nsOfName a == Env.noNamespace || env.nsOfName a == Env.xmlNamespace ||
          attrKnownIn top (env.nsOfName a)) = false := by
        simp [h0, h1, (ha _).2 h2]
      simp [this]

theorem mem_unresolvedOfElement (env : Env) (top : List (Nat × Nat)) (frames : List (List (Nat × Nat)))
    (h : FrameInv top frames) (ks : List Tree) (name ns : Nat) :
    ns ∈ unresolvedOfElement env top (.node (.element name) ks) name ↔
      NeedsNs env (scopeOf frames) (.node (.element name) ks) ns := by
  rw [mem_unresolvedOfElement_gen env top frames h]
  simp only [NeedsNs, Tree.value, Value.element.injEq, exists_eq_left']
  constructor
  · rintro (⟨h1, h2, h3, h4⟩ | ⟨a, ha, h1, h2, h3, h4⟩)
    · exact ⟨h2, h3, .inl ⟨h1, h4⟩⟩
    · exact ⟨h2, h3, .inr ⟨a, ha, h1, h4⟩⟩
  · rintro ⟨h2, h3, ⟨h1, h4⟩ | ⟨a, ha, h1, h4⟩⟩
    · exact .inl ⟨h1, h2, h3, h4⟩
    · exact .inr ⟨a, ha, h1, h2, h3, h4⟩

theorem unresolvedRec_other (env : Env) (top : List (Nat × Nat)) (v : Value) (ks : List Tree)
    (h : v.isElement = false) :
    unresolvedRec env top (.node v ks) = unresolvedRec.unresolvedRecList env top ks := by
  cases v <;> first | rfl | simp [Value.isElement] at h

theorem needsNs_other (env : Env) (sc : Nat → Option Nat) (v : Value) (ks : List Tree) (ns : Nat)
    (h : v.isElement = false) : ¬ NeedsNs env sc (.node v ks) ns := by
  rintro ⟨name, hv, _⟩
  simp only [Tree.value] at hv
  subst hv
  simp [Value.isElement] at h

theorem FrameInv.pushTop {top : List (Nat × Nat)} {frames : List (List (Nat × Nat))}
    (h : FrameInv top frames) (decls : List (Nat × Nat)) (hd : (decls.map Prod.fst).Nodup) :
    FrameInv (pushTop top decls) (decls :: frames) := by
  have := FrameInv.push (s := [top]) (by simpa [FStack.top] using h) decls hd
  rwa [FStack.top_push] at this

mutual
theorem mem_unresolvedRec (env : Env) (ns : Nat) : ∀ (t : Tree) (top : List (Nat × Nat))
    (frames : List (List (Nat × Nat))), FrameInv top frames → UniqueDeclsBelow t →
    (ns ∈ unresolvedRec env top t ↔ UnresolvedIn env frames t ns)
  | .node v ks, top, frames, hinv, hu => by
    rw [unresolvedIn_node]
    cases hv : v.isElement with
    | false =>
      rw [unresolvedRec_other env top v ks hv, elementFrames_other _ (by simpa [Tree.value] using hv)]
      simp only [List.nil_append]
      rw [mem_unresolvedRecList env ns ks top frames hinv (fun i k hk => hu.kid hk)]
      simp [needsNs_other env _ v ks ns hv]
    | true =>
      obtain ⟨name, rfl⟩ : ∃ name, v = .element name := by
        cases v <;> simp [Value.isElement] at hv
        exact ⟨_, rfl⟩
      rw [elementFrames_element _ (by simp [Tree.value, Value.isElement])]
      simp only [List.singleton_append]
      have hinv' := hinv.pushTop (Tree.node (.element name) ks).nsDecls
        (hu.self (by simp [Tree.value, Value.isElement]))
      simp only [unresolvedRec, List.mem_append]
      rw [mem_unresolvedOfElement env _ _ hinv' ks name ns,
        mem_unresolvedRecList env ns ks _ _ hinv' (fun i k hk => hu.kid hk)]
theorem mem_unresolvedRecList (env : Env) (ns : Nat) : ∀ (ks : List Tree) (top : List (Nat × Nat))
    (frames : List (List (Nat × Nat))), FrameInv top frames →
    (∀ (i : Nat) (k : Tree), ks[i]? = some k → UniqueDeclsBelow k) →
    (ns ∈ unresolvedRec.unresolvedRecList env top ks ↔
      ∃ (i : Nat) (k : Tree), ks[i]? = some k ∧ UnresolvedIn env frames k ns)
  | [], top, frames, _, _ => by simp [unresolvedRec.unresolvedRecList]
  | k :: ks, top, frames, hinv, hu => by
    simp only [unresolvedRec.unresolvedRecList, List.mem_append]
    rw [mem_unresolvedRec env ns k top frames hinv (hu 0 k rfl),
      mem_unresolvedRecList env ns ks top frames hinv (fun i k' hk => hu (i + 1) k' (by simpa using hk))]
    constructor
    · rintro (h | ⟨i, k', hk, h⟩)
      · exact ⟨0, k, rfl, h⟩
      · exact ⟨i + 1, k', by simpa using hk, h⟩
    · rintro ⟨i, k', hk, h⟩
      cases i with
      | zero => simp only [List.getElem?_cons_zero, Option.some.injEq] at hk; subst hk; exact .inl h
      | succ i => exact .inr ⟨i, k', by simpa using hk, h⟩
end

theorem FrameInv.nil : FrameInv [] [] := ⟨by simp, fun p ns => by simp [scopeOf]⟩

/-- `unresolved_namespaces` for the subtree `sub`, all at once. -/
theorem mem_unresolvedNamespacesSub (env : Env) (sub : Tree) (hu : UniqueDeclsBelow sub) (ns : Nat) :
    ns ∈ unresolvedNamespacesSub env sub ↔ UnresolvedIn env [] sub ns := by
  rw [unresolvedNamespacesSub_eq]
  exact mem_unresolvedRec env ns sub [] [] FrameInv.nil hu

/-! ### A checker for `UniqueDeclsBelow` (closed examples) -/

def uniqueDeclsB : Tree → Bool
  | .node v ks =>
    (!v.isElement || decide ((Tree.node v ks).nsDecls.map Prod.fst).Nodup) && uniqueDeclsBList ks
where
  uniqueDeclsBList : List Tree → Bool
    | [] => true
    | k :: ks => uniqueDeclsB k && uniqueDeclsBList ks

mutual
theorem uniqueDeclsB_sound : ∀ (t : Tree), uniqueDeclsB t = true → UniqueDeclsBelow t
  | .node v ks, h => by
    simp only [uniqueDeclsB, Bool.and_eq_true, Bool.or_eq_true, Bool.not_eq_true', decide_eq_true_eq] at h
    intro q e hq he
    cases q with
    | nil =>
      simp only [Tree.at?, Option.some.injEq] at hq
      subst hq
      rcases h.1 with h1 | h1
      · simp [Tree.value, h1] at he
      · exact h1
    | cons i q =>
      simp only [Tree.at?] at hq
      cases hk : ks[i]? with
      | none => simp [hk] at hq
      | some k =>
        simp only [hk] at hq
        exact uniqueDeclsBList_sound ks h.2 i k hk q e hq he
theorem uniqueDeclsBList_sound : ∀ (ks : List Tree), uniqueDeclsB.uniqueDeclsBList ks = true →
    ∀ (i : Nat) (k : Tree), ks[i]? = some k → UniqueDeclsBelow k
  | [], _, i, k, hk => by simp at hk
  | k0 :: ks, h, i, k, hk => by
    simp only [uniqueDeclsB.uniqueDeclsBList, Bool.and_eq_true] at h
    cases i with
    | zero => simp only [List.getElem?_cons_zero, Option.some.injEq] at hk; subst hk; exact uniqueDeclsB_sound _ h.1
    | succ i => exact uniqueDeclsBList_sound ks h.2 i k (by simpa using hk)
end

end XotModel
