/-
  XotModel.Lemmas.ArenaHistory — histories of arena calls.  `Call a a'`: one call of the API xot
  uses, with live arguments (ids that are the current id of a live slot), leads from `a` to `a'`;
  the sibling insertions additionally require what indextree itself does not check (the reference
  node has a parent; the inserted node is not the reference node or one of its ancestors), and
  `remove` that the node has a parent or no children; `remove_subtree` needs nothing more.  Every
  such call keeps the pointer invariant and never lowers the magnitude of a stamp.
-/
import XotModel.Lemmas.ArenaRmsTop

namespace XotModel
namespace Arena

/-- The slot of `x` has a `parent` pointer. -/
def HasParent (a : Arena) (x : NodeId) : Prop := ∃ s, a.slot x.index0 = some s ∧ s.parent.isSome = true

/-- The slot of `x` has no `first_child` pointer. -/
def Childless (a : Arena) (x : NodeId) : Prop := ∃ s, a.slot x.index0 = some s ∧ s.first = none

/-- `x` is `ref` or one of its ancestors, as the `ancestors` iterator sees it. -/
def IsAncestorOrSelf (a : Arena) (x ref : NodeId) : Prop :=
  ∃ l, ancestors a ref a.fuel = .done a l ∧ x ∈ l

/-- One call with live arguments inside the list semantics. -/
inductive Call (a : Arena) : Arena → Prop where
  | newNode (v : Nat) (id : NodeId) (a' : Arena) : Arena.newNode a v = .done a' id → Call a a'
  | detach (x : NodeId) (a' : Arena) : LiveId a x → Arena.detach a x = .done a' () → Call a a'
  | append (p x : NodeId) (res : Except NodeError Unit) (a' : Arena) : LiveId a p → LiveId a x →
      checkedAppend a p x = .done a' res → Call a a'
  | prepend (p x : NodeId) (res : Except NodeError Unit) (a' : Arena) : LiveId a p → LiveId a x →
      checkedPrepend a p x = .done a' res → Call a a'
  | insertAfter (ref x : NodeId) (res : Except NodeError Unit) (a' : Arena) : LiveId a ref → LiveId a x →
      HasParent a ref → ¬ IsAncestorOrSelf a x ref → checkedInsertAfter a ref x = .done a' res → Call a a'
  | insertBefore (ref x : NodeId) (res : Except NodeError Unit) (a' : Arena) : LiveId a ref → LiveId a x →
      HasParent a ref → ¬ IsAncestorOrSelf a x ref → checkedInsertBefore a ref x = .done a' res → Call a a'
  | remove (x : NodeId) (a' : Arena) : LiveId a x → (HasParent a x ∨ Childless a x) →
      Arena.remove a x = .done a' () → Call a a'
  | removeSubtree (x : NodeId) (a' : Arena) : LiveId a x → Arena.removeSubtree a x = .done a' () → Call a a'

/-- Histories. -/
inductive Steps : Arena → Arena → Prop where
  | refl (a : Arena) : Steps a a
  | tail {a b c : Arena} : Steps a b → Call b c → Steps a c

theorem Rep.hasParent_iff {a : Arena} {g : Shape} (r : Rep a g) (i : Nat) (hi : Live a i) :
    HasParent a (a.idAt i) ↔ ∃ p, g.par i = some p := by
  obtain ⟨s, hs, h0⟩ := hi
  have P := r.ptrs i s hs h0
  constructor
  · rintro ⟨s', hs', hp⟩
    rw [idAt_index0, hs] at hs'; cases hs'
    rw [P.parent] at hp
    cases h : g.par i with
    | none => rw [h] at hp; simp at hp
    | some p => exact ⟨p, rfl⟩
  · rintro ⟨p, hp⟩
    exact ⟨s, by rw [idAt_index0]; exact hs, by rw [P.parent, hp]; rfl⟩

theorem Rep.childless_iff {a : Arena} {g : Shape} (r : Rep a g) (i : Nat) (hi : Live a i) :
    Childless a (a.idAt i) ↔ g.kids i = [] := by
  obtain ⟨s, hs, h0⟩ := hi
  have P := r.ptrs i s hs h0
  constructor
  · rintro ⟨s', hs', hp⟩
    rw [idAt_index0, hs] at hs'; cases hs'
    rw [P.first] at hp
    cases h : g.kids i with
    | nil => rfl
    | cons y ys => rw [h] at hp; simp at hp
  · intro hk
    exact ⟨s, by rw [idAt_index0]; exact hs, by rw [P.first, hk]; rfl⟩

theorem Rep.isAncestorOrSelf_iff {a : Arena} {g : Shape} (r : Rep a g) (x ref : Nat) (hr : Live a ref) :
    IsAncestorOrSelf a (a.idAt x) (a.idAt ref) ↔ Reach g.par ref x := by
  obtain ⟨l, hl, hlen⟩ := r.upChain ref hr
  have hanc := r.ancestors_chain ref l hl hr a.fuel (by unfold fuel; omega)
  constructor
  · rintro ⟨l', hl', hm⟩
    rw [hanc] at hl'; cases hl'
    obtain ⟨y, hy, e⟩ := List.mem_map.mp hm
    have := congrArg NodeId.index0 e
    simp at this; subst this
    exact (hl.mem_iff y).mp hy
  · intro hreach
    exact ⟨_, hanc, List.mem_map.mpr ⟨x, (hl.mem_iff x).mpr hreach, rfl⟩⟩

/-- Every call keeps the invariant and never lowers a stamp's magnitude. -/
theorem Call.rep {a a' : Arena} {g : Shape} (r : Rep a g) (c : Call a a') :
    (∃ g', Rep a' g') ∧ StampMono a a' := by
  cases c with
  | newNode v id a' h =>
    obtain ⟨a2, id2, g2, h2, ok⟩ := r.newNode v
    rw [h2] at h; cases h
    exact ⟨⟨g2, ok.rep⟩, ok.stampMono r⟩
  | detach x a' hx h =>
    obtain ⟨a2, h2, r2, hM⟩ := r.detach x hx
    rw [h2] at h; cases h
    exact ⟨⟨_, r2⟩, hM.stampMono⟩
  | append p x res a' hp hx h =>
    rw [hp.eq, hx.eq] at h
    by_cases hpx : p.index0 = x.index0
    · rw [hpx, checkedAppend_self] at h; cases h
      exact ⟨⟨g, r⟩, StampMono.refl a⟩
    · by_cases hanc : Reach g.par p.index0 x.index0
      · rw [r.checkedAppend_ancestor _ _ hp.2.1 hx.2.1 hpx hanc] at h; cases h
        exact ⟨⟨g, r⟩, StampMono.refl a⟩
      · obtain ⟨a2, h2, r2, hM⟩ := r.checkedAppend_ok _ _ hp.2.1 hx.2.1 hpx hanc
        rw [h2] at h; cases h
        exact ⟨⟨_, r2⟩, hM.stampMono⟩
  | prepend p x res a' hp hx h =>
    rw [hp.eq, hx.eq] at h
    by_cases hpx : p.index0 = x.index0
    · rw [hpx, checkedPrepend_self] at h; cases h
      exact ⟨⟨g, r⟩, StampMono.refl a⟩
    · by_cases hanc : Reach g.par p.index0 x.index0
      · rw [r.checkedPrepend_ancestor _ _ hp.2.1 hx.2.1 hpx hanc] at h; cases h
        exact ⟨⟨g, r⟩, StampMono.refl a⟩
      · by_cases hfirst : (g.kids p.index0).head? = some x.index0
        · rw [r.checkedPrepend_first_panics _ _ hp.2.1 hx.2.1 hpx hanc hfirst] at h; cases h
        · obtain ⟨a2, h2, r2, hM⟩ := r.checkedPrepend_ok _ _ hp.2.1 hx.2.1 hpx hanc hfirst
          rw [h2] at h; cases h
          exact ⟨⟨_, r2⟩, hM.stampMono⟩
  | insertAfter ref x res a' hr hx hpar hanc h =>
    rw [hr.eq, hx.eq] at h hanc
    rw [hr.eq] at hpar
    obtain ⟨p, hp⟩ := (r.hasParent_iff _ hr.2.1).mp hpar
    have hanc' := fun hh => hanc ((r.isAncestorOrSelf_iff _ _ hr.2.1).mpr hh)
    have hne : ref.index0 ≠ x.index0 := fun e => hanc' (e ▸ .refl _)
    obtain ⟨a2, A, B, h2, _, r2, hM⟩ := r.checkedInsertAfter_ok _ _ p hr.2.1 hx.2.1 hne hp hanc'
    rw [h2] at h; cases h
    exact ⟨⟨_, r2⟩, hM.stampMono⟩
  | insertBefore ref x res a' hr hx hpar hanc h =>
    rw [hr.eq, hx.eq] at h hanc
    rw [hr.eq] at hpar
    obtain ⟨p, hp⟩ := (r.hasParent_iff _ hr.2.1).mp hpar
    have hanc' := fun hh => hanc ((r.isAncestorOrSelf_iff _ _ hr.2.1).mpr hh)
    have hne : ref.index0 ≠ x.index0 := fun e => hanc' (e ▸ .refl _)
    obtain ⟨a2, A, B, h2, _, r2, hM⟩ := r.checkedInsertBefore_ok _ _ p hr.2.1 hx.2.1 hne hp hanc'
    rw [h2] at h; cases h
    exact ⟨⟨_, r2⟩, hM.stampMono⟩
  | remove x a' hx hcond h =>
    rw [hx.eq] at h hcond
    by_cases hk : g.kids x.index0 = []
    · obtain ⟨a1, a2, _, hM, r1, h2, ok, r2⟩ := r.remove_leaf _ hx.2.1 hk
      rw [h2] at h; cases h
      exact ⟨⟨_, r2⟩, hM.stampMono.trans (ok.stampMono r1 ((hM.live _).mpr hx.2.1))⟩
    · have hpar : ∃ p, g.par x.index0 = some p := by
        rcases hcond with h1 | h1
        · exact (r.hasParent_iff _ hx.2.1).mp h1
        · exact absurd ((r.childless_iff _ hx.2.1).mp h1) hk
      obtain ⟨p, hp⟩ := hpar
      obtain ⟨L, R, hkp⟩ := List.append_of_mem (r.parKids _ _ hp).2
      cases hh : (g.kids x.index0).head? with
      | none => exact absurd (List.head?_eq_none_iff.mp hh) hk
      | some c1 =>
        cases hl : (g.kids x.index0).getLast? with
        | none => exact absurd (List.getLast?_eq_none_iff.mp hl) hk
        | some ck =>
          obtain ⟨a5, a2, hM5, r5, h2, ok, r2⟩ := r.remove_inner _ p L R c1 ck hx.2.1 hp hkp hh hl
          rw [h2] at h; cases h
          exact ⟨⟨_, r2⟩, hM5.stampMono.trans (ok.stampMono r5 ((hM5.live _).mpr hx.2.1))⟩
  | removeSubtree x a' hx h =>
    rw [hx.eq] at h
    obtain ⟨a2, l, h2, ok⟩ := r.removeSubtree _ hx.2.1
    rw [h2] at h; cases h
    exact ⟨⟨_, ok.rep⟩, ok.mono⟩

theorem Steps.wf {a a' : Arena} (h : Steps a a') (w : Wf a) : Wf a' ∧ StampMono a a' := by
  induction h with
  | refl => exact ⟨w, StampMono.refl _⟩
  | tail _ c ih =>
    obtain ⟨⟨g, r⟩, m⟩ := ih
    obtain ⟨w', m'⟩ := c.rep r
    exact ⟨w', m.trans m'⟩

/-- `remove` of a live id with unsaturated stamp makes it `Gone`. -/
theorem Rep.remove_gone {a a' : Arena} {g : Shape} (r : Rep a g) (x : NodeId) (hx : LiveId a x)
    (hcond : HasParent a x ∨ Childless a x) (hlt : x.stamp < 32767) (h : Arena.remove a x = .done a' ()) :
    Gone a' x := by
  rw [hx.eq] at h hcond hlt ⊢
  by_cases hk : g.kids x.index0 = []
  · obtain ⟨a1, a2, _, hM, r1, h2, ok, r2⟩ := r.remove_leaf _ hx.2.1 hk
    rw [h2] at h; cases h
    have := ok.gone ((hM.live _).mpr hx.2.1) (by rw [hM.idAt]; exact hlt)
    rw [hM.idAt] at this; exact this
  · have hpar : ∃ p, g.par x.index0 = some p := by
      rcases hcond with h1 | h1
      · exact (r.hasParent_iff _ hx.2.1).mp h1
      · exact absurd ((r.childless_iff _ hx.2.1).mp h1) hk
    obtain ⟨p, hp⟩ := hpar
    obtain ⟨L, R, hkp⟩ := List.append_of_mem (r.parKids _ _ hp).2
    cases hh : (g.kids x.index0).head? with
    | none => exact absurd (List.head?_eq_none_iff.mp hh) hk
    | some c1 =>
      cases hl : (g.kids x.index0).getLast? with
      | none => exact absurd (List.getLast?_eq_none_iff.mp hl) hk
      | some ck =>
        obtain ⟨a5, a2, hM5, r5, h2, ok, r2⟩ := r.remove_inner _ p L R c1 ck hx.2.1 hp hkp hh hl
        rw [h2] at h; cases h
        have := ok.gone ((hM5.live _).mpr hx.2.1) (by rw [hM5.idAt]; exact hlt)
        rw [hM5.idAt] at this; exact this

/-- The descendants of `i` are the same before and after `i` is detached. -/
theorem Rep.reach_detach_iff {a : Arena} {g : Shape} (r : Rep a g) (i u : Nat) :
    Reach (g.detach i).par u i ↔ Reach g.par u i := by
  constructor
  · exact Reach.mono (Shape.detach_par_le g i)
  · intro h
    induction h with
    | refl => exact .refl _
    | @step c q d hc hr ih =>
      have hci : c ≠ d := by
        intro e; subst e
        exact r.acyclic c q hc hr
      exact .step (by rw [Shape.detach_par_ne g d c hci]; exact hc) ih

/-- `remove_subtree` makes every id of the subtree `Gone` (stamps below 32767). -/
theorem Rep.removeSubtree_gone {a a' : Arena} {g : Shape} (r : Rep a g) (x : NodeId) (hx : LiveId a x)
    (h : Arena.removeSubtree a x = .done a' ()) (u : Nat) (hu : Reach g.par u x.index0)
    (hlt : (a.idAt u).stamp < 32767) : Gone a' (a.idAt u) := by
  rw [hx.eq] at h
  obtain ⟨a2, l, h2, ok⟩ := r.removeSubtree _ hx.2.1
  rw [h2] at h; cases h
  exact ok.gone u ((ok.mem u).mpr ((r.reach_detach_iff _ u).mpr hu)) hlt

end Arena
end XotModel
