/-
  XotModel.Lemmas.ArenaLinkRep — inserting a parentless live node `i` under a live parent `p`
  between the end of `L` and the start of `R` (`kids p = L ++ R`), `i` not an ancestor of `p`:
  the arena reached stores the list-level insertion.
-/
import XotModel.Lemmas.ArenaLink

namespace XotModel
namespace Arena

/-- List-level insertion of the parentless node `i` under `p` between `L` and `R`. -/
def Shape.link (g : Shape) (p : Nat) (L : List Nat) (i : Nat) (R : List Nat) : Shape :=
  ⟨fun j => if j = i then some p else g.par j, fun q => if q = p then L ++ i :: R else g.kids q, g.free⟩

theorem newFirst_link (f : Nat → NodeId) (L R : List Nat) (i : Nat) :
    newFirst (newFirst ((L ++ R).head?.map f) (L.getLast?.map f) (some (f i))) (some (f i)) (R.head?.map f)
      = (L ++ i :: R).head?.map f := by
  cases L with
  | nil => simp [newFirst]
  | cons y L' =>
    cases hl : (y :: L').getLast? with
    | none => simp at hl
    | some l => simp [newFirst]

theorem newLast_link (f : Nat → NodeId) (L R : List Nat) (i : Nat) :
    newLast (newLast ((L ++ R).getLast?.map f) (L.getLast?.map f) (some (f i))) (some (f i)) (R.head?.map f)
      = (L ++ i :: R).getLast?.map f := by
  cases R with
  | nil =>
    simp only [newLast, List.head?_nil, Option.map_none, List.append_nil]
    simp
  | cons y R' =>
    simp only [newLast, List.head?_cons, Option.map_some, List.getLast?_append, List.getLast?_cons_cons]
    cases hl : (y :: R').getLast? with
    | none => simp at hl
    | some l => simp

/-- Paths in the parent function after giving the parentless `i` the parent `p`. -/
theorem Reach.link {par : Nat → Option Nat} {i p : Nat} {a b : Nat}
    (h : Reach (fun j => if j = i then some p else par j) a b) :
    Reach par a b ∨ (Reach par a i ∧ Reach par p b) := by
  induction h with
  | refl => exact Or.inl (.refl _)
  | @step c q d hc _ ih =>
    by_cases hci : c = i
    · subst hci
      simp only [if_true, Option.some.injEq] at hc
      subst hc
      rcases ih with ih | ih
      · exact Or.inr ⟨.refl _, ih⟩
      · exact Or.inr ⟨.refl _, ih.2⟩
    · simp only [if_neg hci] at hc
      rcases ih with ih | ih
      · exact Or.inl (.step hc ih)
      · exact Or.inr ⟨.step hc ih.1, ih.2⟩

theorem MetaEq.linkArena (a : Arena) (x pid : NodeId) (prev next : Option NodeId) :
    MetaEq a (linkArena a x pid prev next) := by
  unfold Arena.linkArena
  exact (MetaEq.mod a x.index0 (f := fun s => { s with parent := some pid }) (fun s => ⟨rfl, rfl⟩)).trans
    ((MetaEq.unlink _ (some pid) prev (some x)).trans (MetaEq.unlink _ (some pid) (some x) next))

/-- Insertion of a parentless live node stores the list-level insertion. -/
theorem Rep.link {a : Arena} {g : Shape} (r : Rep a g) (i p : Nat) (L R : List Nat)
    (hil : Live a i) (hroot : g.par i = none) (hpl : Live a p) (hpi : p ≠ i)
    (hk : g.kids p = L ++ R) (hanc : ¬ Reach g.par p i) :
    Rep (linkArena a (a.idAt i) (a.idAt p) (L.getLast?.map a.idAt) (R.head?.map a.idAt)) (g.link p L i R) := by
  obtain ⟨s, hs, h0⟩ := hil
  obtain ⟨sp, hsp', hp0⟩ := hpl
  have P := r.ptrs i s hs h0
  have Pp := r.ptrs p sp hsp' hp0
  have live_kids : ∀ p c, c ∈ g.kids p → Live a c := fun p c hc => (r.kidsLive p c hc).2.1
  have hnd : (L ++ R).Nodup := by rw [← hk]; exact r.kidsNodup p
  have hikids : ∀ q, i ∉ g.kids q := fun q hm => by
    have := (r.kidsLive q i hm).2.2; rw [hroot] at this; cases this
  have hiL : i ∉ L := fun hm => hikids p (by rw [hk]; exact List.mem_append_left _ hm)
  have hiR : i ∉ R := fun hm => hikids p (by rw [hk]; exact List.mem_append_right _ hm)
  have hLR : ∀ y, y ∈ L → y ∈ R → False := fun y h1 h2 => (List.nodup_append.mp hnd).2.2 y h1 y h2 rfl
  have hLp : ∀ y, y ∈ L → y ∈ g.kids p := fun y h => by rw [hk]; exact List.mem_append_left _ h
  have hRp : ∀ y, y ∈ R → y ∈ g.kids p := fun y h => by rw [hk]; exact List.mem_append_right _ h
  have hkp : ∀ y, y ∈ g.kids p → y ≠ p := fun y h e => by
    subst e; exact r.par_ne (r.kidsLive _ _ h).2.2 rfl
  have hprevne : L.getLast? ≠ some i := fun h => hiL (List.mem_of_getLast? h)
  have hnextne : R.head? ≠ some i := fun h => hiR (List.mem_of_mem_head? h)
  have hprevp : L.getLast? ≠ some p := fun h => hkp p (hLp p (List.mem_of_getLast? h)) rfl
  have hnextp : R.head? ≠ some p := fun h => hkp p (hRp p (List.mem_of_mem_head? h)) rfl
  generalize hD : linkArena a (a.idAt i) (a.idAt p) (L.getLast?.map a.idAt) (R.head?.map a.idAt) = D
  have hM : MetaEq a D := by rw [← hD]; exact MetaEq.linkArena _ _ _ _ _
  have hidAt : D.idAt = a.idAt := funext hM.idAt
  -- the arena after the first `connect_neighbors`
  generalize hB : unlink (a.mod i (fun s => { s with parent := some (a.idAt p) })) (Option.map a.idAt (some p))
      (L.getLast?.map a.idAt) (Option.map a.idAt (some i)) = B
  have hDeq : D = unlink B (Option.map a.idAt (some p)) (Option.map a.idAt (some i)) (R.head?.map a.idAt) := by
    rw [← hD, ← hB]; unfold linkArena; rw [idAt_index0]; rfl
  have he1 : (a.mod i (fun s => { s with parent := some (a.idAt p) })).parentEnds (Option.map a.idAt (some p))
      = (sp.first, sp.last) := by
    simp [parentEnds, hpi.symm, hsp']
  have hBslot : ∀ j, B.slot j =
      if i = j then (a.slot j).map (fun s => { s with parent := some (a.idAt p), prev := L.getLast?.map a.idAt })
      else if p = j then (a.slot j).map (fun s => { s with first := newFirst sp.first (L.getLast?.map a.idAt) (some (a.idAt i)), last := newLast sp.last (L.getLast?.map a.idAt) (some (a.idAt i)) })
      else if L.getLast? = some j then (a.slot j).map (fun s => { s with next := some (a.idAt i) })
      else a.slot j := by
    intro j
    rw [← hB]
    simp only [unlink, slot_modOpt_map, slot_mod, he1, Option.some.injEq]
    by_cases h1 : i = j
    · subst h1
      simp only [if_true, hprevne, hpi, if_false]
      cases a.slot i <;> simp
    · by_cases h2 : p = j
      · subst h2
        simp only [h1, if_false, if_true, hprevp, Option.map_some]
      · simp only [h1, h2, if_false, Option.map_some]
  have he2 : B.parentEnds (Option.map a.idAt (some p))
      = (newFirst sp.first (L.getLast?.map a.idAt) (some (a.idAt i)),
         newLast sp.last (L.getLast?.map a.idAt) (some (a.idAt i))) := by
    simp only [parentEnds, Option.map_some, idAt_index0, hBslot, hpi.symm, if_false, if_true, hsp']
  have hslot : ∀ j, D.slot j =
      if i = j then (a.slot j).map (fun s => { s with parent := some (a.idAt p), prev := L.getLast?.map a.idAt, next := R.head?.map a.idAt })
      else if p = j then (a.slot j).map (fun s => { s with first := newFirst (newFirst sp.first (L.getLast?.map a.idAt) (some (a.idAt i))) (some (a.idAt i)) (R.head?.map a.idAt), last := newLast (newLast sp.last (L.getLast?.map a.idAt) (some (a.idAt i))) (some (a.idAt i)) (R.head?.map a.idAt) })
      else if L.getLast? = some j then (a.slot j).map (fun s => { s with next := some (a.idAt i) })
      else if R.head? = some j then (a.slot j).map (fun s => { s with prev := some (a.idAt i) })
      else a.slot j := by
    intro j
    rw [hDeq]
    simp only [unlink, slot_modOpt_map, he2, hBslot, Option.some.injEq]
    by_cases h1 : i = j
    · subst h1
      simp only [if_true, hnextne, hpi, if_false]
      cases a.slot i <;> simp
    · by_cases h2 : p = j
      · subst h2
        simp only [h1, if_false, if_true, hnextp]
        cases a.slot p <;> simp
      · by_cases h3 : L.getLast? = some j
        · have h4 : R.head? ≠ some j := fun h => hLR j (List.mem_of_getLast? h3) (List.mem_of_mem_head? h)
          simp only [h1, h2, h3, h4, if_false, if_true, Option.map_some]
        · simp only [h1, h2, h3, if_false, Option.map_some]
  refine ⟨hM.stampRange r.stampRange, hM.dataLive r.dataLive, hM.freeOk r.free, ?_, ?_, ?_, ?_, ?_⟩
  · -- kidsLive
    intro q c hc
    simp only [Shape.link] at hc ⊢
    by_cases hq : q = p
    · subst hq
      rw [if_pos rfl] at hc
      refine ⟨(hM.live _).mpr ⟨sp, hsp', hp0⟩, ?_, ?_⟩
      · rcases List.mem_append.mp hc with h | h
        · exact (hM.live _).mpr (live_kids q c (hLp c h))
        · rcases List.mem_cons.mp h with h | h
          · subst h; exact (hM.live _).mpr ⟨s, hs, h0⟩
          · exact (hM.live _).mpr (live_kids q c (hRp c h))
      · by_cases hci : c = i
        · rw [if_pos hci]
        · rw [if_neg hci]
          rcases List.mem_append.mp hc with h | h
          · exact (r.kidsLive q c (hLp c h)).2.2
          · rcases List.mem_cons.mp h with h | h
            · exact absurd h hci
            · exact (r.kidsLive q c (hRp c h)).2.2
    · rw [if_neg hq] at hc
      obtain ⟨l1, l2, l3⟩ := r.kidsLive q c hc
      have hci : c ≠ i := fun e => hikids q (e ▸ hc)
      exact ⟨(hM.live _).mpr l1, (hM.live _).mpr l2, by rw [if_neg hci]; exact l3⟩
  · -- parKids
    intro c q hcq
    simp only [Shape.link] at hcq ⊢
    by_cases hci : c = i
    · rw [if_pos hci] at hcq; cases hcq
      subst hci
      exact ⟨(hM.live _).mpr ⟨s, hs, h0⟩, by simp⟩
    · rw [if_neg hci] at hcq
      obtain ⟨l1, l2⟩ := r.parKids c q hcq
      refine ⟨(hM.live _).mpr l1, ?_⟩
      by_cases hq : q = p
      · subst hq
        rw [if_pos rfl]
        rw [hk] at l2
        rcases List.mem_append.mp l2 with h | h
        · exact List.mem_append_left _ h
        · exact List.mem_append_right _ (List.mem_cons_of_mem _ h)
      · rw [if_neg hq]; exact l2
  · -- kidsNodup
    intro q
    simp only [Shape.link]
    by_cases hq : q = p
    · rw [if_pos hq]
      have := List.nodup_append.mp hnd
      refine List.nodup_append.mpr ⟨this.1, List.nodup_cons.mpr ⟨hiR, this.2.1⟩, ?_⟩
      intro y h1 z h2 e
      rcases List.mem_cons.mp h2 with h | h
      · subst h; subst e; exact hiL h1
      · exact this.2.2 y h1 z h e
    · rw [if_neg hq]; exact r.kidsNodup q
  · -- acyclic
    intro c q hcq hreach
    simp only [Shape.link] at hcq hreach
    by_cases hci : c = i
    · subst hci
      simp only [if_true, Option.some.injEq] at hcq
      subst hcq
      rcases Reach.link hreach with h | h
      · exact hanc h
      · exact hanc h.1
    · simp only [if_neg hci] at hcq
      rcases Reach.link hreach with h | h
      · exact r.acyclic c q hcq h
      · exact hanc (h.2.trans (.step hcq h.1))
  · -- ptrs
    intro j s' hs' h0'
    rw [hslot] at hs'
    by_cases h1 : i = j
    · -- the inserted node
      subst h1
      rw [if_pos rfl, hs] at hs'
      simp only [Option.map_some, Option.some.injEq] at hs'
      subst hs'
      refine ⟨?_, ?_, ?_, ?_, ?_⟩
      · simp [Shape.link, hidAt]
      · simp only [Shape.link, hidAt, if_neg hpi.symm]; exact P.first
      · simp only [Shape.link, hidAt, if_neg hpi.symm]; exact P.last
      · intro hn; simp [Shape.link] at hn
      · intro q hq
        simp only [Shape.link, if_true, Option.some.injEq] at hq
        subst hq
        exact ⟨L, R, by simp [Shape.link], by rw [hidAt], by rw [hidAt]⟩
    · rw [if_neg h1] at hs'
      by_cases h2 : p = j
      · -- the new parent
        subst h2
        rw [if_pos rfl, hsp'] at hs'
        simp only [Option.map_some, Option.some.injEq] at hs'
        subst hs'
        refine ⟨?_, ?_, ?_, ?_, ?_⟩
        · simp only [Shape.link, hidAt, if_neg hpi]; exact Pp.parent
        · simp only [Shape.link, hidAt, if_pos]
          rw [Pp.first, hk]; exact newFirst_link _ L R i
        · simp only [Shape.link, hidAt, if_pos]
          rw [Pp.last, hk]; exact newLast_link _ L R i
        · intro hn; simp only [Shape.link, if_neg hpi] at hn; exact Pp.root hn
        · intro q hq
          simp only [Shape.link, if_neg hpi] at hq
          obtain ⟨L', R', e1, e2, e3⟩ := Pp.sib q hq
          have hqp : q ≠ p := r.par_ne hq
          exact ⟨L', R', by simp only [Shape.link, if_neg hqp]; exact e1, by rw [hidAt]; exact e2, by rw [hidAt]; exact e3⟩
      · rw [if_neg h2] at hs'
        have hji : j ≠ i := fun e => h1 e.symm
        have hjp : j ≠ p := fun e => h2 e.symm
        by_cases hjk : j ∈ g.kids p
        · -- a new sibling
          obtain ⟨sj, hsj, hsj0⟩ := live_kids p j hjk
          have Pj := r.ptrs j sj hsj hsj0
          have hparj : g.par j = some p := (r.kidsLive p j hjk).2.2
          obtain ⟨L1, R1, e1, e2, e3⟩ := Pj.sib p hparj
          have hjLR : j ∈ L ∨ j ∈ R := by rw [hk] at hjk; exact List.mem_append.mp hjk
          rcases hjLR with hjL | hjR
          · obtain ⟨A, B, hAB⟩ := List.append_of_mem hjL
            have hdec : g.kids p = A ++ j :: (B ++ R) := by rw [hk, hAB]; simp
            have hndj : (A ++ j :: (B ++ R)).Nodup := by rw [← hdec]; exact r.kidsNodup p
            obtain ⟨hA, hB⟩ := split_unique (by rw [← e1]; exact r.kidsNodup p) (e1.symm.trans hdec)
            subst hA hB
            have hnotR : R.head? ≠ some j := fun h => hLR j hjL (List.mem_of_mem_head? h)
            by_cases hB : B = []
            · subst hB
              have hlast : L.getLast? = some j := by rw [hAB]; simp
              rw [if_pos hlast, hsj] at hs'
              simp only [Option.map_some, Option.some.injEq] at hs'
              subst hs'
              refine ⟨?_, ?_, ?_, ?_, ?_⟩
              · simp only [Shape.link, hidAt, if_neg hji]; exact Pj.parent
              · simp only [Shape.link, hidAt, if_neg hjp]; exact Pj.first
              · simp only [Shape.link, hidAt, if_neg hjp]; exact Pj.last
              · intro hn; simp only [Shape.link, if_neg hji] at hn; rw [hparj] at hn; cases hn
              · intro q hq
                simp only [Shape.link, if_neg hji] at hq
                rw [hparj] at hq; cases hq
                refine ⟨L1, i :: R, by simp only [Shape.link, hAB]; simp, by rw [hidAt]; exact e2, by rw [hidAt]; simp⟩
            · have hlast : L.getLast? ≠ some j := by
                intro h
                rw [hAB] at h
                have hjB := getLast?_cons_ne_nil_mem hB h
                have := (List.nodup_append.mp hndj).2.1
                exact (List.nodup_cons.mp this).1 (List.mem_append_left _ hjB)
              rw [if_neg hlast, if_neg hnotR] at hs'
              rw [hsj] at hs'; cases hs'
              refine ⟨?_, ?_, ?_, ?_, ?_⟩
              · simp only [Shape.link, hidAt, if_neg hji]; exact Pj.parent
              · simp only [Shape.link, hidAt, if_neg hjp]; exact Pj.first
              · simp only [Shape.link, hidAt, if_neg hjp]; exact Pj.last
              · intro hn; simp only [Shape.link, if_neg hji] at hn; rw [hparj] at hn; cases hn
              · intro q hq
                simp only [Shape.link, if_neg hji] at hq
                rw [hparj] at hq; cases hq
                refine ⟨L1, B ++ i :: R, by simp only [Shape.link, hAB]; simp, by rw [hidAt]; exact e2, ?_⟩
                rw [hidAt, e3]
                cases B with
                | nil => exact absurd rfl hB
                | cons b B' => simp
          · obtain ⟨A, B, hAB⟩ := List.append_of_mem hjR
            have hdec : g.kids p = (L ++ A) ++ j :: B := by rw [hk, hAB]; simp
            obtain ⟨hA, hB⟩ := split_unique (by rw [← e1]; exact r.kidsNodup p) (e1.symm.trans hdec)
            subst hA hB
            have hnotL : L.getLast? ≠ some j := fun h => hLR j (List.mem_of_getLast? h) hjR
            have hndR : R.Nodup := (List.nodup_append.mp hnd).2.1
            by_cases hA : A = []
            · subst hA
              have hhead : R.head? = some j := by rw [hAB]; simp
              rw [if_neg hnotL, if_pos hhead, hsj] at hs'
              simp only [Option.map_some, Option.some.injEq] at hs'
              subst hs'
              refine ⟨?_, ?_, ?_, ?_, ?_⟩
              · simp only [Shape.link, hidAt, if_neg hji]; exact Pj.parent
              · simp only [Shape.link, hidAt, if_neg hjp]; exact Pj.first
              · simp only [Shape.link, hidAt, if_neg hjp]; exact Pj.last
              · intro hn; simp only [Shape.link, if_neg hji] at hn; rw [hparj] at hn; cases hn
              · intro q hq
                simp only [Shape.link, if_neg hji] at hq
                rw [hparj] at hq; cases hq
                refine ⟨L ++ [i], R1, by simp only [Shape.link, hAB]; simp, by rw [hidAt]; simp, by rw [hidAt]; exact e3⟩
            · have hhead : R.head? ≠ some j := by
                intro h
                rw [hAB] at h hndR
                cases A with
                | nil => exact hA rfl
                | cons c A' =>
                  simp at h
                  subst h
                  have := (List.nodup_cons.mp hndR).1
                  exact this (by simp)
              rw [if_neg hnotL, if_neg hhead] at hs'
              rw [hsj] at hs'; cases hs'
              refine ⟨?_, ?_, ?_, ?_, ?_⟩
              · simp only [Shape.link, hidAt, if_neg hji]; exact Pj.parent
              · simp only [Shape.link, hidAt, if_neg hjp]; exact Pj.first
              · simp only [Shape.link, hidAt, if_neg hjp]; exact Pj.last
              · intro hn; simp only [Shape.link, if_neg hji] at hn; rw [hparj] at hn; cases hn
              · intro q hq
                simp only [Shape.link, if_neg hji] at hq
                rw [hparj] at hq; cases hq
                refine ⟨L ++ i :: A, R1, by simp only [Shape.link, hAB]; simp, ?_, by rw [hidAt]; exact e3⟩
                rw [hidAt, e2]
                congr 1
                simp only [List.getLast?_append]
                cases hgl : A.getLast? with
                | none => exact absurd (List.getLast?_eq_none_iff.mp hgl) hA
                | some l =>
                  have : (i :: A).getLast? = some l := by
                    cases A with
                    | nil => exact absurd rfl hA
                    | cons c A' => rw [List.getLast?_cons_cons]; exact hgl
                  simp [this]
        · -- an unrelated slot
          have hl : L.getLast? ≠ some j := fun h => hjk (hLp j (List.mem_of_getLast? h))
          have hr : R.head? ≠ some j := fun h => hjk (hRp j (List.mem_of_mem_head? h))
          rw [if_neg hl, if_neg hr] at hs'
          have Pj := r.ptrs j s' hs' h0'
          refine Pj.transfer r hM.idAgree (by simp [Shape.link, hji]) (by simp [Shape.link, hjp]) ?_
          intro q hq
          have : q ≠ p := by
            intro e; subst e; exact hjk (r.parKids j q hq).2
          simp [Shape.link, this]

end Arena
end XotModel
