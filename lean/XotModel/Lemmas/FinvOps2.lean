/-
  Finv (C04), part 13: `append` preserves the invariant (all outcomes).
-/
import XotModel.Lemmas.FinvSibs

namespace XotModel
open HTree

namespace Forest

theorem fi_structureCheck_some {f : Forest} {p c : Nat} (h : f.structureCheck (some p) c = true) :
    ∃ pv cv, f.value? p = some pv ∧ (pv.isElement = true ∨ pv.isDocument = true) ∧
      (f.ancestors p).contains c = false ∧ f.value? c = some cv ∧ cv.category = .normal ∧
      cv.isDocument = false := by
  unfold structureCheck at h
  simp only [Bool.and_eq_true, Bool.or_eq_true, Bool.not_eq_true'] at h
  obtain ⟨⟨h1, h2⟩, h3⟩ := h
  have hp : ∃ pv, f.value? p = some pv ∧ (pv.isElement = true ∨ pv.isDocument = true) := by
    unfold isElement isDocument at h1
    cases hv : f.value? p with
    | none => rw [hv] at h1; simp at h1
    | some pv =>
      rw [hv] at h1
      refine ⟨pv, rfl, ?_⟩
      simpa using h1
  obtain ⟨pv, hpv, hpk⟩ := hp
  cases hv : f.value? c with
  | none => rw [hv] at h3; simp at h3
  | some cv =>
    rw [hv] at h3
    refine ⟨pv, cv, hpv, hpk, h2, rfl, ?_, ?_⟩ <;> cases cv <;> simp_all [Value.category, Value.isDocument]

theorem isText_false_of_kind {pv : Value} (h : pv.isElement = true ∨ pv.isDocument = true) :
    pv.isText = false := by
  cases pv <;> simp_all [Value.isElement, Value.isDocument, Value.isText]

/-- With consolidation on and a text `node`, a text `prev` makes `add_consolidate` merge. -/
theorem addConsolidate_prev_true {f : Forest} {node p : Nat} {a ps : Str} (next : Option Nat)
    (hc : f.consolidation = true) (hn : f.textOf node = some a) (hp : f.textOf p = some ps)
    (hne : p ≠ node) :
    (f.addConsolidate node (some p) next).2 = true := by
  rw [addConsolidate_eq_old, selfPrev_of_ne (by simpa using hne)]
  unfold addConsolidateOld
  simp [hc, hn, hp]

/-- With consolidation on and a text `node`, a text `next` makes `add_consolidate` merge. -/
theorem addConsolidate_next_true {f : Forest} {node n : Nat} {a ns : Str} (prev : Option Nat)
    (hc : f.consolidation = true) (hn : f.textOf node = some a) (hx : f.textOf n = some ns)
    (hne : n ≠ node) :
    (f.addConsolidate node prev (some n)).2 = true := by
  rw [addConsolidate_eq_old, selfNext_of_ne (by simpa using hne)]
  generalize f.selfPrev node prev = prev
  unfold addConsolidateOld
  simp only [hc, Bool.not_true, Bool.false_eq_true, if_false, hn, hx]
  cases prev with
  | none => rfl
  | some p =>
    simp only
    cases f.textOf p <;> rfl

theorem textOf_of_value? {f : Forest} {x : Nat} {v : Value} (hv : f.value? x = some v)
    (ht : v.isText = true) : ∃ s, f.textOf x = some s := by
  obtain ⟨s, rfl⟩ := exists_text_of_isText ht
  exact ⟨s, (textOf_eq_some_iff _ _ _).mpr hv⟩

theorem consolidation_of_strict {f : Forest} (hi : f.Inv) (hoff : f.everOff = false) :
    f.consolidation = true := by
  cases hi.consOn with
  | inl h => exact h
  | inr h => rw [hoff] at h; cases h

/-- The state after the first step of a move keeps a non-text node as it is. -/
theorem SibsOut.keep_nontext {f g : Forest} {c : Nat} {b : Bool} (so : SibsOut f c g b) {x : Nat} {v : Value}
    (hv : f.value? x = some v) (hnt : v.isText = false) : g.value? x = some v := by
  have hx : b = true → f.nextSibling c ≠ some x := by
    intro hb e
    obtain ⟨P, N, ps, ns, _, h2, _, h4, _⟩ := so.merged hb
    rw [h2] at e; cases e
    rw [hv] at h4; cases h4; cases hnt
  obtain ⟨v', h1, _, h3⟩ := so.keep x v hv hx
  rw [h1, h3 hnt]

theorem normal_of_isText {v : Value} (h : v.isText = true) : v.isNormal = true := by
  cases v <;> simp_all [Value.isText, Value.isNormal, Value.category]

/-- `append` preserves the invariant, whatever it answers. -/
theorem append_inv {f : Forest} (hi : f.Inv) (p c : Nat) : (f.append p c).1.Inv := by
  unfold append
  split
  · exact hi
  rename_i hsc
  split
  · exact hi
  rename_i hlast
  obtain ⟨pv, cv, hpv, hpk, hanc, hcv, hcn, hcd⟩ := fi_structureCheck_some (by simpa using hsc)
  obtain ⟨g, b, so⟩ := exists_sibsOut hi (mem_allHandles_of_isLive (isLive_of_value? hcv))
  rw [so.eq]
  simp only
  cases h2 : g.addConsolidate c (g.lastChild p) none with
  | mk f2 cc =>
    simp only
    have hi2 : f2.Inv := by
      have := addConsolidate_inv so.inv c (g.lastChild p) none; rw [h2] at this; exact this
    cases cc with
    | true => simpa using hi2
    | false =>
      have := addConsolidate_false h2; subst this
      simp only [Bool.false_eq_true, if_false]
      have hcv' : f2.value? c = some cv := by rw [so.valC]; exact hcv
      have hpv' : f2.value? p = some pv := so.keep_nontext hpv (isText_false_of_kind hpk)
      have key : (f2.checkedAppend p c).1.Inv := by
        apply checkedAppend_inv so.inv hcv' hcn hcd hpv' hpk so.cutOK
        intro hoff hct K hK n hn
        have hoff' : f.everOff = false := by rw [← so.everOff]; exact hoff
        obtain ⟨e1, e2⟩ := so.same hoff' (fun cv' h => by rw [hcv] at h; cases h; exact hct)
        subst e1
        have hcons := consolidation_of_strict hi hoff'
        have hmem : n ∈ K.kids := List.mem_of_getLast? hn
        have hnv := value?_of_mem_kids hi.nodup hK hmem
        have hlc : f2.lastChild p = if n.value.isNormal then some n.handle else none := by
          unfold lastChild; rw [hK]; simp only; rw [hn]
        obtain ⟨a, hta⟩ := textOf_of_value? hcv hct
        by_cases hnn : n.value.isNormal = true
        · rw [if_pos hnn] at hlc
          have hne : n.handle ≠ c := by intro e; apply hlast; rw [hlc, e]; simp
          refine ⟨hne, ?_⟩
          · cases hnt : n.value.isText with
            | false => rfl
            | true =>
              exfalso
              obtain ⟨s, hts⟩ := textOf_of_value? hnv hnt
              have := addConsolidate_prev_true none hcons hta hts hne
              rw [← hlc, h2] at this
              cases this
        · refine ⟨?_, ?_⟩
          · intro e
            rw [e, hcv] at hnv
            cases hnv
            apply hnn
            simp [Value.isNormal, hcn]
          · cases hnt : n.value.isText with
            | false => rfl
            | true => exact absurd (normal_of_isText hnt) hnn
      cases h3 : f2.checkedAppend p c with
      | mk f3 okb =>
        rw [h3] at key
        cases okb <;> simpa using key

end Forest
end XotModel
