/-
  C08 and parsing, part 4: every id stored in the tree a parse builds was returned by one of the
  calls of the parse's trace (`IssuedBy`), hence is an id of the tables the parse leaves and
  stands there for the value that call registered.

  The builder holds the tree as a zipper; `BuilderAll P b` says `P` holds of every value in the
  open frames, their finished children and the declarations collected for the start tag being
  read.  Each step keeps `P ∨ issued by this step's calls`.
-/
import XotModel.Lemmas.IdMapParseTrace

namespace XotModel
namespace IdParse

/-! ### Issued ids -/

/-- The name id `n` was returned by a name registration of the sequence `rs` made from `e`. -/
def NameIssued (e : Env) (rs : List Reg) (n : Nat) : Prop :=
  ∃ (i : Nat) (loc : Str) (ns : Nat), rs[i]? = some (Reg.name loc ns) ∧ (e.regAll rs).2[i]? = some n

/-- The pair of a namespace node was returned by a prefix registration and the namespace
    registration right after it (`DocumentBuilder::prefix`). -/
def DeclIssued (e : Env) (rs : List Reg) (p ns : Nat) : Prop :=
  ∃ (i : Nat) (s u : Str), rs[i]? = some (Reg.pfx s) ∧ rs[i + 1]? = some (Reg.ns u) ∧
    (e.regAll rs).2[i]? = some p ∧ (e.regAll rs).2[i + 1]? = some ns

/-- Every id the value holds was returned by a call of `rs`. -/
def IssuedBy (e : Env) (rs : List Reg) : Value → Prop
  | .element n => NameIssued e rs n
  | .attribute n _ => NameIssued e rs n
  | .pi n _ => NameIssued e rs n
  | .namespace p ns => DeclIssued e rs p ns
  | _ => True

theorem getElem?_append_left' {α : Type} {l l' : List α} {i : Nat} {x : α} (h : l[i]? = some x) :
    (l ++ l')[i]? = some x := getElem?_ext h

theorem getElem?_append_shift {α : Type} (l l' : List α) (i : Nat) : (l ++ l')[l.length + i]? = l'[i]? := by
  rw [List.getElem?_append_right (by omega)]
  congr 1; omega

theorem NameIssued.mono {e : Env} {rs : List Reg} {n : Nat} (h : NameIssued e rs n) (rs' : List Reg) :
    NameIssued e (rs ++ rs') n := by
  obtain ⟨i, loc, ns, h1, h2⟩ := h
  refine ⟨i, loc, ns, getElem?_append_left' h1, ?_⟩
  rw [Env.regAll_append]; exact getElem?_append_left' h2

theorem NameIssued.shift {e : Env} (rs : List Reg) {rs' : List Reg} {n : Nat}
    (h : NameIssued (e.regAll rs).1 rs' n) : NameIssued e (rs ++ rs') n := by
  obtain ⟨i, loc, ns, h1, h2⟩ := h
  refine ⟨rs.length + i, loc, ns, by rw [getElem?_append_shift]; exact h1, ?_⟩
  rw [Env.regAll_append]
  simp only
  rw [← Env.regAll_length rs e, getElem?_append_shift]; exact h2

theorem DeclIssued.mono {e : Env} {rs : List Reg} {p ns : Nat} (h : DeclIssued e rs p ns) (rs' : List Reg) :
    DeclIssued e (rs ++ rs') p ns := by
  obtain ⟨i, s, u, h1, h2, h3, h4⟩ := h
  refine ⟨i, s, u, getElem?_append_left' h1, getElem?_append_left' h2, ?_, ?_⟩
  · rw [Env.regAll_append]; exact getElem?_append_left' h3
  · rw [Env.regAll_append]; exact getElem?_append_left' h4

theorem DeclIssued.shift {e : Env} (rs : List Reg) {rs' : List Reg} {p ns : Nat}
    (h : DeclIssued (e.regAll rs).1 rs' p ns) : DeclIssued e (rs ++ rs') p ns := by
  obtain ⟨i, s, u, h1, h2, h3, h4⟩ := h
  refine ⟨rs.length + i, s, u, by rw [getElem?_append_shift]; exact h1,
    by rw [Nat.add_assoc, getElem?_append_shift]; exact h2, ?_, ?_⟩
  · rw [Env.regAll_append]
    simp only
    rw [← Env.regAll_length rs e, getElem?_append_shift]; exact h3
  · rw [Env.regAll_append]
    simp only
    rw [← Env.regAll_length rs e, Nat.add_assoc, getElem?_append_shift]; exact h4

theorem IssuedBy.mono {e : Env} {rs : List Reg} {v : Value} (h : IssuedBy e rs v) (rs' : List Reg) :
    IssuedBy e (rs ++ rs') v := by
  cases v with
  | element n => exact NameIssued.mono h rs'
  | «attribute» n s => exact NameIssued.mono h rs'
  | pi n s => exact NameIssued.mono h rs'
  | «namespace» p ns => exact DeclIssued.mono h rs'
  | document => trivial
  | text s => trivial
  | comment s => trivial

theorem IssuedBy.shift {e : Env} (rs : List Reg) {rs' : List Reg} {v : Value}
    (h : IssuedBy (e.regAll rs).1 rs' v) : IssuedBy e (rs ++ rs') v := by
  cases v with
  | element n => exact NameIssued.shift rs h
  | «attribute» n s => exact NameIssued.shift rs h
  | pi n s => exact NameIssued.shift rs h
  | «namespace» p ns => exact DeclIssued.shift rs h
  | document => trivial
  | text s => trivial
  | comment s => trivial

/-! ### A predicate on every value the builder holds -/

/-- `P` holds of the value of every node. -/
abbrev AllV (P : Value → Prop) (t : Tree) : Prop := t.Forall (fun v _ => P v)

mutual
theorem allV_imp {P Q : Value → Prop} (h : ∀ v, P v → Q v) : ∀ (t : Tree), AllV P t → AllV Q t
  | .node v ks, ht => by
    rw [AllV, Tree.Forall] at ht ⊢
    exact ⟨h v ht.1, allV_imp_list h ks ht.2⟩
theorem allV_imp_list {P Q : Value → Prop} (h : ∀ v, P v → Q v) : ∀ (ks : List Tree),
    Tree.Forall.forallList (fun v _ => P v) ks → Tree.Forall.forallList (fun v _ => Q v) ks
  | [], _ => trivial
  | k :: ks, hk => ⟨allV_imp h k hk.1, allV_imp_list h ks hk.2⟩
end

theorem allV_leaf {P : Value → Prop} {v : Value} (h : P v) : AllV P (.node v []) := by
  rw [AllV, Tree.forall_node]; exact ⟨h, fun k hk => by cases hk⟩

def FrameAll (P : Value → Prop) (f : Frame) : Prop := P f.value ∧ ∀ k ∈ f.rkids, AllV P k

theorem FrameAll.imp {P Q : Value → Prop} (h : ∀ v, P v → Q v) {f : Frame} (hf : FrameAll P f) : FrameAll Q f :=
  ⟨h _ hf.1, fun k hk => allV_imp h k (hf.2 k hk)⟩

theorem FrameAll.close {P : Value → Prop} {f : Frame} (hf : FrameAll P f) : AllV P f.close := by
  rw [AllV, Frame.close, Tree.forall_node]
  exact ⟨hf.1, fun k hk => hf.2 k (List.mem_reverse.mp hk)⟩

structure BuilderAll (P : Value → Prop) (b : Builder) : Prop where
  cur : FrameAll P b.cur
  parents : ∀ f ∈ b.parents, FrameAll P f
  eb : ∀ eb, b.eb = some eb → ∀ d ∈ eb.namespaces, P (.namespace d.1 d.2)

theorem BuilderAll.imp {P Q : Value → Prop} (h : ∀ v, P v → Q v) {b : Builder} (hb : BuilderAll P b) :
    BuilderAll Q b :=
  ⟨hb.cur.imp h, fun f hf => (hb.parents f hf).imp h, fun eb he d hd => h _ (hb.eb eb he d hd)⟩

/-- Only `cur`, `parents` and the declarations of `eb` matter. -/
theorem BuilderAll.congr {P : Value → Prop} {b b' : Builder} (hb : BuilderAll P b) (hc : b'.cur = b.cur)
    (hp : b'.parents = b.parents)
    (he : ∀ eb', b'.eb = some eb' → eb'.namespaces = [] ∨ ∃ eb, b.eb = some eb ∧ eb'.namespaces = eb.namespaces) :
    BuilderAll P b' := by
  refine ⟨by rw [hc]; exact hb.cur, by rw [hp]; exact hb.parents, ?_⟩
  intro eb' he' d hd
  rcases he eb' he' with h0 | ⟨eb, h1, h2⟩
  · rw [h0] at hd; cases hd
  · rw [h2] at hd; exact hb.eb eb h1 d hd

theorem builderAll_new {P : Value → Prop} (hd : P .document) (env : Env) : BuilderAll P (Builder.new env) :=
  ⟨⟨hd, fun k hk => by cases hk⟩, fun f hf => (by cases hf), fun eb he => by cases he⟩

theorem zipInto_all {P : Value → Prop} : ∀ (parents : List Frame) (t : Tree), AllV P t →
    (∀ f ∈ parents, FrameAll P f) → AllV P (zipInto t parents) := by
  intro parents
  induction parents with
  | nil => intro t ht _; exact ht
  | cons p rest ih =>
    intro t ht hp
    simp only [zipInto]
    refine ih _ ?_ (fun f hf => hp f (List.mem_cons_of_mem _ hf))
    have hpf := hp p List.mem_cons_self
    rw [AllV, Tree.forall_node]
    refine ⟨hpf.1, fun k hk => ?_⟩
    rw [List.mem_reverse, List.mem_cons] at hk
    rcases hk with rfl | hk
    · exact ht
    · exact hpf.2 k hk

theorem BuilderAll.root {P : Value → Prop} {b : Builder} (h : BuilderAll P b) : AllV P b.root :=
  zipInto_all b.parents b.cur.close h.cur.close h.parents

/-! ### Steps that add no ids -/

theorem addText_all {P : Value → Prop} (hT : ∀ s, P (.text s)) {b : Builder} (h : BuilderAll P b) (c : Str) :
    BuilderAll P (b.addText c).1 := by
  unfold Builder.addText
  split
  · rename_i s ks more hk
    refine ⟨⟨h.cur.1, ?_⟩, h.parents, h.eb⟩
    intro k hk'
    simp only [List.mem_cons] at hk'
    have hold := h.cur.2
    rw [hk] at hold
    rcases hk' with rfl | hk'
    · have h0 := hold _ List.mem_cons_self
      rw [AllV, Tree.forall_node] at h0 ⊢
      exact ⟨hT _, h0.2⟩
    · exact hold k (List.mem_cons_of_mem _ hk')
  · refine ⟨⟨h.cur.1, ?_⟩, h.parents, h.eb⟩
    intro k hk'
    simp only [List.mem_cons] at hk'
    rcases hk' with rfl | hk'
    · exact allV_leaf (hT _)
    · exact h.cur.2 k hk'

theorem addLeaf_all {P : Value → Prop} {b : Builder} (h : BuilderAll P b) {v : Value} (hv : P v) :
    BuilderAll P (b.addLeaf v).1 := by
  refine ⟨⟨h.cur.1, ?_⟩, h.parents, h.eb⟩
  intro k hk
  simp only [Builder.addLeaf, List.mem_cons] at hk
  rcases hk with rfl | hk
  · exact allV_leaf hv
  · exact h.cur.2 k hk

theorem toParent_all {P : Value → Prop} {b b' : Builder} (h : BuilderAll P b) (hr : b.toParent = .ok b') :
    BuilderAll P b' := by
  unfold Builder.toParent at hr
  split at hr
  · cases hr
  · rename_i p rest hp
    simp only [Step.ok.injEq] at hr
    subst hr
    have hpar := h.parents
    rw [hp] at hpar
    refine ⟨⟨(hpar p List.mem_cons_self).1, ?_⟩, fun f hf => hpar f (List.mem_cons_of_mem _ hf), h.eb⟩
    intro k hk
    simp only [List.mem_cons] at hk
    rcases hk with rfl | hk
    · exact h.cur.close
    · exact (hpar p List.mem_cons_self).2 k hk

theorem leave_all {P : Value → Prop} {b b' : Builder} (h : BuilderAll P b) (node : Path) (sp : StrSpan)
    (hr : b.leave node sp = .ok b') : BuilderAll P b' := by
  unfold Builder.leave at hr
  cases ht : b.toParent with
  | ok b2 =>
    rw [ht] at hr
    simp only [Step.ok.injEq] at hr
    subst hr
    exact (toParent_all h ht).congr rfl rfl (fun eb' he => Or.inr ⟨eb', he, rfl⟩)
  | err e env => rw [ht] at hr; cases hr
  | panic => rw [ht] at hr; cases hr

theorem closeImmediate_all {P : Value → Prop} {b b' : Builder} (h : BuilderAll P b) (sp : StrSpan)
    (hr : b.closeImmediate sp = .ok b') : BuilderAll P b' := by
  unfold Builder.closeImmediate at hr
  dsimp only at hr
  split at hr
  · refine leave_all ?_ _ _ hr
    exact h.congr rfl rfl (fun eb' he => Or.inr ⟨eb', he, rfl⟩)
  · exact leave_all h _ _ hr

theorem closeElement_all {P : Value → Prop} {b b' : Builder} (h : BuilderAll P b) (pfx loc sp : StrSpan)
    (hr : b.closeElement pfx loc sp = .ok b') : BuilderAll P b' := by
  unfold Builder.closeElement at hr
  split at hr
  · cases hr
  · cases hr
  · rename_i env1 nameId hn
    split at hr
    · cases hr
    · split at hr
      · split at hr
        · cases hr
        · refine leave_all ?_ _ _ hr
          exact h.congr rfl rfl (fun eb' he => Or.inr ⟨eb', he, rfl⟩)
      · refine leave_all ?_ _ _ hr
        exact h.congr rfl rfl (fun eb' he => Or.inr ⟨eb', he, rfl⟩)

theorem attribute_all {P : Value → Prop} {b b' : Builder} (h : BuilderAll P b) (pfx loc value : StrSpan)
    (hr : b.attribute pfx loc value = .ok b') : BuilderAll P b' := by
  unfold Builder.attribute at hr
  split at hr
  · cases hr
  · rename_i eb heb
    split at hr
    · cases hr
    · split at hr
      · cases hr
      · simp only [Step.ok.injEq] at hr
        subst hr
        refine h.congr rfl rfl (fun eb' he => Or.inr ⟨eb, heb, ?_⟩)
        simp only [Option.some.injEq] at he
        rw [← he]

theorem element_all {P : Value → Prop} {b : Builder} (h : BuilderAll P b) (pfx loc : StrSpan) :
    BuilderAll P (b.element pfx loc) :=
  h.congr rfl rfl (fun eb' he => Or.inl (by
    simp only [Builder.element, Option.some.injEq] at he
    rw [← he]; rfl))

theorem text_all {P : Value → Prop} (hT : ∀ s, P (.text s)) {b b' : Builder} (h : BuilderAll P b) (t : StrSpan)
    (hr : b.text t = .ok b') : BuilderAll P b' := by
  unfold Builder.text at hr
  split at hr
  · cases hr
  · simp only [Step.ok.injEq] at hr
    subst hr
    exact (addText_all hT h _).congr rfl rfl (fun eb' he => Or.inr ⟨eb', he, rfl⟩)

theorem cdata_all {P : Value → Prop} (hT : ∀ s, P (.text s)) {b b' : Builder} (h : BuilderAll P b) (t : StrSpan)
    (hr : b.cdata t = .ok b') : BuilderAll P b' := by
  unfold Builder.cdata at hr
  split at hr
  · simp only [Step.ok.injEq] at hr; subst hr; exact h
  · simp only [Step.ok.injEq] at hr
    subst hr
    exact (addText_all hT h _).congr rfl rfl (fun eb' he => Or.inr ⟨eb', he, rfl⟩)

theorem comment_all {P : Value → Prop} (hC : ∀ s, P (.comment s)) {b : Builder} (h : BuilderAll P b) (t : StrSpan) :
    BuilderAll P (b.comment t) :=
  (addLeaf_all h (hC (normalizeLineEnds t.text))).congr rfl rfl (fun eb' he => Or.inr ⟨eb', he, rfl⟩)

end IdParse
end XotModel
