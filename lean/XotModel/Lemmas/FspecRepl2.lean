/-
  FspecRepl2 — C05 for `replace`, part 2: what a successful `replace(a, b)` has checked
  (`ReplArgs`) and the three ways it continues: `remove(a)` when `b` already stands next to `a`;
  otherwise `remove_subtree(a)` followed by `insert_after(previous, b)` and one more
  consolidation (of the node that followed `a` with whatever now stands before it), or by
  `prepend(parent, b)` when `a` has no previous sibling.
-/
import XotModel.Lemmas.FspecSame

namespace XotModel
open HTree Spec

/-- The facts established by the argument checks of `replace(a, b)`: `a` is the child `A` of `q`
    (a normal node), `b` is the root of the subtree `t` (normal, not a document), `q` does not lie
    in `t` and `b` does not lie in `A`. -/
structure ReplArgs (f : Forest) (a b q : Nat) (vq : Value) (l : List HTree) (A : HTree) (r : List HTree)
    (t : HTree) : Prop where
  sq : SiteAt f q vq (l ++ A :: r)
  ha : A.handle = a
  hAn : A.value.isNormal = true
  hvq : vq.isElement = true ∨ vq.isDocument = true
  hgb : f.get? b = some t
  htn : t.value.isNormal = true
  htd : t.value.isDocument = false
  hqt : q ∉ handles t
  hbA : b ∉ handles A

namespace ReplArgs
variable {f : Forest} {a b q : Nat} {vq : Value} {l : List HTree} {A : HTree} {r : List HTree} {t : HTree}

theorem hb (h : ReplArgs f a b q vq l A r t) : t.handle = b := (findList?_some f.roots t h.hgb).1

theorem hab (h : ReplArgs f a b q vq l A r t) : a ≠ b := by
  intro e
  apply h.hbA
  rw [← e, ← h.ha]
  exact fs_handle_mem_handles A

/-- `a` does not lie in the replacing subtree (its parent does not). -/
theorem hat (h : ReplArgs f a b q vq l A r t) : a ∉ handles t := by
  intro hin
  exact h.hqt (parent_inside h.hgb h.sq (by rw [h.ha]; exact hin) (by rw [h.ha]; exact h.hab))

theorem live_a (h : ReplArgs f a b q vq l A r t) : f.get? a = some A := h.ha ▸ h.sq.getKid

theorem ctx_a (h : ReplArgs f a b q vq l A r t) : f.ctx? a = some ⟨q, l, A, r⟩ := h.ha ▸ h.sq.ctx

end ReplArgs

/-- The forest after `remove_subtree(a)`. -/
theorem dropSubtree_of_site {f : Forest} {q : Nat} {vq : Value} {l : List HTree} {A : HTree} {r : List HTree}
    (s : SiteAt f q vq (l ++ A :: r)) :
    f.dropSubtree A.handle = f.editAt (some q) (dropTop A.handle) := by
  unfold Forest.dropSubtree
  rw [Forest.cut_of_ctx s.nd s.ctx]
  simp only
  obtain ⟨ndL, _⟩ := s.nodupKids
  obtain ⟨tl, tr⟩ := tops_ne_of_nodup ndL
  apply s.congr
  rw [replaceTop_mid rfl tl, dropTop_mid rfl tl tr]
  simp

/-- What a successful `replace(a, b)` has checked, and how it continues. -/
theorem replace_unpack {f : Forest} {a b : Nat} (inv : f.Inv) (hok : (f.replace a b).2 = .ok) :
    ∃ q vq l A r t, ReplArgs f a b q vq l A r t ∧
      ((prevOf l A = some b ∨ nextOf r A = some b) ∧ f.replace a b = f.remove a
       ∨ (prevOf l A ≠ some b ∧ nextOf r A ≠ some b) ∧
          f.replace a b =
            (match prevOf l A with
             | some p =>
               (match (f.editAt (some q) (dropTop a)).insertAfter p b with
                | (f2, .ok) =>
                  (match nextOf r A with
                   | some n => ((f2.removeConsolidate (f2.prevSibling n) (some n)).1, .ok)
                   | none => (f2, .ok))
                | (f2, r) => (f2, r))
             | none => (f.editAt (some q) (dropTop a)).prepend q b)) := by
  have nd := inv.nodup
  have hd : f.isDocument a = false := by
    cases h : f.isDocument a with
    | false => rfl
    | true => unfold Forest.replace at hok; simp [h] at hok
  cases hpa : f.parent? a with
  | none => unfold Forest.replace at hok; simp [hd, hpa] at hok
  | some q =>
  have hna : f.isNormalNode a = true := by
    cases h : f.isNormalNode a with
    | true => rfl
    | false => unfold Forest.replace at hok; simp [hd, hpa, h] at hok
  have hsc : f.structureCheck (some q) b = true := by
    cases h : f.structureCheck (some q) b with
    | true => rfl
    | false => unfold Forest.replace at hok; simp [hd, hpa, hna, h] at hok
  have hanc : (f.ancestors b).contains a = false := by
    cases h : (f.ancestors b).contains a with
    | false => rfl
    | true =>
      unfold Forest.replace at hok
      simp only [hd, hpa, hna, hsc, h, Bool.not_true, Bool.false_eq_true, if_false, if_true] at hok
      cases hok
  unfold Forest.replace
  simp only [hd, hpa, hna, hsc, hanc, Bool.not_true, Bool.false_eq_true, if_false]
  -- the site of `a`
  cases hctx : f.ctx? a with
  | none => rw [Forest.parent?_of_no_ctx hctx] at hpa; cases hpa
  | some cx =>
  obtain ⟨e0, vq, sq⟩ := SiteAt.of_ctx nd hctx
  have hq : cx.parent = q := by
    rw [Forest.parent?_of_ctx hctx] at hpa; exact Option.some.inj hpa
  obtain ⟨q', l, A, r⟩ := cx
  simp only at e0 sq hq
  subst hq
  obtain ⟨vq', Lq, t, hgq, hgb, hqt, htn, htd, hvq⟩ := Forest.structureCheck_unpack nd hsc
  have evq : vq' = vq := by
    rw [sq.kids] at hgq
    injection (Option.some.inj hgq) with _ e2 _
    exact e2.symm
  subst evq
  have hAn : A.value.isNormal = true := by
    unfold Forest.isNormalNode Forest.value? at hna
    rw [← e0, sq.getKid] at hna
    simpa using hna
  have hbA : b ∉ handles A := by
    intro hin
    have : (f.ancestors b).contains a = true :=
      (Forest.ancestors_contains_iff nd).2 ⟨A, e0 ▸ sq.getKid, hin⟩
    rw [this] at hanc; cases hanc
  have ra : ReplArgs f a b q' vq' l A r t := ⟨sq, e0, hAn, hvq, hgb, htn, htd, hqt, hbA⟩
  refine ⟨q', vq', l, A, r, t, ra, ?_⟩
  rw [Forest.prevSibling_of_ctx hctx, Forest.nextSibling_of_ctx hctx]
  simp only
  by_cases hadj : prevOf l A = some b ∨ nextOf r A = some b
  · left
    refine ⟨hadj, ?_⟩
    have : (prevOf l A == some b || nextOf r A == some b) = true := by
      rcases hadj with h | h <;> simp [h]
    rw [this]; rfl
  · right
    have h1 : prevOf l A ≠ some b := fun h => hadj (Or.inl h)
    have h2 : nextOf r A ≠ some b := fun h => hadj (Or.inr h)
    refine ⟨⟨h1, h2⟩, ?_⟩
    have : (prevOf l A == some b || nextOf r A == some b) = false := by
      simp [h1, h2]
    rw [this]
    simp only [Bool.false_eq_true, if_false]
    rw [← e0, dropSubtree_of_site sq]
    cases prevOf l A with
    | none => rfl
    | some p =>
      simp only
      rcases hia : (f.editAt (some q') (dropTop A.handle)).insertAfter p b with ⟨f2, res⟩
      cases res <;> rfl

end XotModel
