/-
  FspecPairAppend2 — the specification `specMoveP` reduced to "insert into the forest after the
  cut, merge the moved node with its new neighbour" in the three geometries; the second half of
  `append` against it; `append_pair`.
-/
import XotModel.Lemmas.FspecPairAppend

namespace XotModel
open HTree Spec

namespace PairAppend

/-! ### The specification, reduced -/

/-- The moved node is a parentless tree. -/
theorem spec_root {f : Forest} {dest : Dest} {p c : Nat} {t : HTree} (hgc : f.get? c = some t)
    (hroot : f.ctx? c = none) (hocc : dest.occupiedBy f c = false) (hs : dest.site f = some p) :
    specMoveP dest c f = ((f.editAt none (dropTop c)).editAt (some p) (dest.insert t)).mergeNewAt p c := by
  rw [specMoveP_unfold hocc hgc hs, Forest.parent?_of_no_ctx hroot, Forest.mergeLeftAt_none]

/-- The moved node is a child of another node. -/
theorem spec_kid {f : Forest} {dest : Dest} {po p : Nat} {vo : Value} {l : List HTree} {t : HTree} {r : List HTree}
    {X : Forest} {l1 r1 : List HTree} (so : SiteAt f po vo (l ++ t :: r)) (O : Old f po vo l t r X l1 r1)
    (hne : po ≠ p) (hocc : dest.occupiedBy f t.handle = false) (hs : dest.site f = some p)
    (hnat : ∀ ψ, KidMap ψ → ψ t = t → NatFor ψ (dest.insert t)) :
    specMoveP dest t.handle f =
      ((X.editAt (some po) (dropTop t.handle)).editAt (some p) (dest.insert t)).mergeNewAt p t.handle := by
  obtain ⟨ndL, hpoL⟩ := so.nodupKids
  have hpot : po ∉ handles t := by
    intro hin
    apply hpoL
    rw [fs_handlesList_append, handlesList_cons]
    exact List.mem_append_right _ (List.mem_append_left _ hin)
  obtain ⟨ndL1, _⟩ := O.sX.nodupKids
  obtain ⟨tl, tr⟩ := tops_ne_of_nodup ndL
  obtain ⟨tl1, tr1⟩ := tops_ne_of_nodup ndL1
  rw [specMoveP_unfold hocc so.getKid hs, Forest.parent?_of_ctx so.ctx, so.nbOf, mergeLeftAt_eq,
    Forest.editAt_consolidation, Forest.editAt_consolidation]
  congr 1
  rw [Forest.editAt_comm _ hne (natFor_adjFn (kidMap_editAt _ _) _ _)
    (hnat _ (kidMap_editAt _ _) (editAt_of_not_mem t hpot)), Forest.editAt_editAt]
  congr 1
  rw [O.hX, Forest.editAt_editAt]
  apply so.congr
  simp only [Function.comp]
  rw [dropTop_mid rfl tl tr, dropTop_mid rfl tl1 tr1]
  exact O.adj_plain ndL

/-- The moved node is a child of the destination parent already: everything happens in one child
    list; `hadj` is the list fact that the old-place merge commutes with the insertion. -/
theorem spec_same {f : Forest} {dest : Dest} {p : Nat} {vp : Value} {l : List HTree} {t : HTree} {r : List HTree}
    {X : Forest} {l1 r1 : List HTree} (so : SiteAt f p vp (l ++ t :: r)) (O : Old f p vp l t r X l1 r1)
    (hocc : dest.occupiedBy f t.handle = false) (hs : dest.site f = some p)
    (hadj : adjFn f.consolidation (l.getLast?.map (·.handle), r.head?.map (·.handle)) (dest.insert t (l ++ r))
      = dest.insert t (l1 ++ r1)) :
    specMoveP dest t.handle f =
      ((X.editAt (some p) (dropTop t.handle)).editAt (some p) (dest.insert t)).mergeNewAt p t.handle := by
  obtain ⟨ndL, _⟩ := so.nodupKids
  obtain ⟨ndL1, _⟩ := O.sX.nodupKids
  obtain ⟨tl, tr⟩ := tops_ne_of_nodup ndL
  obtain ⟨tl1, tr1⟩ := tops_ne_of_nodup ndL1
  rw [specMoveP_unfold hocc so.getKid hs, Forest.parent?_of_ctx so.ctx, so.nbOf, mergeLeftAt_eq,
    Forest.editAt_consolidation, Forest.editAt_consolidation, mergeNewAt_eq, mergeNewAt_eq,
    Forest.editAt_consolidation, Forest.editAt_consolidation, Forest.editAt_consolidation,
    Forest.editAt_consolidation, Forest.editAt_consolidation, O.cons_eq, O.hX]
  simp only [Forest.editAt_editAt]
  apply so.congr
  simp only [Function.comp]
  rw [dropTop_mid rfl tl tr, dropTop_mid rfl tl1 tr1, hadj]

/-! ### The destination list with the node appended -/

theorem lastOf_concat (A : List HTree) (k : HTree) :
    Forest.lastOf (A ++ [k]) = if k.value.isNormal then some k.handle else none := by
  unfold Forest.lastOf
  rw [List.getLast?_concat]

theorem not_text_of_textData_none {k : HTree} (h : textData k = none) : ¬ k.value.isText = true := by
  intro ht
  obtain ⟨z, hz⟩ := isText_iff_textData.1 ht
  rw [h] at hz; cases hz

/-- `mergeNew` on `LY ++ [t]` when the moved node is not merged. -/
theorem mergeNew_last_keep {LY : List HTree} {t : HTree} (hnot : ∀ k ∈ LY, k.handle ≠ t.handle)
    (h : ∀ k, LY.getLast? = some k → ¬ (k.value.isText = true ∧ t.value.isText = true)) :
    mergeNew t.handle (LY ++ [t]) = LY ++ [t] := by
  rcases List.eq_nil_or_concat LY with e | ⟨A, a, e⟩
  · subst e; exact mergeNew_single _ _
  · rw [List.concat_eq_append] at e
    subst e
    have e1 : (A ++ [a]) ++ [t] = A ++ a :: t :: [] := by simp
    rw [e1, mergeNew_mid_right (h a (by simp)) A [] (fun x hx => hnot x (by simp [hx])) (hnot a (by simp))]
    rfl

/-! ### The second half of `append` -/

/-- `append` after the old-place consolidation, against "insert into `Y`, merge the new pair". -/
theorem appendTail_pair {X Y : Forest} {p c : Nat} {t : HTree} {vp : Value} {LY : List HTree}
    (S : Stage X Y p c t vp LY) (htc : t.handle = c)
    (hleaf_t : t.value.isText = true → t.kids = [])
    (hlast : X.consolidation = true → t.value.isText = true →
      X.selfPrev c (X.lastChild p) = Forest.lastOf LY)
    (hok : (appendTail X p c).2 = .ok) :
    (appendTail X p c).1 = (Y.editAt (some p) (insertLast t)).mergeNewAt p c := by
  subst htc
  have hYc : (Y.editAt (some p) (insertLast t)).consolidation = X.consolidation := by
    rw [Forest.editAt_consolidation, S.ycons]
  have hXtext : X.textOf t.handle = textData t := Forest.textOf_of_get S.xget
  -- Flow 1: no merge at the destination
  have flow1 : X.addConsolidate t.handle (X.lastChild p) none = (X, false) →
      (X.consolidation = true → ∀ k, LY.getLast? = some k → ¬ (k.value.isText = true ∧ t.value.isText = true)) →
      (appendTail X p t.handle).1 = (Y.editAt (some p) (insertLast t)).mergeNewAt p t.handle := by
    intro hr2 hseam
    unfold appendTail at hok ⊢
    rw [hr2] at hok ⊢
    simp only [Bool.false_eq_true, if_false] at hok ⊢
    have hr3 : (X.checkedAppend p t.handle).2 = true := by
      cases h : (X.checkedAppend p t.handle).2 with
      | true => rfl
      | false => rw [h] at hok; simp at hok
    rw [hr3]
    simp only [if_true]
    rw [Forest.checkedAppend_ok S.xnd S.xget hr3, S.xcut]
    rcases Bool.eq_false_or_eq_true X.consolidation with hc | hc
    · rw [Forest.mergeNewAt_on (hYc.trans hc), Forest.editAt_editAt]
      apply S.ysite.congr
      simp only [Function.comp, insertLast]
      exact (mergeNew_last_keep S.ynot (hseam hc)).symm
    · rw [Forest.mergeNewAt_off (hYc.trans hc)]
  rcases Bool.eq_false_or_eq_true X.consolidation with hc | hc
  case inr =>
    exact flow1 (Forest.addConsolidate_off hc _ _ _) (fun h => by rw [hc] at h; cases h)
  cases htd : textData t with
  | none =>
    exact flow1 (Forest.addConsolidate_not_text (hXtext.trans htd) _ _)
      (fun _ _ _ h => not_text_of_textData_none htd h.2)
  | some tc =>
    have htt : t.value.isText = true := isText_iff_textData.2 ⟨tc, htd⟩
    -- eccbbb7: the helper works with `selfPrev` of the last child, which is the last child of the
    -- list without the moved node (also when the old-place merge has made the node the last child)
    have hl : X.addConsolidate t.handle (X.lastChild p) none =
        X.addConsolidate t.handle (Forest.lastOf LY) none := by
      have hne : Forest.lastOf LY ≠ some t.handle := by
        intro e
        obtain ⟨L', ka, eL, eka, _⟩ := lastOf_eq_some e
        exact S.ynot ka (by rw [eL]; simp) eka
      rw [Forest.addConsolidate_eq_old, hlast hc htt, Forest.addConsolidate_eq_old,
        Forest.selfPrev_of_ne hne]
    rcases List.eq_nil_or_concat LY with e | ⟨A, ka, e⟩
    · subst e
      refine flow1 (by
        rw [hl]
        exact Forest.addConsolidate_none (fun a h => by cases h) (fun b h => by cases h)) ?_
      intro _ k hk; cases hk
    · rw [List.concat_eq_append] at e
      subst e
      rw [lastOf_concat] at hl
      have hkamem : ka ∈ A ++ [ka] := by simp
      cases hta : textData ka with
      | none =>
        refine flow1 (by
          rw [hl]
          apply Forest.addConsolidate_none
          · intro a h
            split at h
            · cases h; exact (S.xtext ka hkamem).trans hta
            · cases h
          · intro b h; cases h) ?_
        intro _ k hk ⟨h1, _⟩
        rw [List.getLast?_concat] at hk
        cases hk
        exact not_text_of_textData_none hta h1
      | some ta =>
        -- Flow 2: the moved text node is merged into the last child
        have hkat : ka.value.isText = true := isText_iff_textData.2 ⟨ta, hta⟩
        rw [if_pos (isNormal_of_text hkat)] at hl
        have hkac : ka.handle ≠ t.handle := S.ynot ka hkamem
        have hr2 : X.addConsolidate t.handle (X.lastChild p) none =
            ((X.setValue ka.handle (.text (ta ++ tc))).spliceOut t.handle, true) := by
          rw [hl]
          exact Forest.addConsolidate_prev hc (hXtext.trans htd) ((S.xtext ka hkamem).trans hta) _ hkac
        obtain ⟨ndLY, _⟩ := S.ysite.nodupKids
        have ndLY' : (handlesList (A ++ ka :: [])).Nodup := ndLY
        have hflow := S.flow ka.handle (.text (ta ++ tc)) ⟨ka, hkamem, rfl⟩ hkac (hleaf_t htt) (by
          intro k' hk' e
          have hk'' : k' ∈ A ++ ka :: [] := hk'
          rw [eq_of_handle ndLY' hk'' e]; exact hkat)
        unfold appendTail
        rw [hr2]
        simp only [if_true]
        rw [hflow, Forest.mergeNewAt_on (hYc.trans hc), Forest.editAt_editAt]
        apply S.ysite.congr
        simp only [Function.comp, insertLast]
        have e1 : A ++ [ka] = A ++ ka :: [] := rfl
        have e2 : (A ++ [ka]) ++ [t] = A ++ ka :: t :: [] := by simp
        rw [e2, mergeNew_mid_left (textData_some hta) (textData_some htd) A []
          (fun x hx => S.ynot x (by simp [hx])) hkac, e1, replaceTop_mid rfl (tops_ne_of_nodup ndLY').1]
        simp

/-! ### The destination child list after the old-place consolidation elsewhere -/

theorem lastOf_map {φ : HTree → HTree} (hφ : KidMap φ) (L : List HTree) :
    Forest.lastOf (L.map φ) = Forest.lastOf L := by
  unfold Forest.lastOf
  rw [List.getLast?_map]
  cases L.getLast? with
  | none => rfl
  | some k => simp only [Option.map_some, hφ.value, hφ.handle]

/-- A text child is not the node `p` whose value is not text. -/
theorem handle_ne_of_text {f : Forest} {po p : Nat} {vo vp : Value} {L Lp : List HTree} (so : SiteAt f po vo L)
    (sp : SiteAt f p vp Lp) (hvp : vp.isText = false) {a : HTree} (ha : a ∈ L) (hat : a.value.isText = true) :
    a.handle ≠ p := by
  intro e
  have := getMem so ha
  rw [e, sp.kids] at this
  have := Option.some.inj this
  rw [← this] at hat
  simp only [HTree.value] at hat
  rw [hvp] at hat; cases hat

theorem find?_leaf_none {x : Nat} {b : HTree} (hb : b.kids = []) (hne : b.handle ≠ x) : find? x b = none := by
  cases b with
  | node bh bv bks =>
    simp only [HTree.kids] at hb
    simp only [HTree.handle] at hne
    subst hb
    rw [find?_node, if_neg hne, findList?_nil]

/-- The destination parent `p ≠ po` seen after the old-place consolidation at `po`. -/
theorem Old.other {f : Forest} {po p : Nat} {vo vp : Value} {l : List HTree} {t : HTree} {r Lp : List HTree}
    {X : Forest} {l1 r1 : List HTree} (O : Old f po vo l t r X l1 r1) (inv : f.Inv)
    (so : SiteAt f po vo (l ++ t :: r)) (sp : SiteAt f p vp Lp) (hne : po ≠ p) (hvp : vp.isText = false) :
    SiteAt X p vp (Lp.map (HTree.editAt po (fun _ => l1 ++ t :: r1))) := by
  rw [O.hX]
  rcases O.shape with ⟨e1, e2, _⟩ | ⟨hc, l', a, b, r', x, y, el, er, hx, hy, e1, e2⟩
  · rw [e1, e2]
    exact so.other sp.kids hne.symm _ (List.Sublist.refl _) rfl
  · subst el er
    rw [e1, e2]
    have hat : a.value.isText = true := by rw [hx]; rfl
    have hbt : b.value.isText = true := by rw [hy]; rfl
    have hap : a.handle ≠ p := handle_ne_of_text so sp hvp (by simp) hat
    have hbp : b.handle ≠ p := handle_ne_of_text so sp hvp (by simp) hbt
    have hbleaf : b.kids = [] := so.leaf inv.valid b (by simp) hbt
    apply so.other sp.kids hne.symm
    · simp only [fs_handlesList_append, handlesList_cons, setValue_handles, handlesList_nil, List.append_nil]
      exact (List.Sublist.refl _).append ((List.Sublist.refl _).append (List.sublist_append_right _ _))
    · simp only [findList?_append, findList?_cons, findList?_nil, find?_setValue _ hap, find?_leaf_none hbleaf hbp]
      rfl

/-- `t` (normal) is the last child: `last_child` finds it. -/
theorem lastOf_self {l : List HTree} {t : HTree} (hn : t.value.isNormal = true) :
    Forest.lastOf (l ++ t :: []) = some t.handle := by
  have : l ++ t :: [] = l ++ [t] := rfl
  rw [this, lastOf_concat, if_pos hn]

end PairAppend

open PairAppend

/-- The last child is not the moved node: the helper takes it as it is. -/
theorem selfPrev_last {X : Forest} {p c : Nat} {LY : List HTree} (hnot : ∀ k ∈ LY, k.handle ≠ c)
    (h : X.lastChild p = Forest.lastOf LY) : X.selfPrev c (X.lastChild p) = Forest.lastOf LY := by
  rw [h]
  apply Forest.selfPrev_of_ne
  intro e
  obtain ⟨L', ka, eL, eka, _⟩ := lastOf_eq_some e
  exact hnot ka (by rw [eL]; simp) eka

/-- **append**, pair reading: for every forest satisfying the invariant (adjacent text nodes
    allowed) the model's `append` is the specification `specMoveP` — cut, graft as last child, merge
    exactly the pair the node separated and exactly the node with the text node it now follows;
    also in the corner `selfMerge` (the old-place merge makes the node the last child already:
    since xot eccbbb7 the helper then merges it into its own previous sibling). -/
theorem append_pair {f : Forest} {p c : Nat} (inv : f.Inv) (hok : (f.append p c).2 = .ok) :
    (f.append p c).1 = specMoveP (.lastChildOf p) c f := by
  have nd := inv.nodup
  have hsc : f.structureCheck (some p) c = true := by
    cases h : f.structureCheck (some p) c with
    | true => rfl
    | false => rw [Forest.append_unfold] at hok; simp [h] at hok
  obtain ⟨vp, Lp, t, hgp, hgc, hpt, hnorm, hndoc, hvp⟩ := Forest.structureCheck_unpack nd hsc
  have sp : SiteAt f p vp Lp := ⟨nd, hgp⟩
  have htc : t.handle = c := (findList?_some f.roots t hgc).1
  have hlast : f.lastChild p = Forest.lastOf Lp := Forest.lastChild_of_get hgp
  have hoccIff := occupied_lastChild sp hgc hnorm
  by_cases hsame : Forest.lastOf Lp = some c
  · have hocc := hoccIff.2 hsame
    rw [Forest.append_unfold]
    unfold specMoveP
    simp [hsc, hlast, hsame, hocc]
  · have hocc : Dest.occupiedBy f c (.lastChildOf p) = false := by
      cases h : Dest.occupiedBy f c (.lastChildOf p) with
      | false => rfl
      | true => exact absurd (hoccIff.1 h) hsame
    have hsame' : ¬ f.lastChild p = some c := by rw [hlast]; exact hsame
    have hsite : Dest.site f (.lastChildOf p) = some p := by
      simp [Dest.site, Forest.isLive_of_get sp.kids]
    have hleaf_t : t.value.isText = true → t.kids = [] := leaf_of_text inv.valid hgc
    have hvpt : vp.isText = false := not_text_of_kids hvp
    rw [append_eq_tail hsc hsame'] at hok ⊢
    rcases Forest.root_or_ctx hgc with hroot | ⟨cx, hctx⟩
    · have hno := Forest.ctx_none_of_root nd hroot
      have hr1 : f.removeConsolidate (f.prevSibling c) (f.nextSibling c) = (f, false) := by
        rw [Forest.prevSibling_of_no_ctx hno]; exact Forest.removeConsolidate_none_left _ _
      rw [hr1] at hok ⊢
      rw [spec_root hgc hno hocc hsite]
      have St := stage_root inv sp hgc hno hpt
      exact appendTail_pair St htc hleaf_t (fun _ _ => selfPrev_last St.ynot hlast) hok
    · obtain ⟨e0, vo, so⟩ := SiteAt.of_ctx nd hctx
      have hself : cx.self = t := by
        have := Forest.get?_of_ctx nd hctx
        rw [hgc] at this
        exact (Option.some.inj this).symm
      obtain ⟨po, l, k, r⟩ := cx
      simp only at e0 so hself
      subst hself
      subst htc
      rw [Forest.prevSibling_of_ctx hctx, Forest.nextSibling_of_ctx hctx] at hok ⊢
      simp only at hok ⊢
      obtain ⟨l1, r1, O⟩ := old_pair inv so
      obtain ⟨ndL, _⟩ := so.nodupKids
      by_cases hpo : po = p
      · subst hpo
        have : vo = vp ∧ l ++ k :: r = Lp := by
          have := so.kids
          rw [hgp] at this
          have := Option.some.inj this
          injection this with _ e2 e3
          exact ⟨e2.symm, e3.symm⟩
        obtain ⟨ev, eL⟩ := this
        subst ev eL
        rw [spec_same so O hocc hsite (O.adj_last ndL)]
        have St := stage_same O.sX (O.leaf inv so)
        refine appendTail_pair St rfl hleaf_t ?_ hok
        intro hcX htt
        rcases List.eq_nil_or_concat r1 with e | ⟨r2, kb, e⟩
        · -- the old-place merge has made the node the last child (`selfMerge`): the helper
          -- takes the node's own previous sibling, the merged text node
          rcases O.shape with ⟨_, e2, _⟩ | ⟨hc, l', a, b, r', x, y, el, er, hx, hy, e1, e2⟩
          · exfalso
            rw [e] at e2
            rw [← e2] at hsame
            exact hsame (lastOf_self hnorm)
          · subst e
            rw [Forest.lastChild_of_get O.sX.kids, lastOf_self hnorm, Forest.selfPrev_self,
              Forest.prevSibling_of_ctx O.sX.ctx]
            simp only [e1, List.append_nil]
            have han : (a.setValue (.text (x ++ y))).value.isNormal = true := by
              rw [setValue_value]; rfl
            rw [lastOf_concat, if_pos han]
            have c1 : (a.setValue (.text (x ++ y))).value.category = .normal := by
              simpa [Value.isNormal] using han
            have c2 : k.value.category = .normal := by simpa [Value.isNormal] using hnorm
            simp [prevOf, c1, c2]
        · rw [List.concat_eq_append] at e
          apply selfPrev_last St.ynot
          rw [Forest.lastChild_of_get O.sX.kids, e, lastOf_append_cons, List.append_assoc]
      · have sXp := O.other inv so sp hpo hvpt
        rw [spec_kid so O hpo hocc hsite (fun ψ _ hψ => natFor_insertLast hψ)]
        have hvok : vo.isText = false := not_text_of_kids (by
          -- the old parent has children
          have hv := (validTree_node (so.valid inv.valid)).1 k (by simp)
          cases vo <;> simp_all [kidAllowed, Value.isElement, Value.isDocument])
        have St := stage_kid O.sX sXp hpo hpt hvok
        refine appendTail_pair St rfl hleaf_t ?_ hok
        intro _ _
        apply selfPrev_last St.ynot
        rw [Forest.lastChild_of_get sXp.kids, lastOf_map (kidMap_editAt _ _), lastOf_map (kidMap_editAt _ _),
          lastOf_map (kidMap_editAt _ _)]

end XotModel
