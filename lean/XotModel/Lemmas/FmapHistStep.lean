/-
  Lemmas for C11 histories, part 4: one step of a history (`step_all`): from a forest satisfying
  the invariant whose views agree with a reference family `F`, an update whose side conditions
  hold returns `ok` and reaches a forest satisfying the invariant whose views agree with
  `specStep F op`; elements stay elements, and the (key, node) list of every view of every node
  changes by `KNStep` only.
-/
import XotModel.Lemmas.FmapHistOps

namespace XotModel
namespace Fmap
open HTree
open Forest (MapKind entryKey mapChildren MapEntry)

/-- The views of the forest are the maps of the family. -/
def Agree (f : Forest) (F : Fam) : Prop := ∀ x k, abs k f x = F x k

/-- What one step of a history establishes. -/
structure StepOK (f f' : Forest) (F' : Fam) : Prop where
  inv : f'.Inv
  agree : Agree f' F'
  elem : ∀ x, f'.isElement x = f.isElement x
  kn : ∀ x k, KNStep (absKN k f x) (absKN k f' x)

theorem StepOK.refl {f : Forest} {F : Fam} (hi : f.Inv) (hF : Agree f F) : StepOK f f F :=
  ⟨hi, hF, fun _ => rfl, fun _ _ => KNStep.refl _⟩

theorem Touch.stepOK {f f' : Forest} {F : Fam} {e : Nat} {k : MapKind}
    {g : OMap Payload → OMap Payload} (t : Touch f f' e k (g (abs k f e)))
    (hF : Agree f F) (he : f.isElement e = true) : StepOK f f' (F.upd e k g) := by
  refine ⟨t.inv, ?_, ?_, ?_⟩
  · intro x k'
    unfold Fam.upd Fam.set
    by_cases hx : x = e
    · subst hx
      by_cases hk : k' = k
      · subst hk
        rw [if_pos ⟨rfl, rfl⟩, t.same, hF]
      · rw [if_neg (fun h => hk h.2), abs_of_absHV, t.other k' hk, ← abs_of_absHV, hF]
    · rw [if_neg (fun h => hx h.1), (t.frame x hx).abs, hF]
  · intro x
    by_cases hx : x = e
    · subst hx; rw [t.elem, he]
    · exact (t.frame x hx).elem
  · intro x k'
    by_cases hx : x = e
    · subst hx
      by_cases hk : k' = k
      · subst hk; exact t.kn
      · apply KNStep.of_eq
        rw [absKN_of_absHV, absKN_of_absHV, t.other k' hk]
    · exact KNStep.of_eq ((t.frame x hx).kn k')

/-! ### Own node, foreign node -/

theorem getNode_mem_sec {f : Forest} {e nm : Nat} {N A S : List HTree} (h : MInv f e nm N A S)
    (k : MapKind) (key : Nat) (n : HTree) (hn : f.mapGetNode k e key = some n) :
    n ∈ Sect.sec k N A := by
  rw [h.getNode k] at hn
  exact List.mem_of_find?_eq_some hn

theorem getNode_value {f : Forest} (hi : f.Inv) (k : MapKind) (e key : Nat) (n : HTree)
    (he : f.isElement e = true) (hn : f.mapGetNode k e key = some n) :
    f.value? n.handle = some n.value ∧ k.matches n.value = true ∧ entryKey n.value = key := by
  obtain ⟨nm, N, A, S, h⟩ := minv_of_inv f e hi he
  have hs := getNode_mem_sec h k key n hn
  have hnk : n ∈ N ++ A ++ S := by
    cases k
    · exact List.mem_append_left _ (List.mem_append_right _ hs)
    · exact List.mem_append_left _ (List.mem_append_left _ hs)
  obtain ⟨hc, hk⟩ := getNode_cat hi k e key n he hn
  exact ⟨by simp [Forest.value?, h.loc.childFound n hnk], (matches_iff_cat k _).mpr hc, hk⟩

/-- Appending a node that is an entry of this very view is the identity. -/
theorem appendOwn_eq {f : Forest} (hi : f.Inv) (k : MapKind) (e key : Nat) (n : HTree)
    (he : f.isElement e = true) (hn : f.mapGetNode k e key = some n) :
    f.appendEntryNode k e n.handle = (f, .ok, n.handle) := by
  obtain ⟨nm, N, A, S, h⟩ := minv_of_inv f e hi he
  exact appendEntryNode_own h k n (getNode_mem_sec h k key n hn)

/-- Appending to `e` an entry node of another element `e2` whose key `e` lacks computes the same
    as appending it after it has been detached. -/
theorem appendEntryNode_moved {f : Forest} (hi : f.Inv) (k : MapKind) (e e2 key : Nat) (n : HTree)
    (he : f.isElement e = true) (he2 : f.isElement e2 = true) (hne : e ≠ e2)
    (hn : f.mapGetNode k e2 key = some n) (habs : f.mapGetNode k e (entryKey n.value) = none) :
    f.appendEntryNode k e n.handle = (f.detach n.handle).1.appendEntryNode k e n.handle := by
  obtain ⟨nm, N, A, S, h⟩ := minv_of_inv f e hi he
  obtain ⟨nm2, N2, A2, S2, h2⟩ := minv_of_inv f e2 hi he2
  have hs2 := getNode_mem_sec h2 k key n hn
  obtain ⟨_, s1, s2, hs, _⟩ := getNode_of_mem h2 k n hs2
  have hncat : n.value.category = kindCat k := h2.sect.sec_cat k n hs2
  have hmv : k.matches n.value = true := (matches_iff_cat k _).mpr hncat
  have hloc2 : Located f e2 (.element nm2) ((preK k N2 ++ s1) ++ n :: (s2 ++ postK k A2 S2)) := by
    rw [← kids_around k N2 A2 S2 s1 s2 n hs]; exact h2.loc
  have a : Attached f e2 (.element nm2) (preK k N2 ++ s1) (s2 ++ postK k A2 S2) n :=
    ⟨hloc2, h2.leaf k n hs2⟩
  have hdet := detach_child hloc2 (by rw [hncat]; exact kindCat_ne_normal k)
  have hfd : (f.detach n.handle).1 = a.fd := by rw [hdet]; rfl
  rw [hfd]
  exact appendEntryNode_attached_eq h a hne k hmv habs

/-- The move: `e` lacks the key, the entry node of `e2` goes to the end of `e`'s view. -/
theorem stepOK_move {f : Forest} {F : Fam} (hi : f.Inv) (hF : Agree f F) (k : MapKind)
    (e e2 key : Nat) (n : HTree) (he : f.isElement e = true) (he2 : f.isElement e2 = true)
    (hne : e ≠ e2) (hn : f.mapGetNode k e2 key = some n) (habs : f.mapGetNode k e key = none) :
    (f.appendEntryNode k e n.handle).2.1 = .ok ∧
    StepOK f (f.appendEntryNode k e n.handle).1
      ((F.upd e2 k (fun m => omRemove m key)).upd e k
        (fun m => omInsert m key (payloadOf n.value))) := by
  obtain ⟨nm2, N2, A2, S2, h2⟩ := minv_of_inv f e2 hi he2
  obtain ⟨_, t2, hroot, hmv, hkey⟩ := touch_detach hi h2 k key n hn
  have habs' : f.mapGetNode k e (entryKey n.value) = none := by rw [hkey]; exact habs
  rw [appendEntryNode_moved hi k e e2 key n he he2 hne hn habs']
  have s2 := t2.stepOK (g := fun m => omRemove m key) hF he2
  have hefd : (f.detach n.handle).1.isElement e = true := by rw [s2.elem]; exact he
  obtain ⟨hok, t1⟩ := touch_appendLeafRoot t2.inv k e n.handle n.value hefd hmv hroot
  have t1' : Touch (f.detach n.handle).1 ((f.detach n.handle).1.appendEntryNode k e n.handle).1 e k
      ((fun m => omInsert m key (payloadOf n.value)) (abs k (f.detach n.handle).1 e)) := by
    have := t1
    unfold opInsert at this
    rw [hkey] at this
    exact this
  have s1 := t1'.stepOK (g := fun m => omInsert m key (payloadOf n.value)) s2.agree hefd
  refine ⟨hok, s1.inv, s1.agree, fun x => (s1.elem x).trans (s2.elem x), ?_⟩
  intro x k'
  by_cases hx : x = e
  · subst hx
    have : absKN k' (f.detach n.handle).1 x = absKN k' f x := (t2.frame x hne).kn k'
    rw [← this]
    exact s1.kn x k'
  · have : absKN k' ((f.detach n.handle).1.appendEntryNode k e n.handle).1 x =
        absKN k' (f.detach n.handle).1 x := (t1.frame x hx).kn k'
    rw [this]
    exact s2.kn x k'

/-- `append_*_node(e, get_node of (e2, key))` for `e2 ≠ e`, all cases. -/
theorem stepOK_appendEntryOf {f : Forest} {F : Fam} (hi : f.Inv) (hF : Agree f F) (k : MapKind)
    (e e2 key : Nat) (he : f.isElement e = true) (he2 : f.isElement e2 = true) (hne : e ≠ e2) :
    let r : Forest × Res := match f.mapGetNode k e2 key with
      | some n => res3 (f.appendEntryNode k e n.handle)
      | none => (f, .ok)
    r.2 = .ok ∧ StepOK f r.1 (specAppendEntryOf F k e e2 key) := by
  intro r
  unfold specAppendEntryOf
  rw [if_neg (fun h => hne h.symm), ← hF e2 k, ← hF e k]
  cases hn : f.mapGetNode k e2 key with
  | none =>
    have hg := get_none_of_not_contains _ _ ((getNode_none_iff f k e2 key).mp hn)
    simp only [r, hn, hg]
    exact ⟨trivial, StepOK.refl hi hF⟩
  | some n =>
    have hg := getNode_payload f k e2 key n hn
    obtain ⟨hval, hmv, hkey⟩ := getNode_value hi k e2 key n he2 hn
    simp only [r, hn, hg, res3]
    cases hn0 : f.mapGetNode k e key with
    | some n0 =>
      have hc : omContainsKey (abs k f e) key = true := by rw [← containsKey_eq, hn0]; rfl
      simp only [hc, if_true]
      obtain ⟨nm, N, A, S, h⟩ := minv_of_inv f e hi he
      have hn0' : f.mapGetNode k e (entryKey n.value) = some n0 := by rw [hkey]; exact hn0
      obtain ⟨_, _, heq, _, _⟩ := appendEntryNode_existing h k n.handle n.value hval hmv n0 hn0'
      rw [heq]
      have t := touch_setValue hi h k key n0 n.value hmv hn0
      exact ⟨rfl, t.stepOK (g := fun m => omInsert m key (payloadOf n.value)) hF he⟩
    | none =>
      have hc := (getNode_none_iff f k e key).mp hn0
      simp only [hc, Bool.false_eq_true, if_false]
      exact stepOK_move hi hF k e e2 key n he he2 hne hn hn0

/-- The same for `e2 = e` or not, as `any_append` / `append_*_node` of `get_node(e2, key)`. -/
theorem stepOK_appendRef {f : Forest} {F : Fam} (hi : f.Inv) (hF : Agree f F) (k : MapKind)
    (e e2 key : Nat) (he : f.isElement e = true) (he2 : f.isElement e2 = true) :
    let r : Forest × Res := match f.mapGetNode k e2 key with
      | some n => res3 (f.appendEntryNode k e n.handle)
      | none => (f, .ok)
    r.2 = .ok ∧ StepOK f r.1 (specAppendEntryOf F k e e2 key) := by
  by_cases hne : e = e2
  · subst hne
    intro r
    have hs : specAppendEntryOf F k e e key = F := by simp [specAppendEntryOf]
    rw [hs]
    cases hn : f.mapGetNode k e key with
    | none => simp only [r, hn]; exact ⟨trivial, StepOK.refl hi hF⟩
    | some n =>
      simp only [r, hn, res3]
      rw [appendOwn_eq hi k e key n he hn]
      exact ⟨rfl, StepOK.refl hi hF⟩
  · exact stepOK_appendEntryOf hi hF k e e2 key he he2 hne

theorem kindOf_matches (v : Value) (k : MapKind) (h : kindOf? v = some k) : k.matches v = true := by
  cases v <;> simp [kindOf?] at h <;> subst h <;> rfl

theorem isDetachedEntry_root {f : Forest} (hi : f.Inv) (k : MapKind) (nd : Nat) (v : Value)
    (h : isDetachedEntry f k nd v = true) : HTree.node nd v [] ∈ f.roots ∧ k.matches v = true ∧
      f.value? nd = some v := by
  simp only [isDetachedEntry, Bool.and_eq_true, beq_iff_eq] at h
  exact ⟨leafRoot_of_inv f hi k nd v h.1.1 h.1.2 h.2, h.2, h.1.2⟩

end Fmap
end XotModel
