/-
  Completeness of `WellNsDoc`, part 4: the reconstruction, by induction over the length of the
  token list (the builder's loop): an accepted list begins with the tokens of a well-formed list of
  sibling spellings.
-/
import XotModel.Lemmas.ParseNsCompleteNodes

namespace XotModel

/-- `>` or `/>` was accepted: `open_element` succeeded. -/
theorem endtok_open_inv {b b2 : Builder} {e : ElementEnd} {sp : StrSpan} (he : e = .open ∨ e = .empty)
    (h : b.step (.elementEnd e sp) = .ok b2) : ∃ b3, b.openElement = .ok b3 := by
  rcases he with rfl | rfl
  · exact ⟨b2, by simpa only [Builder.step] using h⟩
  · simp only [Builder.step] at h
    cases hb : b.openElement with
    | ok b3 => exact ⟨b3, rfl⟩
    | err e env => rw [hb] at h; cases h
    | panic => rw [hb] at h; cases h

theorem ids_chars (scope : Scope) (parts : List SPart) :
    NPNode.ids.idsList ((NSNode.chars parts).denote scope) = [] := by
  simp only [NSNode.denote]
  split <;> simp [NPNode.ids.idsList, NPNode.ids]

/-- The reconstruction stops: no node, the whole list is left. -/
theorem complete_stop (ts : List Token) (frames : List (List (Str × Str))) (seen : List Str)
    (htags : TagsOk false ts) (hrest : ts = [] ∨ ∃ p l sp r, ts = .elementEnd (.close p l) sp :: r) :
    ∃ sns rest, ts = NSNode.tokens.tokensList sns ++ rest ∧
      NSNode.Well.wellList (flatScope frames) sns ∧ noAdjCharsNs sns = true ∧
      IdsFresh (NPNode.ids.idsList (NSNode.denote.denoteList (flatScope frames) sns)) seen ∧
      (∀ sn more, sns = sn :: more → sn.isChars = true → ∃ t r, ts = t :: r ∧ t.isCharsTok = true) ∧
      (rest = [] ∨ ∃ p l sp r, rest = .elementEnd (.close p l) sp :: r) ∧ TagsOk false rest :=
  ⟨[], ts, rfl, trivial, rfl, idsFresh_nil _, fun _ _ h => (by cases h), hrest, htags⟩

theorem complete_upTo : ∀ n, CompleteUpTo n := by
  intro n
  induction n with
  | zero =>
    intro ts hlen htags _ b frames _ _ _ _ _
    have : ts = [] := List.eq_nil_of_length_eq_zero (by omega)
    subst this
    exact complete_stop [] frames b.seenIds htags (Or.inl rfl)
  | succ n ih =>
    intro ts hlen htags hplain b frames bfin hr hhead hdoc hrun
    cases ts with
    | nil => exact complete_stop [] frames b.seenIds htags (Or.inl rfl)
    | cons t ts1 =>
      have hlen1 : ts1.length ≤ n := by simpa using hlen
      have hplain1 : ∀ x ∈ ts1, x.plain = true := fun x hx => hplain x (by simp [hx])
      cases hcd : t.isCharsTok with
      | true =>
        -- a run of character data
        obtain ⟨cs, ts', hsplit, hcs, hnext⟩ := chardata_split (t :: ts1)
        cases cs with
        | nil =>
          simp only [List.nil_append] at hsplit
          have := hnext t ts1 hsplit.symm
          rw [hcd] at this; cases this
        | cons c cs1 =>
          have hl' : ts'.length ≤ n := by
            have := congrArg List.length hsplit
            simp only [List.length_cons, List.length_append] at this hlen
            omega
          have hmem : ∀ x, x ∈ (c :: cs1) ++ ts' → x.plain = true := by
            intro x hx; rw [← hsplit] at hx; exact hplain x hx
          rw [hsplit] at hrun htags
          obtain ⟨parts, hp1, hp2⟩ := run_chardata_inv (c :: cs1) hcs
            (fun x hx => hmem x (List.mem_append_left _ hx)) b ts' bfin hrun
          have htok : (NSNode.chars parts).tokens = c :: cs1 := by simp only [NSNode.tokens, hp1]
          have hres := complete_cons ih (.chars parts) ts' hl' (tagsOk_chardata_append _ hcs _ htags)
            (fun x hx => hmem x (List.mem_append_right _ hx)) hr hp2 (fun _ => hhead t ts1 rfl hcd)
            (by rw [ids_chars]; exact idsFresh_nil _)
            (fun _ => ⟨c, cs1, htok, hcs c (by simp)⟩) (fun _ => hnext) hdoc (by rw [htok]; exact hrun)
          rw [htok, ← hsplit] at hres
          exact hres
      | false =>
        cases t with
        | text s => simp [Token.isCharsTok] at hcd
        | cdata s sp => simp [Token.isCharsTok] at hcd
        | declaration v e s sp => have := hplain _ (List.mem_cons_self ..); simp [Token.plain] at this
        | dtdStart sp => obtain ⟨_, hs, _⟩ := run_cons_ok hrun; simp [Builder.step] at hs
        | dtdEnd sp => obtain ⟨_, hs, _⟩ := run_cons_ok hrun; simp [Builder.step] at hs
        | emptyDtd sp => obtain ⟨_, hs, _⟩ := run_cons_ok hrun; simp [Builder.step] at hs
        | entityDecl sp => obtain ⟨_, hs, _⟩ := run_cons_ok hrun; simp [Builder.step] at hs
        | «attribute» p l v sp => simp [TagsOk] at htags
        | comment text junk =>
          simp only [TagsOk] at htags
          exact complete_cons ih (.comment text junk) ts1 hlen1 htags hplain1 hr trivial
            (fun h => by simp [NSNode.isChars] at h)
            (by simp only [NSNode.denote, NPNode.ids.idsList, NPNode.ids, List.append_nil]; exact idsFresh_nil _)
            (fun h => by simp [NSNode.isChars] at h) (fun h => by simp [NSNode.isChars] at h) hdoc hrun
        | pi target content junk =>
          simp only [TagsOk] at htags
          have hnr : isReservedPiTarget target.text = false := by
            obtain ⟨_, hs, _⟩ := run_cons_ok hrun
            cases hrt : isReservedPiTarget target.text with
            | false => rfl
            | true => simp [Builder.step, hrt] at hs
          exact complete_cons ih (.pi target content junk) ts1 hlen1 htags hplain1 hr hnr
            (fun h => by simp [NSNode.isChars] at h)
            (by simp only [NSNode.denote, NPNode.ids.idsList, NPNode.ids, List.append_nil]; exact idsFresh_nil _)
            (fun h => by simp [NSNode.isChars] at h) (fun h => by simp [NSNode.isChars] at h) hdoc hrun
        | elementEnd e sp =>
          cases e with
          | close p l => exact complete_stop _ frames b.seenIds htags (Or.inr ⟨p, l, sp, ts1, rfl⟩)
          | «open» => simp [TagsOk] at htags
          | empty => simp [TagsOk] at htags
        | elementStart pfx loc junk =>
          have htags' : TagsOk true ts1 := by simpa only [TagsOk] using htags
          rcases tagsOk_true_split ts1 htags' with ⟨toks, e, endSp, rest, hts1, hattr, he, htr⟩ | hattr
          · subst hts1
            have hlenr : rest.length ≤ n := by
              simp only [List.length_append, List.length_cons] at hlen1; omega
            have hplainr : ∀ x ∈ rest, x.plain = true := fun x hx => hplain1 x (by simp [hx])
            obtain ⟨hbc, attrs, ha1, ha2, ha3, ha5, _, ha8, hrun2⟩ :=
              start_tag_inv hr pfx loc junk toks hattr _ bfin hrun
            obtain ⟨b2, hstep2, hrun3⟩ := run_cons_ok hrun2
            obtain ⟨b3, hb3⟩ := endtok_open_inv he hstep2
            obtain ⟨hp, i1, i3, i4, i5⟩ := openElement_inv hr pfx loc attrs hb3
            have hwa : attrsWellNs ((flatScope frames).push (declsOf attrs)) attrs := ⟨ha2, ha3, ha5, i3, i1, ha8⟩
            have hidA : IdsFresh (attrIds (attrsOf ((flatScope frames).push (declsOf attrs)) attrs)) b.seenIds :=
              ⟨i4, i5⟩
            rcases he with rfl | rfl
            · -- `>`: the children, then the end tag
              obtain ⟨idn0, sp0, hopen⟩ := openElement_ns hr pfx loc attrs hwa hp i4 i5
              simp only [Builder.step] at hstep2
              rw [hopen] at hstep2
              have hb2 := (Step.ok.inj hstep2).symm
              subst hb2
              have hr1 := readyNs_opened hr pfx.text (((flatScope frames).push (declsOf attrs)).resolve pfx.text)
                loc.text (declsOf attrs) (attrsOf ((flatScope frames).push (declsOf attrs)) attrs) idn0 sp0
              obtain ⟨kids, restk, ek1, ek2, ek3, ek4, _, ek6, ek7⟩ := ih rest hlenr htr hplainr _
                (declsOf attrs :: frames) bfin hr1 (fun _ _ _ _ => headOk_openedNs b _ _ _ _ _ idn0 sp0) hdoc hrun3
              obtain ⟨hsim, _⟩ := sim_list_ns kids (declsOf attrs :: frames) ek2 ek3 _ hr1
                (fun _ _ _ _ => headOk_openedNs b _ _ _ _ _ idn0 sp0) ek4
              obtain ⟨idnk, spk, hk⟩ := hsim restk none
              rw [ek1, hk] at hrun3
              rcases ek6 with hnil | ⟨cpfx, cloc, closeSp, r, hcl⟩
              · -- nothing follows: the final state would be inside the element
                exfalso
                subst hnil
                simp only [Builder.run, Builder.emitNs, Builder.openedNs] at hrun3
                have hfin := (Step.ok.inj hrun3).symm
                subst hfin
                simp [Value.isDocument] at hdoc
              · subst hcl
                obtain ⟨b4, hstep4, _⟩ := run_cons_ok hrun3
                obtain ⟨u, hu⟩ := Option.isSome_iff_exists.mp hp
                have hres : ((flatScope frames).push (declsOf attrs)).resolve pfx.text = u := by
                  simp [Scope.resolve, hu]
                obtain ⟨hcp, hcn, hbcp⟩ := close_inv hr pfx.text
                  (((flatScope frames).push (declsOf attrs)).resolve pfx.text) loc.text (declsOf attrs)
                  (attrsOf ((flatScope frames).push (declsOf attrs)) attrs) idn0 sp0 _ _ _ idnk spk
                  (encodeNsList_app _ _) cpfx cloc closeSp (by rw [hres]; exact hu) hstep4
                have htok : (NSNode.elem pfx loc junk attrs endSp kids cpfx cloc closeSp).tokens ++ r =
                    .elementStart pfx loc junk :: (toks ++ .elementEnd .open endSp :: rest) := by
                  rw [ek1]; simp [NSNode.tokens, ha1]
                have hlr : r.length ≤ n := by
                  have := congrArg List.length ek1
                  simp only [List.length_append, List.length_cons] at this
                  omega
                have hplr : ∀ x ∈ r, x.plain = true := fun x hx => hplainr x (by rw [ek1]; simp [hx])
                simp only [TagsOk] at ek7
                have hres2 := complete_cons ih (.elem pfx loc junk attrs endSp kids cpfx cloc closeSp) r hlr ek7 hplr hr
                  ⟨hwa, hp, hcp, hcn, ek3, ek2, hbc, hbcp⟩ (fun h => by simp [NSNode.isChars] at h)
                  (by
                    simp only [NSNode.denote, NPNode.ids.idsList, NPNode.ids, List.append_nil]
                    exact hidA.join ek4)
                  (fun h => by simp [NSNode.isChars] at h) (fun h => by simp [NSNode.isChars] at h) hdoc
                  (by rw [htok]; exact hrun)
                rw [htok] at hres2
                exact hres2
            · -- `/>`
              have htok : (NSNode.empty pfx loc junk attrs endSp).tokens ++ rest =
                  .elementStart pfx loc junk :: (toks ++ .elementEnd .empty endSp :: rest) := by
                simp [NSNode.tokens, ha1]
              have hres2 := complete_cons ih (.empty pfx loc junk attrs endSp) rest hlenr htr hplainr hr
                ⟨hwa, hp, hbc⟩ (fun h => by simp [NSNode.isChars] at h)
                (by
                  simp only [NSNode.denote, NPNode.ids.idsList, NPNode.ids, List.append_nil]
                  exact hidA)
                (fun h => by simp [NSNode.isChars] at h) (fun h => by simp [NSNode.isChars] at h) hdoc
                (by rw [htok]; exact hrun)
              rw [htok] at hres2
              exact hres2
          · -- the list ends inside the start tag
            exfalso
            obtain ⟨_, attrs, _, _, _, _, _, _, hrun2⟩ :=
              start_tag_inv hr pfx loc junk ts1 hattr [] bfin (by simpa using hrun)
            simp [Builder.run] at hrun2

end XotModel
