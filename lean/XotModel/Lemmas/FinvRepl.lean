/-
  Finv (C04), part 32: `replace` when the replaced node sits between two text nodes in strict mode
  — set-up.  `f1 = remove_subtree(replaced)` has the two text nodes adjacent; the argument checks
  of `insert_after(previous, replacing)` on `f1` are evaluated here, and the neighbours of the
  replacing node are the same in `f` and in `f1`.
-/
import XotModel.Lemmas.FinvComm

namespace XotModel
open HTree

namespace Forest

/-- Shape of a node's child list when it has a previous and a next sibling. -/
theorem sibs_shape {f : Forest} (nd : f.allHandles.Nodup) {c p n : Nat} {path l C r}
    (lc : Loc f.roots c path l C r) (hp : f.prevSibling c = some p) (hn : f.nextSibling c = some n) :
    ∃ init fr l0 P N r0, path = init ++ [fr] ∧ l = l0 ++ [P] ∧ r = N :: r0 ∧ P.handle = p ∧
      N.handle = n ∧ P.value.category = C.value.category ∧ N.value.category = C.value.category := by
  rcases List.eq_nil_or_concat path with h0 | ⟨init, fr, h0⟩
  · subst h0; rw [prevSibling_of_loc_nil lc nd] at hp; cases hp
  rw [List.concat_eq_append] at h0
  subst h0
  rw [prevSibling_of_loc_snoc lc nd] at hp
  rw [nextSibling_of_loc_snoc lc nd] at hn
  cases hl : l.getLast? with
  | none => rw [hl] at hp; cases hp
  | some P =>
    cases hh : r.head? with
    | none => rw [hh] at hn; cases hn
    | some N =>
      rw [hl] at hp; rw [hh] at hn
      simp only [Option.bind_some] at hp hn
      split at hp
      · rename_i hcP
        split at hn
        · rename_i hcN
          obtain ⟨l0, rfl⟩ : ∃ l0, l = l0 ++ [P] := by
            rcases List.eq_nil_or_concat l with h0 | ⟨l0, P', h0⟩
            · subst h0; simp at hl
            · rw [List.concat_eq_append] at h0; subst h0
              simp at hl; subst hl; exact ⟨l0, rfl⟩
          obtain ⟨r0, rfl⟩ : ∃ r0, r = N :: r0 := by
            cases r with
            | nil => simp at hh
            | cons x r0 => simp at hh; subst hh; exact ⟨r0, rfl⟩
          exact ⟨init, fr, l0, P, N, r0, rfl, rfl, rfl, by simpa using hp, by simpa using hn,
            by simpa using hcP, by simpa using hcN⟩
        · cases hn
      · cases hp

/-- The gap: `a` sits between the text nodes `P` and `N` in strict mode. -/
structure Gap (f : Forest) (a : Nat) (init : List ZipFrame) (fr : ZipFrame) (l0 : List HTree) (P A N : HTree)
    (r0 : List HTree) (ps ns : Str) : Prop where
  loc : Loc f.roots a (init ++ [fr]) (l0 ++ [P]) A (N :: r0)
  strict : f.everOff = false
  hP : P.value = .text ps
  hN : N.value = .text ns
  hPk : P.kids = []
  hNk : N.kids = []
  hAn : A.value.category = .normal
  hAt : A.value.isText = false
  hAd : A.value.isDocument = false

theorem gap_of_textGap {f : Forest} (hi : f.Inv) {a : Nat} (hg : f.textGap a = true) :
    ∃ init fr l0 P A N r0 ps ns, Gap f a init fr l0 P A N r0 ps ns := by
  have nd := hi.nodup
  unfold textGap at hg
  cases hctx : f.ctx? a with
  | none => rw [hctx] at hg; cases hg
  | some c =>
  rw [hctx] at hg
  simp only [Bool.and_eq_true, Bool.not_eq_true'] at hg
  obtain ⟨⟨hoff, hlt⟩, hht⟩ := hg
  have hs : (!f.everOff) = true := by simp [hoff]
  obtain ⟨init, fr, lc, hfr⟩ := ctx?_some_loc nd hctx
  have hlt' : lastText c.left = true := by
    unfold lastText lastB textFlags; rw [List.getLast?_map]; exact hlt
  have hht' : headText c.right = true := by
    unfold headText headB textFlags; rw [List.head?_map]; exact hht
  obtain ⟨l0, P, hl, hPt⟩ := exists_of_lastText hlt'
  obtain ⟨N, r0, hrr, hNt⟩ := exists_of_headText hht'
  obtain ⟨ps, hP⟩ := exists_text_of_isText hPt
  obtain ⟨ns, hN⟩ := exists_text_of_isText hNt
  obtain ⟨k1, k2⟩ := hi.kids_at lc.eq
  rw [innerValue_snoc] at k1
  have K := (kidsOK_iff _ _ _).mp k1
  rw [hl, hrr] at K lc k2
  have hPn : P.value.category = .normal := category_normal_of_isText hPt
  have hAn : c.self.value.category = .normal := by
    have K' : KidsOK (!f.everOff) fr.v (l0 ++ P :: c.self :: N :: r0) := by simpa using K
    exact K'.normal_after_normal hPn
  have hAt : c.self.value.isText = false := by
    cases h : c.self.value.isText with
    | false => rfl
    | true =>
      have := K.lastText_before_text hs h
      simp [hPt] at this
  have k2' : (validList (!f.everOff) l0 = true ∧ validTree (!f.everOff) P = true) ∧
      validTree (!f.everOff) c.self = true ∧ validTree (!f.everOff) N = true ∧
      validList (!f.everOff) r0 = true := by
    simpa only [validList_append, validList_cons, validList_nil, Bool.and_true, Bool.and_eq_true] using k2
  have hAd : c.self.value.isDocument = false := by
    have := K.allowed c.self (by simp)
    cases hv : fr.v <;> cases hd : c.self.value.isDocument <;> simp_all [kidAllowed]
  exact ⟨init, fr, l0, P, c.self, N, r0, ps, ns, lc, hoff, hP, hN,
    kids_nil_of_text k2'.1.2 hPt, kids_nil_of_text k2'.2.2.1 hNt, hAn, hAt, hAd⟩

section gap
variable {f : Forest} {a : Nat} {init : List ZipFrame} {fr : ZipFrame} {l0 : List HTree} {P A N : HTree}
  {r0 : List HTree} {ps ns : Str}

theorem Gap.hPt (g : Gap f a init fr l0 P A N r0 ps ns) : P.value.isText = true := by rw [g.hP]; rfl
theorem Gap.hNt (g : Gap f a init fr l0 P A N r0 ps ns) : N.value.isText = true := by rw [g.hN]; rfl
theorem Gap.hPn (g : Gap f a init fr l0 P A N r0 ps ns) : P.value.category = .normal := by rw [g.hP]; rfl
theorem Gap.hNn (g : Gap f a init fr l0 P A N r0 ps ns) : N.value.category = .normal := by rw [g.hN]; rfl

theorem Gap.ctx (g : Gap f a init fr l0 P A N r0 ps ns) (nd : f.allHandles.Nodup) :
    f.ctx? a = some ⟨fr.h, l0 ++ [P], A, N :: r0⟩ := ctx?_of_loc_snoc g.loc nd

theorem Gap.prev (g : Gap f a init fr l0 P A N r0 ps ns) (nd : f.allHandles.Nodup) :
    f.prevSibling a = some P.handle := by
  rw [prevSibling_of_loc_snoc g.loc nd]; simp [g.hPn, g.hAn]

theorem Gap.next (g : Gap f a init fr l0 P A N r0 ps ns) (nd : f.allHandles.Nodup) :
    f.nextSibling a = some N.handle := by
  rw [nextSibling_of_loc_snoc g.loc nd]; simp [g.hNn, g.hAn]

theorem Gap.parent (g : Gap f a init fr l0 P A N r0 ps ns) (nd : f.allHandles.Nodup) :
    f.parent? a = some fr.h := by unfold parent?; rw [g.ctx nd]; rfl

/-- The state after `remove_subtree(a)`. -/
theorem Gap.drop (g : Gap f a init fr l0 P A N r0 ps ns) (nd : f.allHandles.Nodup) :
    f.dropSubtree a = { f with roots := plug (init ++ [fr]) (l0 ++ P :: N :: r0) } := by
  unfold dropSubtree; rw [cut_of_loc g.loc nd]; simp

theorem Gap.drop_nodup (g : Gap f a init fr l0 P A N r0 ps ns) (nd : f.allHandles.Nodup) :
    (f.dropSubtree a).allHandles.Nodup := by
  have hp := cut_perm nd (cut_of_loc g.loc nd)
  have : (f.cut a).1 = f.dropSubtree a := rfl
  rw [← this, cut_of_loc g.loc nd]
  exact List.Nodup.sublist (List.sublist_append_left _ _) (hp.symm.nodup nd)

theorem Gap.locP1 (g : Gap f a init fr l0 P A N r0 ps ns) (nd : f.allHandles.Nodup) :
    Loc (f.dropSubtree a).roots P.handle (init ++ [fr]) l0 P (N :: r0) := by
  rw [g.drop nd]; exact ⟨rfl, rfl⟩

theorem Gap.mem (g : Gap f a init fr l0 P A N r0 ps ns) : a ∈ f.allHandles := by
  unfold allHandles; rw [g.loc.eq, mem_handlesList_plug]; right
  simp only [fi_handlesList_append, fi_handlesList_cons, List.mem_append]
  exact Or.inr (Or.inl (g.loc.hk ▸ fi_handle_mem_handles A))

/-- `b` is not adjacent to `a`: its neighbours are the same after `a` has been taken out. -/
theorem Gap.sibs_b (g : Gap f a init fr l0 P A N r0 ps ns) (nd : f.allHandles.Nodup) {b : Nat}
    (hb : b ∈ f.allHandles) (hanc : (f.ancestors b).contains a = false)
    (hanc2 : (f.ancestors a).contains b = false)
    (hbp : b ≠ P.handle) (hbn : b ≠ N.handle) :
    (f.dropSubtree a).prevSibling b = f.prevSibling b ∧ (f.dropSubtree a).nextSibling b = f.nextSibling b ∧
    (f.dropSubtree a).value? b = f.value? b ∧ (f.dropSubtree a).ancestors b = f.ancestors b ∧
    (f.dropSubtree a).isRoot b = f.isRoot b ∧ (f.dropSubtree a).get? b = f.get? b ∧
    (∀ x, (f.prevSibling b = some x ∨ f.nextSibling b = some x) →
      (f.dropSubtree a).textOf x = f.textOf x ∧ (f.ancestors x).contains a = false) := by
  obtain ⟨pathb, lb, Bn, rb, locb⟩ := exists_loc hb
  have v := dropView locb nd g.mem hanc
  have hsub : a ∉ handlesList Bn.kids := by
    intro hm
    have := anc_of_mem_subtree locb nd (x := a) (by rw [fi_handles_eq]; exact List.mem_cons_of_mem _ hm)
    rw [this] at hanc2; cases hanc2
  have hctx := g.ctx nd
  have hpathb : ∀ fr' ∈ pathb, fr'.h ≠ a := by
    intro fr' hfr' e
    rw [ancestors_of_loc locb nd] at hanc
    simp only [List.contains_eq_mem, List.mem_cons, List.mem_reverse, List.mem_map,
      decide_eq_false_iff_not, not_or, not_exists, not_and] at hanc
    exact hanc.2 fr' hfr' e
  have hadjL : ∀ n, lb.getLast? = some n → n.handle ≠ a := by
    intro n hn e
    obtain ⟨lb0, rfl⟩ : ∃ lb0, lb = lb0 ++ [n] := by
      rcases List.eq_nil_or_concat lb with h0 | ⟨lb0, x, h0⟩
      · subst h0; simp at hn
      · rw [List.concat_eq_append] at h0; subst h0
        simp at hn; subst hn; exact ⟨lb0, rfl⟩
    have loca' : Loc f.roots a pathb lb0 n (Bn :: rb) := ⟨by rw [locb.eq]; simp, e⟩
    rcases List.eq_nil_or_concat pathb with h0 | ⟨ini, fr', h0⟩
    · subst h0; rw [ctx?_of_loc_nil loca' nd] at hctx; cases hctx
    · rw [List.concat_eq_append] at h0; subst h0
      rw [ctx?_of_loc_snoc loca' nd] at hctx
      simp only [Option.some.injEq, Ctx.mk.injEq, List.cons.injEq] at hctx
      apply hbn
      rw [← locb.hk, hctx.2.2.2.1]
  have hadjR : ∀ n, rb.head? = some n → n.handle ≠ a := by
    intro n hn e
    obtain ⟨rb0, rfl⟩ : ∃ rb0, rb = n :: rb0 := by
      cases rb with
      | nil => simp at hn
      | cons x rb0 => simp at hn; subst hn; exact ⟨rb0, rfl⟩
    have loca' : Loc f.roots a pathb (lb ++ [Bn]) n rb0 := ⟨by rw [locb.eq]; simp, e⟩
    rcases List.eq_nil_or_concat pathb with h0 | ⟨ini, fr', h0⟩
    · subst h0; rw [ctx?_of_loc_nil loca' nd] at hctx; cases hctx
    · rw [List.concat_eq_append] at h0; subst h0
      rw [ctx?_of_loc_snoc loca' nd] at hctx
      simp only [Option.some.injEq, Ctx.mk.injEq] at hctx
      have := List.append_inj' hctx.2.1 rfl
      apply hbp
      rw [← locb.hk]
      have h2 := this.2
      simp only [List.cons.injEq, and_true] at h2
      rw [h2]
  refine ⟨v.prevSibling locb nd hadjL, v.nextSibling locb nd hadjR, v.value? locb nd,
    v.ancestors locb nd, v.isRoot locb nd, ?_, ?_⟩
  · rw [v.get? hsub, get?_of_loc locb nd]
  · intro x hx
    have sib : ∀ (lx : List HTree) (n : HTree) (rx : List HTree), lb ++ Bn :: rb = lx ++ n :: rx →
        n.handle ≠ a → (f.dropSubtree a).textOf n.handle = f.textOf n.handle ∧
          (f.ancestors n.handle).contains a = false := by
      intro lx n rx he hne
      have locn : Loc f.roots n.handle pathb lx n rx := ⟨by rw [locb.eq, he], rfl⟩
      have hancn : (f.ancestors n.handle).contains a = false := by
        rw [ancestors_of_loc locn nd]
        simp only [List.contains_eq_mem, List.mem_cons, List.mem_reverse, List.mem_map,
          decide_eq_false_iff_not, not_or, not_exists, not_and]
        exact ⟨fun e => hne e.symm, fun fr' hfr' e => hpathb fr' hfr' e⟩
      exact ⟨(dropView locn nd g.mem hancn).textOf locn nd, hancn⟩
    rcases List.eq_nil_or_concat pathb with h0 | ⟨ini, fr', h0⟩
    · subst h0
      rw [prevSibling_of_loc_nil locb nd, nextSibling_of_loc_nil locb nd] at hx
      rcases hx with hx | hx <;> cases hx
    rw [List.concat_eq_append] at h0; subst h0
    rw [prevSibling_of_loc_snoc locb nd, nextSibling_of_loc_snoc locb nd] at hx
    rcases hx with hx | hx
    · cases hl : lb.getLast? with
      | none => rw [hl] at hx; cases hx
      | some n =>
        rw [hl] at hx
        simp only [Option.bind_some] at hx
        split at hx
        · simp only [Option.some.injEq] at hx
          obtain ⟨lb0, hlb⟩ : ∃ lb0, lb = lb0 ++ [n] := by
            rcases List.eq_nil_or_concat lb with h0 | ⟨lb0, y, h0⟩
            · subst h0; simp at hl
            · rw [List.concat_eq_append] at h0; subst h0
              simp at hl; subst hl; exact ⟨lb0, rfl⟩
          rw [← hx]
          exact sib lb0 n (Bn :: rb) (by rw [hlb]; simp) (hadjL n hl)
        · cases hx
    · cases hl : rb.head? with
      | none => rw [hl] at hx; cases hx
      | some n =>
        rw [hl] at hx
        simp only [Option.bind_some] at hx
        split at hx
        · simp only [Option.some.injEq] at hx
          obtain ⟨rb0, hrb⟩ : ∃ rb0, rb = n :: rb0 := by
            cases rb with
            | nil => simp at hl
            | cons y rb0 => simp at hl; subst hl; exact ⟨rb0, rfl⟩
          rw [← hx]
          exact sib (lb ++ [Bn]) n rb0 (by rw [hrb]; simp) (hadjR n hl)
        · cases hx

end gap
end Forest
end XotModel
