/-
  XotModel.Lemmas.SpanDecodeRun — decoding the source slice of a text node.

  `decodeRun inCdata s` reads `s` the way an XML reader reads character data that may contain CDATA
  sections, starting inside a section when `inCdata` (the `Text` span of a node whose first part is
  a CDATA section begins after its `<![CDATA[`): text up to the next `<` is decoded by `parse_text`
  (`parseText`), then `<![CDATA[` must follow; inside a section everything up to the first `]]>`
  (or to the end of `s`: the `]]>` of a last part lies outside the span) is taken literally with
  CR LF / CR → LF.  `decodeRun_runSlice`: on the slice of a run it gives the run's value.
-/
import XotModel.Lemmas.SpanSlice

namespace XotModel

open XotModel.Lex

/-- Split at the first `]]>`: the text before it and the text after it. -/
def splitCdataEnd : Str → Option (Str × Str)
  | [] => none
  | c :: cs =>
    if litCdataClose.isPrefixOf (c :: cs) then some ([], (c :: cs).drop 3)
    else (splitCdataEnd cs).map (fun r => (c :: r.1, r.2))

theorem splitCdataEnd_length : ∀ (s c r : Str), splitCdataEnd s = some (c, r) → r.length < s.length := by
  intro s
  induction s with
  | nil => intro c r h; cases h
  | cons x xs ih =>
    intro c r h
    simp only [splitCdataEnd] at h
    split at h
    · next hp =>
      simp only [Option.some.injEq, Prod.mk.injEq] at h
      obtain ⟨_, rfl⟩ := h
      simp only [List.length_drop, List.length_cons]
      omega
    · simp only [Option.map_eq_some_iff] at h
      obtain ⟨⟨c', r'⟩, h', he⟩ := h
      simp only [Prod.mk.injEq] at he
      obtain ⟨_, rfl⟩ := he
      have := ih c' r' h'
      simp only [List.length_cons]
      omega

/-- Decode a slice made of text pieces and CDATA sections. -/
def decodeRun (inCdata : Bool) (s : Str) : Option Str :=
  if inCdata then
    match h : splitCdataEnd s with
    | none => some (replaceCr (replaceCrLf s))
    | some (c, rest) => (decodeRun false rest).map (fun w => replaceCr (replaceCrLf c) ++ w)
  else
    match parseText (s.takeWhile (fun c => c != '<')) with
    | .error _ => none
    | .ok v =>
      if hr : (s.dropWhile (fun c => c != '<')).isEmpty then some v
      else if litCdataOpen.isPrefixOf (s.dropWhile (fun c => c != '<')) then
        (decodeRun true ((s.dropWhile (fun c => c != '<')).drop 9)).map (fun w => v ++ w)
      else none
termination_by s.length
decreasing_by
  · exact splitCdataEnd_length s c rest h
  · have h1 := (List.dropWhile_suffix (l := s) (fun c => c != '<')).length_le
    have h2 : (s.dropWhile (fun c => c != '<')).length ≠ 0 := by
      intro h0
      exact hr (by rw [List.isEmpty_iff, ← List.length_eq_zero_iff]; exact h0)
    simp only [List.length_drop]
    omega

/-! ### The two splitters on the source of a run -/

theorem isPrefixOf_append_left {p a : Str} (b : Str) (h : p.isPrefixOf a = true) : p.isPrefixOf (a ++ b) = true := by
  rw [List.isPrefixOf_iff_prefix] at h ⊢
  exact h.trans (List.prefix_append a b)

/-- Inside the content of a CDATA section no `]]>` is found … -/
theorem splitCdataEnd_none : ∀ (t : Str), NoCloseInside t → splitCdataEnd t = none := by
  intro t
  induction t with
  | nil => intro _; rfl
  | cons c cs ih =>
    intro h
    have h0 := h 0 (by simp)
    simp only [List.drop_zero] at h0
    have hnot : litCdataClose.isPrefixOf (c :: cs) = false := by
      cases hp : litCdataClose.isPrefixOf (c :: cs) with
      | false => rfl
      | true => rw [isPrefixOf_append_left litCdataClose hp] at h0; cases h0
    simp only [splitCdataEnd, hnot, Bool.false_eq_true, if_false]
    rw [ih (fun j hj => by
      have := h (j + 1) (by simp only [List.length_cons]; omega)
      simpa using this)]
    rfl

/-- … and followed by `]]>` the first one found is that one. -/
theorem splitCdataEnd_close : ∀ (t y : Str), NoCloseInside t →
    splitCdataEnd (t ++ litCdataClose ++ y) = some (t, y) := by
  intro t
  induction t with
  | nil => intro y _; simp [splitCdataEnd, litCdataClose, List.isPrefixOf]
  | cons c cs ih =>
    intro y h
    have h0 := h 0 (by simp)
    simp only [List.drop_zero] at h0
    have hnot : litCdataClose.isPrefixOf (c :: (cs ++ litCdataClose ++ y)) = false := by
      have e : c :: (cs ++ litCdataClose ++ y) = ((c :: cs) ++ litCdataClose) ++ y := by simp
      rw [e, Lex.Slice.isPrefixOf_close_append _ _ (by simp [litCdataClose])]
      exact h0
    simp only [List.cons_append, splitCdataEnd, hnot, Bool.false_eq_true, if_false]
    rw [ih y (fun j hj => by
      have := h (j + 1) (by simp only [List.length_cons]; omega)
      simpa using this)]
    rfl

theorem takeWhile_text (t x : Str) (ht : '<' ∉ t) (hx : x = [] ∨ x.head? = some '<') :
    (t ++ x).takeWhile (fun c => c != '<') = t ∧ (t ++ x).dropWhile (fun c => c != '<') = x := by
  induction t with
  | nil =>
    rcases hx with rfl | hx
    · exact ⟨rfl, rfl⟩
    · cases x with
      | nil => cases hx
      | cons d ds =>
        simp only [List.head?_cons, Option.some.injEq] at hx
        subst hx
        simp
  | cons c cs ih =>
    simp only [List.mem_cons, not_or] at ht
    have hc : (c != '<') = true := by simpa using fun h => ht.1 h.symm
    obtain ⟨h1, h2⟩ := ih ht.2
    simp only [List.cons_append, List.takeWhile_cons, List.dropWhile_cons, hc, if_true]
    exact ⟨by rw [h1], h2⟩

/-! ### Correctness on the source of a run -/

/-- The hypotheses on a run (what `TextFacts.slice` delivers). -/
structure RunSpelled (s : Str) (run : List Token) : Prop where
  toks : ∀ t ∈ run, t.isCharData = true ∧ t.Spelled s
  adj : AdjChain CharAdj run

theorem RunSpelled.tail {s : Str} {a : Token} {rest : List Token} (h : RunSpelled s (a :: rest)) : RunSpelled s rest :=
  ⟨fun t ht => h.toks t (by simp [ht]), AdjChain.tail h.adj⟩

theorem runSliceAux_head (rest : List Token) (s : Str) (h : RunSpelled s rest) :
    runSliceAux false rest = [] ∨ (runSliceAux false rest).head? = some '<' ∨
      ∃ t r, rest = Token.text t :: r := by
  cases rest with
  | nil => exact .inl rfl
  | cons b r =>
    have hb := (h.toks b (by simp)).1
    cases b with
    | text t => exact .inr (.inr ⟨t, r, rfl⟩)
    | cdata t sp => exact .inr (.inl (by simp [runSliceAux, litCdataOpen]))
    | _ => simp [Token.isCharData] at hb

theorem runValue_text_ok {t : StrSpan} {v : Str} (h : parseContentGo false t.start 0 t.text = .ok v) :
    parseText t.text = .ok v := parseContentGo_base h

theorem parseText_of_runValue (t : StrSpan) :
    (match parseText t.text with | .ok v => some v | .error _ => none) =
      (match parseContentGo false t.start 0 t.text with | .ok v => some v | .error _ => none) := by
  unfold parseText parseContent
  rcases parseContentGo_cases false t.start 0 0 0 t.text with ⟨e, e', p1, p2⟩ | ⟨w, p1, p2⟩
  · rw [p1, p2]
  · rw [p1, p2]

theorem decodeRun_run {s : Str} : ∀ (run : List Token), RunSpelled s run →
    decodeRun false (runSliceAux false run) = runValue run ∧
    (∀ t sp r, run = .cdata t sp :: r → decodeRun true (runSliceAux true run) = runValue run) := by
  intro run
  induction run with
  | nil =>
    intro _
    refine ⟨?_, fun t sp r h => by cases h⟩
    rw [decodeRun]
    simp [runSliceAux, runValue, parseText, parseContent, parseContentGo]
  | cons a rest ih =>
    intro h
    obtain ⟨ih1, ih2⟩ := ih h.tail
    have ha := h.toks a (by simp)
    cases a with
    | text t =>
      refine ⟨?_, fun t' sp r hh => by cases hh⟩
      obtain ⟨hne, hlt⟩ := ha.2
      -- what follows a text token is nothing or a CDATA section
      have hx : runSliceAux false rest = [] ∨ (runSliceAux false rest).head? = some '<' := by
        rcases runSliceAux_head rest s h.tail with h0 | h0 | ⟨t', r, rfl⟩
        · exact .inl h0
        · exact .inr h0
        · have := (h.adj.1 rfl).2.2 rfl
          simp [Token.isTextTok] at this
      obtain ⟨e1, e2⟩ := takeWhile_text t.text _ hlt hx
      rw [decodeRun]
      simp only [runSliceAux, Bool.false_eq_true, if_false, e1, e2]
      have hpt := parseText_of_runValue t
      cases hp : parseContentGo false t.start 0 t.text with
      | error e =>
        rw [hp] at hpt
        cases hq : parseText t.text with
        | error e' => simp [runValue, hp]
        | ok v => rw [hq] at hpt; cases hpt
      | ok v =>
        rw [hp] at hpt
        cases hq : parseText t.text with
        | error e' => rw [hq] at hpt; cases hpt
        | ok v' =>
          rw [hq] at hpt
          simp only [Option.some.injEq] at hpt
          subst hpt
          simp only [runValue, hp]
          cases rest with
          | nil => simp [runSliceAux, runValue]
          | cons b r =>
            have hb := (h.toks b (by simp)).1
            cases b with
            | cdata t' sp' =>
              have hopen : runSliceAux false (Token.cdata t' sp' :: r) =
                  litCdataOpen ++ runSliceAux true (Token.cdata t' sp' :: r) := by
                simp [runSliceAux]
              have hdrop : (litCdataOpen ++ runSliceAux true (Token.cdata t' sp' :: r)).drop 9 =
                  runSliceAux true (Token.cdata t' sp' :: r) := by
                simp [litCdataOpen]
              have hpre : litCdataOpen.isPrefixOf (litCdataOpen ++ runSliceAux true (Token.cdata t' sp' :: r)) = true := by
                rw [List.isPrefixOf_iff_prefix]; exact List.prefix_append _ _
              have hnonempty : (litCdataOpen ++ runSliceAux true (Token.cdata t' sp' :: r)).isEmpty = false := by
                simp [litCdataOpen]
              rw [hopen]
              simp only [hnonempty, Bool.false_eq_true, dite_false, hpre, if_true, hdrop]
              rw [ih2 t' sp' r rfl]
              cases runValue (Token.cdata t' sp' :: r) <;> rfl
            | text t' =>
              have := (h.adj.1 rfl).2.2 rfl
              simp [Token.isTextTok] at this
            | _ => simp [Token.isCharData] at hb
    | cdata t sp =>
      obtain ⟨_, _, hno⟩ := ha.2
      have hcd : ∀ (flagSlice : Str), flagSlice = runSliceAux true (Token.cdata t sp :: rest) →
          decodeRun true flagSlice = runValue (Token.cdata t sp :: rest) := by
        intro fs hfs
        subst hfs
        cases rest with
        | nil =>
          have e : runSliceAux true [Token.cdata t sp] = t.text := by simp [runSliceAux]
          rw [e, decodeRun]
          simp only [↓reduceIte]
          have hnone := splitCdataEnd_none t.text hno
          split
          · simp [runValue]
          · next c r hs => rw [hnone] at hs; cases hs
        | cons b r =>
          have e : runSliceAux true (Token.cdata t sp :: b :: r) =
              t.text ++ litCdataClose ++ runSliceAux false (b :: r) := by simp [runSliceAux]
          rw [e, decodeRun]
          simp only [↓reduceIte]
          have hsome := splitCdataEnd_close t.text (runSliceAux false (b :: r)) hno
          split
          · next hs => rw [hsome] at hs; cases hs
          · next c r' hs =>
            rw [hsome] at hs
            simp only [Option.some.injEq, Prod.mk.injEq] at hs
            obtain ⟨rfl, rfl⟩ := hs
            rw [ih1]
            simp [runValue]
      refine ⟨?_, fun t' sp' r hh => by
        simp only [List.cons.injEq, Token.cdata.injEq] at hh
        obtain ⟨⟨rfl, rfl⟩, rfl⟩ := hh
        exact hcd _ rfl⟩
      -- text mode in front of `<![CDATA[`
      have hopen : runSliceAux false (Token.cdata t sp :: rest) =
          litCdataOpen ++ runSliceAux true (Token.cdata t sp :: rest) := by
        simp [runSliceAux]
      rw [hopen, decodeRun]
      have htw : (litCdataOpen ++ runSliceAux true (Token.cdata t sp :: rest)).takeWhile (fun c => c != '<') = [] := by
        simp [litCdataOpen]
      have hdw : (litCdataOpen ++ runSliceAux true (Token.cdata t sp :: rest)).dropWhile (fun c => c != '<') =
          litCdataOpen ++ runSliceAux true (Token.cdata t sp :: rest) := by
        simp [litCdataOpen]
      have hdrop : (litCdataOpen ++ runSliceAux true (Token.cdata t sp :: rest)).drop 9 =
          runSliceAux true (Token.cdata t sp :: rest) := by
        simp [litCdataOpen]
      have hpre : litCdataOpen.isPrefixOf (litCdataOpen ++ runSliceAux true (Token.cdata t sp :: rest)) = true := by
        rw [List.isPrefixOf_iff_prefix]; exact List.prefix_append _ _
      have hnonempty : (litCdataOpen ++ runSliceAux true (Token.cdata t sp :: rest)).isEmpty = false := by
        simp [litCdataOpen]
      have hp0 : parseText [] = .ok [] := by simp [parseText, parseContent, parseContentGo]
      simp only [Bool.false_eq_true, if_false, htw, hdw, hp0, hnonempty, dite_false, hpre, if_true, hdrop]
      rw [hcd _ rfl]
      cases runValue (Token.cdata t sp :: rest) <;> simp
    | _ => simp [Token.isCharData] at ha

/-- Whether the run starts inside a CDATA section. -/
def startsInCdata : List Token → Bool
  | .cdata _ _ :: _ => true
  | _ => false

/-- Decoding the slice of a run gives the run's value. -/
theorem decodeRun_runSlice {s : Str} {run : List Token} (h : RunSpelled s run) :
    decodeRun (startsInCdata run) (runSlice run) = runValue run := by
  obtain ⟨h1, h2⟩ := decodeRun_run run h
  cases run with
  | nil => exact h1
  | cons a rest =>
    have ha := (h.toks a (by simp)).1
    cases a with
    | cdata t sp => exact h2 t sp rest rfl
    | text t => simpa [startsInCdata, runSlice, runSliceAux] using h1
    | _ => simp [Token.isCharData] at ha

end XotModel
