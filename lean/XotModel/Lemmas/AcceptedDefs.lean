/-
  XotModel.Lemmas.AcceptedDefs — vocabulary of "whatever the parser accepts is representable" (C03,
  last sentence).

  * `NoReservedDecls env t` (decidable, on the TREE): the guard that delimits the known findings
    `C03:xml-prefix-rebound-accepted` / `C03:not-representable-xml-prefix-rebound`: no namespace node
    declares the prefix `xml`.  (The other reserved declarations and `xmlns:p=""` are refused by the
    parser since /repo 6153ddf, a5dcf8e: `ValAcc` of a namespace node records `reservedDecl = false`.)
  * `PlainPiTargets env t` (decidable, on the tree): every processing-instruction target is an NCName
    (no colon) — what `Representable` (Model/SerTokens.lean) asks and the tokenizer does NOT check
    (`consume_name`).  (The target `xml` in any letter case is refused since /repo 002854f.)
  * `ValAcc` / `TreeAcc`: what the builder guarantees of every node of an accepted tree, in the scope
    of the declarations of its ancestors (`st`: the builder's namespace stack at that node), with
    all ids inside the tables — so that it is monotone in the tables (`EnvApp`).
  * `EnvReach`: the tables after any number of interning steps.
-/
import XotModel.Lemmas.AcceptedLexTop
import XotModel.Lemmas.RoundTripItems
import XotModel.Lemmas.ParseNsEnv
import XotModel.Model.SerTokens
import XotModel.Model.AcceptedGuard
import XotModel.Model.Parse

namespace XotModel

/-! `Tree.Forall` is monotone in the predicate. -/
mutual
theorem forall_imp {p q : Value → List Tree → Prop} (h : ∀ v ks, p v ks → q v ks) :
    ∀ t : Tree, t.Forall p → t.Forall q
  | .node v ks, ht => by
    rw [Tree.Forall] at ht ⊢
    exact ⟨h v ks ht.1, forallList_imp h ks ht.2⟩
theorem forallList_imp {p q : Value → List Tree → Prop} (h : ∀ v ks, p v ks → q v ks) :
    ∀ ks : List Tree, Tree.Forall.forallList p ks → Tree.Forall.forallList q ks
  | [], _ => trivial
  | k :: ks, hk => ⟨forall_imp h k hk.1, forallList_imp h ks hk.2⟩
end

namespace Accepted

/-! ### What the builder guarantees -/

/-- The two frames at the bottom of the builder's namespace stack. -/
def base2 : NsStack := [[(Env.emptyPrefix, Env.noNamespace)], [(Env.xmlPrefix, Env.xmlNamespace)]]

def dataAcc : Option Str → Bool
  | none => true
  | some d => !d.isEmpty && !(d.head?.any isXmlSpace) && d.all isXmlChar && !hasInfix ['?', '>'] d &&
    !d.contains '\r'

def commentAcc (s : Str) : Bool :=
  s.all isXmlChar && !hasInfix ['-', '-'] s && s.getLast? != some '-' && !s.contains '\r'

/-- One value, in the scope `st` (the builder's stack: for an element its own declarations on top). -/
def ValAcc (env : Env) (st : NsStack) : Value → Prop
  | .document => True
  | .element name =>
    name < env.names.length ∧ ncNameNE (env.localName name) = true ∧
      ∃ q, lookupPrefix st q = some (env.nsOfName name)
  | .text s => s ≠ [] ∧ s.all isXmlChar = true
  | .comment s => commentAcc s = true
  | .pi target data =>
    target < env.names.length ∧ env.nsOfName target = Env.noNamespace ∧
      nameOK (env.localName target) = true ∧ dataAcc data = true ∧
      isReservedPiTarget (env.localName target) = false
  | .attribute name v =>
    name < env.names.length ∧ ncNameNE (env.localName name) = true ∧ v.all isXmlChar = true ∧
      (name = Env.xmlIdName → normalizeXmlId v = v) ∧
      ((env.nsOfName name = Env.noNamespace ∧ env.localName name ≠ xmlnsName) ∨
        ∃ q, q ≠ Env.emptyPrefix ∧ lookupPrefix st q = some (env.nsOfName name))
  | .namespace p ns =>
    p < env.prefixes.length ∧ ns < env.namespaces.length ∧ ncNameOK (env.prefixStr p) = true ∧
      (env.namespaceStr ns).all isXmlChar = true ∧
      reservedDecl (env.prefixStr p) (env.namespaceStr ns) = false

/-- The scope below a node: an element pushes its declarations. -/
def ctx (v : Value) (ks : List Tree) (st : NsStack) : NsStack :=
  if v.isElement then kidDecls ks :: st else st

mutual
/-- Every node of the subtree, each in its scope. -/
def TreeAcc (env : Env) (st : NsStack) : Tree → Prop
  | .node v ks => ValAcc env (ctx v ks st) v ∧ KidsAcc env (ctx v ks st) ks
def KidsAcc (env : Env) (st : NsStack) : List Tree → Prop
  | [] => True
  | k :: ks => TreeAcc env st k ∧ KidsAcc env st ks
end

theorem kidsAcc_iff (env : Env) (st : NsStack) (ks : List Tree) :
    KidsAcc env st ks ↔ ∀ k ∈ ks, TreeAcc env st k := by
  induction ks with
  | nil => simp [KidsAcc]
  | cons k ks ih => simp [KidsAcc, ih]

theorem treeAcc_node (env : Env) (st : NsStack) (v : Value) (ks : List Tree) :
    TreeAcc env st (.node v ks) ↔ ValAcc env (ctx v ks st) v ∧ ∀ k ∈ ks, TreeAcc env (ctx v ks st) k := by
  rw [TreeAcc, kidsAcc_iff]

theorem treeAcc_leaf {env : Env} {st : NsStack} {v : Value} (hv : v.isElement = false) (h : ValAcc env st v) :
    TreeAcc env st (.node v []) := by
  rw [treeAcc_node]
  simp only [ctx, hv, Bool.false_eq_true, if_false]
  exact ⟨h, fun k hk => by cases hk⟩

/-! ### Monotone in the tables -/

theorem getD_app {α : Type} {l x : List α} {i : Nat} (d : α) (h : i < l.length) :
    (l ++ x).getD i d = l.getD i d := by
  simp [List.getD_eq_getElem?_getD, List.getElem?_append_left h]

theorem EnvApp.localName {e e' : Env} (h : EnvApp e e') {n : Nat} (hn : n < e.names.length) :
    e'.localName n = e.localName n := by
  obtain ⟨_, _, x, hx⟩ := h
  simp only [Env.localName, hx, getD_app _ hn]

theorem EnvApp.nsOfName {e e' : Env} (h : EnvApp e e') {n : Nat} (hn : n < e.names.length) :
    e'.nsOfName n = e.nsOfName n := by
  obtain ⟨_, _, x, hx⟩ := h
  simp only [Env.nsOfName, hx, getD_app _ hn]

theorem EnvApp.prefixStr {e e' : Env} (h : EnvApp e e') {n : Nat} (hn : n < e.prefixes.length) :
    e'.prefixStr n = e.prefixStr n := by
  obtain ⟨⟨x, hx⟩, _, _⟩ := h
  simp only [Env.prefixStr, hx, getD_app _ hn]

theorem EnvApp.namespaceStr {e e' : Env} (h : EnvApp e e') {n : Nat} (hn : n < e.namespaces.length) :
    e'.namespaceStr n = e.namespaceStr n := by
  obtain ⟨_, ⟨x, hx⟩, _⟩ := h
  simp only [Env.namespaceStr, hx, getD_app _ hn]

theorem EnvApp.names_le {e e' : Env} (h : EnvApp e e') : e.names.length ≤ e'.names.length := by
  obtain ⟨_, _, x, hx⟩ := h; rw [hx]; simp

theorem EnvApp.prefixes_le {e e' : Env} (h : EnvApp e e') : e.prefixes.length ≤ e'.prefixes.length := by
  obtain ⟨⟨x, hx⟩, _, _⟩ := h; rw [hx]; simp

theorem EnvApp.namespaces_le {e e' : Env} (h : EnvApp e e') : e.namespaces.length ≤ e'.namespaces.length := by
  obtain ⟨_, ⟨x, hx⟩, _⟩ := h; rw [hx]; simp

theorem ValAcc.mono {e e' : Env} (h : EnvApp e e') {st : NsStack} : ∀ {v : Value}, ValAcc e st v → ValAcc e' st v
  | .document, _ => trivial
  | .element name, ⟨h1, h2, h3⟩ => by
    refine ⟨Nat.lt_of_lt_of_le h1 (EnvApp.names_le h), ?_, ?_⟩
    · rw [EnvApp.localName h h1]; exact h2
    · rw [EnvApp.nsOfName h h1]; exact h3
  | .text _, hv => hv
  | .comment _, hv => hv
  | .pi target data, ⟨h1, h2, h3, h4, h5⟩ => by
    refine ⟨Nat.lt_of_lt_of_le h1 (EnvApp.names_le h), ?_, ?_, h4, ?_⟩
    · rw [EnvApp.nsOfName h h1]; exact h2
    · rw [EnvApp.localName h h1]; exact h3
    · rw [EnvApp.localName h h1]; exact h5
  | .attribute name v, ⟨h1, h2, h3, h4, h5⟩ => by
    refine ⟨Nat.lt_of_lt_of_le h1 (EnvApp.names_le h), ?_, h3, h4, ?_⟩
    · rw [EnvApp.localName h h1]; exact h2
    · rw [EnvApp.nsOfName h h1, EnvApp.localName h h1]; exact h5
  | .namespace p ns, ⟨h1, h2, h3, h4, h5⟩ => by
    refine ⟨Nat.lt_of_lt_of_le h1 (EnvApp.prefixes_le h), Nat.lt_of_lt_of_le h2 (EnvApp.namespaces_le h), ?_, ?_, ?_⟩
    · rw [EnvApp.prefixStr h h1]; exact h3
    · rw [EnvApp.namespaceStr h h2]; exact h4
    · rw [EnvApp.prefixStr h h1, EnvApp.namespaceStr h h2]; exact h5

mutual
theorem TreeAcc.mono {e e' : Env} (h : EnvApp e e') : ∀ {st : NsStack} (t : Tree), TreeAcc e st t → TreeAcc e' st t
  | st, .node v ks, ht => by
    rw [TreeAcc] at ht ⊢
    exact ⟨ValAcc.mono h ht.1, KidsAcc.mono h ks ht.2⟩
theorem KidsAcc.mono {e e' : Env} (h : EnvApp e e') : ∀ {st : NsStack} (ks : List Tree), KidsAcc e st ks → KidsAcc e' st ks
  | _, [], _ => trivial
  | _, k :: ks, hk => ⟨TreeAcc.mono h k hk.1, KidsAcc.mono h ks hk.2⟩
end

/-! ### Interning steps -/

/-- `e'` arises from `e` by interning prefixes, namespaces and names. -/
inductive EnvReach : Env → Env → Prop
  | refl (e : Env) : EnvReach e e
  | pfx {e e' : Env} (p : Str) : EnvReach e e' → EnvReach e (e'.internPrefix p).1
  | ns {e e' : Env} (u : Str) : EnvReach e e' → EnvReach e (e'.internNamespace u).1
  | name {e e' : Env} (a : Str) (n : Nat) : EnvReach e e' → EnvReach e (e'.internName a n).1

theorem EnvReach.trans {a b c : Env} (h1 : EnvReach a b) (h2 : EnvReach b c) : EnvReach a c := by
  induction h2 with
  | refl => exact h1
  | pfx p _ ih => exact .pfx p ih
  | ns u _ ih => exact .ns u ih
  | name x n _ ih => exact .name x n ih

theorem EnvReach.app {e e' : Env} (h : EnvReach e e') : EnvApp e e' := by
  induction h with
  | refl => exact EnvApp.refl _
  | pfx p _ ih => exact ih.trans (internPrefix_app _ p)
  | ns u _ ih => exact ih.trans (internNamespace_app _ u)
  | name x n _ ih => exact ih.trans (internName_app _ x n)

theorem envFacts_app {e e' : Env} (h : EnvFacts e) (hx : EnvApp e e') (h1 : e'.namespaces.Nodup)
    (h2 : e'.prefixes.Nodup) (h3 : e'.names.Nodup) : EnvFacts e' := by
  have l1 := h.noNamespace_lt
  have l2 := h.xmlNamespace_lt
  have l3 := h.emptyPrefix_lt
  have l4 := h.xmlPrefix_lt
  have l5 : Env.xmlIdName < e.names.length := h.names_len
  refine ⟨?_, ?_, ?_, ?_, ?_, h1, h2, h3⟩
  · rw [EnvApp.namespaceStr hx l1]; exact h.ns0
  · rw [EnvApp.namespaceStr hx l2]; exact h.ns1
  · rw [EnvApp.prefixStr hx l3]; exact h.p0
  · rw [EnvApp.prefixStr hx l4]; exact h.p1
  · obtain ⟨_, _, x, hx'⟩ := hx
    rw [hx', getD_app _ l5]; exact h.id1

theorem EnvReach.facts {e e' : Env} (h : EnvReach e e') (hf : EnvFacts e) : EnvFacts e' := by
  induction h with
  | refl => exact hf
  | pfx p _ ih =>
    exact envFacts_app ih (internPrefix_app _ p) ih.nsNodup (internIn_nodup ih.pNodup p) ih.nNodup
  | ns u _ ih =>
    exact envFacts_app ih (internNamespace_app _ u) (internIn_nodup ih.nsNodup u) ih.pNodup ih.nNodup
  | name x n _ ih =>
    exact envFacts_app ih (internName_app _ x n) ih.nsNodup ih.pNodup (internIn_nodup ih.nNodup (x, n))

theorem envOK_of_facts {e : Env} (h : EnvFacts e) : envOK e = true := by
  simp only [envOK, Bool.and_eq_true, beq_iff_eq, decide_eq_true_eq]
  exact ⟨⟨⟨⟨⟨⟨⟨h.ns0, h.ns1⟩, h.p0⟩, h.p1⟩, h.id1⟩, h.nsNodup⟩, h.pNodup⟩, h.nNodup⟩

end Accepted
end XotModel
