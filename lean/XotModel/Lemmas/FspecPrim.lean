/-
  FspecPrim — the indextree-level primitives of `Model/Forest.lean` as edits of ONE child list:
  `replaceBelow h F` (cut, placeAfter/Before, spliceOut) and `mapAt h G` on a child (setValue)
  equal `editAt parent (replaceTop h …)` when handles are distinct.
-/
import XotModel.Lemmas.FspecEdit

namespace XotModel
open HTree Spec

/-- `h` is the handle of one of the trees of `L`. -/
def IsTop (h : Nat) (L : List HTree) : Prop := ∃ k ∈ L, k.handle = h

theorem IsTop.mem_handlesList {h : Nat} {L : List HTree} (ht : IsTop h L) : h ∈ handlesList L := by
  obtain ⟨k, hk, e⟩ := ht
  exact e ▸ handle_mem_handlesList hk

theorem replaceTop_nil (h : Nat) (F : HTree → List HTree) : replaceTop h F [] = [] := rfl
theorem replaceTop_cons (h : Nat) (F : HTree → List HTree) (k : HTree) (ks : List HTree) :
    replaceTop h F (k :: ks) = if k.handle = h then F k ++ ks else k :: replaceTop h F ks := rfl

theorem replaceTop_of_not_top {h : Nat} {F : HTree → List HTree} : ∀ L : List HTree,
    (∀ k ∈ L, k.handle ≠ h) → replaceTop h F L = L
  | [] => fun _ => rfl
  | k :: ks => by
    intro hn
    rw [replaceTop_cons, if_neg (hn k (List.mem_cons_self)),
      replaceTop_of_not_top ks (fun k' hk' => hn k' (List.mem_cons_of_mem _ hk'))]

theorem replaceTop_of_not_mem {h : Nat} {F : HTree → List HTree} (L : List HTree)
    (hn : h ∉ handlesList L) : replaceTop h F L = L :=
  replaceTop_of_not_top L (fun _ hk e => hn (e ▸ handle_mem_handlesList hk))

/-- The effect on a child list split at the child. -/
theorem replaceTop_mid {h : Nat} {F : HTree → List HTree} {l : List HTree} {s : HTree} {r : List HTree}
    (hs : s.handle = h) (hl : ∀ k ∈ l, k.handle ≠ h) : replaceTop h F (l ++ s :: r) = l ++ F s ++ r := by
  induction l with
  | nil => simp [replaceTop_cons, hs]
  | cons a l ih =>
    rw [List.cons_append, replaceTop_cons, if_neg (hl a List.mem_cons_self),
      ih (fun k hk => hl k (List.mem_cons_of_mem _ hk))]
    simp

/-- In the child list itself, `replaceKids` (which also descends) is `replaceTop`. -/
theorem replaceKids_eq_replaceTop {h : Nat} {F : HTree → List HTree} : ∀ ks : List HTree,
    (handlesList ks).Nodup → IsTop h ks → replaceKids h F ks = replaceTop h F ks
  | [] => fun _ _ => by rw [replaceKids_nil]; rfl
  | k :: ks => by
    intro nd ht
    obtain ⟨n1, n2, n3⟩ := nodup_handlesList_cons nd
    rw [fs_replaceKids_cons, replaceTop_cons]
    by_cases hk : k.handle = h
    · rw [if_pos hk, if_pos hk]
    · rw [if_neg hk, if_neg hk]
      have ht' : IsTop h ks := by
        obtain ⟨k', hk', e⟩ := ht
        cases List.mem_cons.1 hk' with
        | inl e' => exact absurd (e' ▸ e) hk
        | inr e' => exact ⟨k', e', e⟩
      have : h ∉ handles k := fun hm => n3 h hm ht'.mem_handlesList
      rw [fs_replaceBelow_of_not_mem k this, replaceKids_eq_replaceTop ks n2 ht']

theorem mapAtList_eq_replaceTop {h : Nat} {G : HTree → HTree} : ∀ ks : List HTree,
    (handlesList ks).Nodup → IsTop h ks → mapAtList h G ks = replaceTop h (fun k => [G k]) ks
  | [] => fun _ _ => by simp [mapAtList]; rfl
  | k :: ks => by
    intro nd ht
    obtain ⟨n1, n2, n3⟩ := nodup_handlesList_cons nd
    simp only [mapAtList]
    rw [replaceTop_cons]
    by_cases hk : k.handle = h
    · rw [if_pos hk]
      have : h ∉ handlesList ks := n3 h (hk ▸ fs_handle_mem_handles k)
      rw [fs_mapAtList_of_not_mem ks this]
      cases k with
      | node kh kv kks =>
        simp only [HTree.handle] at hk
        rw [mapAt_node, if_pos hk]
        rfl
    · rw [if_neg hk]
      have ht' : IsTop h ks := by
        obtain ⟨k', hk', e⟩ := ht
        cases List.mem_cons.1 hk' with
        | inl e' => exact absurd (e' ▸ e) hk
        | inr e' => exact ⟨k', e', e⟩
      have : h ∉ handles k := fun hm => n3 h hm ht'.mem_handlesList
      rw [fs_mapAt_of_not_mem k this, mapAtList_eq_replaceTop ks n2 ht']

/-- `h`, a child of `p`, lies in the tree where `p` is found. -/
theorem top_mem_of_find {p h : Nat} {v : Value} {L : List HTree} {t : HTree}
    (e : find? p t = some (.node p v L)) (ht : IsTop h L) : h ∈ handles t :=
  (find?_some t _ e).2 h (by rw [handles_node]; exact List.mem_cons_of_mem _ ht.mem_handlesList)

theorem top_mem_of_findList {p h : Nat} {v : Value} {L : List HTree} {ks : List HTree}
    (e : findList? p ks = some (.node p v L)) (ht : IsTop h L) : h ∈ handlesList ks :=
  (findList?_some ks _ e).2 h (by rw [handles_node]; exact List.mem_cons_of_mem _ ht.mem_handlesList)

mutual
  theorem replaceBelow_eq_editAt {p h : Nat} {F : HTree → List HTree} {v : Value} {L : List HTree} :
      ∀ t : HTree, (handles t).Nodup → find? p t = some (.node p v L) → IsTop h L →
      replaceBelow h F t = HTree.editAt p (replaceTop h F) t
    | .node q v' ks => by
      intro nd e ht
      obtain ⟨n1, n2⟩ := nodup_handles_node nd
      rw [find?_node] at e
      rw [replaceBelow_node, editAt_node]
      by_cases hq : q = p
      · rw [if_pos hq] at e
        have e' := Option.some.inj e
        injection e' with _ _ e3
        subst e3
        rw [if_pos hq, replaceKids_eq_replaceTop ks n2 ht]
      · rw [if_neg hq] at e
        rw [if_neg hq, replaceKids_eq_editAt ks n2 e ht]
  theorem replaceKids_eq_editAt {p h : Nat} {F : HTree → List HTree} {v : Value} {L : List HTree} :
      ∀ ks : List HTree, (handlesList ks).Nodup → findList? p ks = some (.node p v L) → IsTop h L →
      replaceKids h F ks = ks.map (HTree.editAt p (replaceTop h F))
    | [] => by intro _ e; rw [findList?_nil] at e; cases e
    | k :: ks => by
      intro nd e ht
      obtain ⟨n1, n2, n3⟩ := nodup_handlesList_cons nd
      rw [fs_replaceKids_cons, List.map_cons]
      cases hk : find? p k with
      | some t =>
        rw [findList?_cons_some hk] at e
        have e' := Option.some.inj e
        subst e'
        have hin : h ∈ handles k := top_mem_of_find hk ht
        have hpin : p ∈ handles k := mem_of_find?_some hk
        -- `h` is strictly inside `k`
        have hne : k.handle ≠ h := by
          intro heq
          cases k with
          | node kh kv kks =>
            obtain ⟨k1, k2⟩ := nodup_handles_node n1
            simp only [HTree.handle] at heq
            rw [find?_node] at hk
            by_cases hkp : kh = p
            · rw [if_pos hkp] at hk
              have hk' := Option.some.inj hk
              injection hk' with _ _ e3
              subst e3
              exact k1 (heq ▸ ht.mem_handlesList)
            · rw [if_neg hkp] at hk
              exact k1 (heq ▸ top_mem_of_findList hk ht)
        rw [if_neg hne, replaceBelow_eq_editAt k n1 hk ht,
          fs_replaceKids_of_not_mem ks (n3 h hin), map_editAt_of_not_mem ks (n3 p hpin)]
      | none =>
        rw [findList?_cons_none hk] at e
        have hin : h ∈ handlesList ks := top_mem_of_findList e ht
        have hpin : p ∈ handlesList ks := mem_of_findList?_some e
        have hnk : h ∉ handles k := fun hm => n3 h hm hin
        have hpk : p ∉ handles k := fun hm => n3 p hm hpin
        rw [if_neg (handle_ne_of_not_mem hnk), fs_replaceBelow_of_not_mem k hnk, editAt_of_not_mem k hpk,
          replaceKids_eq_editAt ks n2 e ht]
end

mutual
  theorem mapAt_eq_editAt {p h : Nat} {G : HTree → HTree} {v : Value} {L : List HTree} :
      ∀ t : HTree, (handles t).Nodup → find? p t = some (.node p v L) → IsTop h L →
      mapAt h G t = HTree.editAt p (replaceTop h (fun k => [G k])) t
    | .node q v' ks => by
      intro nd e ht
      obtain ⟨n1, n2⟩ := nodup_handles_node nd
      have hin := top_mem_of_find e ht
      rw [find?_node] at e
      rw [editAt_node]
      by_cases hq : q = p
      · rw [if_pos hq] at e
        have e' := Option.some.inj e
        injection e' with _ _ e3
        subst e3
        have hqh : ¬ q = h := fun e' => n1 (e' ▸ ht.mem_handlesList)
        rw [if_pos hq, mapAt_node, if_neg hqh, mapAtList_eq_replaceTop ks n2 ht]
      · rw [if_neg hq] at e
        have hqh : ¬ q = h := fun e' => n1 (e' ▸ top_mem_of_findList e ht)
        rw [if_neg hq, mapAt_node, if_neg hqh, mapAtList_eq_editAt ks n2 e ht]
  theorem mapAtList_eq_editAt {p h : Nat} {G : HTree → HTree} {v : Value} {L : List HTree} :
      ∀ ks : List HTree, (handlesList ks).Nodup → findList? p ks = some (.node p v L) → IsTop h L →
      mapAtList h G ks = ks.map (HTree.editAt p (replaceTop h (fun k => [G k])))
    | [] => by intro _ e; rw [findList?_nil] at e; cases e
    | k :: ks => by
      intro nd e ht
      obtain ⟨n1, n2, n3⟩ := nodup_handlesList_cons nd
      simp only [mapAtList, List.map_cons]
      cases hk : find? p k with
      | some t =>
        rw [findList?_cons_some hk] at e
        have e' := Option.some.inj e
        subst e'
        have hin : h ∈ handles k := top_mem_of_find hk ht
        have hpin : p ∈ handles k := mem_of_find?_some hk
        rw [mapAt_eq_editAt k n1 hk ht, fs_mapAtList_of_not_mem ks (n3 h hin),
          map_editAt_of_not_mem ks (n3 p hpin)]
      | none =>
        rw [findList?_cons_none hk] at e
        have hin : h ∈ handlesList ks := top_mem_of_findList e ht
        have hpin : p ∈ handlesList ks := mem_of_findList?_some e
        have hnk : h ∉ handles k := fun hm => n3 h hm hin
        have hpk : p ∉ handles k := fun hm => n3 p hm hpin
        rw [fs_mapAt_of_not_mem k hnk, editAt_of_not_mem k hpk, mapAtList_eq_editAt ks n2 e ht]
end

end XotModel
