/-
  XotModel.Lemmas.ArenaTree2 — the forest model's tree rewriting functions on trees read off an
  arena: `HTree.replaceBelow` (used by `cut`, `spliceOut`, `placeAfter`, `placeBefore`) and
  `HTree.mapAt` (used by `placeLast`, `placeFirst`, `setValue`) produce the trees of the
  correspondingly changed list-level content.
-/
import XotModel.Lemmas.ArenaTree

namespace XotModel
namespace Arena

mutual
/-- A subtree whose nodes are untouched reads the same. -/
theorem IsTree.congr {g g' : Shape} {w w' : View} (S : Nat → Prop)
    (hS : ∀ u, S u → g'.kids u = g.kids u ∧ w'.rho u = w.rho u ∧ w'.val u = w.val u ∧ ∀ k ∈ g.kids u, S k)
    {c : Nat} {t : HTree} (h : IsTree g w c t) (hc : S c) : IsTree g' w' c t := by
  match h with
  | .mk hk =>
    obtain ⟨e1, e2, e3, e4⟩ := hS c hc
    rw [← e2, ← e3]
    exact .mk (by rw [e1]; exact IsTrees.congr S hS hk e4)
theorem IsTrees.congr {g g' : Shape} {w w' : View} (S : Nat → Prop)
    (hS : ∀ u, S u → g'.kids u = g.kids u ∧ w'.rho u = w.rho u ∧ w'.val u = w.val u ∧ ∀ k ∈ g.kids u, S k)
    {cs : List Nat} {ts : List HTree} (h : IsTrees g w cs ts) (hc : ∀ k ∈ cs, S k) : IsTrees g' w' cs ts := by
  match h with
  | .nil => exact .nil
  | .cons h1 h2 =>
    exact .cons (IsTree.congr S hS h1 (hc _ (by simp)))
      (IsTrees.congr S hS h2 (fun k hk => hc k (List.mem_cons_of_mem _ hk)))
end

/-! ### Pure facts about the list versions of the rewriting functions -/

theorem replaceKids_no_match (h : Nat) (f : HTree → List HTree) : ∀ (ts : List HTree),
    (∀ t ∈ ts, t.handle ≠ h) → HTree.replaceKids h f ts = ts.map (HTree.replaceBelow h f)
  | [], _ => rfl
  | t :: ts, hne => by
    unfold HTree.replaceKids
    rw [if_neg (hne t (by simp)), replaceKids_no_match h f ts (fun t' ht' => hne t' (List.mem_cons_of_mem _ ht'))]
    rfl

theorem replaceKids_match (h : Nat) (f : HTree → List HTree) : ∀ (ts1 : List HTree) (t : HTree) (ts2 : List HTree),
    (∀ t' ∈ ts1, t'.handle ≠ h) → t.handle = h →
    HTree.replaceKids h f (ts1 ++ t :: ts2) = ts1.map (HTree.replaceBelow h f) ++ f t ++ ts2
  | [], t, ts2, _, ht => by
    simp only [List.nil_append, List.map_nil]
    unfold HTree.replaceKids
    rw [if_pos ht]
  | t1 :: ts1, t, ts2, hne, ht => by
    simp only [List.cons_append, List.map_cons]
    unfold HTree.replaceKids
    rw [if_neg (hne t1 (by simp)), replaceKids_match h f ts1 t ts2 (fun t' ht' => hne t' (List.mem_cons_of_mem _ ht')) ht]

theorem mapAtList_eq_map (h : Nat) (G : HTree → HTree) : ∀ (ts : List HTree),
    HTree.mapAtList h G ts = ts.map (HTree.mapAt h G)
  | [] => rfl
  | t :: ts => by
    unfold HTree.mapAtList
    rw [mapAtList_eq_map h G ts]
    rfl

/-- The change of list-level content that `replaceBelow` at the (non-root) slot `u` implements:
    `u` (under `p`, between `L` and `R`) is replaced by the slots `X`. -/
structure ReplaceAt (a : Arena) (g g' : Shape) (w : View) (u p : Nat) (L R X : List Nat) (F : HTree → List HTree) : Prop where
  ulive : Live a u
  par : g.par u = some p
  kids : g.kids p = L ++ u :: R
  kids' : g'.kids p = L ++ X ++ R
  image : ∀ tu, IsTree g w u tu → IsTrees g' w X (F tu)
  agree : ∀ q, Live a q → q ≠ p → ¬ Reach g.par q u → g'.kids q = g.kids q

/-- Subtrees of the siblings after `u` do not meet `p` or the subtree of `u`. -/
theorem ReplaceAt.after_untouched {a : Arena} {g g' : Shape} {w : View} (x : TreeCtx a g w) {u p : Nat}
    {L R X : List Nat} {F : HTree → List HTree} (ra : ReplaceAt a g g' w u p L R X F) {cs : List Nat} {ts : List HTree}
    (h : IsTrees g w cs ts) (hcs : ∀ k ∈ cs, k ∈ R) : IsTrees g' w cs ts := by
  have hnd : (L ++ u :: R).Nodup := by rw [← ra.kids]; exact x.rep.kidsNodup p
  have hRp : ∀ r, r ∈ R → r ∈ g.kids p := fun r hr => by
    rw [ra.kids]; exact List.mem_append_right _ (List.mem_cons_of_mem _ hr)
  have huR : u ∉ R := (List.nodup_cons.mp (List.nodup_append.mp hnd).2.1).1
  have hup : u ∈ g.kids p := by rw [ra.kids]; simp
  refine IsTrees.congr (fun q => Live a q ∧ ∃ r, r ∈ R ∧ Reach g.par q r) ?_ h ?_
  · intro q ⟨hq, r, hr, hqr⟩
    have hqp : q ≠ p := by
      intro e; subst e
      exact x.rep.acyclic r q (x.rep.kidsLive q r (hRp r hr)).2.2 hqr
    have hqu : ¬ Reach g.par q u := by
      intro hqu
      have := x.rep.child_unique (hRp r hr) hup hqr hqu
      subst this; exact huR hr
    refine ⟨ra.agree q hq hqp hqu, rfl, rfl, fun k hk => ?_⟩
    exact ⟨(x.rep.kidsLive q k hk).2.1, r, hr, .step (x.rep.kidsLive q k hk).2.2 hqr⟩
  · intro k hk
    exact ⟨(x.rep.kidsLive p k (hRp k (hcs k hk))).2.1, k, hcs k hk, .refl _⟩

mutual
theorem IsTree.replaceBelow {a : Arena} {g g' : Shape} {w : View} (x : TreeCtx a g w) {u p : Nat} {L R X : List Nat}
    {F : HTree → List HTree} (ra : ReplaceAt a g g' w u p L R X F) {c : Nat} {t : HTree} (h : IsTree g w c t)
    (hc : Live a c) (hcu : ¬ Reach g.par c u) : IsTree g' w c (HTree.replaceBelow (w.rho u) F t) := by
  match h with
  | @IsTree.mk _ _ _ ts hk =>
    unfold HTree.replaceBelow
    refine .mk ?_
    have kidsLive : ∀ k ∈ g.kids c, Live a k := fun k hk' => (x.rep.kidsLive c k hk').2.1
    by_cases hcp : c = p
    · subst hcp
      rw [ra.kids']
      have hnd : (L ++ u :: R).Nodup := by rw [← ra.kids]; exact x.rep.kidsNodup c
      refine IsTrees.replaceKidsAt x ra hk L ra.kids (fun k hk' => ?_)
      have hkmem : k ∈ g.kids c := by rw [ra.kids]; exact List.mem_append_left _ hk'
      refine ⟨kidsLive k hkmem, fun hr => ?_⟩
      have hku : k ≠ u := fun e => (List.nodup_append.mp hnd).2.2 k hk' u (by simp) e
      cases hr with
      | refl => exact hku rfl
      | step hp hr' =>
        rw [(x.rep.kidsLive c k hkmem).2.2] at hp; cases hp
        exact x.rep.acyclic u _ ra.par hr'
    · rw [ra.agree c hc hcp hcu]
      have hne : ∀ t' ∈ ts, t'.handle ≠ w.rho u := by
        intro t' ht' e
        have hm := hk.handles_map
        have : t'.handle ∈ ts.map HTree.handle := List.mem_map.mpr ⟨t', ht', rfl⟩
        rw [hm] at this
        obtain ⟨k, hk', ek⟩ := List.mem_map.mp this
        have hku : k = u := x.inj k u (kidsLive k hk') ra.ulive (ek.trans e)
        subst hku
        have := (x.rep.kidsLive c k hk').2.2
        rw [ra.par] at this; cases this; exact hcp rfl
      rw [replaceKids_no_match _ _ ts hne]
      refine IsTrees.replaceBelowList x ra hk (fun k hk' => ⟨kidsLive k hk', fun hr => ?_⟩)
      have hpk := (x.rep.kidsLive c k hk').2.2
      cases hr with
      | refl => rw [ra.par] at hpk; cases hpk; exact hcp rfl
      | step hp hr' => rw [hpk] at hp; cases hp; exact hcu hr'
theorem IsTrees.replaceBelowList {a : Arena} {g g' : Shape} {w : View} (x : TreeCtx a g w) {u p : Nat}
    {L R X : List Nat} {F : HTree → List HTree} (ra : ReplaceAt a g g' w u p L R X F) {cs : List Nat}
    {ts : List HTree} (h : IsTrees g w cs ts) (hc : ∀ k ∈ cs, Live a k ∧ ¬ Reach g.par k u) :
    IsTrees g' w cs (ts.map (HTree.replaceBelow (w.rho u) F)) := by
  match h with
  | .nil => exact .nil
  | .cons h1 h2 =>
    exact .cons (IsTree.replaceBelow x ra h1 (hc _ (by simp)).1 (hc _ (by simp)).2)
      (IsTrees.replaceBelowList x ra h2 (fun k hk => hc k (List.mem_cons_of_mem _ hk)))
/-- The child list that contains `u`: everything before `u` is rewritten (to itself), `u` is
    replaced by the image, what follows is kept. -/
theorem IsTrees.replaceKidsAt {a : Arena} {g g' : Shape} {w : View} (x : TreeCtx a g w) {u p : Nat}
    {L R X : List Nat} {F : HTree → List HTree} (ra : ReplaceAt a g g' w u p L R X F) {cs : List Nat}
    {ts : List HTree} (h : IsTrees g w cs ts) (L0 : List Nat) (hsplit : cs = L0 ++ u :: R)
    (hL0 : ∀ k ∈ L0, Live a k ∧ ¬ Reach g.par k u) :
    IsTrees g' w (L0 ++ X ++ R) (HTree.replaceKids (w.rho u) F ts) := by
  match h with
  | .nil => cases L0 <;> simp at hsplit
  | @IsTrees.cons _ _ c0 cs0 t0 ts0 h1 h2 =>
    cases L0 with
    | nil =>
      simp only [List.nil_append, List.cons.injEq] at hsplit
      obtain ⟨e1, e2⟩ := hsplit
      subst e1 e2
      unfold HTree.replaceKids
      rw [if_pos h1.handle]
      simp only [List.nil_append]
      exact IsTrees.append (ra.image t0 h1) (ra.after_untouched x h2 (fun k hk => hk))
    | cons l L0' =>
      simp only [List.cons_append, List.cons.injEq] at hsplit
      obtain ⟨e1, e2⟩ := hsplit
      subst e1
      have hl := hL0 c0 (by simp)
      unfold HTree.replaceKids
      have hne : t0.handle ≠ w.rho u := by
        rw [h1.handle]
        intro e
        have := x.inj c0 u hl.1 ra.ulive e
        subst this
        exact hl.2 (.refl _)
      rw [if_neg hne]
      simp only [List.cons_append]
      exact .cons (IsTree.replaceBelow x ra h1 hl.1 hl.2)
        (IsTrees.replaceKidsAt x ra h2 L0' e2 (fun k hk => hL0 k (List.mem_cons_of_mem _ hk)))
end

end Arena
end XotModel
