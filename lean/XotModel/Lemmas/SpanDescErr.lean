/-
  XotModel.Lemmas.SpanDescErr — C17 for the two reserved-name errors of `_parse`:
  `InvalidTarget` (a PI whose target is `xml` in any letter case) and `InvalidNamespaceDeclaration`
  (`DocumentBuilder::prefix` on a reserved prefix / namespace name, or `xmlns:p=""`).
  They are raised by exactly one arm of the token loop each, with the span of the token that caused
  them: the PI target resp. the attribute NAME `xmlns:p` / `xmlns` as written (`step_err_reserved`),
  through the loop and the epilogues (`build_err_reserved`), and on strings those spans slice the
  source to the target resp. to the qualified name (`parseString_invalidTarget`,
  `parseString_invalidNamespaceDeclaration`).
-/
import XotModel.Lemmas.ParseQName
import XotModel.Lemmas.SpanSlice

namespace XotModel

/-- The two error kinds of the reserved-name checks. -/
def ParseErr.isReservedKind : ParseErr → Bool
  | .invalidTarget _ _ => true
  | .invalidNamespaceDeclaration _ _ => true
  | _ => false

/-- A result that is not one of the two reserved-name errors. -/
def Step.Plain {α : Type} (r : Step α) : Prop := ∀ e env, r = .err e env → e.isReservedKind = false

theorem ofContent_unreserved (e : ContentErr) : (ParseErr.ofContent e).isReservedKind = false := by
  cases e <;> rfl

theorem elementNameId_unreserved (env : Env) (stack : NsStack) (pfx name : Str) (sp : Span) :
    (elementNameId env stack pfx name sp).Plain := by
  intro e env' h
  unfold elementNameId at h
  dsimp only at h
  split at h
  · cases h
  · cases h; rfl

theorem attributeNameId_unreserved (env : Env) (stack : NsStack) (pfx name : Str) (sp : Span) :
    (attributeNameId env stack pfx name sp).Plain := by
  intro e env' h
  unfold attributeNameId at h
  dsimp only at h
  split at h
  · cases h
  · split at h
    · cases h
    · cases h; rfl

theorem addAttributes_unreserved (stack : NsStack) (node : Path) (abs : List AttributeBuilder) :
    ∀ (st : AttrLoop), (addAttributes stack node st abs).Plain := by
  induction abs with
  | nil => intro st e env h; simp [addAttributes] at h
  | cons ab rest ih =>
    intro st e env h
    simp only [addAttributes] at h
    cases hn : attributeNameId st.env stack ab.pfx ab.name ab.prefixSpan with
    | panic => rw [hn] at h; cases h
    | err e1 env1 =>
      rw [hn] at h
      cases h
      exact attributeNameId_unreserved _ _ _ _ _ _ _ hn
    | ok r =>
      obtain ⟨env1, nameId⟩ := r
      rw [hn] at h
      simp only at h
      split at h
      · cases h; rfl
      · split at h
        · cases h; rfl
        · exact ih _ _ _ h

theorem openElement_unreserved (b : Builder) : b.openElement.Plain := by
  intro e env h
  unfold Builder.openElement at h
  split at h
  · cases h
  · dsimp only at h
    split at h
    · cases h
    · rename_i e1 env1 he
      cases h
      exact elementNameId_unreserved _ _ _ _ _ _ _ he
    · split at h
      · cases h
      · rename_i e1 env1 he
        cases h
        exact addAttributes_unreserved _ _ _ _ _ _ he
      · cases h

theorem leave_unreserved (b : Builder) (node : Path) (sp : StrSpan) : (b.leave node sp).Plain := by
  intro e env h
  unfold Builder.leave Builder.toParent at h
  cases hp : b.parents with
  | nil => rw [hp] at h; cases h
  | cons p rest => rw [hp] at h; cases h

theorem closeElement_unreserved (b : Builder) (p l sp : StrSpan) : (b.closeElement p l sp).Plain := by
  intro e env h
  unfold Builder.closeElement at h
  split at h
  · cases h
  · rename_i e1 env1 he
    cases h
    exact elementNameId_unreserved _ _ _ _ _ _ _ he
  · split at h
    · cases h; rfl
    · split at h
      · split at h
        · cases h; rfl
        · exact leave_unreserved _ _ _ _ _ h
      · exact leave_unreserved _ _ _ _ _ h

theorem text_unreserved (b : Builder) (t : StrSpan) : (b.text t).Plain := by
  intro e env h
  unfold Builder.text at h
  split at h
  · cases h; exact ofContent_unreserved _
  · cases h

theorem cdata_unreserved (b : Builder) (t : StrSpan) : (b.cdata t).Plain := by
  intro e env h
  unfold Builder.cdata at h
  split at h <;> cases h

theorem attribute_unreserved (b : Builder) (p l v : StrSpan) : (b.attribute p l v).Plain := by
  intro e env h
  unfold Builder.attribute at h
  split at h
  · cases h
  · split at h
    · cases h; rfl
    · split at h
      · cases h; exact ofContent_unreserved _
      · cases h

/-- `DocumentBuilder::prefix`: the only reserved-name error is `InvalidNamespaceDeclaration` with the
    span it was handed (the attribute name), raised iff the DECODED value is reserved for the prefix. -/
theorem prefix_err_reserved {b : Builder} {pfx : Str} {uri : StrSpan} {nameSpan : Span} {e : ParseErr} {env' : Env}
    (h : b.prefix pfx uri nameSpan = .err e env') (hk : e.isReservedKind = true) :
    e = .invalidNamespaceDeclaration (declDisplayName pfx) nameSpan ∧
    ∃ u, parseContentGo true uri.start 0 uri.text = .ok u ∧ reservedDecl pfx u = true := by
  unfold Builder.prefix at h
  split at h
  · cases h
    rw [ofContent_unreserved] at hk; cases hk
  · rename_i u hu
    split at h
    · rename_i hres
      cases h
      exact ⟨rfl, u, hu, hres⟩
    · dsimp only at h
      split at h
      · cases h
      · split at h
        · cases h; cases hk
        · cases h

/-- The namespace declaration an attribute token is, if any: the test of the `Attribute` arm of `_parse`
    (`xmlns:p` declares `p`, an unprefixed `xmlns` the empty prefix). -/
def IsNsDecl (p l : Str) (pfx : Str) : Prop :=
  (p = ['x', 'm', 'l', 'n', 's'] ∧ pfx = l) ∨ (p = [] ∧ l = ['x', 'm', 'l', 'n', 's'] ∧ pfx = [])

/-- One arm of `_parse`: a reserved-name error comes from a PI token (with the span of its target) or
    from a namespace-declaration attribute (with the span of its name as written). -/
theorem step_err_reserved {b : Builder} {t : Token} {e : ParseErr} {env' : Env}
    (h : b.step t = .err e env') (hk : e.isReservedKind = true) :
    (∃ tg c w, t = .pi tg c w ∧ e = .invalidTarget tg.text tg.span ∧ isReservedPiTarget tg.text = true) ∨
    (∃ p l v w pfx, t = .attribute p l v w ∧ IsNsDecl p.text l.text pfx ∧
      e = .invalidNamespaceDeclaration (declDisplayName pfx) (Span.fromPrefixName p l) ∧
      ∃ u, parseContentGo true v.start 0 v.text = .ok u ∧ reservedDecl pfx u = true) := by
  -- the error of `check_qname` is an `UnknownPrefix`
  have h0 := h
  clear h
  rcases Builder.step_err_cases h0 with ⟨_, _, _, _, he, _⟩ | ⟨_, h⟩
  · rw [he] at hk; cases hk
  clear h0
  have plain : ∀ {r : Step Builder}, r.Plain → r = .err e env' → False := fun hp hr => by
    rw [hp e env' hr] at hk; cases hk
  cases t with
  | «attribute» p l v w =>
    simp only [Builder.stepCore] at h
    split at h
    · rename_i hx
      obtain ⟨he, hu⟩ := prefix_err_reserved h hk
      exact .inr ⟨p, l, v, w, l.text, rfl, .inl ⟨by simpa using hx, rfl⟩, he, hu⟩
    · split at h
      · rename_i hx
        simp only [Bool.and_eq_true, List.isEmpty_iff, beq_iff_eq] at hx
        obtain ⟨he, hu⟩ := prefix_err_reserved h hk
        exact .inr ⟨p, l, v, w, [], rfl, .inr ⟨hx.1, hx.2, rfl⟩, he, hu⟩
      · exact (plain (attribute_unreserved _ _ _ _) h).elim
  | text t => exact (plain (text_unreserved _ _) h).elim
  | cdata t sp => exact (plain (cdata_unreserved _ _) h).elim
  | elementStart p l sp => simp [Builder.stepCore] at h
  | elementEnd e1 sp =>
    cases e1 with
    | «open» => exact (plain (openElement_unreserved _) h).elim
    | close p l => exact (plain (closeElement_unreserved _ _ _ _) h).elim
    | empty =>
      simp only [Builder.stepCore] at h
      cases hb : b.openElement with
      | ok b1 =>
        rw [hb] at h
        exact (plain (leave_unreserved _ _ _) h).elim
      | err e1 env1 =>
        rw [hb] at h
        exact (plain (openElement_unreserved _) (hb.trans h)).elim
      | panic => rw [hb] at h; cases h
  | comment t sp => simp [Builder.stepCore] at h
  | pi tg c w =>
    simp only [Builder.stepCore] at h
    split at h
    · rename_i hres
      cases h
      exact .inl ⟨tg, c, w, rfl, rfl, hres⟩
    · cases h
  | declaration v e1 s sp =>
    simp only [Builder.stepCore] at h
    split at h
    · cases h; cases hk
    · cases h
  | dtdStart sp => simp only [Builder.stepCore] at h; cases h; cases hk
  | dtdEnd sp => simp only [Builder.stepCore] at h; cases h; cases hk
  | emptyDtd sp => simp only [Builder.stepCore] at h; cases h; cases hk
  | entityDecl sp => simp only [Builder.stepCore] at h; cases h; cases hk

/-- The token loop: a reserved-name error is the error of one step on one of the tokens. -/
theorem run_err_reserved {lexErr : Option Nat} {e : ParseErr} {env' : Env} (hk : e.isReservedKind = true) :
    ∀ (ts : List Token) (b : Builder), b.run ts lexErr = .err e env' →
      ∃ t ∈ ts, ∃ b1 : Builder, b1.step t = .err e env' := by
  intro ts
  induction ts with
  | nil =>
    intro b h
    cases lexErr with
    | none =>
      simp only [Builder.run] at h
      split at h
      · cases h; cases hk
      · cases h
    | some p => simp only [Builder.run] at h; cases h; cases hk
  | cons t rest ih =>
    intro b h
    simp only [Builder.run] at h
    cases hs : b.step t with
    | ok b1 =>
      rw [hs] at h
      obtain ⟨t', ht', r⟩ := ih b1 h
      exact ⟨t', List.mem_cons_of_mem _ ht', r⟩
    | err e1 env1 =>
      rw [hs] at h
      cases h
      exact ⟨t, List.mem_cons_self, b, hs⟩
    | panic => rw [hs] at h; cases h

theorem topLevelScan_err_unreserved (spans : SpanMap) (ks : List Tree) :
    ∀ (i : Nat) (elems : List Nat) (e : ParseErr), topLevelScan spans i ks elems = .err e →
      e.isReservedKind = false := by
  induction ks with
  | nil => intro i elems e he; simp [topLevelScan] at he
  | cons k rest ih =>
    intro i elems e he
    simp only [topLevelScan] at he
    split at he
    · exact ih _ _ _ he
    · split at he
      · cases he; rfl
      · cases he
    · exact ih _ _ _ he

theorem unclosed_err_unreserved {b : Builder} {e : ParseErr} {env' : Env} (h : b.unclosed = .err e env') :
    e.isReservedKind = false := by
  unfold Builder.unclosed at h
  split at h
  · cases h; rfl
  · cases h

theorem finish_err_unreserved {m : Mode} {len : Nat} {b : Builder} {e : ParseErr} {env' : Env}
    (h : (match m with
      | .document => b.finishDocument len
      | .fragment => b.finishFragment) = .err e env') : e.isReservedKind = false := by
  cases m with
  | document =>
    simp only at h
    unfold Builder.finishDocument at h
    split at h
    · split at h
      · cases h
      · rename_i e1 he
        cases h
        exact topLevelScan_err_unreserved _ _ _ _ _ he
      · split at h
        · cases h; rfl
        · cases h
        · split at h
          · cases h; rfl
          · cases h
    · exact unclosed_err_unreserved h
  | fragment =>
    simp only at h
    unfold Builder.finishFragment at h
    split at h
    · cases h
    · exact unclosed_err_unreserved h

/-- `parse` / `parse_fragment`: a reserved-name error is the error of one step on one of the tokens
    (the epilogues raise none). -/
theorem build_err_reserved {m : Mode} {len : Nat} {env env' : Env} {ts : List Token} {lexErr : Option Nat}
    {e : ParseErr} (h : build m len env ts lexErr = .err e env') (hk : e.isReservedKind = true) :
    ∃ t ∈ ts, ∃ b1 : Builder, b1.step t = .err e env' := by
  unfold build at h
  cases hr : (Builder.new env).run ts lexErr with
  | panic => rw [hr] at h; cases h
  | err e1 env1 =>
    rw [hr] at h
    cases h
    exact run_err_reserved hk ts _ hr
  | ok b =>
    rw [hr] at h
    rw [finish_err_unreserved h] at hk
    cases hk

/-! ### On strings -/

/-- `InvalidTarget(target, span)`: the text has a PI token whose target is `target`, `xml` in some
    letter case; `span` is the target's span and slices the text to `target`. -/
theorem parseString_invalidTarget {m : Mode} {env env' : Env} {s : Str} {target : Str} {sp : Span}
    (h : parseString m env s = .err (.invalidTarget target sp) env') :
    ∃ tg c w, Token.pi tg c w ∈ (lexMode m s).1 ∧ target = tg.text ∧ sp = tg.span ∧
      isReservedPiTarget target = true ∧ sliceBytes s sp.start sp.stop = some target := by
  obtain ⟨t, ht, b1, hs⟩ := build_err_reserved h rfl
  rcases step_err_reserved hs rfl with ⟨tg, c, w, rfl, he, hres⟩ | ⟨p, l, v, w, pfx, _, _, he, _⟩
  · simp only [ParseErr.invalidTarget.injEq] at he
    obtain ⟨rfl, rfl⟩ := he
    exact ⟨tg, c, w, ht, rfl, rfl, hres, slice_of_span ((lexMode_facts m s).slices _ ht).1⟩
  · cases he

/-- `InvalidNamespaceDeclaration(name, span)`: the text has an attribute token `xmlns:p="v"` / `xmlns="v"`
    whose value decodes (`parse_attribute`) to something reserved for the prefix; `span` is the span of
    the attribute's NAME and slices the text to `xmlns:p` / `xmlns` as written; `name` is that name as
    `DocumentBuilder::prefix` displays it. -/
theorem parseString_invalidNamespaceDeclaration {m : Mode} {env env' : Env} {s : Str} {name : Str} {sp : Span}
    (h : parseString m env s = .err (.invalidNamespaceDeclaration name sp) env') :
    ∃ p l v w pfx, Token.attribute p l v w ∈ (lexMode m s).1 ∧ IsNsDecl p.text l.text pfx ∧
      name = declDisplayName pfx ∧ sp = Span.fromPrefixName p l ∧
      sliceBytes s sp.start sp.stop = some (tokQName p.text l.text) ∧
      ∃ u, parseAttribute v.text = .ok u ∧ reservedDecl pfx u = true := by
  obtain ⟨t, ht, b1, hs⟩ := build_err_reserved h rfl
  rcases step_err_reserved hs rfl with ⟨tg, c, w, _, he, _⟩ | ⟨p, l, v, w, pfx, rfl, hdecl, he, u, hu, hres⟩
  · cases he
  · simp only [ParseErr.invalidNamespaceDeclaration.injEq] at he
    obtain ⟨rfl, rfl⟩ := he
    have hsp : NameSlice s p l := ((lexMode_facts m s).spelled _ ht).1
    exact ⟨p, l, v, w, pfx, ht, hdecl, rfl, rfl, hsp.sliceBytes, u, parseContentGo_base hu, hres⟩

end XotModel
