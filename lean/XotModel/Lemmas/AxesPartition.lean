/-
  The four big axes as parts of the pre-order, and the partition law.
-/
import XotModel.Lemmas.AxesPreceding

namespace XotModel.Axes

/-- In a well-formed tree every proper ancestor of a node is normal. -/
theorem isNormalAt_of_has_child {t : Tree} (hw : wf t = true) {π : Path} {i : Nat}
    (h : Valid t (π ++ [i])) : isNormalAt t π = true := by
  have hπ : Valid t π := valid_prefix h
  have hi := (valid_snoc_iff hπ i).mp h
  have hws := wf_at? t π _ hw hπ.at?
  unfold isNormalAt valueAt
  cases hs : subAt t π with
  | node v ks =>
    rw [hs] at hws hi
    simp only [wf, Bool.and_eq_true, Bool.or_eq_true] at hws
    rcases hws.1.1 with h1 | h1
    · exact h1
    · simp [Tree.kids] at hi h1; subst h1; simp at hi

theorem ancRel_normal {t : Tree} (hw : wf t = true) : ∀ (r : List Nat), Valid t r.reverse →
    ∀ q ∈ ancRel r.reverse, isNormalAt t q = true
  | [], _, q, hq => by simp [ancRel] at hq
  | i :: r, h, q, hq => by
    simp only [List.reverse_cons] at h hq
    rw [ancRel_snoc] at hq
    rcases List.mem_append.mp hq with hq | hq
    · exact ancRel_normal hw r (valid_prefix h) q hq
    · simp at hq; subst hq; exact isNormalAt_of_has_child hw h

/-- `axis(Ancestor)`: the proper prefixes of `p`, longest first. -/
theorem axis_ancestor_eq (t : Tree) (p : Path) : axis t .ancestor p = (ancRel p).reverse := by
  rcases path_cases p with rfl | ⟨π, i, rfl⟩
  · simp [axis, ancRel]
  · simp [axis, ancestors_eq, ancRel_snoc]

theorem axis_ancestor_spec {t : Tree} {p : Path} (hw : wf t = true) (h : Valid t p) :
    axis t .ancestor p = ((pre t).filter (fun q => q.isPrefixOf p && q != p)).reverse := by
  rw [axis_ancestor_eq]
  congr 1
  unfold pre
  rw [List.filter_filter]
  have : (allPre t).filter (fun q => (q.isPrefixOf p && q != p) && isNormalAt t q) =
      ((allPre t).filter (fun q => q.isPrefixOf p && q != p)).filter (isNormalAt t) := by
    rw [List.filter_filter]; congr 1; funext q; exact Bool.and_comm _ _
  rw [this, filter_ancestor_allPre h]
  symm
  apply List.filter_eq_self.mpr
  have := ancRel_normal hw p.reverse (by simpa using h)
  simpa using this

/-- `axis(Descendant)` of a normal node: the normal nodes strictly below it. -/
theorem axis_descendant_spec {t : Tree} {p : Path} (h : Valid t p) (hn : isNormalAt t p = true) :
    axis t .descendant p = (pre t).filter (fun q => p.isPrefixOf q && q != p) := by
  simp only [axis]
  rw [descendants_normal hn, List.drop_one, List.tail_cons]
  unfold pre
  rw [List.filter_filter]
  have : (allPre t).filter (fun q => (p.isPrefixOf q && q != p) && isNormalAt t q) =
      (((allPre t).filter (fun q => p.isPrefixOf q)).filter (fun q => q != p)).filter (isNormalAt t) := by
    rw [List.filter_filter, List.filter_filter]; congr 1; funext q
    cases p.isPrefixOf q <;> cases (q != p) <;> cases isNormalAt t q <;> rfl
  rw [this, ← arenaDescendants_eq h]
  congr 1
  unfold arenaDescendants
  cases hs : subAt t p with
  | node v ks =>
    simp only [allPre, List.map_cons, List.append_nil, List.drop_one, List.tail_cons,
      List.filter_cons, bne_self_eq_false, Bool.false_eq_true, if_false]
    symm
    apply List.filter_eq_self.mpr
    intro x hx
    obtain ⟨y, hy, rfl⟩ := List.mem_map.mp hx
    obtain ⟨j, q', rfl, _⟩ := mem_allPreList hy
    simp

/-- `axis(Descendant)` of a namespace or attribute node of a well-formed tree is empty, and so
    is the specification. -/
theorem axis_descendant_abnormal {t : Tree} {p : Path} (hw : wf t = true) (h : Valid t p)
    (hn : isNormalAt t p = false) :
    axis t .descendant p = [] ∧ (pre t).filter (fun q => p.isPrefixOf q) = [] := by
  have hws := wf_at? t p _ hw h.at?
  have hd : descendants t p = [] := by
    unfold descendants arenaDescendants
    unfold isNormalAt valueAt at hn
    cases hs : subAt t p with
    | node v ks =>
      rw [hs] at hws hn
      simp only [wf, Bool.and_eq_true, Bool.or_eq_true] at hws
      simp only [Tree.value] at hn
      have : ks = [] := by
        rcases hws.1.1 with h1 | h1
        · rw [hn] at h1; cases h1
        · simpa using h1
      subst this
      simp [allPre, allPreList, isNormalAt, valueAt, hs, Tree.value, hn]
  constructor
  · simp [axis, hd]
  · rw [← descendants_eq h, hd]

theorem following_eq_after {t : Tree} {p : Path} (h : Valid t p) :
    following t p = (afterRel t p).filter (isNormalAt t) := by
  rw [following_eq h, ← filter_following_allPre h]
  unfold pre
  rw [List.filter_filter, List.filter_filter]
  congr 1; funext q; exact Bool.and_comm _ _

theorem preceding_eq_prec {t : Tree} {p : Path} (hw : wf t = true) (h : Valid t p) :
    preceding t p = ((precRel t p).filter (isNormalAt t)).reverse := by
  unfold preceding
  rw [precedingLoop_eq t hw p.reverse (by simpa using h), List.reverse_reverse]

/-- The normal nodes of the tree, split around `p`. -/
theorem pre_split {t : Tree} {p : Path} (h : Valid t p) :
    pre t = (beforeRel t p).filter (isNormalAt t) ++ (descendants t p ++ following t p) := by
  unfold pre
  rw [allPre_split t p h, List.filter_append, List.filter_append, following_eq_after h]
  rfl

theorem before_perm {t : Tree} {p : Path} (hw : wf t = true) (h : Valid t p) :
    ((beforeRel t p).filter (isNormalAt t)).Perm (axis t .ancestor p ++ preceding t p) := by
  rw [axis_ancestor_eq, preceding_eq_prec hw h]
  have h1 := (List.filter_append_perm (fun q => q.isPrefixOf p) ((beforeRel t p).filter (isNormalAt t))).symm
  refine h1.trans (List.Perm.append ?_ ?_)
  · rw [List.filter_filter]
    have : (beforeRel t p).filter (fun q => q.isPrefixOf p && isNormalAt t q) =
        ((beforeRel t p).filter (fun q => q.isPrefixOf p)).filter (isNormalAt t) := by
      rw [List.filter_filter]; congr 1; funext q; exact Bool.and_comm _ _
    rw [this, filter_beforeRel_anc t p h]
    have hall := ancRel_normal hw p.reverse (by simpa using h)
    simp only [List.reverse_reverse] at hall
    rw [List.filter_eq_self.mpr hall]
    exact (List.reverse_perm _).symm
  · rw [List.filter_filter]
    have : (beforeRel t p).filter (fun q => (!q.isPrefixOf p) && isNormalAt t q) =
        ((beforeRel t p).filter (fun q => !q.isPrefixOf p)).filter (isNormalAt t) := by
      rw [List.filter_filter]; congr 1; funext q; exact Bool.and_comm _ _
    rw [this, filter_beforeRel_prec]
    exact (List.reverse_perm _).symm

/-- Partition law, normal node. -/
theorem partition_normal {t : Tree} {p : Path} (hw : wf t = true) (h : Valid t p)
    (hn : isNormalAt t p = true) :
    (axis t .ancestor p ++ (p :: axis t .descendant p) ++ axis t .preceding p ++ axis t .following p).Perm
      (pre t) := by
  rw [pre_split h]
  have hd : descendants t p = p :: axis t .descendant p := by
    simp only [axis]; rw [descendants_normal hn]; simp
  rw [hd]
  have hb := (before_perm hw h).symm
  simp only [axis] at hb ⊢
  -- A ++ (p :: D) ++ P ++ F  ~  B ++ ((p :: D) ++ F)   with  A ++ P ~ B
  have : (axis t .ancestor p ++ (p :: (descendants t p).drop 1) ++ preceding t p ++ following t p).Perm
      ((axis t .ancestor p ++ preceding t p) ++ ((p :: (descendants t p).drop 1) ++ following t p)) := by
    simp only [List.append_assoc]
    apply List.Perm.append_left
    rw [← List.append_assoc, ← List.append_assoc]
    exact List.Perm.append_right _ List.perm_append_comm
  simp only [axis] at this
  exact this.trans (List.Perm.append_right _ hb)

/-- Partition law, namespace or attribute node: the node itself is not counted. -/
theorem partition_abnormal {t : Tree} {p : Path} (hw : wf t = true) (h : Valid t p)
    (hn : isNormalAt t p = false) :
    (axis t .ancestor p ++ axis t .descendant p ++ axis t .preceding p ++ axis t .following p).Perm
      (pre t) := by
  rw [pre_split h]
  have hd := axis_descendant_abnormal hw h hn
  rw [descendants_eq h, hd.2, hd.1]
  have hb := (before_perm hw h).symm
  simp only [axis, List.append_nil, List.nil_append] at hb ⊢
  exact List.Perm.append_right _ hb

end XotModel.Axes
