/-
  Where HTML pretty printing puts whitespace (C19_pretty_*): the `Pretty` stack along the event
  stream of a subtree — what `StartTagClose` pushes `EndTag` pops, so a subtree leaves the stack
  as it found it; inside mixed content (an element with a text or inline-element child, a
  formatted element, a suppressed name) no event receives indentation or a newline.
-/
import XotModel.Lemmas.Html5Default
import XotModel.Lemmas.Html5Names

namespace XotModel
open Gen

/-- The (indentation, newline) decoration `serialize_pretty` computes per event. -/
def htmlPrettyTrace (c : HtmlCtx) (sup : List Nat) (t : Tree) : PStack → List (Path × Output) → List (Nat × Bool)
  | _, [] => []
  | ps, (p, o) :: rest =>
    ((prettifyHtmlAt c sup t ps p o).2.1, (prettifyHtmlAt c sup t ps p o).2.2)
      :: htmlPrettyTrace c sup t (prettifyHtmlAt c sup t ps p o).1 rest

/-- The `Pretty` stack after the events. -/
def htmlPrettyFinal (c : HtmlCtx) (sup : List Nat) (t : Tree) : PStack → List (Path × Output) → PStack
  | ps, [] => ps
  | ps, (p, o) :: rest => htmlPrettyFinal c sup t (prettifyHtmlAt c sup t ps p o).1 rest

theorem htmlPrettyFinal_append (c : HtmlCtx) (sup : List Nat) (t : Tree) (a b : List (Path × Output)) :
    ∀ ps, htmlPrettyFinal c sup t ps (a ++ b) = htmlPrettyFinal c sup t (htmlPrettyFinal c sup t ps a) b := by
  induction a with
  | nil => intro ps; rfl
  | cons e a ih => intro ps; obtain ⟨p, o⟩ := e; simp only [List.cons_append, htmlPrettyFinal, ih]

theorem htmlPrettyTrace_append (c : HtmlCtx) (sup : List Nat) (t : Tree) (a b : List (Path × Output)) :
    ∀ ps, htmlPrettyTrace c sup t ps (a ++ b) =
      htmlPrettyTrace c sup t ps a ++ htmlPrettyTrace c sup t (htmlPrettyFinal c sup t ps a) b := by
  induction a with
  | nil => intro ps; rfl
  | cons e a ih =>
    intro ps; obtain ⟨p, o⟩ := e
    simp only [List.cons_append, htmlPrettyTrace, htmlPrettyFinal, ih]

/-- Declaration, attribute and text events never touch the stack and get no whitespace. -/
def Output.isQuiet : Output → Bool
  | .pfx _ _ => true
  | .attribute _ _ => true
  | .text _ => true
  | _ => false

theorem prettifyHtmlAt_quiet (c : HtmlCtx) (sup : List Nat) (t : Tree) (ps : PStack) (p : Path) {o : Output}
    (ho : o.isQuiet = true) : prettifyHtmlAt c sup t ps p o = (ps, 0, false) := by
  unfold prettifyHtmlAt
  cases t.at? p with
  | none => rfl
  | some node => cases o <;> first | rfl | cases ho

theorem quiet_events (c : HtmlCtx) (sup : List Nat) (t : Tree) (evs : List (Path × Output))
    (h : ∀ po ∈ evs, po.2.isQuiet = true) :
    ∀ ps, htmlPrettyFinal c sup t ps evs = ps ∧
      htmlPrettyTrace c sup t ps evs = List.replicate evs.length (0, false) := by
  induction evs with
  | nil => intro ps; exact ⟨rfl, rfl⟩
  | cons e evs ih =>
    intro ps
    obtain ⟨p, o⟩ := e
    have h1 := prettifyHtmlAt_quiet c sup t ps p (h (p, o) (by simp))
    obtain ⟨i1, i2⟩ := ih (fun po hpo => h po (List.mem_cons_of_mem _ hpo)) ps
    simp only [htmlPrettyFinal, htmlPrettyTrace, h1, i1, i2, List.length_cons, List.replicate_succ]
    exact ⟨trivial, trivial⟩

theorem declEvents_quiet (inScope : List (Nat × Nat)) (isTop : Bool) (path : Path) (n : Tree) :
    ∀ po ∈ declEvents inScope isTop path n, po.2.isQuiet = true := by
  intro po hpo
  have := (declEvents_isDecl inScope isTop path n po hpo).2
  cases hpo2 : po.2 <;> simp_all [Output.isDecl, Output.isQuiet]

theorem inMixed_zero {ps : PStack} (h : ps.inMixed = true) : ps.getIndentation = 0 ∧ ps.getNewline = false := by
  simp [PStack.getIndentation, PStack.getNewline, h]

/-- Start tag, comment, PI inside mixed content: no whitespace. -/
theorem prettifyHtmlAt_open_mixed (c : HtmlCtx) (sup : List Nat) (t : Tree) {ps : PStack} (p : Path) {o : Output}
    (hm : ps.inMixed = true)
    (ho : (∃ n, o = .startTagOpen n) ∨ (∃ s, o = .comment s) ∨ (∃ tg d, o = .pi tg d)) :
    prettifyHtmlAt c sup t ps p o = (ps, 0, false) := by
  obtain ⟨h0, h1⟩ := inMixed_zero hm
  unfold prettifyHtmlAt
  cases t.at? p with
  | none => rfl
  | some node =>
    rcases ho with ⟨n, rfl⟩ | ⟨s, rfl⟩ | ⟨tg, d, rfl⟩ <;> simp [prettifyHtml, h0, h1]

/-- `>` of an element with children pushes exactly one entry; inside mixed content it grants no
    newline. -/
theorem prettifyHtml_close_shape (c : HtmlCtx) (sup : List Nat) (ps : PStack) (node : Tree)
    (hc : node.firstChild?.isSome = true) :
    ∃ e nl, prettifyHtml c sup ps node .startTagClose = (e :: ps, 0, nl) ∧ (ps.inMixed = true → nl = false) := by
  simp only [prettifyHtml, hc, if_true]
  repeat' split
  all_goals
    refine ⟨_, _, rfl, fun h => ?_⟩
    simp [PStack.getNewline, PStack.inMixed] at h ⊢
    try (intro hh; exact absurd rfl (hh _ h))

/-- `>` then (any events that restore the stack) then the end tag of the same node: the stack is
    restored; inside mixed content neither event gets whitespace. -/
theorem close_end_pair (c : HtmlCtx) (sup : List Nat) (t : Tree) (ps : PStack) (p : Path) (name : Nat) :
    (prettifyHtmlAt c sup t (prettifyHtmlAt c sup t ps p .startTagClose).1 p (.endTag name)).1 = ps ∧
    (ps.inMixed = true →
      (prettifyHtmlAt c sup t ps p .startTagClose).2 = (0, false) ∧
      (prettifyHtmlAt c sup t ps p .startTagClose).1.inMixed = true ∧
      (prettifyHtmlAt c sup t (prettifyHtmlAt c sup t ps p .startTagClose).1 p (.endTag name)).2 = (0, false)) := by
  unfold prettifyHtmlAt
  cases t.at? p with
  | none => exact ⟨rfl, fun h => ⟨rfl, h, rfl⟩⟩
  | some node =>
    simp only
    by_cases hc : node.firstChild?.isSome = true
    · obtain ⟨e, nl, hsc, hnl⟩ := prettifyHtml_close_shape c sup ps node hc
      rw [hsc]
      simp only [prettifyHtml, hc, if_true, List.tail_cons]
      refine ⟨trivial, fun h => ?_⟩
      have hm : PStack.inMixed (e :: ps) = true := by simp [PStack.inMixed] at h ⊢; exact Or.inr h
      simp [hnl h, hm, (inMixed_zero h).2]
    · have hc' : node.firstChild?.isSome = false := by simpa using hc
      simp only [prettifyHtml, hc', Bool.false_eq_true, if_false]
      exact ⟨trivial, fun h => by simp [h, (inMixed_zero h).2]⟩

mutual
/-- The events of a subtree restore the `Pretty` stack, and inside mixed content none of them
    gets indentation or a newline. -/
theorem pretty_subtree (c : HtmlCtx) (sup : List Nat) (t : Tree) (inScope : List (Nat × Nat)) (n : Tree)
    (isTop : Bool) (path : Path) (ps : PStack) :
    htmlPrettyFinal c sup t ps (genNode inScope isTop path n) = ps ∧
    (ps.inMixed = true → htmlPrettyTrace c sup t ps (genNode inScope isTop path n) =
      List.replicate (genNode inScope isTop path n).length (0, false)) := by
  cases n with
  | node v ks =>
    have leaf : ∀ (o : Output), ((∃ s, o = .comment s) ∨ (∃ tg d, o = .pi tg d) ∨ o.isQuiet = true) →
        htmlPrettyFinal c sup t ps ((path, o) :: genNode.genKids inScope path 0 ks) = ps ∧
        (ps.inMixed = true → htmlPrettyTrace c sup t ps ((path, o) :: genNode.genKids inScope path 0 ks) =
          List.replicate ((path, o) :: genNode.genKids inScope path 0 ks).length (0, false)) := by
      intro o ho
      have hst : (prettifyHtmlAt c sup t ps path o).1 = ps := by
        unfold prettifyHtmlAt
        cases t.at? path with
        | none => rfl
        | some node =>
          rcases ho with ⟨s, rfl⟩ | ⟨tg, d, rfl⟩ | hq
          · rfl
          · rfl
          · cases o <;> first | rfl | cases hq
      obtain ⟨k1, k2⟩ := pretty_kids c sup t inScope ks path 0 ps
      refine ⟨by simp only [htmlPrettyFinal, hst, k1], fun hm => ?_⟩
      have hd : prettifyHtmlAt c sup t ps path o = (ps, 0, false) := by
        rcases ho with h | h | h
        · exact prettifyHtmlAt_open_mixed c sup t path hm (Or.inr (Or.inl h))
        · exact prettifyHtmlAt_open_mixed c sup t path hm (Or.inr (Or.inr h))
        · exact prettifyHtmlAt_quiet c sup t ps path h
      simp only [htmlPrettyTrace, hd, k2 hm, List.length_cons, List.replicate_succ]
    cases v with
    | element name =>
      rw [genNode_element_shape]
      obtain ⟨d1, d2⟩ := quiet_events c sup t _ (declEvents_quiet inScope isTop path (.node (.element name) ks)) ps
      have hso : (prettifyHtmlAt c sup t ps path (.startTagOpen name)).1 = ps := by
        unfold prettifyHtmlAt; cases t.at? path <;> rfl
      obtain ⟨hp1, hp2⟩ := close_end_pair c sup t ps path name
      obtain ⟨k1, k2⟩ := pretty_kids c sup t inScope ks path 0 (prettifyHtmlAt c sup t ps path .startTagClose).1
      constructor
      · simp only [htmlPrettyFinal, hso, htmlPrettyFinal_append, d1, k1]
        exact hp1
      · intro hm
        obtain ⟨q1, q2, q3⟩ := hp2 hm
        have hso' := prettifyHtmlAt_open_mixed c sup t path hm (Or.inl ⟨name, rfl⟩) (o := .startTagOpen name)
        simp only [htmlPrettyTrace, hso', htmlPrettyTrace_append, d1, d2, k1, k2 q2,
          List.length_cons, List.length_append, List.length_nil]
        have e1 : ((prettifyHtmlAt c sup t ps path .startTagClose).2.1,
            (prettifyHtmlAt c sup t ps path .startTagClose).2.2) = (0, false) := q1
        have e2 : ((prettifyHtmlAt c sup t (prettifyHtmlAt c sup t ps path .startTagClose).1 path (.endTag name)).2.1,
            (prettifyHtmlAt c sup t (prettifyHtmlAt c sup t ps path .startTagClose).1 path (.endTag name)).2.2)
              = (0, false) := q3
        rw [e1, e2]
        have r1 : ∀ n, ((0 : Nat), false) :: List.replicate n ((0 : Nat), false) = List.replicate (n + 1) (0, false) :=
          fun n => rfl
        have r2 : ∀ n, List.replicate n ((0 : Nat), false) ++ [(0, false)] = List.replicate (n + 1) (0, false) :=
          fun n => by rw [List.replicate_succ']
        simp only [r2, r1, List.replicate_append_replicate]
    | text s => rw [genNode_text]; exact leaf _ (Or.inr (Or.inr rfl))
    | comment s => rw [genNode_comment]; exact leaf _ (Or.inl ⟨s, rfl⟩)
    | pi tg d => rw [genNode_pi]; exact leaf _ (Or.inr (Or.inl ⟨tg, d, rfl⟩))
    | document => rw [genNode_document]; exact pretty_kids c sup t inScope ks path 0 ps
    | «attribute» a v => rw [genNode_attribute]; exact pretty_kids c sup t inScope ks path 0 ps
    | «namespace» p ns => rw [genNode_namespace]; exact pretty_kids c sup t inScope ks path 0 ps

theorem pretty_kids (c : HtmlCtx) (sup : List Nat) (t : Tree) (inScope : List (Nat × Nat)) (ks : List Tree)
    (path : Path) (i : Nat) (ps : PStack) :
    htmlPrettyFinal c sup t ps (genNode.genKids inScope path i ks) = ps ∧
    (ps.inMixed = true → htmlPrettyTrace c sup t ps (genNode.genKids inScope path i ks) =
      List.replicate (genNode.genKids inScope path i ks).length (0, false)) := by
  cases ks with
  | nil => exact ⟨rfl, fun _ => rfl⟩
  | cons k ks =>
    simp only [genNode.genKids]
    obtain ⟨a1, a2⟩ := pretty_subtree c sup t inScope k false (path ++ [i]) ps
    obtain ⟨b1, b2⟩ := pretty_kids c sup t inScope ks path (i + 1) ps
    refine ⟨by rw [htmlPrettyFinal_append, a1, b1], fun hm => ?_⟩
    rw [htmlPrettyTrace_append, a1, a2 hm, b2 hm, List.length_append, List.replicate_append_replicate]
end

/-! ### Mixed elements are written on one line -/

/-- `>` of an element with children that has an inline child or is suppressed pushes `Mixed` and
    grants no newline. -/
theorem close_pushes_mixed (c : HtmlCtx) (sup : List Nat) (ps : PStack) (node : Tree) (name : Nat)
    (hv : node.value = .element name) (hc : node.firstChild?.isSome = true)
    (hm : htmlHasInlineChild c node = true ∨ htmlIsSuppressed c sup name = true) :
    prettifyHtml c sup ps node .startTagClose = (.mixed :: ps, 0, false) := by
  simp only [prettifyHtml, hc, if_true, hv]
  by_cases hi : htmlHasInlineChild c node = true
  · simp [hi]
  · have hi' : htmlHasInlineChild c node = false := by simpa using hi
    have hs : htmlIsSuppressed c sup name = true := by
      rcases hm with h | h
      · exact absurd h hi
      · exact h
    simp [hi', hs, PStack.getNewline, PStack.inMixed]

/-- The decoration of a mixed element (text or inline-element child, formatted element,
    suppressed name), children included: only its start tag can be indented and only its end tag
    can be followed by a newline — both as the surrounding content decides. -/
theorem mixed_element_trace (c : HtmlCtx) (sup : List Nat) (t : Tree) (inScope : List (Nat × Nat))
    (name : Nat) (ks : List Tree) (isTop : Bool) (path : Path) (ps : PStack)
    (hat : t.at? path = some (.node (.element name) ks))
    (hc : (Tree.node (.element name) ks).firstChild?.isSome = true)
    (hm : htmlHasInlineChild c (.node (.element name) ks) = true ∨ htmlIsSuppressed c sup name = true) :
    htmlPrettyTrace c sup t ps (genNode inScope isTop path (.node (.element name) ks)) =
      (ps.getIndentation, false) ::
        (List.replicate ((declEvents inScope isTop path (.node (.element name) ks)).length + 1
          + (genNode.genKids inScope path 0 ks).length) (0, false) ++ [(0, ps.getNewline)]) := by
  rw [genNode_element_shape]
  obtain ⟨d1, d2⟩ := quiet_events c sup t _ (declEvents_quiet inScope isTop path (.node (.element name) ks)) ps
  have hso : prettifyHtmlAt c sup t ps path (.startTagOpen name) = (ps, ps.getIndentation, false) := by
    simp [prettifyHtmlAt, hat, prettifyHtml]
  have hsc : prettifyHtmlAt c sup t ps path .startTagClose = (.mixed :: ps, 0, false) := by
    simp only [prettifyHtmlAt, hat]
    exact close_pushes_mixed c sup ps _ name rfl hc hm
  have hmx : PStack.inMixed (StackEntry.mixed :: ps) = true := by simp [PStack.inMixed]
  obtain ⟨k1, k2⟩ := pretty_kids c sup t inScope ks path 0 (.mixed :: ps)
  have het : prettifyHtmlAt c sup t (.mixed :: ps) path (.endTag name) = (ps, 0, ps.getNewline) := by
    simp only [prettifyHtmlAt, hat, prettifyHtml, hc, if_true, List.tail_cons, hmx]
    simp
  simp only [htmlPrettyTrace, hso, htmlPrettyTrace_append, d1, d2, hsc, k1, k2 hmx, het]
  rw [← List.replicate_append_replicate, ← List.replicate_append_replicate]
  simp [List.replicate_succ, List.append_assoc]

/-- With indentation, the bytes written are the rendered tokens decorated by `htmlPrettyTrace`. -/
theorem writeHtmlPrettyGo_trace (c : HtmlCtx) (sup : List Nat) (t : Tree) (outs : List (Path × Output)) :
    ∀ ps s, (writeHtmlPrettyGo c sup t ps s outs).2 = .ok () →
      ∃ l, renderHtmlAll c t s outs = .ok l ∧ l.length = outs.length ∧
        (writeHtmlPrettyGo c sup t ps s outs).1 =
          (List.zip (htmlPrettyTrace c sup t ps outs) l).flatMap (fun dk =>
            (if dk.1.1 > 0 then htmlIndentBytes dk.1.1 else []) ++ htmlTokenBytes dk.2.2.2
              ++ (if dk.1.2 then htmlNewline else [])) := by
  induction outs with
  | nil => intro ps s _; exact ⟨[], rfl, rfl, rfl⟩
  | cons po rest ih =>
    intro ps s h
    obtain ⟨p, o⟩ := po
    simp only [writeHtmlPrettyGo] at h ⊢
    simp only [renderHtmlAll]
    cases hr : renderHtmlAt c t s p o with
    | ok v =>
      obtain ⟨s', tok⟩ := v
      rw [hr] at h
      simp only at h ⊢
      obtain ⟨l, hl, hlen, hb⟩ := ih _ s' h
      refine ⟨(p, o, tok) :: l, by rw [hl], by simp [hlen], ?_⟩
      rw [hb]
      simp only [htmlPrettyTrace, List.zip_cons_cons, List.flatMap_cons]
    | err e => rw [hr] at h; simp at h
    | panic => rw [hr] at h; simp at h

end XotModel
