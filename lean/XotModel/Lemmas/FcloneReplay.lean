/-
  Lemmas for C12, part 8: the edge replay of `clone_node` (`cloneInto` / `cloneKids`) equals the
  structural copy with fresh handles (`copyInto` / `copyKids`), for every structurally valid
  source, and never hits the `unwrap` panic.
-/
import XotModel.Lemmas.FcloneValid

namespace XotModel
open HTree

/-- The forest between two steps of the replay: old roots `R`, then the work tree, focus `c`. -/
structure Cloning (g : Forest) (R : List HTree) (fs : List CFrame) (c : Nat) (vc : Value)
    (K : List HTree) : Prop where
  roots : g.roots = R ++ [fcPlug fs (.node c vc K)]
  nodup : (handlesList R ++ (frameHandles fs ++ c :: handlesList K)).Nodup
  below : ∀ h ∈ handlesList R ++ (frameHandles fs ++ c :: handlesList K), h < g.next

/-- Flags that the replay never touches. -/
def SameFlags (g g' : Forest) : Prop :=
  g'.consolidation = g.consolidation ∧ g'.everOff = g.everOff ∧ g'.corrupt = g.corrupt

theorem SameFlags.refl (g : Forest) : SameFlags g g := ⟨rfl, rfl, rfl⟩
theorem SameFlags.trans {a b c : Forest} (h1 : SameFlags a b) (h2 : SameFlags b c) : SameFlags a c :=
  ⟨h2.1.trans h1.1, h2.2.1.trans h1.2.1, h2.2.2.trans h1.2.2⟩

theorem focus_handles_eq (fs : List CFrame) (c : Nat) (vc : Value) (K' : List HTree) (m : Nat) (vm : Value)
    (mk : List HTree) :
    frameHandles (fs ++ [⟨c, vc, K'⟩]) ++ m :: handlesList mk =
      frameHandles fs ++ c :: handlesList (K' ++ [.node m vm mk]) := by
  simp [frameHandles_append, frameHandles, handlesList_append, handlesList, handles]

theorem handlesList_snocClone (b : Bool) (K : List HTree) (n : Nat) (v : Value) :
    handlesList (snocClone b K (.node n v [])) = handlesList K ++ [n] ∨
    handlesList (snocClone b K (.node n v [])) = handlesList K := by
  by_cases hm : ∃ s K' m ps mk, b = true ∧ v = .text s ∧ K = K' ++ [.node m (.text ps) mk]
  · obtain ⟨s, K', m, ps, mk, rfl, rfl, rfl⟩ := hm
    right
    rw [snocClone_merge]
    simp [handlesList_append, handlesList, handles]
  · left
    have : snocClone b K (.node n v []) = K ++ [.node n v []] := by
      cases b with
      | false => exact snocClone_off _ _
      | true =>
        by_cases ht : v.isText = true
        · apply snocClone_nomerge
          intro K' x hK
          cases x with
          | node m vm mk =>
            cases vm <;> try rfl
            exfalso
            apply hm
            cases v <;> simp_all [Value.isText]
        · exact snocClone_nontext _ _ _ (by simpa [HTree.value] using ht)
    rw [this]
    simp [handlesList_append, handlesList, handles]

namespace Cloning

variable {g : Forest} {R : List HTree} {fs : List CFrame} {c : Nat} {vc : Value} {K : List HTree}

theorem work (cl : Cloning g R fs c vc K) (v : Value) :
    Work (g.newNode v).1 R fs c vc K g.next v := by
  refine ⟨?_, cl.nodup, ?_⟩
  · simp [Forest.newNode, cl.roots]
  · intro h
    exact Nat.lt_irrefl _ (cl.below _ h)

/-- After `new_node` + `any_append`. -/
theorem afterStep (cl : Cloning g R fs c vc K) (v : Value) (K1 : List HTree)
    (hK : handlesList K1 = handlesList K ++ [g.next] ∨ handlesList K1 = handlesList K) :
    Cloning ((g.newNode v).1.withRoots (R ++ [fcPlug fs (.node c vc K1)])) R fs c vc K1 := by
  have hn : ((g.newNode v).1.withRoots (R ++ [fcPlug fs (.node c vc K1)])).next = g.next + 1 := rfl
  refine ⟨rfl, ?_, ?_⟩
  · rcases hK with e | e
    · rw [e]
      have : handlesList R ++ (frameHandles fs ++ c :: (handlesList K ++ [g.next])) =
          (handlesList R ++ (frameHandles fs ++ c :: handlesList K)) ++ [g.next] := by
        simp [List.append_assoc]
      rw [this, List.nodup_append]
      refine ⟨cl.nodup, by simp, ?_⟩
      intro a ha b hb
      simp only [List.mem_singleton] at hb
      have := cl.below a ha
      omega
    · rw [e]; exact cl.nodup
  · intro h hh
    rw [hn]
    rcases hK with e | e
    · rw [e] at hh
      simp only [List.mem_append, List.mem_cons, List.mem_singleton, List.mem_nil_iff, or_false] at hh
      rcases hh with h1 | h1 | h1 | h1 | h1
      · have := cl.below h (by simp [h1]); omega
      · have := cl.below h (by simp [h1]); omega
      · have := cl.below h (by simp [h1]); omega
      · have := cl.below h (by simp [h1]); omega
      · omega
    · rw [e] at hh
      have := cl.below h hh; omega

theorem descend {n : Nat} {v : Value} {K2 : List HTree} (cl : Cloning g R fs c vc (K ++ [.node n v K2])) :
    Cloning g R (fs ++ [⟨c, vc, K⟩]) n v K2 := by
  have e := focus_handles_eq fs c vc K n v K2
  refine ⟨?_, ?_, ?_⟩
  · rw [cl.roots, fcPlug_append]
  · rw [e]; exact cl.nodup
  · rw [e]; exact cl.below

theorem ascend {n : Nat} {v : Value} {K2 : List HTree} (cl : Cloning g R (fs ++ [⟨c, vc, K⟩]) n v K2) :
    Cloning g R fs c vc (K ++ [.node n v K2]) := by
  have e := focus_handles_eq fs c vc K n v K2
  refine ⟨?_, ?_, ?_⟩
  · rw [cl.roots, fcPlug_append]
  · rw [← e]; exact cl.nodup
  · rw [← e]; exact cl.below

end Cloning

/-- What one source node turns into: absorbed / appended leaf, or an element with copied kids. -/
theorem copyInto_shape (cons : Bool) (K : List HTree) (n h : Nat) (v : Value) (ks : List HTree)
    (hd : v.isDocument = false) :
    (copyInto cons K n (.node h v ks)).1 = snocClone cons K (.node n v []) ∨
    ∃ kids, (copyInto cons K n (.node h v ks)).1 = K ++ [.node n v kids] := by
  cases v <;> simp_all [copyInto, Value.isDocument]

theorem copyInto_leaf (cons : Bool) (K : List HTree) (n h : Nat) (v : Value) (ks : List HTree)
    (hne : v.isElement = false) (hnd : v.isDocument = false) :
    copyInto cons K n (.node h v ks) = (snocClone cons K (.node n v []), n + 1) := by
  cases v <;> simp_all [copyInto, Value.isElement, Value.isDocument]

@[simp] theorem Forest.newNode_snd (g : Forest) (v : Value) : (g.newNode v).2 = g.next := rfl

/-- A leaf of the source: one `new_node`, one `any_append`. -/
theorem cloneInto_leaf {g : Forest} {R : List HTree} {fs : List CFrame} {c : Nat} {vc : Value}
    {K : List HTree} (cl : Cloning g R fs c vc K) (h : Nat) (v : Value) (adm : Admissible vc K v)
    (hne : v.isElement = false) :
    ∃ g', Forest.cloneInto g c (.node h v []) = some g' ∧
      Cloning g' R fs c vc (snocClone g.consolidation K (.node g.next v [])) ∧
      g'.next = g.next + 1 ∧ SameFlags g g' := by
  have w := cl.work v
  obtain ⟨_, step⟩ := w.anyAppend_fresh adm
  have cl2 := cl.afterStep v _ (handlesList_snocClone g.consolidation K g.next v)
  have hcons : (g.newNode v).1.consolidation = g.consolidation := rfl
  rw [hcons] at step
  refine ⟨_, ?_, cl2, rfl, ⟨rfl, rfl, rfl⟩⟩
  cases v with
  | document => exact absurd adm (by simp [Admissible])
  | element e => simp [Value.isElement] at hne
  | text s => simp only [Forest.cloneInto, Forest.newNode_snd, step, Forest.cloneKids]
  | pi t d => simp only [Forest.cloneInto, Forest.newNode_snd, step, Forest.cloneKids]
  | comment s => simp only [Forest.cloneInto, Forest.newNode_snd, step, Forest.cloneKids]
  | «attribute» a s => simp only [Forest.cloneInto, Forest.newNode_snd, step, Forest.cloneKids]
  | «namespace» p ns => simp only [Forest.cloneInto, Forest.newNode_snd, step, Forest.cloneKids]

mutual
  theorem cloneInto_spec (b : Bool) : ∀ (t : HTree) (g : Forest) (R : List HTree) (fs : List CFrame)
      (c : Nat) (vc : Value) (K : List HTree), Cloning g R fs c vc K → validTree b t = true →
      Admissible vc K t.value →
      ∃ g', Forest.cloneInto g c t = some g' ∧
        Cloning g' R fs c vc (copyInto g.consolidation K g.next t).1 ∧
        g'.next = (copyInto g.consolidation K g.next t).2 ∧ SameFlags g g'
    | .node h v ks, g, R, fs, c, vc, K, cl, hv, adm => by
      by_cases hel : v.isElement = true
      · cases v with
        | element e =>
          have w := cl.work (.element e)
          obtain ⟨_, step⟩ := w.anyAppend_fresh adm
          have cl2 := cl.afterStep (.element e) _
            (handlesList_snocClone g.consolidation K g.next (.element e))
          have hcons : (g.newNode (.element e)).1.consolidation = g.consolidation := rfl
          rw [hcons] at step
          rw [snocClone_nontext _ _ _ rfl] at step cl2
          have cl3 := cl2.descend
          obtain ⟨g3, h3, cl4, hn, hf⟩ := cloneKids_spec b ks _ R (fs ++ [⟨c, vc, K⟩]) g.next
            (.element e) [] cl3 (validTree_kids b h _ ks hv) (pending_init b h _ ks hv)
          refine ⟨g3, ?_, ?_, ?_, ?_⟩
          · simp only [Forest.cloneInto, Forest.newNode_snd, step, Value.isElement, if_true]
            exact h3
          · simp only [copyInto]
            exact cl4.ascend
          · simp only [copyInto]
            exact hn
          · exact hf
        | _ => simp [Value.isElement] at hel
      · have hel' : v.isElement = false := by simpa using hel
        have hd : v.isDocument = false := by
          cases v <;> simp_all [Admissible, HTree.value, Value.isDocument]
        have hk := valid_leaf b h _ ks hv hel' hd
        subst hk
        obtain ⟨g', h1, cl1, hn, hf⟩ := cloneInto_leaf cl h v adm hel'
        refine ⟨g', h1, ?_, ?_, hf⟩
        · rw [copyInto_leaf _ _ _ _ _ _ hel' hd]; exact cl1
        · rw [copyInto_leaf _ _ _ _ _ _ hel' hd]; exact hn
  theorem cloneKids_spec (b : Bool) : ∀ (ks : List HTree) (g : Forest) (R : List HTree) (fs : List CFrame)
      (c : Nat) (vc : Value) (K : List HTree), Cloning g R fs c vc K → validList b ks = true →
      Pending vc K ks →
      ∃ g', Forest.cloneKids g c ks = some g' ∧
        Cloning g' R fs c vc (copyKids g.consolidation K g.next ks).1 ∧
        g'.next = (copyKids g.consolidation K g.next ks).2 ∧ SameFlags g g'
    | [], g, R, fs, c, vc, K, cl, _, _ =>
      ⟨g, by simp [Forest.cloneKids], by simpa [copyKids] using cl, by simp [copyKids], SameFlags.refl g⟩
    | k :: ks, g, R, fs, c, vc, K, cl, hv, pend => by
      obtain ⟨hvk, hvks⟩ := fc_validList_cons b k ks hv
      obtain ⟨g1, h1, cl1, hn1, hf1⟩ := cloneInto_spec b k g R fs c vc K cl hvk pend.admissible
      have pend1 : Pending vc (copyInto g.consolidation K g.next k).1 ks := by
        cases k with
        | node h v ks' =>
          have hd : v.isDocument = false := by
            have := pend.admissible
            cases v <;> simp_all [Admissible, HTree.value, Value.isDocument]
          rcases copyInto_shape g.consolidation K g.next h v ks' hd with e | ⟨kids, e⟩
          · rw [e]; exact (pend.step g.consolidation g.next []).1
          · rw [e]; exact (pend.step g.consolidation g.next kids).2
      obtain ⟨g2, h2, cl2, hn2, hf2⟩ := cloneKids_spec b ks g1 R fs c vc _ cl1 hvks pend1
      refine ⟨g2, ?_, ?_, ?_, hf1.trans hf2⟩
      · simp only [Forest.cloneKids, h1]
        exact h2
      · simp only [copyKids]
        rw [hf1.1, hn1] at cl2
        exact cl2
      · simp only [copyKids]
        rw [hf1.1, hn1] at hn2
        exact hn2
end

end XotModel
