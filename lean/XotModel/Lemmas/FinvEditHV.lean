/-
  Finv (C04), part 41: the calls that extend NO text node although they are not VStep-provable with
  an empty site list — `element_wrap`, map `remove`, map `clear`.  Route: a predicate-valued
  containment lemma for the (handle, value) pairs under the one-site edit `Forest.editAt`
  (`hvList_editAt_sub`), then "no pair is new except the fresh handle" read off the C05
  specifications `specWrap` / `specMapRemove` (accepted calls) and off the map step of C11 (`clear`).
-/
import XotModel.Lemmas.FinvComposite
import XotModel.Lemmas.FspecWrap
import XotModel.Lemmas.FspecMapUpd
import XotModel.Lemmas.FmapNext

namespace XotModel
open HTree Spec

/-! ### (handle, value) pairs under `editAt` -/

mutual
  /-- If the list function `g` adds only pairs satisfying `P`, so does the edit of a tree at `s`. -/
  theorem hv_editAt_sub (P : Nat × Value → Prop) (s : Nat) (g : List HTree → List HTree)
      (hg : ∀ L, ∀ p ∈ hvList (g L), p ∈ hvList L ∨ P p) :
      ∀ t : HTree, ∀ p ∈ hv (mapAt s (fun n => n.setKids (g n.kids)) t), p ∈ hv t ∨ P p
    | .node h v ks => by
      intro p hp
      simp only [mapAt] at hp
      split at hp
      · simp only [HTree.setKids, HTree.kids, hv_node, List.mem_cons] at hp ⊢
        rcases hp with hp | hp
        · exact Or.inl (Or.inl hp)
        · rcases hg ks p hp with h1 | h1
          · exact Or.inl (Or.inr h1)
          · exact Or.inr h1
      · simp only [hv_node, List.mem_cons] at hp ⊢
        rcases hp with hp | hp
        · exact Or.inl (Or.inl hp)
        · rcases hvList_editAt_sub' P s g hg ks p hp with h1 | h1
          · exact Or.inl (Or.inr h1)
          · exact Or.inr h1
  theorem hvList_editAt_sub' (P : Nat × Value → Prop) (s : Nat) (g : List HTree → List HTree)
      (hg : ∀ L, ∀ p ∈ hvList (g L), p ∈ hvList L ∨ P p) :
      ∀ ks : List HTree, ∀ p ∈ hvList (mapAtList s (fun n => n.setKids (g n.kids)) ks), p ∈ hvList ks ∨ P p
    | [] => by intro p hp; simp [mapAtList] at hp
    | k :: ks => by
      intro p hp
      simp only [mapAtList, hvList_cons, List.mem_append] at hp ⊢
      rcases hp with hp | hp
      · rcases hv_editAt_sub P s g hg k p hp with h1 | h1
        · exact Or.inl (Or.inl h1)
        · exact Or.inr h1
      · rcases hvList_editAt_sub' P s g hg ks p hp with h1 | h1
        · exact Or.inl (Or.inr h1)
        · exact Or.inr h1
end

namespace Forest

/-- **Predicate-valued containment for `Forest.editAt`**: an edit of one site whose list function
    adds only pairs satisfying `P` adds only such pairs to the forest. -/
theorem hvList_editAt_sub (P : Nat × Value → Prop) (f : Forest) (s : Option Nat) (g : List HTree → List HTree)
    (hg : ∀ L, ∀ p ∈ hvList (g L), p ∈ hvList L ∨ P p) :
    ∀ p ∈ hvList (f.editAt s g).roots, p ∈ hvList f.roots ∨ P p := by
  cases s with
  | none => exact hg f.roots
  | some q =>
    intro p hp
    simp only [Forest.editAt, HTree.editAt, ← mapAtList_eq_map] at hp
    exact hvList_editAt_sub' P q g hg f.roots p hp

variable {S T : Nat → Prop}

/-- Every pair afterwards is an old pair or carries a fresh handle. -/
theorem VStep.of_sub_fresh {f f' : Forest} (hn : f.next ≤ f'.next)
    (hs : ∀ p ∈ hvList f'.roots, p ∈ hvList f.roots ∨ f.next ≤ p.1) : VStep S T f f' :=
  ⟨hn, fun x v' h => by
    rcases hs _ h with h1 | h1
    · exact VOrigin.of_mem h1
    · exact Or.inl h1⟩

/-- No site, no target: every surviving handle keeps its value exactly. -/
theorem VStep.exact0 {f f' : Forest} (h : VStep (fun _ => False) (fun _ => False) f f') (hi : f.Inv)
    {x : Nat} {v v' : Value} (hv : f.value? x = some v) (hv' : f'.value? x = some v') : v' = v := by
  rcases h.value hi hv hv' with h1 | h1 | h1
  · exact h1
  · exact h1.1.elim
  · exact h1.1.elim

/-! ### The list functions of `specWrap` / `specMapRemove` -/

theorem hvList_append (a b : List HTree) : hvList (a ++ b) = hvList a ++ hvList b := by
  induction a with
  | nil => simp
  | cons k ks ih => simp [ih]

theorem hvList_replaceTop_wrap (n w name : Nat) : ∀ L : List HTree,
    ∀ p ∈ hvList (replaceTop n (fun k => [HTree.node w (.element name) [k]]) L), p ∈ hvList L ∨ w ≤ p.1
  | [] => by intro p hp; simp [replaceTop] at hp
  | k :: ks => by
    intro p hp
    simp only [replaceTop] at hp
    split at hp
    · simp only [List.cons_append, List.nil_append, hvList_cons, hv_node, hvList_nil, List.append_nil,
        List.mem_append, List.mem_cons] at hp ⊢
      rcases hp with hp | hp | hp
      · exact Or.inr (by rw [hp]; exact Nat.le_refl _)
      · exact Or.inl (Or.inl hp)
      · exact Or.inl (Or.inr hp)
    · simp only [hvList_cons, List.mem_append] at hp ⊢
      rcases hp with hp | hp
      · exact Or.inl (Or.inl hp)
      · rcases hvList_replaceTop_wrap n w name ks p hp with h1 | h1
        · exact Or.inl (Or.inr h1)
        · exact Or.inr h1

theorem hvList_dropTop (n : Nat) : ∀ L : List HTree, ∀ p ∈ hvList (dropTop n L), p ∈ hvList L
  | [] => by intro p hp; simp [dropTop] at hp
  | k :: ks => by
    intro p hp
    simp only [dropTop] at hp
    split at hp
    · simp only [hvList_cons, List.mem_append]
      exact Or.inr (hvList_dropTop n ks p hp)
    · simp only [hvList_cons, List.mem_append] at hp ⊢
      rcases hp with hp | hp
      · exact Or.inl hp
      · exact Or.inr (hvList_dropTop n ks p hp)

theorem hvList_sublist {a b : List HTree} (h : a.Sublist b) : ∀ p ∈ hvList a, p ∈ hvList b := by
  induction h with
  | slnil => intro p hp; exact hp
  | cons k _ ih =>
    intro p hp
    simp only [hvList_cons, List.mem_append]
    exact Or.inr (ih p hp)
  | cons_cons k _ ih =>
    intro p hp
    simp only [hvList_cons, List.mem_append] at hp ⊢
    rcases hp with hp | hp
    · exact Or.inl hp
    · exact Or.inr (ih p hp)

/-! ### element_wrap -/

/-- The specification of `element_wrap` adds the wrapper's pair only. -/
theorem vstep_specWrap (f : Forest) (n name : Nat) : VStep S T f (specWrap n name f) := by
  unfold specWrap
  cases hg : f.get? n with
  | none => exact VStep.refl f
  | some t =>
    simp only
    cases f.parent? n with
    | some p =>
      simp only
      refine VStep.of_sub_fresh (Nat.le_succ _) ?_
      exact hvList_editAt_sub (fun p => f.next ≤ p.1) f (some p) _ (hvList_replaceTop_wrap n f.next name)
    | none =>
      simp only
      refine VStep.of_sub_fresh (Nat.le_succ _) ?_
      intro p hp
      simp only [Forest.editAt, insertLast, hvList_append, hvList_cons, hv_node, hvList_nil, List.append_nil,
        List.mem_append, List.mem_cons] at hp
      rcases hp with hp | hp | hp
      · exact Or.inl (hvList_dropTop n f.roots p hp)
      · exact Or.inr (by rw [hp]; exact Nat.le_refl _)
      · exact Or.inl (hv_of_get? hg p hp)

/-- **element_wrap extends no text node**: an accepted call leaves the value of every surviving
    handle exactly as it was (the one new pair is the wrapper, handle `f.next`). -/
theorem elementWrap_value_exact {f : Forest} (hi : f.Inv) (n name : Nat)
    (hok : (f.elementWrap n name).2.1 = .ok) {x : Nat} {v v' : Value}
    (hv : f.value? x = some v) (hv' : (f.elementWrap n name).1.value? x = some v') : v' = v := by
  have e : (f.elementWrap n name).1 = specWrap n name f := by
    cases hpar : f.parent? n with
    | none => exact (wrap_spec_root hi hpar hok).1
    | some p => exact (wrap_spec_kid hi hpar hok).1
  rw [e] at hv'
  exact (vstep_specWrap f n name).exact0 hi hv hv'

/-! ### map remove -/

theorem vstep_specMapRemove (f : Forest) (k : MapKind) (e key : Nat) :
    VStep S T f (specMapRemove k e key f) := by
  rw [specMapRemove_eq]
  refine VStep.of_sub rfl (fun p hp => ?_)
  rcases hvList_editAt_sub (fun _ => False) f (some e) _
    (fun L p hp => Or.inl (hvList_sublist (removeEntry_sublist k key L) p hp)) p hp with h1 | h1
  · exact h1
  · exact h1.elim

/-- **map `remove(key)` extends no text node**, any arguments: a refused call (not an element) changes
    nothing, an accepted one is `specMapRemove` — one child list filtered. -/
theorem mapRemove_value_exact {f : Forest} (hi : f.Inv) (k : MapKind) (e key : Nat) {x : Nat} {v v' : Value}
    (hv : f.value? x = some v) (hv' : (f.mapRemove k e key).1.value? x = some v') : v' = v := by
  cases he : f.isElement e with
  | false =>
    have e0 : (f.mapRemove k e key).1 = f := by
      unfold mapRemove
      simp [he]
    rw [e0, hv] at hv'
    cases hv'; rfl
  | true =>
    rw [mapRemove_spec hi he] at hv'
    exact (vstep_specMapRemove f k e key).exact0 hi hv hv'

/-! ### map clear -/

/-- **map `clear()` extends no text node**, any arguments: the child list of the element loses the
    view's entries, every other pair is an old pair. -/
theorem mapClear_value_exact {f : Forest} (hi : f.Inv) (k : MapKind) (e : Nat) {x : Nat} {v v' : Value}
    (hv : f.value? x = some v) (hv' : (f.mapClear k e).1.value? x = some v') : v' = v := by
  cases he : f.isElement e with
  | false =>
    have e0 : (f.mapClear k e).1 = f := by
      unfold mapClear
      simp [he]
    rw [e0, hv] at hv'
    cases hv'; rfl
  | true =>
    obtain ⟨nm, N, A, Sx, h⟩ := Fmap.minv_of_inv f e hi he
    obtain ⟨st, _⟩ := Fmap.mapClear_step h k
    have hr : (f.mapClear k e).1.roots = Fmap.withKids f.roots e (Fmap.preK k N ++ [] ++ Fmap.postK k A Sx) :=
      congrArg Forest.roots st.state
    have s := MInv_site h
    have hr2 : (f.mapClear k e).1.roots =
        (f.editAt (some e) (fun _ => Fmap.preK k N ++ [] ++ Fmap.postK k A Sx)).roots := by
      rw [hr, s.editAt_eq_withKids]
    have hsub : (Fmap.preK k N ++ [] ++ Fmap.postK k A Sx).Sublist (N ++ A ++ Sx) := by
      cases k with
      | namespaces =>
        simp only [Fmap.preK, Fmap.postK, List.append_nil, List.nil_append, List.append_assoc]
        exact List.sublist_append_right _ _
      | attributes =>
        simp only [Fmap.preK, Fmap.postK, List.append_nil, List.append_assoc]
        exact List.Sublist.append (List.Sublist.refl _) (List.sublist_append_right _ _)
    have hkids : ∀ p ∈ hvList (N ++ A ++ Sx), p ∈ hvList f.roots := by
      intro p hp
      exact hv_of_get? s.kids p (by simp only [hv_node, List.mem_cons]; exact Or.inr hp)
    have hstep : VStep (fun _ => False) (fun _ => False) f (f.mapClear k e).1 := by
      refine VStep.of_sub (Fmap.nx_mapClear f k e) (fun p hp => ?_)
      rw [hr2] at hp
      rcases hvList_editAt_sub (fun p => p ∈ hvList f.roots) f (some e) _
        (fun L p hp => Or.inr (hkids p (hvList_sublist hsub p hp))) p hp with h1 | h1
      · exact h1
      · exact h1
    exact hstep.exact0 hi hv hv'

end Forest
end XotModel
