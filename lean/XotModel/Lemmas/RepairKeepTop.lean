/-
  `KeptNode` / `BindingsKept` (Lemmas/RepairKeep) for one whole call of
  `create_missing_prefixes_for_element`: the repaired element itself receives the new prefix
  declarations, which are fresh, so every binding in force at it and below it is kept.
-/
import XotModel.Lemmas.RepairKeep

namespace XotModel.Repair
open XotModel

theorem bindingsKept_refl (fs : Frames) : BindingsKept fs fs :=
  ⟨fun _ _ _ h => h, Or.inl rfl⟩

theorem lookupFrames_single (inh : List (Nat × Nat)) (p : Nat) :
    lookupFrames [inh] p = List.lookup p inh := by
  simp only [lookupFrames]
  cases List.lookup p inh <;> rfl

theorem wDefault_base {inh : List (Nat × Nat)} (hu : UniquePrefixes inh) : WDefault inh [inh] := by
  intro n
  rw [lookupFrames_single]
  exact (lookup_some_iff hu _ n).symm

/-- The repaired element: bindings at it, and every node below it. -/
theorem rebuild_top_kept (nsOf : Nat → Nat) (nd : List (Nat × Nat)) (name : Nat) (ks : List Tree)
    (inh : List (Nat × Nat)) (hu : URec (.node (.element name) ks)) (hinhU : UniquePrefixes inh)
    (hne : ∀ d ∈ nd, d.1 ≠ Env.emptyPrefix)
    (hfD : ∀ p ∈ keys nd, p ∉ keys (declsOfKids ks)) (hfI : ∀ p ∈ keys nd, p ∉ keys inh) :
    BindingsKept ((Tree.node (.element name) ks).nsDecls :: [inh])
        ((rebuild nsOf nd true inh (.node (.element name) ks)).nsDecls :: [inh]) ∧
      AllPairs (KeptNode nsOf) (nodesBelow [inh] (.node (.element name) ks))
        (nodesBelow [inh] (rebuild nsOf nd true inh (.node (.element name) ks))) := by
  have hD : UniquePrefixes (declsOfKids ks) := by
    have := hu.1; rwa [frameOf_node] at this
  have hw := wDefault_base hinhU
  have hvals := fun top' => map_value_rebuildKids nsOf nd top' ks
  have hnu := needsUndeclare_frames nsOf hw name ks hD
  have h0nd : Env.emptyPrefix ∉ keys nd := by
    intro h
    obtain ⟨n, hn⟩ := mem_keys.mp h
    exact hne _ hn rfl
  -- a prefix bound at the element before the call is not one of the new prefixes
  have hfresh : ∀ p ns, lookupFrames (declsOfKids ks :: [inh]) p = some ns → p ∉ keys nd := by
    intro p ns hl hp
    rw [lookupFrames_cons, lookupFrames_single] at hl
    cases hd : List.lookup p (declsOfKids ks) with
    | some m =>
      exact hfD p hp (by
        by_cases hk : p ∈ keys (declsOfKids ks)
        · exact hk
        · rw [(lookup_none_iff p _).mpr hk] at hd; cases hd)
    | none =>
      simp only [hd] at hl
      exact hfI p hp (by
        by_cases hk : p ∈ keys inh
        · exact hk
        · rw [(lookup_none_iff p _).mpr hk] at hl; cases hl)
  have hfr : frameOf (.node (.element name) ks) = declsOfKids ks := by simp [frameOf_node, Value.isElement]
  have hfrE' : frameOf (rebuild nsOf nd true inh (.node (.element name) ks)) =
      (rebuild nsOf nd true inh (.node (.element name) ks)).nsDecls := by
    unfold frameOf; rw [value_rebuild]; rfl
  simp only [nodesBelow, hfrE', hfr, nsDecls_node]
  cases hc : needsUndeclare nsOf inh (.node (.element name) ks) name with
  | false =>
    have hreb : rebuild nsOf nd true inh (.node (.element name) ks) =
        insertNamespaces nd (.node (.element name) (rebuildKids nsOf nd (pushTop inh (declsOfKids ks)) ks)) := by
      simp [rebuild, hc, walkTop, walkDecls, nsDecls_node]
    have hdecl : (rebuild nsOf nd true inh (.node (.element name) ks)).nsDecls =
        nd.foldl (fun D d => insertDecl d.1 d.2 D) (declsOfKids ks) := by
      rw [hreb, nsDecls_insertNamespaces, nsDecls_node, declsOfKids_congr (hvals _)]
    have hbk : BindingsKept (declsOfKids ks :: [inh])
        ((rebuild nsOf nd true inh (.node (.element name) ks)).nsDecls :: [inh]) := by
      rw [hdecl]
      exact bindingsKept_push (bindingsKept_refl _) _ _
        (fun p _ ns hl => lookup_foldl_insertDecl p nd _ (hfresh p ns hl))
        (Or.inl (lookup_foldl_insertDecl _ nd _ h0nd))
    refine ⟨hbk, ?_⟩
    rw [hreb, nodesKids_insertNamespaces]
    rw [hreb] at hbk
    simp only [Tree.kids]
    apply rebuildKids_kept nsOf nd ks _ _ _ hu.2 ?_ hbk
    apply wDefault_push hw
    intro n
    rw [← hreb, hdecl, lookup_foldl_insertDecl _ nd _ h0nd]
    exact (lookup_some_iff hD _ n).symm
  | true =>
    have hreb : rebuild nsOf nd true inh (.node (.element name) ks) =
        insertNamespace Env.emptyPrefix Env.noNamespace (insertNamespaces nd
          (.node (.element name) (rebuildKids nsOf nd (pushTop inh (undeclaredDecls (declsOfKids ks))) ks))) := by
      simp [rebuild, hc, walkTop, walkDecls, nsDecls_node]
    have hdecl : (rebuild nsOf nd true inh (.node (.element name) ks)).nsDecls =
        insertDecl Env.emptyPrefix Env.noNamespace
          (nd.foldl (fun D d => insertDecl d.1 d.2 D) (declsOfKids ks)) := by
      rw [hreb, nsDecls_insertNamespace, nsDecls_insertNamespaces, nsDecls_node,
        declsOfKids_congr (hvals _)]
    obtain ⟨_, _, _, n, hn, hl⟩ := hnu.mp hc
    simp only [nsDecls_node] at hl
    have hbk : BindingsKept (declsOfKids ks :: [inh])
        ((rebuild nsOf nd true inh (.node (.element name) ks)).nsDecls :: [inh]) := by
      rw [hdecl]
      refine bindingsKept_push (bindingsKept_refl _) _ _ (fun p hp ns hl' => ?_)
        (Or.inr ⟨lookup_insertDecl_self _ _ _, n, hn, hl⟩)
      rw [lookup_insertDecl_ne _ _ _ hp, lookup_foldl_insertDecl p nd _ (hfresh p ns hl')]
    refine ⟨hbk, ?_⟩
    rw [hreb, nodesKids_insertNamespace, nodesKids_insertNamespaces]
    rw [hreb] at hbk
    simp only [Tree.kids]
    apply rebuildKids_kept nsOf nd ks _ _ _ hu.2 ?_ hbk
    apply wDefault_push hw
    intro m
    rw [← hreb, hdecl, lookup_insertDecl_self, mem_undeclaredDecls]
    constructor
    · rintro (⟨h, _⟩ | ⟨_, h⟩)
      · exact absurd rfl h
      · rw [h]
    · intro h
      simp only [Option.some.injEq] at h
      exact Or.inr ⟨rfl, h.symm⟩

/-- The new prefixes are not among the declarations the element inherits. -/
theorem facts_fresh_inherited {t : Tree} {path : Path} {name : Nat} {ks : List Tree}
    (hat : t.at? path = some (.node (.element name) ks)) {nd : List (Nat × Nat)}
    (hscopeFresh : ∀ p ∈ keys nd, p ∉ keys ((namespacesInScope t path).getD []))
    (hdecl : ∀ p ∈ keys nd, p ∉ keys (Tree.node (.element name) ks).nsDecls) :
    ∀ p ∈ keys nd, p ∉ keys (inheritedDecls t path) := by
  obtain ⟨rest, hc⟩ := ancestorsOrSelf_of_at? t path _ hat
  have hinhEq := inheritedDecls_eq t path _ rest hc
  have hscope : (namespacesInScope t path).getD [] =
      namespacesInScopeChain (.node (.element name) ks :: rest) := by
    simp [namespacesInScope, hc]
  intro p hp hin
  rw [hinhEq] at hin
  obtain ⟨m, hm⟩ := mem_keys.mp hin
  have hspec := (rs_mem_namespacesInScopeChain rest p m).mp hm
  cases hl : (Tree.node (.element name) ks).nsDecls.lookup p with
  | none =>
    have : scopeSpecChain (.node (.element name) ks :: rest) p = some m := by
      simp only [scopeSpecChain, hl, hspec]
    have := (rs_mem_namespacesInScopeChain _ p m).mpr this
    exact hscopeFresh p hp (by rw [hscope]; exact mem_keys.mpr ⟨m, this⟩)
  | some n =>
    have hk : p ∈ keys (Tree.node (.element name) ks).nsDecls := by
      by_cases hk : p ∈ keys (Tree.node (.element name) ks).nsDecls
      · exact hk
      · rw [(lookup_none_iff p _).mpr hk] at hl
        cases hl
    exact hdecl p hp hk

theorem inheritedDecls_unique (t : Tree) (path : Path) (E : Tree) (hat : t.at? path = some E) :
    UniquePrefixes (inheritedDecls t path) := by
  obtain ⟨rest, hc⟩ := ancestorsOrSelf_of_at? t path _ hat
  rw [inheritedDecls_eq t path _ rest hc]
  exact rs_namespacesInScopeChain_nodup rest

/-- One call: the repaired element keeps its value; the bindings in force at it are kept; every node
    below it is `KeptNode`. -/
theorem facts_kept {env : Env} {t : Tree} {path : Path} {name : Nat} {ks : List Tree} {env' : Env}
    {t' : Tree} (hat : t.at? path = some (.node (.element name) ks))
    (hu : UniqueBelow (.node (.element name) ks))
    (hf : RepairFacts env t path (.node (.element name) ks) env' t') :
    ∃ E', t'.at? path = some E' ∧ E'.value = .element name ∧
      BindingsKept ((Tree.node (.element name) ks).nsDecls :: [inheritedDecls t path])
        (E'.nsDecls :: [inheritedDecls t path]) ∧
      AllPairs (KeptNode env.nsOfName) (nodesBelow [inheritedDecls t path] (.node (.element name) ks))
        (nodesBelow [inheritedDecls t path] E') := by
  obtain ⟨nd, hat', _, _, hne, hsc, hdecl, _⟩ := hf.nd
  have hfD : ∀ p ∈ keys nd, p ∉ keys (declsOfKids ks) := fun p hp => hdecl p hp [] _ name rfl rfl
  have hfI := facts_fresh_inherited hat hsc hfD
  obtain ⟨h1, h2⟩ := rebuild_top_kept env.nsOfName nd name ks (inheritedDecls t path)
    ((uniqueBelow_iff _).mp hu) (inheritedDecls_unique t path _ hat) hne hfD hfI
  exact ⟨_, hat', by rw [value_rebuild]; rfl, h1, h2⟩

end XotModel.Repair
