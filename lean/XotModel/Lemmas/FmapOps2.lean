/-
  Lemmas for C11, part 8: a new entry (`insert` of an absent key, `insert_node` of a parentless
  entry node), `remove`, `clear`.
-/
import XotModel.Lemmas.FmapOps

namespace XotModel
namespace Fmap
open HTree
open Forest (MapKind entryKey mapChildren)

/-! ### `arena.new_node` -/

theorem findList?_append_left (e : Nat) (a b : List HTree) (t : HTree)
    (h : findList? e a = some t) : findList? e (a ++ b) = some t := by
  induction a with
  | nil => simp [findList?] at h
  | cons k a ih =>
    simp only [findList?, List.cons_append] at h ⊢
    cases hk : find? e k with
    | some t' => rw [hk] at h; exact h
    | none => rw [hk] at h; exact ih h

theorem newNode_eq (f : Forest) (v : Value) :
    f.newNode v = ({ f with roots := f.roots ++ [.node f.next v []], next := f.next + 1 }, f.next) := rfl

theorem allHandles_newNode (f : Forest) (v : Value) :
    (f.newNode v).1.allHandles = f.allHandles ++ [f.next] := by
  simp [newNode_eq, Forest.allHandles, handlesList_append, handlesList, handles]

theorem root_handle_below (f : Forest) (hb : ∀ h ∈ f.allHandles, h < f.next) :
    ∀ r ∈ f.roots, r.handle ≠ f.next := by
  intro r hr hh
  have := hb r.handle (mem_handlesList_of_mem f.roots r hr _ (handle_mem_handles r))
  omega

theorem rootsWithout_newNode (f : Forest) (hb : ∀ h ∈ f.allHandles, h < f.next) (v : Value) :
    rootsWithout (f.newNode v).1 f.next = f.roots := by
  simp only [rootsWithout, newNode_eq, List.filter_append]
  have h1 : f.roots.filter (fun r => r.handle != f.next) = f.roots :=
    List.filter_eq_self.mpr (fun r hr => by
      have := root_handle_below f hb r hr
      simp [this])
  rw [h1]
  simp [HTree.handle]

theorem located_newNode {f : Forest} {e : Nat} {ev : Value} {ks : List HTree}
    (h : Located f e ev ks) (hb : ∀ h ∈ f.allHandles, h < f.next) (v : Value) :
    Located (f.newNode v).1 e ev ks ∧ HTree.node f.next v [] ∈ (f.newNode v).1.roots ∧
    e ≠ f.next ∧ (∀ h ∈ (f.newNode v).1.allHandles, h < (f.newNode v).1.next) := by
  have hfresh : f.next ∉ f.allHandles := fun hx => Nat.lt_irrefl _ (hb _ hx)
  refine ⟨⟨?_, ?_⟩, ?_, ?_, ?_⟩
  · rw [allHandles_newNode]
    apply List.nodup_append.mpr
    refine ⟨h.nodup, by simp, ?_⟩
    intro a ha b hb' hab
    simp only [List.mem_singleton] at hb'
    subst hab hb'
    exact hfresh ha
  · exact findList?_append_left e f.roots _ _ h.get
  · simp [newNode_eq]
  · intro hh
    exact hfresh (hh ▸ findList?_mem e f.roots _ h.get)
  · intro x hx
    rw [allHandles_newNode] at hx
    simp only [newNode_eq]
    rcases List.mem_append.mp hx with hx | hx
    · exact Nat.lt_succ_of_lt (hb x hx)
    · simp only [List.mem_singleton] at hx; omega

/-! ### The insertion point and the placement -/

theorem insertionPoint_spec {f : Forest} {e : Nat} {ev : Value} {N A S : List HTree}
    (hl : Located f e ev (N ++ A ++ S)) (hs : Sect (N ++ A ++ S) N A S) (k : MapKind) :
    f.mapInsertionPoint k e =
      match (Sect.sec k N A).getLast? with
      | some l => some l.handle
      | none =>
        match k with
        | .namespaces => none
        | .attributes => (N.getLast?).map (·.handle) := by
  unfold Forest.mapInsertionPoint
  rw [hl.get]
  simp only
  rw [mapChildren_eq]
  simp only [HTree.kids]
  rw [hs.kidsOf]
  have hN : (N ++ A ++ S).takeWhile (fun c => c.value.category == .namespace) = N := hs.kidsOf_ns
  rw [hN]
  cases (Sect.sec k N A).getLast? <;> cases k <;> rfl

theorem mapPlace_spec {f : Forest} {e : Nat} {ev : Value} {N A S : List HTree}
    (hl : Located f e ev (N ++ A ++ S)) (hs : Sect (N ++ A ++ S) N A S) (k : MapKind)
    (nd : Nat) (v : Value) (hroot : HTree.node nd v [] ∈ f.roots) (hne : e ≠ nd) :
    f.mapPlace k e nd =
      ({ f with roots := withKids (rootsWithout f nd) e (preK k N ++ (Sect.sec k N A ++ [.node nd v []]) ++ postK k A S) }, .ok) := by
  unfold Forest.mapPlace
  rw [insertionPoint_spec hl hs k]
  cases hlast : (Sect.sec k N A).getLast? with
  | some l =>
    obtain ⟨s0, hs0⟩ := List.getLast?_eq_some_iff.mp hlast
    have hloc : Located f e ev ((preK k N ++ s0) ++ l :: postK k A S) := by
      have : N ++ A ++ S = (preK k N ++ s0) ++ l :: postK k A S := by
        rw [split_kids k, hs0]; simp
      rw [← this]; exact hl
    simp only
    rw [checkedInsertAfter_child hloc nd v hroot hne]
    simp only [if_true]
    congr 3
    rw [hs0]; simp
  | none =>
    have hnil : Sect.sec k N A = [] := List.getLast?_eq_none_iff.mp hlast
    cases k with
    | namespaces =>
      simp only
      rw [checkedPrepend_leafRoot hl nd v hroot hne]
      simp only [if_true]
      simp only [Sect.sec] at hnil
      subst hnil
      simp [preK, postK, Sect.sec]
    | attributes =>
      simp only [Sect.sec] at hnil
      subst hnil
      cases hN : N.getLast? with
      | some l =>
        obtain ⟨N0, hN0⟩ := List.getLast?_eq_some_iff.mp hN
        have hloc : Located f e ev (N0 ++ l :: S) := by
          have : N ++ [] ++ S = N0 ++ l :: S := by rw [hN0]; simp
          rw [← this]; exact hl
        simp only [Option.map_some]
        rw [checkedInsertAfter_child hloc nd v hroot hne]
        simp only [if_true]
        congr 3
        rw [hN0]; simp [preK, postK, Sect.sec]
      | none =>
        have hNnil : N = [] := List.getLast?_eq_none_iff.mp hN
        subst hNnil
        simp only [Option.map_none]
        rw [checkedPrepend_leafRoot hl nd v hroot hne]
        simp [preK, postK, Sect.sec]

/-- Placement of the parentless entry node `nd` whose key is absent: new state and meaning. -/
theorem place_absent {f : Forest} {e nm : Nat} {N A S : List HTree} (h : MInv f e nm N A S)
    (k : MapKind) (nd : Nat) (v : Value) (hm : k.matches v = true)
    (hroot : HTree.node nd v [] ∈ f.roots) (hne : e ≠ nd)
    (habs : ∀ a ∈ Sect.sec k N A, keyOf a ≠ entryKey v) :
    let s' := Sect.sec k N A ++ [.node nd v []]
    let f' : Forest := { f with roots := withKids (rootsWithout f nd) e (preK k N ++ s' ++ postK k A S) }
    f.mapPlace k e nd = (f', .ok) ∧
    MInv f' e nm (setSecN k N s') (setSecA k A s') S ∧
    s'.map entryPair = omInsert ((Sect.sec k N A).map entryPair) (entryKey v) (payloadOf v) ∧
    s'.map (·.handle) = (Sect.sec k N A).map (·.handle) ++ [nd] := by
  intro s' f'
  refine ⟨mapPlace_spec h.loc h.sect k nd v hroot hne, ?_, ?_, by simp [s', HTree.handle]⟩
  · apply h.update k s'
    · intro x hx
      simp only [s', List.mem_append, List.mem_singleton] at hx
      rcases hx with hx | hx
      · exact h.leaf k x hx
      · rw [hx]; rfl
    · have hks : N ++ A ++ S = (preK k N ++ Sect.sec k N A) ++ postK k A S := split_kids k N A S
      have := located_placed h.loc nd v hroot hne _ _ hks
      simp only [s', f']
      simpa using this
    · intro x hx
      simp only [s', List.mem_append, List.mem_singleton] at hx
      rcases hx with hx | hx
      · exact h.sect.sec_cat k x hx
      · rw [hx]; exact (matches_iff_cat k v).mp hm
    · simp only [s', List.map_append, List.map_cons, List.map_nil]
      apply List.nodup_append.mpr
      refine ⟨h.uniq k, by simp, ?_⟩
      intro a ha b hb hab
      simp only [List.mem_singleton] at hb
      obtain ⟨x, hx, rfl⟩ := List.mem_map.mp ha
      exact habs x hx (hab.trans hb)
    · intro x hx
      have h0 := located_without h.loc nd v hroot hne
      rcases mem_withKids _ e _ _ h0.nodup h0.get x hx with hx | hx
      · exact h.below x ((handlesList_filter_sublist _ _).subset hx)
      · -- a handle of the new child list: an old child or `nd`
        have hk : x ∈ handlesList (N ++ A ++ S) ∨ x = nd := by
          rw [split_kids k N A S]
          simp only [s', handlesList_append, handlesList, handles, List.mem_append, List.mem_cons,
            List.not_mem_nil, or_false] at hx ⊢
          rcases hx with (hx | hx | hx) | hx
          · exact Or.inl (Or.inl (Or.inl hx))
          · exact Or.inl (Or.inl (Or.inr hx))
          · exact Or.inr hx
          · exact Or.inl (Or.inr hx)
        rcases hk with hk | hk
        · apply h.below
          apply findList?_sub e f.roots _ h.loc.get
          simp only [handles, List.mem_cons]; exact Or.inr hk
        · rw [hk]
          exact h.below nd (mem_handlesList_of_mem f.roots _ hroot nd (by simp [handles]))
  · simp only [s', List.map_append, List.map_cons, List.map_nil]
    rw [omInsert_absent]
    · rfl
    · intro a ha
      obtain ⟨x, hx, rfl⟩ := List.mem_map.mp ha
      exact habs x hx

/-! ### `remove` -/

theorem remove_present {f : Forest} {e nm : Nat} {N A S : List HTree} (h : MInv f e nm N A S)
    (k : MapKind) (key : Nat) (n : HTree) (s1 s2 : List HTree)
    (hs : Sect.sec k N A = s1 ++ n :: s2) (hkey : keyOf n = key)
    (hs1 : ∀ a ∈ s1, keyOf a ≠ key) :
    let f' : Forest := { f with roots := withKids f.roots e (preK k N ++ (s1 ++ s2) ++ postK k A S) }
    f.remove n.handle = (f', .ok) ∧
    MInv f' e nm (setSecN k N (s1 ++ s2)) (setSecA k A (s1 ++ s2)) S ∧
    (s1 ++ s2).map entryPair = omRemove ((Sect.sec k N A).map entryPair) key := by
  intro f'
  have hloc : Located f e (.element nm) ((preK k N ++ s1) ++ n :: (s2 ++ postK k A S)) := by
    rw [← kids_around k N A S s1 s2 n hs]; exact h.loc
  have hncat : n.value.category = kindCat k := h.sect.sec_cat k n (by rw [hs]; simp)
  have hrem := remove_child hloc (by rw [hncat]; exact kindCat_ne_normal k)
  have hkids : (preK k N ++ s1) ++ (s2 ++ postK k A S) = preK k N ++ (s1 ++ s2) ++ postK k A S := by
    simp
  rw [hkids] at hrem
  refine ⟨hrem, ?_, ?_⟩
  · apply h.update k (s1 ++ s2)
    · intro x hx
      apply h.leaf k x
      rw [hs]
      simp only [List.mem_append, List.mem_cons] at hx ⊢
      rcases hx with hx | hx
      · exact Or.inl hx
      · exact Or.inr (Or.inr hx)
    · have := located_after_cut hloc
      rw [hkids] at this
      exact this
    · intro x hx
      apply h.sect.sec_cat k x
      rw [hs]
      simp only [List.mem_append, List.mem_cons] at hx ⊢
      rcases hx with hx | hx
      · exact Or.inl hx
      · exact Or.inr (Or.inr hx)
    · have := h.uniq k
      rw [hs] at this
      simp only [List.map_append, List.map_cons] at this ⊢
      exact List.Nodup.sublist (List.Sublist.append (List.Sublist.refl _) (List.sublist_cons_self _ _)) this
    · intro x hx
      rcases mem_withKids _ e _ _ h.loc.nodup h.loc.get x hx with hx | hx
      · exact h.below x hx
      · apply h.below
        apply findList?_sub e f.roots _ h.loc.get
        simp only [handles, List.mem_cons]
        right
        rw [kids_around k N A S s1 s2 n hs]
        rw [← hkids] at hx
        rw [handlesList_append] at hx ⊢
        simp only [handlesList, List.mem_append] at hx ⊢
        rcases hx with hx | hx
        · exact Or.inl hx
        · exact Or.inr (Or.inr hx)
  · rw [hs]
    simp only [List.map_append, List.map_cons]
    have e1 : entryPair n = (key, payloadOf n.value) := by
      simp only [entryPair]; rw [← hkey]; rfl
    rw [e1, omRemove_split]
    intro a ha
    obtain ⟨x, hx, rfl⟩ := List.mem_map.mp ha
    exact hs1 x hx

end Fmap
end XotModel
