/-
  Lemmas for C20 (extended construction programs), part 3: list-level facts — replacing ONE normal
  child of a child list by a list of normal children the parent accepts keeps the local validity
  conditions (order namespaces / attributes / normal, unique keys, allowed members).  This is what
  `remove` (no child), `replace` and `element_wrap` (one child) and `element_unwrap` (the normal
  children of the wrapper) do to a child list before text is merged.
-/
import XotModel.Lemmas.FanyorderInv

namespace XotModel
namespace Prog2
open HTree Spec Prog Fmap

theorem get_of_value {f : Forest} {n : Nat} {v : Value} (h : f.value? n = some v) :
    ∃ t, f.get? n = some t ∧ t.value = v := by
  unfold Forest.value? at h
  cases hg : f.get? n with
  | none => rw [hg] at h; cases h
  | some t => rw [hg] at h; exact ⟨t, rfl, Option.some.inj h⟩

theorem LocalV.insertMany {v : Value} {A B : List Value} : ∀ (X : List Value), LocalV v (A ++ B) →
    (∀ x ∈ X, kidAllowed v x = true ∧ x.category = .normal) → (∀ b ∈ B, b.category = .normal) →
    LocalV v (A ++ X ++ B)
  | [], h, _, _ => by simpa using h
  | x :: X, h, hX, hB => by
    have ih := LocalV.insertMany X h (fun y hy => hX y (List.mem_cons_of_mem _ hy)) hB
    have e : A ++ (x :: X) ++ B = A ++ x :: (X ++ B) := by simp
    rw [e]
    have ih2 : LocalV v (A ++ (X ++ B)) := by rw [← List.append_assoc]; exact ih
    refine ih2.insert (hX x List.mem_cons_self).1 (hX x List.mem_cons_self).2 ?_
    intro b hb
    rcases List.mem_append.1 hb with e | e
    · exact (hX b (List.mem_cons_of_mem _ e)).2
    · exact hB b e

theorem normal_category {v : Value} : v.isNormal = true ↔ v.category = .normal := by
  simp [Value.isNormal]

/-- One normal child replaced by normal children the parent accepts. -/
theorem localOK_replace_mid {v : Value} {l r : List HTree} {k : HTree} {X : List HTree}
    (h : localOK false v (l ++ k :: r) = true) (hk : k.value.isNormal = true)
    (hX : ∀ x ∈ X, kidAllowed v x.value = true ∧ x.value.isNormal = true) :
    localOK false v (l ++ X ++ r) = true := by
  have ho := kidsOrdered_of_localOK h
  have hr : ∀ b ∈ r, b.value.isNormal = true := normal_after ho rfl hk
  rw [localOK_false_iff] at h ⊢
  have h0 : LocalV v (l.map shape ++ r.map shape) := by
    refine h.sublist ?_
    rw [List.map_append, List.map_cons]
    exact (List.Sublist.refl _).append (List.sublist_cons_self _ _)
  rw [List.map_append, List.map_append]
  apply LocalV.insertMany _ h0
  · intro x hx
    obtain ⟨y, hy, e⟩ := List.mem_map.1 hx
    rw [← e, shape, nv_kidAllowed, nv_category]
    exact ⟨(hX y hy).1, normal_category.1 (hX y hy).2⟩
  · intro b hb
    obtain ⟨y, hy, e⟩ := List.mem_map.1 hb
    rw [← e, shape, nv_category]
    exact normal_category.1 (hr y hy)

/-- A child replaced by a node that is not text: no new adjacent text nodes. -/
theorem noAdj_replace_nontext {w : HTree} (hw : w.value.isText = false) : ∀ (l : List HTree) {k : HTree} {r : List HTree},
    noAdjacentText (l ++ k :: r) = true → noAdjacentText (l ++ w :: r) = true
  | [], k, r, h => by
    cases r with
    | nil => exact noAdj_single w
    | cons b rest =>
      simp only [List.nil_append] at h ⊢
      rw [noAdj_cons_cons, hw]
      simp only [Bool.false_and, Bool.not_false, Bool.true_and]
      exact noAdj_tail h
  | [a], k, r, h => by
    simp only [List.cons_append, List.nil_append] at h ⊢
    rw [noAdj_cons_cons, hw]
    simp only [Bool.and_false, Bool.not_false, Bool.true_and]
    exact noAdj_replace_nontext hw [] (noAdj_tail h)
  | a :: b :: l, k, r, h => by
    simp only [List.cons_append] at h ⊢
    rw [noAdj_cons_cons, Bool.and_eq_true] at h ⊢
    exact ⟨h.1, noAdj_replace_nontext hw (b :: l) h.2⟩

/-- The strict version for a single replacing node that is not text (`element_wrap`: nothing is
    merged). -/
theorem localOK_replace_one {b : Bool} {v : Value} {l r : List HTree} {k w : HTree}
    (h : localOK b v (l ++ k :: r) = true) (hk : k.value.isNormal = true)
    (hal : kidAllowed v w.value = true) (hn : w.value.isNormal = true) (hw : w.value.isText = false) :
    localOK b v (l ++ w :: r) = true := by
  have h0 : localOK false v (l ++ [w] ++ r) = true :=
    localOK_replace_mid (localOK_weaken h) hk (by
      intro x hx
      rw [List.mem_singleton.1 hx]
      exact ⟨hal, hn⟩)
  have e : l ++ [w] ++ r = l ++ w :: r := by simp
  rw [e] at h0
  cases b with
  | false => exact h0
  | true =>
    apply localOK_strict h0
    have : noAdjacentText (l ++ k :: r) = true := by
      simp only [localOK, Bool.and_eq_true, Bool.not_true, Bool.false_or] at h
      exact h.2
    exact noAdj_replace_nontext hw l this

theorem validXList_replace_mid {sx : Nat → Bool} {l r : List HTree} {k : HTree} {X : List HTree}
    (h : validXList sx (l ++ k :: r) = true) (hX : validXList sx X = true) :
    validXList sx (l ++ X ++ r) = true := by
  rw [validXList_append, validXList_cons, Bool.and_eq_true, Bool.and_eq_true] at h
  rw [validXList_append, validXList_append, Bool.and_eq_true, Bool.and_eq_true]
  exact ⟨⟨h.1, hX⟩, h.2.2⟩

/-- Handle counts when one child is replaced by part of its own children. -/
theorem count_replace_kids (z : Nat) (l r : List HTree) (w : HTree) (K : List HTree) (hK : K.Sublist w.kids) :
    (handlesList (l ++ K ++ r)).count z ≤ (handlesList (l ++ w :: r)).count z := by
  have hs : (handlesList K).Sublist (handles w) := by
    cases w with
    | node h v ks =>
      rw [handles_node]
      refine List.Sublist.cons _ ?_
      simp only [HTree.kids] at hK
      clear l r
      induction hK with
      | slnil => exact List.Sublist.refl _
      | cons a _ ih => rw [handlesList_cons]; exact ih.trans (List.sublist_append_right _ _)
      | cons_cons a _ ih => rw [handlesList_cons, handlesList_cons]; exact (List.Sublist.refl _).append ih
  rw [fs_handlesList_append, fs_handlesList_append, fs_handlesList_append, handlesList_cons]
  simp only [List.count_append]
  have := hs.count_le z
  omega

end Prog2
end XotModel
