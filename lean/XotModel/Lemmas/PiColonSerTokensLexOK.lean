/-
  GENERATED COPY (wt-c17str) of the declarations of XotModel.Lemmas.SerTokensLexOK that depend on `valueOK`, restated in the
  namespace `XotModel.PiColon`, where `valueOK` asks of a PI target what the tokenizer's `consume_name` accepts
  (`nameOK`: colons allowed) instead of an NCName (Lemmas/PiColonDefs.lean).  Proof texts unchanged except where noted.
-/
import XotModel.Lemmas.SerTokensLexOK
import XotModel.Lemmas.PiColonSerTokensNest

namespace XotModel.PiColon

variable (env : Env)

theorem NcStack.push {s : FStack} (h : NcStack env s) {v : Value} {ks : List Tree}
    (hn : (Tree.node v ks).allNodes (nodeOK env) = true) :
    NcStack env (s.push (Tree.node v ks).nsDecls) := by
  apply TopAll.push h
  intro d hd hne
  have := valueOK_namespace_prefix env (nsDecls_valueOK env hn hd) hne
  simp only [ncNameNE, Bool.and_eq_true] at this
  exact this.1

theorem declTokens_lexOK {d : Nat × Nat} (h : valueOK env (.namespace d.1 d.2) = true) :
    ∀ k ∈ declTokens env d, k.lexOK = true := by
  intro k hk
  have huri := serializeAttribute_lexOK _ (valueOK_namespace_uri env h)
  unfold declTokens at hk
  split at hk
  · cases hk
  · split at hk
    · simp only [List.mem_singleton] at hk
      subst hk
      simp only [Token.lexOK, sp0, Bool.and_eq_true]
      exact ⟨ncNameNE_qnameOK_local _ _ ncNameOK_nil ncNameNE_xmlns, huri⟩
    · rename_i hne
      simp only [List.mem_singleton] at hk
      subst hk
      simp only [Token.lexOK, sp0, Bool.and_eq_true]
      refine ⟨ncNameNE_qnameOK_local _ _ ?_ ?_, huri⟩
      · have := ncNameNE_xmlns
        simp only [ncNameNE, Bool.and_eq_true] at this
        exact this.1
      · exact valueOK_namespace_prefix env h (by simpa using hne)

theorem attrTokens_lexOK {s : FStack} (hs : NcStack env s) :
    ∀ (as : List (Nat × Str)) (ts : List Token),
      (∀ a ∈ as, valueOK env (.attribute a.1 a.2) = true) → attrTokens env s as = .ok ts →
      ∀ k ∈ ts, k.lexOK = true
  | [], ts, _, h => by
    simp only [attrTokens, Except.ok.injEq] at h
    subst h
    intro k hk; cases hk
  | (name, v) :: rest, ts, hv, h => by
    obtain ⟨p, ts', hp, hr, rfl⟩ := attrTokens_cons_ok env h
    intro k hk
    rcases List.mem_cons.mp hk with rfl | hk
    · have h1 := hv (name, v) (by simp)
      simp only [valueOK, Bool.and_eq_true] at h1
      simp only [Token.lexOK, sp0, Bool.and_eq_true]
      refine ⟨ncNameNE_qnameOK_local _ _ ?_ h1.1.1.1, serializeAttribute_lexOK v h1.1.1.2⟩
      exact prefixText_ncName env hs (fun q hq => ⟨name, Or.inr (hq ▸ hp)⟩)
    · exact attrTokens_lexOK hs rest ts' (fun a ha => hv a (by simp [ha])) hr k hk

mutual
theorem serNode_lexOK (henv : envOK env = true) (inScope : List (Nat × Nat)) (n : Tree) (s : FStack)
    (hs : NcStack env s) (hn : n.allNodes (nodeOK env) = true) (ts : List Token)
    (h : serNode env false inScope false s n = .ok ts) : ∀ k ∈ ts, k.lexOK = true := by
  cases n with
  | node v ks =>
    have hkids : ∀ k ∈ ks, k.allNodes (nodeOK env) = true := fun k hk => allNodes_kid hn hk
    have hval := allNodes_value env hn
    cases v with
    | document =>
      simp only [serNode] at h
      exact serKids_lexOK henv inScope ks s hs hkids ts h
    | «attribute» a b =>
      simp only [serNode] at h
      exact serKids_lexOK henv inScope ks s hs hkids ts h
    | «namespace» a b =>
      simp only [serNode] at h
      exact serKids_lexOK henv inScope ks s hs hkids ts h
    | text str =>
      have hl := allNodes_leaf env hn rfl
      subst hl
      simp only [serNode, serNode.serKids, appendOk, List.append_nil, Except.ok.injEq] at h
      subst h
      intro k hk
      simp only [List.mem_singleton] at hk
      subst hk
      simp only [Tree.value, valueOK, Bool.and_eq_true, Bool.not_eq_true', List.isEmpty_eq_false_iff] at hval
      have h1 := serializeText_ne_nil str hval.1
      have h2 := serializeText_chars str hval.2
      have h3 := serializeText_noCdataEnd str
      simp only [Token.lexOK, sp0, Bool.and_eq_true, Bool.not_eq_true', List.isEmpty_eq_false_iff]
      exact ⟨⟨h1, h2⟩, h3⟩
    | comment str =>
      have hl := allNodes_leaf env hn rfl
      subst hl
      simp only [serNode, serNode.serKids, appendOk, List.append_nil, Except.ok.injEq] at h
      subst h
      intro k hk
      simp only [List.mem_singleton] at hk
      subst hk
      have hval' : ((str.all isXmlChar && !hasInfix ['-', '-'] str) && str.getLast? != some '-') = true := by
        simp only [Tree.value, valueOK, Bool.and_eq_true] at hval
        simpa only [Bool.and_eq_true] using hval.1
      simpa [Token.lexOK, sp0] using hval'
    | pi target data =>
      have hl := allNodes_leaf env hn rfl
      subst hl
      rw [serNode] at h
      split at h
      · cases h
      · simp only [serNode.serKids, appendOk, List.append_nil, Except.ok.injEq] at h
        subst h
        intro k hk
        simp only [List.mem_singleton] at hk
        subst hk
        simp only [Tree.value, valueOK, Bool.and_eq_true] at hval
        have hname := hval.1.1.2  -- ORIGINAL: ncNameNE_nameOK _ hval.1.1.2 (the only use of the NCName clause)
        have hxml := lower_xml_ne (by simpa using hval.1.2)
        cases data with
        | none => simpa [Token.lexOK, sp0] using hname
        | some d =>
          have h4 := hval.2
          simp only [Bool.and_eq_true] at h4
          simp only [Token.lexOK, sp0, Option.map_some, Bool.and_eq_true, hname, true_and]
          refine ⟨⟨⟨⟨?_, h4.1.1.1.1⟩, h4.1.1.1.2⟩, h4.1.1.2⟩, h4.1.2⟩
          simpa using hxml
    | element name =>
      obtain ⟨p, ats, content, _, hp, ha, hk, rfl⟩ := serNode_element_ok env h
      have hs' := NcStack.push env hs hn
      have hpf : ncNameOK (prefixText env p) = true :=
        prefixText_ncName env hs' (fun q hq => ⟨name, Or.inl (hq ▸ hp)⟩)
      have hq : qnameOK (prefixText env p) (env.localName name) = true :=
        ncNameNE_qnameOK_local _ _ hpf (by simpa [Tree.value, valueOK] using hval)
      intro k hk'
      rcases mem_elementTokens hk' with rfl | hd | hat | rfl | rfl | hc | rfl
      · simpa [Token.lexOK, sp0] using hq
      · simp only [Bool.false_eq_true, if_false, List.nil_append, List.mem_flatMap] at hd
        obtain ⟨d, hd1, hd2⟩ := hd
        exact declTokens_lexOK env (nsDecls_valueOK env hn hd1) k hd2
      · exact attrTokens_lexOK env hs' _ ats (fun a ha' => attrs_valueOK env hn ha') ha k hat
      · rfl
      · rfl
      · exact serKids_lexOK henv inScope ks _ hs' hkids content hk k hc
      · simpa [Token.lexOK, sp0] using hq

theorem serKids_lexOK (henv : envOK env = true) (inScope : List (Nat × Nat)) (ks : List Tree)
    (s : FStack) (hs : NcStack env s) (hn : ∀ k ∈ ks, k.allNodes (nodeOK env) = true)
    (ts : List Token) (h : serNode.serKids env false inScope s ks = .ok ts) :
    ∀ k ∈ ts, k.lexOK = true := by
  cases ks with
  | nil =>
    simp only [serNode.serKids, Except.ok.injEq] at h
    subst h
    intro k hk; cases hk
  | cons k ks =>
    obtain ⟨x, y, hx, hy, rfl⟩ := serKids_cons_ok env h
    intro tok htok
    rcases List.mem_append.mp htok with htok | htok
    · exact serNode_lexOK henv inScope k s hs (hn k (by simp)) x hx tok htok
    · exact serKids_lexOK henv inScope ks s hs (fun k' hk' => hn k' (by simp [hk'])) y hy tok htok
end

end XotModel.PiColon
