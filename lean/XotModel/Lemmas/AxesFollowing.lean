/-
  The `Following` iterator machine of access.rs equals its document-order specification.
-/
import XotModel.Lemmas.AxesPre2

namespace XotModel.Axes

/-! ### Arena links at a known node -/

theorem allChildren_of_at? {t : Tree} {π : Path} {v : Value} {ks : List Tree}
    (h : t.at? π = some (.node v ks)) : allChildren t π = kidPaths π 0 ks := by
  simp [allChildren, subAt_of_at? h, Tree.kids]

theorem internalFirstChild_nil {t : Tree} {π : Path} {v : Value}
    (h : t.at? π = some (.node v [])) : internalFirstChild t π = none := by
  simp [internalFirstChild, allChildren_of_at? h, kidPaths]

theorem internalFirstChild_cons {t : Tree} {π : Path} {v : Value} {k : Tree} {ks : List Tree}
    (h : t.at? π = some (.node v (k :: ks))) : internalFirstChild t π = some (π ++ [0]) := by
  simp [internalFirstChild, allChildren_of_at? h, kidPaths]

theorem internalNextSibling_snoc {t : Tree} {π : Path} {v : Value} {ks : List Tree}
    (h : t.at? π = some (.node v ks)) (i : Nat) :
    internalNextSibling t (π ++ [i]) = if i + 1 < ks.length then some (π ++ [i + 1]) else none := by
  simp [internalNextSibling, subAt_of_at? h, Tree.kids]

@[simp] theorem internalNextSibling_nil (t : Tree) : internalNextSibling t [] = none := by
  simp [internalNextSibling]

@[simp] theorem followingStart_nil (t : Tree) : followingStart t [] = none := by
  simp [followingStart, followingClimb]

theorem followingStart_snoc {t : Tree} {π : Path} {v : Value} {ks : List Tree}
    (h : t.at? π = some (.node v ks)) (i : Nat) :
    followingStart t (π ++ [i]) =
      if i + 1 < ks.length then some (π ++ [i + 1]) else followingStart t π := by
  unfold followingStart
  rw [internalNextSibling_snoc h]
  by_cases hi : i + 1 < ks.length
  · simp [hi]
  · simp [hi, followingClimb]

/-! ### The unfiltered machine walks the pre-order -/

abbrev allF : Path → Bool := fun _ => true

@[simp] theorem followingIter_none (t : Tree) (flt : Path → Bool) (n : Nat) :
    followingIter t flt n none = [] := by
  cases n <;> rfl

mutual
  /-- From the root of a subtree the machine yields the subtree in pre-order and goes on at
      the node that follows the subtree. -/
  theorem followingIter_sub (t : Tree) : ∀ (s : Tree) (π : Path) (f : Nat), t.at? π = some s →
      followingIter t allF (s.size + f) (some π) =
        (allPre s).map (π ++ ·) ++ followingIter t allF f (followingStart t π)
    | .node v [], π, f, h => by
      have : (Tree.node v []).size + f = f + 1 := by simp [Tree.size, Tree.size.sizeList]; omega
      rw [this]
      simp [followingIter, internalFirstChild_nil h, allPre, allPreList]
    | .node v (k :: ks), π, f, h => by
      have : (Tree.node v (k :: ks)).size + f = (Tree.size.sizeList (k :: ks) + f) + 1 := by
        simp [Tree.size]; omega
      rw [this]
      have ih := followingIter_kids t (k :: ks) π v (k :: ks) 0 f h rfl (by simp)
      simp only [followingIter, internalFirstChild_cons h, allF, Bool.not_true, Bool.false_eq_true,
        if_false]
      rw [show followingIter t (fun _ => true) = followingIter t allF from rfl, ih]
      simp [allPre]
  theorem followingIter_kids (t : Tree) : ∀ (ks : List Tree) (π : Path) (v : Value) (all : List Tree)
      (i f : Nat), t.at? π = some (.node v all) → all.drop i = ks → ks ≠ [] →
      followingIter t allF (Tree.size.sizeList ks + f) (some (π ++ [i])) =
        (allPreList i ks).map (π ++ ·) ++ followingIter t allF f (followingStart t π)
    | [], _, _, _, _, _, _, _, hne => absurd rfl hne
    | k :: ks, π, v, all, i, f, h, hd, _ => by
      have hi : all[i]? = some k := by
        have : (all.drop i)[0]? = some k := by rw [hd]; rfl
        simpa using this
      have hk : t.at? (π ++ [i]) = some k := by rw [at?_snoc h, hi]
      have hd' : all.drop (i + 1) = ks := by
        have : all.drop (i + 1) = (all.drop i).drop 1 := by simp [List.drop_drop]
        rw [this, hd]; rfl
      have hsz : Tree.size.sizeList (k :: ks) + f = k.size + (Tree.size.sizeList ks + f) := by
        simp [Tree.size.sizeList]; omega
      rw [hsz, followingIter_sub t k (π ++ [i]) _ hk, followingStart_snoc h]
      have hmap : (allPre k).map ((π ++ [i]) ++ ·) = ((allPre k).map (i :: ·)).map (π ++ ·) := by
        simp [List.map_map, Function.comp_def]
      cases ks with
      | nil =>
        have : ¬ (i + 1 < all.length) := by
          intro hlt
          have := congrArg List.length hd'
          simp at this; omega
        simp [this, allPreList, Tree.size.sizeList]
      | cons k' ks' =>
        have : i + 1 < all.length := by
          have := congrArg List.length hd'
          simp at this; omega
        simp only [this, if_true]
        rw [followingIter_kids t (k' :: ks') π v all (i + 1) f h hd' (by simp)]
        simp [allPreList]
end

/-- Running the machine over the whole tree from the root gives the pre-order. -/
theorem followingIter_root (t : Tree) : followingIter t allF t.size (some []) = allPre t := by
  have := followingIter_sub t t [] 0 (by simp [Tree.at?])
  simpa using this

/-- The filter only filters. -/
theorem followingIter_filter (t : Tree) (flt : Path → Bool) : ∀ (n : Nat) (cur : Option Path),
    followingIter t flt n cur = (followingIter t allF n cur).filter flt
  | 0, _ => by simp [followingIter]
  | n + 1, none => by simp
  | n + 1, some node => by
    simp only [followingIter, allF, Bool.not_true, Bool.false_eq_true, if_false]
    rw [followingIter_filter t flt n, show followingIter t (fun _ => true) = followingIter t allF from rfl]
    cases hf : flt node <;> simp [hf]

/-! ### Started after a node, the machine yields what follows that node -/

theorem followingIter_after (t : Tree) : ∀ (r : List Nat) (f : Nat), Valid t r.reverse →
    followingIter t allF ((afterRel t r.reverse).length + f) (followingStart t r.reverse) =
      afterRel t r.reverse
  | [], f, _ => by simp [afterRel]
  | i :: r, f, h => by
    simp only [List.reverse_cons] at h ⊢
    have hπ : Valid t r.reverse := valid_prefix h
    have hat := hπ.at?
    rw [tree_eta (subAt t r.reverse)] at hat
    have hi : i < (subAt t r.reverse).kids.length := (valid_snoc_iff hπ i).mp h
    rw [afterRel_snoc t _ _ _ i hat hi, followingStart_snoc hat]
    have ih := followingIter_after t r f hπ
    by_cases hlt : i + 1 < (subAt t r.reverse).kids.length
    · simp only [hlt, if_true, List.length_append, List.length_map, length_allPreList]
      have hne : (subAt t r.reverse).kids.drop (i + 1) ≠ [] := by
        intro e; have := congrArg List.length e; simp at this; omega
      rw [Nat.add_assoc, followingIter_kids t _ _ _ _ (i + 1) _ hat rfl hne, ih]
    · have hnil : (subAt t r.reverse).kids.drop (i + 1) = [] := by
        apply List.drop_eq_nil_of_le; omega
      simp only [hlt, if_false, hnil, allPreList, List.map_nil, List.nil_append]
      exact ih

theorem length_afterRel_le (t : Tree) (p : Path) (h : Valid t p) : (afterRel t p).length ≤ t.size := by
  have := congrArg List.length (allPre_split t p h)
  rw [length_allPre] at this
  simp at this; omega

/-- `all_following` = the nodes after `p` in document order that are not below `p`. -/
theorem allFollowing_eq {t : Tree} {p : Path} (h : Valid t p) :
    allFollowing t p = (allPre t).filter (fun q => docLt p q && !p.isPrefixOf q) := by
  rw [filter_following_allPre h]
  have hle := length_afterRel_le t p h
  have := followingIter_after t p.reverse (t.size - (afterRel t p).length) (by simpa using h)
  simp only [List.reverse_reverse] at this
  rw [show (afterRel t p).length + (t.size - (afterRel t p).length) = t.size by omega] at this
  exact this

/-- `following` = the normal nodes after `p` in document order that are not below `p`. -/
theorem following_eq {t : Tree} {p : Path} (h : Valid t p) :
    following t p = (pre t).filter (fun q => docLt p q && !p.isPrefixOf q) := by
  unfold following pre
  rw [followingIter_filter]
  have := allFollowing_eq h
  unfold allFollowing at this
  rw [show followingIter t (fun _ => true) = followingIter t allF from rfl] at this
  rw [this, List.filter_filter, List.filter_filter]
  congr 1; funext q; exact Bool.and_comm _ _

end XotModel.Axes
