/-
  The resolver of Lemmas/SerResolve run over the tokens of one serialisation: token by token for the
  head of a start tag (declarations, attributes), then by structural recursion over the tree
  (`genNode_seg` / `genKids_seg`): the tokens of a subtree leave the resolver's scope as they found
  it, and what the resolver answers on them is what `expectedGo` lists — the nodes' expanded names.
-/
import XotModel.Lemmas.SerResolveCorr
import XotModel.Lemmas.TraceInv

namespace XotModel.SerResolve
open XotModel

abbrev Tok := Path × Output × OutputToken

/-- What the resolver is given: kind and text of every token. -/
def view (toks : List Tok) : List (TokKind × Str) := toks.map (fun x => (kindOf x.2.1, x.2.2.text))
/-- What the expected answer is computed from: the events (with the tokens, to know which end tags
    are written). -/
def evs (toks : List Tok) : List (Output × OutputToken) := toks.map (fun x => x.2)

theorem view_cons (p : Path) (o : Output) (tok : OutputToken) (l : List Tok) :
    view ((p, o, tok) :: l) = (kindOf o, tok.text) :: view l := rfl
theorem evs_cons (p : Path) (o : Output) (tok : OutputToken) (l : List Tok) :
    evs ((p, o, tok) :: l) = (o, tok) :: evs l := rfl
theorem kindOf_pfx (p ns : Nat) : kindOf (.pfx p ns) = .decl := rfl
theorem kindOf_attribute (a : Nat) (v : Str) : kindOf (.attribute a v) = .attr := rfl
theorem kindOf_startTagOpen (n : Nat) : kindOf (.startTagOpen n) = .startOpen := rfl
theorem kindOf_startTagClose : kindOf .startTagClose = .startClose := rfl
theorem kindOf_endTag (n : Nat) : kindOf (.endTag n) = .endTag := rfl

theorem view_append (a b : List Tok) : view (a ++ b) = view a ++ view b := by simp [view]
theorem evs_append (a b : List Tok) : evs (a ++ b) = evs a ++ evs b := by simp [evs]

variable (esc : Escapers) (env : Env) (pr : TokenParams) (t : Tree)

/-! ### Splitting a successful run -/

theorem renderAll_cons_ok {s : FStack} {p : Path} {o : Output} {rest : List (Path × Output)}
    {toks : List Tok} (h : renderAllWith esc env pr t s ((p, o) :: rest) = .ok toks) :
    ∃ s' tok l, renderAtWith esc env pr t s p o = .ok (s', tok) ∧
      renderAllWith esc env pr t s' rest = .ok l ∧ toks = (p, o, tok) :: l := by
  simp only [renderAllWith] at h
  cases h1 : renderAtWith esc env pr t s p o with
  | ok r =>
    obtain ⟨s', tok⟩ := r
    simp only [h1] at h
    cases h2 : renderAllWith esc env pr t s' rest with
    | ok l =>
      simp only [h2, Outcome.ok.injEq] at h
      exact ⟨s', tok, l, rfl, h2, h.symm⟩
    | err e => simp [h2] at h
    | panic => simp [h2] at h
  | err e => simp [h1] at h
  | panic => simp [h1] at h

theorem renderAll_append_ok : ∀ (a b : List (Path × Output)) (s : FStack) (toks : List Tok),
    renderAllWith esc env pr t s (a ++ b) = .ok toks →
    ∃ ta tb s', renderAllWith esc env pr t s a = .ok ta ∧ runStack esc env pr t s a = some s' ∧
      renderAllWith esc env pr t s' b = .ok tb ∧ toks = ta ++ tb
  | [], b, s, toks, h => ⟨[], toks, s, rfl, rfl, h, rfl⟩
  | (p, o) :: a, b, s, toks, h => by
    obtain ⟨s1, tok, l, h1, h2, rfl⟩ := renderAll_cons_ok esc env pr t h
    obtain ⟨ta, tb, s', i1, i2, i3, rfl⟩ := renderAll_append_ok a b s1 l h2
    refine ⟨(p, o, tok) :: ta, tb, s', ?_, ?_, i3, rfl⟩
    · simp only [renderAllWith, h1, i1]
    · simp only [runStack, stepStack, h1, i2]

/-! ### Segments -/

variable (unesc : Str → Str)

/-- The tokens `L` are a closed segment for the resolver standing at scope `sc` outside a start tag:
    it answers some `out` and is back at `sc`; `out` is what is expected for the events of `L`. -/
def SegOk (sc : List SFrame) (L : List Tok) : Prop :=
  ∃ out, (∀ rest, resolveGo unesc sc none (view L ++ rest) = out ++ resolveGo unesc sc none rest) ∧
    (∀ erest, expectedGo env none (evs L ++ erest) = out ++ expectedGo env none erest)

theorem segOk_nil (sc : List SFrame) : SegOk env unesc sc [] :=
  ⟨[], fun _ => rfl, fun _ => rfl⟩

theorem segOk_append {sc : List SFrame} {L1 L2 : List Tok} (h1 : SegOk env unesc sc L1)
    (h2 : SegOk env unesc sc L2) : SegOk env unesc sc (L1 ++ L2) := by
  obtain ⟨o1, a1, b1⟩ := h1
  obtain ⟨o2, a2, b2⟩ := h2
  refine ⟨o1 ++ o2, fun rest => ?_, fun erest => ?_⟩
  · rw [view_append, List.append_assoc, a1, a2, List.append_assoc]
  · rw [evs_append, List.append_assoc, b1, b2, List.append_assoc]

/-- A token of a text, comment or PI event. -/
theorem segOk_other {sc : List SFrame} (p : Path) (o : Output) (tok : OutputToken)
    (ho : (∃ s, o = .text s) ∨ (∃ s, o = .comment s) ∨ (∃ a b, o = .pi a b)) :
    SegOk env unesc sc [(p, o, tok)] := by
  refine ⟨[], fun rest => ?_, fun erest => ?_⟩
  · rcases ho with ⟨s, rfl⟩ | ⟨s, rfl⟩ | ⟨a, b, rfl⟩ <;> simp [view, kindOf, resolveGo]
  · rcases ho with ⟨s, rfl⟩ | ⟨s, rfl⟩ | ⟨a, b, rfl⟩ <;> simp [evs, expectedGo]

/-! ### The head of a start tag -/

/-- The token of a declaration event. -/
def tokPfx (p ns : Nat) : OutputToken :=
  if ns == Env.xmlNamespace then ⟨false, Gen.litXmlPrefix⟩
  else if p == Env.emptyPrefix then ⟨true, fmt Gen.fmtXmlnsDefault [esc.attr (env.namespaceStr ns)]⟩
  else ⟨true, fmt Gen.fmtXmlnsPrefix [env.prefixStr p, esc.attr (env.namespaceStr ns)]⟩

theorem render_pfx (s : FStack) (path : Path) (node : Tree) (hat : t.at? path = some node) (p ns : Nat) :
    renderAtWith esc env pr t s path (.pfx p ns) = .ok (s, tokPfx esc env p ns) := by
  simp only [renderAtWith, hat, renderXmlWith, tokPfx]
  split
  · rfl
  · split <;> rfl

theorem declStep_tokPfx (h : EnvStrings env) (hue : ∀ u, unesc (esc.attr u) = u) (f : SFrame) (p ns : Nat) :
    (if (tokPfx esc env p ns).text.isEmpty then f else f ++ [parseDecl unesc (tokPfx esc env p ns).text]) =
      f ++ strFrame env [(p, ns)] := by
  unfold tokPfx
  by_cases hx : (ns == Env.xmlNamespace) = true
  · have : (ns != Env.xmlNamespace) = false := by simp [bne, hx]
    simp [hx, strFrame, this, Gen.litXmlPrefix]
  · have hx' : (ns != Env.xmlNamespace) = true := by simpa [bne] using hx
    simp only [hx, Bool.false_eq_true, if_false]
    by_cases hp : (p == Env.emptyPrefix) = true
    · have hp0 : p = Env.emptyPrefix := by simpa using hp
      simp only [hp, if_true, fmt_xmlnsDefault_ne_nil, Bool.false_eq_true, if_false, parseDecl_default, hue]
      simp [strFrame, hx', hp0, prefixStr_empty h]
    · simp only [hp, Bool.false_eq_true, if_false, fmt_xmlnsPrefix_ne_nil,
        parseDecl_prefixed _ _ _ (prefixStr_lex h p).2, hue]
      simp [strFrame, hx']

theorem strFrame_append (a b : List (Nat × Nat)) : strFrame env (a ++ b) = strFrame env a ++ strFrame env b := by
  simp [strFrame]

/-- The declaration tokens of a start tag: the resolver reads `strFrame` of the events. -/
theorem decl_run (h : EnvStrings env) (hue : ∀ u, unesc (esc.attr u) = u) (path : Path) (node : Tree)
    (hat : t.at? path = some node) (s : FStack) (more : List (Path × Output)) :
    ∀ (ds : List (Nat × Nat)) (toks : List Tok),
    renderAllWith esc env pr t s (ds.map (fun d => (path, Output.pfx d.1 d.2)) ++ more) = .ok toks →
    ∃ dt toks', toks = dt ++ toks' ∧ renderAllWith esc env pr t s more = .ok toks' ∧
      (∀ sc q f as rest, resolveGo unesc sc (some ⟨q, f, as⟩) (view dt ++ rest) =
        resolveGo unesc sc (some ⟨q, f ++ strFrame env ds, as⟩) rest) ∧
      (∀ pend erest, expectedGo env pend (evs dt ++ erest) = expectedGo env pend erest)
  | [], toks, hr => ⟨[], toks, rfl, hr, fun _ _ _ _ _ => by simp [view, strFrame], fun _ _ => rfl⟩
  | (p, ns) :: ds, toks, hr => by
    simp only [List.map_cons, List.cons_append] at hr
    obtain ⟨s1, tok, l, h1, h2, rfl⟩ := renderAll_cons_ok esc env pr t hr
    rw [render_pfx esc env pr t s path node hat] at h1
    simp only [Outcome.ok.injEq, Prod.mk.injEq] at h1
    obtain ⟨rfl, rfl⟩ := h1
    obtain ⟨dt, toks', rfl, i2, i3, i4⟩ := decl_run h hue path node hat s more ds l h2
    refine ⟨(path, .pfx p ns, tokPfx esc env p ns) :: dt, toks', rfl, i2, ?_, ?_⟩
    · intro sc q f as rest
      simp only [view_cons, List.cons_append, kindOf_pfx, resolveGo]
      rw [declStep_tokPfx esc env unesc h hue, i3 sc q (f ++ strFrame env [(p, ns)]) as rest,
        List.append_assoc, ← strFrame_append]
      rfl
    · intro pend erest
      simp only [evs_cons, List.cons_append, expectedGo]
      exact i4 pend erest

theorem qname_noEq (h : EnvStrings env) (pfx : Option Nat) (name : Nat) : '=' ∉ qname env pfx name := by
  cases pfx with
  | none => exact (localName_lex h name).2
  | some p =>
    simp only [qname, List.mem_append, List.mem_singleton, not_or]
    exact ⟨⟨(prefixStr_lex h p).2, by decide⟩, (localName_lex h name).2⟩

/-- The attribute tokens of a start tag: the resolver reads names that resolve (in any scope
    corresponding to the stack's frames) to the attributes' expanded names. -/
theorem attr_run (h : EnvStrings env) (path : Path) (node : Tree) (hat : t.at? path = some node)
    (s : FStack) (fs : Frames) (hinv : StackInv s fs) (hok : FramesOk env fs) (sc' : List SFrame)
    (hc : Corr env sc' fs) (more : List (Path × Output)) :
    ∀ (avs : List (Nat × Str)) (toks : List Tok),
    renderAllWith esc env pr t s (avs.map (fun a => (path, Output.attribute a.1 a.2)) ++ more) = .ok toks →
    ∃ at' toks' qs, toks = at' ++ toks' ∧ renderAllWith esc env pr t s more = .ok toks' ∧
      (∀ sc q f as rest, resolveGo unesc sc (some ⟨q, f, as⟩) (view at' ++ rest) =
        resolveGo unesc sc (some ⟨q, f, as ++ qs⟩) rest) ∧
      (∀ n l erest, expectedGo env (some (n, l)) (evs at' ++ erest) =
        expectedGo env (some (n, l ++ avs.map Prod.fst)) erest) ∧
      qs.map (resolveName sc' true) = (avs.map Prod.fst).map (expandedName env true)
  | [], toks, hr => ⟨[], toks, [], rfl, hr, fun _ _ _ _ _ => by simp [view], fun _ _ _ => by simp [evs], rfl⟩
  | (a, v) :: avs, toks, hr => by
    simp only [List.map_cons, List.cons_append] at hr
    obtain ⟨s1, tok, l, h1, h2, rfl⟩ := renderAll_cons_ok esc env pr t hr
    simp only [renderAtWith, hat, renderXmlWith, FStack.attributeFullname] at h1
    cases hp : s.attributePrefix env a with
    | error e => simp [hp] at h1
    | ok pfx =>
      simp only [hp, Outcome.ok.injEq, Prod.mk.injEq] at h1
      obtain ⟨rfl, rfl⟩ := h1
      obtain ⟨at', toks', qs, rfl, i2, i3, i4, i5⟩ := attr_run h path node hat s fs hinv hok sc' hc more avs l h2
      refine ⟨(path, .attribute a v, _) :: at', toks', qname env pfx a :: qs, rfl, i2, ?_, ?_, ?_⟩
      · intro sc q f as rest
        simp only [view_cons, List.cons_append, kindOf_attribute, resolveGo]
        rw [beforeEq_attribute _ _ (qname_noEq env h pfx a), i3 sc q f (as ++ [qname env pfx a]) rest,
          List.append_assoc]
        rfl
      · intro n l erest
        simp only [evs_cons, List.cons_append, expectedGo]
        rw [i4 n (l ++ [a]) erest, List.append_assoc]
        rfl
      · simp only [List.map_cons, i5]
        rw [attribute_resolves h hc hok hinv a pfx hp]

end XotModel.SerResolve
