/-
  FspecSurvivor — which text node survives a merge at the destination: what the code does.
  `(f.setValue a v).spliceOut c` (xot: set the data of the resident node, remove the moved
  one): afterwards `c` is dead, `a` is live and carries `v`.
-/
import XotModel.Lemmas.FspecFrame

namespace XotModel
open HTree Spec

/-- A handle that does not occur is not live. -/
theorem get?_none_of_count {f : Forest} {c : Nat} (h : f.allHandles.count c = 0) : f.get? c = none := by
  apply findList?_eq_none
  intro hm
  have := List.count_pos_iff.2 hm
  unfold Forest.allHandles at h
  omega

/-- Dropping a live leaf `c` with `spliceOut`: it is gone, every other node is found as before
    (up to the edit of the child list `c` was in). -/
theorem spliceOut_leaf_effect {Z : Forest} {c : Nat} {t : HTree} (nd : Z.allHandles.Nodup)
    (hg : Z.get? c = some t) (hleaf : t.kids = []) :
    (Z.spliceOut c).get? c = none ∧
    ∀ a ka, a ≠ c → Z.get? a = some ka → ka.kids = [] → (Z.spliceOut c).get? a = some ka := by
  have htc : t.handle = c := (findList?_some Z.roots t hg).1
  have hct : (handles t).count c = 1 := by
    cases t with
    | node h v ks =>
      simp only [HTree.kids] at hleaf; subst hleaf
      simp only [HTree.handle] at htc; subst htc
      simp [handles_node, handlesList_nil]
  have hcZ : Z.allHandles.count c ≤ 1 := (List.nodup_iff_count.1 nd) c
  rw [Forest.spliceOut_leaf nd hg hleaf]
  rcases Forest.root_or_ctx hg with hroot | ⟨cx, hctx⟩
  · rw [Forest.parent?_of_no_ctx (Forest.ctx_none_of_root nd hroot)]
    constructor
    · apply get?_none_of_count
      have := count_dropTop_root nd hg hroot c
      show (handlesList (dropTop c Z.roots)).count c = 0
      omega
    · intro a ka hac ha _
      show findList? a (dropTop c Z.roots) = some ka
      rw [findList?_dropTop Z.roots, ← Forest.get?_eq]
      · exact ha
      · intro k hk hkc
        rw [root_is nd hg k hk hkc]
        cases t with
        | node h v ks =>
          simp only [HTree.kids] at hleaf; subst hleaf
          simp only [HTree.handle] at htc; subst htc
          simp [handles_node, handlesList_nil, hac]
  · obtain ⟨e0, v, so⟩ := SiteAt.of_ctx nd hctx
    have hself : cx.self = t := by
      have := Forest.get?_of_ctx nd hctx
      rw [hg] at this
      exact (Option.some.inj this).symm
    obtain ⟨po, l, k, r⟩ := cx
    simp only at e0 so hself
    subst hself
    subst e0
    have hpar : Z.parent? k.handle = some po := Forest.parent?_of_ctx hctx
    rw [hpar]
    obtain ⟨ndL, _⟩ := so.nodupKids
    obtain ⟨tl, tr⟩ := tops_ne_of_nodup ndL
    have hdrop : dropTop k.handle (l ++ k :: r) = l ++ r := dropTop_mid rfl tl tr
    constructor
    · apply get?_none_of_count
      have h1 := so.count (dropTop k.handle) k.handle
      rw [hdrop] at h1
      have h2 := count_handles_mid k.handle l k r
      have h3 : 1 ≤ Z.allHandles.count k.handle := by
        have : k.handle ∈ Z.allHandles := by
          have := findList?_isSome_of_mem (h := k.handle) Z.roots
          apply Classical.byContradiction
          intro hn
          have := findList?_eq_none Z.roots hn
          rw [← Forest.get?_eq, hg] at this; cases this
        exact List.count_pos_iff.2 this
      omega
    · intro a ka hac ha hka
      have hapo : a ≠ po := by
        intro e
        rw [e, so.kids] at ha
        have := Option.some.inj ha
        rw [← this] at hka
        simp only [HTree.kids] at hka
        cases l <;> cases hka
      rw [Forest.get?_editAt_other hapo nd (by
        intro v' L' e
        rw [so.kids] at e
        have e' := Option.some.inj e
        injection e' with _ _ e3
        subst e3
        apply findList?_dropTop
        intro k' hk' hkc
        have : k' = k := by
          cases List.mem_append.1 hk' with
          | inl h => exact absurd hkc (tl k' h)
          | inr h =>
            cases List.mem_cons.1 h with
            | inl h' => exact h'
            | inr h' => exact absurd hkc (tr k' h')
        rw [this]
        cases k with
        | node h vv ks =>
          simp only [HTree.kids] at hleaf; subst hleaf
          simp only [HTree.handle] at hac
          simp [handles_node, handlesList_nil, hac]), ha]
      simp only [Option.map_some]
      cases ka with
      | node h vv ks =>
        simp only [HTree.kids] at hka; subst hka
        have hh : h = a := (findList?_some Z.roots _ ha).1
        rw [editAt_node, if_neg (by rw [hh]; exact hapo)]
        rfl

mutual
  theorem fs_find?_mapAt_self {a : Nat} {G : HTree → HTree} (hG : ∀ k, (G k).handle = k.handle) :
      ∀ (t u : HTree), find? a t = some u → find? a (mapAt a G t) = some (G u)
    | .node h v ks, u => by
      intro e
      rw [find?_node] at e
      rw [mapAt_node]
      by_cases hh : h = a
      · rw [if_pos hh] at e
        have e' := Option.some.inj e
        subst e'
        rw [if_pos hh]
        have := hG (.node h v ks)
        simp only [HTree.handle] at this
        cases hgk : G (.node h v ks) with
        | node h' v' ks' =>
          rw [hgk] at this
          simp only [HTree.handle] at this
          rw [find?_node, if_pos (this.trans hh)]
      · rw [if_neg hh] at e
        rw [if_neg hh, find?_node, if_neg hh]
        exact findList?_mapAt_self hG ks u e
  theorem findList?_mapAt_self {a : Nat} {G : HTree → HTree} (hG : ∀ k, (G k).handle = k.handle) :
      ∀ (ks : List HTree) (u : HTree), findList? a ks = some u → findList? a (mapAtList a G ks) = some (G u)
    | [], u => by intro e; rw [findList?_nil] at e; cases e
    | k :: ks, u => by
      intro e
      simp only [mapAtList]
      cases hk : find? a k with
      | some w =>
        rw [findList?_cons_some hk] at e
        have e' := Option.some.inj e
        subst e'
        exact findList?_cons_some (fs_find?_mapAt_self hG k w hk)
      | none =>
        rw [findList?_cons_none hk] at e
        have : a ∉ handles k := by
          intro hm
          have := find?_isSome_of_mem k hm
          rw [hk] at this; cases this
        rw [fs_mapAt_of_not_mem k this, findList?_cons_none hk]
        exact findList?_mapAt_self hG ks u e
end

theorem Forest.get?_setValue_self {f : Forest} {a : Nat} {ka : HTree} (v : Value) (h : f.get? a = some ka) :
    (f.setValue a v).get? a = some (ka.setValue v) := by
  unfold Forest.setValue
  show findList? a (f.roots.map (mapAt a (HTree.setValue v))) = _
  rw [← mapAtList_eq_map]
  exact findList?_mapAt_self (fun k => setValue_handle v k) f.roots ka h

mutual
  theorem find?_mapAt_setValue_other {a x : Nat} (v : Value) (hx : x ≠ a) : ∀ t : HTree, (handles t).Nodup →
      find? x (mapAt a (HTree.setValue v) t) = (find? x t).map (mapAt a (HTree.setValue v))
    | .node h vv ks => by
      intro nd
      obtain ⟨n1, n2⟩ := nodup_handles_node nd
      rw [mapAt_node]
      by_cases hh : h = a
      · rw [if_pos hh]
        have hhx : ¬ h = x := fun e => hx (e.symm.trans hh)
        simp only [HTree.setValue]
        rw [find?_node, find?_node, if_neg hhx, if_neg hhx]
        cases hf : findList? x ks with
        | none => rfl
        | some u =>
          simp only [Option.map_some]
          have hsub := (findList?_some ks u hf).2
          have : a ∉ handles u := fun hm => n1 (hh ▸ hsub a hm)
          rw [fs_mapAt_of_not_mem u this]
      · rw [if_neg hh, find?_node, find?_node]
        by_cases hhx : h = x
        · rw [if_pos hhx, if_pos hhx]
          simp only [Option.map_some]
          rw [mapAt_node, if_neg hh]
        · rw [if_neg hhx, if_neg hhx]
          exact findList?_mapAt_setValue_other v hx ks n2
  theorem findList?_mapAt_setValue_other {a x : Nat} (v : Value) (hx : x ≠ a) : ∀ ks : List HTree,
      (handlesList ks).Nodup →
      findList? x (mapAtList a (HTree.setValue v) ks) = (findList? x ks).map (mapAt a (HTree.setValue v))
    | [] => by intro _; simp [mapAtList, findList?_nil]
    | k :: ks => by
      intro nd
      obtain ⟨n1, n2, _⟩ := nodup_handlesList_cons nd
      simp only [mapAtList]
      rw [findList?_cons, findList?_cons, find?_mapAt_setValue_other v hx k n1,
        findList?_mapAt_setValue_other v hx ks n2]
      cases find? x k <;> rfl
end

/-- After a value update of `a`, any node that does not hold `a` is found unchanged. -/
theorem Forest.get?_setValue_other {f : Forest} {a x : Nat} {u : HTree} (v : Value) (nd : f.allHandles.Nodup)
    (hx : x ≠ a) (h : f.get? x = some u) (hau : a ∉ handles u) : (f.setValue a v).get? x = some u := by
  unfold Forest.setValue
  show findList? x (f.roots.map (mapAt a (HTree.setValue v))) = _
  rw [← mapAtList_eq_map, findList?_mapAt_setValue_other v hx f.roots nd, ← Forest.get?_eq, h]
  simp only [Option.map_some]
  rw [fs_mapAt_of_not_mem u hau]

/-- **The merge step of xot** (`set` the data of the resident text node `a`, remove the moved text
    node `c`): afterwards `c` is gone and `a` carries the new data. -/
theorem merge_into_effect {f : Forest} {a c : Nat} {ka t : HTree} (v : Value) (nd : f.allHandles.Nodup)
    (ha : f.get? a = some ka) (hc : f.get? c = some t) (hka : ka.kids = []) (ht : t.kids = []) (hac : a ≠ c) :
    ((f.setValue a v).spliceOut c).isLive c = false ∧
    ((f.setValue a v).spliceOut c).value? a = some v := by
  have ndZ : (f.setValue a v).allHandles.Nodup := by rw [Forest.allHandles_setValue]; exact nd
  have hat : a ∉ handles t := by
    have htc : t.handle = c := (findList?_some f.roots t hc).1
    cases t with
    | node h vv ks =>
      simp only [HTree.kids] at ht; subst ht
      simp only [HTree.handle] at htc; subst htc
      simp [handles_node, handlesList_nil, hac]
  have hcZ : (f.setValue a v).get? c = some t := Forest.get?_setValue_other v nd (fun e => hac e.symm) hc hat
  have haZ : (f.setValue a v).get? a = some (ka.setValue v) := Forest.get?_setValue_self v ha
  obtain ⟨e1, e2⟩ := spliceOut_leaf_effect ndZ hcZ ht
  constructor
  · unfold Forest.isLive; rw [e1]; rfl
  · unfold Forest.value?
    rw [e2 a (ka.setValue v) hac haZ (by rw [setValue_kids]; exact hka)]
    simp [setValue_value]

end XotModel

namespace XotModel
open HTree Spec

theorem node_of_textOf {f : Forest} {a : Nat} {s : Str} (h : f.textOf a = some s) :
    ∃ ka, f.get? a = some ka ∧ ka.value = .text s := by
  cases hg : f.get? a with
  | none =>
    unfold Forest.textOf Forest.value? at h
    rw [hg] at h
    simp at h
  | some ka =>
    refine ⟨ka, rfl, ?_⟩
    rw [Forest.textOf_of_get hg] at h
    exact textData_some h

/-- A text node in a forest without adjacent text has no two text neighbours to merge. -/
theorem old_noop_of_text {f : Forest} {c : Nat} {t : HTree} (inv : f.Inv) (norm : f.Normal)
    (hgc : f.get? c = some t) (ht : t.value.isText = true) :
    f.removeConsolidate (f.prevSibling c) (f.nextSibling c) = (f, false) := by
  have nd := inv.nodup
  rcases Forest.root_or_ctx hgc with hroot | ⟨cx, hctx⟩
  · rw [Forest.prevSibling_of_no_ctx (Forest.ctx_none_of_root nd hroot)]
    exact Forest.removeConsolidate_none_left _ _
  · obtain ⟨e0, vo, so⟩ := SiteAt.of_ctx nd hctx
    have hself : cx.self = t := by
      have := Forest.get?_of_ctx nd hctx
      rw [hgc] at this
      exact (Option.some.inj this).symm
    obtain ⟨po, l, k, r⟩ := cx
    simp only at e0 so hself
    subst hself
    rw [Forest.prevSibling_of_ctx hctx, Forest.nextSibling_of_ctx hctx]
    simp only
    have hold := old_stage inv norm so
    generalize f.removeConsolidate (prevOf l k) (nextOf r k) = res at hold
    cases hold with
    | same _ => rfl
    | merged _ _ _ _ _ _ _ _ _ _ _ _ _ htn =>
      obtain ⟨z, hz⟩ := isText_iff_textData.1 ht
      rw [htn] at hz; cases hz

/-- **append**: a text node appended after a text node is merged into that EARLIER node. -/
theorem append_survivor {f : Forest} {p c a : Nat} {ta tc : Str} (inv : f.Inv) (norm : f.Normal)
    (hc : f.consolidation = true) (hsc : f.structureCheck (some p) c = true)
    (hlast : f.lastChild p = some a) (hac : a ≠ c)
    (hta : f.textOf a = some ta) (htc : f.textOf c = some tc) :
    (f.append p c).2 = .ok ∧ (f.append p c).1.isLive c = false ∧
      (f.append p c).1.value? a = some (.text (ta ++ tc)) := by
  obtain ⟨ka, hga, hka⟩ := node_of_textOf hta
  obtain ⟨t, hgc, htv⟩ := node_of_textOf htc
  have hkat : ka.value.isText = true := by rw [hka]; rfl
  have htt : t.value.isText = true := by rw [htv]; rfl
  have hmodel : f.append p c = ((f.setValue a (.text (ta ++ tc))).spliceOut c, .ok) := by
    rw [Forest.append_unfold]
    have hne : ¬ (some a = some c) := fun e => hac (Option.some.inj e)
    simp only [hsc, hlast, Bool.not_true, Bool.false_eq_true, if_false, beq_iff_eq, hne,
      old_noop_of_text inv norm hgc htt]
    rw [Forest.addConsolidate_prev hc htc hta _ hac]
    rfl
  rw [hmodel]
  have := merge_into_effect (.text (ta ++ tc)) inv.nodup hga hgc (leaf_of_text inv.valid hga hkat)
    (leaf_of_text inv.valid hgc htt) hac
  exact ⟨rfl, this.1, this.2⟩

/-- **insert_after**: a text node inserted after a text node is merged into that EARLIER node. -/
theorem insertAfter_survivor {f : Forest} {r c : Nat} {tr tc : Str} (inv : f.Inv) (norm : f.Normal)
    (hc : f.consolidation = true) (hsc : f.structureCheck (f.parent? r) c = true)
    (hsr : f.siblingReferenceCheck r c = true) (hsame : f.nextSibling r ≠ some c)
    (htr : f.textOf r = some tr) (htc : f.textOf c = some tc) :
    (f.insertAfter r c).2 = .ok ∧ (f.insertAfter r c).1.isLive c = false ∧
      (f.insertAfter r c).1.value? r = some (.text (tr ++ tc)) := by
  obtain ⟨kr, hgr, hkr⟩ := node_of_textOf htr
  obtain ⟨t, hgc, htv⟩ := node_of_textOf htc
  have hkrt : kr.value.isText = true := by rw [hkr]; rfl
  have htt : t.value.isText = true := by rw [htv]; rfl
  have hrc : r ≠ c := by
    unfold Forest.siblingReferenceCheck at hsr
    simp only [Bool.and_eq_true, bne_iff_ne, ne_eq] at hsr
    exact hsr.1
  have hmodel : f.insertAfter r c = ((f.setValue r (.text (tr ++ tc))).spliceOut c, .ok) := by
    rw [insertAfter_unfold]
    simp only [hsc, hsr, Bool.not_true, Bool.false_eq_true, if_false, beq_iff_eq, hsame,
      old_noop_of_text inv norm hgc htt, Bool.false_and]
    unfold insertAfterTail
    rw [Forest.addConsolidate_prev hc htc htr _ hrc]
    rfl
  rw [hmodel]
  have := merge_into_effect (.text (tr ++ tc)) inv.nodup hgr hgc (leaf_of_text inv.valid hgr hkrt)
    (leaf_of_text inv.valid hgc htt) hrc
  exact ⟨rfl, this.1, this.2⟩

/-- **prepend**: a text node placed before the first (text) child is merged into that LATER node:
    the moved node is destroyed, the existing one keeps its handle (the recorded finding). -/
theorem prepend_survivor {f : Forest} {p c b : Nat} {tb tc : Str} (inv : f.Inv) (norm : f.Normal)
    (hc : f.consolidation = true) (hsc : f.structureCheck (some p) c = true)
    (hfirst : f.firstChild p = some b) (hbc : b ≠ c)
    (htb : f.textOf b = some tb) (htc : f.textOf c = some tc) :
    (f.prepend p c).2 = .ok ∧ (f.prepend p c).1.isLive c = false ∧
      (f.prepend p c).1.value? b = some (.text (tc ++ tb)) := by
  obtain ⟨kb, hgb, hkb⟩ := node_of_textOf htb
  obtain ⟨t, hgc, htv⟩ := node_of_textOf htc
  have hkbt : kb.value.isText = true := by rw [hkb]; rfl
  have htt : t.value.isText = true := by rw [htv]; rfl
  have hmodel : f.prepend p c = ((f.setValue b (.text (tc ++ tb))).spliceOut c, .ok) := by
    rw [prepend_unfold]
    have hne : ¬ (some b = some c) := fun e => hbc (Option.some.inj e)
    simp only [hsc, hfirst, Bool.not_true, Bool.false_eq_true, if_false, beq_iff_eq, hne,
      old_noop_of_text inv norm hgc htt]
    unfold prependTail
    rw [hfirst, Forest.addConsolidate_next hc htc (fun a h => by cases h) htb hbc]
    rfl
  rw [hmodel]
  have := merge_into_effect (.text (tc ++ tb)) inv.nodup hgb hgc (leaf_of_text inv.valid hgb hkbt)
    (leaf_of_text inv.valid hgc htt) hbc
  exact ⟨rfl, this.1, this.2⟩

/-- **insert_before**: a text node inserted before a text node (with no text node in front of it)
    is merged into that LATER node. -/
theorem insertBefore_survivor {f : Forest} {r c : Nat} {tr tc : Str} (inv : f.Inv) (norm : f.Normal)
    (hc : f.consolidation = true) (hsc : f.structureCheck (f.parent? r) c = true)
    (hsr : f.siblingReferenceCheck r c = true) (hsame : f.prevSibling r ≠ some c)
    (hprev : ∀ a, f.prevSibling r = some a → f.textOf a = none)
    (htr : f.textOf r = some tr) (htc : f.textOf c = some tc) :
    (f.insertBefore r c).2 = .ok ∧ (f.insertBefore r c).1.isLive c = false ∧
      (f.insertBefore r c).1.value? r = some (.text (tc ++ tr)) := by
  obtain ⟨kr, hgr, hkr⟩ := node_of_textOf htr
  obtain ⟨t, hgc, htv⟩ := node_of_textOf htc
  have hkrt : kr.value.isText = true := by rw [hkr]; rfl
  have htt : t.value.isText = true := by rw [htv]; rfl
  have hrc : r ≠ c := by
    unfold Forest.siblingReferenceCheck at hsr
    simp only [Bool.and_eq_true, bne_iff_ne, ne_eq] at hsr
    exact hsr.1
  have hmodel : f.insertBefore r c = ((f.setValue r (.text (tc ++ tr))).spliceOut c, .ok) := by
    rw [insertBefore_unfold]
    simp only [hsc, hsr, Bool.not_true, Bool.false_eq_true, if_false, beq_iff_eq, hsame,
      old_noop_of_text inv norm hgc htt]
    unfold insertBeforeTail
    rw [Forest.addConsolidate_next hc htc hprev htr hrc]
    rfl
  rw [hmodel]
  have := merge_into_effect (.text (tc ++ tr)) inv.nodup hgr hgc (leaf_of_text inv.valid hgr hkrt)
    (leaf_of_text inv.valid hgc htt) hrc
  exact ⟨rfl, this.1, this.2⟩

end XotModel
