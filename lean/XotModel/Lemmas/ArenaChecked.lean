/-
  XotModel.Lemmas.ArenaChecked — `checked_append`, `checked_prepend`, `checked_insert_after`,
  `checked_insert_before` with live arguments on a well-formed arena: which calls are refused,
  which panic, and that every other call stores the list-level operation.
-/
import XotModel.Lemmas.ArenaInsert

namespace XotModel
namespace Arena

theorem idAt_ne (a : Arena) {i j : Nat} (h : i ≠ j) : a.idAt i ≠ a.idAt j := by
  intro e
  have := congrArg NodeId.index0 e
  simp at this
  exact h this

theorem Shape.detach_par_self (g : Shape) (i : Nat) : (g.detach i).par i = none := by
  unfold Shape.detach
  cases h : g.par i with
  | none => simpa using h
  | some p => simp

theorem Shape.detach_par_le (g : Shape) (i c q : Nat) (h : (g.detach i).par c = some q) : g.par c = some q := by
  unfold Shape.detach at h
  cases hp : g.par i with
  | none => rw [hp] at h; exact h
  | some p =>
    rw [hp] at h
    simp only at h
    by_cases hc : c = i
    · rw [if_pos hc] at h; cases h
    · rw [if_neg hc] at h; exact h

theorem Shape.detach_par_ne (g : Shape) (i c : Nat) (h : c ≠ i) : (g.detach i).par c = g.par c := by
  unfold Shape.detach
  cases hp : g.par i with
  | none => rfl
  | some p => simp [h]

theorem Shape.detach_kids_head (g : Shape) (i p : Nat) (h : (g.kids p).head? ≠ some i) :
    ((g.detach i).kids p).head? = (g.kids p).head? := by
  unfold Shape.detach
  cases hp : g.par i with
  | none => rfl
  | some q =>
    simp only
    by_cases hq : p = q
    · subst hq; rw [if_pos rfl]; exact head?_erase_of_ne h
    · rw [if_neg hq]

theorem Rep.eitherRemoved_live {a : Arena} (p i : Nat) (hp : Live a p) (hi : Live a i) :
    eitherRemoved a (a.idAt p) (a.idAt i) = .done a false := by
  obtain ⟨sp, hsp, hp0⟩ := hp
  obtain ⟨si, hsi, hi0⟩ := hi
  unfold eitherRemoved
  rw [rd_some _ _ _ _ (show a.slot (a.idAt p).index0 = some sp by rw [idAt_index0]; exact hsp)]
  have e1 : sp.isRemoved = false := by simp [Slot.isRemoved, Stamp.isRemoved]; omega
  have e2 : si.isRemoved = false := by simp [Slot.isRemoved, Stamp.isRemoved]; omega
  rw [e1]
  simp only [Bool.false_eq_true, if_false]
  rw [rd_some _ _ _ _ (show a.slot (a.idAt i).index0 = some si by rw [idAt_index0]; exact hsi), e2]

/-- List-level `checked_append` / `checked_prepend`. -/
def Shape.append (g : Shape) (p i : Nat) : Shape := (g.detach i).link p ((g.detach i).kids p) i []
def Shape.prepend (g : Shape) (p i : Nat) : Shape := (g.detach i).link p [] i ((g.detach i).kids p)

/-- Insertion of a parentless live node, as a call of `insert_with_neighbors`. -/
theorem Rep.insertRoot {a : Arena} {g : Shape} (r : Rep a g) (i p : Nat) (L R : List Nat)
    (hil : Live a i) (hroot : g.par i = none) (hpl : Live a p) (hpi : p ≠ i)
    (hk : g.kids p = L ++ R) (hanc : ¬ Reach g.par p i) :
    insertWithNeighbors a (a.idAt i) (some (a.idAt p)) (L.getLast?.map a.idAt) (R.head?.map a.idAt) =
      .done (linkArena a (a.idAt i) (a.idAt p) (L.getLast?.map a.idAt) (R.head?.map a.idAt)) (.ok ()) ∧
    Rep (linkArena a (a.idAt i) (a.idAt p) (L.getLast?.map a.idAt) (R.head?.map a.idAt)) (g.link p L i R) := by
  refine ⟨?_, r.link i p L R hil hroot hpl hpi hk hanc⟩
  obtain ⟨s, hs, h0⟩ := hil
  have P := r.ptrs i s hs h0
  have hikids : i ∉ g.kids p := fun hm => by
    have := (r.kidsLive p i hm).2.2; rw [hroot] at this; cases this
  have live_kids : ∀ c, c ∈ g.kids p → Live a c := fun c hc => (r.kidsLive p c hc).2.1
  refine insertWithNeighbors_eq a _ _ _ _ s (by rw [idAt_index0]; exact hs) (by rw [P.parent, hroot]; rfl)
    (P.root hroot).1 (P.root hroot).2 (idAt_ne a hpi.symm) ?_ ?_ ?_ ?_ ?_
  · intro h
    cases hl : L.getLast? with
    | none => rw [hl] at h; cases h
    | some l =>
      rw [hl] at h; simp at h
      have := congrArg NodeId.index0 h
      simp at this; subst this
      exact hikids (by rw [hk]; exact List.mem_append_left _ (List.mem_of_getLast? hl))
  · intro h
    cases hl : R.head? with
    | none => rw [hl] at h; cases h
    | some l =>
      rw [hl] at h; simp at h
      have := congrArg NodeId.index0 h
      simp at this; subst this
      exact hikids (by rw [hk]; exact List.mem_append_right _ (List.mem_of_mem_head? hl))
  · exact Rep.inRange_map (some p) (fun j hj => by cases hj; exact hpl)
  · exact Rep.inRange_map _ (fun j hj => live_kids j (by rw [hk]; exact List.mem_append_left _ (List.mem_of_getLast? hj)))
  · exact Rep.inRange_map _ (fun j hj => live_kids j (by rw [hk]; exact List.mem_append_right _ (List.mem_of_mem_head? hj)))

theorem checkedAppend_self (a : Arena) (x : NodeId) : checkedAppend a x x = .done a (.error .appendSelf) := by
  simp [checkedAppend]

theorem Rep.checkedAppend_ancestor {a : Arena} {g : Shape} (r : Rep a g) (p i : Nat) (hp : Live a p) (hi : Live a i)
    (hpi : p ≠ i) (hanc : Reach g.par p i) :
    checkedAppend a (a.idAt p) (a.idAt i) = .done a (.error .appendAncestor) := by
  unfold checkedAppend
  rw [if_neg (idAt_ne a hpi.symm), Rep.eitherRemoved_live p i hp hi]
  simp only [Step.bind_done, Bool.false_eq_true, if_false]
  obtain ⟨b, hb, hiff⟩ := r.ancestorsAny_spec p i hp
  rw [hb, hiff.mpr hanc]
  simp

theorem Rep.checkedAppend_ok {a : Arena} {g : Shape} (r : Rep a g) (p i : Nat) (hp : Live a p) (hi : Live a i)
    (hpi : p ≠ i) (hanc : ¬ Reach g.par p i) :
    ∃ a', checkedAppend a (a.idAt p) (a.idAt i) = .done a' (.ok ()) ∧ Rep a' (g.append p i) ∧ MetaEq a a' := by
  unfold checkedAppend
  rw [if_neg (idAt_ne a hpi.symm), Rep.eitherRemoved_live p i hp hi]
  simp only [Step.bind_done, Bool.false_eq_true, if_false]
  obtain ⟨b, hb, hiff⟩ := r.ancestorsAny_spec p i hp
  have hbf : b = false := by
    cases b with
    | false => rfl
    | true => exact absurd (hiff.mp rfl) hanc
  rw [hb, hbf]
  simp only [Step.bind_done, Bool.false_eq_true, if_false]
  obtain ⟨a1, hd, r1, hM⟩ := r.detach (a.idAt i) (LiveId.idAt hi)
  rw [idAt_index0] at r1
  rw [hd]
  simp only [Step.bind_done]
  have hp1 : Live a1 p := (hM.live p).mpr hp
  have hi1 : Live a1 i := (hM.live i).mpr hi
  obtain ⟨sp1, hsp1, hp10⟩ := hp1
  have hid : a1.idAt = a.idAt := funext hM.idAt
  rw [← hid]
  rw [rd_some _ _ _ _ (show a1.slot (a1.idAt p).index0 = some sp1 by rw [idAt_index0]; exact hsp1)]
  have hlast : sp1.last = ((g.detach i).kids p).getLast?.map a1.idAt := (r1.ptrs p sp1 hsp1 hp10).last
  have hanc1 : ¬ Reach (g.detach i).par p i := fun h => hanc (Reach.mono (Shape.detach_par_le g i) h)
  obtain ⟨e1, r2⟩ := r1.insertRoot i p ((g.detach i).kids p) [] hi1 (Shape.detach_par_self g i) ⟨sp1, hsp1, hp10⟩ hpi
    (by simp) hanc1
  rw [hlast]
  simp only [List.head?_nil, Option.map_none] at e1 r2
  rw [e1]
  simp only [expectOk, Step.bind_done]
  exact ⟨_, rfl, r2, hM.trans (MetaEq.linkArena _ _ _ _ _)⟩

theorem checkedPrepend_self (a : Arena) (x : NodeId) : checkedPrepend a x x = .done a (.error .prependSelf) := by
  simp [checkedPrepend]

theorem Rep.checkedPrepend_ancestor {a : Arena} {g : Shape} (r : Rep a g) (p i : Nat) (hp : Live a p) (hi : Live a i)
    (hpi : p ≠ i) (hanc : Reach g.par p i) :
    checkedPrepend a (a.idAt p) (a.idAt i) = .done a (.error .prependAncestor) := by
  unfold checkedPrepend
  rw [if_neg (idAt_ne a hpi.symm), Rep.eitherRemoved_live p i hp hi]
  simp only [Step.bind_done, Bool.false_eq_true, if_false]
  obtain ⟨b, hb, hiff⟩ := r.ancestorsAny_spec p i hp
  rw [hb, hiff.mpr hanc]
  simp

/-- Prepending the node that already is the first child: `insert_with_neighbors` reports
    `SiblingsLoop`, the `expect` panics; nothing has been written. -/
theorem Rep.checkedPrepend_first_panics {a : Arena} {g : Shape} (r : Rep a g) (p i : Nat) (hp : Live a p)
    (hi : Live a i) (hpi : p ≠ i) (hanc : ¬ Reach g.par p i) (hfirst : (g.kids p).head? = some i) :
    checkedPrepend a (a.idAt p) (a.idAt i) = .panic a := by
  unfold checkedPrepend
  rw [if_neg (idAt_ne a hpi.symm), Rep.eitherRemoved_live p i hp hi]
  simp only [Step.bind_done, Bool.false_eq_true, if_false]
  obtain ⟨b, hb, hiff⟩ := r.ancestorsAny_spec p i hp
  have hbf : b = false := by
    cases b with
    | false => rfl
    | true => exact absurd (hiff.mp rfl) hanc
  rw [hb, hbf]
  simp only [Step.bind_done, Bool.false_eq_true, if_false]
  obtain ⟨sp, hsp, hp0⟩ := hp
  rw [rd_some _ _ _ _ (show a.slot (a.idAt p).index0 = some sp by rw [idAt_index0]; exact hsp)]
  have hf : sp.first = some (a.idAt i) := by rw [(r.ptrs p sp hsp hp0).first, hfirst]; rfl
  rw [hf]
  simp [insertWithNeighbors, expectOk]

theorem Rep.checkedPrepend_ok {a : Arena} {g : Shape} (r : Rep a g) (p i : Nat) (hp : Live a p) (hi : Live a i)
    (hpi : p ≠ i) (hanc : ¬ Reach g.par p i) (hfirst : (g.kids p).head? ≠ some i) :
    ∃ a', checkedPrepend a (a.idAt p) (a.idAt i) = .done a' (.ok ()) ∧ Rep a' (g.prepend p i) ∧ MetaEq a a' := by
  unfold checkedPrepend
  rw [if_neg (idAt_ne a hpi.symm), Rep.eitherRemoved_live p i hp hi]
  simp only [Step.bind_done, Bool.false_eq_true, if_false]
  obtain ⟨b, hb, hiff⟩ := r.ancestorsAny_spec p i hp
  have hbf : b = false := by
    cases b with
    | false => rfl
    | true => exact absurd (hiff.mp rfl) hanc
  rw [hb, hbf]
  simp only [Step.bind_done, Bool.false_eq_true, if_false]
  obtain ⟨sp, hsp, hp0⟩ := hp
  rw [rd_some _ _ _ _ (show a.slot (a.idAt p).index0 = some sp by rw [idAt_index0]; exact hsp)]
  have hf : sp.first = (g.kids p).head?.map a.idAt := (r.ptrs p sp hsp hp0).first
  obtain ⟨a1, hd, r1, hM⟩ := r.detach (a.idAt i) (LiveId.idAt hi)
  rw [idAt_index0] at r1
  obtain ⟨si, hsi, hi0⟩ := hi
  obtain ⟨n1, n2, n3, n4, n5, n6⟩ := r.neighbours i si hsi hi0
  have live_kids : ∀ c, c ∈ g.kids p → Live a c := fun c hc => (r.kidsLive p c hc).2.1
  have hfne : sp.first ≠ some (a.idAt i) := by
    rw [hf]
    intro h
    cases hl : (g.kids p).head? with
    | none => rw [hl] at h; cases h
    | some l =>
      rw [hl] at h; simp at h
      have := congrArg NodeId.index0 h
      simp at this; subst this
      exact hfirst hl
  have e1 := insertWithNeighbors_attached_eq a (a.idAt i) (a.idAt p) none sp.first si
    (by rw [idAt_index0]; exact hsi) n1 n2 n3 (by rw [idAt_index0]; exact n4) (by rw [idAt_index0]; exact n5)
    (by rw [idAt_index0]; exact n6) (idAt_ne a hpi.symm) (by simp) hfne
    (Rep.inRange_map (some p) (fun j hj => by cases hj; exact ⟨sp, hsp, hp0⟩)) (InRange.none a)
    (by rw [hf]; exact Rep.inRange_map _ (fun j hj => live_kids j (List.mem_of_mem_head? hj))) a1 hd
  rw [e1]
  simp only [expectOk, Step.bind_done]
  refine ⟨_, rfl, ?_, hM.trans (MetaEq.linkArena _ _ _ _ _)⟩
  have hid : a1.idAt = a.idAt := funext hM.idAt
  have hanc1 : ¬ Reach (g.detach i).par p i := fun h => hanc (Reach.mono (Shape.detach_par_le g i) h)
  have r2 := r1.link i p [] ((g.detach i).kids p) ((hM.live i).mpr ⟨si, hsi, hi0⟩) (Shape.detach_par_self g i)
    ((hM.live p).mpr ⟨sp, hsp, hp0⟩) hpi (by simp) hanc1
  rw [Shape.detach_kids_head g i p hfirst, hid] at r2
  simp only [List.getLast?_nil, Option.map_none] at r2
  rw [hf]
  exact r2

end Arena
end XotModel
