/-
  Lemmas for C12, part 14 (locality): a root that shares no handle with the other roots is left
  exactly as it is by every primitive whose handle arguments lie outside it.
-/
import XotModel.Lemmas.FcloneLocal1

namespace XotModel
open HTree

/-- `r` is one of the roots and shares no handle with any other root. -/
structure Sep (r : HTree) (f : Forest) : Prop where
  mem : r ∈ f.roots
  disj : ∀ t ∈ f.roots, t ≠ r → ∀ a ∈ handles r, a ∉ handles t

namespace Sep

variable {r : HTree} {f : Forest}

/-- Only the roots matter. -/
theorem of_roots {f g : Forest} (s : Sep r f) (h : g.roots = f.roots) : Sep r g :=
  ⟨h ▸ s.mem, fun t ht => s.disj t (h ▸ ht)⟩

/-- Roots replaced through a map that fixes `r` and adds only handles from `E`. -/
theorem map (s : Sep r f) (F : HTree → HTree) (E : List Nat) (hr : F r = r)
    (hF : ∀ t a, a ∈ handles (F t) → a ∈ handles t ∨ a ∈ E) (hE : ∀ a ∈ handles r, a ∉ E)
    {g : Forest} (hg : g.roots = f.roots.map F) : Sep r g := by
  refine ⟨?_, ?_⟩
  · rw [hg]; exact List.mem_map.mpr ⟨r, s.mem, hr⟩
  · intro t' ht' hne a ha hat
    rw [hg] at ht'
    obtain ⟨t, ht, rfl⟩ := List.mem_map.mp ht'
    have htr : t ≠ r := fun e => hne (e ▸ hr)
    rcases hF t a hat with x | x
    · exact s.disj t ht htr a ha x
    · exact hE a ha x

theorem filter (s : Sep r f) (p : HTree → Bool) (hp : p r = true) {g : Forest}
    (hg : g.roots = f.roots.filter p) : Sep r g := by
  refine ⟨?_, ?_⟩
  · rw [hg]; exact List.mem_filter.mpr ⟨s.mem, hp⟩
  · intro t ht
    rw [hg] at ht
    exact s.disj t (List.mem_filter.mp ht).1

theorem appendRoots (s : Sep r f) (M : List HTree) (hM : ∀ t ∈ M, ∀ a ∈ handles r, a ∉ handles t)
    {g : Forest} (hg : g.roots = f.roots ++ M) : Sep r g := by
  refine ⟨?_, ?_⟩
  · rw [hg]; exact List.mem_append_left _ s.mem
  · intro t ht hne
    rw [hg] at ht
    rcases List.mem_append.mp ht with x | x
    · exact s.disj t x hne
    · exact hM t x

/-- What a lookup outside `r` returns shares no handle with `r`. -/
theorem get?_disj (s : Sep r f) {h : Nat} (hn : h ∉ handles r) {t0 : HTree} (hg : f.get? h = some t0) :
    ∀ a ∈ handles r, a ∉ handles t0 := by
  obtain ⟨t, ht, hf⟩ := fc_findList?_root h f.roots t0 hg
  have htr : t ≠ r := by
    intro e
    rw [e, find?_none_of_not_mem h r hn] at hf
    cases hf
  intro a ha hat
  exact s.disj t ht htr a ha ((find?_sub h t t0 hf).2 a hat)

theorem ctx?_disj (s : Sep r f) {h : Nat} (hn : h ∉ handles r) {c : Ctx} (hc : f.ctx? h = some c) :
    (∀ a ∈ handlesList c.left, a ∉ handles r) ∧ (∀ a ∈ handlesList c.right, a ∉ handles r) := by
  obtain ⟨t, ht, hb⟩ := findSome?_root (ctxBelow h) f.roots c hc
  obtain ⟨h1, h2, h3, h4⟩ := ctxBelow_sub h t c hb
  have hmem : h ∈ handles t := h3 h (h1 ▸ fc_handle_mem_handles c.self)
  have htr : t ≠ r := fun e => hn (e ▸ hmem)
  exact ⟨fun a ha har => s.disj t ht htr a har (h2 a ha), fun a ha har => s.disj t ht htr a har (h4 a ha)⟩

theorem prevSibling_disj (s : Sep r f) {h p : Nat} (hn : h ∉ handles r) (hp : f.prevSibling h = some p) :
    p ∉ handles r := by
  unfold Forest.prevSibling at hp
  cases hc : f.ctx? h with
  | none => simp [hc] at hp
  | some c =>
    rw [hc] at hp
    simp only at hp
    cases hl : c.left.getLast? with
    | none => simp [hl] at hp
    | some x =>
      rw [hl] at hp
      simp only at hp
      split at hp
      · cases hp
        have hx : x ∈ c.left := List.mem_of_getLast? hl
        exact (s.ctx?_disj hn hc).1 _ (rootHandle_mem_handlesList hx)
      · cases hp

theorem nextSibling_disj (s : Sep r f) {h p : Nat} (hn : h ∉ handles r) (hp : f.nextSibling h = some p) :
    p ∉ handles r := by
  unfold Forest.nextSibling at hp
  cases hc : f.ctx? h with
  | none => simp [hc] at hp
  | some c =>
    rw [hc] at hp
    simp only at hp
    cases hl : c.right.head? with
    | none => simp [hl] at hp
    | some x =>
      rw [hl] at hp
      simp only at hp
      split at hp
      · cases hp
        have hx : x ∈ c.right := List.mem_of_head? hl
        exact (s.ctx?_disj hn hc).2 _ (rootHandle_mem_handlesList hx)
      · cases hp

theorem lastChild_disj (s : Sep r f) {h l : Nat} (hn : h ∉ handles r) (hl : f.lastChild h = some l) :
    l ∉ handles r := by
  unfold Forest.lastChild at hl
  cases hg : f.get? h with
  | none => simp [hg] at hl
  | some t0 =>
    rw [hg] at hl
    simp only at hl
    cases hk : t0.kids.getLast? with
    | none => simp [hk] at hl
    | some k =>
      rw [hk] at hl
      simp only at hl
      split at hl
      · cases hl
        have hx : k ∈ t0.kids := List.mem_of_getLast? hk
        intro har
        exact s.get?_disj hn hg _ har (kids_handles_sub t0 k hx _ (fc_handle_mem_handles k))
      · cases hl

/-! #### primitives -/

theorem setValue (s : Sep r f) {h : Nat} (hn : h ∉ handles r) (v : Value) : Sep r (f.setValue h v) :=
  s.map (mapAt h (HTree.setValue v)) [] (fc_mapAt_of_not_mem h _ r hn)
    (fun t a ha => Or.inl (by rwa [handles_mapAt_setValue] at ha)) (fun _ _ h => by simp at h) rfl

theorem not_root_handle (hn : h ∉ handles r) : (r.handle != h) = true := by
  have : r.handle ≠ h := fun e => hn (e ▸ fc_handle_mem_handles r)
  simp [this]

theorem spliceOut (s : Sep r f) {h : Nat} (hn : h ∉ handles r) : Sep r (f.spliceOut h) := by
  unfold Forest.spliceOut
  cases hg : f.get? h with
  | none => exact s
  | some t0 =>
    simp only
    have hd := s.get?_disj hn hg
    split
    · have s1 : Sep r { f with roots := f.roots.filter (fun x => x.handle != h) ++ t0.kids } := by
        have sf : Sep r { f with roots := f.roots.filter (fun x => x.handle != h) } :=
          s.filter _ (not_root_handle hn) rfl
        exact sf.appendRoots t0.kids
          (fun k hk a ha hak => hd a ha (kids_handles_sub t0 k hk a hak)) rfl
      split
      · exact s1
      · exact s1.of_roots rfl
    · exact s.map (replaceBelow h (fun n => n.kids)) [] (replaceBelow_of_not_mem h _ r hn)
        (replaceBelow_handles h _ [] (fun x a ha => by
          left
          cases x with
          | node hx vx kx => simp [handles, HTree.kids] at ha ⊢; exact Or.inr ha))
        (fun _ _ h => by simp at h) rfl

/-- `cut`: `r` stays, and the subtree cut out shares no handle with `r`. -/
theorem cut (s : Sep r f) {h : Nat} (hn : h ∉ handles r) :
    Sep r (f.cut h).1 ∧ ∀ t0, (f.cut h).2 = some t0 → ∀ a ∈ handles r, a ∉ handles t0 := by
  unfold Forest.cut
  cases hg : f.get? h with
  | none => exact ⟨s, fun t0 h0 => by simp at h0⟩
  | some t0 =>
    simp only
    have hd := s.get?_disj hn hg
    split
    · exact ⟨s.filter _ (not_root_handle hn) rfl, fun t1 h1 => by cases h1; exact hd⟩
    · exact ⟨s.map (replaceBelow h (fun _ => [])) [] (replaceBelow_of_not_mem h _ r hn)
        (replaceBelow_handles h _ [] (fun x a ha => by simp [handlesList] at ha))
        (fun _ _ h => by simp at h) rfl, fun t1 h1 => by cases h1; exact hd⟩

theorem dropSubtree (s : Sep r f) {h : Nat} (hn : h ∉ handles r) : Sep r (f.dropSubtree h) :=
  (s.cut hn).1

theorem addRoot (s : Sep r f) (t0 : HTree) (hd : ∀ a ∈ handles r, a ∉ handles t0) :
    Sep r (f.addRoot t0) :=
  s.appendRoots [t0] (fun t ht => by simp at ht; subst ht; exact hd) rfl

theorem detachRaw (s : Sep r f) {h : Nat} (hn : h ∉ handles r) : Sep r (f.detachRaw h) := by
  unfold Forest.detachRaw
  have hc := s.cut hn
  cases hcut : f.cut h with
  | mk f' o =>
    rw [hcut] at hc
    cases o with
    | none => exact hc.1
    | some t0 => exact hc.1.addRoot t0 (hc.2 t0 rfl)

theorem setKids_handles (x : HTree) (ks : List HTree) :
    handles (x.setKids ks) = x.handle :: handlesList ks := by
  cases x; rfl

theorem placeLast (s : Sep r f) {p : Nat} (hn : p ∉ handles r) (t0 : HTree)
    (hd : ∀ a ∈ handles r, a ∉ handles t0) : Sep r (f.placeLast p t0) :=
  s.map (mapAt p (fun n => n.setKids (n.kids ++ [t0]))) (handles t0) (fc_mapAt_of_not_mem p _ r hn)
    (mapAt_handles p _ (handles t0) (fun x a ha => by
      rw [setKids_handles, handlesList_append, handlesList_singleton] at ha
      cases x with
      | node hx vx kx =>
        simp only [HTree.handle, HTree.kids, List.mem_cons, List.mem_append, handles] at ha ⊢
        rcases ha with y | y | y
        · exact Or.inl (Or.inl y)
        · exact Or.inl (Or.inr y)
        · exact Or.inr y))
    hd rfl

theorem placeFirst (s : Sep r f) {p : Nat} (hn : p ∉ handles r) (t0 : HTree)
    (hd : ∀ a ∈ handles r, a ∉ handles t0) : Sep r (f.placeFirst p t0) :=
  s.map (mapAt p (fun n => n.setKids (t0 :: n.kids))) (handles t0) (fc_mapAt_of_not_mem p _ r hn)
    (mapAt_handles p _ (handles t0) (fun x a ha => by
      rw [setKids_handles] at ha
      cases x with
      | node hx vx kx =>
        simp only [HTree.handle, HTree.kids, List.mem_cons, List.mem_append, handles, handlesList] at ha ⊢
        rcases ha with y | y | y
        · exact Or.inl (Or.inl y)
        · exact Or.inr y
        · exact Or.inl (Or.inr y)))
    hd rfl

theorem placeAfter (s : Sep r f) {p : Nat} (hn : p ∉ handles r) (t0 : HTree)
    (hd : ∀ a ∈ handles r, a ∉ handles t0) : Sep r (f.placeAfter p t0) :=
  s.map (replaceBelow p (fun x => [x, t0])) (handles t0) (replaceBelow_of_not_mem p _ r hn)
    (replaceBelow_handles p _ (handles t0) (fun x a ha => by
      simp only [handlesList, List.mem_append, List.append_nil] at ha
      exact ha))
    hd rfl

theorem placeBefore (s : Sep r f) {p : Nat} (hn : p ∉ handles r) (t0 : HTree)
    (hd : ∀ a ∈ handles r, a ∉ handles t0) : Sep r (f.placeBefore p t0) :=
  s.map (replaceBelow p (fun x => [t0, x])) (handles t0) (replaceBelow_of_not_mem p _ r hn)
    (replaceBelow_handles p _ (handles t0) (fun x a ha => by
      simp only [handlesList, List.mem_append, List.append_nil] at ha
      exact ha.symm))
    hd rfl

end Sep
end XotModel
