/-
  Lemmas for C11, part 7: the part of the invariant the map theorems use (`MInv`), and the
  map operations `get_node`, `insert`, `remove` in normal form with their reference-map meaning.
-/
import XotModel.Lemmas.FmapPlace

namespace XotModel
namespace Fmap
open HTree
open Forest (MapKind entryKey mapChildren)

/-- Key of an entry node. -/
def keyOf (c : HTree) : Nat := entryKey c.value

/-! ### Sections by kind -/

def preK (k : MapKind) (N : List HTree) : List HTree :=
  match k with | .namespaces => [] | .attributes => N
def postK (k : MapKind) (A S : List HTree) : List HTree :=
  match k with | .namespaces => A ++ S | .attributes => S
def setSecN (k : MapKind) (N s' : List HTree) : List HTree :=
  match k with | .namespaces => s' | .attributes => N
def setSecA (k : MapKind) (A s' : List HTree) : List HTree :=
  match k with | .namespaces => A | .attributes => s'

theorem split_kids (k : MapKind) (N A S : List HTree) :
    N ++ A ++ S = preK k N ++ Sect.sec k N A ++ postK k A S := by
  cases k <;> simp [preK, postK, Sect.sec]

theorem setSec_kids (k : MapKind) (N A S s' : List HTree) :
    setSecN k N s' ++ setSecA k A s' ++ S = preK k N ++ s' ++ postK k A S := by
  cases k <;> simp [preK, postK, setSecN, setSecA]

@[simp] theorem sec_setSec (k : MapKind) (N A s' : List HTree) :
    Sect.sec k (setSecN k N s') (setSecA k A s') = s' := by
  cases k <;> rfl

theorem sec_setSec_other (k k' : MapKind) (N A s' : List HTree) (h : k' ≠ k) :
    Sect.sec k' (setSecN k N s') (setSecA k A s') = Sect.sec k' N A := by
  cases k <;> cases k' <;> first | rfl | exact absurd rfl h

theorem kindCat_ne_normal (k : MapKind) : kindCat k ≠ .normal := by
  cases k <;> simp [kindCat]

theorem Sect.sec_cat {ks N A S : List HTree} (h : Sect ks N A S) (k : MapKind) :
    ∀ x ∈ Sect.sec k N A, x.value.category = kindCat k := by
  cases k
  · exact h.allAt
  · exact h.allNs

theorem Sect.setSec {ks N A S : List HTree} (h : Sect ks N A S) (k : MapKind) (s' : List HTree)
    (hs : ∀ x ∈ s', x.value.category = kindCat k) :
    Sect (setSecN k N s' ++ setSecA k A s' ++ S) (setSecN k N s') (setSecA k A s') S := by
  cases k
  · exact ⟨rfl, h.allNs, hs, h.allNm⟩
  · exact ⟨rfl, hs, h.allAt, h.allNm⟩

/-! ### The invariant at the element -/

/-- What the map theorems use of `Forest.Inv` at the element `e` (named `nm`), whose children
    are the namespace nodes `N`, the attribute nodes `A` and the normal nodes `S`. -/
structure MInv (f : Forest) (e nm : Nat) (N A S : List HTree) : Prop where
  loc : Located f e (.element nm) (N ++ A ++ S)
  sect : Sect (N ++ A ++ S) N A S
  uniq : ∀ k, ((Sect.sec k N A).map keyOf).Nodup
  below : ∀ h ∈ f.allHandles, h < f.next
  /-- attribute and namespace nodes have no children -/
  leaf : ∀ k, ∀ x ∈ Sect.sec k N A, x.kids = []

theorem isElement_of_get (f : Forest) (e nm : Nat) (ks : List HTree)
    (h : f.get? e = some (.node e (.element nm) ks)) : f.isElement e = true := by
  simp [Forest.isElement, Forest.value?, h, HTree.value, Value.isElement]

theorem validList_mem' (b : Bool) (ks : List HTree) (hv : validList b ks = true) (r : HTree)
    (hr : r ∈ ks) : validTree b r = true := by
  induction ks with
  | nil => cases hr
  | cons k ks ih =>
    simp only [validList, Bool.and_eq_true] at hv
    rcases List.mem_cons.mp hr with rfl | hr
    · exact hv.1
    · exact ih hv.2 hr

/-- A valid attribute or namespace node has no children. -/
theorem entry_leaf (b : Bool) (x : HTree) (hv : validTree b x = true)
    (hc : x.value.category ≠ .normal) : x.kids = [] := by
  cases x with
  | node h v ks =>
    simp only [validTree, Bool.and_eq_true] at hv
    obtain ⟨⟨⟨⟨⟨hall, _⟩, _⟩, _⟩, _⟩, _⟩ := hv
    cases ks with
    | nil => rfl
    | cons c cs =>
      exfalso
      simp only [List.all_cons, Bool.and_eq_true] at hall
      cases v <;> simp [kidAllowed, HTree.value, Value.category] at hall hc

/-- The invariant gives `MInv` at every live element. -/
theorem minv_of_inv (f : Forest) (e : Nat) (hi : f.Inv) (he : f.isElement e = true) :
    ∃ nm N A S, MInv f e nm N A S := by
  unfold Forest.isElement Forest.value? at he
  cases hg : f.get? e with
  | none => rw [hg] at he; simp at he
  | some t =>
    rw [hg] at he
    cases t with
    | node h v ks =>
      have hh : h = e := findList?_handle e f.roots _ hg
      subst hh
      cases v with
      | element nm =>
        have hv := validList_findList? _ h f.roots _ hi.valid hg
        simp only [validTree, Bool.and_eq_true] at hv
        obtain ⟨⟨⟨⟨⟨_, ho⟩, hua⟩, hun⟩, _⟩, hvk⟩ := hv
        have hs := sect_of_ordered ks ho
        refine ⟨nm, ks.takeWhile isNs, (ks.dropWhile isNs).takeWhile isAt,
          (ks.dropWhile isNs).dropWhile isAt, ⟨hi.nodup, ?_⟩, ?_, ?_, hi.below, ?_⟩
        · rw [hg]; congr 2; exact hs.eq
        · rw [← hs.eq]; exact hs
        · intro k
          cases k
          · exact hs.keysUnique_at.mp hua
          · exact hs.keysUnique_ns.mp hun
        · intro k x hx
          have hxk : x ∈ ks := by
            rw [hs.eq]
            cases k
            · exact List.mem_append_left _ (List.mem_append_right _ hx)
            · exact List.mem_append_left _ (List.mem_append_left _ hx)
          have hcat := hs.sec_cat k x hx
          exact entry_leaf _ x (validList_mem' _ ks hvk x hxk) (by rw [hcat]; exact kindCat_ne_normal k)
      | _ => simp [HTree.value, Value.isElement] at he

theorem MInv.isElement {f : Forest} {e nm : Nat} {N A S : List HTree} (h : MInv f e nm N A S) :
    f.isElement e = true := isElement_of_get f e nm _ h.loc.get

theorem MInv.abs_eq {f : Forest} {e nm : Nat} {N A S : List HTree} (h : MInv f e nm N A S)
    (k : MapKind) : abs k f e = (Sect.sec k N A).map entryPair := by
  unfold Fmap.abs absT
  rw [h.loc.get]
  simp only
  rw [mapChildren_eq]
  simp only [HTree.kids]
  rw [h.sect.kidsOf]

theorem MInv.absNodes_eq {f : Forest} {e nm : Nat} {N A S : List HTree} (h : MInv f e nm N A S)
    (k : MapKind) : absNodes k f e = (Sect.sec k N A).map (·.handle) := by
  unfold Fmap.absNodes
  rw [h.loc.get]
  simp only
  rw [mapChildren_eq]
  simp only [HTree.kids]
  rw [h.sect.kidsOf]

theorem MInv.getNode {f : Forest} {e nm : Nat} {N A S : List HTree} (h : MInv f e nm N A S)
    (k : MapKind) (key : Nat) :
    f.mapGetNode k e key = (Sect.sec k N A).find? (fun c => entryKey c.value == key) := by
  unfold Forest.mapGetNode
  rw [h.loc.get]
  simp only
  rw [mapChildren_eq]
  simp only [HTree.kids]
  rw [h.sect.kidsOf]

/-- The new state's `MInv` after the section of kind `k` became `s'`. -/
theorem MInv.update {f f' : Forest} {e nm : Nat} {N A S : List HTree} (h : MInv f e nm N A S)
    (k : MapKind) (s' : List HTree) (hleaf : ∀ x ∈ s', x.kids = [])
    (hloc : Located f' e (.element nm) (preK k N ++ s' ++ postK k A S))
    (hcat : ∀ x ∈ s', x.value.category = kindCat k)
    (huniq : (s'.map keyOf).Nodup)
    (hbelow : ∀ h ∈ f'.allHandles, h < f'.next) :
    MInv f' e nm (setSecN k N s') (setSecA k A s') S := by
  refine ⟨?_, h.sect.setSec k s' hcat, ?_, hbelow, ?_⟩
  · rw [setSec_kids]; exact hloc
  · intro k'
    by_cases hk : k' = k
    · subst hk; rw [sec_setSec]; exact huniq
    · rw [sec_setSec_other k k' N A s' hk]; exact h.uniq k'
  · intro k'
    by_cases hk : k' = k
    · subst hk; rw [sec_setSec]; exact hleaf
    · rw [sec_setSec_other k k' N A s' hk]; exact h.leaf k'

theorem MInv.abs_update {f' : Forest} {e nm : Nat} {N A S s' : List HTree} {k : MapKind}
    (h' : MInv f' e nm (setSecN k N s') (setSecA k A s') S) :
    abs k f' e = s'.map entryPair := by
  rw [h'.abs_eq k, sec_setSec]

theorem MInv.abs_update_other {f f' : Forest} {e nm : Nat} {N A S s' : List HTree} {k k' : MapKind}
    (h : MInv f e nm N A S)
    (h' : MInv f' e nm (setSecN k N s') (setSecA k A s') S) (hk : k' ≠ k) :
    abs k' f' e = abs k' f e := by
  rw [h'.abs_eq k', h.abs_eq k', sec_setSec_other k k' N A s' hk]

/-! ### Entry values -/

theorem entryUpdate_key (k : MapKind) (old new : Value) (ho : old.category = kindCat k)
    (hn : k.matches new = true) :
    entryKey (Forest.entryUpdate old new) = entryKey old ∧
    payloadOf (Forest.entryUpdate old new) = payloadOf new ∧
    (Forest.entryUpdate old new).category = kindCat k := by
  cases k <;> cases old <;> cases new <;>
    simp_all [MapKind.matches, Value.category, kindCat, Forest.entryUpdate, entryKey, payloadOf]

theorem find?_key_split (s : List HTree) (key : Nat) (n : HTree)
    (hf : s.find? (fun c => entryKey c.value == key) = some n) :
    keyOf n = key ∧ ∃ s1 s2, s = s1 ++ n :: s2 ∧ ∀ a ∈ s1, keyOf a ≠ key := by
  obtain ⟨hp, s1, s2, hs, hn⟩ := List.find?_eq_some_iff_append.mp hf
  refine ⟨by simpa [keyOf] using hp, s1, s2, hs, ?_⟩
  intro a ha
  have := hn a ha
  simpa [keyOf] using this

theorem find?_key_none (s : List HTree) (key : Nat)
    (hf : s.find? (fun c => entryKey c.value == key) = none) : ∀ a ∈ s, keyOf a ≠ key := by
  intro a ha
  have := List.find?_eq_none.mp hf a ha
  simpa [keyOf] using this

theorem entryPair_fst (c : HTree) : (entryPair c).1 = keyOf c := rfl

/-! ### `insert`, existing key -/

/-- The located form of the children around an entry `n` of section `k`. -/
theorem kids_around (k : MapKind) (N A S s1 s2 : List HTree) (n : HTree)
    (hs : Sect.sec k N A = s1 ++ n :: s2) :
    N ++ A ++ S = (preK k N ++ s1) ++ n :: (s2 ++ postK k A S) := by
  rw [split_kids k, hs]; simp

theorem insert_existing {f : Forest} {e nm : Nat} {N A S : List HTree} (h : MInv f e nm N A S)
    (k : MapKind) (entry : Value) (hm : k.matches entry = true) (n : HTree) (s1 s2 : List HTree)
    (hs : Sect.sec k N A = s1 ++ n :: s2) (key : Nat) (hkey : keyOf n = key)
    (hs1 : ∀ a ∈ s1, keyOf a ≠ key) :
    let n' := n.setValue (Forest.entryUpdate n.value entry)
    let f' : Forest := { f with roots := withKids f.roots e (preK k N ++ (s1 ++ n' :: s2) ++ postK k A S) }
    f.setValue n.handle (Forest.entryUpdate n.value entry) = f' ∧
    MInv f' e nm (setSecN k N (s1 ++ n' :: s2)) (setSecA k A (s1 ++ n' :: s2)) S ∧
    (s1 ++ n' :: s2).map entryPair = omInsert ((Sect.sec k N A).map entryPair) key (payloadOf entry) ∧
    (s1 ++ n' :: s2).map (·.handle) = (Sect.sec k N A).map (·.handle) := by
  intro n' f'
  have hloc : Located f e (.element nm) ((preK k N ++ s1) ++ n :: (s2 ++ postK k A S)) := by
    rw [← kids_around k N A S s1 s2 n hs]; exact h.loc
  have hncat : n.value.category = kindCat k :=
    h.sect.sec_cat k n (by rw [hs]; simp)
  have hu := entryUpdate_key k n.value entry hncat hm
  have hn'v : n'.value = Forest.entryUpdate n.value entry := by
    cases n; rfl
  have hn'h : n'.handle = n.handle := by cases n; rfl
  have heq : f.setValue n.handle (Forest.entryUpdate n.value entry) = f' := by
    rw [setValue_child hloc]
    show _ = f'
    simp only [f', n']
    congr 2
    simp
  refine ⟨heq, ?_, ?_, ?_⟩
  · apply h.update k (s1 ++ n' :: s2)
    · intro x hx
      simp only [List.mem_append, List.mem_cons] at hx
      rcases hx with hx | hx | hx
      · exact h.leaf k x (by rw [hs]; simp [hx])
      · rw [hx]
        have : n'.kids = n.kids := by cases n; rfl
        rw [this]; exact h.leaf k n (by rw [hs]; simp)
      · exact h.leaf k x (by rw [hs]; simp [hx])
    · constructor
      · rw [← heq]
        show (f.setValue _ _).allHandles.Nodup
        rw [Forest.allHandles_setValue]; exact h.loc.nodup
      · exact get_withKids f.roots e _ e _ _ h.loc.get
    · intro x hx
      simp only [List.mem_append, List.mem_cons] at hx
      rcases hx with hx | hx | hx
      · exact h.sect.sec_cat k x (by rw [hs]; simp [hx])
      · rw [hx, hn'v]; exact hu.2.2
      · exact h.sect.sec_cat k x (by rw [hs]; simp [hx])
    · have := h.uniq k
      rw [hs] at this
      simp only [List.map_append, List.map_cons] at this ⊢
      have hk' : keyOf n' = keyOf n := by
        simp only [keyOf, hn'v]; exact hu.1
      rw [hk']; exact this
    · rw [← heq]
      show ∀ x ∈ (f.setValue _ _).allHandles, x < f.next
      rw [Forest.allHandles_setValue]; exact h.below
  · rw [hs]
    simp only [List.map_append, List.map_cons]
    have e1 : entryPair n = (key, payloadOf n.value) := by
      simp only [entryPair]; rw [← hkey]; rfl
    have e2 : entryPair n' = (key, payloadOf entry) := by
      simp only [entryPair, hn'v, hu.1, hu.2.1]; rw [← hkey]; rfl
    rw [e1, e2, omInsert_split]
    intro a ha
    obtain ⟨x, hx, rfl⟩ := List.mem_map.mp ha
    exact hs1 x hx
  · rw [hs]; simp [hn'h]

end Fmap
end XotModel
