/-
  XotModel.Lemmas.SpanDescDefs — C17 "the recorded span is the span of the token that made the node,
  and the node's value is the decoding of that token": the vocabulary.

  `Desc ts g env stack path t`: every node of the subtree `t` sitting at `path` is DESCRIBED by a
  token of the token list `ts` — `g` reads the span map, `env` the interning tables, `stack` the
  namespace declarations in force around `t`:
    * element   `ElementStart` = `Span::from_prefix_name` of an `ElementStart` token whose local
                name is the local name of the node's name id and whose prefix resolves (in the
                element's own declarations, then the enclosing ones) to the name's namespace;
                `ElementEnd` = the whole span of a `/>` or `</q>` token, and an end tag `</q>` is
                written with the prefix and the local name of that `ElementStart` token (`EndLink`;
                `PfxDesc` carries `open_prefixes` against the open frames for it); every attribute child
                has `AttributeName` / `AttributeValue` = name / value span of an `Attribute` token
                whose decoded value (ID-normalised for the name id of xml:id) is the child's value;
    * text      `Text` = from the start of the first to the end of the last token of a RUN of
                consecutive tokens of `ts` (text and CDATA tokens, with tokens the builder ignores
                in between), and the value is the concatenation of the decoded run;
    * comment / PI   the body / target / content spans of a `Comment` / `PI` token; the node's value
                (PI: data) is `normalizeLineEnds` (CR LF / CR → LF) of the body / content text, the PI's
                name is the target text as written, which is not `xml` in any letter case.
  `DInv ts done b` is the invariant of the token loop after the tokens `done` (Lemmas/SpanDescStep).
-/
import XotModel.Lemmas.ParseSpanTotal
import XotModel.Lemmas.ParseSpanKeys
import XotModel.Lemmas.ParseSpanOrder
import XotModel.Lemmas.LineEnds

namespace XotModel

/-- The interning tables only grow at the end. -/
structure SdEnvApp (e e' : Env) : Prop where
  pfx : ∃ x, e'.prefixes = e.prefixes ++ x
  ns : ∃ x, e'.namespaces = e.namespaces ++ x
  nm : ∃ x, e'.names = e.names ++ x

theorem SdEnvApp.refl (e : Env) : SdEnvApp e e := ⟨⟨[], by simp⟩, ⟨[], by simp⟩, ⟨[], by simp⟩⟩

theorem SdEnvApp.trans {a b c : Env} (h1 : SdEnvApp a b) (h2 : SdEnvApp b c) : SdEnvApp a c := by
  obtain ⟨⟨x1, e1⟩, ⟨y1, f1⟩, ⟨z1, g1⟩⟩ := h1
  obtain ⟨⟨x2, e2⟩, ⟨y2, f2⟩, ⟨z2, g2⟩⟩ := h2
  exact ⟨⟨x1 ++ x2, by rw [e2, e1, List.append_assoc]⟩, ⟨y1 ++ y2, by rw [f2, f1, List.append_assoc]⟩,
    ⟨z1 ++ z2, by rw [g2, g1, List.append_assoc]⟩⟩

/-- `(prefix id, namespace id)` of the namespace-node children, in document order. -/
def sdDeclsOf (ks : List Tree) : List (Nat × Nat) :=
  ks.filterMap fun k => match k.value with
    | .namespace p n => some (p, n)
    | _ => none

/-- The bottom of the namespace stack (`NameIdBuilder::new`). -/
def baseStack : NsStack := [[(Env.emptyPrefix, Env.noNamespace)], [(Env.xmlPrefix, Env.xmlNamespace)]]

/-- The name id `id` is (local name as written, namespace the written prefix is bound to in
    `stack`); for an attribute the prefix with id 0 (the empty prefix) means no namespace. -/
def NameFacts (env : Env) (stack : NsStack) (attr : Bool) (id : Nat) (p l : Str) : Prop :=
  p ∈ env.prefixes ∧
  ∃ ns, env.names[id]? = some (l, ns) ∧
    if attr = true ∧ env.prefixes.idxOf p = Env.emptyPrefix then ns = Env.noNamespace
    else lookupPrefix stack (env.prefixes.idxOf p) = some ns

def AttrFacts (ts : List Token) (g : SpanKey → Option Span) (env : Env) (stack : NsStack) (path : Path)
    (n : Nat) (v : Str) : Prop :=
  ∃ p l val sp, Token.attribute p l val sp ∈ ts ∧
    g ⟨path, .attributeName n⟩ = some (Span.fromPrefixName p l) ∧
    g ⟨path, .attributeValue n⟩ = some val.span ∧
    (∃ raw, parseContentGo true val.start 0 val.text = .ok raw ∧ v = xmlIdValue n raw) ∧
    NameFacts env stack true n p.text l.text

/-- Start tag of the element `id` at `path` with children `ks` (any order). -/
def StartFacts (ts : List Token) (g : SpanKey → Option Span) (env : Env) (stack : NsStack) (path : Path)
    (id : Nat) (ks : List Tree) : Prop :=
  (∃ p l sp, Token.elementStart p l sp ∈ ts ∧
    g ⟨path, .elementStart⟩ = some (Span.fromPrefixName p l) ∧ NameFacts env stack false id p.text l.text) ∧
  ∀ k ∈ ks, ∀ n v, k.value = .attribute n v → AttrFacts ts g env stack path n v

/-- An end tag `</p:l>` closes an element whose start tag - the `ElementStart` token whose name span is
    recorded for the element - is written with the same prefix and the same local name
    (`close_element`: same name id AND `open_prefixes.last() == prefix`). -/
def EndLink (ts : List Token) (g : SpanKey → Option Span) (path : Path) (e : ElementEnd) : Prop :=
  ∀ p l, e = .close p l → ∃ ps ls wsp, Token.elementStart ps ls wsp ∈ ts ∧
    g ⟨path, .elementStart⟩ = some (Span.fromPrefixName ps ls) ∧ ps.text = p.text ∧ ls.text = l.text

def EndFacts (ts : List Token) (g : SpanKey → Option Span) (path : Path) : Prop :=
  ∃ e sp, Token.elementEnd e sp ∈ ts ∧ e ≠ .open ∧ g ⟨path, .elementEnd⟩ = some sp.span ∧ EndLink ts g path e

/-! ### Text runs -/

/-- A token that makes or extends a text node. -/
def Token.isReal : Token → Bool
  | .text _ => true
  | .cdata t _ => !t.text.isEmpty
  | _ => false

/-- A token that leaves the children of the current node and the `Text` spans alone. -/
def Token.passive : Token → Bool
  | .cdata t _ => t.text.isEmpty
  | .declaration _ _ _ _ => true
  | .elementStart _ _ _ => true
  | .attribute _ _ _ _ => true
  | _ => false

/-- What may occur inside a run. -/
def Token.isRunTok (t : Token) : Bool := t.isReal || t.passive

/-- The character data a run contributes: text tokens decoded by `parse_content`, CDATA content
    with CR LF / CR turned into LF. -/
def runValue : List Token → Option Str
  | [] => some []
  | .text t :: r =>
    match parseContentGo false t.start 0 t.text, runValue r with
    | .ok v, some w => some (v ++ w)
    | _, _ => none
  | .cdata t _ :: r => (runValue r).map (fun w => replaceCr (replaceCrLf t.text) ++ w)
  | _ :: r => runValue r

/-- `run` starts and ends with a real character-data token, and `sp` goes from the start of the
    first one's text to the end of the last one's. -/
structure RunOk (run : List Token) (sp : Span) : Prop where
  toks : ∀ t ∈ run, t.isRunTok = true
  first : ∃ t rest f, run = t :: rest ∧ t.isReal = true ∧ t.textSpan? = some f ∧ sp.start = f.start
  last : ∃ pre t l, run = pre ++ [t] ∧ t.isReal = true ∧ t.textSpan? = some l ∧ sp.stop = l.stop

def TextFacts (ts : List Token) (g : SpanKey → Option Span) (path : Path) (v : Str) : Prop :=
  ∃ run sp, run <:+: ts ∧ RunOk run sp ∧ runValue run = some v ∧ g ⟨path, .text⟩ = some sp

/-- The text node that can still be extended: its run ends, up to passive tokens, where the
    consumed tokens `done` end. -/
def OpenText (done : List Token) (g : SpanKey → Option Span) (path : Path) (v : Str) : Prop :=
  ∃ run skips sp, (run ++ skips) <:+ done ∧ (∀ t ∈ skips, t.passive = true) ∧ RunOk run sp ∧
    runValue run = some v ∧ g ⟨path, .text⟩ = some sp

def CommentFacts (ts : List Token) (g : SpanKey → Option Span) (path : Path) (v : Str) : Prop :=
  ∃ t sp, Token.comment t sp ∈ ts ∧ g ⟨path, .comment⟩ = some t.span ∧
    v = normalizeLineEnds t.text

def PiFacts (ts : List Token) (g : SpanKey → Option Span) (env : Env) (path : Path) (id : Nat)
    (d : Option Str) : Prop :=
  ∃ target content sp, Token.pi target content sp ∈ ts ∧
    g ⟨path, .piTarget⟩ = some target.span ∧
    env.names[id]? = some (target.text, Env.noNamespace) ∧
    d = content.map (fun c => normalizeLineEnds c.text) ∧
    (∀ c, content = some c → g ⟨path, .piContent⟩ = some c.span) ∧
    isReservedPiTarget target.text = false

/-! ### The tree -/

/-- The declarations in force inside a node: an element adds its own. -/
def innerStack (v : Value) (ks : List Tree) (stack : NsStack) : NsStack :=
  match v with
  | .element _ => sdDeclsOf ks :: stack
  | _ => stack

def NodeFacts (ts : List Token) (g : SpanKey → Option Span) (env : Env) (stack : NsStack) (path : Path)
    (v : Value) (ks : List Tree) : Prop :=
  match v with
  | .element id => StartFacts ts g env stack path id ks ∧ EndFacts ts g path
  | .text s => TextFacts ts g path s
  | .comment s => CommentFacts ts g path s
  | .pi id d => PiFacts ts g env path id d
  | _ => True

/-- Every node of the tree at `path` is described by a token; `stack` = declarations around it. -/
def Desc (ts : List Token) (g : SpanKey → Option Span) (env : Env) : NsStack → Path → Tree → Prop
  | stack, path, .node v ks =>
    NodeFacts ts g env (innerStack v ks stack) path v ks ∧ descList (innerStack v ks stack) path 0 ks
where
  descList : NsStack → Path → Nat → List Tree → Prop
    | _, _, _, [] => True
    | stack, path, i, k :: ks => Desc ts g env stack (path ++ [i]) k ∧ descList stack path (i + 1) ks

/-- Finished children of a frame at `path`, last child first. -/
def DescR (ts : List Token) (g : SpanKey → Option Span) (env : Env) (stack : NsStack) (path : Path) :
    List Tree → Prop
  | [] => True
  | k :: rest => Desc ts g env stack (path ++ [rest.length]) k ∧ DescR ts g env stack path rest

/-- One open frame at `path`; `stack` = the declarations in force inside it. -/
def FrameDesc (ts : List Token) (g : SpanKey → Option Span) (env : Env) (stack : NsStack) (path : Path)
    (f : Frame) : Prop :=
  DescR ts g env stack path f.rkids ∧
  match f.value with
  | .element id => StartFacts ts g env stack path id f.rkids ∧ stack.head? = some (sdDeclsOf f.rkids.reverse)
  | _ => stack = baseStack

/-- The stack below a frame. -/
def outerStack (v : Value) (stack : NsStack) : NsStack :=
  match v with
  | .element _ => stack.tail
  | _ => stack

/-- All open frames, current first. -/
def StackDesc (ts : List Token) (g : SpanKey → Option Span) (env : Env) : NsStack → List Frame → Prop
  | _, [] => True
  | stack, f :: rest =>
    FrameDesc ts g env stack (framesPath rest) f ∧ StackDesc ts g env (outerStack f.value stack) rest

/-- `open_prefixes` against the open frames (current first): every open element was opened by an
    `ElementStart` token whose name span is the recorded one, whose prefix AS WRITTEN is the entry of
    `open_prefixes` and whose local name is that of the element's name id. -/
def PfxDesc (ts : List Token) (g : SpanKey → Option Span) (env : Env) : List Frame → List Str → Prop
  | [], _ => True
  | f :: rest, ops =>
    match f.value with
    | .element id =>
      (∃ p l sp, Token.elementStart p l sp ∈ ts ∧
        g ⟨framesPath rest, .elementStart⟩ = some (Span.fromPrefixName p l) ∧ ops.head? = some p.text ∧
        ∃ ns, env.names[id]? = some (l.text, ns)) ∧ PfxDesc ts g env rest ops.tail
    | _ => PfxDesc ts g env rest ops

/-! ### Which keys a step may not touch -/

/-- `x` lies inside a finished subtree of one of the frames. -/
def Frozen : List Frame → Path → Prop
  | [], _ => False
  | f :: rest, x => (∃ i, i < f.rkids.length ∧ (framesPath rest ++ [i]) <+: x) ∨ Frozen rest x

/-- `k` is a start-tag key of one of the open frames. -/
def OwnKey : List Frame → SpanKey → Prop
  | [], _ => False
  | _ :: rest, k => (k.path = framesPath rest ∧ k.kind ≠ .elementEnd) ∨ OwnKey rest k

def Prot (l : List Frame) (k : SpanKey) : Prop := Frozen l k.path ∨ OwnKey l k

/-- Paths that may already carry keys: the open frames and everything inside finished subtrees. -/
def Seen (l : List Frame) (x : Path) : Prop := x <+: framesPath l.tail ∨ Frozen l x

/-! ### The pending start tag -/

def AbFacts (ts : List Token) (ab : AttributeBuilder) : Prop :=
  ∃ p l val sp, Token.attribute p l val sp ∈ ts ∧ ab.pfx = p.text ∧ ab.name = l.text ∧
    ab.nameSpan = Span.fromPrefixName p l ∧ ab.valueSpan = val.span ∧
    parseContentGo true val.start 0 val.text = .ok ab.value

def EbFacts (ts : List Token) (eb : ElementBuilder) : Prop :=
  (∃ p l sp, Token.elementStart p l sp ∈ ts ∧ eb.pfx = p.text ∧ eb.name = l.text ∧
    eb.span = Span.fromPrefixName p l) ∧
  ∀ ab ∈ eb.attributes, AbFacts ts ab

/-- The invariant of the token loop: `done` = the tokens consumed so far. -/
structure DInv (ts done : List Token) (b : Builder) : Prop where
  pre : done <+: ts
  stack : StackDesc ts b.spans.get b.env b.nsStack (b.cur :: b.parents)
  pfx : PfxDesc ts b.spans.get b.env (b.cur :: b.parents) b.openPrefixes
  eb : ∀ e, b.eb = some e → EbFacts ts e
  opn : ∀ s ks more, b.cur.rkids = .node (.text s) ks :: more →
    OpenText done b.spans.get (b.curPath ++ [more.length]) s
  seen : ∀ k, HasKey b.spans k → Seen (b.cur :: b.parents) k.path

end XotModel
