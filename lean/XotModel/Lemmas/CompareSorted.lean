/-
  Lemmas for C13, part 9: the canonical form is a sorted normal form.
  The attribute list of every element of `canon t` (t structurally valid) is strictly sorted by
  name; on strictly sorted lists the finite-map relation `attrsRel` (same size + lookup) is the
  position-wise comparison `attrsRelPos`; and position-wise comparison with `==` is equality.
-/
import XotModel.Lemmas.CompareRel

namespace XotModel

/-- Position-wise comparison of two attribute lists: same names in the same order, values
    related by `cmp`. -/
def attrsRelPos (cmp : TextCmp) : Attrs → Attrs → Bool
  | [], [] => true
  | x :: as, y :: bs => x.1 == y.1 && cmp x.2 y.2 && attrsRelPos cmp as bs
  | _, _ => false

def keyLt (a b : Nat × Str) : Prop := a.1 < b.1

/-- Strictly increasing names. -/
def strictSorted (l : Attrs) : Prop := l.Pairwise keyLt

/-! ### Strictly sorted lists -/

theorem strictSorted_of_sorted_nodup {l : Attrs} (hs : l.Pairwise keyLe) (hn : keysNodup l) : strictSorted l := by
  induction l with
  | nil => exact List.Pairwise.nil
  | cons x xs ih =>
    rw [keysNodup_cons] at hn
    rw [List.pairwise_cons] at hs
    refine List.pairwise_cons.mpr ⟨?_, ih hs.2 hn.2⟩
    intro y hy
    have h1 : x.1 ≤ y.1 := hs.1 y hy
    have h2 : y.1 ≠ x.1 := hn.1 y hy
    show x.1 < y.1
    omega

theorem sortAttrs_strictSorted {l : Attrs} (hn : keysNodup l) : strictSorted (sortAttrs l) :=
  strictSorted_of_sorted_nodup (sortAttrs_sorted l) (keysNodup_perm (sortAttrs_perm l).symm hn)

theorem keysNodup_of_strictSorted {l : Attrs} (h : strictSorted l) : keysNodup l := by
  induction l with
  | nil => exact List.nodup_nil
  | cons x xs ih =>
    rw [strictSorted, List.pairwise_cons] at h
    rw [keysNodup_cons]
    refine ⟨fun y hy e => ?_, ih h.2⟩
    have : x.1 < y.1 := h.1 y hy
    omega

theorem keys_pairwise_lt {l : Attrs} (h : strictSorted l) : (l.map (·.1)).Pairwise (· < ·) := by
  induction l with
  | nil => exact List.Pairwise.nil
  | cons x xs ih =>
    rw [strictSorted, List.pairwise_cons] at h
    simp only [List.map_cons, List.pairwise_cons, List.mem_map]
    refine ⟨?_, ih h.2⟩
    rintro k ⟨y, hy, rfl⟩
    exact h.1 y hy

/-- Nodup + inclusion + same length = permutation (any type). -/
theorem perm_of_subset_length' {α} [DecidableEq α] {l₁ l₂ : List α} (h₁ : l₁.Nodup) (hs : ∀ x ∈ l₁, x ∈ l₂)
    (hlen : l₁.length = l₂.length) : l₁.Perm l₂ := by
  induction l₁ generalizing l₂ with
  | nil =>
    have : l₂ = [] := List.eq_nil_of_length_eq_zero (by simpa using hlen.symm)
    subst this; exact List.Perm.refl _
  | cons x xs ih =>
    have hx : x ∈ l₂ := hs x List.mem_cons_self
    have hp : l₂.Perm (x :: l₂.erase x) := List.perm_cons_erase hx
    rw [List.nodup_cons] at h₁
    have hsub : ∀ y ∈ xs, y ∈ l₂.erase x := by
      intro y hy
      have hne : y ≠ x := fun e => h₁.1 (e ▸ hy)
      exact (List.mem_erase_of_ne hne).mpr (hs y (List.mem_cons_of_mem _ hy))
    have hl : xs.length = (l₂.erase x).length := by
      have := hp.length_eq
      simp only [List.length_cons] at this hlen
      omega
    exact ((ih h₁.2 hsub hl).cons x).trans hp.symm

/-! ### `attrsRel` on strictly sorted lists -/

theorem lookup_isSome_mem_keys {l : Attrs} {k : Nat} (h : (l.lookup k).isSome = true) : k ∈ l.map (·.1) := by
  cases hl : l.lookup k with
  | none => rw [hl] at h; cases h
  | some v => exact List.mem_map.mpr ⟨(k, v), mem_of_lookup hl, rfl⟩

/-- The finite-map relation forces the same names; strictly sorted lists then list them in the
    same order. -/
theorem keys_eq_of_attrsRel {cmp : TextCmp} {a b : Attrs} (ha : strictSorted a) (hb : strictSorted b)
    (h : attrsRel cmp a b = true) : a.map (·.1) = b.map (·.1) := by
  simp only [attrsRel, Bool.and_eq_true, beq_iff_eq, List.all_eq_true] at h
  obtain ⟨hlen, hall⟩ := h
  have hsub : ∀ k ∈ a.map (·.1), k ∈ b.map (·.1) := by
    intro k hk
    obtain ⟨kv, hkv, rfl⟩ := List.mem_map.mp hk
    have := hall kv hkv
    apply lookup_isSome_mem_keys
    cases hl : b.lookup kv.1 with
    | none => rw [hl] at this; simp [cmpFound] at this
    | some v => rfl
  have hp : (a.map (·.1)).Perm (b.map (·.1)) :=
    perm_of_subset_length' (keysNodup_of_strictSorted ha) hsub (by simpa using hlen)
  refine List.Perm.eq_of_pairwise (le := (· < ·)) ?_ (keys_pairwise_lt ha) (keys_pairwise_lt hb) hp
  intro x y _ _ hxy hyx
  omega

theorem keys_eq_of_attrsRelPos {cmp : TextCmp} : ∀ {a b : Attrs}, attrsRelPos cmp a b = true →
    a.map (·.1) = b.map (·.1)
  | [], [], _ => rfl
  | [], _ :: _, h => by simp [attrsRelPos] at h
  | _ :: _, [], h => by simp [attrsRelPos] at h
  | x :: as, y :: bs, h => by
    simp only [attrsRelPos, Bool.and_eq_true, beq_iff_eq] at h
    simp only [List.map_cons, h.1.1, keys_eq_of_attrsRelPos h.2]

theorem lookup_cons_ne {k k' : Nat} {v : Str} {l : Attrs} (h : k ≠ k') : List.lookup k ((k', v) :: l) = l.lookup k := by
  have : (k == k') = false := by simpa using h
  rw [List.lookup_cons, this]

/-- With the same names in the same order (no repetition), lookup is position. -/
theorem attrsRel_eq_pos_of_keys {cmp : TextCmp} : ∀ {a b : Attrs}, keysNodup a → a.map (·.1) = b.map (·.1) →
    attrsRel cmp a b = attrsRelPos cmp a b
  | [], [], _, _ => by simp [attrsRel, attrsRelPos]
  | [], _ :: _, _, h => by simp at h
  | _ :: _, [], _, h => by simp at h
  | (k, v) :: as, (k', v') :: bs, hn, h => by
    simp only [List.map_cons, List.cons.injEq] at h
    obtain ⟨hk, hrest⟩ := h
    subst hk
    rw [keysNodup_cons] at hn
    have ih := attrsRel_eq_pos_of_keys (cmp := cmp) hn.2 hrest
    have hl : as.all (fun kv => cmpFound cmp kv.2 (List.lookup kv.1 ((k, v') :: bs))) =
        as.all (fun kv => cmpFound cmp kv.2 (bs.lookup kv.1)) := by
      rw [Bool.eq_iff_iff]
      simp only [List.all_eq_true]
      constructor
      · intro h kv hkv; rw [← lookup_cons_ne (v := v') (hn.1 kv hkv)]; exact h kv hkv
      · intro h kv hkv; rw [lookup_cons_ne (hn.1 kv hkv)]; exact h kv hkv
    simp only [attrsRel, List.length_cons, List.all_cons, hl] at ih ⊢
    simp only [attrsRelPos, ← ih, List.lookup_cons_self, cmpFound, beq_self_eq_true, Bool.true_and]
    have : (as.length + 1 == bs.length + 1) = (as.length == bs.length) := by
      cases hh : as.length == bs.length <;> simp_all
    rw [this]
    cases as.length == bs.length <;> cases cmp v v' <;> simp

/-- On strictly sorted attribute lists "same size and every entry found" is position-wise
    comparison. -/
theorem attrsRel_eq_attrsRelPos (cmp : TextCmp) {a b : Attrs} (ha : strictSorted a) (hb : strictSorted b) :
    attrsRel cmp a b = attrsRelPos cmp a b := by
  by_cases hk : a.map (·.1) = b.map (·.1)
  · exact attrsRel_eq_pos_of_keys (keysNodup_of_strictSorted ha) hk
  · cases h1 : attrsRel cmp a b
    · cases h2 : attrsRelPos cmp a b
      · rfl
      · exact absurd (keys_eq_of_attrsRelPos h2) hk
    · exact absurd (keys_eq_of_attrsRel ha hb h1) hk

theorem attrsRelPos_strEq_iff : ∀ {a b : Attrs}, attrsRelPos strEq a b = true ↔ a = b
  | [], [] => by simp [attrsRelPos]
  | [], _ :: _ => by simp [attrsRelPos]
  | _ :: _, [] => by simp [attrsRelPos]
  | (k, v) :: as, (k', v') :: bs => by
    simp only [attrsRelPos, Bool.and_eq_true, beq_iff_eq, strEq, attrsRelPos_strEq_iff (a := as) (b := bs),
      List.cons.injEq, Prod.mk.injEq, and_assoc]

/-! ### Canonical forms -/

/-- `CValue.rel` with the attribute lists compared position-wise. -/
def CValue.relPos (cmp : TextCmp) : CValue → CValue → Bool
  | .element n a, .element m b => n == m && attrsRelPos cmp a b
  | v, w => CValue.rel cmp v w

mutual
/-- `Canon.rel` with the attribute lists compared position-wise: a plain simultaneous walk over the
    two normal forms. -/
def Canon.relPos (cmp : TextCmp) : Canon → Canon → Bool
  | .node v ks, .node w js => CValue.relPos cmp v w && Canon.relPosList cmp ks js
def Canon.relPosList (cmp : TextCmp) : List Canon → List Canon → Bool
  | [], [] => true
  | [], _ :: _ => false
  | _ :: _, [] => false
  | x :: xs, y :: ys => Canon.relPos cmp x y && Canon.relPosList cmp xs ys
end

def CValue.sorted : CValue → Prop
  | .element _ attrs => strictSorted attrs
  | _ => True

/-- Every element's attribute list is strictly sorted by name. -/
def Canon.sorted : Canon → Prop
  | .node v ks => v.sorted ∧ sortedList ks
where
  sortedList : List Canon → Prop
    | [] => True
    | k :: ks => Canon.sorted k ∧ sortedList ks

theorem cvalue_sorted {v : Value} {ks : List Tree} (h : attrNamesNodup ks = true) : (cvalue v ks).sorted := by
  cases v <;> simp only [cvalue, CValue.sorted]
  exact sortAttrs_strictSorted (by simpa [attrNamesNodup, keysNodup] using h)

theorem canonList_sorted {ks : List Tree} (h : ∀ k ∈ ks, (canon k).sorted) : Canon.sorted.sortedList (canon.canonList ks) := by
  induction ks with
  | nil => simp [canon.canonList, Canon.sorted.sortedList]
  | cons k ks ih =>
    have ih' := ih (fun x hx => h x (List.mem_cons_of_mem _ hx))
    simp only [canon.canonList]
    split
    · exact ⟨h k List.mem_cons_self, ih'⟩
    · exact ih'

/-- The canonical form of a valid tree is sorted. -/
theorem canon_sorted (t : Tree) : t.valid = true → (canon t).sorted := by
  induction t using Tree.induct_mem with
  | h v ks ih =>
    intro hv
    obtain ⟨_, hn, _, hk⟩ := valid_node hv
    exact ⟨cvalue_sorted hn, canonList_sorted (fun k hk' => ih k hk' (hk k hk'))⟩

theorem CValue.rel_eq_relPos (cmp : TextCmp) {v w : CValue} (hv : v.sorted) (hw : w.sorted) :
    CValue.rel cmp v w = CValue.relPos cmp v w := by
  cases v <;> cases w <;> simp only [CValue.rel, CValue.relPos]
  rw [attrsRel_eq_attrsRelPos cmp hv hw]

mutual
theorem Canon.rel_eq_relPos (cmp : TextCmp) : ∀ (x y : Canon), x.sorted → y.sorted →
    Canon.rel cmp x y = Canon.relPos cmp x y
  | .node v ks, .node w js, hx, hy => by
    simp only [Canon.rel, Canon.relPos, CValue.rel_eq_relPos cmp hx.1 hy.1,
      Canon.relList_eq_relPosList cmp ks js hx.2 hy.2]
theorem Canon.relList_eq_relPosList (cmp : TextCmp) : ∀ (xs ys : List Canon),
    Canon.sorted.sortedList xs → Canon.sorted.sortedList ys → Canon.relList cmp xs ys = Canon.relPosList cmp xs ys
  | [], [], _, _ => rfl
  | [], _ :: _, _, _ => rfl
  | _ :: _, [], _, _ => rfl
  | x :: xs, y :: ys, hx, hy => by
    simp only [Canon.relList, Canon.relPosList, Canon.rel_eq_relPos cmp x y hx.1 hy.1,
      Canon.relList_eq_relPosList cmp xs ys hx.2 hy.2]
end

theorem CValue.relPos_strEq_iff {v w : CValue} : CValue.relPos strEq v w = true ↔ v = w := by
  cases v <;> cases w <;> simp [CValue.relPos, CValue.rel, strEq, attrsRelPos_strEq_iff]
  case pi.pi t d t' d' =>
    cases d <;> cases d' <;> simp

mutual
/-- Position-wise comparison with `==` is equality of the normal forms. -/
theorem Canon.relPos_strEq_iff : ∀ (x y : Canon), Canon.relPos strEq x y = true ↔ x = y
  | .node v ks, .node w js => by
    simp only [Canon.relPos, Bool.and_eq_true, CValue.relPos_strEq_iff, Canon.relPosList_strEq_iff ks js,
      Canon.node.injEq]
theorem Canon.relPosList_strEq_iff : ∀ (xs ys : List Canon), Canon.relPosList strEq xs ys = true ↔ xs = ys
  | [], [] => by simp [Canon.relPosList]
  | [], _ :: _ => by simp [Canon.relPosList]
  | _ :: _, [] => by simp [Canon.relPosList]
  | x :: xs, y :: ys => by
    simp only [Canon.relPosList, Bool.and_eq_true, Canon.relPos_strEq_iff x y, Canon.relPosList_strEq_iff xs ys,
      List.cons.injEq]
end

end XotModel
