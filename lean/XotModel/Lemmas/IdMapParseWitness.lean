/-
  C08 and parsing, part 10: kernel-evaluable form of the trace (`parseContentGo` is defined by
  well-founded recursion; `Lemmas/ParseWitness.lean` has the fuel version), for closed examples.
-/
import XotModel.Lemmas.IdMapParseTop
import XotModel.Lemmas.ParseWitnessData

namespace XotModel

def prefixRegsE (pfx : Str) (uri : StrSpan) : List Reg :=
  match parseContentE true uri.start uri.text with
  | .error _ => []
  | .ok u => if reservedDecl pfx u then [] else [.pfx pfx, .ns u]

theorem prefixRegsE_eq (pfx : Str) (uri : StrSpan) : prefixRegsE pfx uri = prefixRegs pfx uri := by
  unfold prefixRegsE prefixRegs
  rw [parseContentE_eq]
  cases parseContentGo true uri.start 0 uri.text <;> rfl

def Builder.stepRegsE (b : Builder) : Token → List Reg
  | .attribute pfx loc value _ =>
    if pfx.bareColon then []
    else if pfx.text == ['x', 'm', 'l', 'n', 's'] then prefixRegsE loc.text value
    else if pfx.text.isEmpty && loc.text == ['x', 'm', 'l', 'n', 's'] then prefixRegsE [] value
    else []
  | t => b.stepRegs t

theorem stepRegsE_eq (b : Builder) (t : Token) : b.stepRegsE t = b.stepRegs t := by
  cases t with
  | «attribute» pfx loc value sp => simp only [Builder.stepRegsE, Builder.stepRegs, prefixRegsE_eq]
  | _ => rfl

def Builder.runRegsE (b : Builder) : List Token → List Reg
  | [] => []
  | t :: ts =>
    b.stepRegsE t ++
      match b.stepE t with
      | .ok b1 => Builder.runRegsE b1 ts
      | _ => []

theorem runRegsE_eq (ts : List Token) : ∀ b : Builder, b.runRegsE ts = b.runRegs ts := by
  induction ts with
  | nil => intro b; rfl
  | cons t ts ih =>
    intro b
    simp only [Builder.runRegsE, Builder.runRegs, stepRegsE_eq, stepE_eq]
    cases b.step t with
    | ok b1 => simp only [ih b1]
    | err e env => rfl
    | panic => rfl

theorem buildRegs_eq_E (env : Env) (ts : List Token) : buildRegs env ts = (Builder.new env).runRegsE ts :=
  (runRegsE_eq ts _).symm

open Witness in
/-- `Xot::new()` seen by the parser model. -/
theorem ofInterner_new : Env.ofInterner Interner.new = Env.fresh := by
  have h1 : Interner.new.namespaceLookup.byId = Env.fresh.namespaces := by decide
  have h2 : Interner.new.prefixLookup.byId = Env.fresh.prefixes := by decide
  have h3 : Interner.new.nameLookup.byId = Env.fresh.names := by decide
  unfold Env.ofInterner
  rw [h1, h2, h3]

open Witness in
theorem goodDoc_regsE : (Builder.new Env.fresh).runRegsE goodDoc =
    [.pfx ['p'], .ns ['u'], .pfx ['p'], .name ['a'] 2, .pfx [], .name ['b'] 0, .pfx ['p'], .name ['a'] 2] := by
  decide +kernel

open Witness in
/-- The calls of `<p:a xmlns:p='u' b='x&#10;y'><!--c-->t&lt;<![CDATA[c]]></p:a>` on a fresh `Xot`:
    the declaration (prefix, URI), the start tag (prefix, name in namespace 2), the attribute
    (empty prefix, name in no namespace), the end tag (prefix, name again). -/
theorem goodDoc_regs : buildRegs Env.fresh goodDoc =
    [.pfx ['p'], .ns ['u'], .pfx ['p'], .name ['a'] 2, .pfx [], .name ['b'] 0, .pfx ['p'], .name ['a'] 2] :=
  (buildRegs_eq_E _ _).trans goodDoc_regsE

end XotModel
