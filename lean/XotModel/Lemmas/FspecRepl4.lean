/-
  FspecRepl4 — C05 for `replace`: the main theorem.  A successful `replace(a, b)` on a forest with
  `Forest.Inv` and `Forest.Normal` gives, handle for handle, `Spec.specReplaceX a b f`:

  * `b` next to `a`: the call is `remove(a)` (`remove_spec`, `specReplace_adjacent`);
  * otherwise the last consolidation — of the node that followed `a` with whatever stands before it
    now (xot 609b613) — is, on a forest without adjacent text nodes, the consolidation of the former
    left neighbour of `a` with its next sibling (`replace_last_eq_old`, `no_corner_of_normal`), the
    form the following lemmas are stated with;
  * `a` not between two text nodes (or consolidation off): the forest after
    `remove_subtree(a)` is again valid and normal (`drop_inv_normal`), so `insert_after` /
    `prepend` are the specification's move on it (`insertAfter_spec`, `prepend_spec`), the extra
    consolidation does nothing (`insertAfter_merge_noop`), and "move on the forest without `a`"
    is `specReplace` (`specMove_after_drop`, `specMove_first_drop`);
  * `a` between two text nodes, consolidation on: the call is evaluated on the forest in which
    the two text nodes are adjacent (`replace_gap_text`: the three-way merge; `replace_gap_nontext_far`,
    `replace_gap_nontext_same`).
-/
import XotModel.Lemmas.FspecRepl3
import XotModel.Lemmas.FspecReplSpec
import XotModel.Lemmas.FspecReplValid
import XotModel.Lemmas.FspecReplGapT
import XotModel.Lemmas.FspecReplGapNF2
import XotModel.Lemmas.FspecReplGapNS2
import XotModel.Lemmas.FspecSamePrepend
import XotModel.Lemmas.FspecAllRepl6

namespace XotModel
open HTree Spec

/-- Either the replaced node does not sit between two text nodes (with consolidation on), or it
    does: `l = l0 ++ [P]`, `r = N :: r0` with `P`, `N` text. -/
theorem gap_or_not (f : Forest) (l r : List HTree) :
    (f.consolidation = true → ∀ x y, l.getLast? = some x → r.head? = some y →
      ¬ (x.value.isText = true ∧ y.value.isText = true)) ∨
    (f.consolidation = true ∧ ∃ l0 P N r0 ps ns, l = l0 ++ [P] ∧ r = N :: r0 ∧
      P.value = .text ps ∧ N.value = .text ns) := by
  by_cases hc : f.consolidation = true
  · cases hl : l.getLast? with
    | none => left; intro _ x y hx; cases hx
    | some P =>
      cases hr : r.head? with
      | none => left; intro _ x y _ hy; cases hy
      | some N =>
        by_cases ht : P.value.isText = true ∧ N.value.isText = true
        · right
          obtain ⟨l0, el⟩ := List.getLast?_eq_some_iff.1 hl
          obtain ⟨r0, er⟩ := List.head?_eq_some_iff.1 hr
          obtain ⟨ps, hps⟩ := isText_iff_textData.1 ht.1
          obtain ⟨ns, hns⟩ := isText_iff_textData.1 ht.2
          exact ⟨hc, l0, P, N, r0, ps, ns, el, er, textData_some hps, textData_some hns⟩
        · left
          intro _ x y hx hy
          cases hx; cases hy
          exact ht
  · left
    intro h; exact absurd h hc

/-- A forest without adjacent text nodes does not hold the children `… x b p a …` with `x`, `b`
    text nodes: the corner excluded in `replace_last_eq_old` does not occur. -/
theorem no_corner_of_normal {f : Forest} {a b q : Nat} {vq : Value} {l : List HTree} {A : HTree}
    {r : List HTree} {t : HTree} (ra : ReplArgs f a b q vq l A r t) (norm : f.Normal) :
    ∀ u x P N r0, l = u ++ x :: t :: [P] → r = N :: r0 → f.consolidation = true →
      x.value.isText = true → P.value.isText = true → ¬ (t.value.isText = true ∧ N.value.isText = true) := by
  intro u x P N r0 el _ hc hxt _ ⟨htt, _⟩
  have hno : noAdjacentText (l ++ A :: r) = true := (validTree_node (ra.sq.valid (norm hc))).2.2.1 rfl
  have e : l ++ A :: r = u ++ x :: t :: (P :: A :: r) := by rw [el]; simp
  rw [e] at hno
  have h2 := (noAdj_append.1 hno).2.1
  rw [noAdj_cons_cons, Bool.and_eq_true] at h2
  simp [hxt, htt] at h2

/-- **replace**, handle for handle. -/
theorem replace_spec {f : Forest} {a b : Nat} (inv : f.Inv) (norm : f.Normal)
    (hok : (f.replace a b).2 = .ok) :
    (f.replace a b).1 = specReplaceX a b f := by
  obtain ⟨q, vq, l, A, r, t, ra, h⟩ := replace_unpack inv hok
  unfold specReplaceX
  rcases h with ⟨hadj, heq⟩ | ⟨⟨h1, h2⟩, heq⟩
  · -- next to the replaced node: `remove`
    rw [heq, ra.keep_adjacent hadj,
      remove_spec (Keep.earlier_spec a) inv norm (Forest.isLive_of_get ra.live_a)]
    exact (specReplace_adjacent Keep.earlier inv ra hadj).symm
  · rw [ra.keep_moved h1 h2]
    have haA : A.handle = a := ra.ha
    rcases gap_or_not f l r with hng | ⟨hc, l0, P, N, r0, ps, ns, el, er, hP, hN⟩
    · -- the forest without `a` is valid and normal
      obtain ⟨inv1, norm1⟩ := drop_inv_normal inv norm ra.sq hng
      rw [haA] at inv1 norm1
      cases hp : prevOf l A with
      | none =>
        rw [hp] at heq
        simp only at heq
        rw [heq] at hok ⊢
        rw [prepend_spec inv1 norm1 hok]
        exact specMove_first_drop (Keep.resident b) inv ra hp h2
      | some p =>
        rw [hp] at heq
        simp only at heq
        rcases hia : (f.editAt (some q) (dropTop a)).insertAfter p b with ⟨f2, res⟩
        rw [hia] at heq
        have hres : res = .ok := by
          cases res with
          | ok => rfl
          | err e => rw [heq] at hok; cases hok
          | panic => rw [heq] at hok; cases hok
        subst hres
        simp only at heq
        have hlast := replace_last_eq_old ra inv h1 h2 hp hia (no_corner_of_normal ra norm)
        have heq1 : (f.replace a b).1 = (f2.removeConsolidate (some p) (f2.nextSibling p)).1 := by
          rw [heq, ← hlast]
          cases nextOf r A <;> rfl
        rw [heq1]
        have hok1 : ((f.editAt (some q) (dropTop a)).insertAfter p b).2 = .ok := by rw [hia]
        have hnoop := insertAfter_merge_noop inv1 norm1 hok1
        have hspec := insertAfter_spec inv1 norm1 hok1
        rw [hia] at hnoop hspec
        simp only at hnoop hspec
        rw [hnoop]
        simp only
        rw [hspec]
        exact specMove_after_drop (Keep.resident b) inv ra hp h1 h2
    · -- the gap
      subst el er
      have hPn : P.value.category = .normal := by rw [hP]; rfl
      have hp : prevOf (l0 ++ [P]) A = some P.handle := by
        simp [prevOf, hPn, ra.catA]
      have hbP : b ≠ P.handle := fun e => h1 (by rw [hp, e])
      have hbN : b ≠ N.handle := by
        intro e
        apply h2
        have hNn : N.value.category = .normal := by rw [hN]; rfl
        simp [nextOf, hNn, ra.catA, e]
      rw [hp] at heq
      simp only at heq
      have key : ∃ f2, (f.editAt (some q) (dropTop a)).insertAfter P.handle b = (f2, .ok) ∧
          (f2.removeConsolidate (some P.handle) (f2.nextSibling P.handle)).1
            = specReplace (Keep.resident b) a b f := by
        by_cases hbt : t.value.isText = true
        · obtain ⟨bs, hbs⟩ := isText_iff_textData.1 hbt
          exact replace_gap_text inv norm hc ra hP hN hbP hbN (textData_some hbs)
        · have hbt' : t.value.isText = false := by simpa using hbt
          by_cases hsame : f.parent? b = some q
          · exact replace_gap_nontext_same inv norm hc ra hP hN hbP hbN hbt' hsame
          · exact replace_gap_nontext_far inv norm hc ra hP hN hbt' hsame
      obtain ⟨f2, hia, hfin⟩ := key
      rw [hia] at heq
      simp only at heq
      have hlast := replace_last_eq_old ra inv h1 h2 hp hia (no_corner_of_normal ra norm)
      have heq1 : (f.replace a b).1 = (f2.removeConsolidate (some P.handle) (f2.nextSibling P.handle)).1 := by
        rw [heq, ← hlast]
        cases nextOf (N :: r0) A <;> rfl
      rw [heq1]
      exact hfin

end XotModel
