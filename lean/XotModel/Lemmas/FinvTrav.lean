/-
  Handles and paths (Model/FtravSpec.lean): `HTree.at?` commutes with `erase`, the node at the path of
  a handle carries that handle, the handles of a root tree are live in the forest, a structurally
  valid `HTree` erases to a `wf` tree — hence every path a traversal of Model/Axes.lean returns denotes
  a live handle (`Forest.traversals_live`).
-/
import XotModel.Model.FtravSpec
import XotModel.Lemmas.FinvReads
import XotModel.Lemmas.AxesValid

namespace XotModel
namespace HTree

theorem ftrav_eraseList_getElem? : ∀ (ks : List HTree) (i : Nat), (eraseList ks)[i]? = ks[i]?.map erase
  | [], _ => by simp [eraseList]
  | k :: ks, 0 => by simp [eraseList]
  | k :: ks, i + 1 => by simp [eraseList, ftrav_eraseList_getElem? ks i]

/-- `at?` commutes with forgetting the handles. -/
theorem ftrav_at?_erase : ∀ (p : Path) (r : HTree), r.erase.at? p = (r.at? p).map erase
  | [], r => by simp [Tree.at?, HTree.at?]
  | i :: p, node h v ks => by
    simp only [erase, Tree.at?, HTree.at?, ftrav_eraseList_getElem?]
    cases hk : ks[i]? with
    | none => rfl
    | some k => simpa using ftrav_at?_erase p k

/-- `handleAt` is the handle of the node at the path. -/
theorem ftrav_handleAt_eq : ∀ (p : Path) (r : HTree), r.handleAt p = (r.at? p).map handle
  | [], node h v ks => by simp [handleAt, HTree.at?, handle]
  | i :: p, node h v ks => by
    simp only [handleAt, HTree.at?]
    cases hk : ks[i]? with
    | none => rfl
    | some k => simpa using ftrav_handleAt_eq p k

theorem ftrav_handles_getElem? : ∀ (ks : List HTree) (i : Nat) (k : HTree), ks[i]? = some k →
    ∀ x ∈ handles k, x ∈ handlesList ks
  | [], _, _, h, _, _ => by simp at h
  | k' :: ks, 0, k, h, x, hx => by
    simp only [List.getElem?_cons_zero, Option.some.injEq] at h
    subst h; simp [handlesList, hx]
  | k' :: ks, i + 1, k, h, x, hx => by
    simp only [List.getElem?_cons_succ] at h
    simp [handlesList, ftrav_handles_getElem? ks i k h x hx]

/-- Everything below a node at a path is below the root. -/
theorem ftrav_handles_at? : ∀ (p : Path) (r s : HTree), r.at? p = some s → ∀ x ∈ handles s, x ∈ handles r
  | [], r, s, h, x, hx => by simp only [HTree.at?, Option.some.injEq] at h; subst h; exact hx
  | i :: p, node h' v ks, s, h, x, hx => by
    simp only [HTree.at?] at h
    cases hk : ks[i]? with
    | none => rw [hk] at h; cases h
    | some k =>
      rw [hk] at h
      have := ftrav_handles_at? p k s h x hx
      simp only [handles, List.mem_cons]
      exact Or.inr (ftrav_handles_getElem? ks i k hk x this)

theorem ftrav_handle_mem (s : HTree) : s.handle ∈ handles s := by
  cases s; simp [handles, handle]

mutual
  /-- The node at the path of `h` carries the handle `h`. -/
  theorem ftrav_pathOf_at? (h : Nat) : ∀ (r : HTree) (q : Path), pathOf h r = some q →
      ∃ s, r.at? q = some s ∧ s.handle = h
    | node h' v ks, q, hq => by
      simp only [pathOf] at hq
      split at hq
      · cases hq; exact ⟨_, rfl, by simpa [handle]⟩
      · obtain ⟨i, p, k, rfl, hk, hs⟩ := ftrav_pathOfList_at? h ks 0 q hq
        obtain ⟨s, hs1, hs2⟩ := hs
        refine ⟨s, ?_, hs2⟩
        simp only [HTree.at?]
        rw [Nat.zero_add, hk]; exact hs1
  theorem ftrav_pathOfList_at? (h : Nat) : ∀ (ks : List HTree) (j : Nat) (q : Path), pathOfList h j ks = some q →
      ∃ i p k, q = (j + i) :: p ∧ ks[i]? = some k ∧ ∃ s, k.at? p = some s ∧ s.handle = h
    | [], _, _, hq => by simp [pathOfList] at hq
    | k :: ks, j, q, hq => by
      simp only [pathOfList] at hq
      cases hp : pathOf h k with
      | some p =>
        rw [hp] at hq
        simp only [Option.some.injEq] at hq
        subst hq
        exact ⟨0, p, k, rfl, rfl, ftrav_pathOf_at? h k p hp⟩
      | none =>
        rw [hp] at hq
        obtain ⟨i, p, k', rfl, hk, hs⟩ := ftrav_pathOfList_at? h ks (j + 1) q hq
        exact ⟨i + 1, p, k', by congr 1; omega, by simpa using hk, hs⟩
end

mutual
  /-- A live handle has a path: `pathOf` finds every handle of the tree. -/
  theorem ftrav_pathOf_isSome (h : Nat) : ∀ (r : HTree), h ∈ handles r → (pathOf h r).isSome = true
    | node h' v ks, hm => by
      simp only [pathOf]
      split
      · rfl
      · rename_i hne
        simp only [handles, List.mem_cons] at hm
        rcases hm with rfl | hm
        · exact absurd rfl hne
        · exact ftrav_pathOfList_isSome h ks 0 hm
  theorem ftrav_pathOfList_isSome (h : Nat) : ∀ (ks : List HTree) (j : Nat), h ∈ handlesList ks →
      (pathOfList h j ks).isSome = true
    | [], _, hm => by simp [handlesList] at hm
    | k :: ks, j, hm => by
      simp only [pathOfList]
      cases hp : pathOf h k with
      | some p => rfl
      | none =>
        simp only [handlesList, List.mem_append] at hm
        rcases hm with hm | hm
        · have := ftrav_pathOf_isSome h k hm
          rw [hp] at this; cases this
        · exact ftrav_pathOfList_isSome h ks (j + 1) hm
end

/-- `pathOf` only finds handles of the tree. -/
theorem ftrav_pathOf_mem {h : Nat} {r : HTree} {q : Path} (hq : pathOf h r = some q) : h ∈ handles r := by
  obtain ⟨s, hs, rfl⟩ := ftrav_pathOf_at? h r q hq
  exact ftrav_handles_at? q r s hs _ (ftrav_handle_mem s)

theorem ftrav_pathOfList_getElem? (x : Nat) : ∀ (ks : List HTree) (j i : Nat) (k : HTree) (p : Path),
    (handlesList ks).Nodup → ks[i]? = some k → pathOf x k = some p → pathOfList x j ks = some ((j + i) :: p)
  | [], _, _, _, _, _, hk, _ => by simp at hk
  | k' :: ks, j, 0, k, p, _, hk, hp => by
    simp only [List.getElem?_cons_zero, Option.some.injEq] at hk
    subst hk
    simp [pathOfList, hp]
  | k' :: ks, j, i + 1, k, p, hnd, hk, hp => by
    simp only [List.getElem?_cons_succ] at hk
    simp only [handlesList, List.nodup_append] at hnd
    have hx : x ∈ handlesList ks := ftrav_handles_getElem? ks i k hk x (ftrav_pathOf_mem hp)
    have hnone : pathOf x k' = none := by
      cases hq : pathOf x k' with
      | none => rfl
      | some q => exact absurd rfl (hnd.2.2 x (ftrav_pathOf_mem hq) x hx)
    simp only [pathOfList, hnone]
    rw [ftrav_pathOfList_getElem? x ks (j + 1) i k p hnd.2.1 hk hp]
    congr 2; omega

/-- With distinct handles, `pathOf` inverts `handleAt`: the node at `p` is found at `p`. -/
theorem ftrav_pathOf_of_at? : ∀ (p : Path) (r s : HTree), (handles r).Nodup → r.at? p = some s →
    pathOf s.handle r = some p
  | [], r, s, _, h => by
    simp only [HTree.at?, Option.some.injEq] at h; subst h
    cases r; simp [pathOf, handle]
  | i :: p, node h' v ks, s, hnd, h => by
    simp only [HTree.at?] at h
    cases hk : ks[i]? with
    | none => rw [hk] at h; cases h
    | some k =>
      rw [hk] at h
      simp only [handles, List.nodup_cons] at hnd
      have hsk : s.handle ∈ handles k := ftrav_handles_at? p k s h _ (ftrav_handle_mem s)
      have hne : ¬ h' = s.handle := by
        intro e; exact hnd.1 (e ▸ ftrav_handles_getElem? ks i k hk _ hsk)
      have hndk : (handles k).Nodup := by
        have : ∀ (ks : List HTree) (i : Nat) (k : HTree), ks[i]? = some k → (handlesList ks).Nodup →
            (handles k).Nodup := by
          intro ks
          induction ks with
          | nil => intro i k hk; simp at hk
          | cons a ks ih =>
            intro i k hk hn
            simp only [handlesList, List.nodup_append] at hn
            cases i with
            | zero => simp only [List.getElem?_cons_zero, Option.some.injEq] at hk; subst hk; exact hn.1
            | succ i => exact ih i k (by simpa using hk) hn.2.1
        exact this ks i k hk hnd.2
      have := ftrav_pathOf_of_at? p k s hndk h
      simp only [pathOf, hne, if_false]
      simpa using ftrav_pathOfList_getElem? s.handle ks 0 i k p hnd.2 hk this

end HTree

open HTree

theorem ftrav_kidsOrdered_erase : ∀ (ks : List HTree), kidsOrdered ks = true →
    Axes.kidsOrdered (eraseList ks) = true := by
  intro ks
  -- once a normal child has been seen, every later child is normal
  have key : ∀ (ks : List HTree) (a : HTree), a.value.isNormal = true → kidsOrdered (a :: ks) = true →
      (eraseList ks).all (fun k => k.value.isNormal) = true := by
    intro ks
    induction ks with
    | nil => intro a _ _; simp [eraseList]
    | cons b ks ih =>
      intro a ha hk
      simp only [kidsOrdered, Bool.and_eq_true, decide_eq_true_eq] at hk
      have hb : b.value.isNormal = true := by
        have h1 := hk.1
        cases a with | node _ av _ => cases b with | node _ bv _ =>
          cases av <;> cases bv <;> simp_all [HTree.value, Value.isNormal, Value.category, Category.rank]
      simp only [eraseList, List.all_cons, Bool.and_eq_true]
      refine ⟨?_, ih b hb hk.2⟩
      cases b; simpa [erase, Tree.value, HTree.value] using hb
  induction ks with
  | nil => intro _; simp [eraseList, Axes.kidsOrdered]
  | cons a ks ih =>
    intro hk
    have hrest : kidsOrdered ks = true := by
      cases ks with
      | nil => rfl
      | cons b ks => simp only [kidsOrdered, Bool.and_eq_true] at hk; exact hk.2
    unfold Axes.kidsOrdered
    simp only [eraseList, List.dropWhile_cons]
    by_cases ha : a.value.isNormal = true
    · have hae : (erase a).value.isNormal = true := by cases a; simpa [erase, Tree.value, HTree.value] using ha
      simp only [hae, Bool.not_true, Bool.false_eq_true, if_false, List.all_cons, Bool.true_and]
      exact key ks a ha hk
    · have hae : (erase a).value.isNormal = false := by
        cases a; simpa [erase, Tree.value, HTree.value] using ha
      simp only [hae, Bool.not_false, if_true]
      exact ih hrest

mutual
  /-- A structurally valid handle tree erases to a tree satisfying the hypothesis `wf` of the C07
      theorems (non-normal nodes are leaves, no normal child before a non-normal one). -/
  theorem ftrav_wf_erase (b : Bool) : ∀ (r : HTree), validTree b r = true → Axes.wf r.erase = true
    | .node h v ks, hv => by
      simp only [validTree, Bool.and_eq_true] at hv
      obtain ⟨⟨⟨⟨⟨hall, hord⟩, _⟩, _⟩, _⟩, hl⟩ := hv
      simp only [erase, Axes.wf, Bool.and_eq_true, Bool.or_eq_true]
      refine ⟨⟨?_, ftrav_kidsOrdered_erase ks hord⟩, ftrav_wfList_erase b ks hl⟩
      cases ks with
      | nil => right; rfl
      | cons k ks =>
        left
        simp only [List.all_cons, Bool.and_eq_true] at hall
        have := hall.1
        cases v <;> simp_all [kidAllowed, Value.isNormal, Value.category]
  theorem ftrav_wfList_erase (b : Bool) : ∀ (ks : List HTree), validList b ks = true →
      Axes.wfList (eraseList ks) = true
    | [], _ => by simp [eraseList, Axes.wfList]
    | k :: ks, hv => by
      simp only [validList, Bool.and_eq_true] at hv
      simp only [eraseList, Axes.wfList, Bool.and_eq_true]
      exact ⟨ftrav_wf_erase b k hv.1, ftrav_wfList_erase b ks hv.2⟩
end

theorem ftrav_validList_mem (b : Bool) : ∀ (L : List HTree) (t : HTree), validList b L = true → t ∈ L →
    validTree b t = true
  | [], _, _, ht => by cases ht
  | k :: L, t, hv, ht => by
    simp only [validList, Bool.and_eq_true] at hv
    rcases List.mem_cons.mp ht with rfl | ht'
    · exact hv.1
    · exact ftrav_validList_mem b L t hv.2 ht'

theorem ftrav_mem_handlesList : ∀ (L : List HTree) (r : HTree) (x : Nat), r ∈ L → x ∈ handles r →
    x ∈ handlesList L
  | [], _, _, hr, _ => by cases hr
  | k :: L, r, x, hr, hx => by
    simp only [handlesList, List.mem_append]
    rcases List.mem_cons.mp hr with rfl | hr'
    · exact Or.inl hx
    · exact Or.inr (ftrav_mem_handlesList L r x hr' hx)

theorem ftrav_nodup_mem : ∀ (L : List HTree) (r : HTree), (handlesList L).Nodup → r ∈ L → (handles r).Nodup
  | [], _, _, hr => by cases hr
  | k :: L, r, hn, hr => by
    simp only [handlesList, List.nodup_append] at hn
    rcases List.mem_cons.mp hr with rfl | hr'
    · exact hn.1
    · exact ftrav_nodup_mem L r hn.2.1 hr'

namespace Forest

/-- The root tree of a live handle exists, is one of the forest's trees and contains the handle. -/
theorem rootOf?_of_live {f : Forest} {h : Nat} (hl : f.isLive h = true) :
    ∃ r, f.rootOf? h = some r ∧ r ∈ f.roots ∧ ∃ q, HTree.pathOf h r = some q := by
  have hm := mem_allHandles_of_isLive hl
  unfold allHandles at hm
  have : ∃ r ∈ f.roots, h ∈ handles r := by
    generalize f.roots = L at hm
    induction L with
    | nil => simp [handlesList] at hm
    | cons k L ih =>
      simp only [handlesList, List.mem_append] at hm
      rcases hm with hm | hm
      · exact ⟨k, List.mem_cons_self .., hm⟩
      · obtain ⟨r, hr, hx⟩ := ih hm; exact ⟨r, List.mem_cons_of_mem _ hr, hx⟩
  obtain ⟨r0, hr0, hx0⟩ := this
  unfold rootOf?
  cases hf : f.roots.find? (fun r => (HTree.pathOf h r).isSome) with
  | none =>
    have := List.find?_eq_none.mp hf r0 hr0
    rw [ftrav_pathOf_isSome h r0 hx0] at this
    exact absurd rfl this
  | some r =>
    refine ⟨r, rfl, List.mem_of_find?_eq_some hf, ?_⟩
    have := List.find?_some hf
    cases hp : HTree.pathOf h r with
    | none => rw [hp] at this; cases this
    | some q => exact ⟨q, rfl⟩

/-- **Traversals hand out live nodes.**  `r` a tree of a forest satisfying the invariant, `q` the path
    of a handle `h` in it: every path `p` in the answer of any traversal entry point run on
    `(r.erase, q)` is a node of `r.erase`, namely the erasure of the node `s` of `r` at `p`; its handle is
    live in the forest and not removed. -/
theorem traversals_live {f : Forest} (hi : f.Inv) {r : HTree} (hr : r ∈ f.roots) {h : Nat} {q : Path}
    (hq : HTree.pathOf h r = some q) (tr : Axes.Trav) {p : Path} (hp : p ∈ tr.result r.erase q) :
    ∃ s, r.at? p = some s ∧ r.erase.at? p = some s.erase ∧ HTree.handleAt r p = some s.handle ∧
      HTree.pathOf s.handle r = some p ∧ f.isLive s.handle = true ∧ f.isRemoved s.handle = false := by
  have hwf : Axes.wf r.erase = true := ftrav_wf_erase _ r (ftrav_validList_mem _ _ r hi.valid hr)
  obtain ⟨s0, hs0, _⟩ := ftrav_pathOf_at? h r q hq
  have hvq : Axes.Valid r.erase q := by
    unfold Axes.Valid; rw [ftrav_at?_erase, hs0]; rfl
  have hvp := Axes.trav_valid hwf hvq tr p hp
  unfold Axes.Valid at hvp
  rw [ftrav_at?_erase] at hvp
  cases hs : r.at? p with
  | none => rw [hs] at hvp; cases hvp
  | some s =>
    have hlive : f.isLive s.handle = true :=
      isLive_of_mem_allHandles (ftrav_mem_handlesList _ r _ hr (ftrav_handles_at? p r s hs _ (ftrav_handle_mem s)))
    exact ⟨s, rfl, by rw [ftrav_at?_erase, hs]; rfl, by simp [ftrav_handleAt_eq, hs],
      ftrav_pathOf_of_at? p r s (ftrav_nodup_mem _ r hi.nodup hr) hs, hlive, isRemoved_false_of_live hlive⟩

end Forest
end XotModel
