/-
  XotModel.Lemmas.ArenaIterKids — the sibling-chain iterators on a well-formed arena:
  `children` yields the list-level children in order, `reverse_children` (= what xot's own
  `reverse_children` walks) the same list reversed, `following_siblings` / `preceding_siblings`
  the node and what follows / precedes it; none of them reaches its limit, panics or yields a
  removed id.
-/
import XotModel.Lemmas.ArenaSibling

namespace XotModel
namespace Arena

/-- Forward walk over a suffix of the children of `p`, up to the given last child. -/
theorem Rep.walkTo_next {a : Arena} {g : Shape} (r : Rep a g) (p : Nat) (last : Nat) :
    ∀ (suf pre : List Nat) (k : Nat), g.kids p = pre ++ k :: suf → (k :: suf).getLast? = some last →
      ∀ limit, (k :: suf).length ≤ limit →
      walkTo a (·.next) limit (some (a.idAt k)) (some (a.idAt last)) = .done a ((k :: suf).map a.idAt) := by
  intro suf
  induction suf with
  | nil =>
    intro pre k hk hl limit hlim
    simp at hl; subst hl
    obtain ⟨n, rfl⟩ : ∃ n, limit = n + 1 := ⟨limit - 1, by simp at hlim; omega⟩
    simp [walkTo]
  | cons k' rest ih =>
    intro pre k hk hl limit hlim
    obtain ⟨n, rfl⟩ : ∃ n, limit = n + 1 := ⟨limit - 1, by simp at hlim; omega⟩
    have hnd : (pre ++ k :: k' :: rest).Nodup := by rw [← hk]; exact r.kidsNodup p
    have hkmem : k ∈ g.kids p := by rw [hk]; simp
    obtain ⟨sk, hsk, hk0⟩ := (r.kidsLive p k hkmem).2.1
    have hparent := (r.kidsLive p k hkmem).2.2
    have hlast' : (k' :: rest).getLast? = some last := by rw [List.getLast?_cons_cons] at hl; exact hl
    have hne : k ≠ last := by
      intro e; subst e
      have := (List.nodup_append.mp hnd).2.1
      exact (List.nodup_cons.mp this).1 (List.mem_of_getLast? hlast')
    unfold walkTo
    simp only [idAt_ne a hne, if_false]
    rw [rd_some _ _ _ _ (show a.slot (a.idAt k).index0 = some sk by rw [idAt_index0]; exact hsk)]
    obtain ⟨L1, R1, e1, _, e3⟩ := (r.ptrs k sk hsk hk0).sib p hparent
    obtain ⟨_, hR⟩ := split_unique (by rw [← e1]; exact r.kidsNodup p) (e1.symm.trans hk)
    subst hR
    have hnext : sk.next = some (a.idAt k') := by rw [e3]; rfl
    simp only [hnext]
    rw [ih (pre ++ [k]) k' (by rw [hk]; simp) hlast' n (by simp at hlim ⊢; omega)]
    simp

/-- `children`. -/
theorem Rep.children_eq {a : Arena} {g : Shape} (r : Rep a g) (p : Nat) (hp : Live a p) (limit : Nat)
    (hlim : (g.kids p).length ≤ limit) :
    children a (a.idAt p) limit = .done a ((g.kids p).map a.idAt) := by
  obtain ⟨sp, hsp, hp0⟩ := hp
  unfold children
  rw [rd_some _ _ _ _ (show a.slot (a.idAt p).index0 = some sp by rw [idAt_index0]; exact hsp)]
  have P := r.ptrs p sp hsp hp0
  rw [P.first, P.last]
  cases hk : g.kids p with
  | nil => cases limit <;> simp [walkTo]
  | cons k suf =>
    cases hl : (k :: suf).getLast? with
    | none => simp at hl
    | some last =>
      simp only [List.head?_cons, Option.map_some]
      exact r.walkTo_next p last suf [] k (by rw [hk]; rfl) hl limit (by rw [hk] at hlim; exact hlim)

/-- Backward walk (`Iter` along `previous_sibling`) over a prefix of the children of `p`. -/
theorem Rep.walk_prev {a : Arena} {g : Shape} (r : Rep a g) (p : Nat) :
    ∀ (rpre suf : List Nat) (k : Nat), g.kids p = rpre.reverse ++ k :: suf → ∀ limit, (k :: rpre).length ≤ limit →
      walk a (·.prev) limit (some (a.idAt k)) = .done a ((k :: rpre).map a.idAt) := by
  intro rpre
  induction rpre with
  | nil =>
    intro suf k hk limit hlim
    obtain ⟨n, rfl⟩ : ∃ n, limit = n + 1 := ⟨limit - 1, by simp at hlim; omega⟩
    have hkmem : k ∈ g.kids p := by rw [hk]; simp
    obtain ⟨sk, hsk, hk0⟩ := (r.kidsLive p k hkmem).2.1
    obtain ⟨L1, R1, e1, e2, _⟩ := (r.ptrs k sk hsk hk0).sib p (r.kidsLive p k hkmem).2.2
    obtain ⟨hL, _⟩ := split_unique (by rw [← e1]; exact r.kidsNodup p) (e1.symm.trans hk)
    subst hL
    unfold walk
    simp only []
    rw [rd_some _ _ _ _ (show a.slot (a.idAt k).index0 = some sk by rw [idAt_index0]; exact hsk)]
    have : sk.prev = none := by rw [e2]; rfl
    rw [this]
    cases n <;> simp [walk]
  | cons k' rp ih =>
    intro suf k hk limit hlim
    obtain ⟨n, rfl⟩ : ∃ n, limit = n + 1 := ⟨limit - 1, by simp at hlim; omega⟩
    have hkmem : k ∈ g.kids p := by rw [hk]; simp
    obtain ⟨sk, hsk, hk0⟩ := (r.kidsLive p k hkmem).2.1
    obtain ⟨L1, R1, e1, e2, _⟩ := (r.ptrs k sk hsk hk0).sib p (r.kidsLive p k hkmem).2.2
    obtain ⟨hL, _⟩ := split_unique (by rw [← e1]; exact r.kidsNodup p) (e1.symm.trans hk)
    subst hL
    unfold walk
    simp only []
    rw [rd_some _ _ _ _ (show a.slot (a.idAt k).index0 = some sk by rw [idAt_index0]; exact hsk)]
    have : sk.prev = some (a.idAt k') := by rw [e2]; simp
    rw [this, ih (k :: suf) k' (by rw [hk]; simp) n (by simp at hlim ⊢; omega)]
    simp

/-- `reverse_children` (the deprecated `ReverseChildren`; xot's `reverse_children` walks the
    same pointers itself). -/
theorem Rep.reverseChildren_eq {a : Arena} {g : Shape} (r : Rep a g) (p : Nat) (hp : Live a p) (limit : Nat)
    (hlim : (g.kids p).length ≤ limit) :
    reverseChildren a (a.idAt p) limit = .done a ((g.kids p).reverse.map a.idAt) := by
  obtain ⟨sp, hsp, hp0⟩ := hp
  unfold reverseChildren
  rw [rd_some _ _ _ _ (show a.slot (a.idAt p).index0 = some sp by rw [idAt_index0]; exact hsp)]
  rw [(r.ptrs p sp hsp hp0).last]
  rcases List.eq_nil_or_concat (g.kids p) with hk | ⟨pre, k, hk⟩
  · rw [hk]
    cases limit <;> rfl
  · have := r.walk_prev p pre.reverse [] k (by rw [hk]; simp) limit (by rw [hk] at hlim; simpa using hlim)
    rw [hk]
    simp
    rw [this]; simp

/-- `following_siblings` of a node with a parent: the node, then what follows it. -/
theorem Rep.followingSiblings_eq {a : Arena} {g : Shape} (r : Rep a g) (i p : Nat) (L R : List Nat) (hi : Live a i)
    (hpar : g.par i = some p) (hk : g.kids p = L ++ i :: R) (limit : Nat) (hlim : (i :: R).length ≤ limit) :
    followingSiblings a (a.idAt i) limit = .done a ((i :: R).map a.idAt) := by
  obtain ⟨si, hsi, hi0⟩ := hi
  obtain ⟨sp, hsp, hp0⟩ := (r.live_of_par hpar).2
  unfold followingSiblings parentField get
  have hsi' : a.nodes[(a.idAt i).index0]? = some si := by rw [idAt_index0]; exact hsi
  have hparent : si.parent = some (a.idAt p) := by rw [(r.ptrs i si hsi hi0).parent, hpar]; rfl
  have hsp' : a.nodes[(a.idAt p).index0]? = some sp := by rw [idAt_index0]; exact hsp
  simp only [hsi', hparent, hsp']
  rw [(r.ptrs p sp hsp hp0).last, hk]
  cases hl : (L ++ i :: R).getLast? with
  | none => simp at hl
  | some last =>
    simp only [Option.map_some]
    have hl' : (i :: R).getLast? = some last := by
      rw [List.getLast?_append] at hl
      cases h : (i :: R).getLast? with
      | none => simp at h
      | some x => rw [h] at hl; simpa using hl
    exact r.walkTo_next p last R L i hk hl' limit hlim

/-- A parentless node is its own only following / preceding sibling. -/
theorem Rep.followingSiblings_root {a : Arena} {g : Shape} (r : Rep a g) (i : Nat) (hi : Live a i)
    (hpar : g.par i = none) (limit : Nat) (hlim : 1 ≤ limit) :
    followingSiblings a (a.idAt i) limit = .done a [a.idAt i] := by
  obtain ⟨si, hsi, hi0⟩ := hi
  unfold followingSiblings parentField get
  have hsi' : a.nodes[(a.idAt i).index0]? = some si := by rw [idAt_index0]; exact hsi
  have hparent : si.parent = none := by rw [(r.ptrs i si hsi hi0).parent, hpar]; rfl
  simp only [hsi', hparent]
  obtain ⟨n, rfl⟩ : ∃ n, limit = n + 1 := ⟨limit - 1, by omega⟩
  unfold walkTo
  simp only []
  rw [rd_some _ _ _ _ (show a.slot (a.idAt i).index0 = some si by rw [idAt_index0]; exact hsi)]
  rw [((r.ptrs i si hsi hi0).root hpar).2]
  cases n <;> simp [walkTo]

/-- Backward walk up to the first child (`DoubleEndedIter` along `previous_sibling`). -/
theorem Rep.walkTo_prev {a : Arena} {g : Shape} (r : Rep a g) (p : Nat) (first : Nat) :
    ∀ (rpre suf : List Nat) (k : Nat), g.kids p = rpre.reverse ++ k :: suf → (g.kids p).head? = some first →
      ∀ limit, (k :: rpre).length ≤ limit →
      walkTo a (·.prev) limit (some (a.idAt k)) (some (a.idAt first)) = .done a ((k :: rpre).map a.idAt) := by
  intro rpre
  induction rpre with
  | nil =>
    intro suf k hk hf limit hlim
    obtain ⟨n, rfl⟩ : ∃ n, limit = n + 1 := ⟨limit - 1, by simp at hlim; omega⟩
    rw [hk] at hf; simp at hf; subst hf
    simp [walkTo]
  | cons k' rp ih =>
    intro suf k hk hf limit hlim
    obtain ⟨n, rfl⟩ : ∃ n, limit = n + 1 := ⟨limit - 1, by simp at hlim; omega⟩
    have hnd : ((k' :: rp).reverse ++ k :: suf).Nodup := by rw [← hk]; exact r.kidsNodup p
    have hkmem : k ∈ g.kids p := by rw [hk]; simp
    obtain ⟨sk, hsk, hk0⟩ := (r.kidsLive p k hkmem).2.1
    have hfirstmem : first ∈ (k' :: rp).reverse := by
      rw [hk] at hf
      have : ((k' :: rp).reverse ++ k :: suf).head? = (k' :: rp).reverse.head? := by
        cases h : (k' :: rp).reverse with
        | nil => simp at h
        | cons y ys => simp
      rw [this] at hf
      exact List.mem_of_mem_head? hf
    have hne : k ≠ first := by
      intro e; subst e
      exact (List.nodup_append.mp hnd).2.2 k hfirstmem k (by simp) rfl
    unfold walkTo
    simp only [idAt_ne a hne, if_false]
    rw [rd_some _ _ _ _ (show a.slot (a.idAt k).index0 = some sk by rw [idAt_index0]; exact hsk)]
    obtain ⟨L1, R1, e1, e2, _⟩ := (r.ptrs k sk hsk hk0).sib p (r.kidsLive p k hkmem).2.2
    obtain ⟨hL, _⟩ := split_unique (by rw [← e1]; exact r.kidsNodup p) (e1.symm.trans hk)
    have hprev : sk.prev = some (a.idAt k') := by rw [e2, hL]; simp
    simp only [hprev]
    rw [ih (k :: suf) k' (by rw [hk]; simp) hf n (by simp at hlim ⊢; omega)]
    simp

/-- `preceding_siblings` of a node with a parent: the node, then what precedes it, nearest first. -/
theorem Rep.precedingSiblings_eq {a : Arena} {g : Shape} (r : Rep a g) (i p : Nat) (L R : List Nat) (hi : Live a i)
    (hpar : g.par i = some p) (hk : g.kids p = L ++ i :: R) (limit : Nat) (hlim : (i :: L).length ≤ limit) :
    precedingSiblings a (a.idAt i) limit = .done a ((i :: L.reverse).map a.idAt) := by
  obtain ⟨si, hsi, hi0⟩ := hi
  obtain ⟨sp, hsp, hp0⟩ := (r.live_of_par hpar).2
  unfold precedingSiblings parentField get
  have hsi' : a.nodes[(a.idAt i).index0]? = some si := by rw [idAt_index0]; exact hsi
  have hparent : si.parent = some (a.idAt p) := by rw [(r.ptrs i si hsi hi0).parent, hpar]; rfl
  have hsp' : a.nodes[(a.idAt p).index0]? = some sp := by rw [idAt_index0]; exact hsp
  simp only [hsi', hparent, hsp']
  rw [(r.ptrs p sp hsp hp0).first]
  cases hf : (g.kids p).head? with
  | none => rw [hk] at hf; cases L <;> simp at hf
  | some first =>
    simp only [Option.map_some]
    exact r.walkTo_prev p first L.reverse R i (by rw [hk]; simp) hf limit (by simpa using hlim)

end Arena
end XotModel
